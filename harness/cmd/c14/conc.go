package main

import (
	"bytes"
	"fmt"
	"runtime"
	"runtime/debug"
	"sync"
	"sync/atomic"
	"time"

	"github.com/syndtr/goleveldb/leveldb/memdb"
	"github.com/syndtr/goleveldb/leveldb/util"
	"verifharness/lib/vlib"
)

// One concurrent round: one writer (Put/Delete on a volatile key set, overwrites with changing
// value lengths) and nReaders readers (iterators with and without slices stepping forward and
// backward, Get, Find, Contains) on one memdb.DB.  Checked for every reader:
//   - no panic (recover), no hang (watchdog);
//   - every Next from a valid position yields a strictly larger key, every Prev a strictly
//     smaller one, Seek(k)/Find(k) yield a key >= k, all inside the iterator's slice;
//   - every pair yielded (iterator, Get, Find) was stored at some time (the writer logs every
//     pair before it calls Put);
//   - keys stored before the readers start and never touched again ("stable") are seen by every
//     complete forward or backward scan, with their values, and by Get/Contains.
type concCfg struct {
	Seed     uint64 `json:"seed"`
	Cmp      int    `json:"cmp"`
	Writes   int    `json:"writes"`
	Pool     int    `json:"pool"`
	Readers  int    `json:"readers"`
	Capacity int    `json:"capacity"`
}

type everSet struct {
	mu sync.RWMutex
	m  map[string]bool
}

func (e *everSet) add(k, v []byte) {
	e.mu.Lock()
	e.m[pairKey(k, v)] = true
	e.mu.Unlock()
}
func (e *everSet) has(k, v []byte) bool {
	e.mu.RLock()
	defer e.mu.RUnlock()
	return e.m[pairKey(k, v)]
}

type concStats struct {
	steps, scans, nexts, prevs, gets int64
}

func runConc(cfg concCfg, st *concStats) (fail string) {
	cmp := vlib.ComparerByID(cfg.Cmp)
	r := vlib.NewRNG(cfg.Seed)
	db := memdb.New(cmp, cfg.Capacity)
	pool := keyPool(r, cfg.Pool)
	ever := &everSet{m: map[string]bool{}}
	// stable keys: every third pool key, stored up front
	stable := newOracle(cmp)
	var volatile [][]byte
	for i, k := range pool {
		if i%3 == 0 {
			v := genValue(r, false)
			ever.add(k, v)
			db.Put(k, v)
			stable.put(k, v)
		} else {
			volatile = append(volatile, k)
		}
	}
	if len(volatile) == 0 {
		volatile = append(volatile, []byte("volatile"))
	}
	var failMu sync.Mutex
	setFail := func(f string, a ...interface{}) {
		failMu.Lock()
		if fail == "" {
			fail = fmt.Sprintf(f, a...)
		}
		failMu.Unlock()
	}
	failed := func() bool {
		failMu.Lock()
		defer failMu.Unlock()
		return fail != ""
	}
	var done int32
	var ticks int64 // completed writer operations + reader steps, for the watchdog
	var wg sync.WaitGroup
	// writer
	wr := r.Fork()
	wg.Add(1)
	go func() {
		defer wg.Done()
		defer atomic.StoreInt32(&done, 1)
		defer func() {
			if e := recover(); e != nil {
				setFail("writer panicked: %v\n%s", e, debug.Stack())
			}
		}()
		for i := 0; i < cfg.Writes && !failed(); i++ {
			k := volatile[wr.Intn(len(volatile))]
			if wr.Chance(7, 10) {
				v := genValue(wr, false)
				ever.add(k, v)
				if err := db.Put(k, v); err != nil {
					setFail("writer: Put returned %v", err)
				}
			} else {
				if err := db.Delete(k); err != nil && err != memdb.ErrNotFound {
					setFail("writer: Delete returned %v", err)
				}
			}
			atomic.AddInt64(&ticks, 1)
			if wr.Chance(1, 8) {
				runtime.Gosched()
			}
		}
	}()
	// readers
	for ri := 0; ri < cfg.Readers; ri++ {
		rr := r.Fork()
		id := ri
		wg.Add(1)
		go func() {
			defer wg.Done()
			defer func() {
				if e := recover(); e != nil {
					setFail("reader %d panicked: %v\n%s", id, e, debug.Stack())
				}
			}()
			extra := 3 // a few more walks after the writer finished
			for !failed() {
				if atomic.LoadInt32(&done) == 1 {
					if extra--; extra < 0 {
						return
					}
				}
				// a new iterator with a random slice
				c := &ocur{}
				var sl *util.Range
				var o Op
				genSlice(rr, pool, &o)
				if o.HasSlice {
					sl = &util.Range{Start: unhx(o.Start), Limit: unhx(o.Limit)}
					c.hasSlice, c.start, c.limit = true, sl.Start, sl.Limit
				}
				it := db.NewIterator(sl)
				check := func(what string) bool {
					atomic.AddInt64(&ticks, 1)
					if !it.Valid() {
						if it.Key() != nil || it.Value() != nil {
							setFail("reader %d: %s: invalid iterator with non-nil key/value", id, what)
						}
						return false
					}
					k, v := it.Key(), it.Value()
					if !c.inRange(cmp, k) {
						setFail("reader %d: %s yields %x outside slice [%x,%x)", id, what, k, c.start, c.limit)
					}
					if !ever.has(k, v) {
						setFail("reader %d: %s yields pair %x=%x that was never stored", id, what, k, v)
					}
					if sv, ok := stable.get(k); ok && !bytes.Equal(sv, v) {
						setFail("reader %d: %s yields stable key %x with value %x, stored %x", id, what, k, v, sv)
					}
					return true
				}
				switch rr.Pick(3, 3, 4, 2) {
				case 0: // complete forward scan
					atomic.AddInt64(&st.scans, 1)
					var last []byte
					first := true
					var seenStable [][]byte
					for ok := it.First(); ok; ok = it.Next() {
						atomic.AddInt64(&st.nexts, 1)
						if !check("forward scan") {
							setFail("reader %d: movement returned true but iterator invalid", id)
							break
						}
						k := append([]byte{}, it.Key()...)
						if !first && cmp.Compare(last, k) >= 0 {
							setFail("reader %d: forward scan yields %x after %x: not increasing", id, k, last)
						}
						if _, ok := stable.get(k); ok {
							seenStable = append(seenStable, k)
						}
						last, first = k, false
						if failed() {
							break
						}
					}
					if it.Valid() {
						setFail("reader %d: Next returned false but iterator valid", id)
					}
					checkStableSeen(stable, c, seenStable, false, id, setFail)
				case 1: // complete backward scan
					atomic.AddInt64(&st.scans, 1)
					var last []byte
					first := true
					var seenStable [][]byte
					for ok := it.Last(); ok; ok = it.Prev() {
						atomic.AddInt64(&st.prevs, 1)
						if !check("backward scan") {
							setFail("reader %d: movement returned true but iterator invalid", id)
							break
						}
						k := append([]byte{}, it.Key()...)
						if !first && cmp.Compare(last, k) <= 0 {
							setFail("reader %d: backward scan yields %x after %x: not decreasing", id, k, last)
						}
						if _, ok := stable.get(k); ok {
							seenStable = append(seenStable, k)
						}
						last, first = k, false
						if failed() {
							break
						}
					}
					checkStableSeen(stable, c, seenStable, true, id, setFail)
				case 2: // random walk
					for n := rr.Range(5, 60); n > 0 && !failed(); n-- {
						atomic.AddInt64(&st.steps, 1)
						atomic.AddInt64(&ticks, 1)
						var prevKey []byte
						was := it.Valid()
						if was {
							prevKey = append([]byte{}, it.Key()...)
						}
						switch rr.Pick(1, 1, 3, 6, 6) {
						case 0:
							it.First()
							check("First")
						case 1:
							it.Last()
							check("Last")
						case 2:
							k := genProbe(rr, pool)
							if it.Seek(k) {
								check("Seek")
								if cmp.Compare(it.Key(), k) < 0 {
									setFail("reader %d: Seek(%x) yields smaller key %x", id, k, it.Key())
								}
							}
						case 3:
							if it.Next() {
								check("Next")
								if was && cmp.Compare(prevKey, it.Key()) >= 0 {
									setFail("reader %d: Next from %x yields %x: not increasing", id, prevKey, it.Key())
								}
							}
						default:
							if it.Prev() {
								check("Prev")
								if was && cmp.Compare(prevKey, it.Key()) <= 0 {
									setFail("reader %d: Prev from %x yields %x: not decreasing", id, prevKey, it.Key())
								}
							}
						}
					}
				default: // point reads
					for n := rr.Range(5, 40); n > 0 && !failed(); n-- {
						atomic.AddInt64(&st.gets, 1)
						atomic.AddInt64(&ticks, 1)
						k := genProbe(rr, pool)
						sv, isStable := stable.get(k)
						switch rr.Intn(3) {
						case 0:
							v, err := db.Get(k)
							if err == nil && !ever.has(k, v) {
								setFail("reader %d: Get(%x) = %x, never stored", id, k, v)
							}
							if err != nil && err != memdb.ErrNotFound {
								setFail("reader %d: Get error %v", id, err)
							}
							if isStable && (err != nil || !bytes.Equal(v, sv)) {
								setFail("reader %d: Get(stable %x) = %x, %v; stored %x", id, k, v, err, sv)
							}
						case 1:
							rk, rv, err := db.Find(k)
							if err == nil {
								if cmp.Compare(rk, k) < 0 {
									setFail("reader %d: Find(%x) yields smaller key %x", id, k, rk)
								}
								if !ever.has(rk, rv) {
									setFail("reader %d: Find(%x) = %x=%x, never stored", id, k, rk, rv)
								}
								// the first stable key >= k bounds the answer from above
								if i := stable.lowerBound(k); i < len(stable.ents) && cmp.Compare(rk, stable.ents[i].k) > 0 {
									setFail("reader %d: Find(%x) = %x skips stable key %x", id, k, rk, stable.ents[i].k)
								}
							} else if i := stable.lowerBound(k); i < len(stable.ents) {
								setFail("reader %d: Find(%x) = %v although stable key %x >= it", id, k, err, stable.ents[i].k)
							}
						default:
							if got := db.Contains(k); isStable && !got {
								setFail("reader %d: Contains(stable %x) = false", id, k)
							}
						}
					}
				}
				it.Release()
			}
		}()
	}
	fin := make(chan struct{})
	go func() { wg.Wait(); close(fin) }()
	// watchdog on progress (the machine may be heavily loaded): hung = no writer operation and no
	// reader step completed for 60 s
	tick := time.NewTicker(time.Second)
	defer tick.Stop()
	lastTicks, same := int64(-1), 0
wait:
	for {
		select {
		case <-fin:
			break wait
		case <-tick.C:
			cur := atomic.LoadInt64(&ticks)
			if cur == lastTicks {
				same++
			} else {
				lastTicks, same = cur, 0
			}
			if same >= 60 {
				setFail("no writer operation and no reader step completed for 60 s (writer done: %v): a call blocks or loops", atomic.LoadInt32(&done) == 1)
				break wait
			}
		}
	}
	// afterwards the structure must still be a sorted map of the stable keys plus whatever the
	// writer left; checked sequentially through Get of every stable key
	if fail == "" {
		for _, e := range stable.ents {
			if v, err := db.Get(e.k); err != nil || !bytes.Equal(v, e.v) {
				setFail("after the round: Get(stable %x) = %x, %v", e.k, v, err)
			}
		}
	}
	return fail
}

func checkStableSeen(stable *oracle, c *ocur, seen [][]byte, backward bool, id int, setFail func(string, ...interface{})) {
	var want [][]byte
	for _, e := range stable.ents {
		if c.inRange(stable.cmp, e.k) {
			want = append(want, e.k)
		}
	}
	if backward {
		for i, j := 0, len(want)-1; i < j; i, j = i+1, j-1 {
			want[i], want[j] = want[j], want[i]
		}
	}
	if len(want) != len(seen) {
		setFail("reader %d: complete scan (backward=%v) saw %d of the %d stable keys in its slice", id, backward, len(seen), len(want))
		return
	}
	for i := range want {
		if !bytes.Equal(want[i], seen[i]) {
			setFail("reader %d: complete scan saw stable key %x where %x was expected", id, seen[i], want[i])
			return
		}
	}
}
