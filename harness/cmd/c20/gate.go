package main

import (
	"sync"
	"unsafe"

	"github.com/syndtr/goleveldb/leveldb/storage"
	"verifharness/lib/vstor"
)

// gateStor is the checker-owned storage with a gate on table creation: while the gate is closed a memdb
// flush (or any other table build) blocks in Create, which keeps the frozen write buffer alive so that reads
// can be served from it.
type gateStor struct {
	*vstor.Stor
	mu     sync.Mutex
	cond   *sync.Cond
	closed bool
}

func newGateStor() *gateStor {
	g := &gateStor{Stor: vstor.New(false)}
	g.cond = sync.NewCond(&g.mu)
	return g
}

func (g *gateStor) Create(fd storage.FileDesc) (storage.Writer, error) {
	if fd.Type == storage.TypeTable {
		g.mu.Lock()
		for g.closed {
			g.cond.Wait()
		}
		g.mu.Unlock()
	}
	return g.Stor.Create(fd)
}

func (g *gateStor) setClosed(c bool) {
	g.mu.Lock()
	g.closed = c
	g.mu.Unlock()
	g.cond.Broadcast()
}

// ---- address observation (the only place where unsafe is used) ----

// span returns the address range [lo,hi) of the array behind b over its full capacity (0,0 if none).
func span(b []byte) (lo, hi uintptr) {
	if cap(b) == 0 {
		return 0, 0
	}
	b = b[:cap(b)]
	lo = uintptr(unsafe.Pointer(&b[0]))
	return lo, lo + uintptr(len(b))
}

// overlaps tells whether the arrays behind a and b (full capacity) share at least one byte.
func overlaps(a, b []byte) bool {
	al, ah := span(a)
	bl, bh := span(b)
	if al == ah || bl == bh {
		return false
	}
	return al < bh && bl < ah
}

// sameStart tells whether two slices start at the same address.
func sameStart(a, b []byte) bool {
	al, ah := span(a)
	bl, bh := span(b)
	return al != ah && bl != bh && al == bl
}
