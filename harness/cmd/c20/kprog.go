package main

import (
	"fmt"
	"strings"
	"time"

	"github.com/syndtr/goleveldb/leveldb"
	"github.com/syndtr/goleveldb/leveldb/iterator"
	"github.com/syndtr/goleveldb/leveldb/util"
	"verifharness/lib/vlib"
)

// (K) programs: small API programs in the vocabulary of the ownership model (Alias/AliasModel.v). They are run
// on the implementation with every buffer scribbled over as in the (P) runner; the ops (with the scribbles as the
// model's CScribble) and the observed outputs become a KProg case that Coq evaluates on the model machine.

type kop struct {
	Kind string `json:"op"`
	K    []byte `json:"k,omitempty"`
	V    []byte `json:"v,omitempty"`
	I    int    `json:"i,omitempty"`
}

func genKProg(r *vlib.RNG, n int) []kop {
	nk := r.Range(2, 6)
	var keys [][]byte
	for i := 0; i < nk; i++ {
		keys = append(keys, r.Bytes(r.Range(0, 3), []byte{0x00, 0x01, 'a', 'b', 0xff}))
	}
	key := func() []byte { return keys[r.Intn(len(keys))] }
	tag := 0
	val := func() []byte {
		tag++
		v := []byte(fmt.Sprintf("%d", tag))
		return append(v, r.Bytes(r.Range(0, 9), []byte("xyz"))...)
	}
	var ops []kop
	inTxn, niter, nbat := false, 0, 0
	for len(ops) < n {
		if inTxn {
			switch r.Pick(5, 2, 5, 2, 1, 1, 2, 2) {
			case 0:
				ops = append(ops, kop{Kind: "txnput", K: key(), V: val()})
			case 1:
				ops = append(ops, kop{Kind: "txndel", K: key()})
			case 2:
				ops = append(ops, kop{Kind: "txnget", K: key()})
			case 3:
				ops = append(ops, kop{Kind: "get", K: key()})
			case 4:
				ops = append(ops, kop{Kind: "txnflush"})
			case 5:
				ops = append(ops, kop{Kind: "evict"})
			case 6:
				ops = append(ops, kop{Kind: "txncommit"})
				inTxn = false
			case 7:
				if r.Chance(1, 2) {
					ops = append(ops, kop{Kind: "txndiscard"})
					inTxn = false
				}
			}
			continue
		}
		switch r.Pick(8, 3, 4, 1, 2, 8, 2, 2, 4, 2, 3, 1, 3, 1, 1) {
		case 0:
			ops = append(ops, kop{Kind: "put", K: key(), V: val()})
		case 1:
			ops = append(ops, kop{Kind: "del", K: key()})
		case 2:
			ops = append(ops, kop{Kind: "batchput", K: key(), V: val()})
			nbat++
		case 3:
			ops = append(ops, kop{Kind: "batchdel", K: key()})
			nbat++
		case 4:
			if nbat > 0 {
				ops = append(ops, kop{Kind: "batchwrite"})
				nbat = 0
			}
		case 5:
			ops = append(ops, kop{Kind: "get", K: key()})
		case 6:
			ops = append(ops, kop{Kind: "has", K: key()})
		case 7:
			if niter < 3 {
				ops = append(ops, kop{Kind: "iternew"})
				niter++
			}
		case 8:
			if niter > 0 {
				i := r.Intn(niter)
				ops = append(ops, kop{Kind: "iternext", I: i}, kop{Kind: "iterread", I: i})
			}
		case 9:
			if niter > 0 {
				i := r.Intn(niter)
				ops = append(ops, kop{Kind: "iterseek", I: i, K: key()}, kop{Kind: "iterread", I: i})
			}
		case 10:
			if niter > 0 {
				ops = append(ops, kop{Kind: "iterread", I: r.Intn(niter)})
			}
		case 11:
			if niter > 0 && r.Chance(1, 2) {
				ops = append(ops, kop{Kind: "iterrelease", I: r.Intn(niter)})
			}
		case 12:
			ops = append(ops, kop{Kind: "compact"})
		case 13:
			ops = append(ops, kop{Kind: "evict"})
		case 14:
			ops = append(ops, kop{Kind: "txnopen"})
			inTxn = true
		}
	}
	if inTxn {
		ops = append(ops, kop{Kind: "txncommit"})
	}
	for _, k := range keys {
		ops = append(ops, kop{Kind: "get", K: k})
	}
	return ops
}

func coqOptHexS(b []byte, found bool) string {
	if !found {
		return "None"
	}
	return "(Some " + vlib.CoqHex(b) + ")"
}

// runKProg executes the program; it returns the rendered KProg case, or a failure text when the implementation
// returned an error or modified an argument.
func runKProg(cfg Cfg, ops []kop) (caseText string, failure string) {
	type res struct{ t, f string }
	ch := make(chan res, 1)
	go func() {
		defer func() {
			if x := recover(); x != nil {
				ch <- res{"", fmt.Sprintf("panic: %v", x)}
			}
		}()
		t, f := runKProgInner(cfg, ops)
		ch <- res{t, f}
	}()
	select {
	case r := <-ch:
		return r.t, r.f
	case <-time.After(60 * time.Second):
		return "", "program did not finish within the watchdog time"
	}
}

func runKProgInner(cfg Cfg, ops []kop) (caseText string, failure string) {
	stor := newGateStor()
	db, err := leveldb.Open(stor, cfg.Options())
	if err != nil {
		return "", fmt.Sprintf("Open error %v", err)
	}
	defer db.Close()
	var cops, couts []string
	garbage := func(n int) string { return vlib.CoqHex(append(make([]byte, 0, n+8), strings.Repeat("\xee", n+8)...)) }
	scrib := func(idx int, n int) { cops = append(cops, fmt.Sprintf("KScribble %d 0 %s", idx, garbage(n))) }
	var txn *leveldb.Transaction
	var batch *leveldb.Batch
	var its []*kit
	defer func() {
		for _, x := range its {
			if !x.released {
				x.it.Release()
			}
		}
		if txn != nil {
			txn.Discard()
		}
	}()
	for _, o := range ops {
		switch o.Kind {
		case "put", "txnput":
			kb, vb := mkbuf(o.K), mkbuf(o.V)
			var err error
			if o.Kind == "put" {
				if txn != nil {
					continue
				}
				err = db.Put(kb.s, vb.s, nil)
				cops = append(cops, fmt.Sprintf("KPut %s %s", vlib.CoqHex(o.K), vlib.CoqHex(o.V)))
			} else {
				if txn == nil {
					continue
				}
				err = txn.Put(kb.s, vb.s, nil)
				cops = append(cops, fmt.Sprintf("KTxnPut %s %s", vlib.CoqHex(o.K), vlib.CoqHex(o.V)))
			}
			if err != nil || !kb.intact() || !vb.intact() {
				return "", fmt.Sprintf("%s(%x): err=%v or arguments modified", o.Kind, o.K, err)
			}
			kb.poison()
			vb.poison()
			scrib(0, len(o.V))
			scrib(1, len(o.K))
		case "del", "txndel":
			kb := mkbuf(o.K)
			var err error
			if o.Kind == "del" {
				if txn != nil {
					continue
				}
				err = db.Delete(kb.s, nil)
				cops = append(cops, fmt.Sprintf("KDelete %s", vlib.CoqHex(o.K)))
			} else {
				if txn == nil {
					continue
				}
				err = txn.Delete(kb.s, nil)
				cops = append(cops, fmt.Sprintf("KTxnDelete %s", vlib.CoqHex(o.K)))
			}
			if err != nil || !kb.intact() {
				return "", fmt.Sprintf("%s(%x): err=%v or argument modified", o.Kind, o.K, err)
			}
			kb.poison()
			scrib(0, len(o.K))
		case "batchput":
			if batch == nil {
				batch = new(leveldb.Batch)
			}
			kb, vb := mkbuf(o.K), mkbuf(o.V)
			batch.Put(kb.s, vb.s)
			if !kb.intact() || !vb.intact() {
				return "", "Batch.Put modified its arguments"
			}
			kb.poison()
			vb.poison()
			cops = append(cops, fmt.Sprintf("KBatchPut %s %s", vlib.CoqHex(o.K), vlib.CoqHex(o.V)))
			scrib(0, len(o.V))
			scrib(1, len(o.K))
		case "batchdel":
			if batch == nil {
				batch = new(leveldb.Batch)
			}
			kb := mkbuf(o.K)
			batch.Delete(kb.s)
			if !kb.intact() {
				return "", "Batch.Delete modified its argument"
			}
			kb.poison()
			cops = append(cops, fmt.Sprintf("KBatchDelete %s", vlib.CoqHex(o.K)))
			scrib(0, len(o.K))
		case "batchwrite":
			if batch == nil || txn != nil {
				continue
			}
			n := len(batch.Dump())
			if err := db.Write(batch, nil); err != nil {
				return "", fmt.Sprintf("Write error %v", err)
			}
			garbageRecs(batch, batch.Len())
			batch = nil
			cops = append(cops, "KBatchWrite")
			scrib(0, n)
		case "get", "txnget":
			kb := mkbuf(o.K)
			var v []byte
			var err error
			if o.Kind == "get" {
				v, err = db.Get(kb.s, nil)
				cops = append(cops, fmt.Sprintf("KGet %s", vlib.CoqHex(o.K)))
			} else {
				if txn == nil {
					continue
				}
				v, err = txn.Get(kb.s, nil)
				cops = append(cops, fmt.Sprintf("KTxnGet %s", vlib.CoqHex(o.K)))
			}
			if !kb.intact() {
				return "", "Get modified its key argument"
			}
			kb.poison()
			if err != nil && err != leveldb.ErrNotFound {
				return "", fmt.Sprintf("Get error %v", err)
			}
			found := err == nil
			couts = append(couts, "KVal "+coqOptHexS(v, found))
			if found {
				// visible part first; only a result that proved private is overwritten over its full capacity
				want := clone(v)
				scribbleLen(v)
				var v2 []byte
				var err2 error
				if o.Kind == "get" {
					v2, err2 = db.Get(clone(o.K), nil)
				} else {
					v2, err2 = txn.Get(clone(o.K), nil)
				}
				if err2 != nil || string(v2) != string(want) {
					return "", fmt.Sprintf("%s(%x) = %s err=%v after the client overwrote the slice returned by the previous read (was %s)", o.Kind, o.K, short(v2), err2, short(want))
				}
				scribble(v)
				scrib(0, len(v))
				scrib(1, len(o.K))
			} else {
				scrib(0, len(o.K))
			}
		case "has":
			kb := mkbuf(o.K)
			h, err := db.Has(kb.s, nil)
			if err != nil || !kb.intact() {
				return "", fmt.Sprintf("Has err=%v or argument modified", err)
			}
			kb.poison()
			cops = append(cops, fmt.Sprintf("KHas %s", vlib.CoqHex(o.K)))
			couts = append(couts, "KBool "+vlib.CoqBool(h))
			scrib(0, len(o.K))
		case "txnopen":
			if txn != nil {
				continue
			}
			t, err := db.OpenTransaction()
			if err != nil {
				return "", fmt.Sprintf("OpenTransaction error %v", err)
			}
			txn = t
			cops = append(cops, "KTxnOpen")
		case "txncommit":
			if txn == nil {
				continue
			}
			if err := txn.Commit(); err != nil {
				return "", fmt.Sprintf("Commit error %v", err)
			}
			txn = nil
			cops = append(cops, "KTxnCommit")
		case "txndiscard":
			if txn == nil {
				continue
			}
			txn.Discard()
			txn = nil
			cops = append(cops, "KTxnDiscard")
		case "txnflush":
			if txn != nil {
				cops = append(cops, "KTxnFlush") // background work of the model only
			}
		case "evict":
			cops = append(cops, "KEvict 0") // the cache may drop a block at any time
		case "compact":
			if txn != nil {
				continue
			}
			if err := db.CompactRange(util.Range{}); err != nil {
				return "", fmt.Sprintf("CompactRange error %v", err)
			}
			cops = append(cops, "KRotate", "KFlush", "KCompact")
		case "iternew":
			its = append(its, &kit{it: db.NewIterator(nil, nil)})
			cops = append(cops, "KIterNew")
		case "iternext":
			if o.I >= len(its) || its[o.I].released {
				continue
			}
			ok := its[o.I].it.Next()
			cops = append(cops, fmt.Sprintf("KIterNext %d", o.I))
			couts = append(couts, "KBool "+vlib.CoqBool(ok))
		case "iterseek":
			if o.I >= len(its) || its[o.I].released {
				continue
			}
			kb := mkbuf(o.K)
			ok := its[o.I].it.Seek(kb.s)
			if !kb.intact() {
				return "", "Seek modified its argument"
			}
			kb.poison()
			cops = append(cops, fmt.Sprintf("KIterSeek %d %s", o.I, vlib.CoqHex(o.K)))
			couts = append(couts, "KBool "+vlib.CoqBool(ok))
			scrib(0, len(o.K))
		case "iterread":
			if o.I >= len(its) {
				continue
			}
			cops = append(cops, fmt.Sprintf("KIterRead %d", o.I))
			x := its[o.I]
			if !x.released && x.it.Valid() {
				couts = append(couts, fmt.Sprintf("KPair (Some (%s, %s))", vlib.CoqHex(x.it.Key()), vlib.CoqHex(x.it.Value())))
			} else {
				couts = append(couts, "KPair None")
			}
		case "iterrelease":
			if o.I >= len(its) || its[o.I].released {
				continue
			}
			its[o.I].it.Release()
			its[o.I].released = true
			cops = append(cops, fmt.Sprintf("KIterRelease %d", o.I))
		}
		if err := firstIterErr(its); err != nil {
			return "", fmt.Sprintf("iterator error %v", err)
		}
	}
	return fmt.Sprintf("KProg %s %d %s 1 %s %s", vlib.CoqBool(cfg.NoPool), cfg.Cache, vlib.CoqBool(cfg.Snappy),
		vlib.CoqList(cops), vlib.CoqList(couts)), ""
}

type kit struct {
	it       iterator.Iterator
	released bool
}

func firstIterErr(its []*kit) error {
	for _, x := range its {
		if !x.released {
			if err := x.it.Error(); err != nil {
				return err
			}
		}
	}
	return nil
}
