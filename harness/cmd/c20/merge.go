package main

// Merge storms: the (P) oracle for the write-merge path (property C20, part a).
// N goroutines (2..16) are released together, each calls DB.Put / DB.Delete / DB.Write with write merge on, and
// OVERWRITES its key, value and batch buffers the moment its call returns (checking first that the callee left them —
// sentinel spare capacity included — as they were).  A merged caller's buffers are read by ANOTHER goroutine (the leader:
// journal record, putMem) until the acknowledgement: a leader that reads after the ack stores the poison.
// After every round every stored value is read back; at the end the journal is parsed (group sizes = how many calls
// shared a journal record), the DB is closed and reopened (the journal is replayed: a journal record filled late holds
// the poison although the write buffer did not) and everything is read back again.

import (
	"bytes"
	"encoding/binary"
	"fmt"
	"io"
	"sort"
	"sync"
	"time"

	"github.com/syndtr/goleveldb/leveldb"
	"github.com/syndtr/goleveldb/leveldb/journal"
	"github.com/syndtr/goleveldb/leveldb/opt"
	"github.com/syndtr/goleveldb/leveldb/storage"
	"verifharness/lib/vlib"
	"verifharness/lib/vstor"
)

// Storm is one replayable merge storm.
type Storm struct {
	Seed    uint64 `json:"seed"`
	N       int    `json:"n"`      // writers
	Kind    string `json:"kind"`   // put | del | write | mixed
	Sync    bool   `json:"sync"`   // WriteOptions.Sync
	Size    string `json:"size"`   // small | mid | big | mixed   (against the 128 KiB merge limit)
	Rounds  int    `json:"rounds"` // barrier-separated rounds
	Calls   int    `json:"calls"`  // calls per writer and round (back to back: later leaders find the others queued)
	Recs    int    `json:"recs"`   // records per Write batch
	NoPool  bool   `json:"nopool"`
	Cache   int    `json:"cache"`
	SmallWB bool   `json:"smallwb"` // small write buffer: leaders rotate the write buffer with a merged group on their hands
	DelayUs int    `json:"delayus"` // journal writes are slowed down by this much (widens the merge window)
}

func (s Storm) String() string {
	return fmt.Sprintf("storm n=%d kind=%s sync=%v size=%s rounds=%d calls=%d recs=%d nopool=%v cache=%s smallwb=%v delay=%dus",
		s.N, s.Kind, s.Sync, s.Size, s.Rounds, s.Calls, s.Recs, s.NoPool, cacheNames[s.Cache], s.SmallWB, s.DelayUs)
}

// delayStor slows journal writes down.
type delayStor struct {
	*vstor.Stor
	d time.Duration
}

type delayWriter struct {
	storage.Writer
	d time.Duration
}

func (w delayWriter) Write(p []byte) (int, error) {
	if w.d > 0 {
		time.Sleep(w.d)
	}
	return w.Writer.Write(p)
}

func (s *delayStor) Create(fd storage.FileDesc) (storage.Writer, error) {
	w, err := s.Stor.Create(fd)
	if err != nil || fd.Type != storage.TypeJournal || s.d == 0 {
		return w, err
	}
	return delayWriter{w, s.d}, nil
}

func genStorm(r *vlib.RNG, i int, thorough bool) Storm {
	kinds := []string{"put", "write", "del", "mixed"}
	sizes := []string{"small", "small", "mid", "big", "mixed"}
	st := Storm{
		Seed:   r.Uint64(),
		N:      2 + i%15, // 2..16, every size in turn
		Kind:   kinds[(i/15)%len(kinds)],
		Sync:   (i/60)%2 == 1,
		Size:   sizes[r.Intn(len(sizes))],
		Rounds: r.Range(2, 3),
		Calls:  r.Range(1, 3),
		Recs:   r.Range(1, 5),
		NoPool: r.Chance(1, 4),
		Cache:  r.Intn(NCache),
	}
	if thorough {
		st.Rounds = r.Range(2, 6)
	}
	st.SmallWB = r.Chance(1, 4)
	st.DelayUs = []int{0, 20, 60, 150}[r.Intn(4)]
	if st.Size == "big" || st.Size == "mixed" {
		// keep the volume down
		st.Calls = 1
		if st.Rounds > 2 {
			st.Rounds = 2
		}
	}
	return st
}

func stormValue(r *vlib.RNG, class string, tag string) []byte {
	var n int
	switch class {
	case "small":
		n = r.Range(0, 200)
	case "mid":
		n = r.Range(50<<10, 66<<10) // two fit under the 128 KiB merge limit, a third does not
	case "big":
		n = r.Range(129<<10, 150<<10) // above the limit: overflow when it arrives, a 1 MiB limit when it leads
	}
	v := make([]byte, n)
	h := uint32(2166136261)
	for _, c := range []byte(tag) {
		h = (h ^ uint32(c)) * 16777619
	}
	for i := range v {
		h = h*1664525 + 1013904223
		v[i] = byte(h >> 24)
	}
	copy(v, tag)
	return v
}

type stormCall struct {
	kind string
	recs []Rec // one record for put/del
}

// runStorm returns statistics and "" or the failure.
func runStorm(st Storm) (stats map[string]int, failure string) {
	stats = map[string]int{}
	defer func() {
		if x := recover(); x != nil {
			failure = fmt.Sprintf("panic during the merge storm: %v", x)
		}
	}()
	rng := vlib.NewRNG(st.Seed)
	base := vstor.New(false)
	stor := &delayStor{Stor: base, d: time.Duration(st.DelayUs) * time.Microsecond}
	o := &opt.Options{
		WriteBuffer:         64 << 20,
		DisableBufferPool:   st.NoPool,
		Compression:         opt.NoCompression,
		NoSync:              false,
		CompactionTableSize: 2 << 20,
	}
	if st.SmallWB {
		o.WriteBuffer = 256 << 10
	}
	switch st.Cache {
	case CacheOff:
		o.DisableBlockCache = true
	case CacheTiny:
		o.BlockCacher = opt.LRUCacher
		o.BlockCacheCapacity = tinyCacheBytes
	case CacheNoLRU:
		o.BlockCacheCapacity = -1
	}
	db, err := leveldb.Open(stor, o)
	if err != nil {
		return stats, "open: " + err.Error()
	}
	closed := false
	defer func() {
		if !closed {
			db.Close()
		}
	}()

	model := oracle{}
	var mmu sync.Mutex
	totalCalls := 0
	recsPerCall := -1 // uniform number of records per call, -2 if not uniform
	sizeOf := func(w int) string {
		if st.Size != "mixed" {
			return st.Size
		}
		return []string{"small", "mid", "big", "small"}[w%4]
	}
	kindOf := func(w, round int) string {
		switch st.Kind {
		case "mixed":
			return []string{"put", "write", "del"}[(w+round)%3]
		case "del":
			if round == 0 {
				return "put" // something to delete
			}
		}
		return st.Kind
	}

	for round := 0; round < st.Rounds; round++ {
		// plan the round (deterministic), per writer its calls; keys are private to a writer
		plans := make([][]stormCall, st.N)
		for w := 0; w < st.N; w++ {
			wr := rng.Fork()
			for c := 0; c < st.Calls; c++ {
				k := kindOf(w, round)
				call := stormCall{kind: k}
				n := 1
				if k == "write" {
					n = st.Recs
				}
				for i := 0; i < n; i++ {
					key := []byte(fmt.Sprintf("w%02d-k%02d", w, wr.Intn(12)))
					del := k == "del" || (k == "write" && wr.Chance(1, 5))
					if del {
						call.recs = append(call.recs, Rec{Del: true, K: key})
					} else {
						cls := sizeOf(w)
						if k == "write" && n > 1 && cls != "small" && i > 0 {
							cls = "small" // one large record per batch is enough
						}
						call.recs = append(call.recs, Rec{K: key, V: stormValue(wr, cls, fmt.Sprintf("r%d-w%d-c%d-i%d|", round, w, c, i))})
					}
				}
				plans[w] = append(plans[w], call)
				totalCalls++
				if recsPerCall == -1 {
					recsPerCall = n
				} else if recsPerCall != n {
					recsPerCall = -2
				}
			}
		}
		start := make(chan struct{})
		var wg sync.WaitGroup
		fails := make([]string, st.N)
		for w := 0; w < st.N; w++ {
			wg.Add(1)
			go func(w int) {
				defer wg.Done()
				defer func() {
					if x := recover(); x != nil {
						fails[w] = fmt.Sprintf("panic in writer %d: %v", w, x)
					}
				}()
				wo := &opt.WriteOptions{Sync: st.Sync}
				batch := new(leveldb.Batch) // reused across this writer's calls, as a client would
				<-start
				for _, call := range plans[w] {
					switch call.kind {
					case "put":
						rec := call.recs[0]
						kb, vb := mkbuf(rec.K), mkbuf(rec.V)
						err := db.Put(kb.s, vb.s, wo)
						ok := kb.intact() && vb.intact()
						kb.poison()
						vb.poison()
						if err != nil {
							fails[w] = fmt.Sprintf("Put error %v", err)
							return
						}
						if !ok {
							fails[w] = fmt.Sprintf("DB.Put(%s) modified its arguments (or their spare capacity)", rec.K)
							return
						}
					case "del":
						rec := call.recs[0]
						kb := mkbuf(rec.K)
						err := db.Delete(kb.s, wo)
						ok := kb.intact()
						kb.poison()
						if err != nil {
							fails[w] = fmt.Sprintf("Delete error %v", err)
							return
						}
						if !ok {
							fails[w] = fmt.Sprintf("DB.Delete(%s) modified its argument", rec.K)
							return
						}
					case "write":
						batch.Reset()
						if f := fillBatch(batch, call.recs); f != nil {
							fails[w] = f.What
							return
						}
						before := clone(batch.Dump())
						n := batch.Len()
						err := db.Write(batch, wo)
						same := batch.Len() == n && bytes.Equal(batch.Dump(), before)
						// the batch is the caller's again: overwrite its buffer in place at once
						garbageRecs(batch, n)
						if err != nil {
							fails[w] = fmt.Sprintf("Write error %v", err)
							return
						}
						if !same {
							fails[w] = "DB.Write modified the caller's batch"
							return
						}
					}
					mmu.Lock()
					applyRecs(model, call.recs)
					mmu.Unlock()
				}
			}(w)
		}
		close(start)
		done := make(chan struct{})
		go func() { wg.Wait(); close(done) }()
		select {
		case <-done:
		case <-time.After(60 * time.Second):
			return stats, "the writers of a merge storm did not finish within 60 s (a writer is stuck)"
		}
		for _, f := range fails {
			if f != "" {
				return stats, f
			}
		}
		if f := stormVerify(db, model, fmt.Sprintf("after round %d", round)); f != "" {
			return stats, f
		}
	}
	stats["storm_calls"] = totalCalls

	// how the calls were grouped: one journal record per group
	closed = true
	if err := db.Close(); err != nil {
		return stats, "close: " + err.Error()
	}
	if !st.SmallWB {
		nrec, groups := journalGroups(base)
		if nrec > 0 {
			stats["storm_journal_records"] = nrec
			if totalCalls >= nrec {
				stats["storm_calls_merged_into_another_record"] = totalCalls - nrec
			}
			if recsPerCall > 0 {
				for _, g := range groups {
					sz := g / recsPerCall
					if sz > 16 {
						sz = 16
					}
					stats[fmt.Sprintf("storm_group_size_%02d", sz)]++
					if sz >= 2 {
						stats["storm_groups_of_2_or_more_"+st.Kind]++
					}
				}
			}
		}
	}
	// replay the journal
	db2, err := leveldb.Open(stor, o)
	if err != nil {
		return stats, "reopen after the storm (journal replay): " + err.Error()
	}
	defer db2.Close()
	if f := stormVerify(db2, model, "after close and reopen (the journal was replayed)"); f != "" {
		return stats, f
	}
	stats["storms_run"] = 1
	return stats, ""
}

// stormVerify reads every key back (Get, result overwritten afterwards) and scans the whole DB.
func stormVerify(db *leveldb.DB, model oracle, when string) string {
	keys := make([]string, 0, len(model))
	for k := range model {
		keys = append(keys, k)
	}
	sort.Strings(keys)
	for _, k := range keys {
		v, err := db.Get([]byte(k), nil)
		if err != nil || !bytes.Equal(v, model[k]) {
			return fmt.Sprintf("%s: Get(%s) = %s err=%v; its only writer overwrote its buffers after its call had returned and wrote %s", when, k, short(v), err, short(model[k]))
		}
		scribble(v)
	}
	it := db.NewIterator(nil, nil)
	defer it.Release()
	i := 0
	for it.Next() {
		if i >= len(keys) {
			return fmt.Sprintf("%s: the scan finds a key nobody wrote: %q = %s", when, it.Key(), short(it.Value()))
		}
		if string(it.Key()) != keys[i] || !bytes.Equal(it.Value(), model[keys[i]]) {
			return fmt.Sprintf("%s: the scan shows (%q, %s) where the writers' final state has (%q, %s)", when, it.Key(), short(it.Value()), keys[i], short(model[keys[i]]))
		}
		i++
	}
	if err := it.Error(); err != nil {
		return fmt.Sprintf("%s: scan error %v", when, err)
	}
	if i != len(keys) {
		return fmt.Sprintf("%s: the scan ends after %d of %d keys", when, i, len(keys))
	}
	return ""
}

type nopDropper struct{}

func (nopDropper) Drop(err error) {}

// journalGroups parses the journal files left in the storage: number of records and the batch length of each.
func journalGroups(s *vstor.Stor) (nrec int, lens []int) {
	fds, _ := s.List(storage.TypeJournal)
	sort.Slice(fds, func(i, j int) bool { return fds[i].Num < fds[j].Num })
	for _, fd := range fds {
		data, _, ok := s.FileBytes(fd)
		if !ok {
			continue
		}
		jr := journal.NewReader(bytes.NewReader(data), nopDropper{}, false, true)
		for {
			r, err := jr.Next()
			if err != nil {
				break
			}
			var hdr [12]byte
			if _, err := io.ReadFull(r, hdr[:]); err != nil {
				continue
			}
			nrec++
			lens = append(lens, int(binary.LittleEndian.Uint32(hdr[8:])))
		}
	}
	return
}
