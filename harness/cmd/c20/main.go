// c20: the DB neither keeps nor exposes shared buffers across the API boundary.
// (P) poisoning harness: every argument buffer is overwritten right after the call returns, every value returned by
// DB.Get / Transaction.Get is overwritten (at once, or after having been held and re-checked), iterator key/value are
// re-checked before every move; all results against a Go map. Enumerates buffer pool x block cache x compression x
// data location exhaustively. (K) address observations (is the result inside a cached block / a write buffer arena?)
// and small programs with scribbles, both evaluated against the ownership model inside Coq.
package main

import (
	"fmt"
	"path/filepath"
	"sort"
	"strings"
	"sync"
	"sync/atomic"
	"time"

	"verifharness/lib/vlib"
)

const rule = "programs with every argument buffer poisoned after each call and every DB.Get/Transaction.Get result scribbled over (full capacity) or held-then-scribbled, iterator key/value re-checked before each move, results vs Go map; all cells of {pool on/off} x {block cache on/off/tiny/no-LRU} x {none,snappy} x {write buffer, frozen buffer, level 0, deeper level} enumerated; non-trivial = the program contains >=1 Get answered from a block that was already in the block cache"

type cell struct {
	nopool bool
	cache  int
	snappy bool
	loc    int
}

func allCells() []cell {
	var cs []cell
	for _, np := range []bool{false, true} {
		for ca := 0; ca < NCache; ca++ {
			for _, sn := range []bool{false, true} {
				for loc := 0; loc < NLoc; loc++ {
					cs = append(cs, cell{np, ca, sn, loc})
				}
			}
		}
	}
	return cs
}

func failsFn(tries int) func(*Program) bool {
	return func(p *Program) bool {
		for i := 0; i < tries; i++ {
			if runProgram(p).describe() != "" {
				return true
			}
		}
		return false
	}
}

func main() {
	a := vlib.ParseArgs()
	res := vlib.NewResult("C20", a.Out, rule)
	defer res.Write()

	if a.Replay != "" {
		p, err := loadProgram(a.Replay)
		if err != nil {
			fmt.Println("cannot load replay:", err)
			return
		}
		for i := 0; i < 3; i++ {
			rr := runProgram(p)
			res.Eval(fmt.Sprintf("replay%d", i), true)
			if d := rr.describe(); d != "" {
				fmt.Println("replay fails:", d)
				res.Violate(d+" ["+p.Cfg.String()+"]", p)
				return
			}
		}
		fmt.Println("replay passes")
		return
	}

	// corpus first
	if strings.HasPrefix(a.Extra, "corpus=") {
		files, _ := filepath.Glob(filepath.Join(strings.TrimPrefix(a.Extra, "corpus="), "*.json"))
		sort.Strings(files)
		for _, f := range files {
			p, err := loadProgram(f)
			if err != nil {
				continue
			}
			rr := runProgram(p)
			res.Count("corpus_cases", 1)
			if d := rr.describe(); d != "" {
				res.Violate("corpus case "+filepath.Base(f)+": "+d+" ["+p.Cfg.String()+"]", p)
			}
		}
	}

	perCell, nrand := 12, 90
	if a.Thorough() {
		perCell, nrand = 200, 260
	}
	if strings.Contains(a.Extra, "search") && !a.Thorough() {
		perCell *= 4
	}
	cells := allCells()
	root := vlib.NewRNG(a.Seed)
	type job struct {
		i int
		c cell
		r *vlib.RNG
	}
	jobs := make(chan job)
	var wg sync.WaitGroup
	var kmu sync.Mutex
	var kcases []string
	kcap := 1500
	if a.Thorough() {
		kcap = 6000
	}
	covered := map[string]int{}
	var nviol int32
	for w := 0; w < 16; w++ {
		wg.Add(1)
		go func() {
			defer wg.Done()
			for j := range jobs {
				cfg := genCfg(j.r, j.c.nopool, j.c.cache, j.c.snappy, j.c.loc)
				p := genProgram(j.r, cfg, j.r.Range(nrand/3, nrand))
				p.Seed = a.Seed
				rr := runProgram(p)
				for k, v := range rr.Stats {
					if strings.HasPrefix(k, "cell_") {
						kmu.Lock()
						covered[strings.TrimPrefix(k, "cell_")] += v
						kmu.Unlock()
						continue
					}
					res.Count(k, v)
				}
				kmu.Lock()
				for _, o := range rr.Kobs {
					if len(kcases) < kcap {
						kcases = append(kcases, renderKob(cfg, o))
					}
				}
				kmu.Unlock()
				for _, o := range rr.Kobs {
					res.Count(fmt.Sprintf("kobs_path%d_class%d", o.Path, o.Class), 1)
				}
				res.Eval(fmt.Sprintf("%d", j.i), rr.Stats["get_served_from_cached_block"] > 0)
				if j.i < 2 {
					n := 4
					if len(p.Ops) < n {
						n = len(p.Ops)
					}
					res.Sample(map[string]interface{}{"cfg": cfg.String(), "ops": len(p.Ops), "first_ops": p.Ops[:n], "stats": rr.Stats})
				}
				if d := rr.describe(); d != "" && atomic.AddInt32(&nviol, 1) <= 3 {
					q := p
					if !rr.Hung {
						q = shrink(p, failsFn(2), 25*time.Second)
					}
					d2 := runProgram(q).describe()
					if d2 == "" {
						d2 = runProgram(q).describe()
					}
					if d2 != "" {
						res.Violate(d2+" ["+cfg.String()+"]", q)
					} else {
						res.Violate(d+" ["+cfg.String()+"] (not shrunk)", p)
					}
				}
			}
		}()
	}
	n := 0
	for rep := 0; rep < perCell; rep++ {
		for _, c := range cells {
			jobs <- job{n, c, root.Fork()}
			n++
		}
	}
	close(jobs)
	wg.Wait()

	// coverage of the configuration dimension: every cell must have been probed at its location
	missing := []string{}
	for _, c := range cells {
		name := Cfg{NoPool: c.nopool, Cache: c.cache, Snappy: c.snappy, Loc: c.loc}.Cell()
		if covered[name] == 0 {
			missing = append(missing, name)
		}
	}
	res.Extra["configuration_cells"] = len(cells)
	res.Extra["configuration_cells_probed"] = len(cells) - len(missing)
	res.Extra["exhaustive"] = len(missing) == 0
	res.Extra["cells_not_probed"] = missing
	res.Extra["gets_located_per_cell"] = covered
	if len(missing) > 0 {
		fmt.Println("cells not probed:", missing)
	}
	res.WriteCases("From GL Require Import Corr.C20Run.", "c20case", "mismatches", kcases, 4)
}
