// c20: the DB neither keeps nor exposes shared buffers across the API boundary.
// (P) poisoning harness: every argument buffer is overwritten right after the call returns, every value returned by
// DB.Get / Transaction.Get is overwritten (at once, or after having been held and re-checked), iterator key/value are
// re-checked before every move; all results against a Go map. Enumerates buffer pool x block cache x compression x
// data location exhaustively. (K) address observations (is the result inside a cached block / a write buffer arena?)
// and small programs with scribbles, both evaluated against the ownership model inside Coq.
package main

import (
	"fmt"
	"os"
	"path/filepath"
	"runtime/pprof"
	"sort"
	"strings"
	"sync"
	"sync/atomic"
	"time"

	"verifharness/lib/vlib"
)

const rule = "programs with every argument buffer poisoned after each call and every DB.Get/Transaction.Get result scribbled over (full capacity) or held-then-scribbled, iterator key/value re-checked before each move, results vs Go map; all cells of {pool on/off} x {block cache on/off/tiny/no-LRU} x {none,snappy} x {write buffer, frozen buffer, level 0, deeper level} enumerated; non-trivial = the program contains >=1 Get answered from a block that was already in the block cache; second pass: merge storms (2..16 writers overwrite their key/value/batch buffers the moment Put/Delete/Write returns, all values read back after each round and after journal replay; non-trivial = >=1 call shared another call's journal record) and backward walks (DB/Snapshot/Transaction iterators moved Last/Prev/Seek+Prev/First/Next under compactions, value slices overwritten after every movement, slices kept across Release; non-trivial = >=1 position checked after a backward movement)"

type cell struct {
	nopool bool
	cache  int
	snappy bool
	loc    int
}

func allCells() []cell {
	var cs []cell
	for _, np := range []bool{false, true} {
		for ca := 0; ca < NCache; ca++ {
			for _, sn := range []bool{false, true} {
				for loc := 0; loc < NLoc; loc++ {
					cs = append(cs, cell{np, ca, sn, loc})
				}
			}
		}
	}
	return cs
}

func failsFn(tries int) func(*Program) bool {
	return func(p *Program) bool {
		for i := 0; i < tries; i++ {
			if runProgram(p).describe() != "" {
				return true
			}
		}
		return false
	}
}

func main() {
	a := vlib.ParseArgs()
	tok := extraTokens(a.Extra)
	_, isChild := tok["child"]
	_, isOne := tok["one"]
	if _, ok := tok["onestorm"]; ok {
		isOne = true
	}
	if _, ok := tok["onewalk"]; ok {
		isOne = true
	}
	if a.Replay != "" || isChild || isOne || os.Getenv("C20_INPROC") != "" {
		childMain(a, tok)
		return
	}
	parentMain(a, tok)
}

// plan returns the volume of a run.
func plan(a vlib.Args, tok map[string]string) (perCell, nrand int) {
	perCell, nrand = 60, 90
	if a.Thorough() {
		perCell, nrand = 500, 260
	}
	if _, ok := tok["search"]; ok && !a.Thorough() {
		perCell *= 4
	}
	return
}

// plan2 returns the volume of the second pass: merge storms, backward walks.
func plan2(a vlib.Args, tok map[string]string) (nstorm, nwalk int) {
	nstorm, nwalk = 240, 192
	if a.Thorough() {
		nstorm, nwalk = 960, 960
	}
	if _, ok := tok["search"]; ok && !a.Thorough() {
		nstorm, nwalk = 480, 384
	}
	return
}

// genStormAt / genWalkAt regenerate the i-th storm / walk of a run.
func genStormAt(seed uint64, i int, thorough bool) Storm {
	root := vlib.NewRNG(seed ^ 0x57024d)
	var r *vlib.RNG
	for k := 0; k <= i; k++ {
		r = root.Fork()
	}
	return genStorm(r, i, thorough)
}

func genWalkAt(seed uint64, i int, thorough bool) Walk {
	root := vlib.NewRNG(seed ^ 0x3a11c)
	var r *vlib.RNG
	for k := 0; k <= i; k++ {
		r = root.Fork()
	}
	return genWalk(r, i, thorough)
}

// genJob regenerates the i-th program of a run (the run draws one RNG fork per program, in order).
func genJob(seed uint64, i, nrand int) *Program {
	cells := allCells()
	root := vlib.NewRNG(seed)
	var r *vlib.RNG
	for k := 0; k <= i; k++ {
		r = root.Fork()
	}
	c := cells[i%len(cells)]
	cfg := genCfg(r, c.nopool, c.cache, c.snappy, c.loc)
	p := genProgram(r, cfg, r.Range(nrand/3, nrand))
	p.Seed = seed
	return p
}

func extraTokens(e string) map[string]string {
	m := map[string]string{}
	for _, t := range strings.Split(e, ",") {
		t = strings.TrimSpace(t)
		if t == "" {
			continue
		}
		if i := strings.Index(t, "="); i >= 0 {
			m[t[:i]] = t[i+1:]
		} else {
			m[t] = ""
		}
	}
	return m
}

func childMain(a vlib.Args, tok map[string]string) {
	if pf := os.Getenv("C20_PROF"); pf != "" {
		f, _ := os.Create(pf)
		pprof.StartCPUProfile(f)
		defer pprof.StopCPUProfile()
	}
	res := vlib.NewResult("C20", a.Out, rule)
	defer res.Write()

	if a.Replay != "" {
		p, err := loadProgram(a.Replay)
		if err != nil {
			fmt.Println("cannot load replay:", err)
			return
		}
		if p.Storm != nil {
			res.Eval("replay-storm", true)
			for i := 0; i < 5; i++ {
				if _, f := runStorm(*p.Storm); f != "" {
					fmt.Println("replay fails:", f)
					res.Violate(f+" ["+p.Storm.String()+"]", p)
					return
				}
			}
			fmt.Println("replay passes")
			return
		}
		if p.Walk != nil {
			res.Eval("replay-walk", true)
			for i := 0; i < 5; i++ {
				if _, _, f := runWalk(*p.Walk); f != "" {
					fmt.Println("replay fails:", f)
					res.Violate(f, p)
					return
				}
			}
			fmt.Println("replay passes")
			return
		}
		if len(p.KOps) > 0 {
			res.Eval("replay-k", true)
			if _, f := runKProg(p.Cfg, p.KOps); f != "" {
				fmt.Println("replay fails:", f)
				res.Violate(f+" ["+p.Cfg.String()+"]", p)
			} else {
				fmt.Println("replay passes")
			}
			return
		}
		for i := 0; i < 3; i++ {
			rr := runProgram(p)
			res.Eval(fmt.Sprintf("replay%d", i), true)
			if d := rr.describe(); d != "" {
				fmt.Println("replay fails:", d)
				res.Violate(d+" ["+p.Cfg.String()+"]", p)
				return
			}
		}
		fmt.Println("replay passes")
		return
	}

	if one, ok := tok["onestorm"]; ok {
		var i int
		fmt.Sscanf(one, "%d", &i)
		st := genStormAt(a.Seed, i, a.Thorough())
		_, f := runStorm(st)
		res.Eval("storm"+one, true)
		if f != "" {
			res.Violate("merge storm: "+f+" ["+st.String()+"]", &Program{Seed: a.Seed, Storm: &st})
		}
		return
	}
	if one, ok := tok["onewalk"]; ok {
		var i int
		fmt.Sscanf(one, "%d", &i)
		w := genWalkAt(a.Seed, i, a.Thorough())
		_, _, f := runWalk(w)
		res.Eval("walk"+one, true)
		if f != "" {
			res.Violate("backward walk: "+f, &Program{Seed: a.Seed, Walk: &w})
		}
		return
	}
	if one, ok := tok["one"]; ok {
		var i int
		fmt.Sscanf(one, "%d", &i)
		_, nrand := plan(a, tok)
		p := genJob(a.Seed, i, nrand)
		rr := runProgram(p)
		res.Eval(one, true)
		if d := rr.describe(); d != "" {
			res.Violate(d+" ["+p.Cfg.String()+"]", p)
		}
		return
	}

	// corpus first
	if dir, ok := tok["corpus"]; ok {
		files, _ := filepath.Glob(filepath.Join(dir, "*.json"))
		sort.Strings(files)
		for _, f := range files {
			p, err := loadProgram(f)
			if err != nil {
				continue
			}
			rr := runProgram(p)
			res.Count("corpus_cases", 1)
			if d := rr.describe(); d != "" {
				res.Violate("corpus case "+filepath.Base(f)+": "+d+" ["+p.Cfg.String()+"]", p)
			}
		}
	}

	perCell, nrand := plan(a, tok)
	_, only2 := tok["only2"] // run the second pass only (used when measuring which oracle catches a mutation)
	if only2 {
		perCell = 0
	}
	cells := allCells()
	tStart := time.Now()
	root := vlib.NewRNG(a.Seed)
	type job struct {
		i int
		c cell
		r *vlib.RNG
	}
	jobs := make(chan job)
	var wg sync.WaitGroup
	var kmu sync.Mutex
	var kcases []string
	kcap := 6000
	if a.Thorough() {
		kcap = 12000
	}
	covered := map[string]int{}
	var nviol int32
	for w := 0; w < 16; w++ {
		wg.Add(1)
		go func() {
			defer wg.Done()
			for j := range jobs {
				cfg := genCfg(j.r, j.c.nopool, j.c.cache, j.c.snappy, j.c.loc)
				p := genProgram(j.r, cfg, j.r.Range(nrand/3, nrand))
				p.Seed = a.Seed
				rr := runProgram(p)
				for k, v := range rr.Stats {
					if strings.HasPrefix(k, "cell_") {
						kmu.Lock()
						covered[strings.TrimPrefix(k, "cell_")] += v
						kmu.Unlock()
						continue
					}
					res.Count(k, v)
				}
				kmu.Lock()
				seenK := map[string]bool{}
				for _, o := range rr.Kobs {
					t := renderKob(cfg, o)
					if len(kcases) < kcap && !seenK[t] && len(seenK) < 8 {
						seenK[t] = true
						kcases = append(kcases, t)
					}
				}
				kmu.Unlock()
				for _, o := range rr.Kobs {
					res.Count(fmt.Sprintf("kobs_path%d_class%d", o.Path, o.Class), 1)
				}
				res.Eval(fmt.Sprintf("%d", j.i), rr.Stats["get_served_from_cached_block"] > 0)
				if j.i < 2 {
					n := 4
					if len(p.Ops) < n {
						n = len(p.Ops)
					}
					res.Sample(map[string]interface{}{"cfg": cfg.String(), "ops": len(p.Ops), "first_ops": p.Ops[:n], "stats": rr.Stats})
				}
				if d := rr.describe(); d != "" && atomic.AddInt32(&nviol, 1) <= 3 {
					q := p
					if !rr.Hung {
						q = shrink(p, failsFn(2), 25*time.Second)
					}
					d2 := runProgram(q).describe()
					if d2 == "" {
						d2 = runProgram(q).describe()
					}
					if d2 != "" {
						res.Violate(d2+" ["+cfg.String()+"]", q)
					} else {
						res.Violate(d+" ["+cfg.String()+"] (not shrunk)", p)
					}
				}
			}
		}()
	}
	n := 0
	for rep := 0; rep < perCell; rep++ {
		for _, c := range cells {
			jobs <- job{n, c, root.Fork()}
			n++
		}
	}
	close(jobs)
	wg.Wait()
	res.Extra["p_phase_s"] = time.Since(tStart).Seconds()

	// coverage of the configuration dimension: every cell must have been probed at its location
	missing := []string{}
	for _, c := range cells {
		name := Cfg{NoPool: c.nopool, Cache: c.cache, Snappy: c.snappy, Loc: c.loc}.Cell()
		if covered[name] == 0 {
			missing = append(missing, name)
		}
	}
	res.Count("config_cells_total", len(cells))
	res.Count("config_cells_probed_at_their_location", len(cells)-len(missing))
	if len(missing) == 0 {
		res.Count("config_dimension_exhaustive", 1)
	}
	res.Extra["configuration_cells"] = len(cells)
	res.Extra["configuration_cells_probed"] = len(cells) - len(missing)
	res.Extra["exhaustive"] = len(missing) == 0
	res.Extra["cells_not_probed"] = missing
	res.Extra["gets_located_per_cell"] = covered
	if len(missing) > 0 {
		fmt.Println("cells not probed:", missing)
	}
	// second pass: merge storms and backward walks
	nstorm, nwalk := plan2(a, tok)
	if res.NViolations() > 0 {
		nstorm, nwalk = 0, 0
	}
	{
		type sj struct {
			i  int
			st Storm
		}
		sjobs := make(chan sj)
		var wgs sync.WaitGroup
		var nv int32
		for w := 0; w < 16; w++ {
			wgs.Add(1)
			go func() {
				defer wgs.Done()
				for j := range sjobs {
					stats, f := runStorm(j.st)
					for k, v := range stats {
						res.Count(k, v)
					}
					res.Eval(fmt.Sprintf("storm%d", j.i), stats["storm_calls_merged_into_another_record"] > 0)
					if f != "" && atomic.AddInt32(&nv, 1) <= 2 {
						res.Violate("merge storm: "+f+" ["+j.st.String()+"]", &Program{Seed: a.Seed, Storm: &j.st})
					}
				}
			}()
		}
		sroot := vlib.NewRNG(a.Seed ^ 0x57024d)
		for i := 0; i < nstorm; i++ {
			sjobs <- sj{i, genStorm(sroot.Fork(), i, a.Thorough())}
		}
		close(sjobs)
		wgs.Wait()
		res.Extra["storm_phase_s"] = time.Since(tStart).Seconds()
	}
	var wcases []string
	{
		type wj struct {
			i int
			w Walk
		}
		wjobs := make(chan wj)
		var wgw sync.WaitGroup
		var nv int32
		seenW := map[string]bool{}
		for w := 0; w < 16; w++ {
			wgw.Add(1)
			go func() {
				defer wgw.Done()
				for j := range wjobs {
					stats, obs, f := runWalk(j.w)
					for k, v := range stats {
						res.Count(k, v)
					}
					res.Eval(fmt.Sprintf("walk%d", j.i), stats["walk_positions_checked_backward"] > 0)
					kmu.Lock()
					for _, o := range obs {
						t := renderKwalk(j.w, o)
						if !seenW[t] && len(wcases) < 3000 {
							seenW[t] = true
							wcases = append(wcases, t)
						}
						if o.Kind == 0 {
							res.Count(fmt.Sprintf("kiterx_acc%d_dir%d_class%d", o.Acc, o.Dir, o.Class), 1)
						} else {
							res.Count("kheld_observations", 1)
							res.Count("kheld_cached_blocks", o.NCached)
							res.Count("kheld_private_blocks", o.NOwned)
						}
					}
					kmu.Unlock()
					if f != "" && atomic.AddInt32(&nv, 1) <= 2 {
						res.Violate("backward walk: "+f, &Program{Seed: a.Seed, Walk: &j.w})
					}
				}
			}()
		}
		wroot := vlib.NewRNG(a.Seed ^ 0x3a11c)
		for i := 0; i < nwalk; i++ {
			wjobs <- wj{i, genWalk(wroot.Fork(), i, a.Thorough())}
		}
		close(wjobs)
		wgw.Wait()
		res.Extra["walk_phase_s"] = time.Since(tStart).Seconds()
	}
	// (K) programs for the model machine
	nk := 3
	if a.Thorough() {
		nk = 20
	}
	if only2 {
		nk = 0
	}
	type kjob struct {
		cfg Cfg
		ops []kop
	}
	var kjobs []kjob
	for _, np := range []bool{false, true} {
		for ca := 0; ca < NCache; ca++ {
			for _, sn := range []bool{false, true} {
				for j := 0; j < nk; j++ {
					r := root.Fork()
					cfg := genCfg(r, np, ca, sn, LocMem)
					kjobs = append(kjobs, kjob{cfg, genKProg(r, r.Range(12, 40))})
				}
			}
		}
	}
	if res.NViolations() > 0 {
		// the implementation already failed the property oracle: do not run more programs on it
		kjobs = nil
		res.Count("kprog_skipped_after_violation", 1)
	}
	ktexts := make([]string, len(kjobs))
	var wgk sync.WaitGroup
	sem := make(chan struct{}, 16)
	for i := range kjobs {
		wgk.Add(1)
		sem <- struct{}{}
		go func(i int) {
			defer wgk.Done()
			defer func() { <-sem }()
			text, f := runKProg(kjobs[i].cfg, kjobs[i].ops)
			res.Count("kprog_programs", 1)
			if f != "" {
				res.Violate("model-vocabulary program: "+f+" ["+kjobs[i].cfg.String()+"]", &Program{Seed: a.Seed, Cfg: kjobs[i].cfg, KOps: kjobs[i].ops})
				return
			}
			ktexts[i] = text
		}(i)
	}
	wgk.Wait()
	res.Extra["pk_phase_s"] = time.Since(tStart).Seconds()
	// spread the (large) program cases evenly over the shards
	sort.Strings(kcases)
	var all []string
	step := 1
	if len(kjobs) > 0 {
		step = len(kcases)/len(kjobs) + 1
	}
	ki := 0
	for i, t := range kcases {
		all = append(all, t)
		if (i+1)%step == 0 && ki < len(ktexts) {
			if ktexts[ki] != "" {
				all = append(all, ktexts[ki])
			}
			ki++
		}
	}
	for ; ki < len(ktexts); ki++ {
		if ktexts[ki] != "" {
			all = append(all, ktexts[ki])
		}
	}
	sort.Strings(wcases)
	kcases = append(all, wcases...)
	res.WriteCases("From GL Require Import Corr.C20Run.", "c20case", "mismatches", kcases, 16)
}
