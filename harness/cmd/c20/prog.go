package main

import (
	"encoding/json"
	"fmt"
	"os"

	"github.com/syndtr/goleveldb/leveldb/opt"
	"verifharness/lib/dbh"
	"verifharness/lib/vlib"
)

// Data locations a program steers its probes to (the fourth configuration dimension).
const (
	LocMem    = 0 // live write buffer
	LocFrozen = 1 // frozen write buffer (flush held back by the storage gate)
	LocL0     = 2 // level-0 table
	LocDeep   = 3 // table at level >= 1
	NLoc      = 4
)

// Block-cache modes (second configuration dimension).
const (
	CacheDefault = 0 // LRU, default capacity: every block read stays cached
	CacheOff     = 1 // DisableBlockCache
	CacheTiny    = 2 // LRU holding about two blocks: constant eviction (evicted buffers go back to the pool)
	CacheNoLRU   = 3 // BlockCacheCapacity<0: cache map without a cacher (a block is shared only while handles are out)
	NCache       = 4
)

var locNames = []string{"mem", "frozen", "l0", "deep"}
var cacheNames = []string{"on", "off", "tiny", "nolru"}

// Cfg is one configuration cell plus the layout-forcing sizes.
type Cfg struct {
	NoPool  bool `json:"nopool"`
	Cache   int  `json:"cache"`
	Snappy  bool `json:"snappy"`
	Loc     int  `json:"loc"`
	WB      int  `json:"wb"`
	BS      int  `json:"bs"`
	RI      int  `json:"ri"`
	L0      int  `json:"l0"`
	TS      int  `json:"ts"`
	NoMerge bool `json:"nomerge"`
	NoLBT   bool `json:"nolbt"`
	FBits   int  `json:"fbits"`
}

func (c Cfg) Cell() string {
	p := "pool"
	if c.NoPool {
		p = "nopool"
	}
	s := "plain"
	if c.Snappy {
		s = "snappy"
	}
	return fmt.Sprintf("%s/%s/%s/%s", p, cacheNames[c.Cache], s, locNames[c.Loc])
}

func (c Cfg) String() string {
	return fmt.Sprintf("%s wb=%d bs=%d ri=%d l0=%d ts=%d nomerge=%v nolbt=%v fbits=%d", c.Cell(), c.WB, c.BS, c.RI, c.L0, c.TS, c.NoMerge, c.NoLBT, c.FBits)
}

const tinyCacheBytes = 600

func (c Cfg) Options() *opt.Options {
	d := dbh.Cfg{WriteBuffer: c.WB, TableSize: c.TS, TotalSize: 4 * c.TS, L0Trigger: c.L0, BlockSize: c.BS, RestartInterval: c.RI,
		Snappy: c.Snappy, FilterBits: c.FBits, NoBufferPool: c.NoPool, NoWriteMerge: c.NoMerge, NoLargeBatchTxn: c.NoLBT, DisableSeeks: false}
	o := d.Options()
	if c.L0 >= 8 {
		// a level-0 compaction trigger above the write pause trigger (default 12) makes a writer spin forever in
		// DB.flush once 12 level-0 tables exist (it waits for a table compaction that is never needed): keep the
		// pause/slowdown triggers above the compaction trigger
		o.WriteL0SlowdownTrigger = 4 * c.L0
		o.WriteL0PauseTrigger = 8 * c.L0
	}
	switch c.Cache {
	case CacheOff:
		o.DisableBlockCache = true
	case CacheTiny:
		o.BlockCacher = opt.LRUCacher
		o.BlockCacheCapacity = tinyCacheBytes
	case CacheNoLRU:
		o.BlockCacheCapacity = -1
	}
	return o
}

// Rec is one batch record.
type Rec struct {
	Del bool         `json:"del,omitempty"`
	K   dbh.HexBytes `json:"k"`
	V   dbh.HexBytes `json:"v,omitempty"`
}

// Op kinds.
const (
	OPut        = "put"
	ODel        = "del"
	OBatch      = "batch"
	OGet        = "get" // Get, compare, scribble (or hold), Get again N times
	OHas        = "has"
	OScan       = "scan" // forward + backward iteration with stability checks
	OSeek       = "seek" // fresh iterator, Seek(k) with poisoned key, a few steps
	OSnap       = "snap"
	OSnapGet    = "snapget"
	OSnapRel    = "snaprel"
	OIterOpen   = "iteropen"
	OIterStep   = "iterstep"
	OIterClose  = "iterclose"
	OCompact    = "compact"
	ORotate     = "rotate" // fill the write buffer exactly so that it is rotated after the write
	OGateClose  = "gateclose"
	OGateOpen   = "gateopen"
	OIdle       = "idle"
	OReopen     = "reopen"
	OTxnOpen    = "txnopen"
	OTxnPut     = "txnput"
	OTxnDel     = "txndel"
	OTxnBatch   = "txnbatch"
	OTxnGet     = "txnget"
	OTxnScan    = "txnscan"
	OTxnCommit  = "txncommit"
	OTxnDiscard = "txndiscard"
	OCheckAll   = "checkall"
	OConc       = "conc" // concurrent segment: workers on disjoint key sets + an observer iterating
)

// Op is one step of a program.
type Op struct {
	Kind    string       `json:"op"`
	K       dbh.HexBytes `json:"k,omitempty"`
	K2      dbh.HexBytes `json:"k2,omitempty"`
	HasK    bool         `json:"hask,omitempty"`
	HasK2   bool         `json:"hask2,omitempty"`
	V       dbh.HexBytes `json:"v,omitempty"`
	Recs    []Rec        `json:"recs,omitempty"`
	Sync    bool         `json:"sync,omitempty"`
	I       int          `json:"i,omitempty"`
	Hold    bool         `json:"hold,omitempty"` // get/txnget: keep the returned value and check it stays intact before scribbling
	Workers [][]Op       `json:"workers,omitempty"`
}

// Program is a replayable case.
type Program struct {
	Seed uint64         `json:"seed"`
	Cfg  Cfg            `json:"cfg"`
	Pool []dbh.HexBytes `json:"pool"`
	Ops  []Op           `json:"ops"`
	KOps []kop          `json:"kops,omitempty"` // a (K) program instead of Ops
	Storm *Storm        `json:"storm,omitempty"` // a merge storm instead of Ops
	Walk  *Walk         `json:"walk,omitempty"`  // a backward walk instead of Ops
}

func loadProgram(path string) (*Program, error) {
	b, err := os.ReadFile(path)
	if err != nil {
		return nil, err
	}
	var w struct {
		Case json.RawMessage `json:"case"`
	}
	if err := json.Unmarshal(b, &w); err != nil {
		return nil, err
	}
	raw := w.Case
	if raw == nil {
		raw = b
	}
	p := &Program{}
	if err := json.Unmarshal(raw, p); err != nil {
		return nil, err
	}
	return p, nil
}

func pick(r *vlib.RNG, xs ...int) int { return xs[r.Intn(len(xs))] }

// genCfg draws the layout sizes of a cell.
func genCfg(r *vlib.RNG, nopool bool, cache int, snappy bool, loc int) Cfg {
	c := Cfg{NoPool: nopool, Cache: cache, Snappy: snappy, Loc: loc,
		WB: pick(r, 2048, 4096, 4096, 8192), BS: pick(r, 64, 128, 256, 256, 1024), RI: pick(r, 1, 2, 4, 16),
		L0: pick(r, 2, 4), TS: pick(r, 1024, 2048, 4096), NoMerge: r.Chance(1, 4), NoLBT: r.Chance(1, 4), FBits: pick(r, 0, 0, 10)}
	if loc == LocL0 {
		c.L0 = 64 // keep flushed tables at level 0 during the directed phase
	}
	return c
}

// valueFor builds a recognisable value: tag, then a compressible pattern.
func valueFor(r *vlib.RNG, c Cfg, key []byte, tag uint64) []byte {
	var n int
	switch r.Pick(2, 12, 3, 2, 1) {
	case 0:
		n = 0
	case 1:
		n = r.Range(1, 40)
	case 2:
		n = c.BS + r.Range(-9, 9)
	case 3:
		n = r.Range(60, 400)
	case 4:
		n = c.WB/4 + r.Range(0, 64)
	}
	if n < 0 {
		n = 0
	}
	v := make([]byte, n)
	s := fmt.Sprintf("%d:", tag)
	for i := range v {
		if i < len(s) {
			v[i] = s[i]
		} else {
			v[i] = byte('a' + (i*7+int(tag))%23)
		}
	}
	return v
}

type gen struct {
	r    *vlib.RNG
	c    Cfg
	pool [][]byte
	tag  uint64
	ops  []Op
}

func (g *gen) key() []byte { return g.pool[g.r.Intn(len(g.pool))] }

func (g *gen) add(o Op) { g.ops = append(g.ops, o) }

func (g *gen) bound() ([]byte, bool) {
	switch g.r.Intn(4) {
	case 0:
		return nil, false
	case 1:
		k := append([]byte{}, g.key()...)
		return append(k, byte(g.r.Intn(3))), true
	default:
		return g.key(), true
	}
}

func (g *gen) recs(n int) []Rec {
	var recs []Rec
	for i := 0; i < n; i++ {
		k := g.key()
		g.tag++
		if g.r.Chance(1, 4) {
			recs = append(recs, Rec{Del: true, K: k})
		} else {
			recs = append(recs, Rec{K: k, V: valueFor(g.r, g.c, k, g.tag)})
		}
	}
	return recs
}

func (g *gen) write() {
	switch g.r.Pick(10, 3, 3) {
	case 0:
		k := g.key()
		g.tag++
		g.add(Op{Kind: OPut, K: k, V: valueFor(g.r, g.c, k, g.tag), Sync: g.r.Chance(1, 4)})
	case 1:
		g.add(Op{Kind: ODel, K: g.key()})
	case 2:
		g.add(Op{Kind: OBatch, Recs: g.recs(g.r.Range(1, 8)), Sync: g.r.Chance(1, 4)})
	}
}

// probes: Get (scribble / hold) on every pool key, Has, a Seek and scans.
func (g *gen) probes(all bool) {
	for i, k := range g.pool {
		if !all && !g.r.Chance(1, 3) {
			continue
		}
		g.add(Op{Kind: OGet, K: k, I: g.r.Range(1, 3), Hold: g.r.Chance(1, 3)})
		if i%4 == 0 {
			g.add(Op{Kind: OHas, K: k})
		}
	}
	g.add(Op{Kind: OSeek, K: g.key(), I: g.r.Intn(8)})
	a, ha := g.bound()
	b, hb := g.bound()
	g.add(Op{Kind: OScan, K: a, HasK: ha, K2: b, HasK2: hb})
	g.add(Op{Kind: OScan})
}

func (g *gen) txn(n int) {
	g.add(Op{Kind: OTxnOpen})
	for i := 0; i < n; i++ {
		switch g.r.Pick(5, 2, 2, 6, 1) {
		case 0:
			k := g.key()
			g.tag++
			g.add(Op{Kind: OTxnPut, K: k, V: valueFor(g.r, g.c, k, g.tag)})
		case 1:
			g.add(Op{Kind: OTxnDel, K: g.key()})
		case 2:
			g.add(Op{Kind: OTxnBatch, Recs: g.recs(g.r.Range(1, 10))})
		case 3:
			g.add(Op{Kind: OTxnGet, K: g.key(), I: g.r.Range(1, 2), Hold: g.r.Chance(1, 3)})
		case 4:
			g.add(Op{Kind: OTxnScan})
		}
		if g.r.Chance(1, 4) {
			g.add(Op{Kind: OGet, K: g.key(), I: 1})
		}
	}
	if g.r.Chance(2, 3) {
		g.add(Op{Kind: OTxnCommit})
	} else {
		g.add(Op{Kind: OTxnDiscard})
	}
}

// conc builds a concurrent segment: w workers, worker j owns the pool keys with index = j mod w.
func (g *gen) conc() {
	w := g.r.Range(2, 4)
	workers := make([][]Op, w)
	for j := 0; j < w; j++ {
		var own [][]byte
		for i, k := range g.pool {
			if i%w == j {
				own = append(own, k)
			}
		}
		if len(own) == 0 {
			continue
		}
		n := g.r.Range(10, 40)
		for i := 0; i < n; i++ {
			k := own[g.r.Intn(len(own))]
			switch g.r.Pick(8, 2, 4, 5, 1) {
			case 0:
				g.tag++
				workers[j] = append(workers[j], Op{Kind: OPut, K: k, V: valueFor(g.r, g.c, k, g.tag)})
			case 1:
				workers[j] = append(workers[j], Op{Kind: ODel, K: k})
			case 2:
				var recs []Rec
				for q, m := 0, g.r.Range(1, 6); q < m; q++ {
					kk := own[g.r.Intn(len(own))]
					g.tag++
					if g.r.Chance(1, 5) {
						recs = append(recs, Rec{Del: true, K: kk})
					} else {
						recs = append(recs, Rec{K: kk, V: valueFor(g.r, g.c, kk, g.tag)})
					}
				}
				workers[j] = append(workers[j], Op{Kind: OBatch, Recs: recs})
			case 3:
				workers[j] = append(workers[j], Op{Kind: OGet, K: k, I: 1, Hold: g.r.Chance(1, 4)})
			case 4:
				workers[j] = append(workers[j], Op{Kind: OHas, K: k})
			}
		}
	}
	g.add(Op{Kind: OConc, Workers: workers})
}

// genProgram: a directed prefix that places data at the cell's location and probes it, then a random suffix.
func genProgram(r *vlib.RNG, c Cfg, nrand int) *Program {
	pool := dbh.GenPool(r, r.Range(6, 28), r.Chance(1, 10))
	g := &gen{r: r, c: c, pool: pool}
	// populate
	for i, n := 0, r.Range(len(pool), 3*len(pool)); i < n; i++ {
		g.write()
	}
	// make sure most keys hold a value
	for _, k := range pool {
		if r.Chance(3, 4) {
			g.tag++
			g.add(Op{Kind: OPut, K: k, V: valueFor(r, c, k, g.tag)})
		}
	}
	switch c.Loc {
	case LocMem:
	case LocFrozen:
		g.add(Op{Kind: OIdle})
		g.add(Op{Kind: OGateClose})
		// a few more writes land in the buffer that is about to be frozen
		for i := 0; i < 3; i++ {
			g.write()
		}
		g.add(Op{Kind: ORotate})
	case LocL0:
		g.add(Op{Kind: ORotate})
		g.add(Op{Kind: OIdle})
	case LocDeep:
		g.add(Op{Kind: OCompact})
		g.add(Op{Kind: OIdle})
	}
	g.probes(true)
	// pinned iterator across later writes / layout changes
	g.add(Op{Kind: OIterOpen})
	g.add(Op{Kind: OIterStep, I: r.Intn(1 << 16)})
	if c.Loc == LocFrozen {
		// a little work while the frozen buffer is still there (small writes only: the runner skips what would block)
		for i := 0; i < 4; i++ {
			g.write()
			g.add(Op{Kind: OIterStep, I: r.Intn(1 << 16)})
		}
		g.probes(false)
		g.add(Op{Kind: OGateOpen})
		g.add(Op{Kind: OIdle})
		g.probes(false)
	}
	// transaction probes (OpenTransaction flushes the write buffer: tables + transaction buffer paths)
	if r.Chance(1, 2) {
		g.txn(r.Range(4, 16))
	}
	g.add(Op{Kind: OCheckAll})
	// random suffix
	nsnap, niter := 0, 1
	for i := 0; i < nrand; i++ {
		switch r.Pick(30, 14, 3, 3, 2, 2, 2, 3, 2, 4, 2, 3, 2, 2, 1, 2, 2, 2) {
		case 0:
			g.write()
		case 1:
			g.add(Op{Kind: OGet, K: g.key(), I: r.Range(1, 3), Hold: r.Chance(1, 3)})
		case 2:
			g.add(Op{Kind: OHas, K: g.key()})
		case 3:
			a, ha := g.bound()
			b, hb := g.bound()
			g.add(Op{Kind: OScan, K: a, HasK: ha, K2: b, HasK2: hb})
		case 4:
			g.add(Op{Kind: OSeek, K: g.key(), I: r.Intn(8)})
		case 5:
			if nsnap < 6 {
				g.add(Op{Kind: OSnap})
				nsnap++
			}
		case 6:
			if nsnap > 0 {
				g.add(Op{Kind: OSnapGet, I: r.Intn(64), K: g.key()})
			}
		case 7:
			if niter < 4 {
				a, ha := g.bound()
				b, hb := g.bound()
				g.add(Op{Kind: OIterOpen, K: a, HasK: ha, K2: b, HasK2: hb})
				niter++
			}
		case 8:
			if nsnap > 0 && r.Chance(1, 2) {
				g.add(Op{Kind: OSnapRel, I: r.Intn(64)})
				nsnap--
			}
		case 9:
			if niter > 0 {
				g.add(Op{Kind: OIterStep, I: r.Intn(1 << 16)})
			}
		case 10:
			if niter > 0 {
				g.add(Op{Kind: OIterClose, I: r.Intn(64)})
				niter--
			}
		case 11:
			a, ha := g.bound()
			b, hb := g.bound()
			if r.Chance(1, 2) {
				ha, hb = false, false
			}
			g.add(Op{Kind: OCompact, K: a, HasK: ha, K2: b, HasK2: hb})
		case 12:
			g.add(Op{Kind: ORotate})
		case 13:
			g.add(Op{Kind: OIdle})
		case 14:
			g.add(Op{Kind: OReopen})
			nsnap, niter = 0, 0
		case 15:
			g.txn(r.Range(2, 14))
		case 16:
			g.conc()
		case 17:
			g.add(Op{Kind: OCheckAll})
		}
	}
	g.add(Op{Kind: OCheckAll})
	p := &Program{Cfg: c, Ops: g.ops}
	for _, k := range pool {
		p.Pool = append(p.Pool, k)
	}
	return p
}
