package main

import (
	"fmt"

	"verifharness/lib/vlib"
)

// Paths of the model's copy/slice table (Alias/AliasModel.v, [path]); the numbers are the Coq-side codes.
const (
	pathGet       = 0 // value returned by DB.Get
	pathSnapGet   = 1 // value returned by Snapshot.Get
	pathTxnGet    = 2 // value returned by Transaction.Get
	pathPutArg    = 3 // key/value argument of DB.Put after the call returned
	pathTxnPutArg = 4 // key/value argument of Transaction.Put after the call returned
	pathIterKey   = 5 // slice exposed by Iterator.Key
	pathIterValue = 6 // slice exposed by Iterator.Value
)

// renderKob renders one address observation as a Coq case:  KObs nopool cache snappy path loc class capshape
func renderKob(c Cfg, o kob) string {
	return fmt.Sprintf("KObs %s %d %s %d %d %d %s", vlib.CoqBool(c.NoPool), c.Cache, vlib.CoqBool(c.Snappy), o.Path, o.Loc, o.Class, vlib.CoqBool(o.CapShape))
}
