package main

import (
	"bytes"
	"fmt"
	"os"
	"runtime/debug"
	"sort"
	"sync"
	"sync/atomic"
	"time"

	"github.com/syndtr/goleveldb/leveldb"
	"github.com/syndtr/goleveldb/leveldb/iterator"
	"github.com/syndtr/goleveldb/leveldb/opt"
	"github.com/syndtr/goleveldb/leveldb/util"
	"verifharness/lib/vlib"
)

type failure struct {
	Op   int    `json:"op_index"`
	What string `json:"what"`
}

func (f *failure) Error() string { return fmt.Sprintf("op %d: %s", f.Op, f.What) }

func fail(format string, a ...interface{}) *failure { return &failure{What: fmt.Sprintf(format, a...)} }

func short(b []byte) string {
	if len(b) > 20 {
		return fmt.Sprintf("%x…(%d bytes)", b[:20], len(b))
	}
	return fmt.Sprintf("%x", b)
}

func clone(b []byte) []byte { return append([]byte{}, b...) }

// ---- poisoned argument buffers ----

const padLen = 12
const padByte = 0xC3

// abuf is an argument buffer: the content, then padLen sentinel bytes of spare capacity.
type abuf struct {
	s    []byte // what is passed to the DB: len = content, cap = content+pad
	want []byte
	full []byte
}

func mkbuf(b []byte) *abuf {
	full := make([]byte, len(b)+padLen)
	copy(full, b)
	for i := len(b); i < len(full); i++ {
		full[i] = padByte
	}
	return &abuf{s: full[:len(b)], want: clone(b), full: full}
}

// intact: the callee changed neither the content nor the spare capacity.
func (a *abuf) intact() bool {
	if !bytes.Equal(a.full[:len(a.want)], a.want) {
		return false
	}
	for _, x := range a.full[len(a.want):] {
		if x != padByte {
			return false
		}
	}
	return true
}

var poisonCtr uint32

func scribble(b []byte) {
	b = b[:cap(b)]
	c := byte(atomic.AddUint32(&poisonCtr, 1)*37 + 11)
	for i := range b {
		b[i] = 0xA5 ^ c ^ byte(i*29)
	}
}

func (a *abuf) poison() { scribble(a.full) }

// scribbleLen overwrites only the visible part of a returned value (what any client may do with "its own copy").
func scribbleLen(b []byte) {
	if len(b) > 0 {
		scribble(b[:len(b):len(b)])
	}
}

// ---- runner ----

type kv struct{ K, V []byte }

type oracle map[string][]byte

func (o oracle) clone() oracle {
	c := make(oracle, len(o))
	for k, v := range o {
		c[k] = v
	}
	return c
}

func (o oracle) sorted(start, limit []byte, hs, hl bool) []kv {
	var out []kv
	for k, v := range o {
		kb := []byte(k)
		if hs && bytes.Compare(kb, start) < 0 {
			continue
		}
		if hl && bytes.Compare(kb, limit) >= 0 {
			continue
		}
		out = append(out, kv{kb, v})
	}
	sort.Slice(out, func(i, j int) bool { return bytes.Compare(out[i].K, out[j].K) < 0 })
	return out
}

type heldVal struct {
	v, want []byte
	what    string
	age     int
	recheck func() *failure // re-reads the key after the value was scribbled over
}

type snapState struct {
	snap   *leveldb.Snapshot
	frozen oracle
}

type iterState struct {
	it     iterator.Iterator
	list   []kv
	pos    int
	k, v   []byte // the slices the iterator exposed at its current position
	kc, vc []byte // copies taken at that time
	valid  bool
}

// kob is one address observation (K).
type kob struct {
	Path     int // pathGet..., see kcases.go
	Loc      int
	Class    int
	CapShape bool
}

type runner struct {
	p        *Program
	cfg      Cfg
	stor     *gateStor
	db       *leveldb.DB
	opts     *opt.Options
	model    oracle
	snaps    []*snapState
	iters    []*iterState
	txn      *leveldb.Transaction
	txnMod   oracle
	held     []heldVal
	gateShut bool
	mu       sync.Mutex
	stats    map[string]int
	kobs     []kob
	kcap     int
	opIndex  int
	nlocate  map[int]int
	tabIdx   map[int64]map[string][]uint64
	readSeq  uint64
	inConc   bool
}

var fillKey = []byte("\x03fill")

// how many Gets per program are located (before and after the call) for the address observations, per path
var locateCap = map[int]int{pathGet: 40, pathSnapGet: 8, pathTxnGet: 16}

var timing = os.Getenv("C20_TIMING") != ""

func newRunner(p *Program) *runner {
	return &runner{p: p, cfg: p.Cfg, stor: newGateStor(), opts: p.Cfg.Options(), model: oracle{}, stats: map[string]int{}, kcap: 72, nlocate: map[int]int{}}
}

func (r *runner) stat(k string, n int) {
	r.mu.Lock()
	r.stats[k] += n
	r.mu.Unlock()
}

func (r *runner) open() error {
	db, err := leveldb.Open(r.stor, r.opts)
	if err != nil {
		return err
	}
	r.db = db
	return nil
}

func (r *runner) close() error {
	r.stor.setClosed(false)
	r.gateShut = false
	for _, s := range r.snaps {
		s.snap.Release()
	}
	r.snaps = nil
	for _, is := range r.iters {
		is.it.Release()
	}
	r.iters = nil
	if r.txn != nil {
		r.txn.Discard()
		r.txn, r.txnMod = nil, nil
	}
	if r.db == nil {
		return nil
	}
	err := r.db.Close()
	r.db = nil
	return err
}

// ---- held values: a returned Get value must not change under the client either ----

func (r *runner) checkHeld(force bool) *failure {
	var keep []heldVal
	for _, h := range r.held {
		if !bytes.Equal(h.v, h.want) {
			return fail("value returned by %s changed while the client held it: now %s, was %s", h.what, short(h.v), short(h.want))
		}
		h.age++
		if force || h.age > 6 {
			// only the visible part: the key may have been rewritten since, so a re-read cannot vouch for the
			// spare capacity of this old result (the full-capacity overwrite is done on fresh results, see probeGet)
			scribbleLen(h.v)
			if h.recheck != nil {
				if f := h.recheck(); f != nil {
					return f
				}
			}
			continue
		}
		keep = append(keep, h)
	}
	r.held = keep
	return nil
}

// ---- address classes ----

const (
	clsNone   = 0
	clsBlock  = 1 // inside a buffer the block cache holds
	clsMem    = 2 // inside the live write buffer's arena
	clsFrozen = 3
	clsTxnMem = 4
	clsEmpty  = 9 // zero capacity: no address
)

func (r *runner) classify(v []byte) int {
	if cap(v) == 0 {
		return clsEmpty
	}
	vb := leveldb.VerifAliasBuffers(r.db)
	if overlaps(v, vb.MemLive) {
		return clsMem
	}
	if overlaps(v, vb.MemFrozen) {
		return clsFrozen
	}
	for _, b := range vb.Blocks {
		if overlaps(v, b) {
			return clsBlock
		}
	}
	if r.txn != nil {
		if overlaps(v, leveldb.VerifTxnMem(r.txn)) {
			return clsTxnMem
		}
	}
	for _, b := range leveldb.VerifBlockPool(r.db).VerifPooled() {
		if overlaps(v, b) {
			return clsPooled
		}
	}
	return clsNone
}

// capShape: the capacity is what append([]byte(nil), v...) gives for this length (a fresh exact copy).
func capShape(v []byte) bool { return cap(v) == cap(append([]byte(nil), v...)) }

func (r *runner) observe(path, loc int, v []byte) {
	if r.inConc {
		return
	}
	r.mu.Lock()
	full := len(r.kobs) >= r.kcap
	r.mu.Unlock()
	if full {
		return
	}
	c := r.classify(v)
	if c == clsEmpty {
		return
	}
	r.mu.Lock()
	r.kobs = append(r.kobs, kob{Path: path, Loc: loc, Class: c, CapShape: capShape(v)})
	r.mu.Unlock()
}

// locate tells where the newest entry of key lives right now: LocMem/LocFrozen/LocL0/LocDeep, -1 unknown/absent.
func (r *runner) locate(key []byte) int {
	maxSeq := r.readSeq // entries above the reader's sequence number are invisible to it (Snapshot.Get)
	if maxSeq == 0 {
		maxSeq = ^uint64(0)
	}
	live, frozen, _ := leveldb.VerifMemEntries(r.db)
	for _, e := range live {
		if e.Seq <= maxSeq && bytes.Equal(e.Ukey, key) {
			return LocMem
		}
	}
	for _, e := range frozen {
		if e.Seq <= maxSeq && bytes.Equal(e.Ukey, key) {
			return LocFrozen
		}
	}
	tabs := leveldb.VerifDumpVersion(r.db)
	// level 0 newest first, then deeper levels
	sort.SliceStable(tabs, func(i, j int) bool {
		if tabs[i].Level != tabs[j].Level {
			return tabs[i].Level < tabs[j].Level
		}
		return tabs[i].Num > tabs[j].Num
	})
	bestLevel, bestSeq := -1, uint64(0)
	for _, t := range tabs {
		if len(t.Imin) < 8 || len(t.Imax) < 8 {
			continue
		}
		if bytes.Compare(key, t.Imin[:len(t.Imin)-8]) < 0 || bytes.Compare(key, t.Imax[:len(t.Imax)-8]) > 0 {
			continue
		}
		if bestLevel >= 0 && t.Level > bestLevel {
			break
		}
		// tables are immutable: the sequence numbers per user key, cached by table number
		idx, ok := r.tabIdx[t.Num]
		if !ok {
			ents, err := leveldb.VerifTableEntries(r.db, t)
			if err != nil {
				return -1
			}
			idx = map[string][]uint64{}
			for _, e := range ents {
				idx[string(e.Ukey)] = append(idx[string(e.Ukey)], e.Seq)
			}
			if r.tabIdx == nil {
				r.tabIdx = map[int64]map[string][]uint64{}
			}
			r.tabIdx[t.Num] = idx
		}
		for _, sq := range idx[string(key)] {
			if sq <= maxSeq && (bestLevel < 0 || sq > bestSeq) {
				bestLevel, bestSeq = t.Level, sq
			}
		}
	}
	switch {
	case bestLevel == 0:
		return LocL0
	case bestLevel > 0:
		return LocDeep
	}
	return -1
}

// ---- the poisoned API wrappers ----

type getter func(k []byte) ([]byte, error)

// getOnce: one Get with a poisoned key buffer, compared with the view.
func (r *runner) getOnce(view oracle, get getter, key []byte, what, when string) (v []byte, f *failure) {
	want, ok := view[string(key)]
	kb := mkbuf(key)
	v, err := get(kb.s)
	if !kb.intact() {
		return nil, fail("%s Get(%x) modified its key argument (or its spare capacity)", what, key)
	}
	kb.poison()
	if ok {
		if err != nil {
			return nil, fail("%s Get(%x): error %v, oracle has %s%s", what, key, err, short(want), when)
		}
		if !bytes.Equal(v, want) {
			return nil, fail("%s Get(%x) = %s, oracle says %s%s", what, key, short(v), short(want), when)
		}
	} else if err != leveldb.ErrNotFound {
		return nil, fail("%s Get(%x) = %s err=%v, oracle says not found%s", what, key, short(v), err, when)
	}
	return v, nil
}

// probeGet: Get with a poisoned key buffer; the result is compared with the view, its address class recorded,
// then its visible bytes are scribbled over (or it is held and scribbled later) and the Get repeated reps times;
// finally every result is scribbled over its full capacity (what append() within capacity may touch) and the key
// is read once more.
func (r *runner) probeGet(view oracle, get getter, key []byte, reps int, hold, mayScribble bool, path int, what string) *failure {
	_, ok := view[string(key)]
	var vals [][]byte
	for i := 0; i <= reps; i++ {
		var h0, m0 int64
		if !r.inConc {
			h0, m0, _, _ = leveldb.VerifBlockCacheStats(r.db)
		}
		when := ""
		if i > 0 {
			when = fmt.Sprintf(" (read %d, after the client overwrote the slices returned by earlier reads)", i+1)
		}
		// where the key lives is looked up before and after the call: the observation counts only if a
		// background flush/compaction did not move it in between
		doObs := ok && path >= 0 && !r.inConc && r.nlocate[path] < locateCap[path]
		locBefore := -1
		if doObs {
			r.nlocate[path]++
			locBefore = r.locateFor(path, key)
		}
		v, f := r.getOnce(view, get, key, what, when)
		if f != nil {
			return f
		}
		if !r.inConc {
			h1, m1, _, _ := leveldb.VerifBlockCacheStats(r.db)
			if ok && h1 > h0 && m1 == m0 {
				r.stat("get_served_from_cached_block", 1)
			}
			if ok && m1 > m0 {
				r.stat("get_filled_block_cache", 1)
			}
		}
		if doObs && cap(v) > 0 && locBefore >= 0 && r.locateFor(path, key) == locBefore {
			r.observe(path, locBefore, v)
			if i == 0 {
				r.stat("cell_"+r.cfg.cellNoLoc()+"/"+locName(locBefore), 1)
			}
		}
		if ok && mayScribble {
			if hold && i == 0 {
				r.held = append(r.held, heldVal{v: v, want: clone(v), what: what + fmt.Sprintf(" Get(%x)", key),
					recheck: func() *failure {
						if r.viewOf(what) == nil {
							return nil
						}
						_, f := r.getOnce(r.viewOf(what), get, key, what, " (after the client overwrote a slice returned earlier)")
						return f
					}})
			} else {
				scribbleLen(v)
				vals = append(vals, v)
			}
			r.stat("get_values_scribbled", 1)
		}
	}
	if len(vals) > 0 {
		if _, f := r.getOnce(view, get, key, what, " (after the client overwrote the slices returned by earlier reads)"); f != nil {
			return f
		}
		for _, v := range vals {
			scribble(v)
		}
		if _, f := r.getOnce(view, get, key, what, " (after the client overwrote the slices returned by earlier reads over their full capacity)"); f != nil {
			return f
		}
	}
	return nil
}

// viewOf returns the current oracle view behind a held value's origin (nil if that handle is gone).
func (r *runner) viewOf(what string) oracle {
	switch what {
	case "DB":
		return r.model
	case "transaction":
		if r.txn == nil {
			return nil
		}
		return r.txnMod
	}
	return nil
}

func (c Cfg) cellNoLoc() string {
	p := "pool"
	if c.NoPool {
		p = "nopool"
	}
	s := "plain"
	if c.Snappy {
		s = "snappy"
	}
	return fmt.Sprintf("%s/%s/%s", p, cacheNames[c.Cache], s)
}

func locName(l int) string {
	if l >= 0 && l < len(locNames) {
		return locNames[l]
	}
	if l == LocTxnMem {
		return "txnmem"
	}
	if l == LocTxnTab {
		return "txntab"
	}
	return "?"
}

func (r *runner) locateFor(path int, key []byte) int {
	if path == pathTxnGet {
		return r.locateTxn(key)
	}
	return r.locate(key)
}

// extra locations of Transaction.Get
const (
	LocTxnMem = 4 // the transaction's own write buffer
	LocTxnTab = 5 // a table (the transaction's or the DB's)
)

func (r *runner) locateTxn(key []byte) int {
	// inside a transaction the DB's buffers are empty (OpenTransaction flushed them): either the
	// transaction's buffer or some table
	tm := leveldb.VerifTxnMemEntries(r.txn)
	for _, e := range tm {
		if bytes.Equal(e.Ukey, key) {
			return LocTxnMem
		}
	}
	return LocTxnTab
}

func (r *runner) probeHas(has func([]byte) (bool, error), view oracle, key []byte, what string) *failure {
	_, want := view[string(key)]
	kb := mkbuf(key)
	h, err := has(kb.s)
	if !kb.intact() {
		return fail("%s Has(%x) modified its key argument", what, key)
	}
	kb.poison()
	if err != nil || h != want {
		return fail("%s Has(%x) = %v err=%v, oracle says %v", what, key, h, err, want)
	}
	return nil
}

func (r *runner) wouldBlock(n int) bool {
	if !r.gateShut {
		return false
	}
	free := leveldb.VerifMemFree(r.db)
	return free < 0 || n >= free
}

func (r *runner) doPut(db *leveldb.DB, model oracle, k, v []byte, sync bool) *failure {
	kb, vb := mkbuf(k), mkbuf(v)
	err := db.Put(kb.s, vb.s, &opt.WriteOptions{Sync: sync})
	if !kb.intact() || !vb.intact() {
		return fail("Put(%x) modified its arguments (or their spare capacity)", k)
	}
	if !r.inConc && len(k) > 0 {
		r.observeArg(pathPutArg, kb.full)
		if len(v) > 0 {
			r.observeArg(pathPutArg, vb.full)
		}
	}
	kb.poison()
	vb.poison()
	if err != nil {
		return fail("Put error %v", err)
	}
	model[string(k)] = clone(v)
	return nil
}

// observeArg records whether an argument buffer is (still) part of a DB-side buffer after the call returned.
func (r *runner) observeArg(path int, full []byte) {
	r.mu.Lock()
	room := len(r.kobs) < r.kcap && r.stats["kobs_args"] < 12
	if room {
		r.stats["kobs_args"]++
	}
	r.mu.Unlock()
	if room {
		r.observe(path, LocMem, full)
	}
}

func (r *runner) doDelete(db *leveldb.DB, model oracle, k []byte, sync bool) *failure {
	kb := mkbuf(k)
	err := db.Delete(kb.s, &opt.WriteOptions{Sync: sync})
	if !kb.intact() {
		return fail("Delete(%x) modified its argument", k)
	}
	kb.poison()
	if err != nil {
		return fail("Delete error %v", err)
	}
	delete(model, string(k))
	return nil
}

// fillBatch appends the records through Batch.Put/Batch.Delete, poisoning each argument right after the call.
func fillBatch(b *leveldb.Batch, recs []Rec) *failure {
	for _, rec := range recs {
		kb := mkbuf(rec.K)
		if rec.Del {
			b.Delete(kb.s)
			if !kb.intact() {
				return fail("Batch.Delete(%x) modified its argument", rec.K)
			}
		} else {
			vb := mkbuf(rec.V)
			b.Put(kb.s, vb.s)
			if !kb.intact() || !vb.intact() {
				return fail("Batch.Put(%x) modified its arguments", rec.K)
			}
			vb.poison()
		}
		kb.poison()
	}
	return nil
}

func applyRecs(m oracle, recs []Rec) {
	for _, rec := range recs {
		if rec.Del {
			delete(m, string(rec.K))
		} else {
			m[string(rec.K)] = clone(rec.V)
		}
	}
}

func recsLen(recs []Rec) int {
	n := 0
	for _, rec := range recs {
		n += len(rec.K) + len(rec.V) + 8
	}
	return n
}

// garbageRecs refills a batch the client got back with unrelated records (overwriting its buffer in place).
func garbageRecs(b *leveldb.Batch, n int) {
	b.Reset()
	g := bytes.Repeat([]byte{0xEE}, 24)
	for b.Len() < n+1 {
		g[0] = byte(atomic.AddUint32(&poisonCtr, 1))
		b.Put(g[:8], g)
	}
	d := b.Dump()
	scribble(d)
}

func (r *runner) doWrite(write func(*leveldb.Batch, *opt.WriteOptions) error, model oracle, recs []Rec, sync bool, what string) *failure {
	b := new(leveldb.Batch)
	if f := fillBatch(b, recs); f != nil {
		return f
	}
	before := clone(b.Dump())
	n := b.Len()
	err := write(b, &opt.WriteOptions{Sync: sync})
	if b.Len() != n || !bytes.Equal(b.Dump(), before) {
		return fail("%s modified the caller's batch (%d records before, %d after)", what, n, b.Len())
	}
	// the batch is the caller's again: reuse it at once for something else and overwrite its buffer
	garbageRecs(b, n)
	if err != nil {
		return fail("%s error %v", what, err)
	}
	applyRecs(model, recs)
	return nil
}

func mkRange(op *Op) (*util.Range, *abuf, *abuf) {
	if op == nil || (!op.HasK && !op.HasK2) {
		return nil, nil, nil
	}
	rg := &util.Range{}
	var a, b *abuf
	if op.HasK {
		a = mkbuf(op.K)
		rg.Start = a.s
	}
	if op.HasK2 {
		b = mkbuf(op.K2)
		rg.Limit = b.s
	}
	return rg, a, b
}

// poisonRange overwrites the bounds and the Range struct itself after the call that received them returned.
func poisonRange(rg *util.Range, a, b *abuf, what string) *failure {
	if a != nil {
		if !a.intact() {
			return fail("%s modified Range.Start", what)
		}
		a.poison()
	}
	if b != nil {
		if !b.intact() {
			return fail("%s modified Range.Limit", what)
		}
		b.poison()
	}
	if rg != nil {
		rg.Start, rg.Limit = []byte("\xde\xad"), []byte("\x00")
	}
	return nil
}

// stable checks that what the iterator exposed at its current position is still intact.
func (is *iterState) stable(what string) *failure {
	if !is.valid {
		return nil
	}
	if !bytes.Equal(is.k, is.kc) {
		return fail("%s: key exposed by the iterator changed before the iterator was moved: now %s, was %s", what, short(is.k), short(is.kc))
	}
	if !bytes.Equal(is.v, is.vc) {
		return fail("%s: value exposed by the iterator changed before the iterator was moved: now %s, was %s", what, short(is.v), short(is.vc))
	}
	if !bytes.Equal(is.it.Key(), is.kc) || !bytes.Equal(is.it.Value(), is.vc) {
		return fail("%s: Key()/Value() differ between two reads without a move: (%s,%s) vs (%s,%s)", what, short(is.it.Key()), short(is.it.Value()), short(is.kc), short(is.vc))
	}
	return nil
}

// expose records what the iterator shows after a move and compares it with the expected pair.
func (r *runner) expose(is *iterState, ok bool, what string) *failure {
	n := len(is.list)
	valid := is.pos >= 0 && is.pos < n
	if ok != valid {
		return fail("%s returned %v, creation-time list says %v (pos %d of %d)", what, ok, valid, is.pos, n)
	}
	is.valid = valid
	if err := is.it.Error(); err != nil {
		return fail("%s: iterator error %v", what, err)
	}
	if !valid {
		is.k, is.v, is.kc, is.vc = nil, nil, nil, nil
		return nil
	}
	is.k, is.v = is.it.Key(), is.it.Value()
	is.kc, is.vc = clone(is.k), clone(is.v)
	if !bytes.Equal(is.k, is.list[is.pos].K) || !bytes.Equal(is.v, is.list[is.pos].V) {
		return fail("%s shows (%x,%s), creation-time list has (%x,%s)", what, is.k, short(is.v), is.list[is.pos].K, short(is.list[is.pos].V))
	}
	r.stat("iter_positions_checked", 1)
	if len(is.v) > 0 {
		r.observeIter(is)
	}
	return nil
}

func (r *runner) observeIter(is *iterState) {
	if r.inConc {
		return
	}
	r.mu.Lock()
	room := len(r.kobs) < r.kcap && r.stats["kobs_iter"] < 10
	if room {
		r.stats["kobs_iter"]++
	}
	r.mu.Unlock()
	if room {
		r.observe(pathIterKey, LocMem, is.k)
		r.observe(pathIterValue, LocMem, is.v)
	}
}

// move performs one iterator move (0,1 Next; 2 Prev; 3 First; 4 Last) after checking stability.
func (r *runner) move(is *iterState, code int, what string) *failure {
	if f := is.stable(what); f != nil {
		return f
	}
	n := len(is.list)
	var ok bool
	var name string
	switch code {
	case 0, 1:
		name = "Next"
		ok = is.it.Next()
		if is.pos < n {
			is.pos++
		}
	case 2:
		name = "Prev"
		ok = is.it.Prev()
		if is.pos >= 0 {
			is.pos--
		}
	case 3:
		name = "First"
		ok = is.it.First()
		is.pos = 0
		if n == 0 {
			is.pos = n
		}
	default:
		name = "Last"
		ok = is.it.Last()
		is.pos = n - 1
	}
	return r.expose(is, ok, what+" "+name)
}

func (r *runner) seek(is *iterState, key []byte, what string) *failure {
	if f := is.stable(what); f != nil {
		return f
	}
	kb := mkbuf(key)
	ok := is.it.Seek(kb.s)
	if !kb.intact() {
		return fail("%s Seek(%x) modified its argument", what, key)
	}
	kb.poison()
	is.pos = sort.Search(len(is.list), func(i int) bool { return bytes.Compare(is.list[i].K, key) >= 0 })
	return r.expose(is, ok, fmt.Sprintf("%s Seek(%x)", what, key))
}

func (r *runner) newIter(mk func(*util.Range, *opt.ReadOptions) iterator.Iterator, view oracle, op *Op, what string) (*iterState, *failure) {
	rg, a, b := mkRange(op)
	it := mk(rg, nil)
	if f := poisonRange(rg, a, b, what+" NewIterator"); f != nil {
		it.Release()
		return nil, f
	}
	var list []kv
	if op != nil {
		list = view.sorted(op.K, op.K2, op.HasK, op.HasK2)
	} else {
		list = view.sorted(nil, nil, false, false)
	}
	return &iterState{it: it, list: list, pos: -1}, nil
}

// scan: forward and backward over a fresh iterator; between moves some other activity (side writes) happens.
func (r *runner) scan(mk func(*util.Range, *opt.ReadOptions) iterator.Iterator, view oracle, op *Op, what string, side func(i int) *failure) *failure {
	is, f := r.newIter(mk, view, op, what)
	if f != nil {
		return f
	}
	defer is.it.Release()
	n := len(is.list)
	if f := r.move(is, 3, what); f != nil {
		return f
	}
	for i := 0; is.valid; i++ {
		if side != nil && i%5 == 2 {
			if f := side(i); f != nil {
				return f
			}
		}
		if f := r.move(is, 0, what); f != nil {
			return f
		}
		if i > n+2 {
			return fail("%s forward scan does not end", what)
		}
	}
	if f := r.move(is, 4, what); f != nil {
		return f
	}
	for i := 0; is.valid; i++ {
		if side != nil && i%7 == 3 {
			if f := side(i); f != nil {
				return f
			}
		}
		if f := r.move(is, 2, what); f != nil {
			return f
		}
		if i > n+2 {
			return fail("%s backward scan does not end", what)
		}
	}
	return nil
}

// sideWrite is the "other activity" during scans: a small Put of a pool key (oracle updated).
func (r *runner) sideWrite(seed int) func(i int) *failure {
	if r.txn != nil || len(r.p.Pool) == 0 {
		return nil
	}
	return func(i int) *failure {
		k := r.p.Pool[(seed+i)%len(r.p.Pool)]
		v := []byte(fmt.Sprintf("side-%d-%d", seed, i))
		if r.wouldBlock(len(k) + len(v) + 8) {
			return nil
		}
		return r.doPut(r.db, r.model, k, v, false)
	}
}

func (r *runner) dbGet(k []byte) ([]byte, error)  { return r.db.Get(k, nil) }
func (r *runner) dbHas(k []byte) (bool, error)    { return r.db.Has(k, nil) }
func (r *runner) txnGet(k []byte) ([]byte, error) { return r.txn.Get(k, nil) }
func (r *runner) txnHas(k []byte) (bool, error)   { return r.txn.Has(k, nil) }

func (r *runner) checkAll() *failure {
	keys := make([][]byte, 0, len(r.p.Pool)+3)
	for _, k := range r.p.Pool {
		keys = append(keys, k)
	}
	keys = append(keys, fillKey, []byte("\x02absent-0"), []byte("\x02absent-1"))
	for _, k := range keys {
		if f := r.probeGet(r.model, r.dbGet, k, 1, false, true, -1, "DB"); f != nil {
			return f
		}
		if f := r.probeHas(r.dbHas, r.model, k, "DB"); f != nil {
			return f
		}
	}
	if f := r.scan(r.db.NewIterator, r.model, nil, "DB scan", nil); f != nil {
		return f
	}
	for si, s := range r.snaps {
		for _, k := range keys {
			s := s
			// Snapshot.Get: "the caller should not modify the contents of the returned slice" -> arguments are
			// poisoned, the result is only compared
			if f := r.probeGet(s.frozen, func(k []byte) ([]byte, error) { return s.snap.Get(k, nil) }, k, 0, false, true, -1, fmt.Sprintf("snapshot#%d", si)); f != nil {
				return f
			}
		}
	}
	if r.txn != nil {
		for _, k := range keys {
			if f := r.probeGet(r.txnMod, r.txnGet, k, 1, false, true, -1, "transaction"); f != nil {
				return f
			}
		}
	}
	return nil
}

// step executes one op.
func (r *runner) step(i int, op *Op) (f *failure) {
	defer func() {
		if f != nil {
			f.Op = i
		}
	}()
	r.opIndex = i
	r.stat("op_"+op.Kind, 1)
	if timing {
		t0 := time.Now()
		defer func() { r.stat("us_"+op.Kind, int(time.Since(t0).Microseconds())) }()
	}
	if f := r.checkHeld(false); f != nil {
		return f
	}
	switch op.Kind {
	case OPut:
		if r.txn != nil || r.wouldBlock(len(op.K)+len(op.V)+8) {
			r.stat("skipped", 1)
			return nil
		}
		return r.doPut(r.db, r.model, op.K, op.V, op.Sync)
	case ODel:
		if r.txn != nil || r.wouldBlock(len(op.K)+8) {
			r.stat("skipped", 1)
			return nil
		}
		return r.doDelete(r.db, r.model, op.K, op.Sync)
	case OBatch:
		if r.txn != nil || r.wouldBlock(recsLen(op.Recs)) || (r.gateShut && recsLen(op.Recs) > r.cfg.WB/2) {
			r.stat("skipped", 1)
			return nil
		}
		return r.doWrite(r.db.Write, r.model, op.Recs, op.Sync, "DB.Write")
	case OGet:
		return r.probeGet(r.model, r.dbGet, op.K, op.I, op.Hold, true, pathGet, "DB")
	case OHas:
		return r.probeHas(r.dbHas, r.model, op.K, "DB")
	case OScan:
		return r.scan(r.db.NewIterator, r.model, op, "DB scan", r.sideWrite(op.I+i))
	case OSeek:
		is, f := r.newIter(r.db.NewIterator, r.model, nil, "DB")
		if f != nil {
			return f
		}
		defer is.it.Release()
		if f := r.seek(is, op.K, "DB iterator"); f != nil {
			return f
		}
		for s := 0; s < 3; s++ {
			if f := r.move(is, (op.I>>uint(s))&1*2, "DB iterator"); f != nil {
				return f
			}
		}
	case OSnap:
		s, err := r.db.GetSnapshot()
		if err != nil {
			return fail("GetSnapshot error %v", err)
		}
		r.snaps = append(r.snaps, &snapState{snap: s, frozen: r.model.clone()})
	case OSnapGet:
		if len(r.snaps) == 0 {
			return nil
		}
		s := r.snaps[op.I%len(r.snaps)]
		r.readSeq = leveldb.VerifSnapshotSeq(s.snap)
		defer func() { r.readSeq = 0 }()
		// Snapshot.Get's comment only says "should not modify"; it is the same DB.get as DB.Get (a private copy): the
		// result is overwritten like DB.Get's (second pass; Props/C20.v C20_snapshot_get_as_db_get)
		return r.probeGet(s.frozen, func(k []byte) ([]byte, error) { return s.snap.Get(k, nil) }, op.K, 1, false, true, pathSnapGet, "snapshot")
	case OSnapRel:
		if len(r.snaps) == 0 {
			return nil
		}
		si := op.I % len(r.snaps)
		r.snaps[si].snap.Release()
		r.snaps = append(r.snaps[:si], r.snaps[si+1:]...)
	case OIterOpen:
		is, f := r.newIter(r.db.NewIterator, r.model, op, "DB")
		if f != nil {
			return f
		}
		r.iters = append(r.iters, is)
	case OIterStep:
		if len(r.iters) == 0 {
			return nil
		}
		is := r.iters[op.I%len(r.iters)]
		code := op.I / 64
		for s := 0; s < 3; s++ {
			c := (code >> uint(3*s)) & 7
			if c == 5 {
				k := r.p.Pool[(code>>9)%len(r.p.Pool)]
				if f := r.seek(is, k, "pinned iterator"); f != nil {
					return f
				}
				continue
			}
			if c > 5 {
				c = 0
			}
			if f := r.move(is, c, "pinned iterator"); f != nil {
				return f
			}
		}
	case OIterClose:
		if len(r.iters) == 0 {
			return nil
		}
		ii := op.I % len(r.iters)
		if f := r.iters[ii].stable("pinned iterator (before Release)"); f != nil {
			return f
		}
		r.iters[ii].it.Release()
		r.iters = append(r.iters[:ii], r.iters[ii+1:]...)
	case OCompact:
		if r.txn != nil || r.gateShut {
			r.stat("skipped", 1)
			return nil
		}
		rg, a, b := mkRange(op)
		var arg util.Range
		if rg != nil {
			arg = *rg
		}
		err := r.db.CompactRange(arg)
		if f := poisonRange(rg, a, b, "CompactRange"); f != nil {
			return f
		}
		if err != nil {
			return fail("CompactRange error %v", err)
		}
	case ORotate:
		if r.txn != nil || (r.gateShut && leveldb.VerifHasFrozenMem(r.db)) {
			r.stat("skipped", 1)
			return nil
		}
		free := leveldb.VerifMemFree(r.db)
		n := free - len(fillKey) - 8
		if n < 0 {
			n = 0
		}
		v := bytes.Repeat([]byte{'F'}, n)
		copy(v, fmt.Sprintf("fill%d:", i))
		if f := r.doPut(r.db, r.model, fillKey, v, false); f != nil {
			return f
		}
		if r.gateShut && leveldb.VerifHasFrozenMem(r.db) {
			r.stat("frozen_held", 1)
		}
	case OGateClose:
		if r.txn != nil {
			return nil
		}
		r.stor.setClosed(true)
		r.gateShut = true
	case OGateOpen:
		r.stor.setClosed(false)
		r.gateShut = false
	case OIdle:
		if r.txn == nil && !r.gateShut {
			leveldb.VerifSettle(r.db, 20*time.Second)
		}
	case OReopen:
		if r.txn != nil {
			r.stat("skipped", 1)
			return nil
		}
		if f := r.checkHeld(true); f != nil {
			return f
		}
		if err := r.close(); err != nil {
			return fail("Close error %v", err)
		}
		if err := r.open(); err != nil {
			return fail("reopen error %v", err)
		}
		return r.checkAll()
	case OTxnOpen:
		if r.txn != nil || r.gateShut {
			return nil
		}
		tr, err := r.db.OpenTransaction()
		if err != nil {
			return fail("OpenTransaction error %v", err)
		}
		r.txn, r.txnMod = tr, r.model.clone()
	case OTxnPut:
		if r.txn == nil {
			return nil
		}
		kb, vb := mkbuf(op.K), mkbuf(op.V)
		err := r.txn.Put(kb.s, vb.s, nil)
		if !kb.intact() || !vb.intact() {
			return fail("Transaction.Put(%x) modified its arguments", op.K)
		}
		if len(op.K) > 0 {
			r.observeArg(pathTxnPutArg, kb.full)
		}
		kb.poison()
		vb.poison()
		if err != nil {
			return fail("Transaction.Put error %v", err)
		}
		r.txnMod[string(op.K)] = clone(op.V)
	case OTxnDel:
		if r.txn == nil {
			return nil
		}
		kb := mkbuf(op.K)
		err := r.txn.Delete(kb.s, nil)
		if !kb.intact() {
			return fail("Transaction.Delete(%x) modified its argument", op.K)
		}
		kb.poison()
		if err != nil {
			return fail("Transaction.Delete error %v", err)
		}
		delete(r.txnMod, string(op.K))
	case OTxnBatch:
		if r.txn == nil {
			return nil
		}
		return r.doWrite(r.txn.Write, r.txnMod, op.Recs, false, "Transaction.Write")
	case OTxnGet:
		if r.txn == nil {
			return nil
		}
		if f := r.probeGet(r.txnMod, r.txnGet, op.K, op.I, op.Hold, true, pathTxnGet, "transaction"); f != nil {
			return f
		}
		return r.probeHas(r.txnHas, r.txnMod, op.K, "transaction")
	case OTxnScan:
		if r.txn == nil {
			return nil
		}
		return r.scan(r.txn.NewIterator, r.txnMod, nil, "transaction scan", nil)
	case OTxnCommit:
		if r.txn == nil {
			return nil
		}
		if f := r.checkHeld(true); f != nil {
			return f
		}
		if err := r.txn.Commit(); err != nil {
			return fail("Transaction.Commit error %v", err)
		}
		r.model, r.txn, r.txnMod = r.txnMod, nil, nil
	case OTxnDiscard:
		if r.txn == nil {
			return nil
		}
		if f := r.checkHeld(true); f != nil {
			return f
		}
		r.txn.Discard()
		r.txn, r.txnMod = nil, nil
	case OCheckAll:
		return r.checkAll()
	case OConc:
		if r.txn != nil || r.gateShut {
			r.stat("skipped", 1)
			return nil
		}
		return r.conc(op)
	}
	return nil
}

// conc runs the workers concurrently (each on its own keys, with its own sub-oracle) plus an observer that
// iterates and compacts; every call is poisoned exactly as in the sequential case.
func (r *runner) conc(op *Op) *failure {
	if f := r.checkHeld(true); f != nil {
		return f
	}
	r.inConc = true
	defer func() { r.inConc = false }()
	var wg sync.WaitGroup
	fails := make([]*failure, len(op.Workers)+1)
	locals := make([]oracle, len(op.Workers))
	stop := make(chan struct{})
	for j := range op.Workers {
		local := oracle{}
		for _, o := range op.Workers[j] {
			if o.Kind == OBatch {
				for _, rec := range o.Recs {
					if v, ok := r.model[string(rec.K)]; ok {
						local[string(rec.K)] = v
					}
				}
			} else if v, ok := r.model[string(o.K)]; ok {
				local[string(o.K)] = v
			}
		}
		locals[j] = local
	}
	for j := range op.Workers {
		wg.Add(1)
		go func(j int) {
			defer wg.Done()
			defer func() {
				if x := recover(); x != nil {
					fails[j] = fail("panic in concurrent worker: %v", x)
				}
			}()
			local := locals[j]
			var held []heldVal
			for _, o := range op.Workers[j] {
				var f *failure
				switch o.Kind {
				case OPut:
					f = r.doPut(r.db, local, o.K, o.V, false)
				case ODel:
					f = r.doDelete(r.db, local, o.K, false)
				case OBatch:
					f = r.doWrite(r.db.Write, local, o.Recs, false, "DB.Write (concurrent)")
				case OGet:
					want, ok := local[string(o.K)]
					kb := mkbuf(o.K)
					v, err := r.db.Get(kb.s, nil)
					if !kb.intact() {
						f = fail("concurrent Get(%x) modified its key argument", o.K)
						break
					}
					kb.poison()
					if ok && (err != nil || !bytes.Equal(v, want)) {
						f = fail("concurrent Get(%x) = %s err=%v, the key's only writer says %s", o.K, short(v), err, short(want))
					} else if !ok && err != leveldb.ErrNotFound {
						f = fail("concurrent Get(%x) = %s err=%v, the key's only writer says not found", o.K, short(v), err)
					} else if ok {
						if o.Hold {
							held = append(held, heldVal{v: v, want: clone(v)})
						} else {
							scribbleLen(v)
							v2, err2 := r.db.Get(clone(o.K), nil)
							if err2 != nil || !bytes.Equal(v2, want) {
								f = fail("concurrent Get(%x) = %s err=%v after the client overwrote the slice returned by the previous read; the key's only writer says %s", o.K, short(v2), err2, short(want))
								break
							}
							scribbleLen(v2)
						}
					}
				case OHas:
					f = r.probeHas(r.dbHas, local, o.K, "concurrent")
				}
				if f == nil {
					for _, h := range held {
						if !bytes.Equal(h.v, h.want) {
							f = fail("value returned by a concurrent Get changed while the client held it: now %s, was %s", short(h.v), short(h.want))
						}
					}
				}
				if f != nil {
					fails[j] = f
					return
				}
			}
			for _, h := range held {
				scribbleLen(h.v)
			}
		}(j)
	}
	// observer
	wg2 := sync.WaitGroup{}
	wg2.Add(1)
	go func() {
		defer wg2.Done()
		defer func() {
			if x := recover(); x != nil {
				fails[len(op.Workers)] = fail("panic in concurrent observer: %v", x)
			}
		}()
		for round := 0; ; round++ {
			select {
			case <-stop:
				return
			default:
			}
			it := r.db.NewIterator(nil, nil)
			var prev []byte
			first := true
			for ok := it.First(); ok; ok = it.Next() {
				k, v := it.Key(), it.Value()
				kc, vc := clone(k), clone(v)
				if !first && bytes.Compare(prev, kc) >= 0 {
					fails[len(op.Workers)] = fail("concurrent scan: keys not ascending: %x then %x", prev, kc)
					it.Release()
					return
				}
				first = false
				prev = kc
				// let the writers run, then look again: still intact?
				time.Sleep(20 * time.Microsecond)
				if !bytes.Equal(k, kc) || !bytes.Equal(v, vc) || !bytes.Equal(it.Key(), kc) || !bytes.Equal(it.Value(), vc) {
					fails[len(op.Workers)] = fail("concurrent scan: key/value exposed by the iterator changed before the next move (key %x)", kc)
					it.Release()
					return
				}
				r.stat("iter_positions_checked_concurrent", 1)
			}
			it.Release()
			if round%3 == 1 {
				r.db.CompactRange(util.Range{})
			}
		}
	}()
	wg.Wait()
	close(stop)
	wg2.Wait()
	for _, f := range fails {
		if f != nil {
			return f
		}
	}
	for _, l := range locals {
		_ = l
	}
	// merge: every key a worker touched now has that worker's final state
	for j := range op.Workers {
		touched := map[string]bool{}
		for _, o := range op.Workers[j] {
			if o.Kind == OBatch {
				for _, rec := range o.Recs {
					touched[string(rec.K)] = true
				}
			} else if o.Kind == OPut || o.Kind == ODel {
				touched[string(o.K)] = true
			}
		}
		for k := range touched {
			if v, ok := locals[j][k]; ok {
				r.model[k] = v
			} else {
				delete(r.model, k)
			}
		}
	}
	r.stat("conc_segments", 1)
	return nil
}

// runResult of one program.
type runResult struct {
	Fail  *failure
	Panic string
	Hung  bool
	Stats map[string]int
	Kobs  []kob
}

func (rr runResult) describe() string {
	switch {
	case rr.Fail != nil:
		return rr.Fail.Error()
	case rr.Panic != "":
		s := rr.Panic
		if len(s) > 1200 {
			s = s[:1200]
		}
		return "panic: " + s
	case rr.Hung:
		return "program did not finish within the watchdog time"
	}
	return ""
}

func runProgram(p *Program) (res runResult) {
	r := newRunner(p)
	done := make(chan struct{})
	go func() {
		defer close(done)
		defer func() {
			if x := recover(); x != nil {
				res.Panic = fmt.Sprintf("%v\n%s", x, debug.Stack())
				r.stor.setClosed(false)
			}
		}()
		if err := r.open(); err != nil {
			res.Fail = &failure{Op: -1, What: fmt.Sprintf("Open error %v", err)}
			return
		}
		for i := range p.Ops {
			if f := r.step(i, &p.Ops[i]); f != nil {
				res.Fail = f
				break
			}
		}
		if res.Fail == nil {
			if f := r.checkHeld(true); f != nil {
				f.Op = len(p.Ops)
				res.Fail = f
			}
		}
		if err := r.close(); err != nil && res.Fail == nil {
			res.Fail = &failure{Op: len(p.Ops), What: fmt.Sprintf("Close error %v", err)}
		}
	}()
	select {
	case <-done:
	case <-time.After(90 * time.Second):
		res.Hung = true
		r.stor.setClosed(false)
	}
	r.mu.Lock()
	res.Stats = map[string]int{}
	for k, v := range r.stats {
		res.Stats[k] = v
	}
	res.Kobs = append([]kob(nil), r.kobs...)
	r.mu.Unlock()
	return
}

// shrink: delta debugging on the op list (bounded).
func shrink(p *Program, fails func(*Program) bool, budget time.Duration) *Program {
	deadline := time.Now().Add(budget)
	cur := *p
	cur.Ops = append([]Op(nil), p.Ops...)
	chunk := len(cur.Ops) / 2
	for chunk >= 1 && time.Now().Before(deadline) {
		removed := false
		for start := 0; start+chunk <= len(cur.Ops) && time.Now().Before(deadline); {
			cand := cur
			cand.Ops = append(append([]Op(nil), cur.Ops[:start]...), cur.Ops[start+chunk:]...)
			if fails(&cand) {
				cur = cand
				removed = true
			} else {
				start += chunk
			}
		}
		if !removed || chunk == 1 {
			chunk /= 2
		}
	}
	return &cur
}

var _ = vlib.NewRNG
