package main

// Backward walks: the (P) oracle and the (K) observations for iterators in both directions (property C20, parts b, d).
// An iterator of the DB, of a snapshot or of a transaction is moved at random — Last, Prev, Seek-then-Prev, First, Next,
// direction changes — over a DB with several tables and small blocks, while other goroutines compact, write (other keys)
// and read (churning the block cache and the buffer pool).  After EVERY movement: Key()/Value() against the view frozen
// at creation; where the two slices live (must be the iterator's own buffers: not an arena, not a cached block, not a
// pooled buffer); which blocks the children hold (a cached one must be in the cache, a private one in neither cache
// nor pool, no two the same); other activity; the slices again (stable until the next movement); then the VALUE slice
// is overwritten over its full capacity (the doc comment forbids it; the code hands out its own buffer, so nothing may
// change — a value slice of a block would corrupt the cache).  At the end the last slices are kept across Release and
// further activity (Release is not a seeks method) and the pool is searched for them; finally the whole DB is compared
// with the oracle.

import (
	"bytes"
	"fmt"
	"os"
	"sort"
	"sync"
	"sync/atomic"
	"time"

	"github.com/syndtr/goleveldb/leveldb"
	"github.com/syndtr/goleveldb/leveldb/iterator"
	"github.com/syndtr/goleveldb/leveldb/opt"
	"github.com/syndtr/goleveldb/leveldb/util"
	"verifharness/lib/vlib"
	"verifharness/lib/vstor"
)

// Walk is one replayable backward walk.
type Walk struct {
	Seed     uint64 `json:"seed"`
	NoPool   bool   `json:"nopool"`
	Cache    int    `json:"cache"`
	Snappy   bool   `json:"snappy"`
	Acc      int    `json:"acc"` // 0 DB, 1 snapshot, 2 transaction
	Keys     int    `json:"keys"`
	Steps    int    `json:"steps"`
	BS       int    `json:"bs"`
	Poison   bool   `json:"poison"`   // overwrite the value slice before the next movement
	Churn    bool   `json:"churn"`    // background compactions / writers / readers
	PoisonK  bool   `json:"poisonk"`  // overwrite the key slice too, right before Release
	KeepLast bool   `json:"keeplast"` // keep the last slices across Release and check them afterwards
}

var accNames = []string{"db", "snapshot", "transaction"}

func (w Walk) String() string {
	return fmt.Sprintf("walk acc=%s nopool=%v cache=%s snappy=%v keys=%d steps=%d bs=%d poison=%v churn=%v",
		accNames[w.Acc], w.NoPool, cacheNames[w.Cache], w.Snappy, w.Keys, w.Steps, w.BS, w.Poison, w.Churn)
}

func genWalk(r *vlib.RNG, i int, thorough bool) Walk {
	w := Walk{
		Seed:     r.Uint64(),
		NoPool:   (i/4)%2 == 1,
		Cache:    i % NCache,
		Snappy:   (i/8)%2 == 1,
		Acc:      (i / 16) % 3,
		Keys:     r.Range(40, 160),
		Steps:    r.Range(30, 90),
		BS:       pick(r, 64, 128, 256, 1024),
		Poison:   !r.Chance(1, 5),
		Churn:    !r.Chance(1, 4),
		PoisonK:  r.Chance(1, 2),
		KeepLast: r.Chance(2, 3),
	}
	if thorough {
		w.Keys = r.Range(60, 400)
		w.Steps = r.Range(60, 300)
	}
	return w
}

// address classes of the second pass (the first five are those of run.go)
const clsPooled = 5 // inside a buffer that is in the buffer pool right now

// kwalk is one (K) observation of a walk.
type kwalk struct {
	Kind int // 0: exposure (iterator key / value), 1: held blocks census
	// exposure
	Acc, Dir, IsValue, Class int
	Own                      bool
	// census
	NCached, NOwned                                       int
	CachedAllInCache, OwnedInCache, OwnedInPool, OwnedDup bool
}

func renderKwalk(w Walk, o kwalk) string {
	if o.Kind == 0 {
		return fmt.Sprintf("KIterX %s %d %s %d %d %s %d %s", vlib.CoqBool(w.NoPool), w.Cache, vlib.CoqBool(w.Snappy), o.Acc, o.Dir,
			vlib.CoqBool(o.IsValue == 1), o.Class, vlib.CoqBool(o.Own))
	}
	return fmt.Sprintf("KHeld %s %d %d %d %s %s %s %s", vlib.CoqBool(w.NoPool), w.Cache, o.NCached, o.NOwned,
		vlib.CoqBool(o.CachedAllInCache), vlib.CoqBool(o.OwnedInCache), vlib.CoqBool(o.OwnedInPool), vlib.CoqBool(o.OwnedDup))
}

type walker struct {
	w     Walk
	db    *leveldb.DB
	txn   *leveldb.Transaction
	obs   []kwalk
	stats map[string]int
}

func (x *walker) classify(v []byte) int {
	if cap(v) == 0 {
		return clsEmpty
	}
	vb := leveldb.VerifAliasBuffers(x.db)
	if overlaps(v, vb.MemLive) {
		return clsMem
	}
	if overlaps(v, vb.MemFrozen) {
		return clsFrozen
	}
	for _, b := range vb.Blocks {
		if overlaps(v, b) {
			return clsBlock
		}
	}
	if x.txn != nil && overlaps(v, leveldb.VerifTxnMem(x.txn)) {
		return clsTxnMem
	}
	for _, b := range leveldb.VerifBlockPool(x.db).VerifPooled() {
		if overlaps(v, b) {
			return clsPooled
		}
	}
	return clsNone
}

func (x *walker) observe(it iterator.Iterator, dir int, k, v []byte) {
	if len(x.obs) >= 40 {
		return
	}
	ok, ov, isDB := leveldb.VerifIterOwnBuffers(it)
	if !isDB {
		return
	}
	if c := x.classify(k); c != clsEmpty {
		x.obs = append(x.obs, kwalk{Kind: 0, Acc: x.w.Acc, Dir: dir, IsValue: 0, Class: c, Own: sameStart(k, ok)})
	}
	if c := x.classify(v); c != clsEmpty {
		x.obs = append(x.obs, kwalk{Kind: 0, Acc: x.w.Acc, Dir: dir, IsValue: 1, Class: c, Own: sameStart(v, ov)})
	}
	// the blocks the children hold
	held := leveldb.VerifIterHeldBlocks(it)
	vb := leveldb.VerifAliasBuffers(x.db)
	pooled := leveldb.VerifBlockPool(x.db).VerifPooled()
	in := func(b []byte, set [][]byte) bool {
		for _, s := range set {
			if overlaps(b, s) {
				return true
			}
		}
		return false
	}
	c := kwalk{Kind: 1, CachedAllInCache: true}
	var owned [][]byte
	for _, h := range held {
		switch {
		case h.Cached:
			c.NCached++
			if !in(h.Data, vb.Blocks) {
				c.CachedAllInCache = false
			}
		case h.Owned:
			c.NOwned++
			if in(h.Data, vb.Blocks) {
				c.OwnedInCache = true
			}
			if in(h.Data, pooled) {
				c.OwnedInPool = true
			}
			if in(h.Data, owned) {
				c.OwnedDup = true
			}
			owned = append(owned, h.Data)
		}
	}
	x.obs = append(x.obs, c)
	x.stats["walk_held_blocks_seen"] += len(held)
}

// runWalk returns statistics, observations and "" or the failure.
func runWalk(w Walk) (stats map[string]int, obs []kwalk, failure string) {
	stats = map[string]int{}
	defer func() {
		if x := recover(); x != nil {
			failure = fmt.Sprintf("panic during the backward walk: %v", x)
		}
	}()
	if os.Getenv("C20_NOPOISON") != "" {
		// measuring what the address observations alone catch: the client only looks
		w.Poison, w.PoisonK = false, false
	}
	rng := vlib.NewRNG(w.Seed)
	stor := vstor.New(false)
	o := &opt.Options{
		WriteBuffer:            8 << 10,
		CompactionTableSize:    4 << 10,
		CompactionTotalSize:    16 << 10,
		BlockSize:              w.BS,
		BlockRestartInterval:   pick(rng, 1, 2, 4, 16),
		CompactionL0Trigger:    3,
		WriteL0SlowdownTrigger: 24,
		WriteL0PauseTrigger:    48,
		DisableBufferPool:      w.NoPool,
		Compression:            opt.NoCompression,
	}
	if w.Snappy {
		o.Compression = opt.SnappyCompression
	}
	switch w.Cache {
	case CacheOff:
		o.DisableBlockCache = true
	case CacheTiny:
		o.BlockCacher = opt.LRUCacher
		o.BlockCacheCapacity = tinyCacheBytes
	case CacheNoLRU:
		o.BlockCacheCapacity = -1
	}
	db, err := leveldb.Open(stor, o)
	if err != nil {
		return stats, nil, "open: " + err.Error()
	}
	defer db.Close()
	x := &walker{w: w, db: db, stats: stats}

	// populate: keys "k%04d", some overwritten, some deleted, spread over several tables and the write buffer
	model := oracle{}
	val := func(i, gen int) []byte {
		n := 4 + (i*37+gen*11)%180
		v := bytes.Repeat([]byte{byte('a' + (i+gen)%26)}, n)
		copy(v, fmt.Sprintf("v%d.%d|", i, gen))
		return v
	}
	for gen := 0; gen < 3; gen++ {
		for i := 0; i < w.Keys; i++ {
			if gen > 0 && !rng.Chance(1, 3) {
				continue
			}
			k := []byte(fmt.Sprintf("k%04d", i))
			if gen == 2 && rng.Chance(1, 4) {
				if err := db.Delete(k, nil); err != nil {
					return stats, nil, "populate: " + err.Error()
				}
				delete(model, string(k))
				continue
			}
			v := val(i, gen)
			if err := db.Put(k, v, nil); err != nil {
				return stats, nil, "populate: " + err.Error()
			}
			model[string(k)] = v
		}
		if gen == 0 {
			db.CompactRange(util.Range{})
		}
	}

	// the iterator under test and its frozen view
	view := model.clone()
	var it iterator.Iterator
	var snap *leveldb.Snapshot
	switch w.Acc {
	case 0:
		it = db.NewIterator(nil, nil)
	case 1:
		snap, err = db.GetSnapshot()
		if err != nil {
			return stats, nil, "GetSnapshot: " + err.Error()
		}
		defer snap.Release()
		// the DB moves on after the snapshot
		for i := 0; i < w.Keys; i += 3 {
			k := []byte(fmt.Sprintf("k%04d", i))
			v := val(i, 7)
			if err := db.Put(k, v, nil); err != nil {
				return stats, nil, "populate: " + err.Error()
			}
			model[string(k)] = v
		}
		it = snap.NewIterator(nil, nil)
	case 2:
		tr, err := db.OpenTransaction()
		if err != nil {
			return stats, nil, "OpenTransaction: " + err.Error()
		}
		x.txn = tr
		defer tr.Discard()
		for i := 1; i < w.Keys; i += 4 {
			k := []byte(fmt.Sprintf("k%04d", i))
			v := val(i, 9)
			if err := tr.Put(k, v, nil); err != nil {
				return stats, nil, "Transaction.Put: " + err.Error()
			}
			view[string(k)] = v
		}
		it = tr.NewIterator(nil, nil)
	}
	list := view.sorted(nil, nil, false, false)
	n := len(list)

	// background churn (never touches the keys of the view; a transaction holds the write lock: readers only)
	stop := make(chan struct{})
	var bg sync.WaitGroup
	var bgFail atomic.Value
	if w.Churn {
		if w.Acc != 2 {
			bg.Add(1)
			go func() {
				defer bg.Done()
				defer func() { recover() }()
				for j := 0; ; j++ {
					select {
					case <-stop:
						return
					default:
					}
					k := []byte(fmt.Sprintf("z%04d", j%200))
					db.Put(k, bytes.Repeat([]byte{byte(j)}, 40+j%300), nil)
					if j%40 == 39 {
						db.CompactRange(util.Range{})
					}
				}
			}()
		}
		bg.Add(1)
		go func() {
			defer bg.Done()
			defer func() {
				if p := recover(); p != nil {
					bgFail.Store(fmt.Sprintf("panic in a background reader: %v", p))
				}
			}()
			for j := 0; ; j++ {
				select {
				case <-stop:
					return
				default:
				}
				k := fmt.Sprintf("k%04d", (j*7)%w.Keys)
				want, ok := view[k]
				var v []byte
				var err error
				switch w.Acc {
				case 1:
					v, err = snap.Get([]byte(k), nil)
				case 2:
					v, err = x.txn.Get([]byte(k), nil)
				default:
					// the background writer only touches z-keys: for k-keys the view is the DB's
					v, err = db.Get([]byte(k), nil)
				}
				if ok && (err != nil || !bytes.Equal(v, want)) {
					bgFail.Store(fmt.Sprintf("background Get(%s) through the %s = %s err=%v, want %s", k, accNames[w.Acc], short(v), err, short(want)))
					return
				}
				if !ok && err != leveldb.ErrNotFound {
					bgFail.Store(fmt.Sprintf("background Get(%s) through the %s = %s err=%v, want not found", k, accNames[w.Acc], short(v), err))
					return
				}
				scribble(v)
			}
		}()
	}
	finish := func() {
		close(stop)
		bg.Wait()
	}

	pos := -1
	valid := false
	var k, v, kc, vc []byte
	released := false
	fail1 := func(format string, a ...interface{}) (map[string]int, []kwalk, string) {
		if !released {
			it.Release()
		}
		finish()
		return stats, x.obs, fmt.Sprintf(format, a...) + " [" + w.String() + "]"
	}
	for step := 0; step < w.Steps; step++ {
		// what was exposed must still be there (stable until this movement)
		if valid {
			if !bytes.Equal(k, kc) || (!w.Poison && !bytes.Equal(v, vc)) {
				return fail1("step %d: what the iterator exposed changed before it was moved: key %x (was %x), value %s (was %s)", step, k, kc, short(v), short(vc))
			}
		}
		var ok bool
		var name string
		dir := 0
		switch m := rng.Pick(4, 6, 2, 2, 3); m {
		case 0:
			name, ok = "Last", it.Last()
			pos = n - 1
			dir = 1
		case 1:
			name = "Prev"
			if pos == -1 {
				ok = it.Prev()
			} else {
				ok = it.Prev()
				pos--
			}
			dir = 1
		case 2:
			name, ok = "First", it.First()
			pos = 0
			if n == 0 {
				pos = n
			}
		case 3:
			name = "Next"
			ok = it.Next()
			if pos < n {
				pos++
			}
		default:
			// Seek, then Prev: a direction change right after a forward positioning
			target := []byte(fmt.Sprintf("k%04d", rng.Intn(w.Keys+2)))
			kb := mkbuf(target)
			ok1 := it.Seek(kb.s)
			if !kb.intact() {
				return fail1("step %d: Seek(%s) modified its argument", step, target)
			}
			kb.poison()
			p := sort.Search(n, func(i int) bool { return bytes.Compare(list[i].K, target) >= 0 })
			if ok1 != (p < n) {
				return fail1("step %d: Seek(%s) returned %v, the view has %d of %d", step, target, ok1, p, n)
			}
			if ok1 && (!bytes.Equal(it.Key(), list[p].K) || !bytes.Equal(it.Value(), list[p].V)) {
				return fail1("step %d: Seek(%s) shows (%x,%s), the view has (%x,%s)", step, target, it.Key(), short(it.Value()), list[p].K, short(list[p].V))
			}
			name, ok = fmt.Sprintf("Seek(%s)+Prev", target), it.Prev()
			pos = p - 1
			dir = 1
		}
		valid = pos >= 0 && pos < n
		if ok != valid {
			return fail1("step %d: %s returned %v, the view says %v (position %d of %d)", step, name, ok, valid, pos, n)
		}
		if err := it.Error(); err != nil {
			return fail1("step %d: %s: iterator error %v", step, name, err)
		}
		if !valid {
			k, v, kc, vc = nil, nil, nil, nil
			if it.Key() != nil || it.Value() != nil {
				return fail1("step %d: %s: not valid, but Key()/Value() are not nil", step, name)
			}
			continue
		}
		k, v = it.Key(), it.Value()
		kc, vc = clone(k), clone(v)
		if !bytes.Equal(k, list[pos].K) || !bytes.Equal(v, list[pos].V) {
			return fail1("step %d: %s shows (%x,%s), the view frozen at creation has (%x,%s)", step, name, k, short(v), list[pos].K, short(list[pos].V))
		}
		stats["walk_positions_checked"]++
		if dir == 1 {
			stats["walk_positions_checked_backward"]++
		}
		if step%3 == 0 {
			x.observe(it, dir, k, v)
		}
		// let the others run, then look again
		if w.Churn {
			time.Sleep(time.Duration(rng.Intn(60)) * time.Microsecond)
		} else if step%4 == 1 {
			// churn the pool and the cache ourselves
			for j := 0; j < 3; j++ {
				g, _ := db.Get([]byte(fmt.Sprintf("k%04d", rng.Intn(w.Keys))), nil)
				scribble(g)
			}
		}
		if !bytes.Equal(k, kc) || !bytes.Equal(v, vc) || !bytes.Equal(it.Key(), kc) || !bytes.Equal(it.Value(), vc) {
			return fail1("step %d: after %s the exposed key/value changed although the iterator was not moved: (%x,%s), was (%x,%s)", step, name, k, short(v), kc, short(vc))
		}
		if w.Poison {
			scribble(v) // the value buffer over its full capacity
			stats["walk_value_slices_overwritten"]++
		}
		if s, _ := bgFail.Load().(string); s != "" {
			return fail1("%s", s)
		}
	}
	// Release is not a seeks method: what the caller holds stays as it is
	if valid && w.PoisonK && !w.KeepLast {
		scribble(k)
	}
	lk, lv := k, v
	lkc, lvc := clone(k), clone(v)
	it.Release()
	released = true
	if it.Key() != nil || it.Value() != nil {
		return fail1("after Release Key()/Value() are not nil")
	}
	if valid && w.KeepLast {
		for j := 0; j < 12; j++ {
			g, _ := db.Get([]byte(fmt.Sprintf("k%04d", rng.Intn(w.Keys))), nil)
			scribble(g)
		}
		it2 := db.NewIterator(nil, nil)
		for c := 0; it2.Next() && c < 40; c++ {
		}
		it2.Release()
		if !bytes.Equal(lk, lkc) || !bytes.Equal(lv, lvc) {
			return fail1("the slices the caller kept from the last Key()/Value() changed after Release: (%x,%s), were (%x,%s)", lk, short(lv), lkc, short(lvc))
		}
		ck, cv := x.classify(lk), x.classify(lv)
		if len(x.obs) < 48 {
			if ck != clsEmpty {
				x.obs = append(x.obs, kwalk{Kind: 0, Acc: w.Acc, Dir: 2, IsValue: 0, Class: ck, Own: true})
			}
			if cv != clsEmpty {
				x.obs = append(x.obs, kwalk{Kind: 0, Acc: w.Acc, Dir: 2, IsValue: 1, Class: cv, Own: true})
			}
		}
		stats["walk_slices_kept_across_release"]++
	}
	finish()
	if s, _ := bgFail.Load().(string); s != "" {
		return stats, x.obs, s + " [" + w.String() + "]"
	}
	// the whole DB against the oracle: overwriting iterator slices must not have changed anything
	if w.Acc == 2 {
		x.txn.Discard()
		x.txn = nil
	}
	for i := 0; i < w.Keys; i++ {
		key := fmt.Sprintf("k%04d", i)
		want, ok := model[key]
		got, err := db.Get([]byte(key), nil)
		if ok && (err != nil || !bytes.Equal(got, want)) {
			return stats, x.obs, fmt.Sprintf("after the walk Get(%s) = %s err=%v, want %s (the client had overwritten slices returned by the iterator) [%s]", key, short(got), err, short(want), w.String())
		}
		if !ok && err != leveldb.ErrNotFound {
			return stats, x.obs, fmt.Sprintf("after the walk Get(%s) = %s err=%v, want not found [%s]", key, short(got), err, w.String())
		}
	}
	// and by a full backward scan
	it3 := db.NewIterator(util.BytesPrefix([]byte("k")), nil)
	full := model.sorted(nil, nil, false, false)
	var fk []kv
	for _, e := range full {
		if bytes.HasPrefix(e.K, []byte("k")) {
			fk = append(fk, e)
		}
	}
	i := len(fk) - 1
	for ok := it3.Last(); ok; ok = it3.Prev() {
		if i < 0 || !bytes.Equal(it3.Key(), fk[i].K) || !bytes.Equal(it3.Value(), fk[i].V) {
			it3.Release()
			return stats, x.obs, fmt.Sprintf("after the walk a backward scan shows (%x,%s) at position %d of %d [%s]", it3.Key(), short(it3.Value()), i, len(fk), w.String())
		}
		i--
	}
	err = it3.Error()
	it3.Release()
	if err != nil || i != -1 {
		return stats, x.obs, fmt.Sprintf("after the walk a backward scan ends with %d keys missing, err=%v [%s]", i+1, err, w.String())
	}
	stats["walks_run"] = 1
	stats["walks_"+accNames[w.Acc]] = 1
	return stats, x.obs, ""
}
