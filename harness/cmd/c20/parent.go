package main

import (
	"bytes"
	"context"
	"encoding/json"
	"fmt"
	"os"
	"os/exec"
	"path/filepath"
	"regexp"
	"sort"
	"strings"
	"sync"
	"time"

	"verifharness/lib/vlib"
)

// The run happens in a child process: a panic in one of the DB's background goroutines (what a scribbled-over
// shared block typically causes) cannot be recovered in-process. When the child dies, the parent re-runs the
// programs one per process to name the one that kills it and reports that program as the violation.

func runSelf(timeout time.Duration, args ...string) (exit int, out string) {
	self, err := os.Executable()
	if err != nil {
		return -1, err.Error()
	}
	ctx, cancel := context.WithTimeout(context.Background(), timeout)
	defer cancel()
	cmd := exec.CommandContext(ctx, self, args...)
	var buf bytes.Buffer
	cmd.Stdout, cmd.Stderr = &buf, &buf
	err = cmd.Run()
	out = buf.String()
	if len(out) > 1<<16 {
		out = out[:1<<15] + "\n...\n" + out[len(out)-(1<<15):]
	}
	if ctx.Err() != nil {
		return 124, out + "\n[watchdog] child killed after " + timeout.String()
	}
	if err != nil {
		if ee, ok := err.(*exec.ExitError); ok {
			return ee.ExitCode(), out
		}
		return -1, out + err.Error()
	}
	return 0, out
}

var panicLine = regexp.MustCompile(`(?m)^(panic: .*|fatal error: .*)$`)

func firstPanic(out string) string {
	if m := panicLine.FindString(out); m != "" {
		if len(m) > 200 {
			m = m[:200]
		}
		return m
	}
	return "no panic message"
}

func parentMain(a vlib.Args, tok map[string]string) {
	extra := a.Extra
	if extra != "" {
		extra += ","
	}
	extra += "child"
	tmo := 420 * time.Second
	if a.Thorough() {
		tmo = 3000 * time.Second
	}
	exit, out := runSelf(tmo, "--tier", a.Tier, "--seed", fmt.Sprint(a.Seed), "--out", a.Out, "--extra", extra)
	if exit == 0 {
		if _, err := os.Stat(filepath.Join(a.Out, "result.json")); err == nil {
			fmt.Print(tail(out, 2000))
			return
		}
	}
	fmt.Printf("child run died (exit %d): %s; re-running the programs one per process\n", exit, firstPanic(out))
	res := vlib.NewResult("C20", a.Out, rule)
	defer res.Write()
	os.WriteFile(filepath.Join(a.Out, "child_crash.txt"), []byte(out), 0o644)
	res.Extra["crash_mode"] = true
	res.Extra["child_exit"] = exit
	res.Extra["child_first_panic"] = firstPanic(out)

	type found struct {
		desc string
		p    *Program
	}
	var mu sync.Mutex
	var finds []found
	add := func(desc string, p *Program) {
		mu.Lock()
		if len(finds) < 3 {
			finds = append(finds, found{desc, p})
		}
		mu.Unlock()
	}
	enough := func() bool { mu.Lock(); defer mu.Unlock(); return len(finds) >= 3 }

	// corpus cases, one per process
	if dir, ok := tok["corpus"]; ok {
		files, _ := filepath.Glob(filepath.Join(dir, "*.json"))
		sort.Strings(files)
		for _, f := range files {
			od := filepath.Join(a.Out, "corpus_"+filepath.Base(f))
			ex, o := runSelf(150*time.Second, "--tier", a.Tier, "--seed", fmt.Sprint(a.Seed), "--out", od, "--replay", f)
			p, _ := loadProgram(f)
			if ex != 0 && p != nil {
				add("corpus case "+filepath.Base(f)+": the implementation crashed the process: "+firstPanic(o)+" ["+p.Cfg.String()+"]", p)
			} else if strings.Contains(o, "replay fails:") && p != nil {
				i := strings.Index(o, "replay fails:")
				add("corpus case "+filepath.Base(f)+": "+strings.TrimSpace(tail(o[i+13:], 400))+" ["+p.Cfg.String()+"]", p)
			}
		}
	}

	perCell, nrand := plan(a, tok)
	njobs := perCell * len(allCells())
	sem := make(chan struct{}, 16)
	var wg sync.WaitGroup
	for i := 0; i < njobs && !enough(); i++ {
		wg.Add(1)
		sem <- struct{}{}
		go func(i int) {
			defer wg.Done()
			defer func() { <-sem }()
			if enough() {
				return
			}
			od := filepath.Join(a.Out, fmt.Sprintf("one_%d", i))
			ex, o := runSelf(150*time.Second, "--tier", a.Tier, "--seed", fmt.Sprint(a.Seed), "--out", od, "--extra", fmt.Sprintf("%s,one=%d", strings.TrimSuffix(extra, "child"), i))
			res.Eval(fmt.Sprint(i), false)
			if ex != 0 {
				p := genJob(a.Seed, i, nrand)
				what := "the implementation crashed the process (panic outside the calling goroutine)"
				if ex == 124 {
					what = "the program did not finish within the watchdog time"
				}
				add(fmt.Sprintf("%s while running this program: %s [%s]", what, firstPanic(o), p.Cfg.String()), p)
				return
			}
			b, err := os.ReadFile(filepath.Join(od, "result.json"))
			if err != nil {
				return
			}
			var r struct {
				Violations []vlib.Violation `json:"violations"`
			}
			if json.Unmarshal(b, &r) == nil && len(r.Violations) > 0 {
				add(r.Violations[0].Desc, genJob(a.Seed, i, nrand))
			}
			os.RemoveAll(od)
		}(i)
	}
	wg.Wait()
	// the second pass, one storm / walk per process
	nstorm, nwalk := plan2(a, tok)
	second := func(tokname string, n int, mk func(i int) *Program, what string) {
		for i := 0; i < n && !enough(); i++ {
			wg.Add(1)
			sem <- struct{}{}
			go func(i int) {
				defer wg.Done()
				defer func() { <-sem }()
				if enough() {
					return
				}
				od := filepath.Join(a.Out, fmt.Sprintf("%s_%d", tokname, i))
				ex, o := runSelf(150*time.Second, "--tier", a.Tier, "--seed", fmt.Sprint(a.Seed), "--out", od, "--extra", fmt.Sprintf("%s,%s=%d", strings.TrimSuffix(extra, "child"), tokname, i))
				res.Eval(fmt.Sprintf("%s%d", tokname, i), false)
				if ex != 0 {
					p := mk(i)
					w := "the implementation crashed the process (panic outside the calling goroutine)"
					if ex == 124 {
						w = "it did not finish within the watchdog time"
					}
					add(fmt.Sprintf("%s: %s: %s", what, w, firstPanic(o)), p)
					return
				}
				b, err := os.ReadFile(filepath.Join(od, "result.json"))
				if err != nil {
					return
				}
				var r struct {
					Violations []vlib.Violation `json:"violations"`
				}
				if json.Unmarshal(b, &r) == nil && len(r.Violations) > 0 {
					add(r.Violations[0].Desc, mk(i))
				}
				os.RemoveAll(od)
			}(i)
		}
		wg.Wait()
	}
	second("onestorm", nstorm, func(i int) *Program { st := genStormAt(a.Seed, i, a.Thorough()); return &Program{Seed: a.Seed, Storm: &st} }, "merge storm")
	second("onewalk", nwalk, func(i int) *Program { w := genWalkAt(a.Seed, i, a.Thorough()); return &Program{Seed: a.Seed, Walk: &w} }, "backward walk")
	for _, f := range finds {
		res.Violate(f.desc, f.p)
	}
	if len(finds) == 0 {
		res.Violate("the harness child process died ("+firstPanic(out)+") but no single program reproduces it; output kept in child_crash.txt", map[string]string{"output_tail": tail(out, 4000)})
	}
}

func tail(s string, n int) string {
	if len(s) > n {
		return s[len(s)-n:]
	}
	return s
}
