package main

// The fixed list of option points exercised on the real DB in every run: the witnesses of the refuted relations of
// Props/C09O.v (same values as the Coq witnesses), boundary points of the relations that hold, and the
// documented-misuse / resource-request points whose outcome class is only recorded.

import (
	"math"

	"verifharness/lib/vlib"
)

// small layout so that flushes and compactions at several levels happen within a few hundred writes
func smallBase() OptRaw {
	return OptRaw{WriteBuffer: 2048, TableSize: 1024, TotalSize: 4096, BlockSize: 256, DisableBackoff: true, Compression: 1}
}

func with(f func(*OptRaw)) OptRaw {
	r := smallBase()
	f(&r)
	return r
}

var works = []string{"works"}

// OptWitnesses returns the scenarios (IDs 0..n-1).
func OptWitnesses(timeoutMs int) []*OptScenario {
	bits := func(f float64) uint64 { return math.Float64bits(f) }
	l := []*OptScenario{
		// ---- R-L0: 0 < CompactionL0Trigger <= WriteL0PauseTrigger (DB.flush waits for a table compaction that
		// version.needCompaction must consider necessary)
		{Name: "l0-pause-below-default-trigger", Relation: "l0_pause_ge_trigger", Raw: with(func(r *OptRaw) { r.L0Pause = 2 }), Allowed: works},
		{Name: "l0-trigger-above-default-pause", Relation: "l0_pause_ge_trigger", Raw: with(func(r *OptRaw) { r.L0Trigger = 16 }), Allowed: works},
		{Name: "l0-pause-negative", Relation: "l0_pause_ge_trigger", Raw: with(func(r *OptRaw) { r.L0Pause = -1 }), Allowed: works},
		{Name: "l0-pause-minint", Relation: "l0_pause_ge_trigger", Raw: with(func(r *OptRaw) { r.L0Pause = minI }), Allowed: works},
		{Name: "l0-trigger-maxint", Relation: "l0_pause_ge_trigger", Raw: with(func(r *OptRaw) { r.L0Trigger = maxI }), Allowed: works},
		{Name: "l0-trigger-negative", Relation: "l0_trigger_pos", Raw: with(func(r *OptRaw) { r.L0Trigger = -1 }), Allowed: works},
		{Name: "l0-trigger-minint", Relation: "l0_trigger_pos", Raw: with(func(r *OptRaw) { r.L0Trigger = minI }), Allowed: works},
		{Name: "l0-all-one", Relation: "l0_pause_ge_trigger", Raw: with(func(r *OptRaw) { r.L0Trigger, r.L0Slowdown, r.L0Pause = 1, 1, 1 }), Allowed: works},
		// the order of the slowdown trigger is NOT needed: it only adds one 1 ms sleep per write
		{Name: "l0-slowdown-above-pause", Relation: "l0_slowdown_order", Raw: with(func(r *OptRaw) { r.L0Trigger, r.L0Slowdown, r.L0Pause = 2, 10, 4 }), Allowed: works},
		{Name: "l0-slowdown-negative", Relation: "l0_slowdown_order", Raw: with(func(r *OptRaw) { r.L0Slowdown = -1 }), Allowed: works},
		// ---- R-FB: GetFilterBaseLg < 64 (table.filterWriter.flush divides by uint64(1<<baseLg))
		{Name: "filter-base-64", Relation: "filter_base", Raw: with(func(r *OptRaw) { r.FilterBits, r.FilterBaseLg = 10, 64 }), Allowed: works},
		{Name: "filter-base-maxint", Relation: "filter_base", Raw: with(func(r *OptRaw) { r.FilterBits, r.FilterBaseLg = 10, maxI }), Allowed: works},
		{Name: "filter-base-63", Relation: "filter_base", Raw: with(func(r *OptRaw) { r.FilterBits, r.FilterBaseLg = 10, 63 }), Allowed: works},
		{Name: "filter-base-1", Relation: "filter_base", Raw: with(func(r *OptRaw) { r.FilterBits, r.FilterBaseLg = 10, 1 }), Allowed: works},
		// ---- R-IS: 2 * GetIteratorSamplingRate does not wrap (DB.iterSamplingRate: rand.Intn(2*rate))
		{Name: "sampling-maxint", Relation: "sampling", Raw: with(func(r *OptRaw) { r.IteratorSamplingRate = maxI }), Allowed: works},
		{Name: "sampling-2^62", Relation: "sampling", Raw: with(func(r *OptRaw) { r.IteratorSamplingRate = 1 << 62 }), Allowed: works},
		{Name: "sampling-2^62-1", Relation: "sampling", Raw: with(func(r *OptRaw) { r.IteratorSamplingRate = 1<<62 - 1 }), Allowed: works},
		{Name: "sampling-1", Relation: "sampling", Raw: with(func(r *OptRaw) { r.IteratorSamplingRate = 1 }), Allowed: works},
		{Name: "sampling-negative", Relation: "sampling", Raw: with(func(r *OptRaw) { r.IteratorSamplingRate = -1 }), Allowed: works},
		// ---- R-TOT: the total-size limits do not shrink with the level (version.computeCompaction: score =
		// size / limit; a level whose limit is below one table is compacted again and again)
		{Name: "total-mult-half", Relation: "total_size_ge_base", Raw: with(func(r *OptRaw) { r.TotalMult = bits(0.5) }), Allowed: works},
		{Name: "total-1-mult-one", Relation: "total_size_ge_base (residual: flat limits below one table)", Raw: with(func(r *OptRaw) { r.TotalSize, r.TotalMult = 1, bits(1) }), Allowed: nil},
		{Name: "total-1-mult-half", Relation: "total_size_ge_base (residual: flat limits below one table)", Raw: with(func(r *OptRaw) { r.TotalSize, r.TotalMult = 1, bits(0.5) }), Allowed: nil},
		{Name: "total-per-level-tiny", Relation: "total_size_pos", Raw: with(func(r *OptRaw) { r.TotalMultPerLevel = []uint64{bits(1), bits(1.0 / (1 << 30))} }), Allowed: works},
		{Name: "total-mult-one", Relation: "total_size_ge_base", Raw: with(func(r *OptRaw) { r.TotalMult = bits(1) }), Allowed: works},
		// ---- R-TS: table size >= 0 (table.NewWriter allocates it), > 0 is not needed (one table per user key)
		{Name: "table-1-mult-half", Relation: "table_size_pos", Raw: with(func(r *OptRaw) { r.TableSize, r.TableMult = 1, bits(0.5) }), Allowed: works},
		{Name: "table-size-1", Relation: "table_size_pos", Raw: with(func(r *OptRaw) { r.TableSize = 1 }), Allowed: works},
		// ---- relations that hold: boundary points
		{Name: "restart-interval-1", Relation: "restart_interval_pos", Raw: with(func(r *OptRaw) { r.BlockRestartInterval = 1 }), Allowed: works},
		{Name: "restart-interval-negative", Relation: "restart_interval_pos", Raw: with(func(r *OptRaw) { r.BlockRestartInterval = -1 }), Allowed: works},
		{Name: "restart-interval-maxint", Relation: "restart_interval_pos", Raw: with(func(r *OptRaw) { r.BlockRestartInterval = maxI }), Allowed: works},
		{Name: "block-size-1", Relation: "block_size_pos", Raw: with(func(r *OptRaw) { r.BlockSize = 1 }), Allowed: works},
		{Name: "block-size-negative", Relation: "block_size_pos", Raw: with(func(r *OptRaw) { r.BlockSize = -1 }), Allowed: works},
		{Name: "write-buffer-1", Relation: "write_buffer_pos", Raw: with(func(r *OptRaw) { r.WriteBuffer = 1 }), Ops: 40, Allowed: works},
		{Name: "write-buffer-1-no-large-batch-txn", Relation: "write_buffer_pos", Raw: with(func(r *OptRaw) { r.WriteBuffer, r.DisableLargeBatchTxn = 1, true }), Ops: 40, Allowed: works},
		{Name: "max-manifest-1", Relation: "max_manifest_pos", Raw: with(func(r *OptRaw) { r.MaxManifest = 1 }), Allowed: works},
		{Name: "max-manifest-minint", Relation: "max_manifest_pos", Raw: with(func(r *OptRaw) { r.MaxManifest = minI }), Allowed: works},
		{Name: "caches-minus-one", Relation: "cache_capacity_nonneg", Raw: with(func(r *OptRaw) { r.BlockCacheCapacity, r.OpenFilesCacheCapacity = -1, -1 }), Allowed: works},
		{Name: "caches-minint", Relation: "cache_capacity_nonneg", Raw: with(func(r *OptRaw) { r.BlockCacheCapacity, r.OpenFilesCacheCapacity = minI, minI }), Allowed: works},
		{Name: "caches-one", Relation: "cache_capacity_nonneg", Raw: with(func(r *OptRaw) { r.BlockCacheCapacity, r.OpenFilesCacheCapacity = 1, 1 }), Allowed: works},
		{Name: "caches-maxint", Relation: "cache_capacity_nonneg", Raw: with(func(r *OptRaw) { r.BlockCacheCapacity, r.OpenFilesCacheCapacity = maxI, maxI }), Allowed: works},
		{Name: "compression-invalid", Relation: "compression_valid", Raw: with(func(r *OptRaw) { r.Compression = 7 }), Allowed: works},
		{Name: "factors-maxint", Relation: "limit_nonneg", Raw: with(func(r *OptRaw) { r.ExpandLimitFactor, r.GPOverlapsFactor, r.SourceLimitFactor = maxI, maxI, maxI }), Allowed: works},
		{Name: "factors-wrap-negative", Relation: "limit_nonneg", Raw: with(func(r *OptRaw) { r.ExpandLimitFactor, r.GPOverlapsFactor, r.SourceLimitFactor = 1<<53, 1<<53, 1<<53 }), Allowed: works},
		{Name: "nil-options", Relation: "nil_receiver", Raw: OptRaw{Nil: true}, Ops: 60, Allowed: works},
		{Name: "zero-options", Relation: "nil_receiver", Raw: OptRaw{}, Ops: 60, Allowed: works},
		// ---- resource requests / values outside the model / residuals: outcome class recorded, any class accepted
		{Name: "block-size-maxint", Relation: "block_size_pool (resource request)", Raw: with(func(r *OptRaw) { r.BlockSize = maxI }), Allowed: nil},
		{Name: "block-size-maxint-no-pool", Relation: "block_size_pool (resource request)", Raw: with(func(r *OptRaw) { r.BlockSize, r.DisableBufferPool = maxI, true }), Allowed: nil},
		{Name: "write-buffer-maxint", Relation: "resource request (memdb.New allocates the write buffer)", Raw: with(func(r *OptRaw) { r.WriteBuffer = maxI }), Allowed: nil},
		{Name: "table-size-maxint", Relation: "resource request (table.NewWriter allocates the table size; float64(MaxInt) rounds to 2^63)", Raw: with(func(r *OptRaw) { r.TableSize = maxI }), Allowed: nil},
		{Name: "table-mult-1e30", Relation: "float_overflow", Raw: with(func(r *OptRaw) { r.TableMult = bits(1e30) }), Allowed: nil},
		{Name: "total-mult-1e30", Relation: "float_overflow", Raw: with(func(r *OptRaw) { r.TotalMult = bits(1e30) }), Allowed: nil},
	}
	root := vlib.NewRNG(0xC090)
	for i, s := range l {
		s.ID = i
		if s.Writers == 0 {
			s.Writers = 2
		}
		if s.Ops == 0 {
			s.Ops = 400
		}
		if s.ValLen == 0 {
			s.ValLen = 100
		}
		s.TimeoutMs = timeoutMs
		s.Seed = root.Uint64()
	}
	return l
}
