package main

import (
	"regexp"
	"runtime"
	"sort"
	"strconv"
	"strings"
)

// gInfo is one goroutine of a dump that has a frame in package leveldb.
type gInfo struct {
	ID    uint64
	State string   // "chan receive", "select", "semacquire", "running", ...
	Top   string   // innermost frame inside github.com/syndtr/goleveldb/leveldb (function name)
	Funcs []string // all leveldb frames, innermost first
	Text  []string // trimmed text lines
}

var goHdr = regexp.MustCompile(`^goroutine (\d+) \[([^\],]+)`)

const ldbPrefix = "github.com/syndtr/goleveldb/leveldb"

// takeDump returns the goroutines that currently execute inside package leveldb (any sub-package).
func takeDump() []gInfo {
	buf := make([]byte, 1<<20)
	for {
		n := runtime.Stack(buf, true)
		if n < len(buf) {
			buf = buf[:n]
			break
		}
		buf = make([]byte, 2*len(buf))
	}
	var res []gInfo
	for _, blk := range strings.Split(string(buf), "\n\n") {
		lines := strings.Split(blk, "\n")
		if len(lines) == 0 {
			continue
		}
		m := goHdr.FindStringSubmatch(lines[0])
		if m == nil {
			continue
		}
		id, _ := strconv.ParseUint(m[1], 10, 64)
		g := gInfo{ID: id, State: m[2]}
		for _, l := range lines[1:] {
			if strings.HasPrefix(l, "\t") || strings.HasPrefix(l, "created by") {
				continue
			}
			fn := l
			if i := strings.LastIndex(fn, "("); i > 0 {
				fn = fn[:i]
			}
			if strings.HasPrefix(fn, ldbPrefix) {
				short := strings.TrimPrefix(fn, "github.com/syndtr/goleveldb/")
				g.Funcs = append(g.Funcs, short)
			}
		}
		if len(g.Funcs) == 0 {
			continue
		}
		g.Top = g.Funcs[0]
		g.Text = append(g.Text, "goroutine "+m[1]+" ["+g.State+"]: "+strings.Join(g.Funcs, " <- "))
		res = append(res, g)
	}
	sort.Slice(res, func(i, j int) bool { return res[i].ID < res[j].ID })
	return res
}

func blockedState(s string) bool {
	switch {
	case strings.HasPrefix(s, "chan "), strings.HasPrefix(s, "select"), strings.HasPrefix(s, "semacquire"),
		strings.HasPrefix(s, "sync."), strings.HasPrefix(s, "IO wait"):
		return true
	}
	return false
}

// dumpText renders at most max lines (one per goroutine: state and the chain of leveldb frames).
func dumpText(gs []gInfo, max int) []string {
	var out []string
	for _, g := range gs {
		for _, l := range g.Text {
			if len(l) > 400 {
				l = l[:400]
			}
			out = append(out, l)
			if len(out) >= max {
				return out
			}
		}
	}
	return out
}

// stableBlocked compares two dumps: returns the goroutines that are blocked in the same leveldb frame chain in both.
func stableBlocked(a, b []gInfo) map[uint64]gInfo {
	m := map[uint64]gInfo{}
	for _, g := range a {
		m[g.ID] = g
	}
	res := map[uint64]gInfo{}
	for _, g := range b {
		if p, ok := m[g.ID]; ok && blockedState(g.State) && p.State == g.State && strings.Join(p.Funcs, "|") == strings.Join(g.Funcs, "|") {
			res[g.ID] = g
		}
	}
	return res
}

func hasFunc(g gInfo, sub string) bool {
	for _, f := range g.Funcs {
		if strings.Contains(f, sub) {
			return true
		}
	}
	return false
}
