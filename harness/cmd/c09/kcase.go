package main

import (
	"fmt"
	"strings"
)

// renderCase renders the lock-event trace of one run as a Coq term of type c09case:
//
//	KTrace complete [ (thread, kind, site); ... ]
//
// complete = every call returned and Close returned (the acceptor then also checks the final state).
func renderCase(o *Outcome) string {
	var sb strings.Builder
	sb.WriteString("KTrace ")
	if o.Complete {
		sb.WriteString("true [")
	} else {
		sb.WriteString("false [")
	}
	first := true
	for _, e := range o.Events {
		if e.Kind == evFault {
			continue
		}
		if !first {
			sb.WriteString(";")
		}
		first = false
		fmt.Fprintf(&sb, "(%d,%d,%d)", e.T, e.Kind, e.A)
	}
	sb.WriteString("]")
	return sb.String()
}
