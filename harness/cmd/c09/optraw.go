package main

// Options correspondence (K, case kind KOpt) and the shared serialisable form of an opt.Options value.
//
// OptRaw is an opt.Options value in a form that survives JSON (float64 fields travel as their IEEE bits:
// NaN and Inf are legal inputs) and that can be rendered as a term of the Coq record Gen/Options.v:Options.
// GenOptRaw draws every numeric field from {0, 1, -1, small, default, default-1, default+1, huge, MinInt,
// MaxInt}; the multipliers from a pool of dyadic values (inside the model's exact float domain at the levels
// compared), a few non-dyadic ones, NaN and +-Inf.

import (
	"fmt"
	"math"
	"math/big"
	"strings"

	"github.com/syndtr/goleveldb/leveldb/filter"
	"github.com/syndtr/goleveldb/leveldb/opt"
	"verifharness/lib/vlib"
)

type OptRaw struct {
	Nil                    bool     `json:"nil,omitempty"`
	AltFilters             int      `json:"alt,omitempty"`
	BlockCacher            int      `json:"bc,omitempty"` // 0 nil, 1 LRUCacher, 2 NoCacher, 3 another cacher
	BlockCacheCapacity     int64    `json:"bcc,omitempty"`
	BlockCacheEvictRemoved bool     `json:"bcer,omitempty"`
	BlockRestartInterval   int64    `json:"bri,omitempty"`
	BlockSize              int64    `json:"bs,omitempty"`
	ExpandLimitFactor      int64    `json:"elf,omitempty"`
	GPOverlapsFactor       int64    `json:"gpf,omitempty"`
	L0Trigger              int64    `json:"l0,omitempty"`
	SourceLimitFactor      int64    `json:"slf,omitempty"`
	TableSize              int64    `json:"ts,omitempty"`
	TableMult              uint64   `json:"tm,omitempty"` // float64 bits
	TableMultPerLevel      []uint64 `json:"tmpl,omitempty"`
	TotalSize              int64    `json:"tot,omitempty"`
	TotalMult              uint64   `json:"totm,omitempty"`
	TotalMultPerLevel      []uint64 `json:"totmpl,omitempty"`
	Comparer               int      `json:"cmp,omitempty"` // 0 nil, n = vlib.ComparerByID(n)
	Compression            uint64   `json:"comp,omitempty"`
	DisableBufferPool      bool     `json:"nopool,omitempty"`
	DisableBlockCache      bool     `json:"nobc,omitempty"`
	DisableBackoff         bool     `json:"nobackoff,omitempty"`
	DisableLargeBatchTxn   bool     `json:"nolbt,omitempty"`
	DisableSeeks           bool     `json:"noseeks,omitempty"`
	ErrorIfExist           bool     `json:"eie,omitempty"`
	ErrorIfMissing         bool     `json:"eim,omitempty"`
	FilterBits             int      `json:"fbits,omitempty"` // 0 = nil filter
	IteratorSamplingRate   int64    `json:"isr,omitempty"`
	NoSync                 bool     `json:"nosync,omitempty"`
	NoWriteMerge           bool     `json:"nomerge,omitempty"`
	OpenFilesCacher        int      `json:"ofc,omitempty"`
	OpenFilesCacheCapacity int64    `json:"ofcc,omitempty"`
	ReadOnly               bool     `json:"ro,omitempty"`
	Strict                 uint64   `json:"strict,omitempty"`
	WriteBuffer            int64    `json:"wb,omitempty"`
	L0Pause                int64    `json:"l0pause,omitempty"`
	L0Slowdown             int64    `json:"l0slow,omitempty"`
	FilterBaseLg           int64    `json:"fbase,omitempty"`
	MaxManifest            int64    `json:"maxman,omitempty"`
}

func f64(b uint64) float64 { return math.Float64frombits(b) }
func fbits(f float64) uint64 {
	if f == 0 {
		return 0
	}
	return math.Float64bits(f)
}

func floats(bs []uint64) []float64 {
	if bs == nil {
		return nil
	}
	r := make([]float64, len(bs))
	for i, b := range bs {
		r[i] = f64(b)
	}
	return r
}

var otherCacher = opt.NewLRU(16)

func cacherOf(k int) opt.Cacher {
	switch k {
	case 1:
		return opt.LRUCacher
	case 2:
		return opt.NoCacher
	case 3:
		return otherCacher
	}
	return nil
}

// Options builds the opt.Options value (nil when r.Nil).
func (r *OptRaw) Options() *opt.Options {
	if r.Nil {
		return nil
	}
	o := &opt.Options{
		BlockCacher:                           cacherOf(r.BlockCacher),
		BlockCacheCapacity:                    int(r.BlockCacheCapacity),
		BlockCacheEvictRemoved:                r.BlockCacheEvictRemoved,
		BlockRestartInterval:                  int(r.BlockRestartInterval),
		BlockSize:                             int(r.BlockSize),
		CompactionExpandLimitFactor:           int(r.ExpandLimitFactor),
		CompactionGPOverlapsFactor:            int(r.GPOverlapsFactor),
		CompactionL0Trigger:                   int(r.L0Trigger),
		CompactionSourceLimitFactor:           int(r.SourceLimitFactor),
		CompactionTableSize:                   int(r.TableSize),
		CompactionTableSizeMultiplier:         f64(r.TableMult),
		CompactionTableSizeMultiplierPerLevel: floats(r.TableMultPerLevel),
		CompactionTotalSize:                   int(r.TotalSize),
		CompactionTotalSizeMultiplier:         f64(r.TotalMult),
		CompactionTotalSizeMultiplierPerLevel: floats(r.TotalMultPerLevel),
		Compression:                           opt.Compression(r.Compression),
		DisableBufferPool:                     r.DisableBufferPool,
		DisableBlockCache:                     r.DisableBlockCache,
		DisableCompactionBackoff:              r.DisableBackoff,
		DisableLargeBatchTransaction:          r.DisableLargeBatchTxn,
		DisableSeeksCompaction:                r.DisableSeeks,
		ErrorIfExist:                          r.ErrorIfExist,
		ErrorIfMissing:                        r.ErrorIfMissing,
		IteratorSamplingRate:                  int(r.IteratorSamplingRate),
		NoSync:                                r.NoSync,
		NoWriteMerge:                          r.NoWriteMerge,
		OpenFilesCacher:                       cacherOf(r.OpenFilesCacher),
		OpenFilesCacheCapacity:                int(r.OpenFilesCacheCapacity),
		ReadOnly:                              r.ReadOnly,
		Strict:                                opt.Strict(r.Strict),
		WriteBuffer:                           int(r.WriteBuffer),
		WriteL0PauseTrigger:                   int(r.L0Pause),
		WriteL0SlowdownTrigger:                int(r.L0Slowdown),
		FilterBaseLg:                          int(r.FilterBaseLg),
		MaxManifestFileSize:                   r.MaxManifest,
	}
	if r.Comparer > 0 {
		o.Comparer = vlib.ComparerByID(r.Comparer % vlib.NumComparers)
	}
	if r.FilterBits != 0 {
		o.Filter = filter.NewBloomFilter(r.FilterBits)
	}
	for i := 0; i < r.AltFilters; i++ {
		o.AltFilters = append(o.AltFilters, filter.NewBloomFilter(5+i))
	}
	return o
}

// ---- rendering as Coq terms (Gen/Options.v)

func coqZ(v int64) string {
	if v < 0 {
		return fmt.Sprintf("(%d)", v)
	}
	return fmt.Sprintf("%d", v)
}

func coqU(v uint64) string { return fmt.Sprintf("%d", v) }

// coqFl renders a float64 as Dy m e (m * 2^e exactly), FNaN or FInf.
func coqFl(b uint64) string {
	f := f64(b)
	switch {
	case math.IsNaN(f):
		return "FNaN"
	case math.IsInf(f, 1):
		return "(FInf false)"
	case math.IsInf(f, -1):
		return "(FInf true)"
	case f == 0:
		return "(Dy 0 0)"
	}
	m, e := dyadicOf(f)
	return fmt.Sprintf("(Dy %s %s)", coqZ(m), coqZ(int64(e)))
}

// dyadicOf: f = m * 2^e with an integer m of at most 53 bits (not normalised to odd: the model does that).
func dyadicOf(f float64) (int64, int) {
	fr, e := math.Frexp(f)
	return int64(fr * (1 << 53)), e - 53
}

func coqFlList(bs []uint64) string {
	var xs []string
	for _, b := range bs {
		xs = append(xs, coqFl(b))
	}
	return "[" + strings.Join(xs, ";") + "]"
}

func coqCacher(k int) string { return [...]string{"CNil", "CLRU", "CNo", "COther"}[k&3] }

// Coq renders (Some (mkOptions ...)) / None.
func (r *OptRaw) Coq() string {
	if r.Nil {
		return "None"
	}
	b := vlib.CoqBool
	parts := []string{
		coqZ(int64(r.AltFilters)), coqCacher(r.BlockCacher), coqZ(r.BlockCacheCapacity), b(r.BlockCacheEvictRemoved),
		coqZ(r.BlockRestartInterval), coqZ(r.BlockSize), coqZ(r.ExpandLimitFactor), coqZ(r.GPOverlapsFactor),
		coqZ(r.L0Trigger), coqZ(r.SourceLimitFactor), coqZ(r.TableSize), coqFl(r.TableMult), coqFlList(r.TableMultPerLevel),
		coqZ(r.TotalSize), coqFl(r.TotalMult), coqFlList(r.TotalMultPerLevel), b(r.Comparer == 0), coqU(r.Compression),
		b(r.DisableBufferPool), b(r.DisableBlockCache), b(r.DisableBackoff), b(r.DisableLargeBatchTxn), b(r.DisableSeeks),
		b(r.ErrorIfExist), b(r.ErrorIfMissing), b(r.FilterBits == 0), coqZ(r.IteratorSamplingRate), b(r.NoSync),
		b(r.NoWriteMerge), coqCacher(r.OpenFilesCacher), coqZ(r.OpenFilesCacheCapacity), b(r.ReadOnly), coqU(r.Strict),
		coqZ(r.WriteBuffer), coqZ(r.L0Pause), coqZ(r.L0Slowdown), coqZ(r.FilterBaseLg), coqZ(r.MaxManifest),
	}
	return "(Some (mkOptions " + strings.Join(parts, " ") + "))"
}

// RoWo: the ReadOptions / WriteOptions part of a KOpt case.
type RoWo struct {
	RoNil         bool   `json:"ro_nil,omitempty"`
	DontFillCache bool   `json:"dfc,omitempty"`
	RoStrict      uint64 `json:"ro_strict,omitempty"`
	WoNil         bool   `json:"wo_nil,omitempty"`
	NoWriteMerge  bool   `json:"wo_nomerge,omitempty"`
	Sync          bool   `json:"wo_sync,omitempty"`
}

func (x *RoWo) Ro() *opt.ReadOptions {
	if x.RoNil {
		return nil
	}
	return &opt.ReadOptions{DontFillCache: x.DontFillCache, Strict: opt.Strict(x.RoStrict)}
}

func (x *RoWo) Wo() *opt.WriteOptions {
	if x.WoNil {
		return nil
	}
	return &opt.WriteOptions{NoWriteMerge: x.NoWriteMerge, Sync: x.Sync}
}

func (x *RoWo) CoqRo() string {
	if x.RoNil {
		return "None"
	}
	return fmt.Sprintf("(Some (mkReadOptions %s %d))", vlib.CoqBool(x.DontFillCache), x.RoStrict)
}

func (x *RoWo) CoqWo() string {
	if x.WoNil {
		return "None"
	}
	return fmt.Sprintf("(Some (mkWriteOptions %s %s))", vlib.CoqBool(x.NoWriteMerge), vlib.CoqBool(x.Sync))
}

func textRow(vs []int64) string {
	xs := make([]string, len(vs))
	for i, v := range vs {
		xs[i] = fmt.Sprintf("%d", v)
	}
	return strings.Join(xs, ",")
}

// renderOptCase: KOpt o ro wo "scalars|expand|gp|source|table|total" (numbers as text, see Corr/C09Run.v:parse_rows)
func renderOptCase(r *OptRaw, x *RoWo, v opt.VerifGetterValues) string {
	return fmt.Sprintf("KOpt %s %s %s \"%s|%s|%s|%s|%s|%s\"", r.Coq(), x.CoqRo(), x.CoqWo(), textRow(v.Scalars),
		textRow(v.ExpandLimit), textRow(v.GPOverlaps), textRow(v.SourceLimit), textRow(v.TableSize), textRow(v.TotalSize))
}

// ---- generation

const (
	maxI = math.MaxInt64
	minI = math.MinInt64
)

// drawInt: {0, 1, -1, small, default, default-1, default+1, huge, MinInt, MaxInt} with the default given.
func drawInt(r *vlib.RNG, dflt int64) int64 {
	switch r.Pick(4, 2, 2, 4, 2, 2, 2, 3, 1, 2, 1) {
	case 0:
		return 0
	case 1:
		return 1
	case 2:
		return -1
	case 3:
		return int64(r.Range(2, 70))
	case 4:
		return dflt
	case 5:
		return dflt - 1
	case 6:
		return dflt + 1
	case 7:
		return []int64{1 << 31, 1<<31 - 1, 1 << 32, 1 << 40, 1 << 53, 1<<53 + 1, 1 << 61, 1 << 62, 1<<62 + 1, maxI / 2, maxI/2 + 1, maxI - 4, maxI - 5}[r.Intn(13)]
	case 8:
		return minI
	case 9:
		return maxI
	}
	return -int64(r.Range(2, 1<<20))
}

var multPool = []float64{0, 0, 0, 1, 1, 2, 10, 10, 0.5, 0.25, 1.5, 3, 4, 8, 16, 100, 1024, 0.125, 2.5, 7, -1, -2, -0.5,
	1e-9, 0.1, 1.1, 1e10, 1e30, 1e300, 5e-324, math.MaxFloat64, math.SmallestNonzeroFloat64}

func drawMult(r *vlib.RNG) uint64 {
	switch r.Pick(30, 1, 1, 1) {
	case 1:
		return math.Float64bits(math.NaN())
	case 2:
		return math.Float64bits(math.Inf(1))
	case 3:
		return math.Float64bits(math.Inf(-1))
	}
	return fbits(multPool[r.Intn(len(multPool))])
}

func drawMultList(r *vlib.RNG) []uint64 {
	if r.Chance(1, 2) {
		return nil
	}
	n := r.Pick(0, 3, 3, 2, 2, 1, 1, 1)
	if r.Chance(1, 6) {
		n = r.Range(8, 16)
	}
	l := make([]uint64, n)
	for i := range l {
		l[i] = drawMult(r)
	}
	return l
}

func drawStrict(r *vlib.RNG) uint64 {
	switch r.Pick(3, 3, 2, 1, 1, 1, 1) {
	case 0:
		return 0
	case 1:
		return uint64(1) << uint(r.Intn(8))
	case 2:
		return uint64(r.Intn(256))
	case 3:
		return uint64(opt.StrictAll)
	case 4:
		return uint64(opt.NoStrict)
	case 5:
		return uint64(opt.DefaultStrict)
	}
	return r.Uint64()
}

// GenOptRaw draws an Options value for the getter correspondence.
func GenOptRaw(r *vlib.RNG) (*OptRaw, *RoWo) {
	x := &RoWo{RoNil: r.Chance(1, 5), DontFillCache: r.Bool(), RoStrict: drawStrict(r), WoNil: r.Chance(1, 5), NoWriteMerge: r.Bool(), Sync: r.Bool()}
	if r.Chance(1, 40) {
		return &OptRaw{Nil: true}, x
	}
	o := &OptRaw{
		AltFilters:             r.Pick(4, 1, 1),
		BlockCacher:            r.Intn(4),
		BlockCacheCapacity:     drawInt(r, int64(opt.DefaultBlockCacheCapacity)),
		BlockCacheEvictRemoved: r.Bool(),
		BlockRestartInterval:   drawInt(r, int64(opt.DefaultBlockRestartInterval)),
		BlockSize:              drawInt(r, int64(opt.DefaultBlockSize)),
		ExpandLimitFactor:      drawInt(r, int64(opt.DefaultCompactionExpandLimitFactor)),
		GPOverlapsFactor:       drawInt(r, int64(opt.DefaultCompactionGPOverlapsFactor)),
		L0Trigger:              drawInt(r, int64(opt.DefaultCompactionL0Trigger)),
		SourceLimitFactor:      drawInt(r, int64(opt.DefaultCompactionSourceLimitFactor)),
		TableSize:              drawInt(r, int64(opt.DefaultCompactionTableSize)),
		TableMult:              drawMult(r),
		TableMultPerLevel:      drawMultList(r),
		TotalSize:              drawInt(r, int64(opt.DefaultCompactionTotalSize)),
		TotalMult:              drawMult(r),
		TotalMultPerLevel:      drawMultList(r),
		Comparer:               r.Pick(3, 1, 1),
		Compression:            []uint64{0, 1, 2, 3, 4, 1 << 63, math.MaxUint64}[r.Pick(3, 3, 3, 2, 1, 1, 1)],
		DisableBufferPool:      r.Bool(),
		DisableBlockCache:      r.Bool(),
		DisableBackoff:         r.Bool(),
		DisableLargeBatchTxn:   r.Bool(),
		DisableSeeks:           r.Bool(),
		ErrorIfExist:           r.Bool(),
		ErrorIfMissing:         r.Bool(),
		FilterBits:             r.Pick(2, 1) * 10,
		IteratorSamplingRate:   drawInt(r, int64(opt.DefaultIteratorSamplingRate)),
		NoSync:                 r.Bool(),
		NoWriteMerge:           r.Bool(),
		OpenFilesCacher:        r.Intn(4),
		OpenFilesCacheCapacity: drawInt(r, int64(opt.DefaultOpenFilesCacheCapacity)),
		ReadOnly:               r.Bool(),
		Strict:                 drawStrict(r),
		WriteBuffer:            drawInt(r, int64(opt.DefaultWriteBuffer)),
		L0Pause:                drawInt(r, int64(opt.DefaultWriteL0PauseTrigger)),
		L0Slowdown:             drawInt(r, int64(opt.DefaultWriteL0SlowdownTrigger)),
		FilterBaseLg:           drawInt(r, int64(opt.DefaultFilterBaseLg)),
		MaxManifest:            drawInt(r, opt.DefaultMaxManifestFileSize),
	}
	// the three L0 triggers near each other: the order relations between them are what the DB depends on
	if r.Chance(1, 3) {
		o.L0Trigger = int64(r.Range(1, 14))
		o.L0Slowdown = int64(r.Range(0, 14))
		o.L0Pause = int64(r.Range(0, 14))
	}
	// filter base near the shift width
	if r.Chance(1, 6) {
		o.FilterBaseLg = int64(r.Range(60, 66))
	}
	return o, x
}

// ---- Go-side estimate of the model's exact float domain (statistics only: the model decides inside Coq)

func oddBig(v *big.Int) *big.Int {
	x := new(big.Int).Abs(v)
	if x.Sign() == 0 {
		return x
	}
	for x.Bit(0) == 0 {
		x.Rsh(x, 1)
	}
	return x
}

var twoTo53 = new(big.Int).Lsh(big.NewInt(1), 53)

// flRepr mirrors Gen/Options.v:fl_repr: m * 2^e with |odd m| < 2^53 and normalised exponent in [-1000, 900].
func flRepr(m *big.Int, e int) bool {
	if m.Sign() == 0 {
		return true
	}
	x := new(big.Int).Abs(m)
	for x.Bit(0) == 0 {
		x.Rsh(x, 1)
		e++
	}
	return x.Cmp(twoTo53) < 0 && e >= -1000 && e <= 900
}

// insideExact reports whether int(float64(base) * Pow(mult, level)) is inside the model's exact domain
// (mult > 0 finite, level >= 0; level 1 also stands for a per-level multiplier taken as it is): the same tests as
// Gen/Options.v:pow_model / size_of.
func insideExact(base int64, mult float64, level int) bool {
	if math.IsNaN(mult) || math.IsInf(mult, 0) || mult <= 0 || level > 64 {
		return false
	}
	m0, e0 := dyadicOf(mult)
	m := big.NewInt(m0)
	for m.Bit(0) == 0 {
		m.Rsh(m, 1)
		e0++
	}
	pm, pe := big.NewInt(1), 0
	if level > 0 && !(m.Cmp(big.NewInt(1)) == 0 && e0 == 0) {
		if !flRepr(m, e0) {
			return false
		}
		pm = new(big.Int).Exp(m, big.NewInt(int64(level)), nil)
		pe = e0 * level
		if level > 1 && (pm.Cmp(twoTo53) >= 0 || !flRepr(pm, pe)) {
			return false
		}
	}
	b := big.NewInt(base)
	if !flRepr(b, 0) {
		return false
	}
	prod := new(big.Int).Mul(b, pm)
	if !flRepr(prod, pe) {
		return false
	}
	// |value| < 2^63
	v := new(big.Int).Set(prod)
	if pe >= 0 {
		v.Lsh(v, uint(pe))
	} else {
		v.Rsh(v, uint(-pe))
	}
	return v.CmpAbs(new(big.Int).Lsh(big.NewInt(1), 63)) < 0
}
