package main

import (
	"fmt"

	"github.com/syndtr/goleveldb/leveldb/opt"
	"github.com/syndtr/goleveldb/leveldb/storage"
	"verifharness/lib/vlib"
	"verifharness/lib/vstor"
)

// FaultSpec is one injected storage fault: the K-th (0-based, counted from the moment the fault is armed)
// operation Op on a file of type File fails; Persistent faults keep failing until Heal.
type FaultSpec struct {
	Op         string `json:"op"`   // "write" | "sync" | "create" | "remove"
	File       string `json:"file"` // "manifest" | "journal" | "table"
	K          int    `json:"k"`
	Persistent bool   `json:"persistent"`
	Partial    int    `json:"partial_permille"` // failing writes store this fraction first
	ArmAt      int    `json:"arm_at"`           // global operation index at which the fault is armed (0 = right after Open)
}

func (f FaultSpec) String() string {
	p := "once"
	if f.Persistent {
		p = "persistent"
	}
	return fmt.Sprintf("%s/%s k=%d %s arm@%d", f.File, f.Op, f.K, p, f.ArmAt)
}

func (f FaultSpec) kind() vstor.OpKind {
	switch f.Op {
	case "write":
		return vstor.OpWrite
	case "sync":
		return vstor.OpSync
	case "create":
		return vstor.OpCreate
	case "remove":
		return vstor.OpRemove
	}
	return vstor.OpWrite
}

func (f FaultSpec) ftype() storage.FileType {
	switch f.File {
	case "manifest":
		return storage.TypeManifest
	case "journal":
		return storage.TypeJournal
	case "table":
		return storage.TypeTable
	}
	return storage.TypeAll
}

// StretchSpec makes the event hook sleep Us microseconds at the lock event point (Kind, Site): a targeted
// widening of one window (e.g. "SetReadOnly has just taken the write lock").
type StretchSpec struct {
	Kind int `json:"kind"`
	Site int `json:"site"`
	Us   int `json:"us"`
}

// Scenario is one watchdog case: a concurrent workload x injected faults x optional Close.
type Scenario struct {
	ID   int    `json:"id"`
	Seed uint64 `json:"seed"`
	// options
	WriteBuffer  int  `json:"wb"`
	TableSize    int  `json:"ts"`
	L0Trigger    int  `json:"l0"`
	L0Slowdown   int  `json:"l0slow"`
	L0Pause      int  `json:"l0pause"`
	NoWriteMerge bool `json:"nomerge"`
	NoSync       bool `json:"nosync"`
	NoLargeBatch bool `json:"nolbt"`
	MaxManifest  int  `json:"maxman"`
	// workload
	Writers      int  `json:"writers"`
	OpsPerWriter int  `json:"ops"`
	ValLen       int  `json:"vallen"`
	LargeEvery   int  `json:"large_every"` // every n-th write of a writer is a batch larger than the write buffer (0 = never)
	TxnUser      bool `json:"txn_user"`
	Compactor    bool `json:"compactor"`
	Reader       bool `json:"reader"`
	SetReadOnly  int  `json:"set_read_only_at"` // global op index at which SetReadOnly is called (-1 = never)
	// faults and Close
	Faults  []FaultSpec `json:"faults"`
	CloseAt int         `json:"close_at"` // global op index at which Close is issued (-1 = only at the end)
	// perturbation: probability (per mille) that a lock event point sleeps up to JitterUs microseconds
	JitterPermille int           `json:"jitter_permille"`
	JitterUs       int           `json:"jitter_us"`
	Stretch        []StretchSpec `json:"stretch,omitempty"`
	// TimeoutMs: every call must return within this time
	TimeoutMs int `json:"timeout_ms"`
}

func (s *Scenario) String() string {
	fs := ""
	for i, f := range s.Faults {
		if i > 0 {
			fs += "; "
		}
		fs += f.String()
	}
	return fmt.Sprintf("wb=%d ts=%d l0=%d/%d/%d nomerge=%v nosync=%v nolbt=%v maxman=%d writers=%d ops=%d vallen=%d large_every=%d txn=%v compactor=%v reader=%v setro@%d faults=[%s] close@%d",
		s.WriteBuffer, s.TableSize, s.L0Trigger, s.L0Slowdown, s.L0Pause, s.NoWriteMerge, s.NoSync, s.NoLargeBatch, s.MaxManifest,
		s.Writers, s.OpsPerWriter, s.ValLen, s.LargeEvery, s.TxnUser, s.Compactor, s.Reader, s.SetReadOnly, fs, s.CloseAt)
}

// Key identifies the scenario class for the distinct-nontrivial count.
func (s *Scenario) Key() string {
	k := fmt.Sprintf("w%d/t%v/c%v/close%v", s.Writers, s.TxnUser || s.LargeEvery > 0, s.Compactor, s.CloseAt >= 0)
	for _, f := range s.Faults {
		k += fmt.Sprintf("/%s-%s-%d-%v", f.File, f.Op, f.K, f.Persistent)
	}
	return k
}

func (s *Scenario) Options() *opt.Options {
	return &opt.Options{
		WriteBuffer:                  s.WriteBuffer,
		CompactionTableSize:          s.TableSize,
		CompactionTotalSize:          4 * s.TableSize,
		CompactionL0Trigger:          s.L0Trigger,
		WriteL0SlowdownTrigger:       s.L0Slowdown,
		WriteL0PauseTrigger:          s.L0Pause,
		BlockSize:                    256,
		NoWriteMerge:                 s.NoWriteMerge,
		NoSync:                       s.NoSync,
		DisableLargeBatchTransaction: s.NoLargeBatch,
		MaxManifestFileSize:          int64(s.MaxManifest),
		DisableCompactionBackoff:     true,
		Compression:                  opt.NoCompression,
		DisableSeeksCompaction:       true,
	}
}

func pick(r *vlib.RNG, xs ...int) int { return xs[r.Intn(len(xs))] }

// faultPositions enumerates the fault classes on paths that run under the write lock, under the
// compaction-commit lock, or that a lock holder waits for (memdb flush / table compaction acknowledgements).
var faultFiles = []string{"manifest", "manifest", "manifest", "journal", "journal", "table", "table"}
var faultOps = map[string][]string{
	"manifest": {"write", "write", "sync", "sync", "create"},
	"journal":  {"write", "sync", "create", "create"},
	"table":    {"write", "sync", "create"},
}

func genFault(r *vlib.RNG, totalOps int) FaultSpec {
	f := FaultSpec{}
	f.File = faultFiles[r.Intn(len(faultFiles))]
	ops := faultOps[f.File]
	f.Op = ops[r.Intn(len(ops))]
	// small K: positions are enumerated densely near the arming point
	f.K = pick(r, 0, 0, 0, 1, 1, 2, 3, 5, 8)
	f.Persistent = r.Chance(1, 2)
	if f.Op == "write" && r.Chance(1, 3) {
		f.Partial = pick(r, 1, 500, 999)
	}
	if r.Chance(1, 3) {
		f.ArmAt = 0
	} else {
		f.ArmAt = r.Intn(totalOps*2/3 + 1)
	}
	return f
}

// GenScenario draws scenario i of a run.
func GenScenario(r *vlib.RNG, i int, thorough bool) *Scenario {
	s := &Scenario{ID: i, Seed: r.Uint64()}
	s.WriteBuffer = pick(r, 1024, 2048, 2048, 4096, 8192)
	s.TableSize = pick(r, 1024, 2048, 4096)
	s.L0Trigger = pick(r, 1, 2, 2, 4)
	if r.Chance(1, 2) {
		// tiny slowdown/pause triggers: writers and transactions wait for table compaction acknowledgements
		// (never below the compaction trigger: with WriteL0PauseTrigger < CompactionL0Trigger writers wait for a
		// compaction that is never scheduled -- a configuration error, not a fault scenario)
		s.L0Slowdown = s.L0Trigger + pick(r, 0, 0, 1, 2)
		s.L0Pause = s.L0Slowdown + pick(r, 0, 1, 2)
	}
	s.NoWriteMerge = r.Chance(1, 4)
	s.NoSync = r.Chance(1, 4)
	s.NoLargeBatch = r.Chance(1, 6)
	s.MaxManifest = pick(r, 0, 0, 0, 1, 512)
	s.Writers = pick(r, 1, 2, 2, 3, 4, 4, 6, 8)
	s.OpsPerWriter = r.Range(20, 60)
	if thorough {
		s.OpsPerWriter = r.Range(20, 150)
	}
	s.ValLen = pick(r, 40, 100, 100, 200, 400)
	if r.Chance(3, 5) {
		s.LargeEvery = pick(r, 3, 5, 8, 13)
	}
	s.TxnUser = r.Chance(1, 2)
	s.Compactor = r.Chance(1, 2)
	s.Reader = r.Chance(1, 3)
	s.SetReadOnly = -1
	total := s.Writers * s.OpsPerWriter
	nf := pick(r, 1, 1, 1, 2, 2)
	if r.Chance(1, 12) {
		nf = 0
	}
	for k := 0; k < nf; k++ {
		s.Faults = append(s.Faults, genFault(r, total))
	}
	s.CloseAt = -1
	if r.Chance(2, 5) {
		s.CloseAt = r.Intn(total + 1)
	}
	if r.Chance(1, 8) {
		s.SetReadOnly = r.Intn(total + 1)
		if r.Chance(1, 2) {
			// race SetReadOnly with Close, stretching the window in which SetReadOnly holds the write lock
			s.CloseAt = s.SetReadOnly
			s.Stretch = append(s.Stretch, StretchSpec{Kind: evWAcq, Site: callSetRO, Us: 20000})
		}
	}
	if r.Chance(1, 3) {
		pts := []StretchSpec{{evWAcq, callOpenTr, 0}, {evWToTr, callOpenTr, 0}, {evCLock, callCommit, 0}, {evCLock, siteCompComm, 0},
			{evWAcq, callCompact, 0}, {evWRel, siteUnlockW, 0}, {evWRel, siteSetDone, 0}, {evCloseC, callClose, 0}, {evWAcq, callClose, 0},
			{evWAcq, callPut, 0}, {evWTake, callPut, 0}, {evWGive, siteUnlockW, 0}, {evCUnlock, siteCompComm, 0}}
		p := pts[r.Intn(len(pts))]
		p.Us = pick(r, 200, 1000, 5000)
		s.Stretch = append(s.Stretch, p)
	}
	if r.Chance(1, 2) {
		s.JitterPermille = pick(r, 20, 100, 300)
		s.JitterUs = pick(r, 50, 200, 1000)
	}
	s.TimeoutMs = 15000
	if thorough {
		s.TimeoutMs = 60000
	}
	return s
}
