package main

import (
	"time"

	"github.com/syndtr/goleveldb/leveldb/storage"
	"verifharness/lib/vstor"
)

// fstor wraps the checker-owned storage: every operation that fails with the injected fault is reported
// to the recorder as an event of the goroutine that issued it (so faults are ordered with the lock events),
// and is followed by a short sleep so that retry loops (compaction back-off is disabled) do not spin at full speed.
type fstor struct {
	*vstor.Stor
	rec *Recorder
}

func (s *fstor) note(k vstor.OpKind, t storage.FileType, err error) {
	if err == vstor.ErrInjected {
		s.rec.Event(evFault, uint64(k), uint64(t))
		time.Sleep(200 * time.Microsecond)
	}
}

type fwriter struct {
	storage.Writer
	s  *fstor
	fd storage.FileDesc
}

func (w *fwriter) Write(p []byte) (int, error) {
	n, err := w.Writer.Write(p)
	w.s.note(vstor.OpWrite, w.fd.Type, err)
	return n, err
}

func (w *fwriter) Sync() error {
	err := w.Writer.Sync()
	w.s.note(vstor.OpSync, w.fd.Type, err)
	return err
}

func (s *fstor) Create(fd storage.FileDesc) (storage.Writer, error) {
	w, err := s.Stor.Create(fd)
	s.note(vstor.OpCreate, fd.Type, err)
	if err != nil {
		return nil, err
	}
	if fd.Type == storage.TypeJournal {
		s.rec.JournalRotated()
	}
	return &fwriter{Writer: w, s: s, fd: fd}, nil
}

func (s *fstor) Remove(fd storage.FileDesc) error {
	err := s.Stor.Remove(fd)
	s.note(vstor.OpRemove, fd.Type, err)
	return err
}
