package main

import (
	"runtime"
	"sync"
	"time"

	"verifharness/lib/vlib"
)

// Event kinds (200-299: reported by the verifEvent calls inserted in the repo, documented in
// leveldb/verif_events_locks.go; 220/221 for Write/Put/Get/iterator calls and 290 are emitted by the harness).
const (
	evWAcq      = 200
	evWRel      = 201
	evWGive     = 202
	evWTake     = 203
	evWToTr     = 204
	evWToCE     = 205
	evCLock     = 210
	evCUnlock   = 211
	evCallBegin = 220
	evCallEnd   = 221
	evCloseC    = 230
	evCloseWait = 231
	evFault     = 290 // a = vstor op kind, b = file type
)

// calls (sites); 1..12 as in verif_events_locks.go, 13.. harness-only
const (
	callWrite    = 1
	callPut      = 2
	callOpenTr   = 3
	callCommit   = 4
	callDiscard  = 5
	callCompact  = 6
	callSetRO    = 7
	callClose    = 8
	siteCompErr  = 9
	siteUnlockW  = 10
	siteSetDone  = 11
	siteCompComm = 12
	callGet      = 13
	callIter     = 14
)

// Ev is one recorded event: thread = small index of the goroutine that reported it.
type Ev struct {
	T    int    `json:"t"`
	Kind int    `json:"k"`
	A    uint64 `json:"a"`
	B    uint64 `json:"b,omitempty"`
}

// Recorder collects the events of one DB run in their global order and keeps the lock monitor
// (who holds the write lock / the commit lock) that decides whether a fault hit while a lock was held.
type Recorder struct {
	mu      sync.Mutex
	evs     []Ev
	gidx    map[uint64]int
	wHeld   bool // write lock held by anybody (client, transaction, compactionError, Close)
	wSince  int  // index of the event that took it
	cHeld   bool
	cSite   uint64
	cThread int
	cSince  int
	// statistics
	FaultsTotal       int
	FaultsUnderW      int
	FaultsUnderC      int
	ManifestWriteUndC int // manifest WRITE faults
	manFaultAt        int // event index of the first such fault (-1)
	jFaultAt          int // event index of the last journal WRITE fault not yet followed by a journal rotation (-1)
	stretch           []StretchSpec
	// perturbation
	jr         *vlib.RNG
	jPermille  int
	jUs        int
	overflowed bool
}

const maxEvents = 400000

func NewRecorder(seed uint64, jPermille, jUs int) *Recorder {
	return &Recorder{gidx: map[uint64]int{}, jr: vlib.NewRNG(seed ^ 0x5eed), jPermille: jPermille, jUs: jUs, manFaultAt: -1, jFaultAt: -1}
}

// goid parses the current goroutine's id from its stack header ("goroutine 123 [running]:").
func goid() uint64 {
	var buf [40]byte
	n := runtime.Stack(buf[:], false)
	var id uint64
	for i := len("goroutine "); i < n; i++ {
		c := buf[i]
		if c < '0' || c > '9' {
			break
		}
		id = id*10 + uint64(c-'0')
	}
	return id
}

// Event is the process-wide hook (and the entry used by the harness for its own events).
func (r *Recorder) Event(kind int, a, b uint64) {
	if kind < 200 || kind > 299 {
		return // other checks' event points (e.g. the minSeq report of verif_export_db.go)
	}
	g := goid()
	var sleep time.Duration
	r.mu.Lock()
	t, ok := r.gidx[g]
	if !ok {
		t = len(r.gidx)
		r.gidx[g] = t
	}
	idx := len(r.evs)
	if idx < maxEvents {
		r.evs = append(r.evs, Ev{T: t, Kind: kind, A: a, B: b})
	} else {
		r.overflowed = true
	}
	switch kind {
	case evWAcq, evWTake:
		r.wHeld, r.wSince = true, idx
	case evWRel:
		r.wHeld = false
	case evCLock:
		r.cHeld, r.cSite, r.cThread, r.cSince = true, a, t, idx
	case evCUnlock:
		r.cHeld = false
	case evFault:
		r.FaultsTotal++
		if r.wHeld {
			r.FaultsUnderW++
		}
		if r.cHeld {
			r.FaultsUnderC++
		}
		// vstor.OpWrite == 1, storage.TypeJournal == 2: a failed journal write poisons the DB journal's writer
		if a == 1 && b == 2 {
			r.jFaultAt = idx
		}
		// vstor.OpWrite == 1, storage.TypeManifest == 1: a failed manifest write (it poisons the manifest's journal writer)
		if a == 1 && b == 1 {
			r.ManifestWriteUndC++
			if r.manFaultAt < 0 {
				r.manFaultAt = idx
			}
		}
	}
	if r.jPermille > 0 && kind >= 200 && kind < 220 && r.jr.Intn(1000) < r.jPermille {
		sleep = time.Duration(1+r.jr.Intn(r.jUs)) * time.Microsecond
	}
	for _, st := range r.stretch {
		if st.Kind == kind && uint64(st.Site) == a {
			sleep += time.Duration(st.Us) * time.Microsecond
		}
	}
	r.mu.Unlock()
	if sleep > 0 {
		time.Sleep(sleep)
	}
}

// Snapshot returns a copy of the events recorded so far.
func (r *Recorder) Snapshot() []Ev {
	r.mu.Lock()
	defer r.mu.Unlock()
	return append([]Ev(nil), r.evs...)
}

// CommitLockStuckSinceManifestFault reports whether a manifest WRITE fault has occurred and compCommitLk is
// currently held by a background compactionCommit (the trigger of the known finding
// manifest-write-fault-commit-retry: the caller additionally checks that this goroutine sits in its retry loop).
func (r *Recorder) CommitLockStuckSinceManifestFault() bool {
	r.mu.Lock()
	defer r.mu.Unlock()
	return r.manFaultAt >= 0 && r.cHeld && r.cSite == siteCompComm
}

func (r *Recorder) Nontrivial() bool {
	r.mu.Lock()
	defer r.mu.Unlock()
	return r.FaultsUnderW+r.FaultsUnderC > 0
}

// JournalRotated is called by the storage wrapper when a new journal file has been created: the DB's journal
// writer is reset onto it, a sticky error is gone.
func (r *Recorder) JournalRotated() {
	r.mu.Lock()
	r.jFaultAt = -1
	r.mu.Unlock()
}

// JournalPoisoned: a journal write failed and the journal has not been rotated since (trigger of the known
// finding journal-write-fault-sticky-error).
func (r *Recorder) JournalPoisoned() bool {
	r.mu.Lock()
	defer r.mu.Unlock()
	return r.jFaultAt >= 0
}
