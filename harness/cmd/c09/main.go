// c09: no call blocks forever and Close always returns.
//
// (P) WATCHDOG on the implementation: scenarios = concurrent workload (1-8 writers incl. oversized batches, a
// transaction user, a CompactRange caller, readers; tiny buffers so that flushes, compactions and manifest writes
// happen) x one or two injected storage faults at enumerated positions on paths that run under the write lock /
// the compaction-commit lock / that a lock holder waits for x optional Close at a random operation index.  Every
// call must return within T; after Heal the follow-up Put / OpenTransaction+Discard / CompactRange / Close must
// return (success or the DB's persistent error).  Each scenario runs in a child process (re-exec of this binary):
// a hang leaks goroutines and the event hook is process-wide.  On a timeout two trimmed goroutine dumps 2 s apart
// confirm a stable blocked state; they go to the replay file only.
//
// (K) the lock events recorded through the verifEvent points (kinds 200-299) of completed runs are written as
// Coq cases; Corr/C09Run.v replays them on the model Conc/Locks.v (`accepts`).
//
// OPTIONS PART (opt*.go): (K) KOpt = generated opt.Options values through the real getters (opt.VerifGetters)
// against the model Gen/Options.v; (P) the witnesses of the option relations of Props/C09O.v and legal-but-extreme
// option points on the real DB, one process each, under a watchdog (optscen.go, optwit.go), and a documentation
// oracle for the getters (optoracle.go).
package main

import (
	"encoding/json"
	"fmt"
	"os"
	"os/exec"
	"path/filepath"
	"sort"
	"strings"
	"sync"
	"time"

	"verifharness/lib/vlib"
)

type childResult struct {
	sc   *Scenario
	out  *Outcome
	fail string // the child itself failed (crash / no result)
}

func runChild(self, dir string, sc *Scenario, tag string) childResult {
	path := filepath.Join(dir, fmt.Sprintf("sc_%s_%d.json", tag, sc.ID))
	b, _ := json.Marshal(sc)
	os.WriteFile(path, b, 0o644)
	defer os.Remove(path)
	defer os.Remove(path + ".res.json")
	cmd := exec.Command(self, "--out", dir, "--extra", "child="+path)
	var tail tailBuf
	cmd.Stdout = &tail
	cmd.Stderr = &tail
	if err := cmd.Start(); err != nil {
		return childResult{sc: sc, fail: "cannot start child: " + err.Error()}
	}
	done := make(chan error, 1)
	go func() { done <- cmd.Wait() }()
	// workload + follow-up can each take up to 2T before a hang is reported
	limit := time.Duration(sc.TimeoutMs)*time.Millisecond*5 + 60*time.Second
	select {
	case err := <-done:
		rb, rerr := os.ReadFile(path + ".res.json")
		if rerr != nil {
			return childResult{sc: sc, fail: fmt.Sprintf("child ended without a result (%v); last output:\n%s", err, tail.String())}
		}
		out := &Outcome{}
		if jerr := json.Unmarshal(rb, out); jerr != nil {
			return childResult{sc: sc, fail: "child result unreadable: " + jerr.Error()}
		}
		return childResult{sc: sc, out: out}
	case <-time.After(limit):
		cmd.Process.Kill()
		<-done
		return childResult{sc: sc, fail: fmt.Sprintf("child did not finish within %v (its own watchdog did not fire); last output:\n%s", limit, tail.String())}
	}
}

// tailBuf keeps the last 4 KB written to it.
type tailBuf struct {
	mu sync.Mutex
	b  []byte
}

func (t *tailBuf) Write(p []byte) (int, error) {
	t.mu.Lock()
	t.b = append(t.b, p...)
	if len(t.b) > 4096 {
		t.b = t.b[len(t.b)-4096:]
	}
	t.mu.Unlock()
	return len(p), nil
}
func (t *tailBuf) String() string { t.mu.Lock(); defer t.mu.Unlock(); return string(t.b) }

// describe turns a child result into ("" = pass) a failure text, the known-finding id and extra replay fields.
func describe(cr childResult) (string, string, map[string]interface{}) {
	if cr.fail != "" {
		return "scenario process failed: " + firstLine(cr.fail), "", map[string]interface{}{"child_output": cr.fail}
	}
	o := cr.out
	switch {
	case o.Panic != "":
		return "panic: " + firstLine(o.Panic), "", map[string]interface{}{"panic": o.Panic}
	case o.Hang != nil:
		h := o.Hang
		st := "stable blocked state confirmed by two dumps 2 s apart"
		if !h.Stable {
			st = "no return within twice the timeout, goroutines not in a stable blocked frame (livelock/starvation)"
		}
		return fmt.Sprintf("call did not return within %d ms (%s phase): %s; %s [%s]", cr.sc.TimeoutMs, h.Phase, strings.Join(h.Calls, " | "), st, cr.sc.String()),
			h.Known, map[string]interface{}{"hang": h}
	case o.NoRecover != "":
		return fmt.Sprintf("DB does not serve again after the faults stopped: %s [%s]", o.NoRecover, cr.sc.String()), o.NoRecKnown, nil
	}
	return "", "", nil
}

func firstLine(s string) string {
	if i := strings.IndexByte(s, '\n'); i >= 0 {
		s = s[:i]
	}
	if len(s) > 300 {
		s = s[:300]
	}
	return s
}

const rule = "watchdog scenarios: 1-8 concurrent writers (Put/Delete/small batches/batches larger than the write buffer) + optional transaction user, CompactRange caller, reader, SetReadOnly x tiny write buffers (1-8 KiB) and L0 slowdown/pause triggers x 0-2 injected faults (k-th Write/Sync/Create on manifest, journal or table files, once or persistent, armed at a random operation) x optional Close at a random operation index; every call must return within T (quick 15 s, thorough 60 s), after Heal the follow-up Puts (2 write buffers), OpenTransaction+Discard, CompactRange and Close must return with success or the persistent error; non-trivial = an injected fault hit while the write lock or the compaction-commit lock was held (from the lock event trace); distinct = distinct (writers, roles, close, fault positions) classes"

func main() {
	a := vlib.ParseArgs()
	if strings.HasPrefix(a.Extra, "child=") {
		childMain(strings.TrimPrefix(a.Extra, "child="))
		return
	}
	if strings.HasPrefix(a.Extra, "optchild=") {
		optChildMain(strings.TrimPrefix(a.Extra, "optchild="))
		return
	}
	res := vlib.NewResult("C09", a.Out, rule+optRule)
	defer res.Write()
	self, err := os.Executable()
	if err != nil {
		fmt.Println("cannot find own executable:", err)
		os.Exit(2)
	}

	if a.Replay != "" {
		if osc, ok := loadOptScenario(a.Replay); ok {
			if osc.GetterOracle {
				res.Eval("replay-getter-oracle", true)
				if d := docOracle(&osc.Raw); d != "" {
					fmt.Println("replay fails:", d)
					res.ViolateWith("option getter disagrees with its documentation: "+d, osc, "", nil)
				} else {
					fmt.Println("replay passes")
				}
				return
			}
			out := runOptChild(self, a.Out, osc)
			judgeOpt(res, osc, out)
			if res.NViolations() > 0 {
				fmt.Println("replay fails:", out.Class, firstLine(out.Detail))
			} else {
				fmt.Println("replay passes")
			}
			return
		}
		sc, err := loadScenario(a.Replay)
		if err != nil {
			fmt.Println("cannot load replay:", err)
			return
		}
		for i := 0; i < 5; i++ {
			cr := runChild(self, a.Out, sc, fmt.Sprintf("replay%d", i))
			res.Eval(fmt.Sprintf("replay%d", i), true)
			if d, known, extra := describe(cr); d != "" {
				fmt.Println("replay fails:", d)
				res.ViolateWith(d, sc, known, extra)
				return
			}
		}
		fmt.Println("replay passes")
		return
	}

	// corpus: stored scenarios (minimal failing cases of repaired / known defects), run once each with the others
	var corpus []*Scenario
	if i := strings.Index(a.Extra, "corpus="); i >= 0 {
		dir := strings.Fields(a.Extra[i+len("corpus="):])[0]
		files, _ := filepath.Glob(filepath.Join(dir, "*.json"))
		sort.Strings(files)
		for fi, f := range files {
			sc, err := loadScenario(f)
			if err != nil {
				continue
			}
			sc.ID = 100000 + fi
			sc.TimeoutMs = 15000
			if a.Thorough() {
				sc.TimeoutMs = 60000
			}
			corpus = append(corpus, sc)
		}
		res.Count("corpus_scenarios", len(corpus))
	}

	// the options part (getter correspondence cases, option scenarios on the real DB) runs beside the scenarios
	runOptCases(a, res)
	if strings.Contains(a.Extra, "optcasesonly") {
		return
	}
	var optWg sync.WaitGroup
	optWg.Add(1)
	go func() {
		defer optWg.Done()
		runOptScenarios(a, res, self)
	}()
	defer optWg.Wait()
	if strings.Contains(a.Extra, "optonly") {
		return
	}

	n := 300
	par := 12
	if a.Thorough() {
		n = 3000
	}
	if strings.Contains(a.Extra, "search") {
		n = 600
	}
	// vlib.NewRNG(seed) and NewRNG(seed+1) produce the same stream shifted by one draw: decorrelate the seeds first
	root := vlib.NewRNG(mix64(a.Seed))
	scs := make([]*Scenario, n)
	for i := range scs {
		scs[i] = GenScenario(root.Fork(), i, a.Thorough() && !strings.Contains(a.Extra, "search"))
	}
	jobs := make(chan *Scenario)
	var wg sync.WaitGroup
	var kmu sync.Mutex
	var kcases []string
	kbytes := 0
	kcap := 700000
	if a.Thorough() {
		kcap = 3000000
	}
	for w := 0; w < par; w++ {
		wg.Add(1)
		go func() {
			defer wg.Done()
			for sc := range jobs {
				cr := runChild(self, a.Out, sc, "s")
				nontriv := cr.out != nil && cr.out.Nontrivial
				res.Eval(sc.Key(), nontriv)
				if cr.out != nil {
					for k, v := range cr.out.Stats {
						res.Count(k, v)
					}
					if cr.out.Complete {
						res.Count("scenarios_complete", 1)
					}
					if nontriv {
						res.Count("scenarios_fault_under_lock", 1)
					}
					if sc.ID < 3 {
						res.Sample(map[string]interface{}{"scenario": sc.String(), "stats": cr.out.Stats, "complete": cr.out.Complete})
					}
					// (K) lock-event trace of this run
					if len(cr.out.Events) > 0 && len(cr.out.Events) <= 6000 {
						c := renderCase(cr.out)
						kmu.Lock()
						if kbytes+len(c) <= kcap {
							kcases = append(kcases, c)
							kbytes += len(c)
						}
						kmu.Unlock()
					}
				}
				if d, known, extra := describe(cr); d != "" {
					if known != "" {
						res.Count("known_finding_"+known, 1)
					}
					res.ViolateWith(d, sc, known, extra)
				}
			}
		}()
	}
	for _, sc := range corpus {
		jobs <- sc
	}
	for _, sc := range scs {
		jobs <- sc
	}
	close(jobs)
	wg.Wait()
	if len(kcases) > 0 {
		res.WriteCases("From GL Require Import Corr.C09Run.", "c09case", "mismatches", kcases, 16)
	}
}

func loadScenario(path string) (*Scenario, error) {
	b, err := os.ReadFile(path)
	if err != nil {
		return nil, err
	}
	var w struct {
		Case json.RawMessage `json:"case"`
	}
	if err := json.Unmarshal(b, &w); err != nil {
		return nil, err
	}
	raw := w.Case
	if raw == nil {
		raw = b
	}
	sc := &Scenario{}
	if err := json.Unmarshal(raw, sc); err != nil {
		return nil, err
	}
	return sc, nil
}

func mix64(x uint64) uint64 {
	x ^= x >> 33
	x *= 0xff51afd7ed558ccd
	x ^= x >> 33
	x *= 0xc4ceb9fe1a85ec53
	x ^= x >> 33
	return x
}
