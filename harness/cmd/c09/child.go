package main

import (
	"encoding/json"
	"fmt"
	"os"
	"runtime/debug"
	"sort"
	"strings"
	"sync"
	"sync/atomic"
	"time"

	"github.com/syndtr/goleveldb/leveldb"
	lerrors "github.com/syndtr/goleveldb/leveldb/errors"
	"github.com/syndtr/goleveldb/leveldb/util"
	"verifharness/lib/vlib"
	"verifharness/lib/vstor"
)

// HangInfo describes a call that did not return.
type HangInfo struct {
	Phase       string   `json:"phase"` // "workload" | "followup"
	Calls       []string `json:"calls"` // the calls outstanding for longer than the timeout
	Stable      bool     `json:"stable"`
	Known       string   `json:"known,omitempty"`
	Dump1       []string `json:"dump1"`
	Dump2       []string `json:"dump2"`
	Locks       string   `json:"locks"` // lock monitor state at detection
	LockHistory []string `json:"lock_history"`
}

// Outcome is what a child process reports for one scenario.
type Outcome struct {
	ID         int            `json:"id"`
	Hang       *HangInfo      `json:"hang,omitempty"`
	Panic      string         `json:"panic,omitempty"`
	NoRecover  string         `json:"no_recover,omitempty"`
	NoRecKnown string         `json:"no_recover_known,omitempty"`
	Nontrivial bool           `json:"nontrivial"`
	Complete   bool           `json:"complete"` // every call returned and Close returned
	Stats      map[string]int `json:"stats"`
	Events     []Ev           `json:"events,omitempty"`
	Threads    int            `json:"threads"`
	WallMs     int            `json:"wall_ms"`
}

type callSlot struct {
	mu    sync.Mutex
	name  string
	start time.Time
	gid   uint64
	busy  bool
	seq   int
}

type runner struct {
	sc          *Scenario
	rec         *Recorder
	vs          *vstor.Stor
	db          *leveldb.DB
	slotsMu     sync.Mutex
	slots       []*callSlot
	opCnt       int64
	closeC      chan struct{} // signals the closer goroutine
	roC         chan struct{}
	closeIssued int32
	roIssued    int32
	healed      int32
	statsMu     sync.Mutex
	stats       map[string]int
	panicMu     sync.Mutex
	panicS      string
	timeout     time.Duration
}

func (rn *runner) count(k string, n int) {
	rn.statsMu.Lock()
	rn.stats[k] += n
	rn.statsMu.Unlock()
}

func (rn *runner) newSlot() *callSlot {
	s := &callSlot{}
	rn.slotsMu.Lock()
	rn.slots = append(rn.slots, s)
	rn.slotsMu.Unlock()
	return s
}

// call runs one API call under the watchdog; emit: the harness reports begin/end events itself (calls without
// an inserted hook).  A panic inside the call is recorded (and treated as a failure of the scenario).
func (rn *runner) call(s *callSlot, name string, callID int, emit bool, f func() error) (err error) {
	s.mu.Lock()
	s.name, s.start, s.gid, s.busy = name, time.Now(), goid(), true
	s.seq++
	s.mu.Unlock()
	if emit {
		rn.rec.Event(evCallBegin, uint64(callID), 0)
	}
	defer func() {
		if x := recover(); x != nil {
			st := string(debug.Stack())
			if len(st) > 3000 {
				st = st[:3000]
			}
			rn.panicMu.Lock()
			if rn.panicS == "" {
				rn.panicS = fmt.Sprintf("panic in %s: %v\n%s", name, x, st)
			}
			rn.panicMu.Unlock()
			err = fmt.Errorf("panic: %v", x)
		}
		if emit {
			rn.rec.Event(evCallEnd, uint64(callID), 0)
		}
		s.mu.Lock()
		s.busy = false
		s.mu.Unlock()
	}()
	err = f()
	rn.count("calls_"+strings.SplitN(name, " ", 2)[0], 1)
	if err != nil {
		rn.count("errors_"+strings.SplitN(name, " ", 2)[0], 1)
	}
	return err
}

// tick advances the global operation index and fires the triggers placed at it.
func (rn *runner) tick() {
	n := int(atomic.AddInt64(&rn.opCnt, 1)) - 1
	for i := range rn.sc.Faults {
		f := rn.sc.Faults[i]
		if f.ArmAt == n && n > 0 && atomic.LoadInt32(&rn.healed) == 0 {
			rn.arm(f) // (no new faults once the storage was healed because a call stalled)
		}
	}
	if rn.sc.CloseAt == n {
		atomic.StoreInt32(&rn.closeIssued, 1)
		close(rn.closeC)
	}
	if rn.sc.SetReadOnly == n {
		atomic.StoreInt32(&rn.roIssued, 1)
		close(rn.roC)
	}
}

func (rn *runner) arm(f FaultSpec) {
	rn.vs.AddFault(&vstor.Fault{Kind: f.kind(), Type: f.ftype(), K: f.K, Persistent: f.Persistent, PartialPermille: f.Partial})
}

func isPersistent(err error) bool {
	return err == leveldb.ErrReadOnly || err == leveldb.ErrClosed || lerrors.IsCorrupted(err)
}

func key(i int) []byte { return []byte(fmt.Sprintf("k%05d", i)) }

func (rn *runner) writer(w int, r *vlib.RNG, wg *sync.WaitGroup) {
	defer wg.Done()
	s := rn.newSlot()
	sc := rn.sc
	val := make([]byte, sc.ValLen)
	for i := range val {
		val[i] = byte('a' + w)
	}
	for i := 0; i < sc.OpsPerWriter; i++ {
		rn.tick()
		var err error
		k := key(r.Intn(400))
		switch {
		case sc.LargeEvery > 0 && i%sc.LargeEvery == sc.LargeEvery-1:
			b := new(leveldb.Batch)
			n := sc.WriteBuffer/(sc.ValLen+16) + 2 + r.Intn(4)
			for j := 0; j < n; j++ {
				b.Put(key(r.Intn(400)), val)
			}
			err = rn.call(s, "WriteLarge", callWrite, true, func() error { return rn.db.Write(b, nil) })
		default:
			switch r.Pick(70, 10, 10, 10) {
			case 0:
				err = rn.call(s, "Put", callPut, true, func() error { return rn.db.Put(k, val[:1+r.Intn(len(val))], nil) })
			case 1:
				err = rn.call(s, "Delete", callPut, true, func() error { return rn.db.Delete(k, nil) })
			case 2:
				b := new(leveldb.Batch)
				for j := 0; j < 1+r.Intn(3); j++ {
					b.Put(key(r.Intn(400)), val[:1+r.Intn(len(val))])
				}
				err = rn.call(s, "Write", callWrite, true, func() error { return rn.db.Write(b, nil) })
			case 3:
				err = rn.call(s, "Get", callGet, true, func() error {
					_, e := rn.db.Get(k, nil)
					if e == leveldb.ErrNotFound {
						e = nil
					}
					return e
				})
			}
		}
		if err == leveldb.ErrClosed {
			rn.count("writer_stopped_closed", 1)
			return
		}
	}
}

func (rn *runner) txnUser(r *vlib.RNG, wg *sync.WaitGroup) {
	defer wg.Done()
	s := rn.newSlot()
	sc := rn.sc
	val := make([]byte, sc.ValLen)
	for i := range val {
		val[i] = 't'
	}
	rounds := sc.OpsPerWriter/6 + 2
	for i := 0; i < rounds; i++ {
		rn.tick()
		var tr *leveldb.Transaction
		err := rn.call(s, "OpenTransaction", callOpenTr, false, func() error {
			var e error
			tr, e = rn.db.OpenTransaction()
			return e
		})
		if err == leveldb.ErrClosed {
			return
		}
		if err != nil || tr == nil {
			time.Sleep(time.Duration(r.Intn(300)) * time.Microsecond)
			continue
		}
		// sometimes more than the transaction's memdb holds (forces table writes under the write lock)
		n := r.Pick(3, 2, 1) * (1 + r.Intn(3))
		if r.Chance(1, 3) {
			n = sc.WriteBuffer/(sc.ValLen+16) + 2
		}
		failed := false
		for j := 0; j < n && !failed; j++ {
			k := key(r.Intn(400))
			if e := rn.call(s, "TrPut", callPut, false, func() error { return tr.Put(k, val, nil) }); e != nil {
				failed = true
			}
		}
		if !failed && r.Chance(3, 4) {
			e := rn.call(s, "Commit", callCommit, false, func() error { return tr.Commit() })
			if e != nil && r.Chance(1, 2) {
				e = rn.call(s, "Commit", callCommit, false, func() error { return tr.Commit() })
			}
			if e == nil {
				continue
			}
		}
		// the documented obligation after a failed Commit (or instead of it): Discard
		rn.call(s, "Discard", callDiscard, false, func() error { tr.Discard(); return nil })
	}
}

func (rn *runner) compactor(r *vlib.RNG, wg *sync.WaitGroup) {
	defer wg.Done()
	s := rn.newSlot()
	rounds := rn.sc.OpsPerWriter/8 + 2
	for i := 0; i < rounds; i++ {
		rn.tick()
		rg := util.Range{}
		if r.Chance(1, 2) {
			a, b := r.Intn(400), r.Intn(400)
			if a > b {
				a, b = b, a
			}
			rg = util.Range{Start: key(a), Limit: key(b)}
		}
		err := rn.call(s, "CompactRange", callCompact, false, func() error { return rn.db.CompactRange(rg) })
		if err == leveldb.ErrClosed {
			return
		}
		time.Sleep(time.Duration(r.Intn(2000)) * time.Microsecond)
	}
}

func (rn *runner) reader(r *vlib.RNG, wg *sync.WaitGroup) {
	defer wg.Done()
	s := rn.newSlot()
	for i := 0; i < rn.sc.OpsPerWriter; i++ {
		var err error
		if r.Chance(1, 2) {
			k := key(r.Intn(400))
			err = rn.call(s, "Get", callGet, true, func() error {
				_, e := rn.db.Get(k, nil)
				if e == leveldb.ErrNotFound {
					e = nil
				}
				return e
			})
		} else {
			err = rn.call(s, "IterScan", callIter, true, func() error {
				it := rn.db.NewIterator(nil, nil)
				n := 0
				for it.Next() && n < 50 {
					n++
				}
				it.Release()
				return it.Error()
			})
		}
		if err == leveldb.ErrClosed {
			return
		}
	}
}

// lockHistory: who took the write lock / the commit lock last and what that goroutine reported afterwards.
func (rn *runner) lockHistory() []string {
	r := rn.rec
	r.mu.Lock()
	defer r.mu.Unlock()
	var out []string
	lastW, lastC := -1, -1
	for i, e := range r.evs {
		switch e.Kind {
		case evWAcq, evWTake:
			lastW = i
		case evCLock:
			lastC = i
		}
	}
	for _, p := range []struct {
		name string
		at   int
	}{{"writeLockC", lastW}, {"compCommitLk", lastC}} {
		if p.at < 0 {
			continue
		}
		// the calls open on that thread when it took the lock
		t := r.evs[p.at].T
		var stack []uint64
		for _, e := range r.evs[:p.at] {
			if e.T != t {
				continue
			}
			if e.Kind == evCallBegin {
				stack = append(stack, e.A)
			} else if e.Kind == evCallEnd && len(stack) > 0 {
				stack = stack[:len(stack)-1]
			}
		}
		l := fmt.Sprintf("%s last taken at event %d by thread %d (kind %d site %d, open calls %v); afterwards that thread reported:", p.name, p.at, t, r.evs[p.at].Kind, r.evs[p.at].A, stack)
		n := 0
		for _, e := range r.evs[p.at+1:] {
			if e.T == t && n < 12 {
				l += fmt.Sprintf(" (%d,%d)", e.Kind, e.A)
				n++
			}
		}
		out = append(out, l)
		// and every later event on that lock by anybody
		l = "  later events on " + p.name + ":"
		n = 0
		for i, e := range r.evs[p.at+1:] {
			isW := e.Kind >= evWAcq && e.Kind <= evWToTr
			isC := e.Kind == evCLock || e.Kind == evCUnlock
			if ((p.name == "writeLockC" && isW) || (p.name == "compCommitLk" && isC)) && n < 8 {
				l += fmt.Sprintf(" #%d t%d (%d,%d)", p.at+1+i, e.T, e.Kind, e.A)
				n++
			}
		}
		out = append(out, l)
	}
	return out
}

func (rn *runner) lockState() string {
	r := rn.rec
	r.mu.Lock()
	defer r.mu.Unlock()
	return fmt.Sprintf("writeLock held=%v (since event %d) compCommitLk held=%v site=%d (since event %d) events=%d faults=%d (underW=%d underC=%d manifestWriteInCompactionCommit=%d)",
		r.wHeld, r.wSince, r.cHeld, r.cSite, r.cSince, len(r.evs), r.FaultsTotal, r.FaultsUnderW, r.FaultsUnderC, r.ManifestWriteUndC)
}

// watch returns a HangInfo as soon as some call has been outstanding for longer than the timeout and the
// blocked state is confirmed by a second dump 2 s later; returns nil when stop is closed first.
func (rn *runner) watch(phase string, stop <-chan struct{}) *HangInfo {
	tk := time.NewTicker(50 * time.Millisecond)
	defer tk.Stop()
	type out struct {
		s   *callSlot
		seq int
	}
	overdue := func(limit time.Duration) []out {
		var res []out
		rn.slotsMu.Lock()
		slots := append([]*callSlot(nil), rn.slots...)
		rn.slotsMu.Unlock()
		for _, s := range slots {
			s.mu.Lock()
			if s.busy && time.Since(s.start) > limit {
				res = append(res, out{s, s.seq})
			}
			s.mu.Unlock()
		}
		return res
	}
	for {
		select {
		case <-stop:
			return nil
		case <-tk.C:
		}
		// faults do not last forever: when a call has been outstanding for a third of the timeout the storage is
		// healed ("once injected failures stop"); the call then has the remaining two thirds to return
		if atomic.LoadInt32(&rn.healed) == 0 && len(overdue(rn.timeout/3)) > 0 {
			atomic.StoreInt32(&rn.healed, 1)
			rn.vs.Heal()
			rn.count("healed_on_stall", 1)
		}
		od := overdue(rn.timeout)
		if len(od) == 0 {
			continue
		}
		deadline := time.Now().Add(rn.timeout) // at most 2T in total
		for {
			d1 := takeDump()
			time.Sleep(2 * time.Second)
			d2 := takeDump()
			st := stableBlocked(d1, d2)
			var calls []string
			stable := true
			still := 0
			for _, o := range od {
				o.s.mu.Lock()
				if o.s.busy && o.s.seq == o.seq {
					still++
					g, ok := st[o.s.gid]
					where := "not in a stable blocked frame"
					if ok {
						where = "blocked [" + g.State + "] in " + g.Top
					} else {
						stable = false
					}
					calls = append(calls, fmt.Sprintf("%s outstanding %.1fs, %s", o.s.name, time.Since(o.s.start).Seconds(), where))
				}
				o.s.mu.Unlock()
			}
			if still == 0 {
				rn.count("late_returns", len(od))
				break
			}
			if stable || time.Now().After(deadline) {
				h := &HangInfo{Phase: phase, Calls: calls, Stable: stable, Dump1: dumpText(d1, 40), Dump2: dumpText(d2, 40), Locks: rn.lockState(), LockHistory: rn.lockHistory()}
				// known finding: the commit lock has been held by one compactionCommit ever since a manifest write
				// fault hit inside it, and that goroutine is still in its retry loop
				if rn.rec.CommitLockStuckSinceManifestFault() {
					for _, g := range d2 {
						if hasFunc(g, "compactionCommit") {
							h.Known = knownManifest
						}
					}
				}
				return h
			}
			rn.count("unstable_timeouts", 1)
		}
	}
}

const knownManifest = "manifest-write-fault-commit-retry"
const knownJournal = "journal-write-fault-sticky-error"

// runScenario executes the scenario and the follow-up phase.
func runScenario(sc *Scenario) *Outcome {
	t0 := time.Now()
	out := &Outcome{ID: sc.ID, Stats: map[string]int{}}
	rec := NewRecorder(sc.Seed, sc.JitterPermille, sc.JitterUs)
	rec.stretch = sc.Stretch
	vs := vstor.New(false)
	fs := &fstor{Stor: vs, rec: rec}
	rn := &runner{sc: sc, rec: rec, vs: vs, closeC: make(chan struct{}), roC: make(chan struct{}), stats: out.Stats,
		timeout: time.Duration(sc.TimeoutMs) * time.Millisecond}
	leveldb.VerifSetHooks(nil, rec.Event)
	defer leveldb.VerifSetHooks(nil, nil)
	db, err := leveldb.Open(fs, sc.Options())
	if err != nil {
		out.Panic = "Open failed without faults: " + err.Error()
		return out
	}
	rn.db = db
	for _, f := range sc.Faults {
		if f.ArmAt == 0 {
			rn.arm(f)
		}
	}
	finish := func() {
		out.Nontrivial = rec.Nontrivial()
		out.Events = rec.Snapshot()
		out.Threads = len(rec.gidx)
		rn.statsMu.Lock()
		out.Stats["faults_hit"] = rec.FaultsTotal
		out.Stats["faults_under_write_lock"] = rec.FaultsUnderW
		out.Stats["faults_under_commit_lock"] = rec.FaultsUnderC
		out.Stats["events"] = len(out.Events)
		rn.statsMu.Unlock()
		rn.panicMu.Lock()
		out.Panic = rn.panicS
		rn.panicMu.Unlock()
		out.WallMs = int(time.Since(t0) / time.Millisecond)
	}

	// ---- workload
	root := vlib.NewRNG(sc.Seed)
	var wg sync.WaitGroup
	for w := 0; w < sc.Writers; w++ {
		wg.Add(1)
		go rn.writer(w, root.Fork(), &wg)
	}
	if sc.TxnUser {
		wg.Add(1)
		go rn.txnUser(root.Fork(), &wg)
	}
	if sc.Compactor {
		wg.Add(1)
		go rn.compactor(root.Fork(), &wg)
	}
	if sc.Reader {
		wg.Add(1)
		go rn.reader(root.Fork(), &wg)
	}
	workDone := make(chan struct{})
	go func() { wg.Wait(); close(workDone) }()
	// closer and read-only setter
	closeDone := make(chan struct{})
	cs := rn.newSlot()
	go func() {
		select {
		case <-rn.closeC:
		case <-workDone:
			select {
			case <-rn.closeC: // the trigger fired on the last operation
			default:
				return
			}
		}
		rn.call(cs, "Close", callClose, false, func() error { return rn.db.Close() })
		close(closeDone)
	}()
	ros := rn.newSlot()
	roDone := make(chan struct{})
	go func() {
		select {
		case <-rn.roC:
		case <-workDone:
			select {
			case <-rn.roC:
			default:
				return
			}
		}
		rn.call(ros, "SetReadOnly", callSetRO, false, func() error { return rn.db.SetReadOnly() })
		close(roDone)
	}()
	stopW := make(chan struct{})
	hangC := make(chan *HangInfo, 1)
	go func() { hangC <- rn.watch("workload", stopW) }()
	select {
	case <-workDone:
		if atomic.LoadInt32(&rn.closeIssued) == 1 {
			select {
			case <-closeDone:
			case h := <-hangC:
				out.Hang = h
				finish()
				return out
			}
		}
		if atomic.LoadInt32(&rn.roIssued) == 1 {
			select {
			case <-roDone:
			case h := <-hangC:
				out.Hang = h
				finish()
				return out
			}
		}
		close(stopW)
		if h := <-hangC; h != nil {
			out.Hang = h
			finish()
			return out
		}
	case h := <-hangC:
		out.Hang = h
		finish()
		return out
	}

	// ---- follow-up: faults stop; the DB must serve again or fail at once with its persistent error
	vs.Heal()
	stopF := make(chan struct{})
	go func() { hangC <- rn.watch("followup", stopF) }()
	fdone := make(chan struct{})
	closedAlready := atomic.LoadInt32(&rn.closeIssued) == 1
	go func() {
		defer close(fdone)
		s := rn.newSlot()
		window := 5 * time.Second
		// serve: retried while the error is transient (background retry loops need to notice the healed storage)
		serve := func(name string, callID int, emit bool, f func() error) error {
			start := time.Now()
			var err error
			for {
				err = rn.call(s, name, callID, emit, f)
				if err == nil || isPersistent(err) {
					return err
				}
				if time.Since(start) > window {
					return fmt.Errorf("after the faults stopped %s kept failing for %v with the transient error %q", name, window, err)
				}
				time.Sleep(20 * time.Millisecond)
			}
		}
		norec := func(err error) bool {
			if err != nil && !isPersistent(err) {
				out.NoRecover = err.Error()
				if rn.rec.CommitLockStuckSinceManifestFault() {
					out.NoRecKnown = knownManifest
				} else if rn.rec.JournalPoisoned() && strings.Contains(err.Error(), vstor.ErrInjected.Error()) {
					out.NoRecKnown = knownJournal
				}
				return true
			}
			return false
		}
		val := make([]byte, 100)
		nput := 2*sc.WriteBuffer/100 + 2
		for i := 0; i < nput; i++ {
			k := key(1000 + i)
			if err := serve("Put(followup)", callPut, true, func() error { return rn.db.Put(k, val, nil) }); norec(err) {
				return
			} else if err != nil {
				rn.count("followup_persistent_error", 1)
				break
			}
		}
		var ftr *leveldb.Transaction
		if err := serve("OpenTransaction(followup)", callOpenTr, false, func() error {
			var e error
			ftr, e = rn.db.OpenTransaction()
			return e
		}); norec(err) {
			return
		}
		if ftr != nil {
			rn.call(s, "Discard(followup)", callDiscard, false, func() error { ftr.Discard(); return nil })
		}
		if err := serve("CompactRange(followup)", callCompact, false, func() error { return rn.db.CompactRange(util.Range{}) }); norec(err) {
			return
		}
		if !closedAlready {
			rn.call(s, "Close(followup)", callClose, false, func() error { return rn.db.Close() })
		} else {
			// a second Close must fail at once
			rn.call(s, "Close(second)", callClose, false, func() error { return rn.db.Close() })
		}
	}()
	select {
	case <-fdone:
		close(stopF)
		if h := <-hangC; h != nil {
			out.Hang = h
		}
	case h := <-hangC:
		out.Hang = h
	}
	if out.Hang == nil && out.NoRecover == "" {
		out.Complete = true
	}
	if out.NoRecover != "" {
		// leave the DB as it is (Close is exercised by the other scenarios); nothing else to do
		rn.count("no_recover", 1)
	}
	finish()
	return out
}

// childMain: run the scenario stored in path, write <path>.res.json.
func childMain(path string) {
	b, err := os.ReadFile(path)
	if err != nil {
		fmt.Fprintln(os.Stderr, "child: cannot read scenario:", err)
		os.Exit(3)
	}
	sc := &Scenario{}
	if err := json.Unmarshal(b, sc); err != nil {
		fmt.Fprintln(os.Stderr, "child: bad scenario:", err)
		os.Exit(3)
	}
	out := runScenario(sc)
	ob, _ := json.Marshal(out)
	if err := os.WriteFile(path+".res.json", ob, 0o644); err != nil {
		os.Exit(3)
	}
	// hung calls leak goroutines: leave at once
	os.Exit(0)
}

func sortedStatKeys(m map[string]int) []string {
	var ks []string
	for k := range m {
		ks = append(ks, k)
	}
	sort.Strings(ks)
	return ks
}
