package main

// Driver of the options part of C09: (K) getter correspondence cases and the option scenarios on the real DB.

import (
	"encoding/json"
	"fmt"
	"math"
	"os"
	"path/filepath"
	"strings"
	"sync"

	"github.com/syndtr/goleveldb/leveldb/opt"
	"verifharness/lib/dbh"
	"verifharness/lib/vlib"
)

const optRule = " || OPTIONS: (K) KOpt = generated opt.Options/ReadOptions/WriteOptions values (every numeric field from {0, 1, -1, small, default, default-1, default+1, huge, MinInt, MaxInt}, multipliers from dyadic, non-dyadic, NaN, Inf values, per-level tables of 0-16 entries) -> all getter results of the real package (opt.VerifGetters, levels 0..12) = the model Gen/Options.v (float-derived results compared inside the model's exact domain only); (P) option scenarios = the witnesses of the relations of Props/C09O.v and boundary points, each on the real DB in its own process (2 writers x 400 ops over a 2 KiB write buffer, reads, iterator scans, an oversized batch, CompactRange, quiescence of the background, Close) under a watchdog: outcome class works / open-error / panic / hang / spin / bg-spin must be one of the scenario's allowed classes"

// writeOptCases shards the KOpt cases into files of at most maxBytes.
func writeOptCases(res *vlib.Result, out string, cases []string, maxBytes int) {
	var cur []string
	size := 0
	idx := 0
	flush := func() {
		if len(cur) == 0 {
			return
		}
		name := fmt.Sprintf("cases_C09_opt_%d.v", idx)
		idx++
		var sb strings.Builder
		sb.WriteString("From GL Require Import Corr.C09Run Gen.Options.\n")
		sb.WriteString("From Coq Require Import List NArith ZArith String.\nImport ListNotations.\nOpen Scope string_scope.\nOpen Scope N_scope.\n")
		sb.WriteString(fmt.Sprintf("Definition cases : list c09case :=\n %s.\n", vlib.CoqList(cur)))
		sb.WriteString("Definition M := Eval vm_compute in mismatches cases.\nPrint M.\n")
		os.WriteFile(filepath.Join(out, name), []byte(sb.String()), 0o644)
		res.KCaseFiles = append(res.KCaseFiles, name+":0")
		res.KCases += len(cur)
		cur, size = nil, 0
	}
	for _, c := range cases {
		if size+len(c) > maxBytes {
			flush()
		}
		cur = append(cur, c)
		size += len(c) + 4
	}
	flush()
}

// genOptCases: n generated Options values through the real getters.
func genOptCases(res *vlib.Result, seed uint64, n int) []string {
	r := vlib.NewRNG(mix64(seed ^ 0x0c09095))
	var cases []string
	seen := map[string]bool{}
	for i := 0; i < n; i++ {
		raw, x := GenOptRaw(r.Fork())
		o := raw.Options()
		v := opt.VerifGetters(o, x.Ro(), x.Wo())
		c := renderOptCase(raw, x, v)
		cases = append(cases, c)
		// (P) documentation oracle for the level-indexed getters
		if d := docOracle(raw); d != "" {
			res.Count("kopt_doc_oracle_failures", 1)
			res.ViolateWith("option getter disagrees with its documentation: "+d, &OptScenario{Name: "getter-oracle", Relation: "documented formula", Raw: *raw, GetterOracle: true}, "", nil)
		}
		// distribution: which branches of the getters the value reaches
		res.Count("kopt_cases", 1)
		if raw.Nil {
			res.Count("kopt_nil_options", 1)
			continue
		}
		inside, total := 0, 0
		for level := 0; level < opt.VerifLevels; level++ {
			total++
			if optInside(raw.TableSize, int64(opt.DefaultCompactionTableSize), raw.TableMult, raw.TableMultPerLevel, opt.DefaultCompactionTableSizeMultiplier, level) {
				inside++
			}
			total++
			if optInside(raw.TotalSize, int64(opt.DefaultCompactionTotalSize), raw.TotalMult, raw.TotalMultPerLevel, opt.DefaultCompactionTotalSizeMultiplier, level) {
				inside++
			}
		}
		res.Count("kopt_float_results_inside_exact_domain", inside)
		res.Count("kopt_float_results_total", total)
		if raw.L0Trigger > raw.L0Pause && raw.L0Pause != 0 && raw.L0Trigger != 0 {
			res.Count("kopt_l0_trigger_above_pause", 1)
		}
		if raw.FilterBaseLg >= 64 {
			res.Count("kopt_filter_base_ge_64", 1)
		}
		if raw.IteratorSamplingRate > maxI/2 {
			res.Count("kopt_sampling_rate_above_half_maxint", 1)
		}
		if len(raw.TableMultPerLevel) > 0 || len(raw.TotalMultPerLevel) > 0 {
			res.Count("kopt_with_per_level_multipliers", 1)
		}
		key := fmt.Sprint(v.Scalars, v.TableSize, v.TotalSize)
		if !seen[key] {
			seen[key] = true
			res.Count("kopt_distinct_result_vectors", 1)
		}
		if i < 2 {
			res.Sample(map[string]interface{}{"kopt_options": raw, "getters": v.Scalars})
		}
	}
	return cases
}

// optInside mirrors the branch structure of GetCompactionTableSize / GetCompactionTotalSize (statistics only).
func optInside(base, dfltBase int64, mult uint64, perLevel []uint64, dfltMult float64, level int) bool {
	if base <= 0 {
		base = dfltBase
	}
	m := dfltMult
	switch {
	case level < len(perLevel) && f64(perLevel[level]) > 0:
		pm := f64(perLevel[level])
		if math.IsInf(pm, 0) {
			return false
		}
		return insideExact(base, pm, 1)
	case f64(mult) > 0:
		m = f64(mult)
	}
	if level == 0 || m == 1 {
		return insideExact(base, 1, 0)
	}
	return insideExact(base, m, level)
}

// runOptCases writes the (K) getter correspondence cases (synchronously: it appends to the result's file list).
func runOptCases(a vlib.Args, res *vlib.Result) {
	n := 1000
	if a.Thorough() {
		n = 12000
	}
	if strings.Contains(a.Extra, "search") {
		return // the search step looks for a failing input on the implementation only
	}
	cases := genOptCases(res, a.Seed, n)
	writeOptCases(res, a.Out, cases, 280000)
}

// runOptScenarios runs the option scenarios on the real DB.
func runOptScenarios(a vlib.Args, res *vlib.Result, self string) {
	tmo := 6000
	if a.Thorough() {
		tmo = 20000
	}
	scs := OptWitnesses(tmo)
	// legal-but-extreme points of the DB-level option lattice (dbh.ExtremeCfg): safe per Props/C09O.v, exercised here
	nx := 10
	if a.Thorough() {
		nx = 120
	}
	if strings.Contains(a.Extra, "search") {
		tmo, nx = 6000, 40
	}
	xr := vlib.NewRNG(mix64(a.Seed ^ 0xe87e3e))
	for i := 0; i < nx; i++ {
		c, names := dbh.ExtremeCfg(xr.Fork())
		scs = append(scs, &OptScenario{ID: len(scs), Name: fmt.Sprintf("extreme-cfg-%d[%s]", i, strings.Join(names, "+")), Relation: "dbh.ExtremeCfg",
			Cfg: &c, Writers: 2, Ops: 300, ValLen: 100, TimeoutMs: tmo, Allowed: works, Seed: xr.Uint64()})
	}
	jobs := make(chan *OptScenario)
	var wg sync.WaitGroup
	for w := 0; w < 6; w++ {
		wg.Add(1)
		go func() {
			defer wg.Done()
			for sc := range jobs {
				out := runOptChild(self, a.Out, sc)
				judgeOpt(res, sc, out)
			}
		}()
	}
	for _, sc := range scs {
		jobs <- sc
	}
	close(jobs)
	wg.Wait()
}

func judgeOpt(res *vlib.Result, sc *OptScenario, out *OptOutcome) {
	res.Eval("opt/"+sc.Name, true)
	res.Count("optscen_"+out.Class, 1)
	res.Count("optscen_total", 1)
	recordOptOutcome(res, sc, out)
	if sc.Allowed != nil && !allowed(sc, out.Class) {
		res.ViolateWith(fmt.Sprintf("option scenario %q (relation %s): outcome class %q, allowed %v: %s", sc.Name, sc.Relation, out.Class, sc.Allowed, firstLine(out.Detail)),
			sc, "", map[string]interface{}{"outcome": out})
	}
}

var optOutMu sync.Mutex

// recordOptOutcome keeps the class of every scenario in the evidence (extra.option_scenarios).
func recordOptOutcome(res *vlib.Result, sc *OptScenario, out *OptOutcome) {
	optOutMu.Lock()
	defer optOutMu.Unlock()
	m, _ := res.Extra["option_scenarios"].(map[string]string)
	if m == nil {
		m = map[string]string{}
		res.Extra["option_scenarios"] = m
	}
	d := out.Class
	if out.Class != "works" {
		d += ": " + firstLine(out.Detail)
	}
	m[sc.Name] = d
}

func loadOptScenario(path string) (*OptScenario, bool) {
	b, err := os.ReadFile(path)
	if err != nil {
		return nil, false
	}
	var w struct {
		Case json.RawMessage `json:"case"`
	}
	if json.Unmarshal(b, &w) != nil || w.Case == nil {
		return nil, false
	}
	var probe map[string]json.RawMessage
	if json.Unmarshal(w.Case, &probe) != nil {
		return nil, false
	}
	if _, ok := probe["raw"]; !ok {
		return nil, false
	}
	sc := &OptScenario{}
	if json.Unmarshal(w.Case, sc) != nil {
		return nil, false
	}
	return sc, true
}
