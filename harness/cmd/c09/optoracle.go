package main

// (P) documentation oracle for the level-indexed getters: the doc comments of leveldb/opt/options.go are the
// contract --
//
//	limit(level) = base * (multiplier ^ level), or base * perLevel[level] where that entry is positive
//	("use zero to skip a level"); a non-positive base / multiplier / factor selects the default; a total-size
//	multiplier below one is read as one; expand limit / source limit = table size(level+1) * factor,
//	grandparent overlaps = table size(level+2) * factor
//
// evaluated with exact rational arithmetic and compared with the real getters wherever float64 arithmetic is exact
// (insideExact: same domain as the Coq model).  A disagreement is a (P) violation whose replay is the Options value.
// This is what gives a failing INPUT when a getter is changed; the Coq correspondence (KOpt) compares every result.

import (
	"fmt"
	"math"
	"math/big"

	"github.com/syndtr/goleveldb/leveldb/opt"
)

// expectedSize returns (value, true) when the documented formula is exactly computable in float64.
func expectedSize(base, dfltBase int64, mult uint64, perLevel []uint64, dfltMult float64, clampGEOne bool, level int) (int64, bool) {
	if base <= 0 {
		base = dfltBase
	}
	var m float64
	lv := level
	switch {
	case level < len(perLevel) && f64(perLevel[level]) > 0:
		m, lv = f64(perLevel[level]), 1
		if math.IsInf(m, 0) {
			return 0, false
		}
	case f64(mult) > 0:
		m = f64(mult)
		if clampGEOne && m < 1 {
			m = 1
		}
	default:
		m = dfltMult
	}
	if lv == 0 || m == 1 {
		m, lv = 1, 0
	}
	if !insideExact(base, m, lv) {
		return 0, false
	}
	r := new(big.Rat).SetFloat64(m)
	if r == nil {
		return 0, false
	}
	p := new(big.Rat).SetInt64(1)
	for i := 0; i < lv; i++ {
		p.Mul(p, r)
	}
	p.Mul(p, new(big.Rat).SetInt64(base))
	q := new(big.Int).Quo(p.Num(), p.Denom()) // positive: truncation
	if !q.IsInt64() {
		return 0, false
	}
	return q.Int64(), true
}

func factorOf(f, dflt int64) int64 {
	if f > 0 {
		return f
	}
	return dflt
}

// scalarDoc: what the doc comments say about the scalar getters -- the zero value selects the documented default;
// "use -1 for zero" (cache capacities), "use negative value to disable" (iterator sampling); the documented bounds
// (FilterBaseLg above 63 reads as 63, IteratorSamplingRate above MaxInt/2 reads as that, CompactionL0Trigger below
// one selects the default, the pause trigger is never below the compaction trigger).
func scalarDoc(raw *OptRaw) string {
	o := raw.Options()
	type chk struct {
		name       string
		field, got int64
		dflt       int64
	}
	for _, c := range []chk{
		{"BlockCacheCapacity", raw.BlockCacheCapacity, int64(o.GetBlockCacheCapacity()), int64(opt.DefaultBlockCacheCapacity)},
		{"OpenFilesCacheCapacity", raw.OpenFilesCacheCapacity, int64(o.GetOpenFilesCacheCapacity()), int64(opt.DefaultOpenFilesCacheCapacity)},
		{"IteratorSamplingRate", raw.IteratorSamplingRate, int64(o.GetIteratorSamplingRate()), int64(opt.DefaultIteratorSamplingRate)},
	} {
		switch {
		case c.field == 0 && c.got != c.dflt:
			return fmt.Sprintf("Get%s() = %d for the zero value, the documented default is %d", c.name, c.got, c.dflt)
		case c.field < 0 && c.got != 0:
			return fmt.Sprintf("Get%s() = %d for the negative value %d, documented: negative means zero / disabled", c.name, c.got, c.field)
		case c.field > 0 && c.field <= maxI/2 && c.got != c.field:
			return fmt.Sprintf("Get%s() = %d for the value %d", c.name, c.got, c.field)
		}
	}
	if raw.IteratorSamplingRate > maxI/2 && int64(o.GetIteratorSamplingRate()) != maxI/2 {
		return fmt.Sprintf("GetIteratorSamplingRate() = %d for %d, documented: values above MaxInt/2 read as MaxInt/2", o.GetIteratorSamplingRate(), raw.IteratorSamplingRate)
	}
	for _, c := range []chk{
		{"BlockRestartInterval", raw.BlockRestartInterval, int64(o.GetBlockRestartInterval()), int64(opt.DefaultBlockRestartInterval)},
		{"BlockSize", raw.BlockSize, int64(o.GetBlockSize()), int64(opt.DefaultBlockSize)},
		{"WriteBuffer", raw.WriteBuffer, int64(o.GetWriteBuffer()), int64(opt.DefaultWriteBuffer)},
		{"MaxManifestFileSize", raw.MaxManifest, o.GetMaxManifestFileSize(), opt.DefaultMaxManifestFileSize},
		{"CompactionL0Trigger", raw.L0Trigger, int64(o.GetCompactionL0Trigger()), int64(opt.DefaultCompactionL0Trigger)},
		{"WriteL0SlowdownTrigger", raw.L0Slowdown, int64(o.GetWriteL0SlowdownTrigger()), int64(opt.DefaultWriteL0SlowdownTrigger)},
	} {
		switch {
		case c.field == 0 && c.got != c.dflt:
			return fmt.Sprintf("Get%s() = %d for the zero value, the documented default is %d", c.name, c.got, c.dflt)
		case c.field > 0 && c.got != c.field:
			return fmt.Sprintf("Get%s() = %d for the value %d", c.name, c.got, c.field)
		}
	}
	if raw.L0Trigger < 1 && int64(o.GetCompactionL0Trigger()) != int64(opt.DefaultCompactionL0Trigger) {
		return fmt.Sprintf("GetCompactionL0Trigger() = %d for %d, documented: values below one select the default", o.GetCompactionL0Trigger(), raw.L0Trigger)
	}
	wantPause := raw.L0Pause
	if wantPause == 0 {
		wantPause = int64(opt.DefaultWriteL0PauseTrigger)
	}
	if c := int64(o.GetCompactionL0Trigger()); wantPause < c {
		wantPause = c
	}
	if got := int64(o.GetWriteL0PauseTrigger()); got != wantPause {
		return fmt.Sprintf("GetWriteL0PauseTrigger() = %d, documented: the value (default for zero), never below CompactionL0Trigger: %d", got, wantPause)
	}
	wantLg := raw.FilterBaseLg
	switch {
	case wantLg == 0:
		wantLg = int64(opt.DefaultFilterBaseLg)
	case wantLg > 63:
		wantLg = 63
	}
	if got := int64(o.GetFilterBaseLg()); raw.FilterBaseLg >= 0 && got != wantLg {
		return fmt.Sprintf("GetFilterBaseLg() = %d for %d, documented: default for zero, values above 63 read as 63", got, raw.FilterBaseLg)
	}
	return ""
}

// docOracle returns "" or the first disagreement between the real getters and the documented formulas.
func docOracle(raw *OptRaw) string {
	if raw.Nil {
		return ""
	}
	if d := scalarDoc(raw); d != "" {
		return d
	}
	o := raw.Options()
	for level := 0; level < opt.VerifLevels+2; level++ {
		if want, ok := expectedSize(raw.TableSize, int64(opt.DefaultCompactionTableSize), raw.TableMult, raw.TableMultPerLevel,
			opt.DefaultCompactionTableSizeMultiplier, false, level); ok {
			if got := int64(o.GetCompactionTableSize(level)); got != want {
				return fmt.Sprintf("GetCompactionTableSize(%d) = %d, the documented formula gives %d", level, got, want)
			}
			// the derived limits (wrapping int multiplication)
			if level >= 1 {
				if got, w := int64(o.GetCompactionExpandLimit(level-1)), want*factorOf(raw.ExpandLimitFactor, int64(opt.DefaultCompactionExpandLimitFactor)); got != w {
					return fmt.Sprintf("GetCompactionExpandLimit(%d) = %d, table size(level+1) * factor = %d", level-1, got, w)
				}
				if got, w := int64(o.GetCompactionSourceLimit(level-1)), want*factorOf(raw.SourceLimitFactor, int64(opt.DefaultCompactionSourceLimitFactor)); got != w {
					return fmt.Sprintf("GetCompactionSourceLimit(%d) = %d, table size(level+1) * factor = %d", level-1, got, w)
				}
			}
			if level >= 2 {
				if got, w := int64(o.GetCompactionGPOverlaps(level-2)), want*factorOf(raw.GPOverlapsFactor, int64(opt.DefaultCompactionGPOverlapsFactor)); got != w {
					return fmt.Sprintf("GetCompactionGPOverlaps(%d) = %d, table size(level+2) * factor = %d", level-2, got, w)
				}
			}
		}
		if want, ok := expectedSize(raw.TotalSize, int64(opt.DefaultCompactionTotalSize), raw.TotalMult, raw.TotalMultPerLevel,
			opt.DefaultCompactionTotalSizeMultiplier, true, level); ok {
			if got := o.GetCompactionTotalSize(level); got != want {
				return fmt.Sprintf("GetCompactionTotalSize(%d) = %d, the documented formula gives %d", level, got, want)
			}
		}
	}
	return ""
}
