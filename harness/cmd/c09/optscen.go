package main

// Option scenarios: the witnesses of the option relations of Props/C09O.v (and a few legal-but-extreme option
// points) exercised on the REAL DB.  One child process per scenario: open a DB with the options on the checker's
// storage, run a small workload (concurrent writers that rotate the memdb many times, point reads, an iterator
// scan, one batch larger than the write buffer, CompactRange), wait for the background work to quiesce, Close;
// every call under a watchdog.  Outcome classes:
//
//	works        every call returned without error, the background went quiet, Close returned
//	open-error   Open returned an error
//	panic-open   Open panicked (recovered by the harness)
//	panic        a later call panicked (recovered), or the process died from a panic in a background goroutine
//	hang         a call did not return within T and the process used (almost) no CPU meanwhile
//	spin         a call did not return within T while the process kept a CPU busy
//	bg-spin      every call returned but the background never went quiet (storage operations / CPU go on for ever)
//	error        a call returned an unexpected error
//
// A scenario lists the classes it may end in on the repaired tree (Allowed); anything else is a (P) violation.

import (
	"encoding/json"
	"fmt"
	"os"
	"os/exec"
	"path/filepath"
	"runtime/debug"
	"strings"
	"sync"
	"syscall"
	"time"

	"github.com/syndtr/goleveldb/leveldb"
	"github.com/syndtr/goleveldb/leveldb/opt"
	"github.com/syndtr/goleveldb/leveldb/util"
	"verifharness/lib/dbh"
	"verifharness/lib/vlib"
	"verifharness/lib/vstor"
)

func (sc *OptScenario) options() *opt.Options {
	if sc.Cfg != nil {
		return sc.Cfg.Options()
	}
	return sc.Raw.Options()
}

type OptScenario struct {
	ID        int      `json:"id"`
	Name      string   `json:"name"`
	Relation  string   `json:"relation"` // the relation of Props/C09O.v this point belongs to
	Raw       OptRaw   `json:"raw"`
	Cfg       *dbh.Cfg `json:"cfg,omitempty"` // when set the options are Cfg.Options() (dbh.ExtremeCfg points), Raw is unused
	Writers   int      `json:"writers"`
	Ops       int      `json:"ops"`
	ValLen    int      `json:"vallen"`
	TimeoutMs int      `json:"timeout_ms"`
	Allowed   []string `json:"allowed"`
	Seed      uint64   `json:"seed"`
	// GetterOracle: the case is an Options value for the documentation oracle of the getters (docOracle), not a DB scenario
	GetterOracle bool `json:"getter_oracle,omitempty"`
}

type OptOutcome struct {
	Class  string         `json:"class"`
	Detail string         `json:"detail"`
	Stats  map[string]int `json:"stats"`
	WallMs int            `json:"wall_ms"`
}

func cpuTime() time.Duration {
	var ru syscall.Rusage
	if syscall.Getrusage(syscall.RUSAGE_SELF, &ru) != nil {
		return 0
	}
	return time.Duration(ru.Utime.Nano() + ru.Stime.Nano())
}

type optRunner struct {
	sc      *OptScenario
	timeout time.Duration
	mu      sync.Mutex
	stats   map[string]int
	fail    *OptOutcome // first failure
}

func (rn *optRunner) count(k string, n int) {
	rn.mu.Lock()
	rn.stats[k] += n
	rn.mu.Unlock()
}

func (rn *optRunner) setFail(class, detail string) {
	rn.mu.Lock()
	if rn.fail == nil {
		if len(detail) > 1500 {
			detail = detail[:1500]
		}
		rn.fail = &OptOutcome{Class: class, Detail: detail}
	}
	rn.mu.Unlock()
}

func (rn *optRunner) failed() bool {
	rn.mu.Lock()
	defer rn.mu.Unlock()
	return rn.fail != nil
}

// call runs f under the watchdog; returns false when the scenario is over (failure recorded).
func (rn *optRunner) call(name string, f func() error) (err error, ok bool) {
	type res struct {
		err error
		pan string
	}
	done := make(chan res, 1)
	go func() {
		defer func() {
			if x := recover(); x != nil {
				st := string(debug.Stack())
				if len(st) > 1200 {
					st = st[:1200]
				}
				done <- res{pan: fmt.Sprintf("%v\n%s", x, st)}
			}
		}()
		done <- res{err: f()}
	}()
	tm := time.NewTimer(rn.timeout)
	defer tm.Stop()
	select {
	case r := <-done:
		if r.pan != "" {
			cl := "panic"
			if name == "Open" {
				cl = "panic-open"
			}
			rn.setFail(cl, name+": "+r.pan)
			return nil, false
		}
		rn.count("calls_"+name, 1)
		return r.err, true
	case <-tm.C:
	}
	// not back within T: blocked or busy?  measure the CPU used during one more second
	c0 := cpuTime()
	d1 := takeDump()
	select {
	case r := <-done:
		if r.pan == "" {
			rn.count("late_returns", 1)
			return r.err, true
		}
		rn.setFail("panic", name+": "+r.pan)
		return nil, false
	case <-time.After(time.Second):
	}
	used := cpuTime() - c0
	d2 := takeDump()
	class := "hang"
	if used > 300*time.Millisecond {
		class = "spin"
	}
	rn.setFail(class, fmt.Sprintf("%s did not return within %v; CPU used in the next second: %v; goroutines inside leveldb: %s || %s",
		name, rn.timeout, used.Round(time.Millisecond), strings.Join(dumpText(d1, 8), " ; "), strings.Join(dumpText(d2, 8), " ; ")))
	return nil, false
}

func runOptScenario(sc *OptScenario) *OptOutcome {
	t0 := time.Now()
	rn := &optRunner{sc: sc, timeout: time.Duration(sc.TimeoutMs) * time.Millisecond, stats: map[string]int{}}
	finish := func(class, detail string) *OptOutcome {
		rn.mu.Lock()
		defer rn.mu.Unlock()
		o := &OptOutcome{Class: class, Detail: detail, Stats: rn.stats}
		if rn.fail != nil {
			o.Class, o.Detail = rn.fail.Class, rn.fail.Detail
		}
		o.WallMs = int(time.Since(t0) / time.Millisecond)
		return o
	}
	vs := vstor.New(false)
	var db *leveldb.DB
	err, ok := rn.call("Open", func() error {
		var e error
		db, e = leveldb.Open(vs, sc.options())
		return e
	})
	if !ok {
		return finish("", "")
	}
	if err != nil {
		return finish("open-error", err.Error())
	}
	unexpected := func(name string, err error) {
		if err != nil && err != leveldb.ErrNotFound {
			rn.setFail("error", name+": "+err.Error())
		}
	}
	// ---- workload
	root := vlib.NewRNG(sc.Seed)
	var wg sync.WaitGroup
	for w := 0; w < sc.Writers; w++ {
		wg.Add(1)
		r := root.Fork()
		go func(w int) {
			defer wg.Done()
			val := make([]byte, sc.ValLen)
			for i := range val {
				val[i] = byte('a' + w)
			}
			for i := 0; i < sc.Ops && !rn.failed(); i++ {
				k := key(r.Intn(600))
				switch r.Pick(80, 8, 12) {
				case 0:
					err, ok := rn.call("Put", func() error { return db.Put(k, val[:1+r.Intn(len(val))], nil) })
					if !ok {
						return
					}
					unexpected("Put", err)
				case 1:
					err, ok := rn.call("Delete", func() error { return db.Delete(k, nil) })
					if !ok {
						return
					}
					unexpected("Delete", err)
				case 2:
					err, ok := rn.call("Get", func() error { _, e := db.Get(k, nil); return e })
					if !ok {
						return
					}
					unexpected("Get", err)
				}
			}
		}(w)
	}
	wg.Wait()
	if rn.failed() {
		return finish("", "")
	}
	// one batch larger than the write buffer (uses a transaction unless disabled); bounded size
	{
		b := new(leveldb.Batch)
		val := make([]byte, sc.ValLen)
		wb := sc.options().GetWriteBuffer()
		if wb > 64<<10 {
			wb = 64 << 10
		}
		for n := 0; n <= wb; n += sc.ValLen + 16 {
			b.Put(key(root.Intn(600)), val)
		}
		err, ok := rn.call("WriteLarge", func() error { return db.Write(b, nil) })
		if !ok {
			return finish("", "")
		}
		unexpected("WriteLarge", err)
	}
	for round := 0; round < 3; round++ {
		err, ok := rn.call("IterScan", func() error {
			it := db.NewIterator(nil, nil)
			n := 0
			for it.Next() {
				n++
			}
			it.Release()
			rn.count("iter_entries", n)
			return it.Error()
		})
		if !ok {
			return finish("", "")
		}
		unexpected("IterScan", err)
	}
	if err, ok := rn.call("CompactRange", func() error { return db.CompactRange(util.Range{}) }); !ok {
		return finish("", "")
	} else {
		unexpected("CompactRange", err)
	}
	// a few more writes after the range compaction (tables now sit in deeper levels)
	for i := 0; i < 50 && !rn.failed(); i++ {
		err, ok := rn.call("Put", func() error { return db.Put(key(root.Intn(600)), make([]byte, sc.ValLen), nil) })
		if !ok {
			return finish("", "")
		}
		unexpected("Put", err)
	}
	// ---- the background must go quiet: a 300 ms window without a storage operation
	quiet := false
	deadline := time.Now().Add(rn.timeout)
	var lastOps, windows int
	for time.Now().Before(deadline) {
		n0 := vs.OpCount()
		time.Sleep(300 * time.Millisecond)
		n1 := vs.OpCount()
		windows++
		lastOps = n1 - n0
		if lastOps == 0 {
			quiet = true
			break
		}
	}
	rn.count("quiesce_windows", windows)
	rn.count("tables_at_end", len(listTables(vs)))
	if !quiet && !rn.failed() {
		lv := ""
		if s, e := db.GetProperty("leveldb.stats"); e == nil {
			lines := strings.Split(strings.TrimSpace(s), "\n")
			if len(lines) > 6 {
				lines = append(lines[:3], lines[len(lines)-3:]...)
			}
			lv = strings.Join(lines, " / ")
		}
		rn.setFail("bg-spin", fmt.Sprintf("no client call outstanding, yet the background issued %d storage operations in the last 300 ms window after %v; %s",
			lastOps, rn.timeout, lv))
	}
	if _, ok := rn.call("Close", func() error { return db.Close() }); !ok {
		return finish("", "")
	}
	return finish("works", "")
}

func listTables(vs *vstor.Stor) []int {
	var res []int
	for _, fd := range vs.ListAll() {
		if fd.Type == 4 { // storage.TypeTable
			res = append(res, int(fd.Num))
		}
	}
	return res
}

func optChildMain(path string) {
	b, err := os.ReadFile(path)
	if err != nil {
		os.Exit(3)
	}
	sc := &OptScenario{}
	if err := json.Unmarshal(b, sc); err != nil {
		os.Exit(3)
	}
	out := runOptScenario(sc)
	ob, _ := json.Marshal(out)
	if err := os.WriteFile(path+".res.json", ob, 0o644); err != nil {
		os.Exit(3)
	}
	os.Exit(0)
}

// runOptChild runs one scenario in a child process and classifies a dead child.
func runOptChild(self, dir string, sc *OptScenario) *OptOutcome {
	path := filepath.Join(dir, fmt.Sprintf("optsc_%d.json", sc.ID))
	b, _ := json.Marshal(sc)
	os.WriteFile(path, b, 0o644)
	defer os.Remove(path)
	defer os.Remove(path + ".res.json")
	cmd := exec.Command(self, "--out", dir, "--extra", "optchild="+path)
	cmd.Env = append(os.Environ(), "GOTRACEBACK=single")
	var tail tailBuf
	cmd.Stdout = &tail
	cmd.Stderr = &tail
	if err := cmd.Start(); err != nil {
		return &OptOutcome{Class: "harness", Detail: "cannot start child: " + err.Error()}
	}
	done := make(chan error, 1)
	go func() { done <- cmd.Wait() }()
	limit := time.Duration(sc.TimeoutMs)*time.Millisecond*4 + 60*time.Second
	select {
	case werr := <-done:
		rb, rerr := os.ReadFile(path + ".res.json")
		if rerr != nil {
			t := tail.String()
			if i := strings.Index(t, "panic:"); i >= 0 {
				return &OptOutcome{Class: "panic", Detail: "the process died: " + headLines(t[i:], 14)}
			}
			if i := strings.Index(t, "fatal error:"); i >= 0 {
				return &OptOutcome{Class: "panic", Detail: "the process died: " + headLines(t[i:], 14)}
			}
			return &OptOutcome{Class: "harness", Detail: fmt.Sprintf("child ended without a result (%v): %s", werr, headLines(t, 10))}
		}
		out := &OptOutcome{}
		if jerr := json.Unmarshal(rb, out); jerr != nil {
			return &OptOutcome{Class: "harness", Detail: "child result unreadable"}
		}
		return out
	case <-time.After(limit):
		cmd.Process.Kill()
		<-done
		return &OptOutcome{Class: "harness", Detail: "child did not finish (its watchdog did not fire)"}
	}
}

func headLines(s string, n int) string {
	lines := strings.Split(s, "\n")
	if len(lines) > n {
		lines = lines[:n]
	}
	r := strings.Join(lines, " | ")
	if len(r) > 1500 {
		r = r[:1500]
	}
	return r
}

func allowed(sc *OptScenario, class string) bool {
	for _, a := range sc.Allowed {
		if a == class {
			return true
		}
	}
	return false
}
