// batch.go — property C01, write path: the batch codec (leveldb/batch.go) and the memdb-insertion half of
// DB.Write / journal recovery against the Coq model Codec/Batch.v (evaluator Corr/C01BatchRun.v).
//
// (P) oracles on the implementation, each with a replayable case:
//   enc      Batch.Put/Delete -> Dump() equals an independent reference encoder; Load(Dump()) + Replay returns
//            the records; Len / internalLen as documented
//   load     Batch.Load on arbitrary / truncated / bit-flipped bytes and on length fields of 2^63 and more (the
//            inputs of the repaired defect batch-load-huge-varint): records-or-error equals an independent
//            reference decoder of the FORMAT, never a panic, never a loop that does not advance
//   journal  concurrent writers on a real DB (write merge on): every record of the journal file has a header
//            whose count is the number of records in its body, the records partition 1..db.seq in order, the
//            body holds exactly the entries that got those sequence numbers, a writer's batch stays contiguous
//            and in order; reopen loses nothing
//   mem      Batch.putMem inserts (key_i, seq+i, kind_i, value_i); decodeBatchToMem of the journal record of a
//            group leaves the memdb byte-identical to putMem of the group's batches; a record older than the
//            expected sequence number is rejected; damage is reported
// (K) cases: KBEnc, KBLoad, KBGroup, KBJournal, KBMem (see Corr/C01BatchRun.v).
package main

import (
	"bytes"
	"encoding/binary"
	"encoding/json"
	"fmt"
	"io"
	"os"
	"path/filepath"
	"runtime"
	"sort"
	"strings"
	"sync"
	"time"

	"github.com/syndtr/goleveldb/leveldb"
	"github.com/syndtr/goleveldb/leveldb/journal"
	"github.com/syndtr/goleveldb/leveldb/memdb"
	"github.com/syndtr/goleveldb/leveldb/opt"
	"github.com/syndtr/goleveldb/leveldb/storage"
	"verifharness/lib/vlib"
	"verifharness/lib/vstor"
)

const (
	ktDel = 0
	ktVal = 1

	xHeader    = "From GL Require Import Corr.C01Run."
	xFileChars = 90000 // text per case file (coqc parses string literals slowly)

)

type bRec struct {
	Kt uint   `json:"kt"`
	K  []byte `json:"k"`
	V  []byte `json:"v"`
}

// batchCase is the replayable form of every (P) case of this file.
type batchCase struct {
	BatchKind string     `json:"batch_kind"` // enc | load | journal | mem
	Recs      []bRec     `json:"recs,omitempty"`
	Data      []byte     `json:"data,omitempty"`
	Seed      uint64     `json:"seed,omitempty"`
	Writers   int        `json:"writers,omitempty"`
	PerWriter int        `json:"per_writer,omitempty"`
	Cmp       int        `json:"cmp,omitempty"`
	Steps     []memStep  `json:"steps,omitempty"`
	Groups    [][][]bRec `json:"groups,omitempty"`
}

type memStep struct {
	Op     string   `json:"op"` // putmem | group | tomem
	Recs   []bRec   `json:"recs,omitempty"`
	Groups [][]bRec `json:"groups,omitempty"`
	Seq    uint64   `json:"seq"`              // putmem: seq ; group: db.seq before ; tomem: expected seq
	Data   []byte   `json:"data,omitempty"`   // tomem: the record
	Intact bool     `json:"intact,omitempty"` // tomem: data is an undamaged group record of Groups with first seq HSeq
	HSeq   uint64   `json:"hseq,omitempty"`
}

// ---------------------------------------------------------------- rendering

func coqSegs(b []byte) string {
	var parts []string
	start := 0
	flush := func(end int) {
		if end > start {
			parts = append(parts, "BX "+vlib.CoqHex(b[start:end]))
		}
	}
	for i := 0; i < len(b); {
		j := i
		for j < len(b) && b[j] == b[i] {
			j++
		}
		if j-i >= 24 {
			flush(i)
			parts = append(parts, fmt.Sprintf("BR %d %d", b[i], j-i))
			start = j
		}
		i = j
	}
	flush(len(b))
	return "[" + strings.Join(parts, "; ") + "]"
}

func coqZ(n int) string {
	if n < 0 {
		return fmt.Sprintf("(%d)", n)
	}
	return fmt.Sprintf("%d", n)
}

func coqRec(r bRec) string { return fmt.Sprintf("KR %d %s %s", r.Kt, coqSegs(r.K), coqSegs(r.V)) }

func coqRecs(rs []bRec) string {
	s := make([]string, len(rs))
	for i, r := range rs {
		s[i] = coqRec(r)
	}
	return "[" + strings.Join(s, "; ") + "]"
}

func coqGroups(gs [][]bRec) string {
	s := make([]string, len(gs))
	for i, g := range gs {
		s[i] = coqRecs(g)
	}
	return "[" + strings.Join(s, "; ") + "]"
}

func coqIdx(ix []leveldb.VerifBatchIndexEntry) string {
	s := make([]string, len(ix))
	for i, x := range ix {
		s[i] = fmt.Sprintf("KI %d %s %s %s %s", x.KeyType, coqZ(x.KeyPos), coqZ(x.KeyLen), coqZ(x.ValuePos), coqZ(x.ValueLen))
	}
	return "[" + strings.Join(s, "; ") + "]"
}

func coqNums(xs []int) string {
	s := make([]string, len(xs))
	for i, x := range xs {
		s[i] = fmt.Sprintf("%d", x)
	}
	return "[" + strings.Join(s, ";") + "]"
}

func coqDump(d memdb.VerifDump) string {
	return fmt.Sprintf("SDump (KMD %s %s %d %s %s)", coqNums(d.NodeData), coqSegs(d.KvData), d.MaxHeight, coqZ(d.N), coqZ(d.KvSize))
}

// ---------------------------------------------------------------- reference encoder / decoder (format level)

func refEncode(rs []bRec) []byte {
	var out []byte
	var tmp [binary.MaxVarintLen64]byte
	for _, r := range rs {
		out = append(out, byte(r.Kt))
		n := binary.PutUvarint(tmp[:], uint64(len(r.K)))
		out = append(out, tmp[:n]...)
		out = append(out, r.K...)
		if r.Kt == ktVal {
			n = binary.PutUvarint(tmp[:], uint64(len(r.V)))
			out = append(out, tmp[:n]...)
			out = append(out, r.V...)
		}
	}
	return out
}

// refDecode reads the documented format with unbounded arithmetic: records, or (code, arg) of the first
// error; huge reports that a length field of 2^62 or more was met (where a 64-bit int offset can wrap).
func refDecode(data []byte) (rs []bRec, code, arg int, huge bool) {
	o := 0
	for o < len(data) {
		kt := data[o]
		if kt > ktVal {
			return rs, 1, int(kt), huge
		}
		o++
		x, n := binary.Uvarint(data[o:])
		if n <= 0 {
			return rs, 2, 0, huge
		}
		o += n
		if x >= 1<<62 {
			huge = true
		}
		if x > uint64(len(data)-o) {
			return rs, 2, 0, huge
		}
		r := bRec{Kt: uint(kt), K: data[o : o+int(x)]}
		o += int(x)
		if kt == ktVal {
			y, m := binary.Uvarint(data[o:])
			if m <= 0 {
				return rs, 3, 0, huge
			}
			o += m
			if y >= 1<<62 {
				huge = true
			}
			if y > uint64(len(data)-o) {
				return rs, 3, 0, huge
			}
			r.V = data[o : o+int(y)]
			o += int(y)
		}
		rs = append(rs, r)
	}
	return rs, 0, 0, huge
}

func errCode(err error) (code, arg int, ok bool) {
	reason, isb := leveldb.VerifBatchCorruptedReason(err)
	if !isb {
		return 0, 0, false
	}
	switch {
	case strings.HasPrefix(reason, "bad record: invalid type "):
		var x uint
		fmt.Sscanf(strings.TrimPrefix(reason, "bad record: invalid type "), "%v", &x)
		return 1, int(x), true
	case reason == "bad record: invalid key length":
		return 2, 0, true
	case reason == "bad record: invalid value length":
		return 3, 0, true
	case reason == "too short":
		return 4, 0, true
	case reason == "invalid sequence number":
		return 5, 0, true
	case reason == "invalid records length":
		return 6, 0, true
	case strings.HasPrefix(reason, "invalid records length: "):
		return 7, 0, true
	}
	return 0, 0, false
}

type collector struct{ rs []bRec }

func (c *collector) Put(k, v []byte) {
	c.rs = append(c.rs, bRec{ktVal, append([]byte{}, k...), append([]byte{}, v...)})
}
func (c *collector) Delete(k []byte) { c.rs = append(c.rs, bRec{ktDel, append([]byte{}, k...), nil}) }

func recsEqual(a, b []bRec) bool {
	if len(a) != len(b) {
		return false
	}
	for i := range a {
		if a[i].Kt != b[i].Kt || !bytes.Equal(a[i].K, b[i].K) || !bytes.Equal(a[i].V, b[i].V) {
			return false
		}
	}
	return true
}

func normRecs(rs []bRec) []bRec {
	out := make([]bRec, len(rs))
	for i, r := range rs {
		out[i] = r
		if r.Kt != ktVal {
			out[i].V = nil
		}
	}
	return out
}

func buildBatch(rs []bRec) *leveldb.Batch {
	b := new(leveldb.Batch)
	for _, r := range rs {
		if r.Kt == ktVal {
			b.Put(r.K, r.V)
		} else {
			b.Delete(r.K)
		}
	}
	return b
}

// guarded runs f, turning a panic into a description
func guarded(f func()) (pan string) {
	defer func() {
		if r := recover(); r != nil {
			pan = fmt.Sprint(r)
		}
	}()
	f()
	return ""
}

// ---------------------------------------------------------------- generators

var lenBoundaries = []int{127, 128, 129, 16383, 16384, 16385}

func genBytes(r *vlib.RNG, allowBig bool) []byte {
	switch r.Pick(3, 3, 8, 3, 3, 2) {
	case 0:
		return []byte{}
	case 1:
		return []byte{byte(r.Uint64())}
	case 2:
		return r.Bytes(r.Range(1, 14), nil)
	case 3:
		return bytes.Repeat([]byte{0xff}, r.Range(1, 40))
	case 4:
		return r.Bytes(r.Range(1, 10), []byte{0x00, 0x7f, 0x80, 0xff, 0x01})
	}
	n := lenBoundaries[r.Intn(3)]
	if allowBig && r.Chance(1, 2) {
		n = lenBoundaries[3+r.Intn(3)]
	}
	fill := []byte{0xff, 0x00, 0x80, byte(r.Uint64())}[r.Intn(4)]
	b := bytes.Repeat([]byte{fill}, n)
	// a few distinguishing bytes at both ends (not breaking the length)
	for i := 0; i < 3 && i < n; i++ {
		if r.Bool() {
			b[i] = byte(r.Uint64())
		}
		if r.Bool() {
			b[n-1-i] = byte(r.Uint64())
		}
	}
	return b
}

func genRecs(r *vlib.RNG, n int, allowBig bool) []bRec {
	rs := make([]bRec, n)
	bigs := 0
	for i := range rs {
		k := genBytes(r, allowBig && bigs < 2)
		if len(k) > 1000 {
			bigs++
		}
		if r.Chance(1, 3) {
			rs[i] = bRec{ktDel, k, nil}
		} else {
			v := genBytes(r, allowBig && bigs < 2)
			if len(v) > 1000 {
				bigs++
			}
			rs[i] = bRec{ktVal, k, v}
		}
	}
	return rs
}

// small distinct-ish keys for memdb programs
func genSmallRecs(r *vlib.RNG, n int) []bRec {
	rs := make([]bRec, n)
	for i := range rs {
		var k []byte
		switch r.Pick(1, 6, 2, 1) {
		case 0:
			k = []byte{}
		case 1:
			k = r.Bytes(r.Range(1, 3), []byte("abcd\xff\x00"))
		case 2:
			k = bytes.Repeat([]byte{0xff}, r.Range(1, 9))
		default:
			k = r.Bytes(r.Range(4, 40), nil)
		}
		if r.Chance(1, 3) {
			rs[i] = bRec{ktDel, k, nil}
		} else {
			var v []byte
			switch r.Pick(2, 5, 1) {
			case 0:
				v = []byte{}
			case 1:
				v = r.Bytes(r.Range(1, 12), nil)
			default:
				v = bytes.Repeat([]byte{byte(r.Uint64())}, r.Range(100, 300))
			}
			rs[i] = bRec{ktVal, k, v}
		}
	}
	return rs
}

// ---------------------------------------------------------------- enc

func checkEnc(rs []bRec) (fail string, kcase string) {
	var b *leveldb.Batch
	if p := guarded(func() { b = buildBatch(rs) }); p != "" {
		return "Batch.Put/Delete panicked: " + p, ""
	}
	dump := append([]byte{}, b.Dump()...)
	il := 0
	for _, r := range normRecs(rs) {
		il += len(r.K) + len(r.V) + 8
	}
	kcase = fmt.Sprintf("KBEnc %s %s %d %s %s", coqRecs(rs), coqSegs(dump), b.Len(), coqZ(leveldb.VerifBatchInternalLen(b)), coqIdx(leveldb.VerifBatchIndex(b)))
	want := refEncode(rs)
	if !bytes.Equal(dump, want) {
		return fmt.Sprintf("Batch.Dump() differs from the documented encoding (kind, uvarint key length, key[, uvarint value length, value]) of %d records: got %d bytes %.40x.. want %d bytes %.40x..", len(rs), len(dump), dump, len(want), want), kcase
	}
	if b.Len() != len(rs) {
		return fmt.Sprintf("Batch.Len() = %d after %d Put/Delete calls", b.Len(), len(rs)), kcase
	}
	if got := leveldb.VerifBatchInternalLen(b); got != il {
		return fmt.Sprintf("internalLen = %d, want %d", got, il), kcase
	}
	b2 := new(leveldb.Batch)
	var c collector
	var lerr, rerr error
	if p := guarded(func() { lerr = b2.Load(dump); rerr = b2.Replay(&c) }); p != "" {
		return "Load/Replay of a Dump panicked: " + p, kcase
	}
	if lerr != nil || rerr != nil {
		return fmt.Sprintf("Load(Dump()) = %v, Replay = %v", lerr, rerr), kcase
	}
	if !recsEqual(c.rs, normRecs(rs)) {
		return fmt.Sprintf("Load(Dump()) replays %d records that differ from the %d written", len(c.rs), len(rs)), kcase
	}
	ia, ib := leveldb.VerifBatchIndex(b), leveldb.VerifBatchIndex(b2)
	if len(ia) != len(ib) || leveldb.VerifBatchInternalLen(b2) != il {
		return "Load(Dump()) rebuilds a different index / internalLen", kcase
	}
	for i := range ia {
		if ia[i] != ib[i] {
			return fmt.Sprintf("Load(Dump()) rebuilds a different index entry %d: %v vs %v", i, ib[i], ia[i]), kcase
		}
	}
	// Reset + reuse
	b.Reset()
	if b.Len() != 0 || len(b.Dump()) != 0 || leveldb.VerifBatchInternalLen(b) != 0 {
		return "Reset left records behind", kcase
	}
	return "", kcase
}

// ---------------------------------------------------------------- load

// loadOutcome observes decodeBatch / Batch.Load / Replay on data without ever hanging the caller.
// kind: ok | err | panic | hang
type loadObs struct {
	kind      string
	code, arg int
	n, ilen   int
	idx       []leveldb.VerifBatchIndexEntry
	ops       []bRec
	replayPan bool
	pan       string
}

func observeLoad(data []byte) (o loadObs) {
	var idx []leveldb.VerifBatchIndexEntry
	var err error
	var looped bool
	if p := guarded(func() { idx, err, looped = leveldb.VerifDecodeBatch(data, len(data)+1) }); p != "" {
		o.kind, o.pan = "panic", p
		return
	}
	if looped {
		o.kind = "hang"
		return
	}
	b := new(leveldb.Batch)
	var lerr error
	if p := guarded(func() { lerr = b.Load(data) }); p != "" {
		o.kind, o.pan = "panic", "Batch.Load: "+p
		return
	}
	if (lerr == nil) != (err == nil) {
		o.kind, o.pan = "panic", fmt.Sprintf("Batch.Load = %v but decodeBatch = %v", lerr, err)
		return
	}
	if lerr != nil {
		c, a, ok := errCode(lerr)
		if !ok {
			o.kind, o.pan = "panic", "unclassified error "+lerr.Error()
			return
		}
		o.kind, o.code, o.arg = "err", c, a
		return
	}
	o.kind = "ok"
	o.n, o.ilen, o.idx = b.Len(), leveldb.VerifBatchInternalLen(b), idx
	var c collector
	if p := guarded(func() { b.Replay(&c) }); p != "" {
		o.replayPan = true
	} else {
		o.ops = c.rs
	}
	return
}

func (o loadObs) coq() string {
	switch o.kind {
	case "ok":
		ops := "None"
		if !o.replayPan {
			ops = "(Some " + coqRecs(o.ops) + ")"
		}
		return fmt.Sprintf("(KOk %d %s %s %s)", o.n, coqZ(o.ilen), coqIdx(o.idx), ops)
	case "err":
		return fmt.Sprintf("(KErr %d %d)", o.code, o.arg)
	case "panic":
		return "KPanic"
	}
	return "KHang"
}

// checkLoad: (P) against the reference decoder.  huge = a length field of 2^62 or more occurs (distribution only).
func checkLoad(data []byte) (fail string, huge bool, kcase string) {
	o := observeLoad(data)
	rs, code, arg, huge := refDecode(data)
	kcase = fmt.Sprintf("KBLoad %s %s", coqSegs(data), o.coq())
	switch o.kind {
	case "panic":
		return fmt.Sprintf("Batch.Load panics on %d bytes %x: %s", len(data), clip(data), o.pan), huge, kcase
	case "hang":
		return fmt.Sprintf("Batch.Load does not terminate on %d bytes %x (decodeBatch delivered more records than there are bytes; the offset stopped advancing)", len(data), clip(data)), huge, kcase
	case "err":
		if code == 0 {
			return fmt.Sprintf("Batch.Load rejects a well-formed batch of %d records (reason code %d) %x", len(rs), o.code, clip(data)), huge, kcase
		}
		if code != o.code || (code == 1 && arg != o.arg) {
			return fmt.Sprintf("Batch.Load reports reason %d/%d, the format's first defect is %d/%d, on %x", o.code, o.arg, code, arg, clip(data)), huge, kcase
		}
	case "ok":
		if code != 0 {
			return fmt.Sprintf("Batch.Load accepts damaged bytes (format defect %d) %x", code, clip(data)), huge, kcase
		}
		if o.replayPan {
			return fmt.Sprintf("Replay panics after a successful Load of %x", clip(data)), huge, kcase
		}
		if !recsEqual(o.ops, normRecs(rs)) || o.n != len(rs) {
			return fmt.Sprintf("Load+Replay of %x yields %d records that differ from the %d encoded", clip(data), len(o.ops), len(rs)), huge, kcase
		}
	}
	return "", huge, kcase
}

func clip(b []byte) []byte {
	if len(b) > 48 {
		return b[:48]
	}
	return b
}

// length fields that wrapped the int offset before fix d912a49 (defect batch-load-huge-varint): the decoder must
// report the corruption error on them
var hugeVarintInputs = [][]byte{
	{0x00, 0xf5, 0xff, 0xff, 0xff, 0xff, 0xff, 0xff, 0xff, 0xff, 0x01},       // key length 2^64-11: the offset returns to the record start
	{0x00, 0xff, 0xff, 0xff, 0xff, 0xff, 0xff, 0xff, 0xff, 0x7f},             // key length 2^63-1: o+int(x) overflows
	{0x01, 0x80, 0x80, 0x80, 0x80, 0x80, 0x80, 0x80, 0x80, 0x80, 0x01},       // value record, key length 2^63
	{0x01, 0x01, 0x61, 0x80, 0x80, 0x80, 0x80, 0x80, 0x80, 0x80, 0x80, 0x80, 0x01}, // value length 2^63
	{0x00, 0xfe, 0xff, 0xff, 0xff, 0xff, 0xff, 0xff, 0xff, 0xff, 0x01, 0x00, 0x00}, // key length -2: re-reads from inside the varint
}

func genLoadInput(r *vlib.RNG) []byte {
	base := refEncode(genRecs(r, r.Range(1, 5), false))
	switch r.Pick(2, 4, 4, 2, 2, 1) {
	case 0: // arbitrary
		return r.Bytes(r.Range(0, 24), []byte{0, 1, 2, 0x7f, 0x80, 0xff, 3, 0x10})
	case 1: // truncated
		if len(base) == 0 {
			return base
		}
		return base[:r.Intn(len(base))]
	case 2: // bit flip
		if len(base) == 0 {
			return base
		}
		b := append([]byte{}, base...)
		b[r.Intn(len(b))] ^= 1 << uint(r.Intn(8))
		return b
	case 3: // garbage appended
		return append(append([]byte{}, base...), r.Bytes(r.Range(1, 6), nil)...)
	case 4: // byte replaced
		if len(base) == 0 {
			return base
		}
		b := append([]byte{}, base...)
		b[r.Intn(len(b))] = []byte{0, 1, 2, 0x80, 0xff}[r.Intn(5)]
		return b
	}
	// long varints below 2^62
	var tmp [binary.MaxVarintLen64]byte
	n := binary.PutUvarint(tmp[:], r.Uint64()>>uint(2+r.Intn(40)))
	return append([]byte{byte(r.Intn(2))}, tmp[:n]...)
}

// ---------------------------------------------------------------- journal (real DB, merged concurrent writes)

type jwrite struct {
	writer, op int
	recs       []bRec
	sync       bool
}

func journalRecords(data []byte) (recs [][]byte, err error) {
	jr := journal.NewReader(bytes.NewReader(data), nil, true, true)
	for {
		r, e := jr.Next()
		if e == io.EOF {
			return recs, nil
		}
		if e != nil {
			return recs, e
		}
		b, e := io.ReadAll(r)
		if e != nil {
			return recs, e
		}
		recs = append(recs, b)
	}
}

// runJournal: writers concurrent goroutines issue Put / Delete / Write(batch) with keys unique per record.
func runJournal(seed uint64, writers, perWriter int) (fail string, kcases []string, merged, nrec int) {
	r := vlib.NewRNG(seed)
	plan := make([][]jwrite, writers)
	for w := range plan {
		for i := 0; i < perWriter; i++ {
			n := 1
			if r.Chance(1, 3) {
				n = r.Range(2, 4)
			}
			rs := make([]bRec, n)
			for j := range rs {
				k := []byte(fmt.Sprintf("w%02d-%03d-%d", w, i, j))
				if r.Chance(1, 8) {
					k = append(k, bytes.Repeat([]byte{0xff}, r.Range(1, 140))...)
				}
				if r.Chance(1, 4) {
					rs[j] = bRec{ktDel, k, nil}
				} else {
					rs[j] = bRec{ktVal, k, r.Bytes(r.Range(0, 20), nil)}
				}
			}
			plan[w] = append(plan[w], jwrite{w, i, rs, r.Chance(1, 4)})
		}
	}
	stor := vstor.New(false)
	db, err := leveldb.Open(stor, &opt.Options{WriteBuffer: 32 << 20})
	if err != nil {
		return "open: " + err.Error(), nil, 0, 0
	}
	closed := false
	defer func() {
		if !closed {
			db.Close()
		}
	}()
	var wg sync.WaitGroup
	errs := make(chan string, writers)
	start := make(chan struct{})
	for w := 0; w < writers; w++ {
		wg.Add(1)
		go func(w int) {
			defer wg.Done()
			<-start
			for _, jw := range plan[w] {
				wo := &opt.WriteOptions{Sync: jw.sync}
				var e error
				if len(jw.recs) == 1 && jw.op%2 == 0 {
					if jw.recs[0].Kt == ktVal {
						e = db.Put(jw.recs[0].K, jw.recs[0].V, wo)
					} else {
						e = db.Delete(jw.recs[0].K, wo)
					}
				} else {
					e = db.Write(buildBatch(jw.recs), wo)
				}
				if e != nil {
					errs <- fmt.Sprintf("writer %d op %d: %v", w, jw.op, e)
					return
				}
				if jw.op%3 == 0 {
					runtime.Gosched()
				}
			}
		}(w)
	}
	close(start)
	done := make(chan struct{})
	go func() { wg.Wait(); close(done) }()
	select {
	case <-done:
	case <-time.After(60 * time.Second):
		return "concurrent writers did not finish within 60 s", nil, 0, 0
	}
	select {
	case e := <-errs:
		return e, nil, 0, 0
	default:
	}
	lastSeq := leveldb.VerifSeq(db)
	live, _, _ := leveldb.VerifMemEntries(db)
	total := 0
	for _, p := range plan {
		for _, jw := range p {
			total += len(jw.recs)
		}
	}
	if int(lastSeq) != total || len(live) != total {
		return fmt.Sprintf("%d records written, db.seq = %d, write buffer holds %d entries", total, lastSeq, len(live)), nil, 0, 0
	}
	bySeq := make([]leveldb.VerifEntry, total+1)
	for _, e := range live {
		if e.Seq < 1 || int(e.Seq) > total || bySeq[e.Seq].Ukey != nil {
			return fmt.Sprintf("write buffer entry with sequence number %d (records 1..%d expected once each)", e.Seq, total), nil, 0, 0
		}
		bySeq[e.Seq] = e
	}
	// a writer's batch: contiguous sequence numbers in batch order
	seqOf := map[string]uint64{}
	for _, e := range live {
		seqOf[string(e.Ukey)] = e.Seq
	}
	for _, p := range plan {
		for _, jw := range p {
			s0 := seqOf[string(jw.recs[0].K)]
			for j, rc := range jw.recs {
				e := bySeq[s0+uint64(j)]
				if s0 == 0 || !bytes.Equal(e.Ukey, rc.K) || e.Kind != rc.Kt || !bytes.Equal(e.Value, rc.V) {
					return fmt.Sprintf("writer %d op %d: record %d of its batch is not stored at sequence number %d+%d with its kind and value", jw.writer, jw.op, j, s0, j), nil, 0, 0
				}
			}
		}
	}
	// the journal file
	jfds, _ := stor.List(storage.TypeJournal)
	if len(jfds) != 1 {
		return fmt.Sprintf("%d journal files", len(jfds)), nil, 0, 0
	}
	jdata, _, ok := stor.FileBytes(jfds[0])
	if !ok {
		return "journal file unreadable", nil, 0, 0
	}
	records, jerr := journalRecords(jdata)
	if jerr != nil {
		return "journal reader: " + jerr.Error(), nil, 0, 0
	}
	next := uint64(1)
	maxIssued := 0
	for _, p := range plan {
		for _, jw := range p {
			if len(jw.recs) > maxIssued {
				maxIssued = len(jw.recs)
			}
		}
	}
	for i, rec := range records {
		if len(rec) < leveldb.VerifBatchHeaderLen {
			return fmt.Sprintf("journal record %d has %d bytes", i, len(rec)), kcases, merged, i
		}
		seq := binary.LittleEndian.Uint64(rec)
		cnt := int(binary.LittleEndian.Uint32(rec[8:]))
		body, code, _, _ := refDecode(rec[12:])
		// what the writers issued for the sequence numbers this record starts at: as many entries as the body
		// holds records (the header count is what is being checked)
		var want []bRec
		for j := 0; j < len(body) && int(next)+j <= total; j++ {
			e := bySeq[next+uint64(j)]
			want = append(want, bRec{e.Kind, e.Ukey, e.Value})
		}
		if len(kcases) < 12 && (len(body) > 1 || i%7 == 0) {
			kcases = append(kcases, fmt.Sprintf("KBJournal %s %d %d %s", coqSegs(rec), next, len(want), coqRecs(want)))
		}
		if code != 0 {
			return fmt.Sprintf("journal record %d: body does not decode (format defect %d)", i, code), kcases, merged, i
		}
		if seq != next {
			return fmt.Sprintf("journal record %d starts at sequence number %d, the previous records end at %d", i, seq, next-1), kcases, merged, i
		}
		if cnt != len(body) {
			return fmt.Sprintf("journal record %d (first seq %d): header count %d but the body holds %d records", i, seq, cnt, len(body)), kcases, merged, i
		}
		if int(seq)+cnt-1 > total {
			return fmt.Sprintf("journal record %d covers sequence numbers up to %d, only %d were issued", i, int(seq)+cnt-1, total), kcases, merged, i
		}
		if !recsEqual(body, normRecs(want)) {
			return fmt.Sprintf("journal record %d (first seq %d, count %d) does not hold the records that were given these sequence numbers", i, seq, cnt), kcases, merged, i
		}
		// the implementation's own decoder on the real record: into a fresh memdb
		mdb := leveldb.VerifNewIMemDB(vlib.ComparerByID(0), 1<<16)
		var dseq uint64
		var dn int
		var derr error
		if p := guarded(func() { dseq, dn, derr = leveldb.VerifDecodeBatchToMem(rec, seq, mdb) }); p != "" || derr != nil || dseq != seq || dn != cnt || mdb.Len() != cnt {
			return fmt.Sprintf("decodeBatchToMem of journal record %d: seq %d count %d err %v panic %q, memdb holds %d", i, dseq, dn, derr, p, mdb.Len()), kcases, merged, i
		}
		next = seq + uint64(cnt)
		if cnt > maxIssued || (cnt > 1 && !oneIssuedBatch(plan, want)) {
			merged++
		}
	}
	nrec = len(records)
	if next != uint64(total)+1 {
		return fmt.Sprintf("the journal's records end at sequence number %d, %d records were acknowledged", next-1, total), nil, 0, 0
	}
	// reopen: nothing acknowledged is lost
	closed = true
	if err := db.Close(); err != nil {
		return "close: " + err.Error(), nil, 0, 0
	}
	db2, err := leveldb.Open(stor, &opt.Options{WriteBuffer: 32 << 20})
	if err != nil {
		return "reopen after merged writes: " + err.Error(), nil, 0, 0
	}
	defer db2.Close()
	for _, p := range plan {
		for _, jw := range p {
			for _, rc := range jw.recs {
				v, e := db2.Get(rc.K, nil)
				if rc.Kt == ktVal && (e != nil || !bytes.Equal(v, rc.V)) {
					return fmt.Sprintf("after reopen Get(%q) = %x, %v; acknowledged value %x", rc.K, clip(v), e, clip(rc.V)), nil, 0, 0
				}
				if rc.Kt == ktDel && e != leveldb.ErrNotFound {
					return fmt.Sprintf("after reopen Get(%q) of a deleted key = %v", rc.K, e), nil, 0, 0
				}
			}
		}
	}
	return "", kcases, merged, nrec
}

func oneIssuedBatch(plan [][]jwrite, want []bRec) bool {
	for _, p := range plan {
		for _, jw := range p {
			if len(jw.recs) == len(want) && bytes.Equal(jw.recs[0].K, want[0].K) {
				return true
			}
		}
	}
	return false
}

// ---------------------------------------------------------------- mem programs

func ikeyID(k []byte, seq uint64, kt uint) string {
	return fmt.Sprintf("%x/%d/%d", k, seq, kt)
}

// newHeights parses the nodes allocated since nodeData had length from: [kv offset, key len, val len, height, next...]
func newHeights(nd []int, from int) (hs []int) {
	for i := from; i+3 < len(nd); {
		h := nd[i+3]
		if h < 1 {
			break
		}
		hs = append(hs, h)
		i += 4 + h
	}
	return
}

func dumpsEqual(a, b memdb.VerifDump) bool {
	if len(a.NodeData) != len(b.NodeData) || !bytes.Equal(a.KvData, b.KvData) || a.MaxHeight != b.MaxHeight || a.N != b.N || a.KvSize != b.KvSize {
		return false
	}
	for i := range a.NodeData {
		if a.NodeData[i] != b.NodeData[i] {
			return false
		}
	}
	return true
}

type memEntry struct {
	k   []byte
	seq uint64
	kt  uint
	v   []byte
}

// memContents lists the memdb in iteration order, parsed
func memContents(m *memdb.DB) (es []memEntry) {
	it := m.NewIterator(nil)
	defer it.Release()
	for it.Next() {
		ik := it.Key()
		if len(ik) < 8 {
			continue
		}
		num := binary.LittleEndian.Uint64(ik[len(ik)-8:])
		es = append(es, memEntry{append([]byte{}, ik[:len(ik)-8]...), num >> 8, uint(num & 0xff), append([]byte{}, it.Value()...)})
	}
	return
}

// runMemProgram runs the steps on a fresh memdb.  The (K) text of every executed step is rendered from what
// the implementation did, whether or not the (P) oracle accepts it (the first failure ends the program).
func runMemProgram(cmpID int, steps []memStep, render bool) (fail string, kcase string) {
	ucmp := vlib.ComparerByID(cmpID)
	mdb := leveldb.VerifNewIMemDB(ucmp, 1<<12)
	want := map[string][]byte{}
	var ktext []string
	prevLen := len(mdb.VerifDump().NodeData)
	heightsSince := func(d memdb.VerifDump) []int {
		hs := newHeights(d.NodeData, prevLen)
		prevLen = len(d.NodeData)
		return hs
	}
	expectPut := func(rs []bRec, seq uint64) {
		for i, r := range normRecs(rs) {
			want[ikeyID(r.K, seq+uint64(i), r.Kt)] = append([]byte{}, r.V...)
		}
	}
	checkContents := func(where string) string {
		es := memContents(mdb)
		if len(es) != len(want) || mdb.Len() != len(want) {
			return fmt.Sprintf("%s: memdb holds %d entries (Len %d), expected %d", where, len(es), mdb.Len(), len(want))
		}
		for _, e := range es {
			v, ok := want[ikeyID(e.k, e.seq, e.kt)]
			if !ok || !bytes.Equal(v, e.v) {
				return fmt.Sprintf("%s: memdb holds (%x, seq %d, kind %d) -> %x which no step inserted with that value", where, clip(e.k), e.seq, e.kt, clip(e.v))
			}
		}
		return ""
	}
	// one step: (K) text, (P) failure, stop = the program cannot continue (panic)
	step := func(si int, st memStep) (kt []string, fail string, stop bool) {
		where := fmt.Sprintf("step %d (%s)", si, st.Op)
		switch st.Op {
		case "putmem":
			b := buildBatch(st.Recs)
			var err error
			if p := guarded(func() { err = leveldb.VerifBatchPutMem(b, st.Seq, mdb) }); p != "" || err != nil {
				return nil, fmt.Sprintf("%s: putMem err %v panic %q", where, err, p), true
			}
			d := mdb.VerifDump()
			kt = []string{fmt.Sprintf("SPutMem %s %d %s", coqRecs(st.Recs), st.Seq, coqNums(heightsSince(d))), coqDump(d)}
			expectPut(st.Recs, st.Seq)
			if f := checkContents(where); f != "" {
				return kt, f + fmt.Sprintf(" [putMem of %d records at seq %d must insert (key_i, seq+i, kind_i, value_i)]", len(st.Recs), st.Seq), false
			}
		case "group":
			var bs []*leveldb.Batch
			var all []bRec
			for _, g := range st.Groups {
				bs = append(bs, buildBatch(g))
				all = append(all, g...)
			}
			seq := st.Seq + 1
			record, werr := leveldb.VerifWriteBatchesWithHeader(bs, seq)
			if werr != nil {
				return nil, where + ": writeBatchesWithHeader: " + werr.Error(), true
			}
			record = append([]byte{}, record...)
			twin, tfail := replayTwin(cmpID, steps[:si])
			if tfail != "" {
				return nil, where + ": " + tfail, true
			}
			// the live path (writeLocked's loop) on mdb
			s := seq
			for _, b := range bs {
				var err error
				if p := guarded(func() { err = leveldb.VerifBatchPutMem(b, s, mdb) }); p != "" || err != nil {
					return nil, fmt.Sprintf("%s: putMem err %v panic %q", where, err, p), true
				}
				s += uint64(b.Len())
			}
			d := mdb.VerifDump()
			kt = []string{fmt.Sprintf("SGroup %s %d %s %s %d", coqGroups(st.Groups), st.Seq, coqNums(heightsSince(d)), coqSegs(record), st.Seq+uint64(len(all))), coqDump(d)}
			if !bytes.Equal(record, groupRecord(st.Groups, seq)) {
				return kt, fmt.Sprintf("%s: writeBatchesWithHeader of %d batches (%d records, first seq %d) does not write header(seq, total count) followed by the batches' records: header %x", where, len(bs), len(all), seq, clip(record)), false
			}
			expectPut(all, seq)
			if f := checkContents(where); f != "" {
				return kt, f, false
			}
			// the replay path on a twin built by the same steps
			var dseq uint64
			var dn int
			var derr error
			if p := guarded(func() { dseq, dn, derr = leveldb.VerifDecodeBatchToMem(record, seq, twin) }); p != "" || derr != nil || dseq != seq || dn != len(all) {
				return kt, fmt.Sprintf("%s: decodeBatchToMem of the group's journal record (expected seq = its first seq %d): seq %d count %d err %v panic %q; want %d records", where, seq, dseq, dn, derr, p, len(all)), false
			}
			if !dumpsEqual(d, twin.VerifDump()) {
				return kt, fmt.Sprintf("%s: replaying the journal record of a group of %d batches into the memdb does not give the memdb that putMem of the batches gave (arrays differ)", where, len(bs)), false
			}
		case "tomem":
			// never hand a body that makes decodeBatch spin to the real decodeBatchToMem
			if len(st.Data) >= 12 {
				var looped bool
				if p := guarded(func() { _, _, looped = leveldb.VerifDecodeBatch(st.Data[12:], len(st.Data)) }); p != "" || looped {
					return nil, "", false
				}
			}
			var dseq uint64
			var dn int
			var derr error
			pan := guarded(func() { dseq, dn, derr = leveldb.VerifDecodeBatchToMem(st.Data, st.Seq, mdb) })
			out := ""
			switch {
			case pan != "":
				return []string{fmt.Sprintf("SToMem %s %d [] KTPanic", coqSegs(st.Data), st.Seq)},
					fmt.Sprintf("%s: decodeBatchToMem panics on a %d-byte record (header %x): %s", where, len(st.Data), clip(st.Data), pan), true
			case derr != nil:
				c, a, ok := errCode(derr)
				if !ok {
					return nil, fmt.Sprintf("%s: unclassified error %v", where, derr), true
				}
				out = fmt.Sprintf("(KTErr %d %d)", c, a)
			default:
				out = fmt.Sprintf("(KTOk %d %d)", dseq, dn)
			}
			d := mdb.VerifDump()
			kt = []string{fmt.Sprintf("SToMem %s %d %s %s", coqSegs(st.Data), st.Seq, coqNums(heightsSince(d)), out), coqDump(d)}
			if len(st.Data) >= 12 {
				const keyMaxSeq = uint64(1)<<56 - 1
				hs, hc := binary.LittleEndian.Uint64(st.Data), uint64(binary.LittleEndian.Uint32(st.Data[8:]))
				if hs >= st.Seq && (hs > keyMaxSeq || hc > keyMaxSeq-hs) {
					if c, _, _ := errCode(derr); derr == nil || c != 5 {
						return kt, fmt.Sprintf("%s: a record whose header (first seq %d, count %d) leaves the range of a key's sequence number is not rejected as 'invalid sequence number': err %v, db.seq would become %d", where, hs, hc, derr, hs+hc), false
					}
				}
			}
			if st.Intact {
				var all []bRec
				for _, g := range st.Groups {
					all = append(all, g...)
				}
				if st.HSeq < st.Seq {
					c, _, _ := errCode(derr)
					if derr == nil || c != 5 {
						return kt, fmt.Sprintf("%s: a journal record with first seq %d replayed when sequence number %d is expected: err %v; must be rejected as 'invalid sequence number'", where, st.HSeq, st.Seq, derr), false
					}
				} else {
					if derr != nil || dseq != st.HSeq || dn != len(all) {
						return kt, fmt.Sprintf("%s: intact record (first seq %d, %d records, expected seq %d): seq %d count %d err %v", where, st.HSeq, len(all), st.Seq, dseq, dn, derr), false
					}
					expectPut(all, st.HSeq)
				}
				if f := checkContents(where); f != "" {
					return kt, f, false
				}
			} else if derr == nil {
				// a damaged record that is accepted must be a well-formed one, and what it inserts is what it encodes
				rs, code, _, _ := refDecode(st.Data[12:])
				if code != 0 {
					return kt, fmt.Sprintf("%s: decodeBatchToMem accepts a record whose body has format defect %d", where, code), false
				}
				if dn != len(rs) || dseq != binary.LittleEndian.Uint64(st.Data) {
					return kt, fmt.Sprintf("%s: decodeBatchToMem accepts a record of %d records with header count %d", where, len(rs), dn), false
				}
				expectPut(rs, dseq)
				if f := checkContents(where); f != "" {
					return kt, f, false
				}
			} else {
				// rejected: the records decoded before the damage was noticed stay inserted (the model must
				// reproduce exactly which); the oracle resynchronises on the memdb's contents
				for k := range want {
					delete(want, k)
				}
				for _, e := range memContents(mdb) {
					want[ikeyID(e.k, e.seq, e.kt)] = e.v
				}
			}
		}
		return kt, "", false
	}
	for si, st := range steps {
		kt, f, stop := step(si, st)
		ktext = append(ktext, kt...)
		if f != "" {
			fail = f
			break
		}
		if stop {
			break
		}
	}
	if render || fail != "" {
		kcase = fmt.Sprintf("KBMem %d [%s]", cmpID, strings.Join(ktext, ";\n  "))
	}
	return fail, kcase
}

// replayTwin builds a second memdb by the same steps (same insertions in the same order: the memdbs' height
// generators are seeded alike, so the arrays are identical)
func replayTwin(cmpID int, steps []memStep) (*memdb.DB, string) {
	mdb := leveldb.VerifNewIMemDB(vlib.ComparerByID(cmpID), 1<<12)
	for _, st := range steps {
		var pan string
		switch st.Op {
		case "putmem":
			pan = guarded(func() { leveldb.VerifBatchPutMem(buildBatch(st.Recs), st.Seq, mdb) })
		case "group":
			s := st.Seq + 1
			for _, g := range st.Groups {
				b := buildBatch(g)
				pan = guarded(func() { leveldb.VerifBatchPutMem(b, s, mdb) })
				s += uint64(b.Len())
			}
		case "tomem":
			if len(st.Data) >= 12 {
				var looped bool
				if p := guarded(func() { _, _, looped = leveldb.VerifDecodeBatch(st.Data[12:], len(st.Data)) }); p != "" || looped {
					continue
				}
			}
			pan = guarded(func() { leveldb.VerifDecodeBatchToMem(st.Data, st.Seq, mdb) })
		}
		if pan != "" {
			return nil, "twin: panic " + pan
		}
	}
	return mdb, ""
}

func groupRecord(groups [][]bRec, seq uint64) []byte {
	var all []bRec
	for _, g := range groups {
		all = append(all, g...)
	}
	hdr := make([]byte, 12)
	binary.LittleEndian.PutUint64(hdr, seq)
	binary.LittleEndian.PutUint32(hdr[8:], uint32(len(all)))
	return append(hdr, refEncode(all)...)
}

func genGroups(r *vlib.RNG) [][]bRec {
	n := r.Range(1, 3)
	gs := make([][]bRec, n)
	for i := range gs {
		gs[i] = genSmallRecs(r, r.Range(1, 3))
	}
	return gs
}

func genMemProgram(r *vlib.RNG) (cmpID int, steps []memStep) {
	cmpID = r.Intn(vlib.NumComparers)
	seq := uint64(r.Intn(5))
	if r.Chance(1, 6) {
		seq = uint64(1)<<uint(r.Range(8, 50)) - uint64(r.Intn(3))
	}
	count := func(gs [][]bRec) (n uint64) {
		for _, g := range gs {
			n += uint64(len(g))
		}
		return
	}
	var lastGroups [][]bRec
	var lastSeq uint64
	nsteps := r.Range(2, 5)
	for i := 0; i < nsteps; i++ {
		switch r.Pick(3, 3, 3, 3, 1) {
		case 0: // putMem of one batch at db.seq+1
			rs := genSmallRecs(r, r.Range(1, 4))
			steps = append(steps, memStep{Op: "putmem", Recs: rs, Seq: seq + 1})
			seq += uint64(len(rs))
		case 1: // a (merged) group, live and replayed
			gs := genGroups(r)
			steps = append(steps, memStep{Op: "group", Groups: gs, Seq: seq})
			lastGroups, lastSeq = gs, seq+1
			seq += count(gs)
		case 2: // replay of an intact record: expected seq below, equal, above its first seq
			gs := genGroups(r)
			hseq := seq + 1 + uint64(r.Intn(3))
			exp := []uint64{seq, hseq, hseq + 1, hseq + uint64(r.Range(1, 1000))}[r.Intn(4)]
			steps = append(steps, memStep{Op: "tomem", Groups: gs, Data: groupRecord(gs, hseq), Seq: exp, Intact: true, HSeq: hseq})
			if hseq >= exp {
				seq = hseq + count(gs) - 1
				lastGroups, lastSeq = gs, hseq
			}
		case 3: // a damaged record
			gs := genGroups(r)
			hseq := seq + 1
			rec := groupRecord(gs, hseq)
			switch r.Pick(3, 3, 2, 2, 1) {
			case 0: // truncated (anywhere, header included)
				rec = rec[:r.Intn(len(rec))]
			case 1: // count too small / too large
				c := int(count(gs)) + []int{-1, 1, 2, 1000}[r.Intn(4)]
				if c < 0 {
					c = 0
				}
				binary.LittleEndian.PutUint32(rec[8:], uint32(c))
			case 2: // bit flip in the body
				if len(rec) > 12 {
					rec[12+r.Intn(len(rec)-12)] ^= 1 << uint(r.Intn(8))
				}
			case 3: // garbage tail
				rec = append(rec, r.Bytes(r.Range(1, 5), []byte{0, 1, 2, 0xff})...)
			case 4: // header sequence numbers that leave the key range: 'invalid sequence number' since the fix
				// (before it: makeInternalKey panicked, or an empty batch pushed db.seq beyond keyMaxSeq)
				switch r.Intn(4) {
				case 0:
					binary.LittleEndian.PutUint64(rec, (uint64(1)<<56)-uint64(r.Intn(2)))
				case 1:
					binary.LittleEndian.PutUint64(rec, ^uint64(0))
				case 2: // empty batch, seq = 2^64-1
					rec = rec[:12]
					binary.LittleEndian.PutUint64(rec, ^uint64(0))
					binary.LittleEndian.PutUint32(rec[8:], 0)
				default: // first seq in range, last one not
					binary.LittleEndian.PutUint64(rec, (uint64(1)<<56)-uint64(count(gs)))
				}
			}
			steps = append(steps, memStep{Op: "tomem", Groups: gs, Data: rec, Seq: seq})
			// whatever was inserted before the damage was noticed stays: later steps use fresh numbers
			seq += count(gs) + 1002
		case 4: // the same record again (journal replayed twice): every Put overwrites in place
			if lastGroups != nil {
				steps = append(steps, memStep{Op: "tomem", Groups: lastGroups, Data: groupRecord(lastGroups, lastSeq), Seq: lastSeq, Intact: true, HSeq: lastSeq})
			}
		}
	}
	return
}

// ---------------------------------------------------------------- driver

type batchResult struct {
	cases []string
}

var batchViolations int

func violateBatch(res *vlib.Result, desc string, bc batchCase) {
	batchViolations++
	res.Violate("batch: "+desc, bc)
}

func runBatchPart(seed uint64, thorough, search bool, res *vlib.Result) []string {
	r := vlib.NewRNG((seed + 0xba7c4) * 0xd1342543de82ef95).Fork() // decorrelated from the neighbouring seeds (NewRNG streams of adjacent seeds are shifts of each other)
	scale := 1
	if thorough || search {
		scale = 10
	}
	var kcases []string
	kcap := map[string]int{"enc": 60, "load": 150, "group": 12, "mem": 60}
	kn := map[string]int{}
	add := func(kind, c string) {
		if c != "" && kn[kind] < kcap[kind] && len(c) < 40000 {
			kn[kind]++
			kcases = append(kcases, c)
			res.Count("batch_k_"+kind, 1)
		}
	}
	// enc: directed shapes first, then random
	directed := [][]bRec{
		{},
		{{ktVal, []byte{}, []byte{}}},
		{{ktDel, []byte{}, nil}},
		{{ktVal, bytes.Repeat([]byte{0xff}, 127), bytes.Repeat([]byte{0xff}, 128)}, {ktDel, bytes.Repeat([]byte{0xff}, 128), nil}},
		{{ktVal, bytes.Repeat([]byte{0x80}, 16383), bytes.Repeat([]byte{0}, 16384)}},
		{{ktDel, bytes.Repeat([]byte{0xff}, 16384), nil}, {ktVal, []byte("k"), bytes.Repeat([]byte{1}, 16385)}},
	}
	nenc := 300 * scale
	for i := 0; i < nenc; i++ {
		var rs []bRec
		if i < len(directed) {
			rs = directed[i]
		} else {
			rs = genRecs(r, r.Range(0, 6), i%5 == 0)
		}
		fail, kc := checkEnc(rs)
		res.Count("batch_enc_cases", 1)
		for _, x := range rs {
			if len(x.K) == 0 {
				res.Count("batch_enc_empty_keys", 1)
			}
			if x.Kt == ktVal && len(x.V) == 0 {
				res.Count("batch_enc_empty_values", 1)
			}
			if len(x.K) >= 16383 || len(x.V) >= 16383 {
				res.Count("batch_enc_3byte_lengths", 1)
			} else if len(x.K) >= 127 || len(x.V) >= 127 {
				res.Count("batch_enc_len_127_129", 1)
			}
		}
		if fail != "" {
			if batchViolations < 4 {
				violateBatch(res, "enc: "+fail, batchCase{BatchKind: "enc", Recs: rs})
			}
		}
		if i < len(directed) || i%7 == 0 || (fail != "" && i%3 == 0) {
			add("enc", kc)
		}
	}
	// load
	nload := 2000 * scale
	for i := 0; i < nload; i++ {
		var data []byte
		if i < len(hugeVarintInputs) {
			data = hugeVarintInputs[i]
		} else {
			data = genLoadInput(r)
		}
		fail, huge, kc := checkLoad(data)
		res.Count("batch_load_cases", 1)
		if huge {
			res.Count("batch_load_huge_length_fields", 1)
		}
		if fail != "" {
			if batchViolations < 4 {
				violateBatch(res, "load: "+fail, batchCase{BatchKind: "load", Data: data})
			}
		} else if strings.Contains(kc, "KErr") {
			res.Count("batch_load_errors", 1)
		} else {
			res.Count("batch_load_accepted", 1)
		}
		if i < len(hugeVarintInputs) || i%11 == 0 {
			add("load", kc)
		}
	}
	// group records (writeBatchesWithHeader called directly)
	for i := 0; i < 40*scale; i++ {
		gs := genGroups(r)
		if i%8 == 0 {
			gs = append(gs, genRecs(r, 2, true))
		}
		seq := r.Uint64() >> uint(r.Intn(60))
		var bs []*leveldb.Batch
		for _, g := range gs {
			bs = append(bs, buildBatch(g))
		}
		rec, err := leveldb.VerifWriteBatchesWithHeader(bs, seq)
		res.Count("batch_group_cases", 1)
		bad := err != nil || !bytes.Equal(rec, groupRecord(gs, seq))
		if bad && batchViolations < 4 {
			violateBatch(res, fmt.Sprintf("group: writeBatchesWithHeader(%d batches, seq %d) does not write header(seq, total count) + records: %x", len(bs), seq, clip(rec)),
				batchCase{BatchKind: "group", Groups: [][][]bRec{gs}, Seed: seq})
		}
		if i%4 == 0 || bad {
			add("group", fmt.Sprintf("KBGroup %s %d %s", coqGroups(gs), seq, coqSegs(rec)))
		}
	}
	// mem programs
	for i := 0; i < 250*scale; i++ {
		cmpID, steps := genMemProgram(r)
		fail, kc := runMemProgram(cmpID, steps, i%6 == 0)
		res.Count("batch_mem_programs", 1)
		for _, s := range steps {
			res.Count("batch_mem_step_"+s.Op, 1)
		}
		if fail != "" && batchViolations < 4 {
			violateBatch(res, "mem: "+fail, batchCase{BatchKind: "mem", Cmp: cmpID, Steps: steps})
		}
		add("mem", kc)
	}
	// real journals after merged concurrent writes
	nj := 6 * scale
	jk := 0
	for i := 0; i < nj; i++ {
		js := r.Uint64()
		writers, per := 8+r.Intn(8), 25
		fail, kcs, merged, nrec := runJournal(js, writers, per)
		res.Count("batch_journal_runs", 1)
		res.Count("batch_journal_records", nrec)
		res.Count("batch_journal_merged_records", merged)
		if fail != "" && batchViolations < 4 {
			violateBatch(res, "journal: "+fail, batchCase{BatchKind: "journal", Seed: js, Writers: writers, PerWriter: per})
		}
		for _, c := range kcs {
			if jk < 40 && len(c) < 20000 {
				jk++
				kcases = append(kcases, c)
				res.Count("batch_k_journal", 1)
			}
		}
	}
	return kcases
}

// writeBatchCases packs the cases into files of at most xFileChars of text.
func writeBatchCases(res *vlib.Result, out string, cases []string) {
	if len(cases) == 0 {
		return
	}
	sort.SliceStable(cases, func(i, j int) bool { return len(cases[i]) > len(cases[j]) })
	type bin struct {
		items []string
		size  int
	}
	bins := []*bin{}
	for i := 0; i < 6; i++ {
		bins = append(bins, &bin{})
	}
	for _, c := range cases {
		best := bins[0]
		for _, b := range bins {
			if b.size < best.size {
				best = b
			}
		}
		if best.size+len(c) > xFileChars && best.size > 0 {
			best = &bin{}
			bins = append(bins, best)
		}
		best.items = append(best.items, c)
		best.size += len(c)
	}
	n := 0
	for i, b := range bins {
		if len(b.items) == 0 {
			continue
		}
		name := fmt.Sprintf("cases_%s_x%d.v", property, i)
		var sb strings.Builder
		sb.WriteString(xHeader + "\n")
		sb.WriteString("From Coq Require Import List NArith ZArith String.\nImport ListNotations.\nOpen Scope string_scope.\nOpen Scope N_scope.\n")
		sb.WriteString(fmt.Sprintf("Definition cases : list c01xcase :=\n %s.\n", vlib.CoqList(b.items)))
		sb.WriteString("Definition M := Eval vm_compute in xmismatches cases.\nPrint M.\n")
		os.WriteFile(filepath.Join(out, name), []byte(sb.String()), 0o644)
		res.KCaseFiles = append(res.KCaseFiles, fmt.Sprintf("%s:%d", name, n))
		n += len(b.items)
	}
	res.KCases += n
}

// replayBatch re-runs a stored batch case; handled = the file is one of ours.
func replayBatch(path string) (handled bool, fail string) {
	raw, err := os.ReadFile(path)
	if err != nil {
		return false, ""
	}
	var f struct {
		Case batchCase `json:"case"`
	}
	if json.Unmarshal(raw, &f) != nil || f.Case.BatchKind == "" {
		return false, ""
	}
	bc := f.Case
	switch bc.BatchKind {
	case "enc":
		fail, _ = checkEnc(bc.Recs)
	case "load":
		fail, _, _ = checkLoad(bc.Data)
	case "group":
		for _, gs := range bc.Groups {
			var bs []*leveldb.Batch
			for _, g := range gs {
				bs = append(bs, buildBatch(g))
			}
			rec, err := leveldb.VerifWriteBatchesWithHeader(bs, bc.Seed)
			if err != nil || !bytes.Equal(rec, groupRecord(gs, bc.Seed)) {
				fail = "writeBatchesWithHeader does not write header(seq, total count) + records"
			}
		}
	case "mem":
		fail, _ = runMemProgram(bc.Cmp, bc.Steps, false)
	case "journal":
		// scheduling decides which writes merge: several attempts
		for i := 0; i < 5 && fail == ""; i++ {
			fail, _, _, _ = runJournal(bc.Seed, bc.Writers, bc.PerWriter)
		}
	}
	return true, fail
}
