// Byte-level write-path correspondence of property C01 (Coq side: Corr/C01FlushRun.v, model Lsm/WritePath.v).
//
// Through the commit hook every committed session record of a DB program is seen on the committing goroutine, right after
// the new version was installed.  For a memdb flush (one added table, nothing deleted, journal number set) the frozen
// memdb is still installed: its arrays, the table files of the version the record was spawned from, the options that
// reach the table writer, the file number, and what the real code installed (layout, the new file's recorded bounds and
// BYTES) make a KFlushBytes case.  For a table compaction (or trivial move) the table files of the version it was picked
// on and committed to, the seed handed to newCompaction, minSeq, the output file numbers and the output files' bytes
// make a KCompactBytes case.  The model step (b_flush / b_compact / b_trivial_move) must install the same layout and
// write byte-identical files.  Only NoCompression runs are captured (the table model has no snappy encoder); states are
// capped in size.
package main

import (
	"fmt"
	"os"
	"path/filepath"
	"sort"
	"strings"

	"github.com/syndtr/goleveldb/leveldb"
	"github.com/syndtr/goleveldb/leveldb/storage"
	"verifharness/lib/dbh"
	"verifharness/lib/vlib"
)

const (
	kfFlushMaxBytes   = 20000 // frozen memdb arrays + table files of the base version
	kfCompactMaxBytes = 8000  // table files of the base version (the builder model re-runs the writer per entry)
	kfPerRunFlush     = 2
	kfPerRunCompact   = 3
	kfCapQuickFlush   = 16
	kfCapQuickCompact = 32
	kfCapThorFlush    = 240
	kfCapThorCompact  = 400
	kfFileChars       = 280000
)

type fcase struct {
	text  string
	kind  string // "flush", "compact", "move"
	tags  []string
	bytes int
}

type fcollector struct {
	flush, compact []fcase
}

func kfOpts(r *dbh.Runner, tableSize int, gpOverlaps, expandLimit int64) string {
	o := r.Opts
	fn := "None"
	if f := o.GetFilter(); f != nil {
		fn = "(Some " + vlib.CoqHex([]byte(f.Name())) + ")"
	}
	return fmt.Sprintf("(KO %d %d %s %d %d %d %d %d %s)", o.GetBlockSize(), o.GetBlockRestartInterval(), fn,
		r.Prog.Cfg.FilterBits, o.GetFilterBaseLg(), tableSize, gpOverlaps, expandLimit, vlib.CoqBool(true))
}

func kfFile(r *dbh.Runner, t leveldb.VerifTable, stub bool) (string, int, bool) {
	if stub {
		return fmt.Sprintf(`KF %d %s %s ""`, t.Num, vlib.CoqHex(t.Imin), vlib.CoqHex(t.Imax)), 0, true
	}
	data, _, ok := r.Stor.FileBytes(storage.FileDesc{Type: storage.TypeTable, Num: t.Num})
	if !ok || int64(len(data)) != t.Size {
		return "", 0, false
	}
	return fmt.Sprintf("KF %d %s %s %s", t.Num, vlib.CoqHex(t.Imin), vlib.CoqHex(t.Imax), vlib.CoqHex(data)), len(data), true
}

func kfLevels(r *dbh.Runner, ver []leveldb.VerifTable, stub bool) (string, int, bool) {
	nl := 0
	for _, t := range ver {
		if t.Level+1 > nl {
			nl = t.Level + 1
		}
	}
	total := 0
	lv := make([]string, nl)
	for l := 0; l < nl; l++ {
		var ts []string
		for _, t := range ver {
			if t.Level != l {
				continue
			}
			s, n, ok := kfFile(r, t, stub)
			if !ok {
				return "", 0, false
			}
			total += n
			ts = append(ts, s)
		}
		lv[l] = "[" + strings.Join(ts, "; ") + "]"
	}
	return "[" + strings.Join(lv, "; ") + "]", total, true
}

func verSize(ver []leveldb.VerifTable) int {
	n := 0
	for _, t := range ver {
		n += int(t.Size)
	}
	return n
}

// onEdit runs under the runner's lock, on the committing goroutine (dbh.Hooks.OnEdit).
func (fc *fcollector) onEdit(r *dbh.Runner, e leveldb.VerifEdit) {
	if r.Prog.Cfg.Snappy || r.Prog.Cfg.CmpID >= 4 { // byte-level theorems assume an injective comparer
		if len(e.Deleted) > 0 {
			leveldb.VerifTakePick(e.Stor)
		}
		return
	}
	cid := r.Prog.Cfg.CmpID
	switch {
	case e.Trivial && len(e.Deleted) == 0 && len(e.Added) == 1 && e.HasJournal:
		r.Stats["kf_flushes_seen"]++
		if len(fc.flush) >= kfPerRunFlush*4 || r.DB == nil {
			return
		}
		_, frozen := leveldb.VerifMemDumps(r.DB)
		a := e.Added[0]
		if frozen == nil || frozen.N == 0 || frozen.N != len(r.TableEntries[a.Num]) {
			r.Stats["kf_flush_no_frozen"]++
			return
		}
		var base []leveldb.VerifTable
		for _, t := range e.Version {
			if t.Num != a.Num {
				base = append(base, t)
			}
		}
		memBytes := len(frozen.KvData) + 4*len(frozen.NodeData)
		if memBytes+int(a.Size) > kfFlushMaxBytes {
			return
		}
		// memdbMaxLevel is 0: neither the code nor the model looks into the other tables; when they do not fit the
		// cap they travel as stubs (number and bounds, no bytes)
		stub := memBytes+int(a.Size)+verSize(base) > kfFlushMaxBytes
		lv, n, ok := kfLevels(r, base, stub)
		out, _, ok2 := kfFile(r, a, false)
		if !ok || !ok2 {
			return
		}
		nd := make([]string, len(frozen.NodeData))
		for i, x := range frozen.NodeData {
			nd[i] = fmt.Sprintf("%d", x)
		}
		km := fmt.Sprintf("(KM %s [%s] %d %d %d)", vlib.CoqHex(frozen.KvData), strings.Join(nd, ";"), frozen.MaxHeight, frozen.N, frozen.KvSize)
		tags := []string{"kf_flush"}
		if stub {
			tags = append(tags, "kf_flush_stub_levels")
		}
		if len(base) > 0 {
			tags = append(tags, "kf_flush_onto_tables")
		}
		if r.Opts.GetFilter() != nil {
			tags = append(tags, "kf_flush_filter")
		}
		if a.Level != 0 {
			tags = append(tags, "kf_flush_level_nonzero")
		}
		fc.flush = append(fc.flush, fcase{kind: "flush", tags: tags, bytes: memBytes + n + int(a.Size),
			text: fmt.Sprintf("KFlushBytes %d %s %s %s %d %s (%s)", cid, kfOpts(r, 0, 0, 0), km, lv, a.Num, dbh.KLayout(e.Version), out)})
	case len(e.Deleted) > 0:
		p := leveldb.VerifTakePick(e.Stor)
		r.Stats["kf_compactions_seen"]++
		if p == nil || !e.Trivial || len(fc.compact) >= kfPerRunCompact*4 {
			return
		}
		moved := len(e.Deleted) == 1 && len(e.Added) == 1 && e.Deleted[0].Num == e.Added[0].Num
		if !moved && !e.HasMinSeq {
			return
		}
		// the version picked on must be the version committed to (no flush in between): same live tables
		inPick := map[int64]bool{}
		for _, t := range p.Version {
			inPick[t.Num] = true
		}
		added := map[int64]bool{}
		for _, t := range e.Added {
			added[t.Num] = true
		}
		nbase := 0
		for _, t := range e.Version {
			if added[t.Num] && !moved {
				continue
			}
			nbase++
			if !inPick[t.Num] {
				r.Stats["kf_compact_interleaved"]++
				return
			}
		}
		ndel := len(e.Deleted)
		if moved {
			ndel = 0
		}
		if nbase+ndel != len(p.Version) {
			r.Stats["kf_compact_interleaved"]++
			return
		}
		outBytes := 0
		for _, t := range e.Added {
			outBytes += int(t.Size)
		}
		if verSize(p.Version) > kfCompactMaxBytes || (!moved && outBytes > kfCompactMaxBytes) {
			return
		}
		lv, n, ok := kfLevels(r, p.Version, false)
		if !ok {
			return
		}
		var outs []string
		nums := make([]int64, 0, len(e.Added))
		if !moved {
			for _, t := range e.Added {
				s, _, ok := kfFile(r, t, false)
				if !ok {
					return
				}
				outs = append(outs, s)
				nums = append(nums, t.Num)
			}
		}
		tags := []string{"kf_compact"}
		if moved {
			tags = []string{"kf_move"}
		} else {
			tags = append(tags, fmt.Sprintf("kf_compact_level_%d", p.SourceLevel), fmt.Sprintf("kf_compact_outputs_%d", min(len(outs), 3)))
			if len(p.T1) > 0 {
				tags = append(tags, "kf_compact_with_parents")
			}
			if len(p.GP) > 0 {
				tags = append(tags, "kf_compact_with_grandparents")
			}
			if r.Opts.GetFilter() != nil {
				tags = append(tags, "kf_compact_filter")
			}
		}
		ms := e.MinSeq
		fc.compact = append(fc.compact, fcase{kind: "compact", tags: tags, bytes: n + outBytes,
			text: fmt.Sprintf("KCompactBytes %d %s %s %d %s %s %d %s %s [%s]", cid,
				kfOpts(r, r.Opts.GetCompactionTableSize(p.SourceLevel+1), p.MaxGPOverlaps, p.ExpandLimit), lv, p.SourceLevel,
				dbh.KNums(p.Seed), dbh.KNums(nums), ms, vlib.CoqBool(moved), dbh.KLayout(e.Version), strings.Join(outs, "; "))})
	}
}

func min(a, b int) int {
	if a < b {
		return a
	}
	return b
}

// pick keeps the per-run share: smaller cases first among those with the rarer tags
func (fc *fcollector) pick() (fl, co []fcase) {
	score := func(c fcase) int {
		s := 0
		for _, t := range c.tags {
			switch {
			case strings.HasSuffix(t, "_filter"), strings.HasSuffix(t, "with_parents"), strings.HasSuffix(t, "with_grandparents"),
				strings.HasSuffix(t, "outputs_2"), strings.HasSuffix(t, "outputs_3"), strings.HasSuffix(t, "onto_tables"):
				s += 4
			case strings.HasPrefix(t, "kf_compact_level_") && t != "kf_compact_level_0":
				s += 3
			}
		}
		return s
	}
	sort.SliceStable(fc.flush, func(i, j int) bool { return score(fc.flush[i]) > score(fc.flush[j]) })
	sort.SliceStable(fc.compact, func(i, j int) bool { return score(fc.compact[i]) > score(fc.compact[j]) })
	fl, co = fc.flush, fc.compact
	if len(fl) > kfPerRunFlush {
		fl = fl[:kfPerRunFlush]
	}
	if len(co) > kfPerRunCompact {
		co = co[:kfPerRunCompact]
	}
	return
}

func writeFlushCases(res *vlib.Result, out string, cases []fcase) {
	for _, c := range cases {
		res.Count("kf_cases_"+c.kind, 1)
		res.Count("kf_case_bytes", c.bytes)
		for _, t := range c.tags {
			res.Count(t, 1)
		}
	}
	if len(cases) == 0 {
		return
	}
	sort.SliceStable(cases, func(i, j int) bool { return len(cases[i].text) > len(cases[j].text) })
	nfiles := 16
	if len(cases) < nfiles {
		nfiles = len(cases)
	}
	type bin struct {
		items []string
		size  int
	}
	bins := make([]*bin, nfiles)
	for i := range bins {
		bins[i] = &bin{}
	}
	for _, c := range cases {
		best := bins[0]
		for _, b := range bins {
			if b.size < best.size {
				best = b
			}
		}
		if best.size+len(c.text) > kfFileChars && best.size > 0 {
			best = &bin{}
			bins = append(bins, best)
		}
		best.items = append(best.items, c.text)
		best.size += len(c.text)
	}
	n := 0
	for i, b := range bins {
		if len(b.items) == 0 {
			continue
		}
		name := fmt.Sprintf("cases_%s_f%d.v", property, i)
		var sb strings.Builder
		sb.WriteString(header + "\n")
		sb.WriteString("From Coq Require Import List NArith ZArith String.\nImport ListNotations.\nOpen Scope string_scope.\nOpen Scope N_scope.\n")
		sb.WriteString(fmt.Sprintf("Definition cases : list c01fcase :=\n %s.\n", vlib.CoqList(b.items)))
		sb.WriteString("Definition M := Eval vm_compute in fmismatches cases.\nPrint M.\n")
		os.WriteFile(filepath.Join(out, name), []byte(sb.String()), 0o644)
		res.KCaseFiles = append(res.KCaseFiles, fmt.Sprintf("%s:%d", name, n))
		n += len(b.items)
	}
	res.KCases += n
}
