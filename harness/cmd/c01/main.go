// c01: reads return the latest write — DB programs against the map oracle; (K) point reads on dumped
// states against the L1 model's read path (KGet), and against the byte-level read path (KBytes: memdb
// arrays + table file bytes, Coq side Corr/C01BytesRun.v).
//
// The driver is dbh.Main with one addition: at the points where a KGet case is dumped a KBytes case is
// tried too; the byte cases go to their own case files (type c01bcase, evaluator bmismatches).
package main

import (
	"fmt"
	"os"
	"path/filepath"
	"sort"
	"strings"
	"sync"
	"time"

	"github.com/syndtr/goleveldb/leveldb"
	"verifharness/lib/dbh"
	"verifharness/lib/vlib"
)

const (
	property = "C01"
	rule     = "random DB programs (Put/Delete/batch incl. oversized/Get/Has/scan/snapshots/CompactRange/reopen/transactions) x option lattice x 5 comparers (4 injective ones; every fifth program runs under the non-injective ASCII-case-insensitive comparer with several spellings per user key in the pool, the oracle keyed by equivalence class, iterators expected to show the spelling of the newest visible Put, bloom filter off); after every 8th write and at checkpoints Get/Has of every pool key + 4 absent keys and a full scan are compared with a Go map; non-trivial = the run installed >=1 table compaction and populated >=2 levels"
	header   = "From GL Require Import Corr.C01Run."

	quickProgs, quickOps = 560, 300
	thorProgs, thorOps   = 2000, 1200
	kCapQuick, kCapThor  = 320, 1600
	kPerRun              = 3
	checkEvery           = 8

	// byte-level cases: state size cap (memdb arrays + table files), per-run and global caps, file size cap
	kbMaxBytes            = 20000
	kbPerRun              = 2
	kbCapQuick, kbCapThor = 40, 400
	kbFileChars           = 280000
)

type bcase struct {
	text string
	st   dbh.KBytesStats
}

func nonTrivial(s map[string]int) bool { return s["table_compactions"] >= 1 && s["max_levels"] >= 2 }

// score prefers states that exercise more of the composition: several levels, a frozen memdb, a filter
func (b bcase) score() int {
	s := b.st.Levels*4 + b.st.Tables
	if b.st.Frozen {
		s += 6
	}
	if b.st.Filter {
		s += 3
	}
	return s
}

func writeByteCases(res *vlib.Result, out string, cases []bcase) {
	if len(cases) == 0 {
		return
	}
	// greedy packing: at most kbFileChars of case text per file, at least 16 files when there are enough cases
	sort.SliceStable(cases, func(i, j int) bool { return len(cases[i].text) > len(cases[j].text) })
	nfiles := 16
	if len(cases) < nfiles {
		nfiles = len(cases)
	}
	type bin struct {
		items []string
		size  int
	}
	bins := make([]*bin, nfiles)
	for i := range bins {
		bins[i] = &bin{}
	}
	for _, c := range cases {
		best := bins[0]
		for _, b := range bins {
			if b.size < best.size {
				best = b
			}
		}
		if best.size+len(c.text) > kbFileChars && best.size > 0 {
			best = &bin{}
			bins = append(bins, best)
		}
		best.items = append(best.items, c.text)
		best.size += len(c.text)
	}
	n := 0
	for i, b := range bins {
		if len(b.items) == 0 {
			continue
		}
		name := fmt.Sprintf("cases_%s_b%d.v", property, i)
		var sb strings.Builder
		sb.WriteString(header + "\n")
		sb.WriteString("From Coq Require Import List NArith ZArith String.\nImport ListNotations.\nOpen Scope string_scope.\nOpen Scope N_scope.\n")
		sb.WriteString(fmt.Sprintf("Definition cases : list c01bcase :=\n %s.\n", vlib.CoqList(b.items)))
		sb.WriteString("Definition M := Eval vm_compute in bmismatches cases.\nPrint M.\n")
		os.WriteFile(filepath.Join(out, name), []byte(sb.String()), 0o644)
		res.KCaseFiles = append(res.KCaseFiles, fmt.Sprintf("%s:%d", name, n))
		n += len(b.items)
	}
	res.KCases += n
}

func main() {
	a := vlib.ParseArgs()
	res := vlib.NewResult(property, a.Out, rule)
	defer res.Write()
	weights := dbh.DefaultWeights()
	plainHooks := dbh.Hooks{CheckEvery: 1}
	if a.Replay != "" {
		if handled, fail := replayBatch(a.Replay); handled {
			res.Eval("replay-batch", true)
			if fail != "" {
				fmt.Println("replay fails:", fail)
				res.Violate("batch: "+fail, map[string]string{"replay_of": a.Replay})
			} else {
				fmt.Println("replay passes")
			}
			return
		}
		p, err := dbh.LoadProgram(a.Replay)
		if err != nil {
			fmt.Println("cannot load replay:", err)
			return
		}
		for i := 0; i < 3; i++ {
			rr, _ := dbh.RunWith(p, plainHooks, false, false, nil)
			res.Eval(fmt.Sprintf("replay%d", i), true)
			if d := dbh.Describe(rr); d != "" {
				fmt.Println("replay fails:", d)
				res.Violate(d, p)
				return
			}
		}
		fmt.Println("replay passes")
		return
	}
	nprog, nops, kcap, kbcap := quickProgs, quickOps, kCapQuick, kbCapQuick
	if a.Thorough() {
		nprog, nops, kcap, kbcap = thorProgs, thorOps, kCapThor, kbCapThor
	}
	if strings.Contains(a.Extra, "search") && !a.Thorough() {
		nprog *= 4
	}
	// the batch codec / memdb-insertion part (batch.go) runs beside the DB programs
	var xcases []string
	xdone := make(chan struct{})
	go func() {
		defer close(xdone)
		xcases = runBatchPart(a.Seed, a.Thorough(), strings.Contains(a.Extra, "search"), res)
	}()
	root := vlib.NewRNG(a.Seed)
	type job struct {
		i int
		r *vlib.RNG
	}
	jobs := make(chan job)
	var kmu sync.Mutex
	var kcases []string
	var bcases []bcase
	var fflush, fcompact []fcase
	kfFlushCap, kfCompactCap := kfCapQuickFlush, kfCapQuickCompact
	if a.Thorough() {
		kfFlushCap, kfCompactCap = kfCapThorFlush, kfCapThorCompact
	}
	leveldb.VerifPickExport(true)
	var wg sync.WaitGroup
	for w := 0; w < 16; w++ {
		wg.Add(1)
		go func() {
			defer wg.Done()
			for j := range jobs {
				r := j.r
				cfg := dbh.RandomCfg(r)
				pool := dbh.GenPool(r, r.Range(8, 60), r.Chance(1, 8))
				if dbh.ClassJob(j.i) {
					// one program in five runs under the NON-INJECTIVE comparer (id 4, ASCII case-insensitive): the
					// pool holds several spellings per user key, the oracle is keyed by equivalence class
					dbh.UseClassCmp(&cfg)
					pool = dbh.SpellPool(r, pool)
				}
				p := dbh.GenProgram(r, cfg, pool, r.Range(nops/3, nops), weights)
				if dbh.ClassJob(j.i) {
					res.Count("programs_casefold_comparer", 1)
					cl, multi := dbh.ClassStats(cfg.Options().Comparer, p.Pool)
					res.Count("casefold_classes", cl)
					res.Count("casefold_classes_with_several_spellings", multi)
				}
				p.Seed = a.Seed
				collect := j.i%2 == 0
				var kr, kb *vlib.RNG
				if collect {
					kr = r.Fork()
					kb = r.Fork()
				}
				var mine []bcase
				fcol := &fcollector{}
				hooks := dbh.Hooks{CheckEvery: checkEvery, OnEdit: func(rn *dbh.Runner, e leveldb.VerifEdit) {
					if collect {
						fcol.onEdit(rn, e)
					}
				}, AfterOp: func(rn *dbh.Runner, i int, op *dbh.Op) {
					if kr == nil {
						return
					}
					if i%29 == 5 || op.Kind == dbh.OpWaitIdle {
						rn.DumpKGet(kr, 300)
					}
					if i%13 == 4 || op.Kind == dbh.OpWaitIdle {
						if cs, st, ok := rn.DumpKBytes(kb, kbMaxBytes); ok {
							mine = append(mine, bcase{cs, st})
						}
					}
				}}
				rr, rn := dbh.RunWith(p, hooks, false, false, func(rn *dbh.Runner) {
					rn.CollectK = collect
					rn.KCap = kPerRun
				})
				leveldb.VerifForgetPick(rn.Stor)
				if collect {
					sort.SliceStable(mine, func(x, y int) bool { return mine[x].score() > mine[y].score() })
					kmu.Lock()
					fl, co := fcol.pick()
					for _, c := range fl {
						if len(fflush) < kfFlushCap && len(c.text) <= kfFileChars {
							fflush = append(fflush, c)
						}
					}
					for _, c := range co {
						if len(fcompact) < kfCompactCap && len(c.text) <= kfFileChars {
							fcompact = append(fcompact, c)
						}
					}
					for _, kc := range rn.KCases {
						if len(kcases) >= kcap || len(kc) > 60000 {
							continue
						}
						if strings.HasPrefix(kc, "KGet ") {
							kcases = append(kcases, kc)
						}
					}
					for x, bc := range mine {
						if x >= kbPerRun || len(bcases) >= kbcap || len(bc.text) > kbFileChars {
							break
						}
						bcases = append(bcases, bc)
					}
					kmu.Unlock()
				}
				for k, v := range rr.Stats {
					if k == "max_levels" || k == "max_live_snapshots" {
						res.Count("runs_with_"+k+fmt.Sprintf("_%d", v), 1)
					} else {
						res.Count(k, v)
					}
				}
				res.Eval(fmt.Sprintf("%d", j.i), nonTrivial(rr.Stats))
				if j.i < 2 {
					n := 4
					if len(p.Ops) < n {
						n = len(p.Ops)
					}
					res.Sample(map[string]interface{}{"cfg": cfg.String(), "ops": len(p.Ops), "first_ops": p.Ops[:n], "stats": rr.Stats})
				}
				d := dbh.Describe(rr)
				if d != "" {
					res.Count("runs_failed", 1)
				}
				if d != "" && res.NViolations() < 6 {
					q, d2 := dbh.ShrinkAndDescribe(p, plainHooks, false, 20*time.Second)
					if d2 != "" {
						res.Violate(d2, q)
					} else {
						res.Violate(d+" ["+cfg.String()+"] (not shrunk)", p)
					}
				}
			}
		}()
	}
	for i := 0; i < nprog; i++ {
		jobs <- job{i, root.Fork()}
	}
	close(jobs)
	wg.Wait()
	res.WriteCases(header, "lsmcase", "mismatches", kcases, 16)
	for _, b := range bcases {
		res.Count("kbytes_cases", 1)
		res.Count(fmt.Sprintf("kbytes_levels_%d", b.st.Levels), 1)
		res.Count("kbytes_tables", b.st.Tables)
		res.Count("kbytes_state_bytes", b.st.Bytes)
		res.Count("kbytes_queries", b.st.Queries)
		res.Count("kbytes_queries_found", b.st.Found)
		if b.st.Frozen {
			res.Count("kbytes_cases_with_frozen", 1)
		}
		if b.st.Filter {
			res.Count("kbytes_cases_with_filter", 1)
		}
	}
	writeByteCases(res, a.Out, bcases)
	writeFlushCases(res, a.Out, append(fflush, fcompact...))
	<-xdone
	writeBatchCases(res, a.Out, xcases)
}
