// c01: reads return the latest write — DB programs against the map oracle.
package main

import (
	"fmt"
	"strings"
	"sync"
	"time"

	"verifharness/lib/dbh"
	"verifharness/lib/vlib"
)

func main() {
	a := vlib.ParseArgs()
	res := vlib.NewResult("C01", a.Out, "random DB programs (Put/Delete/batch incl. oversized/Get/Has/scan/snapshots/CompactRange/reopen/transactions) x option lattice x 4 comparers; after every 8th write and at checkpoints Get/Has of every pool key + 4 absent keys and a full scan are compared with a Go map; non-trivial = the run installed >=1 table compaction and populated >=2 levels")
	defer res.Write()
	if a.Replay != "" {
		p, err := dbh.LoadProgram(a.Replay)
		if err != nil {
			fmt.Println("cannot load replay:", err)
			return
		}
		rr, _ := dbh.Run(p, dbh.Hooks{CheckEvery: 1}, false, false)
		res.Eval("replay", true)
		res.Eval("replay2", true)
		if d := dbh.Describe(rr); d != "" {
			fmt.Println("replay fails:", d)
			res.Violate(d, p)
		} else {
			fmt.Println("replay passes")
		}
		return
	}
	nprog, nops := 48, 300
	if a.Thorough() {
		nprog, nops = 1500, 1200
	}
	root := vlib.NewRNG(a.Seed)
	type job struct {
		i int
		r *vlib.RNG
	}
	jobs := make(chan job)
	var kmu sync.Mutex
	var kcases []string
	kcap := 150
	if a.Thorough() {
		kcap = 1500
	}
	var wg sync.WaitGroup
	for w := 0; w < 16; w++ {
		wg.Add(1)
		go func() {
			defer wg.Done()
			for j := range jobs {
				r := j.r
				cfg := dbh.RandomCfg(r)
				pool := dbh.GenPool(r, r.Range(8, 60), r.Chance(1, 8))
				p := dbh.GenProgram(r, cfg, pool, r.Range(nops/3, nops), dbh.DefaultWeights())
				p.Seed = a.Seed
				kr := r.Fork()
				hooks := dbh.Hooks{CheckEvery: 8, AfterOp: func(rn *dbh.Runner, i int, op *dbh.Op) {
					if i%37 == 5 || op.Kind == dbh.OpWaitIdle {
						rn.DumpKGet(kr, 300)
					}
				}}
				rr, rn := dbh.RunWith(p, hooks, false, false, func(rn *dbh.Runner) { rn.CollectK = j.i%3 == 0; rn.KCap = 3 })
				kmu.Lock()
				if len(kcases) < kcap {
					for _, kc := range rn.KCases {
						if strings.HasPrefix(kc, "KGet") && len(kc) < 40000 {
							kcases = append(kcases, kc)
						}
					}
				}
				kmu.Unlock()
				for k, v := range rr.Stats {
					res.Count(k, v)
				}
				nontriv := rr.Stats["table_compactions"] >= 1 && rr.Stats["max_levels"] >= 2
				res.Eval(fmt.Sprintf("%d", j.i), nontriv)
				if j.i < 2 {
					res.Sample(map[string]interface{}{"cfg": cfg.String(), "ops": len(p.Ops), "first_ops": p.Ops[:4], "stats": rr.Stats})
				}
				if d := dbh.Describe(rr); d != "" {
					q, d2 := dbh.ShrinkAndDescribe(p, dbh.Hooks{CheckEvery: 1}, false, 20*time.Second)
					if d2 != "" {
						res.Violate(d2, q)
					} else {
						res.Violate(d+" ["+cfg.String()+"] (not reproduced while shrinking)", p)
					}
				}
			}
		}()
	}
	for i := 0; i < nprog; i++ {
		jobs <- job{i, root.Fork()}
	}
	close(jobs)
	wg.Wait()
	if len(kcases) > kcap {
		kcases = kcases[:kcap]
	}
	res.WriteCases("From GL Require Import Corr.C01Run.", "lsmcase", "mismatches", kcases, 16)
}
