// c01: reads return the latest write — DB programs against the map oracle; (K) point reads on dumped
// states against the L1 model's read path.
package main

import "verifharness/lib/dbh"

func main() {
	dbh.Main(dbh.MainCfg{
		Property:   "C01",
		Rule:       "random DB programs (Put/Delete/batch incl. oversized/Get/Has/scan/snapshots/CompactRange/reopen/transactions) x option lattice x 4 comparers; after every 8th write and at checkpoints Get/Has of every pool key + 4 absent keys and a full scan are compared with a Go map; non-trivial = the run installed >=1 table compaction and populated >=2 levels",
		Header:     "From GL Require Import Corr.C01Run.",
		QuickProgs: 560, QuickOps: 300, ThorProgs: 2000, ThorOps: 1200,
		Weights: dbh.DefaultWeights(), CheckEvery: 8,
		KPrefixes: []string{"KGet"}, KCapQuick: 320, KCapThor: 1600, KPerRun: 3,
		NonTrivial: func(s map[string]int) bool { return s["table_compactions"] >= 1 && s["max_levels"] >= 2 },
	})
}
