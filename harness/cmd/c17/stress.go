// Concurrent part of the C17 harness: goroutines hammer one real cache over overlapping keys with
// instrumented values; the property clauses are asserted from inside the constructor, finaliser and
// delFunc callbacks and at quiescent points (handle census against the nodes' reference counts).
//
// What is legitimately racy and therefore NOT asserted: whether a Get hits or constructs; which
// goroutine's setFunc runs; whether Delete/Evict find the key when the caller holds no handle on it;
// the moment an unpinned delFunc runs.  What is asserted is strict in every interleaving:
//   - at most one value per (ns,key) is live (constructed and not finalised) at any instant: the old
//     value's Release runs under the bucket lock before the node is unlinked, a new node for the key
//     can only be created under that lock afterwards;
//   - a value is finalised at most once, and never while a handle obtained for it has not yet been
//     released (holders is incremented after Get returned and decremented BEFORE Handle.Release);
//   - a value observed through a held handle is non-nil, belongs to the key and is not finalised;
//   - a delFunc runs at most once; when its Delete was issued by a goroutine holding a handle on the
//     key, it runs only after that value's finaliser and with no holder left;
//   - lru.used <= capacity and used = sum of the linked entries' sizes whenever the lru lock is free;
//   - at quiescent points: ref = handles held + (1 if linked in the LRU), banned nodes are not linked;
//   - after the final Close and the release of every handle: every constructed value finalised exactly
//     once, every delFunc ran exactly once.
//
// Close is only called when no other cache operation is in flight, and Close(true) never concurrently
// with Handle.Release: both are misuse hazards of the unchanged code (see the report), not C17 failures
// the check should trip on.
package main

import (
	"fmt"
	"runtime"
	"sync"
	"sync/atomic"
	"time"

	"github.com/syndtr/goleveldb/leveldb/cache"
	"verifharness/lib/vlib"
)

// StressCfg is one stress configuration (also the replay format).
type StressCfg struct {
	Seed     uint64 `json:"seed"`
	G        int    `json:"goroutines"`
	Keys     int    `json:"keys"`
	NS       int    `json:"namespaces"`
	Cacher   bool   `json:"cacher"`
	Cap      int    `json:"cap"`
	SizeMax  int    `json:"size_max"`
	OpsPer   int    `json:"ops_per_goroutine"`
	MaxHeld  int    `json:"max_held"`
	Profile  int    `json:"profile"` // 0 mixed, 1 tight get/release, 2 delete/evict heavy, 3 wide (table resizes)
	EndMode  int    `json:"end_mode"`
	CheckEvy int    `json:"check_every"`
}

type cval struct {
	id      int64
	ns, key uint64
	size    int
	fin     int32
	holders int32
	banned  int32
	st      *stressRun
}

func (v *cval) Release() {
	st := v.st
	if n := atomic.AddInt32(&v.fin, 1); n != 1 {
		st.fail("value %d of (%d,%d) finalised %d times", v.id, v.ns, v.key, n)
	}
	if h := atomic.LoadInt32(&v.holders); h > 0 && atomic.LoadInt32(&st.forceClosing) == 0 {
		st.fail("value %d of (%d,%d) finalised while %d handle(s) are outstanding", v.id, v.ns, v.key, h)
	}
	atomic.AddInt32(&st.live[st.kidx(v.ns, v.key)], -1)
	atomic.AddInt64(&st.nFinal, 1)
}

type cdel struct {
	ran    int32
	pinned *cval
	ns     uint64
	key    uint64
}

type held struct {
	h *cache.Handle
	v *cval
}

type stressRun struct {
	cfg          StressCfg
	c            *cache.Cache
	cacher       cache.Cacher
	live         []int32
	forceClosing int32
	nextVal      int64
	nConstruct   int64
	nFinal       int64
	nHit         int64
	nPinnedDel   int64
	nRaceWindow  int64
	nQuiescent   int64
	mu           sync.Mutex
	fails        []string
	failed       int32
	world        sync.RWMutex
	heldBy       [][]held
	delsMu       sync.Mutex
	dels         []*cdel
	valsMu       sync.Mutex
	vals         []*cval
}

func (st *stressRun) kidx(ns, key uint64) int { return int(ns)*st.cfg.Keys + int(key) }

func (st *stressRun) fail(f string, a ...interface{}) {
	atomic.StoreInt32(&st.failed, 1)
	st.mu.Lock()
	if len(st.fails) < 5 {
		st.fails = append(st.fails, fmt.Sprintf(f, a...))
	}
	st.mu.Unlock()
}

type stressOutcome struct {
	fails []string
	stats map[string]int
	hang  bool
}

func genStress(r *vlib.RNG, i int, thorough bool) StressCfg {
	cfg := StressCfg{Seed: r.Uint64(), Cacher: true}
	cfg.G = []int{2, 3, 4, 8, 16, 32}[r.Intn(6)]
	cfg.Profile = []int{0, 0, 1, 1, 2, 3}[i%6]
	cfg.EndMode = r.Intn(4)
	cfg.MaxHeld = r.Range(1, 6)
	cfg.CheckEvy = r.Range(300, 3000)
	total := 240000
	if thorough {
		total = 600000
	}
	switch cfg.Profile {
	case 1: // tight: every Release drops the last reference
		cfg.Keys, cfg.NS = r.Range(1, 3), 1
		cfg.Cacher = r.Bool()
		cfg.Cap = 0
		cfg.SizeMax = 1
		if cfg.G < 4 {
			cfg.G = 8
		}
		cfg.MaxHeld = r.Range(1, 2)
	case 3: // wide: enough resident nodes to make the table grow, capacity drops make it shrink
		cfg.Keys, cfg.NS = 700, r.Range(1, 2)
		cfg.Cap = r.Range(600, 900)
		cfg.SizeMax = 1
		total *= 2
	case 2:
		cfg.Keys, cfg.NS = []int{2, 4, 8, 16}[r.Intn(4)], r.Range(1, 3)
		cfg.Cap = r.Intn(8)
		cfg.SizeMax = cfg.Cap + 2
	default:
		cfg.Keys, cfg.NS = []int{4, 8, 16, 64}[r.Intn(4)], r.Range(1, 3)
		cfg.Cacher = !r.Chance(1, 6)
		cfg.Cap = []int{0, 1, 2, 4, 8, 16, 40}[r.Intn(7)]
		cfg.SizeMax = cfg.Cap + 2
	}
	cfg.OpsPer = total / cfg.G
	return cfg
}

func runStressWatched(cfg StressCfg) stressOutcome {
	done := make(chan stressOutcome, 1)
	go func() { done <- runStress(cfg) }()
	select {
	case o := <-done:
		return o
	case <-time.After(120 * time.Second):
		buf := make([]byte, 1<<16)
		n := runtime.Stack(buf, true)
		return stressOutcome{hang: true, stats: map[string]int{}, fails: []string{"stress run did not finish within 120 s (deadlock or livelock); goroutine dump:\n" + string(buf[:n])}}
	}
}

func runStress(cfg StressCfg) stressOutcome {
	st := &stressRun{cfg: cfg, live: make([]int32, cfg.Keys*cfg.NS), heldBy: make([][]held, cfg.G)}
	if cfg.Cacher {
		st.cacher = cache.NewLRU(cfg.Cap)
	}
	st.c = cache.NewCache(st.cacher)
	root := vlib.NewRNG(cfg.Seed)
	stopMon := make(chan struct{})
	var monWg sync.WaitGroup
	if cfg.Cacher {
		monWg.Add(1)
		go func() {
			defer monWg.Done()
			for {
				select {
				case <-stopMon:
					return
				default:
				}
				st.checkLRU("sampled while operations are in flight")
				time.Sleep(50 * time.Microsecond)
			}
		}()
	}
	var wg sync.WaitGroup
	for g := 0; g < cfg.G; g++ {
		wg.Add(1)
		rg := root.Fork()
		go func(g int) {
			defer wg.Done()
			defer func() {
				if p := recover(); p != nil {
					buf := make([]byte, 4096)
					n := runtime.Stack(buf, false)
					st.fail("panic in goroutine %d: %v\n%s", g, p, buf[:n])
				}
			}()
			st.worker(g, rg)
		}(g)
	}
	wg.Wait()
	st.quiescent()
	gs := st.c.GetStats()
	// ---- ending
	var all []held
	for _, hs := range st.heldBy {
		all = append(all, hs...)
	}
	releaseAll := func() {
		var rw sync.WaitGroup
		n := 4
		for p := 0; p < n; p++ {
			rw.Add(1)
			go func(p int) {
				defer rw.Done()
				for i := p; i < len(all); i += n {
					atomic.AddInt32(&all[i].v.holders, -1)
					all[i].h.Release()
					if i%3 == 0 {
						all[i].h.Release() // a second Release is a no-op
					}
				}
			}(p)
		}
		rw.Wait()
	}
	func() {
		defer func() {
			if p := recover(); p != nil {
				st.fail("panic while closing: %v", p)
			}
		}()
		switch cfg.EndMode {
		case 0:
			releaseAll()
			st.c.Close(false)
		case 1:
			var cw sync.WaitGroup
			cw.Add(1)
			go func() { defer cw.Done(); st.c.Close(false) }()
			releaseAll()
			cw.Wait()
		case 2:
			atomic.StoreInt32(&st.forceClosing, 1)
			st.c.Close(true)
			atomic.StoreInt32(&st.forceClosing, 0)
			st.valsMu.Lock()
			for _, v := range st.vals {
				if f := atomic.LoadInt32(&v.fin); f != 1 {
					st.fail("after Close(true) value %d of (%d,%d) has been finalised %d times", v.id, v.ns, v.key, f)
					break
				}
			}
			st.valsMu.Unlock()
			releaseAll()
		default:
			releaseAll()
			st.c.Close(true)
		}
	}()
	close(stopMon)
	monWg.Wait()
	st.checkLRU("after Close")
	if c, _, order, ok := cache.VerifLRU(st.cacher); ok && len(order) > 0 {
		st.fail("%d entries still linked in the LRU after Close (capacity %d)", len(order), c)
	}
	// exactly-once clauses
	st.valsMu.Lock()
	for _, v := range st.vals {
		if f := atomic.LoadInt32(&v.fin); f != 1 {
			st.fail("closed and all handles released, but value %d of (%d,%d) was finalised %d times", v.id, v.ns, v.key, f)
			break
		}
	}
	nvals := len(st.vals)
	st.valsMu.Unlock()
	st.delsMu.Lock()
	for _, d := range st.dels {
		if n := atomic.LoadInt32(&d.ran); n != 1 {
			st.fail("closed and all handles released, but a delFunc of (%d,%d) ran %d times", d.ns, d.key, n)
			break
		}
	}
	ndels := len(st.dels)
	st.delsMu.Unlock()
	for i := range st.live {
		if l := atomic.LoadInt32(&st.live[i]); l != 0 {
			st.fail("after the end %d value(s) of key index %d are still counted live", l, i)
			break
		}
	}
	o := stressOutcome{fails: st.fails, stats: map[string]int{
		"stress_runs": 1, "stress_constructions": nvals, "stress_hits": int(st.nHit), "stress_delfuncs": ndels,
		"stress_pinned_deletes": int(st.nPinnedDel), "stress_quiescent_censuses": int(st.nQuiescent),
		"stress_table_grows": int(gs.GrowCount), "stress_table_shrinks": int(gs.ShrinkCount),
		fmt.Sprintf("stress_profile_%d", cfg.Profile): 1, fmt.Sprintf("stress_endmode_%d", cfg.EndMode): 1,
		fmt.Sprintf("stress_goroutines_%02d", cfg.G): 1,
	}}
	if gs.GrowCount > 0 {
		o.stats["stress_runs_with_resize"] = 1
	}
	if st.nPinnedDel > 0 {
		o.stats["stress_runs_with_delete_racing_held_handle"] = 1
	}
	return o
}

func (st *stressRun) checkLRU(when string) {
	capNow, used, order, ok := cache.VerifLRU(st.cacher)
	if !ok {
		return
	}
	if used > capNow {
		st.fail("lru used %d exceeds capacity %d (%s)", used, capNow, when)
	}
	sum := 0
	for _, e := range order {
		sum += e.Size
	}
	if sum != used {
		st.fail("lru used %d differs from the total charge %d of its %d linked entries (%s)", used, sum, len(order), when)
	}
}

// quiescent: no operation in flight (world lock held exclusively): handle census.
func (st *stressRun) quiescent() {
	st.world.Lock()
	defer st.world.Unlock()
	atomic.AddInt64(&st.nQuiescent, 1)
	census := map[*cval]int{}
	for _, hs := range st.heldBy {
		for _, x := range hs {
			census[x.v]++
		}
	}
	infos, ok := st.c.VerifNodes()
	if !ok {
		return
	}
	seen := map[*cval]bool{}
	for _, ni := range infos {
		v, _ := ni.Value.(*cval)
		if v == nil {
			st.fail("quiescent: node (%d,%d) is in the table without a value", ni.NS, ni.Key)
			continue
		}
		seen[v] = true
		if v.ns != ni.NS || v.key != ni.Key {
			st.fail("quiescent: node (%d,%d) holds the value of (%d,%d)", ni.NS, ni.Key, v.ns, v.key)
		}
		if atomic.LoadInt32(&v.fin) != 0 {
			st.fail("quiescent: node (%d,%d) in the table holds finalised value %d", ni.NS, ni.Key, v.id)
		}
		want := census[v]
		if ni.LRU == 1 {
			want++
		}
		if int(ni.Ref) != want {
			st.fail("quiescent: node (%d,%d) ref=%d but %d handle(s) held and linked-in-LRU=%v", ni.NS, ni.Key, ni.Ref, census[v], ni.LRU == 1)
		}
		if ni.Ref <= 0 {
			st.fail("quiescent: node (%d,%d) linked in the table with ref %d", ni.NS, ni.Key, ni.Ref)
		}
		if atomic.LoadInt32(&v.banned) != 0 && ni.LRU == 1 {
			st.fail("quiescent: node (%d,%d) was banned by Delete but is linked in the LRU", ni.NS, ni.Key)
		}
		if int32(census[v]) != atomic.LoadInt32(&v.holders) {
			st.fail("harness census mismatch for value %d: %d vs %d", v.id, census[v], v.holders)
		}
	}
	for v, n := range census {
		if !seen[v] {
			st.fail("quiescent: %d handle(s) held on value %d of (%d,%d) but no node of the table holds it", n, v.id, v.ns, v.key)
		}
	}
	st.checkLRU("at a quiescent point")
}

func (st *stressRun) worker(g int, r *vlib.RNG) {
	cfg := st.cfg
	w := []int{44, 30, 6, 6, 2, 1, 2, 9}
	switch cfg.Profile {
	case 1:
		w = []int{50, 45, 1, 1, 0, 0, 0, 3}
	case 2:
		w = []int{34, 24, 14, 12, 4, 2, 3, 7}
	case 3:
		w = []int{520, 420, 10, 10, 0, 0, 0, 20} // SetCapacity is drawn separately (rarely) so that nodes pile up
	}
	for i := 0; i < cfg.OpsPer; i++ {
		if atomic.LoadInt32(&st.failed) != 0 {
			return
		}
		if g == 0 && i > 0 && i%cfg.CheckEvy == 0 {
			st.quiescent()
		}
		st.oneOp(g, r, w)
	}
}

func (st *stressRun) oneOp(g int, r *vlib.RNG, w []int) {
	cfg := st.cfg
	c := st.c
	mine := func() []held { return st.heldBy[g] }
	st.world.RLock()
	defer st.world.RUnlock()
	{
		ns, key := uint64(r.Intn(cfg.NS)), uint64(r.Intn(cfg.Keys))
		if cfg.Profile != 3 && r.Chance(1, 2) {
			key = uint64(r.Intn(minInt(cfg.Keys, 2)))
		}
		op := r.Pick(w...)
		if cfg.Profile == 3 && r.Intn(6000) == 0 {
			op = 6
		}
		if len(mine()) >= cfg.MaxHeld && op == 0 {
			op = 1
		}
		switch op {
		case 0: // Get
			var sf func() (int, cache.Value)
			ran := false
			if !r.Chance(1, 10) {
				size := r.Intn(cfg.SizeMax + 1)
				retNil := r.Chance(1, 40)
				sf = func() (int, cache.Value) {
					ran = true
					if retNil {
						return size, nil
					}
					if n := atomic.AddInt32(&st.live[st.kidx(ns, key)], 1); n != 1 {
						st.fail("constructor ran for (%d,%d) while %d other value(s) of the key are live", ns, key, n-1)
					}
					v := &cval{id: atomic.AddInt64(&st.nextVal, 1), ns: ns, key: key, size: size, st: st}
					st.valsMu.Lock()
					st.vals = append(st.vals, v)
					st.valsMu.Unlock()
					return size, v
				}
			}
			h := c.Get(ns, key, sf)
			if h != nil {
				v, _ := h.Value().(*cval)
				if v == nil {
					st.fail("Get(%d,%d) returned a handle whose Value() is nil", ns, key)
					h.Release()
				} else {
					atomic.AddInt32(&v.holders, 1)
					if atomic.LoadInt32(&v.fin) != 0 {
						st.fail("Get(%d,%d) handed out value %d which is already finalised", ns, key, v.id)
					}
					if v.ns != ns || v.key != key {
						st.fail("Get(%d,%d) handed out the value of (%d,%d)", ns, key, v.ns, v.key)
					}
					if !ran {
						atomic.AddInt64(&st.nHit, 1)
					}
					st.heldBy[g] = append(st.heldBy[g], held{h, v})
				}
			}
		case 1: // Release
			hs := mine()
			if len(hs) > 0 {
				j := r.Intn(len(hs))
				x := hs[j]
				if atomic.LoadInt32(&x.v.fin) != 0 {
					st.fail("value %d of (%d,%d) was finalised while this goroutine still held a handle on it", x.v.id, x.v.ns, x.v.key)
				}
				st.heldBy[g] = append(hs[:j], hs[j+1:]...)
				atomic.AddInt32(&x.v.holders, -1)
				x.h.Release()
				if r.Chance(1, 8) {
					x.h.Release()
				}
			}
		case 2: // Delete
			var pinned *cval
			for _, x := range mine() {
				if x.v.ns == ns && x.v.key == key {
					pinned = x.v
				}
			}
			var d *cdel
			var df func()
			if r.Chance(3, 4) {
				d = &cdel{pinned: pinned, ns: ns, key: key}
				st.delsMu.Lock()
				st.dels = append(st.dels, d)
				st.delsMu.Unlock()
				df = func() {
					if n := atomic.AddInt32(&d.ran, 1); n != 1 {
						st.fail("a delFunc of (%d,%d) ran %d times", d.ns, d.key, n)
					}
					if d.pinned != nil {
						if atomic.LoadInt32(&d.pinned.fin) != 1 {
							st.fail("delFunc of (%d,%d) ran before value %d (held by the deleting goroutine) was finalised", d.ns, d.key, d.pinned.id)
						}
						if h := atomic.LoadInt32(&d.pinned.holders); h > 0 && atomic.LoadInt32(&st.forceClosing) == 0 {
							st.fail("delFunc of (%d,%d) ran while %d handle(s) of value %d are outstanding", d.ns, d.key, h, d.pinned.id)
						}
					}
				}
			}
			b := c.Delete(ns, key, df)
			if pinned != nil {
				atomic.AddInt64(&st.nPinnedDel, 1)
				atomic.StoreInt32(&pinned.banned, 1)
				if !b {
					st.fail("Delete(%d,%d) returned false while the caller holds a handle on the key", ns, key)
				}
			}
			if d != nil && !b && atomic.LoadInt32(&d.ran) != 1 {
				st.fail("Delete(%d,%d) returned false without having run its delFunc", ns, key)
			}
		case 3: // Evict
			pinned := false
			for _, x := range mine() {
				if x.v.ns == ns && x.v.key == key {
					pinned = true
				}
			}
			if b := c.Evict(ns, key); pinned && !b {
				st.fail("Evict(%d,%d) returned false while the caller holds a handle on the key", ns, key)
			}
		case 4:
			c.EvictNS(ns)
		case 5:
			c.EvictAll()
		case 6:
			nc := r.Intn(cfg.Cap + 3)
			if cfg.Profile == 3 {
				if r.Chance(1, 3) {
					nc = r.Intn(10)
				} else {
					nc = cfg.Cap
				}
			}
			c.SetCapacity(nc)
		default: // touch the held handles
			for _, x := range mine() {
				v, _ := x.h.Value().(*cval)
				if v != x.v {
					st.fail("a held handle's Value() changed (value %d)", x.v.id)
				} else if atomic.LoadInt32(&v.fin) != 0 {
					st.fail("value %d of (%d,%d) was finalised while a handle on it is held", v.id, v.ns, v.key)
				}
			}
		}
	}
}

func recordStress(res *vlib.Result, cfg StressCfg, o stressOutcome) {
	for k, v := range o.stats {
		res.Count(k, v)
	}
	res.Eval(fmt.Sprintf("stress/%d", cfg.Seed), o.stats["stress_constructions"] > cfg.Keys*cfg.NS)
	if len(o.fails) > 0 {
		res.Violate("stress: "+o.fails[0], map[string]interface{}{"mode": "stress", "stress": cfg, "all": o.fails})
	}
}
