// The node table of leveldb/cache (mHead / mBucket, lazily split / merged buckets) against
// Conc/CacheTable.v.
//
// The REAL cache (nil cacher) is driven single-threaded through Cache.Get / Handle.Release and the verif
// exports of verif_export_table.go; only the goroutine `go nh.initBuckets()` the table itself starts runs
// beside the driver.  After every action the driver reads the whole chain of heads (until two successive
// reads agree: a consistent snapshot) and
//
//	(P) evaluates the table's invariants and the action's result directly on the implementation
//	    (Go map as the oracle), and
//	(K) renders the action, its result, the counters of GetStats, the background steps (initBucket of one
//	    bucket / end of initBuckets) that happened since the previous snapshot — inferred from the two
//	    snapshots, or forced through VerifInitBucket — and the bucket states (every change) and the whole
//	    layout with node identities (sampled) for replay on the Coq model.
package main

import (
	"fmt"
	"math/big"
	"os"
	"path/filepath"
	"runtime"
	"runtime/debug"
	"sort"
	"strings"
	"time"

	"github.com/syndtr/goleveldb/leveldb/cache"

	"verifharness/lib/vlib"
)

// TblAct is one action of the driver.
type TblAct struct {
	Kind string `json:"k"` // ins look rel stale enum enumns bg yield
	NS   uint64 `json:"ns,omitempty"`
	Key  uint64 `json:"key,omitempty"`
	D    int    `json:"d,omitempty"`
	I    uint32 `json:"i,omitempty"`
	N    int    `json:"n,omitempty"`
	Fast bool   `json:"fast,omitempty"` // no snapshot after this action (bursts that outrun the background goroutine)
}

// TblCase is a replayable table program.
type TblCase struct {
	Variant string   `json:"variant"`
	OneP    bool     `json:"onep"` // run with GOMAXPROCS(1): the background goroutine runs only when the driver yields
	Acts    []TblAct `json:"acts"`
}

type tval struct{ id int }

type tnodeS struct {
	ns, key uint64
	hash    uint32
	id      int
}
type tbucketS struct {
	state int
	nodes []tnodeS
}
type theadS struct {
	ptr                uintptr
	mask               uint32
	pred, resizing     bool
	overflow           int32
	growThr, shrinkThr int64
	buckets            []tbucketS
}

func (r *tblRun) snapOf(l []cache.VerifHeadInfo) []theadS {
	out := make([]theadS, len(l))
	for i, h := range l {
		hs := theadS{ptr: h.Ptr, mask: h.Mask, pred: h.HasPred, resizing: h.Resizing, overflow: h.Overflow,
			growThr: h.GrowThreshold, shrinkThr: h.ShrinkThreshold, buckets: make([]tbucketS, len(h.Buckets))}
		for j, b := range h.Buckets {
			bs := tbucketS{state: b.State}
			for _, n := range b.Nodes {
				id, ok := r.ptrID[n.Ptr]
				if !ok {
					id = -1
				}
				bs.nodes = append(bs.nodes, tnodeS{n.NS, n.Key, n.Hash, id})
			}
			hs.buckets[j] = bs
		}
		out[i] = hs
	}
	return out
}

func snapKey(s []theadS) string {
	var sb strings.Builder
	for _, h := range s {
		fmt.Fprintf(&sb, "H%x %d %v %v %d|", h.ptr, h.mask, h.pred, h.resizing, h.overflow)
		for _, b := range h.buckets {
			fmt.Fprintf(&sb, "%d:", b.state)
			for _, n := range b.nodes {
				fmt.Fprintf(&sb, "%d,", n.id)
			}
			sb.WriteByte(';')
		}
	}
	return sb.String()
}

// stableSnap reads the chain until two successive reads are equal.  Every bucket's state only moves
// uninitialised -> initialised -> frozen and the driver is the only mutator of node slices, so two equal
// reads are the true state at the instant between them.
func (r *tblRun) stableSnap(c *cache.Cache) ([]theadS, bool) {
	a := r.snapOf(c.VerifTableLayout())
	ka := snapKey(a)
	for try := 0; try < 10000; try++ {
		b := r.snapOf(c.VerifTableLayout())
		kb := snapKey(b)
		if ka == kb {
			return b, true
		}
		a, ka = b, kb
		runtime.Gosched()
	}
	return a, false
}

type tblRun struct {
	c        *cache.Cache
	present  map[kkey]int             // oracle: key -> id of the linked node
	handles  map[kkey][]*cache.Handle // handles the driver holds
	nextID   int
	ptrID    map[uintptr]int // node object -> id (creation order)
	maxChain int
	fails    []string
	stats    map[string]int
	steps    []string
	actIdx   int
	act      TblAct
	prev     map[int]theadS // by head id = number of resizes before its creation
	lastTS   string
	deferred []string // forced background steps that found no head: recorded after the inferred finishes
	sinceTL  int
	grow     int32
	shrink   int32
}

// headID: the head at depth d of the current chain was created by resize number headID (0: NewCache's).
func (r *tblRun) headID(d int) int {
	st := r.c.GetStats()
	return int(st.GrowCount+st.ShrinkCount) - d
}

func (r *tblRun) fail(f string, a ...interface{}) {
	if len(r.fails) < 5 {
		r.fails = append(r.fails, fmt.Sprintf("table act %d %+v: ", r.actIdx, r.act)+fmt.Sprintf(f, a...))
	}
}

func coqIDs(ids []int) string {
	s := make([]string, len(ids))
	for i, x := range ids {
		s[i] = fmt.Sprint(x)
	}
	return "[" + strings.Join(s, ";") + "]"
}

// contentOf is the logical contents of bucket i of head d of the chain (Coq: content).
func contentOf(s []theadS, d int, i uint32) []tnodeS {
	h := s[d]
	if int(i) >= len(h.buckets) {
		return nil
	}
	if h.buckets[i].state != 0 {
		return h.buckets[i].nodes
	}
	if d+1 >= len(s) {
		return nil
	}
	p := s[d+1]
	if p.mask < h.mask {
		var out []tnodeS
		for _, n := range contentOf(s, d+1, i&p.mask) {
			if n.hash&h.mask == i {
				out = append(out, n)
			}
		}
		return out
	}
	out := append(append([]tnodeS{}, contentOf(s, d+1, i)...), contentOf(s, d+1, i+uint32(len(h.buckets)))...)
	sort.Slice(out, func(a, b int) bool {
		if out[a].ns != out[b].ns {
			return out[a].ns < out[b].ns
		}
		return out[a].key < out[b].key
	})
	return out
}

// checkSnap: the invariants of the table, evaluated on the implementation.
func (r *tblRun) checkSnap(s []theadS) {
	if len(s) == 0 {
		r.fail("no table head")
		return
	}
	for d, h := range s {
		n := len(h.buckets)
		if n == 0 || n&(n-1) != 0 || int(h.mask) != n-1 {
			r.fail("head %d: %d buckets, mask %d", d, n, h.mask)
			return
		}
		if _, ovf, _ := cache.VerifConsts(); h.growThr != int64(n*ovf) {
			r.fail("head %d: growThreshold %d with %d buckets", d, h.growThr, n)
		}
		if d == 0 && h.resizing {
			r.fail("the newest head has resizeInProgress set")
		}
		if d > 0 && !h.resizing {
			r.fail("head %d has a successor but resizeInProgress is clear (a second resize could start from it)", d)
		}
		if (d < len(s)-1) != h.pred {
			r.fail("head %d: predecessor flag %v in a chain of %d", d, h.pred, len(s))
		}
		if d < len(s)-1 {
			p := s[d+1]
			if !(h.mask == 2*p.mask+1 || p.mask == 2*h.mask+1) {
				r.fail("head %d mask %d, predecessor mask %d", d, h.mask, p.mask)
				return
			}
		}
		for i, b := range h.buckets {
			if b.state == 0 {
				if d == len(s)-1 {
					r.fail("head %d has no predecessor but bucket %d is uninitialised", d, i)
				}
				if len(b.nodes) != 0 {
					r.fail("head %d bucket %d uninitialised with %d nodes", d, i, len(b.nodes))
				}
				continue
			}
			if b.state == 2 && d == 0 {
				r.fail("bucket %d of the newest head is frozen", i)
			}
			for j, x := range b.nodes {
				if x.hash != cache.VerifMurmur32(x.ns, x.key, 0xf00) {
					r.fail("node (%d,%d): stored hash %d", x.ns, x.key, x.hash)
				}
				if x.hash&h.mask != uint32(i) {
					r.fail("head %d bucket %d holds node (%d,%d) with hash&mask = %d", d, i, x.ns, x.key, x.hash&h.mask)
				}
				if j > 0 {
					y := b.nodes[j-1]
					if !(y.ns < x.ns || (y.ns == x.ns && y.key < x.key)) {
						r.fail("head %d bucket %d not strictly sorted at %d", d, i, j)
					}
				}
			}
			// an initialised bucket has consumed its sources: they are frozen
			if d < len(s)-1 {
				p := s[d+1]
				var src []uint32
				if p.mask < h.mask {
					src = []uint32{uint32(i) & p.mask}
				} else {
					src = []uint32{uint32(i), uint32(i + n)}
				}
				for _, j := range src {
					if int(j) < len(p.buckets) && p.buckets[j].state != 2 {
						r.fail("head %d bucket %d is initialised but its source bucket %d of the predecessor is in state %d, not frozen", d, i, j, p.buckets[j].state)
					}
				}
			}
		}
		// a frozen bucket is never modified
		if old, ok := r.prev[r.headID(d)]; ok && len(old.buckets) == len(h.buckets) {
			for i := range h.buckets {
				if old.buckets[i].state == 2 {
					same := h.buckets[i].state == 2 && len(h.buckets[i].nodes) == len(old.buckets[i].nodes)
					for j := 0; same && j < len(h.buckets[i].nodes); j++ {
						same = h.buckets[i].nodes[j] == old.buckets[i].nodes[j]
					}
					if !same {
						r.fail("head %d bucket %d was frozen and has been modified", d, i)
					}
				}
			}
		}
	}
	// the logical contents of the newest head are exactly the oracle's nodes, each once, in its own bucket
	seen := map[kkey]bool{}
	total := 0
	for i := range s[0].buckets {
		for _, x := range contentOf(s, 0, uint32(i)) {
			total++
			k := kkey{x.ns, x.key}
			if seen[k] {
				r.fail("node (%d,%d) reachable twice", x.ns, x.key)
			}
			seen[k] = true
			if id, ok := r.present[k]; !ok {
				r.fail("node (%d,%d) is in the table but was removed (or never created)", x.ns, x.key)
			} else if id != x.id {
				r.fail("node (%d,%d): table holds object %d, expected %d", x.ns, x.key, x.id, id)
			}
			if x.hash&s[0].mask != uint32(i) {
				r.fail("node (%d,%d) would land in bucket %d, its hash selects %d", x.ns, x.key, i, x.hash&s[0].mask)
			}
		}
	}
	if total != len(r.present) {
		r.fail("table holds %d nodes, expected %d (a node was lost or kept)", total, len(r.present))
	}
}

func statesNum(h theadS) string {
	n := new(big.Int)
	four := big.NewInt(4)
	for i := len(h.buckets) - 1; i >= 0; i-- {
		n.Mul(n, four)
		n.Add(n, big.NewInt(int64(h.buckets[i].state)))
	}
	return n.String()
}

func coqTS(s []theadS) string {
	var hs []string
	for _, h := range s {
		hs = append(hs, fmt.Sprintf("(%d,%s,%s,%s,%s)", h.mask, vlib.CoqBool(h.pred), vlib.CoqBool(h.resizing), coqZ(int64(h.overflow))+"%Z", statesNum(h)))
	}
	return "TS [" + strings.Join(hs, ";") + "]"
}

func coqTL(s []theadS) string {
	var hs []string
	for _, h := range s {
		var bs []string
		for _, b := range h.buckets {
			ids := make([]int, len(b.nodes))
			for i, n := range b.nodes {
				ids[i] = n.id
			}
			bs = append(bs, fmt.Sprintf("(%d,%s)", b.state, coqIDs(ids)))
		}
		hs = append(hs, fmt.Sprintf("(%d,%s,%s,%s,[%s])", h.mask, vlib.CoqBool(h.pred), vlib.CoqBool(h.resizing), coqZ(int64(h.overflow))+"%Z", strings.Join(bs, ";")))
	}
	return "TL [" + strings.Join(hs, ";") + "]"
}

// observe: snapshot, (P) checks, inferred background steps, (K) observations.
func (r *tblRun) observe(wantK bool, forceTL bool) {
	s, ok := r.stableSnap(r.c)
	if !ok {
		r.fail("the table layout never settled")
		return
	}
	r.checkSnap(s)
	if wantK {
		// background steps since the previous snapshot: newly initialised buckets, finished heads
		for d := len(s) - 1; d >= 0; d-- {
			h := s[d]
			old, had := r.prev[r.headID(d)]
			for i, b := range h.buckets {
				if b.state != 0 && (!had || old.buckets[i].state == 0) && r.headID(d) != 0 {
					r.steps = append(r.steps, fmt.Sprintf("TB (TInit %d %d) true", d, i))
				}
			}
		}
		last := s[len(s)-1]
		if r.headID(len(s)-1) != 0 && !last.pred {
			if old, had := r.prev[r.headID(len(s)-1)]; !had || old.pred {
				r.steps = append(r.steps, fmt.Sprintf("TB (TFinish %d) true", len(s)-1))
				r.stats["tbl_bg_finish"]++
			}
		}
		r.steps = append(r.steps, r.deferred...)
		r.deferred = nil
		ts := coqTS(s)
		if ts != r.lastTS {
			r.steps = append(r.steps, ts)
			r.lastTS = ts
		}
		r.sinceTL++
		if forceTL || r.sinceTL >= 200 {
			r.steps = append(r.steps, coqTL(s))
			r.sinceTL = 0
		}
	}
	if len(s) > r.maxChain {
		r.maxChain = len(s)
	}
	lazy := 0
	for _, b := range s[0].buckets {
		if b.state == 0 {
			lazy++
		}
	}
	if lazy > 0 {
		r.stats["tbl_obs_with_uninitialised_buckets"]++
	}
	r.prev = map[int]theadS{}
	for d, h := range s {
		r.prev[r.headID(d)] = h
	}
}

func (r *tblRun) tk(op, res string) {
	st := r.c.GetStats()
	r.steps = append(r.steps, fmt.Sprintf("TK %s %s %s %d %d %d", op, res, coqZ(st.Nodes)+"%Z", st.GrowCount, st.ShrinkCount, st.Buckets))
	if int(st.Nodes) != len(r.present) {
		r.fail("GetStats().Nodes = %d, expected %d", st.Nodes, len(r.present))
	}
	dg, ds := st.GrowCount-r.grow, st.ShrinkCount-r.shrink
	if dg < 0 || ds < 0 || dg+ds > 1 {
		r.fail("one operation changed GrowCount by %d and ShrinkCount by %d", dg, ds)
	}
	if dg > 0 {
		r.stats["tbl_grows"]++
	}
	if ds > 0 {
		r.stats["tbl_shrinks"]++
	}
	r.grow, r.shrink = st.GrowCount, st.ShrinkCount
}

type tblOutcome struct {
	fails   []string
	kcase   string
	stats   map[string]int
	nontriv bool
}

// runTable runs the program on a fresh real cache.
func runTable(tc TblCase, wantK bool) (out tblOutcome) {
	r := &tblRun{present: map[kkey]int{}, handles: map[kkey][]*cache.Handle{}, stats: map[string]int{}, prev: map[int]theadS{}, ptrID: map[uintptr]int{}}
	defer func() {
		if p := recover(); p != nil {
			r.fail("PANIC: %v", p)
			out.fails = r.fails
			out.stats = r.stats
		}
	}()
	if tc.OneP {
		// one P and no collector: the goroutine `go nh.initBuckets()` runs only when the driver yields or is preempted
		old := runtime.GOMAXPROCS(1)
		defer runtime.GOMAXPROCS(old)
		gc := debug.SetGCPercent(-1)
		defer debug.SetGCPercent(gc)
	}
	r.c = cache.NewCache(nil)
	r.observe(wantK, true)
	for ai, a := range tc.Acts {
		r.actIdx, r.act = ai, a
		k := kkey{a.NS, a.Key}
		forceTL := false
		switch a.Kind {
		case "ins", "look":
			var h *cache.Handle
			ran := false
			id := r.nextID
			if a.Kind == "ins" {
				h = r.c.Get(a.NS, a.Key, func() (int, cache.Value) { ran = true; return 1, &tval{id} })
			} else {
				h = r.c.Get(a.NS, a.Key, nil)
			}
			want, had := r.present[k]
			res := "RNone"
			switch {
			case h == nil:
				if had || a.Kind == "ins" {
					r.fail("Get returned nil (node expected: %v)", had)
				}
				r.stats["tbl_get_none"]++
			default:
				v, _ := h.Value().(*tval)
				if v == nil {
					r.fail("Get returned a handle without a value")
					break
				}
				if ran != !had {
					r.fail("Get: node created = %v, expected %v (a linked node was not found, or a removed one was)", ran, !had)
				}
				if had && v.id != want {
					r.fail("Get returned node object %d, expected %d", v.id, want)
				}
				if ran {
					r.nextID++
					r.present[k] = id
					r.ptrID[cache.VerifHandlePtr(h)] = id
					r.stats["tbl_created"]++
				} else {
					r.stats["tbl_found"]++
				}
				r.handles[k] = append(r.handles[k], h)
				res = fmt.Sprintf("(RNode %d %s)", v.id, vlib.CoqBool(ran))
			}
			before := r.grow + r.shrink
			r.tk(fmt.Sprintf("(TGet %d %d %s)", a.NS, a.Key, vlib.CoqBool(a.Kind == "look")), res)
			forceTL = r.grow+r.shrink != before
		case "rel":
			hs := r.handles[k]
			if len(hs) == 0 {
				continue
			}
			h := hs[len(hs)-1]
			r.handles[k] = hs[:len(hs)-1]
			n0 := r.c.Nodes()
			h.Release()
			if len(hs) > 1 {
				if r.c.Nodes() != n0 {
					r.fail("releasing one of %d handles changed Nodes()", len(hs))
				}
				continue // no table operation
			}
			delete(r.handles, k)
			delete(r.present, k)
			deleted := r.c.Nodes() == n0-1
			if !deleted {
				r.fail("releasing the last handle did not remove the node (Nodes %d -> %d)", n0, r.c.Nodes())
			}
			r.stats["tbl_removed"]++
			before := r.grow + r.shrink
			r.tk(fmt.Sprintf("(TDel %d %d true)", a.NS, a.Key), fmt.Sprintf("(RDel %s)", vlib.CoqBool(deleted)))
			forceTL = r.grow+r.shrink != before
		case "stale":
			// Cache.delete by a stale zero-check: the linked node (if any) is referenced, nothing is removed
			d := r.c.VerifTableDeleteKey(a.NS, a.Key)
			if d {
				r.fail("Cache.delete removed a referenced node")
			}
			r.stats["tbl_stale_delete"]++
			r.tk(fmt.Sprintf("(TDel %d %d false)", a.NS, a.Key), fmt.Sprintf("(RDel %s)", vlib.CoqBool(d)))
		case "enum", "enumns":
			var l []cache.VerifTableNode
			op := "TEnum"
			if a.Kind == "enum" {
				l = r.c.VerifEnumerate()
			} else {
				l = r.c.VerifEnumerateNS(a.NS)
				op = fmt.Sprintf("(TEnumNS %d)", a.NS)
			}
			ids := make([]int, 0, len(l))
			seen := map[kkey]bool{}
			for _, n := range l {
				nk := kkey{n.NS, n.Key}
				v, _ := n.Value.(*tval)
				if seen[nk] {
					r.fail("enumeration visits (%d,%d) twice", n.NS, n.Key)
				}
				seen[nk] = true
				if id, ok := r.present[nk]; !ok || v == nil || v.id != id {
					r.fail("enumeration visits (%d,%d), which is not a linked node", n.NS, n.Key)
				}
				if v != nil {
					ids = append(ids, v.id)
				} else {
					ids = append(ids, -1)
				}
			}
			want := 0
			for pk := range r.present {
				if a.Kind == "enum" || pk.ns == a.NS {
					want++
				}
			}
			if len(l) != want {
				r.fail("enumeration visits %d nodes, %d are linked", len(l), want)
			}
			r.stats["tbl_enumerations"]++
			r.tk(op, "(REnum "+coqIDs(ids)+")")
		case "bg":
			ok := r.c.VerifInitBucket(a.D, a.I)
			r.stats["tbl_bg_forced"]++
			if wantK {
				// The only order-dependent part of a forced step is whether the head at that depth still
				// exists: the chain is cut, at its far end only, when a background initBuckets finishes.
				// "true": the head existed at the call, hence also in the model, which has not yet seen the
				// finishes since the last snapshot -> before the steps inferred below.  "false": the head was
				// gone at the call (or the index is out of range for it), and is still gone at the next
				// snapshot -> after the inferred steps (the model's chain is then the snapshot's).
				step := fmt.Sprintf("TB (TInit %d %d) %s", a.D, a.I, vlib.CoqBool(ok))
				if ok {
					r.steps = append(r.steps, step)
				} else {
					r.deferred = append(r.deferred, step)
				}
			}
		case "yield":
			for i := 0; i < a.N; i++ {
				runtime.Gosched()
			}
		}
		if !a.Fast || forceTL || ai == len(tc.Acts)-1 {
			r.observe(wantK, forceTL || ai == len(tc.Acts)-1)
		}
	}
	// release what is still held (not part of the case)
	for _, hs := range r.handles {
		for _, h := range hs {
			h.Release()
		}
	}
	r.stats[fmt.Sprintf("tbl_runs_max_chain_%d", r.maxChain)]++
	out.fails = r.fails
	out.stats = r.stats
	out.nontriv = r.stats["tbl_created"] > 0 && r.stats["tbl_found"] > 0 && r.stats["tbl_removed"] > 0
	if wantK {
		out.kcase = "TCase [" + strings.Join(r.steps, ";\n  ") + "]"
	}
	return out
}

// ---- generators

// keysInBucket returns n keys of namespace ns, starting the search at from, whose hash & mask == want.
func keysInBucket(ns uint64, from uint64, mask, want uint32, n int) []uint64 {
	var out []uint64
	for k := from; len(out) < n; k++ {
		if cache.VerifMurmur32(ns, k, 0xf00)&mask == want {
			out = append(out, k)
		}
	}
	return out
}

func sprinkle(r *vlib.RNG, tc *TblCase, known []kkey, buckets int) {
	switch r.Pick(6, 3, 2, 1, 1, 3, 2) {
	case 0:
	case 1:
		if len(known) > 0 {
			k := known[r.Intn(len(known))]
			tc.Acts = append(tc.Acts, TblAct{Kind: "look", NS: k.ns, Key: k.key}, TblAct{Kind: "rel", NS: k.ns, Key: k.key})
		}
	case 2:
		tc.Acts = append(tc.Acts, TblAct{Kind: "look", NS: uint64(r.Intn(3)), Key: 1<<40 + uint64(r.Intn(50))})
	case 3:
		tc.Acts = append(tc.Acts, TblAct{Kind: "stale", NS: uint64(r.Intn(3)), Key: uint64(r.Intn(40))})
	case 4:
		if r.Chance(1, 6) {
			tc.Acts = append(tc.Acts, TblAct{Kind: "enum"})
		} else if r.Chance(1, 3) {
			tc.Acts = append(tc.Acts, TblAct{Kind: "enumns", NS: uint64(r.Intn(3))})
		}
	case 5:
		tc.Acts = append(tc.Acts, TblAct{Kind: "bg", D: r.Pick(5, 3, 1), I: uint32(r.Intn(buckets))})
	case 6:
		if r.Chance(1, 4) {
			tc.Acts = append(tc.Acts, TblAct{Kind: "yield", N: r.Range(1, 3)})
		}
	}
}

// genTable generates a table program.  variant "ovf": colliding keys drive the overflow counter (more than
// mOverflowThreshold nodes in one bucket, mOverflowGrowThreshold insertions into such buckets) through two
// or three grows, then everything is released in random order (two or three shrinks); "count": enough
// spread keys to reach growThreshold = buckets*mOverflowThreshold, then back; "mix": a small random program.
func genTable(r *vlib.RNG, variant string, scale int) TblCase {
	tc := TblCase{Variant: variant, OneP: !r.Chance(1, 4)}
	initial, overflow, ovfGrow := cache.VerifConsts()
	var known []kkey
	fast := false
	ins := func(ns, key uint64) {
		tc.Acts = append(tc.Acts, TblAct{Kind: "ins", NS: ns, Key: key, Fast: fast})
		known = append(known, kkey{ns, key})
	}
	buckets := initial
	switch variant {
	case "ovf":
		nNS := r.Range(1, 3)
		want := uint32(r.Intn(initial))
		mask := uint32(initial - 1)
		from := uint64(r.Intn(1000))
		for g := 0; g < 1+scale; g++ {
			n := ovfGrow + r.Range(2, 12)
			if g == 0 {
				n += overflow
			}
			// a burst: the next grow is reached before the goroutine of the previous one has run (chain of 3 heads)
			fast = g > 0 && r.Chance(3, 4)
			for i := 0; i < n; i++ {
				ns := uint64(i % nNS)
				ks := keysInBucket(ns, from, mask, want, 1)
				from = ks[0] + 1
				ins(ns, ks[0])
				if !fast {
					sprinkle(r, &tc, known, buckets)
				}
			}
			fast = false
			// the table has doubled: follow one half of the bucket
			mask = mask<<1 | 1
			if r.Bool() {
				want |= (mask + 1) >> 1
			}
			buckets *= 2
		}
	case "count":
		target := initial*overflow*scale + r.Range(3, 40)
		nNS := r.Range(1, 3)
		for i := 0; i < target; i++ {
			ins(uint64(i%nNS), uint64(i/nNS)+uint64(r.Intn(2))*(1<<33))
			if i%7 == 0 {
				sprinkle(r, &tc, known, buckets)
			}
			if (i+1)%(initial*overflow) == 0 {
				buckets *= 2
			}
		}
	default:
		nKeys := r.Range(2, 40)
		for i := 0; i < r.Range(20, 160); i++ {
			k := kkey{uint64(r.Intn(3)), uint64(r.Intn(nKeys))}
			switch r.Pick(4, 2, 4, 1, 1) {
			case 0:
				ins(k.ns, k.key)
			case 1:
				tc.Acts = append(tc.Acts, TblAct{Kind: "look", NS: k.ns, Key: k.key})
			case 2:
				tc.Acts = append(tc.Acts, TblAct{Kind: "rel", NS: k.ns, Key: k.key})
			case 3:
				tc.Acts = append(tc.Acts, TblAct{Kind: "stale", NS: k.ns, Key: k.key})
			default:
				sprinkle(r, &tc, known, buckets)
			}
		}
		return tc
	}
	tc.Acts = append(tc.Acts, TblAct{Kind: "enum"})
	// release everything in random order (every key may be held more than once: release until gone)
	seen := map[kkey]bool{}
	var uniq []kkey
	for _, k := range known {
		if !seen[k] {
			seen[k] = true
			uniq = append(uniq, k)
		}
	}
	for _, i := range permN(r, len(uniq)) {
		k := uniq[i]
		cnt := 0
		for _, k2 := range known {
			if k2 == k {
				cnt++
			}
		}
		for j := 0; j < cnt; j++ {
			tc.Acts = append(tc.Acts, TblAct{Kind: "rel", NS: k.ns, Key: k.key})
		}
		if r.Chance(1, 5) {
			sprinkle(r, &tc, uniq, buckets)
		}
		if r.Chance(1, 60) {
			ins(k.ns, k.key) // comes back; released again below
			tc.Acts = append(tc.Acts, TblAct{Kind: "rel", NS: k.ns, Key: k.key})
		}
	}
	tc.Acts = append(tc.Acts, TblAct{Kind: "enum"}, TblAct{Kind: "yield", N: 3})
	return tc
}

// murmurCases: murmur32 on boundary and random arguments, computed by the Go function.
func murmurCases(r *vlib.RNG, n int) string {
	edge := []uint64{0, 1, 2, 0xff, 0xffff, 0xffffffff, 0x100000000, 0x100000001, 0x7fffffffffffffff, 0x8000000000000000, 0xffffffffffffffff, 0xdeadbeefcafebabe}
	var items []string
	add := func(ns, key uint64, seed uint32) {
		items = append(items, fmt.Sprintf("(%d,%d,%d,%d)", ns, key, seed, cache.VerifMurmur32(ns, key, seed)))
	}
	for _, a := range edge {
		for _, b := range edge[:6] {
			add(a, b, 0xf00)
			add(b, a, 0xf00)
		}
	}
	for i := 0; i < n; i++ {
		seed := uint32(0xf00)
		if i%4 == 0 {
			seed = uint32(r.Uint64())
		}
		add(r.Uint64()>>uint(r.Intn(64)), r.Uint64()>>uint(r.Intn(64)), seed)
	}
	return "HCase [" + strings.Join(items, ";") + "]"
}

func recordTable(res *vlib.Result, tc *TblCase, o tblOutcome) {
	for k, v := range o.stats {
		res.Count(k, v)
	}
	res.Eval(fmt.Sprintf("tbl/%s/%d/%v", tc.Variant, len(tc.Acts), tc.OneP), o.nontriv)
	if len(o.fails) > 0 {
		min := *tc
		if res.NViolations() == 0 {
			min = shrinkTable(*tc)
		}
		o2 := runTable(min, false)
		desc := o.fails[0]
		if len(o2.fails) > 0 {
			desc = o2.fails[0]
		}
		res.Violate("node table: "+desc, map[string]interface{}{"mode": "table", "table": min, "all": o2.fails})
	}
}

// shrinkTable: delta debugging on the action list ("still fails" as the predicate; only suffixes and chunks
// are removed, so the remaining actions keep their meaning).
func shrinkTable(tc TblCase) TblCase {
	deadline := time.Now().Add(12 * time.Second)
	failing := func(c TblCase) bool { return len(runTable(c, false).fails) > 0 }
	cur := tc
	// first the shortest failing prefix (bisection; "fails" is monotone in the prefix once a check has failed)
	lo, hi := 0, len(cur.Acts)
	for lo+1 < hi && time.Now().Before(deadline) {
		mid := (lo + hi) / 2
		if failing(TblCase{Variant: cur.Variant, OneP: cur.OneP, Acts: cur.Acts[:mid]}) {
			hi = mid
		} else {
			lo = mid
		}
	}
	cur.Acts = append([]TblAct{}, cur.Acts[:hi]...)
	chunk := len(cur.Acts) / 2
	for rounds := 0; rounds < 40 && chunk >= 1 && time.Now().Before(deadline); rounds++ {
		progress := false
		for at := 0; at+chunk <= len(cur.Acts) && time.Now().Before(deadline); {
			cand := TblCase{Variant: cur.Variant, OneP: cur.OneP}
			cand.Acts = append(append([]TblAct{}, cur.Acts[:at]...), cur.Acts[at+chunk:]...)
			if len(cand.Acts) > 0 && failing(cand) {
				cur = cand
				progress = true
			} else {
				at += chunk
			}
		}
		if chunk > 1 {
			chunk /= 2
		} else if !progress {
			break
		}
	}
	return cur
}

// writeExtraCases writes further case files cases_<prop>_<i>.v, i = first, first+1, ... — one per element of
// files — in the format of vlib.Result.WriteCases (which always numbers its own files from 0).
func writeExtraCases(res *vlib.Result, header, caseType, mismatchFn string, files [][]string, first int) {
	for i, cases := range files {
		if len(cases) == 0 {
			continue
		}
		name := fmt.Sprintf("cases_%s_%d.v", res.Property, first+i)
		var sb strings.Builder
		sb.WriteString(header + "\n")
		sb.WriteString("From Coq Require Import List NArith ZArith String.\nImport ListNotations.\nOpen Scope string_scope.\nOpen Scope N_scope.\n")
		sb.WriteString(fmt.Sprintf("Definition cases : list %s :=\n %s.\n", caseType, vlib.CoqList(cases)))
		sb.WriteString(fmt.Sprintf("Definition M := Eval vm_compute in %s cases.\nPrint M.\n", mismatchFn))
		os.WriteFile(filepath.Join(outDir, name), []byte(sb.String()), 0o644)
		res.KCaseFiles = append(res.KCaseFiles, fmt.Sprintf("%s:%d", name, res.KCases))
		res.KCases += len(cases)
	}
}

var outDir string
