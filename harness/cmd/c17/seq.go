// Sequential part of the C17 harness: random single-threaded programs over the real cache,
// (P) the property clauses checked directly on the implementation, (K) the observations rendered
// as Coq cases for Corr/C17Run.v.
package main

import (
	"fmt"
	"sort"
	"strings"

	"github.com/syndtr/goleveldb/leveldb/cache"
	"verifharness/lib/vlib"
)

// ---- programs

const (
	opGet = iota
	opRelease
	opDelete
	opEvict
	opEvictNS
	opEvictAll
	opSetCap
	opClose
)

// Op is one operation of a sequential program (also the replay format).
type Op struct {
	Kind  int    `json:"k"`
	NS    uint64 `json:"ns,omitempty"`
	Key   uint64 `json:"key,omitempty"`
	SF    int    `json:"sf,omitempty"`   // Get: 0 nil setFunc, 1 setFunc returns a value, 2 setFunc returns nil
	Size  int    `json:"size,omitempty"` // Get: size returned by setFunc
	H     int    `json:"h,omitempty"`    // Release: handle index (in order of creation; may be stale or out of range)
	WD    bool   `json:"wd,omitempty"`   // Delete: with delFunc
	Cap   int    `json:"cap,omitempty"`  // SetCapacity
	Force bool   `json:"force,omitempty"`
}

func (o Op) String() string {
	switch o.Kind {
	case opGet:
		return fmt.Sprintf("Get(%d,%d,sf=%d,size=%d)", o.NS, o.Key, o.SF, o.Size)
	case opRelease:
		return fmt.Sprintf("Release(h%d)", o.H)
	case opDelete:
		return fmt.Sprintf("Delete(%d,%d,del=%v)", o.NS, o.Key, o.WD)
	case opEvict:
		return fmt.Sprintf("Evict(%d,%d)", o.NS, o.Key)
	case opEvictNS:
		return fmt.Sprintf("EvictNS(%d)", o.NS)
	case opEvictAll:
		return "EvictAll"
	case opSetCap:
		return fmt.Sprintf("SetCapacity(%d)", o.Cap)
	default:
		return fmt.Sprintf("Close(%v)", o.Force)
	}
}

// SeqCase is a sequential program: the cache's construction parameters and the operations.
type SeqCase struct {
	Cacher bool `json:"cacher"` // false: cache.NewCache(nil)
	Cap    int  `json:"cap"`
	Ops    []Op `json:"ops"`
}

// ---- instrumented values

type kkey struct{ ns, key uint64 }

type sval struct {
	id      int
	k       kkey
	size    int
	fin     int
	holders int
	banned  bool // a Delete found this value's node: it must never be linked in the LRU again
	run     *seqRun
}

// Release is the finaliser (util.Releaser).
func (v *sval) Release() {
	r := v.run
	v.fin++
	r.cur = append(r.cur, xev{'F', v.id, 0, v.k})
	if v.fin > 1 {
		r.fail("value %d of (%d,%d) finalised %d times", v.id, v.k.ns, v.k.key, v.fin)
	}
	if v.holders > 0 && !r.inForceClose {
		r.fail("value %d of (%d,%d) finalised while %d handle(s) outstanding (no force-close in progress)", v.id, v.k.ns, v.k.key, v.holders)
	}
	if r.live[v.k] == v {
		delete(r.live, v.k)
	}
}

type sdel struct {
	id     int
	k      kkey
	ran    int
	target *sval // the value live for the key when Delete was called (nil: none)
	inCall bool
}

type xev struct {
	kind byte // 'C' 'S' 'F' 'D'
	id   int
	size int
	k    kkey
}

type seqRun struct {
	c            *cache.Cache
	cacher       cache.Cacher
	vals         []*sval
	live         map[kkey]*sval
	handles      []*cache.Handle
	hval         []*sval
	hlive        []bool
	dels         []*sdel
	closed       bool
	forced       bool
	inForceClose bool
	cur          []xev
	fails        []string
	opIdx        int
	curOp        Op
	stats        map[string]int
}

func (r *seqRun) fail(f string, a ...interface{}) {
	if len(r.fails) < 5 {
		r.fails = append(r.fails, fmt.Sprintf("op %d %s: ", r.opIdx, r.curOp)+fmt.Sprintf(f, a...))
	}
}

type seqOutcome struct {
	fails   []string
	kcase   string
	stats   map[string]int
	nontriv bool
	sig     string
}

func coqSF(o Op) string {
	switch o.SF {
	case 0:
		return "SfNil"
	case 1:
		return fmt.Sprintf("(SfRet %d true)", o.Size)
	default:
		return fmt.Sprintf("(SfRet %d false)", o.Size)
	}
}

func coqOp(o Op) string {
	switch o.Kind {
	case opGet:
		return fmt.Sprintf("(OGet %d %d %s)", o.NS, o.Key, coqSF(o))
	case opRelease:
		return fmt.Sprintf("(ORelease %d)", o.H)
	case opDelete:
		return fmt.Sprintf("(ODelete %d %d %s)", o.NS, o.Key, vlib.CoqBool(o.WD))
	case opEvict:
		return fmt.Sprintf("(OEvict %d %d)", o.NS, o.Key)
	case opEvictNS:
		return fmt.Sprintf("(OEvictNS %d)", o.NS)
	case opEvictAll:
		return "OEvictAll"
	case opSetCap:
		return fmt.Sprintf("(OSetCap %d)", o.Cap)
	default:
		return fmt.Sprintf("(OClose %s)", vlib.CoqBool(o.Force))
	}
}

func coqZ(x int64) string {
	if x < 0 {
		return fmt.Sprintf("(%d)", x)
	}
	return fmt.Sprintf("%d", x)
}

// runSeq runs the program on a fresh real cache.  dumpEvery: a table dump (KD step + census) after
// every dumpEvery-th operation (and after the last); wantK: render the Coq case.
func runSeq(sc SeqCase, dumpEvery int, wantK bool) (out seqOutcome) {
	r := &seqRun{live: map[kkey]*sval{}, stats: map[string]int{}}
	defer func() {
		if p := recover(); p != nil {
			r.fail("panic: %v", p)
			out.fails = r.fails
			out.stats = r.stats
		}
	}()
	if sc.Cacher {
		r.cacher = cache.NewLRU(sc.Cap)
	}
	r.c = cache.NewCache(r.cacher)
	var steps []string
	grows, shrinks := 0, 0
	for i, o := range sc.Ops {
		r.opIdx, r.curOp = i, o
		r.cur = r.cur[:0]
		var res string
		enumerating := false
		switch o.Kind {
		case opGet:
			k := kkey{o.NS, o.Key}
			var sf func() (int, cache.Value)
			ran := false
			var made *sval
			if o.SF != 0 {
				sf = func() (int, cache.Value) {
					if ran {
						r.fail("setFunc called twice in one Get")
					}
					ran = true
					if lv := r.live[k]; lv != nil {
						r.fail("constructor ran for (%d,%d) while value %d of the same key is live (second construction in one residency)", k.ns, k.key, lv.id)
					}
					if o.SF == 2 {
						r.cur = append(r.cur, xev{'S', 0, 0, k})
						return o.Size, nil
					}
					made = &sval{id: len(r.vals), k: k, size: o.Size, run: r}
					r.vals = append(r.vals, made)
					r.live[k] = made
					r.cur = append(r.cur, xev{'C', made.id, o.Size, k})
					return o.Size, made
				}
			}
			h := r.c.Get(o.NS, o.Key, sf)
			if ran {
				r.stats["get_miss"]++
			} else if h != nil {
				r.stats["get_hit"]++
			} else {
				r.stats["get_nil_nosf"]++
			}
			if h == nil {
				res = "(RGet None)"
				if made != nil && made.fin == 0 {
					r.fail("Get constructed value %d but returned a nil handle and did not finalise it", made.id)
				}
			} else {
				v, _ := h.Value().(*sval)
				if v == nil {
					r.fail("Get returned a handle whose Value() is nil")
					res = "(RGet None)"
				} else {
					if r.closed {
						r.fail("Get on a closed cache returned a handle")
					}
					if v.fin > 0 {
						r.fail("Get handed out value %d which was already finalised", v.id)
					}
					if v.k != k {
						r.fail("Get(%d,%d) handed out the value of (%d,%d)", k.ns, k.key, v.k.ns, v.k.key)
					}
					if r.live[k] != v {
						r.fail("Get handed out value %d but the live value of the key is another one", v.id)
					}
					if made != nil && made != v {
						r.fail("Get constructed value %d but handed out value %d", made.id, v.id)
					}
					v.holders++
					r.handles = append(r.handles, h)
					r.hval = append(r.hval, v)
					r.hlive = append(r.hlive, true)
					res = fmt.Sprintf("(RGet (Some (%d,%d)))", len(r.handles)-1, v.id)
				}
			}
		case opRelease:
			if o.H >= 0 && o.H < len(r.handles) {
				if r.hlive[o.H] {
					r.hlive[o.H] = false
					r.hval[o.H].holders--
					r.stats["release"]++
				} else {
					r.stats["release_again"]++
				}
				r.handles[o.H].Release()
			} else {
				r.stats["release_nil"]++
			}
			res = "RUnit"
		case opDelete:
			k := kkey{o.NS, o.Key}
			var df func()
			var d *sdel
			if o.WD && !r.closed {
				d = &sdel{id: len(r.dels), k: k, target: r.live[k], inCall: true}
				r.dels = append(r.dels, d)
			}
			if o.WD {
				dd := d
				df = func() {
					if dd == nil {
						r.fail("delFunc of a Delete on a closed cache ran")
						return
					}
					dd.ran++
					r.cur = append(r.cur, xev{'D', dd.id, 0, dd.k})
					if dd.ran > 1 {
						r.fail("delFunc %d ran %d times", dd.id, dd.ran)
					}
					if dd.target != nil {
						if dd.target.fin == 0 {
							r.fail("delFunc %d of (%d,%d) ran before the value %d it was attached to was finalised", dd.id, dd.k.ns, dd.k.key, dd.target.id)
						}
						if dd.target.holders > 0 && !r.inForceClose {
							r.fail("delFunc %d ran while %d handle(s) of value %d are outstanding", dd.id, dd.target.holders, dd.target.id)
						}
					} else if !dd.inCall {
						r.fail("delFunc %d of an absent key ran after Delete returned", dd.id)
					}
				}
			}
			target := r.live[k]
			b := r.c.Delete(o.NS, o.Key, df)
			if d != nil {
				d.inCall = false
				if !b && d.ran != 1 {
					r.fail("Delete of an absent key returned without running its delFunc (ran=%d)", d.ran)
				}
			}
			if !r.closed && b != (target != nil) {
				r.fail("Delete returned %v but a live value for the key existed=%v", b, target != nil)
			}
			if b && target != nil {
				target.banned = true
				if target.holders > 0 {
					r.stats["delete_while_held"]++
				}
			}
			r.stats[fmt.Sprintf("delete_%v", b)]++
			res = fmt.Sprintf("(RBool %s)", vlib.CoqBool(b))
		case opEvict:
			k := kkey{o.NS, o.Key}
			target := r.live[k]
			b := r.c.Evict(o.NS, o.Key)
			if !r.closed && b != (target != nil) {
				r.fail("Evict returned %v but a live value for the key existed=%v", b, target != nil)
			}
			r.stats[fmt.Sprintf("evict_%v", b)]++
			res = fmt.Sprintf("(RBool %s)", vlib.CoqBool(b))
		case opEvictNS:
			enumerating = true
			r.c.EvictNS(o.NS)
			for _, e := range r.cur {
				if e.k.ns != o.NS {
					r.fail("EvictNS(%d) finalised something of namespace %d", o.NS, e.k.ns)
				}
			}
			res = "RUnit"
		case opEvictAll:
			enumerating = true
			r.c.EvictAll()
			res = "RUnit"
		case opSetCap:
			r.c.SetCapacity(o.Cap)
			res = "RUnit"
		case opClose:
			enumerating = true
			if o.Force {
				r.inForceClose = true
			}
			r.c.Close(o.Force)
			r.inForceClose = false
			if !r.closed {
				r.closed = true
				r.forced = o.Force
				r.stats[fmt.Sprintf("close_force_%v", o.Force)]++
				if o.Force {
					for _, v := range r.vals {
						if v.fin != 1 {
							r.fail("after Close(true) value %d has been finalised %d times", v.id, v.fin)
						}
					}
				}
			}
			res = "RUnit"
		}
		if enumerating {
			sort.SliceStable(r.cur, func(a, b int) bool {
				x, y := r.cur[a].k, r.cur[b].k
				if x.ns != y.ns {
					return x.ns < y.ns
				}
				return x.key < y.key
			})
		}
		// ---- (P) after every operation
		if !r.forced {
			for hi, lv := range r.hlive {
				if lv && r.hval[hi].fin > 0 {
					r.fail("handle %d is outstanding but its value %d has been finalised", hi, r.hval[hi].id)
				}
			}
		}
		capNow, used, order, isLRU := cache.VerifLRU(r.cacher)
		if isLRU {
			if used > capNow {
				r.fail("lru used %d exceeds capacity %d after the operation", used, capNow)
			}
			sum := 0
			for _, e := range order {
				sum += e.Size
			}
			if sum != used {
				r.fail("lru used %d differs from the total charge %d of the %d linked entries", used, sum, len(order))
			}
			if len(order) > 0 && r.closed {
				r.fail("%d entries still linked in the LRU after Close", len(order))
			}
		}
		if !r.closed {
			sz := 0
			for _, v := range r.live {
				sz += v.size
			}
			if r.c.Nodes() != len(r.live) || r.c.Size() != sz {
				r.fail("Nodes()=%d Size()=%d but %d values are live with total size %d", r.c.Nodes(), r.c.Size(), len(r.live), sz)
			}
		}
		if r.c.Capacity() != capNow {
			r.fail("Capacity()=%d but lru capacity is %d", r.c.Capacity(), capNow)
		}
		if wantK {
			evs := make([]string, len(r.cur))
			for j, e := range r.cur {
				switch e.kind {
				case 'C':
					evs[j] = fmt.Sprintf("XC %d %d", e.id, e.size)
				case 'S':
					evs[j] = "XS"
				case 'F':
					evs[j] = fmt.Sprintf("XF %d", e.id)
				default:
					evs[j] = fmt.Sprintf("XD %d", e.id)
				}
			}
			steps = append(steps, fmt.Sprintf("K %s %s [%s] %s %s %s %d", coqOp(o), res, strings.Join(evs, ";"),
				coqZ(int64(r.c.Nodes())), coqZ(int64(r.c.Size())), coqZ(int64(used)), r.c.Capacity()))
		}
		last := i == len(sc.Ops)-1
		if (dumpEvery > 0 && (i+1)%dumpEvery == 0) || last {
			infos, ok := r.c.VerifNodes()
			if ok {
				for _, ni := range infos {
					v, _ := ni.Value.(*sval)
					k := kkey{ni.NS, ni.Key}
					if v == nil {
						r.fail("node (%d,%d) is in the table without a value between operations", ni.NS, ni.Key)
						continue
					}
					if r.live[k] != v {
						r.fail("node (%d,%d) holds value %d which is not the live value of the key", ni.NS, ni.Key, v.id)
					}
					want := v.holders
					if ni.LRU == 1 {
						want++
					}
					if int(ni.Ref) != want {
						r.fail("node (%d,%d): ref=%d but %d handle(s) outstanding and linked-in-LRU=%v", ni.NS, ni.Key, ni.Ref, v.holders, ni.LRU == 1)
					}
					if ni.Ref <= 0 {
						r.fail("node (%d,%d) has ref %d while linked in the table", ni.NS, ni.Key, ni.Ref)
					}
					if v.banned && ni.LRU == 1 {
						r.fail("node (%d,%d) was banned by Delete but is linked in the LRU again", ni.NS, ni.Key)
					}
					if v.banned && r.cacher != nil && ni.LRU != 2 {
						r.fail("node (%d,%d) was banned by Delete but its ban mark is gone (state %d)", ni.NS, ni.Key, ni.LRU)
					}
				}
				if len(infos) != len(r.live) {
					r.fail("%d nodes in the table but %d live values", len(infos), len(r.live))
				}
			}
			if wantK {
				nodes := "None"
				if ok {
					items := make([]string, len(infos))
					for j, ni := range infos {
						items[j] = fmt.Sprintf("NI %d %d %s %d %d %s", ni.NS, ni.Key, coqZ(int64(ni.Ref)), ni.Size, ni.LRU, vlib.CoqBool(ni.HasValue))
					}
					nodes = "(Some [" + strings.Join(items, ";") + "])"
				}
				ord := make([]string, len(order))
				for j, e := range order {
					ord[j] = fmt.Sprintf("(%d,%d)", e.NS, e.Key)
				}
				steps = append(steps, fmt.Sprintf("KD %s [%s]", nodes, strings.Join(ord, ";")))
			}
		}
		if len(r.fails) > 0 {
			break
		}
	}
	// ---- (P) end of program: when closed and every handle released, everything constructed has been
	// finalised exactly once and every accepted delFunc ran exactly once
	if len(r.fails) == 0 && r.closed {
		outstanding := 0
		for _, lv := range r.hlive {
			if lv {
				outstanding++
			}
		}
		if outstanding == 0 {
			for _, v := range r.vals {
				if v.fin != 1 {
					r.opIdx = len(sc.Ops)
					r.fail("closed and all handles released, but value %d of (%d,%d) was finalised %d times", v.id, v.k.ns, v.k.key, v.fin)
				}
			}
			for _, d := range r.dels {
				if d.ran != 1 {
					r.opIdx = len(sc.Ops)
					r.fail("closed and all handles released, but delFunc %d of (%d,%d) ran %d times", d.id, d.k.ns, d.k.key, d.ran)
				}
			}
			r.stats["ended_closed_all_released"]++
		}
	}
	{
		// also after Close (GetStats used to dereference the nil table head there)
		st := r.c.GetStats()
		grows, shrinks = int(st.GrowCount), int(st.ShrinkCount)
	}
	if grows > 0 {
		r.stats["case_with_table_grow"]++
	}
	if shrinks > 0 {
		r.stats["case_with_table_shrink"]++
	}
	out.fails = r.fails
	out.stats = r.stats
	out.nontriv = r.stats["get_hit"] > 0 && r.stats["get_miss"] > 0 && len(r.vals) > 1
	if wantK {
		out.kcase = fmt.Sprintf("Case %s %d [%s]", vlib.CoqBool(sc.Cacher), sc.Cap, strings.Join(steps, ";\n  "))
	}
	return out
}

// ---- generator

func pickSize(r *vlib.RNG, capNow int) int {
	switch r.Pick(2, 3, 3, 2, 2, 3) {
	case 0:
		return 0
	case 1:
		return 1
	case 2:
		return capNow
	case 3:
		return capNow + 1
	case 4:
		if capNow > 1 {
			return capNow - 1
		}
		return 1
	default:
		return r.Intn(capNow + 3)
	}
}

var capChoices = []int{0, 0, 1, 1, 2, 3, 4, 6, 10, 20, 50}

// genSeq generates one random program.  The generator tracks only what it needs to aim operations
// (which handle indexes exist, the capacity); it never predicts outcomes.
func genSeq(r *vlib.RNG) SeqCase {
	sc := SeqCase{Cacher: !r.Chance(1, 8), Cap: capChoices[r.Intn(len(capChoices))]}
	nKeys := []int{2, 4, 4, 8, 16, 64}[r.Intn(6)]
	nNS := r.Range(1, 3)
	n := r.Range(10, 160)
	capNow := sc.Cap
	nh := 0 // handles created so far: unknown exactly (Get may return nil); upper bound used for aiming
	// operation profile
	w := [8]int{40, 26, 8, 6, 3, 2, 4, 0}
	switch r.Intn(5) {
	case 0:
		w = [8]int{30, 20, 20, 6, 3, 2, 3, 0} // delete heavy
	case 1:
		w = [8]int{30, 20, 5, 16, 8, 5, 3, 0} // evict heavy
	case 2:
		w = [8]int{35, 25, 6, 5, 2, 1, 14, 0} // capacity jitter
	case 3:
		w = [8]int{50, 12, 6, 5, 2, 1, 4, 0} // handles pile up
	}
	closeAt := -1
	if r.Chance(1, 2) {
		closeAt = r.Range(n/2, n)
	}
	key := func() (uint64, uint64) {
		ns := uint64(r.Intn(nNS))
		var k uint64
		if r.Chance(1, 2) {
			k = uint64(r.Intn(2)) // hot keys
		} else {
			k = uint64(r.Intn(nKeys))
		}
		if r.Chance(1, 16) {
			k |= uint64(r.Intn(3)) << 32 // exercise the high halves of the hash input
			ns |= uint64(r.Intn(2)) << 40
		}
		return ns, k
	}
	closed := false
	for i := 0; i < n; i++ {
		if i == closeAt && !closed {
			sc.Ops = append(sc.Ops, Op{Kind: opClose, Force: r.Bool()})
			closed = true
			continue
		}
		switch r.Pick(w[:]...) {
		case opGet:
			ns, k := key()
			o := Op{Kind: opGet, NS: ns, Key: k}
			switch r.Pick(12, 2, 1) {
			case 0:
				o.SF, o.Size = 1, pickSize(r, capNow)
			case 1:
				o.SF = 0
			default:
				o.SF, o.Size = 2, pickSize(r, capNow)
			}
			sc.Ops = append(sc.Ops, o)
			nh++
		case opRelease:
			h := 0
			if nh > 0 {
				if r.Chance(2, 3) {
					h = nh - 1 - r.Intn(minInt(nh, 6)) // recent handles
				} else {
					h = r.Intn(nh + 1)
				}
			}
			sc.Ops = append(sc.Ops, Op{Kind: opRelease, H: h})
		case opDelete:
			ns, k := key()
			sc.Ops = append(sc.Ops, Op{Kind: opDelete, NS: ns, Key: k, WD: r.Chance(2, 3)})
		case opEvict:
			ns, k := key()
			sc.Ops = append(sc.Ops, Op{Kind: opEvict, NS: ns, Key: k})
		case opEvictNS:
			ns, _ := key()
			sc.Ops = append(sc.Ops, Op{Kind: opEvictNS, NS: ns})
		case opEvictAll:
			sc.Ops = append(sc.Ops, Op{Kind: opEvictAll})
		case opSetCap:
			capNow = capChoices[r.Intn(len(capChoices))]
			if r.Chance(1, 4) {
				capNow = r.Intn(8)
			}
			sc.Ops = append(sc.Ops, Op{Kind: opSetCap, Cap: capNow})
		}
	}
	// ending: most programs close (if not yet) and release every handle, so that the exactly-once
	// clauses can be evaluated at the end
	if r.Chance(5, 6) {
		if !closed {
			switch r.Intn(3) {
			case 0:
				sc.Ops = append(sc.Ops, Op{Kind: opEvictAll})
			case 1:
				sc.Ops = append(sc.Ops, Op{Kind: opSetCap, Cap: 0})
			}
			relFirst := r.Chance(1, 3)
			if relFirst {
				for _, h := range permN(r, nh) {
					sc.Ops = append(sc.Ops, Op{Kind: opRelease, H: h})
				}
			}
			sc.Ops = append(sc.Ops, Op{Kind: opClose, Force: r.Bool()})
			if r.Chance(1, 4) {
				sc.Ops = append(sc.Ops, Op{Kind: opClose, Force: r.Bool()})
			}
		}
		for _, h := range permN(r, nh) {
			sc.Ops = append(sc.Ops, Op{Kind: opRelease, H: h})
		}
		// operations on a closed cache
		if r.Chance(1, 3) {
			ns, k := key()
			sc.Ops = append(sc.Ops, Op{Kind: opGet, NS: ns, Key: k, SF: 1, Size: 1},
				Op{Kind: opDelete, NS: ns, Key: k, WD: true}, Op{Kind: opEvict, NS: ns, Key: k},
				Op{Kind: opEvictNS, NS: ns}, Op{Kind: opEvictAll}, Op{Kind: opSetCap, Cap: r.Intn(5)})
		}
	}
	return sc
}

func minInt(a, b int) int {
	if a < b {
		return a
	}
	return b
}

func permN(r *vlib.RNG, n int) []int {
	p := make([]int, n)
	for i := range p {
		p[i] = i
	}
	for i := n - 1; i > 0; i-- {
		j := r.Intn(i + 1)
		p[i], p[j] = p[j], p[i]
	}
	return p
}

// genBig generates a program that drives the hash table across its growth threshold
// (mInitialSize*mOverflowThreshold = 512 nodes) and back under the shrink threshold.
func genBig(r *vlib.RNG, variant int) SeqCase {
	initial, overflow, _ := cache.VerifConsts()
	target := initial*overflow + r.Range(20, 90)
	sc := SeqCase{Cacher: variant != 1, Cap: target + 200}
	nNS := r.Range(1, 3)
	nh := 0
	held := variant == 1 || variant == 2 // keep the handles (variant 1: nil cacher, nodes live only through handles)
	for i := 0; i < target; i++ {
		ns, k := uint64(i%nNS), uint64(i/nNS)
		sc.Ops = append(sc.Ops, Op{Kind: opGet, NS: ns, Key: k, SF: 1, Size: 1})
		nh++
		if !held {
			sc.Ops = append(sc.Ops, Op{Kind: opRelease, H: nh - 1})
		}
		if i%97 == 5 {
			ns2, k2 := uint64(r.Intn(nNS)), uint64(r.Intn(i/nNS+1))
			sc.Ops = append(sc.Ops, Op{Kind: opGet, NS: ns2, Key: k2, SF: 0})
			nh++
			sc.Ops = append(sc.Ops, Op{Kind: opRelease, H: nh - 1})
		}
	}
	// shrink
	switch variant {
	case 0:
		sc.Ops = append(sc.Ops, Op{Kind: opSetCap, Cap: r.Range(3, 12)})
	case 1:
		for _, h := range permN(r, nh) {
			sc.Ops = append(sc.Ops, Op{Kind: opRelease, H: h})
		}
	case 2:
		sc.Ops = append(sc.Ops, Op{Kind: opEvictAll})
		for _, h := range permN(r, nh) {
			if r.Chance(1, 50) {
				continue
			}
			sc.Ops = append(sc.Ops, Op{Kind: opRelease, H: h})
		}
	default:
		for ns := 0; ns < nNS; ns++ {
			sc.Ops = append(sc.Ops, Op{Kind: opEvictNS, NS: uint64(ns)})
		}
	}
	// some ordinary traffic on the shrunk table, then close
	for i := 0; i < 40; i++ {
		ns, k := uint64(r.Intn(nNS)), uint64(r.Intn(12))
		switch r.Intn(4) {
		case 0, 1:
			sc.Ops = append(sc.Ops, Op{Kind: opGet, NS: ns, Key: k, SF: 1, Size: r.Range(0, 3)})
			nh++
			if r.Bool() {
				sc.Ops = append(sc.Ops, Op{Kind: opRelease, H: nh - 1})
			}
		case 2:
			sc.Ops = append(sc.Ops, Op{Kind: opDelete, NS: ns, Key: k, WD: true})
		default:
			sc.Ops = append(sc.Ops, Op{Kind: opEvict, NS: ns, Key: k})
		}
	}
	sc.Ops = append(sc.Ops, Op{Kind: opClose, Force: r.Bool()})
	for h := nh - 1; h >= 0 && h > nh-60; h-- {
		sc.Ops = append(sc.Ops, Op{Kind: opRelease, H: h})
	}
	return sc
}
