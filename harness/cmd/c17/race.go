// Experiment (not part of the default run; `--extra closerace`): tries to reproduce on the real cache the
// interleaving that the LTS model exhibits (Coq: close_race_refuted): goroutine A releases the last handle
// (count 1 -> 0), goroutine B's Get revives the still-linked node (0 -> 1), goroutine C calls Close(false),
// and only then A reaches `if n.r.closed { n.callFinalizer() }` in unRefExternal — finalising the value
// under B's handle although the cache was not force-closed.  The window is a few instructions wide; without
// a yield hook between the decrement and RLock it is a matter of luck.
package main

import (
	"runtime"
	"sync"
	"sync/atomic"
	"time"

	"github.com/syndtr/goleveldb/leveldb/cache"
)

type rval struct{ fin int32 }

func (v *rval) Release() { atomic.AddInt32(&v.fin, 1) }

// closeRaceExperiment returns (trials, reproductions).
func closeRaceExperiment(d time.Duration) (int, int) {
	deadline := time.Now().Add(d)
	trials, hits := 0, 0
	old := runtime.GOMAXPROCS(0)
	defer runtime.GOMAXPROCS(old)
	for time.Now().Before(deadline) {
		for k := 0; k < 2000; k++ {
			trials++
			c := cache.NewCache(nil)
			v := &rval{}
			h := c.Get(0, 0, func() (int, cache.Value) { return 1, v })
			var wg sync.WaitGroup
			var h2 *cache.Handle
			start := make(chan struct{})
			wg.Add(3)
			go func() { defer wg.Done(); <-start; h.Release() }()
			go func() {
				defer wg.Done()
				<-start
				for i := 0; i < 3 && h2 == nil; i++ {
					h2 = c.Get(0, 0, nil)
				}
			}()
			go func() {
				defer wg.Done()
				<-start
				for i := 0; i < k%7; i++ {
					runtime.Gosched()
				}
				c.Close(false)
			}()
			close(start)
			wg.Wait()
			if h2 != nil {
				// B holds a handle obtained from an open cache; the cache was closed without force:
				// the value must not be finalised before B releases
				if atomic.LoadInt32(&v.fin) != 0 {
					hits++
				}
				h2.Release()
			}
		}
	}
	return trials, hits
}

// forceCloseRaceExperiment: Close(true) racing the Release of the last handle.  Both Close(true)'s loop and
// unRefExternal's closed branch call n.callFinalizer() without mutual exclusion; a value finalised twice is a
// reproduction.  Returns (trials, reproductions).
func forceCloseRaceExperiment(d time.Duration) (int, int) {
	deadline := time.Now().Add(d)
	trials, hits := 0, 0
	for time.Now().Before(deadline) {
		for k := 0; k < 2000; k++ {
			trials++
			c := cache.NewCache(nil)
			v := &rval{}
			h := c.Get(0, 0, func() (int, cache.Value) { return 1, v })
			var wg sync.WaitGroup
			start := make(chan struct{})
			wg.Add(2)
			go func() { defer wg.Done(); <-start; h.Release() }()
			go func() {
				defer wg.Done()
				<-start
				for i := 0; i < k%5; i++ {
					runtime.Gosched()
				}
				c.Close(true)
			}()
			close(start)
			wg.Wait()
			if atomic.LoadInt32(&v.fin) > 1 {
				hits++
			}
		}
	}
	return trials, hits
}

// closeDeadlockExperiment: on the tree as found Get held Cache.mu.RLock for its whole duration; when its Promote
// evicted another node, the lru handle's Release ran unRefExternal, which (count 0) took Cache.mu.RLock AGAIN.
// sync.RWMutex forbids recursive read locking: with Close waiting in Lock between the two, both blocked forever
// (Coq: C17_close_deadlock_as_found; 3 deadlocks in 46-131 trials).  Repaired by giving the operations a lock
// of their own (Cache.opMu); Coq: C17_close_repaired_no_wait_cycle.
// Returns (trials, deadlocks).  A deadlocked trial leaks its goroutines.
func closeDeadlockExperiment(d time.Duration) (int, int) {
	deadline := time.Now().Add(d)
	trials, hits := 0, 0
	for time.Now().Before(deadline) && hits < 3 {
		trials++
		c := cache.NewCache(cache.NewLRU(1))
		done := make(chan struct{}, 2)
		go func() {
			for k := uint64(0); k < 200; k++ {
				if h := c.Get(0, k, func() (int, cache.Value) { return 1, &rval{} }); h != nil {
					h.Release()
				}
			}
			done <- struct{}{}
		}()
		go func() {
			for i := 0; i < trials%50; i++ {
				runtime.Gosched()
			}
			c.Close(false)
			done <- struct{}{}
		}()
		ok := 0
		timeout := time.After(2 * time.Second)
	wait:
		for ok < 2 {
			select {
			case <-done:
				ok++
			case <-timeout:
				hits++
				break wait
			}
		}
	}
	return trials, hits
}


// doubleReleaseRaceExperiment: "It is safe to call release multiple times" (Handle.Release) — also from two goroutines at
// once: exactly one of them may drop the reference.  Two goroutines release the SAME handle while a second handle to the
// same node is outstanding: the value must not be finalised (and the node must stay) until that second handle is released,
// and it must be finalised exactly once afterwards.  Returns (trials, reproductions).
func doubleReleaseRaceExperiment(d time.Duration) (int, int) {
	deadline := time.Now().Add(d)
	trials, hits := 0, 0
	for time.Now().Before(deadline) {
		c := cache.NewCache(nil)
		for k := 0; k < 2000; k++ {
			trials++
			v := &rval{}
			key := uint64(k)
			h1 := c.Get(0, key, func() (int, cache.Value) { return 1, v })
			h2 := c.Get(0, key, nil)
			if h1 == nil || h2 == nil {
				continue
			}
			var wg sync.WaitGroup
			start := make(chan struct{})
			wg.Add(2)
			for g := 0; g < 2; g++ {
				go func() { defer wg.Done(); <-start; h1.Release() }()
			}
			close(start)
			wg.Wait()
			bad := atomic.LoadInt32(&v.fin) != 0 || h2.Value() == nil
			h2.Release()
			if !bad && atomic.LoadInt32(&v.fin) != 1 {
				bad = true
			}
			if bad {
				hits++
			}
		}
		c.Close(true)
	}
	return trials, hits
}
