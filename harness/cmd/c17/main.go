// c17: the shared cache never hands out a dead value and respects its capacity.
//
//	(K) exact sequential agreement between the real cache (cache.NewCache(cache.NewLRU(n)) and
//	    cache.NewCache(nil)) and the Coq model Conc/Cache.v on random single-threaded programs; of the
//	    real node table (heads, bucket states, placement, counters) and murmur32 with Conc/CacheTable.v
//	    (table.go);
//	(P) the property clauses evaluated directly on the implementation: sequentially at high volume
//	    (seq.go) and under concurrent stress with instrumented values (stress.go).
package main

import (
	"encoding/json"
	"fmt"
	"os"
	"runtime"
	"sync"
	"time"

	"verifharness/lib/vlib"
)

type replayFile struct {
	Property string `json:"property"`
	Desc     string `json:"desc"`
	Case     struct {
		Mode   string     `json:"mode"`
		Seq    *SeqCase   `json:"seq,omitempty"`
		Table  *TblCase   `json:"table,omitempty"`
		Stress *StressCfg `json:"stress,omitempty"`
	} `json:"case"`
}

func main() {
	a := vlib.ParseArgs()
	outDir = a.Out
	res := vlib.NewResult("C17", a.Out, "sequential: random programs of Get/Release/Delete/Evict/EvictNS/EvictAll/SetCapacity/Close over 2-64 keys x 1-3 namespaces, capacity 0..50 (nil cacher 1/8), sizes around the capacity, plus programs crossing the table's growth threshold and shrinking again; non-trivial = the program had both hits and misses and constructed more than one value. stress: 2-32 goroutines over overlapping keys; non-trivial = at least one value was finalised while another goroutine's Get was in flight on the same key set (constructions > keys). node table: programs of get-or-create / lookup / release-to-removal / stale delete / enumerate / forced initBucket calls on the real table (nil cacher) with colliding keys (overflow-triggered grows), enough spread keys for the count-triggered grow, and removal down through the shrinks; non-trivial = nodes were created, found and removed")
	defer res.Write()
	t0 := time.Now()

	if a.Replay != "" {
		replay(a, res)
		return
	}
	if a.Extra == "closerace" {
		// experiment only: never reported as a violation (see race.go and the report)
		trials, hits := closeRaceExperiment(60 * time.Second)
		res.Extra["closerace_trials"] = trials
		res.Extra["closerace_reproductions"] = hits
		fmt.Printf("closerace: %d trials, %d reproductions\n", trials, hits)
		t2, h2 := forceCloseRaceExperiment(40 * time.Second)
		res.Extra["forcecloserace_trials"] = t2
		res.Extra["forcecloserace_double_finalisations"] = h2
		fmt.Printf("forcecloserace: %d trials, %d double finalisations\n", t2, h2)
		t3, h3 := closeDeadlockExperiment(30 * time.Second)
		res.Extra["closedeadlock_trials"] = t3
		res.Extra["closedeadlock_deadlocks"] = h3
		fmt.Printf("closedeadlock: %d trials, %d deadlocks\n", t3, h3)
		return
	}

	nK, nBigK, nP, nStress := 256, 2, 24000, 40
	if a.Thorough() {
		nK, nBigK, nP, nStress = 1000, 6, 1500000, 2000
	}
	seqBudget, stressBudget := 25*time.Second, 20*time.Second
	if a.Thorough() {
		seqBudget, stressBudget = 6*time.Minute, 8*time.Minute
	}
	if a.Extra == "search" {
		// the check driver's search step: no (K) cases, a bounded burst of the (P) oracles
		nK, nBigK = 0, 0
		seqBudget, stressBudget = 50*time.Second, 70*time.Second
	}
	root := vlib.NewRNG(a.Seed)

	// ---- (K) cases (each also evaluated by the (P) oracle)
	var cases []string
	var bigs []string
	rk := root.Fork()
	for i := 0; i < nK; i++ {
		sc := genSeq(rk)
		o := runSeq(sc, 1+rk.Intn(6), true)
		record(res, "seq", &sc, nil, o)
		cases = append(cases, o.kcase)
	}
	for i := 0; i < nBigK; i++ {
		sc := genBig(rk, i%4)
		o := runSeq(sc, len(sc.Ops)/3+1, true)
		record(res, "seq", &sc, nil, o)
		bigs = append(bigs, o.kcase)
	}
	if len(cases) > 0 {
		res.WriteCases("From GL Require Import Conc.Cache Corr.C17Run.", "c17case", "mismatches", cases, 16)
		// each big (table-resizing) program is a file of its own, after the 16 shards
		var bigFiles [][]string
		for _, b := range bigs {
			bigFiles = append(bigFiles, []string{b})
		}
		writeExtraCases(res, "From GL Require Import Conc.Cache Corr.C17Run.", "c17case", "mismatches", bigFiles, 16)
	}
	res.Count("k_cases_big_resize", len(bigs))

	// ---- the node table against Conc/CacheTable.v: (K) cases of their own (one big program per file) + (P)
	if a.Extra != "search" {
		tableK(res, root.Fork(), a.Thorough(), 16+len(bigs))
	}
	tableP(res, root.Fork(), a.Thorough(), a.Extra == "search")

	// ---- (P) sequential volume, in parallel
	workers := runtime.NumCPU()
	if workers > 16 {
		workers = 16
	}
	var wg sync.WaitGroup
	for w := 0; w < workers; w++ {
		wr := root.Fork()
		cnt := nP / workers
		wg.Add(1)
		go func(w int) {
			defer wg.Done()
			for i := 0; i < cnt && res.NViolations() < 5 && time.Since(t0) < seqBudget; i++ {
				var sc SeqCase
				if i%1500 == 7 {
					sc = genBig(wr, wr.Intn(4))
				} else {
					sc = genSeq(wr)
				}
				o := runSeq(sc, 1+wr.Intn(4), false)
				record(res, "seq", &sc, nil, o)
			}
		}(w)
	}
	wg.Wait()
	res.Extra["seq_wall_s"] = time.Since(t0).Seconds()

	// ---- (P) concurrent stress
	t1 := time.Now()
	rs := root.Fork()
	for i := 0; i < nStress && res.NViolations() < 5 && time.Since(t1) < stressBudget; i++ {
		cfg := genStress(rs, i, a.Thorough())
		so := runStressWatched(cfg)
		recordStress(res, cfg, so)
	}
	res.Extra["stress_wall_s"] = time.Since(t1).Seconds()

	// ---- (P) targeted races around Close (both were real on the tree as found and are repaired by
	// "fix: cache: finalise once, and only at zero references, on a closed cache"; they must not recur)
	raceBudget := 5 * time.Second
	if a.Thorough() {
		raceBudget = 60 * time.Second
	}
	if res.NViolations() == 0 {
		targetedRaces(res, raceBudget, a.Thorough())
	}
}

// tableK: the (K) cases of the node table.  Written as files of their own (WriteCases names its files
// cases_<prop>_<i>.v from 0, so these use the indexes after the 16 shards of the sequential cases).
func tableK(res *vlib.Result, r *vlib.RNG, thorough bool, firstFile int) {
	var cases []string
	add := func(tc TblCase) {
		o := runTable(tc, true)
		recordTable(res, &tc, o)
		if o.kcase != "" {
			cases = append(cases, o.kcase)
		}
	}
	add(genTable(r, "ovf", 2))
	add(genTable(r, "count", 1))
	var small []string
	for i := 0; i < 24 && res.NViolations() < 3; i++ {
		tc := genTable(r, "mix", 1)
		o := runTable(tc, true)
		recordTable(res, &tc, o)
		small = append(small, o.kcase)
	}
	small = append(small, murmurCases(r, 400))
	if thorough {
		add(genTable(r, "ovf", 3))
		add(genTable(r, "count", 2))
		add(genTable(r, "ovf", 1))
	}
	files := append([][]string{small}, func() (l [][]string) {
		for _, c := range cases {
			l = append(l, []string{c})
		}
		return
	}()...)
	writeExtraCases(res, "From GL Require Import Conc.Cache Conc.CacheTable Corr.C17Run.", "c17case", "mismatches", files, firstFile)
	res.Count("k_cases_table", len(cases)+len(small)-1)
	res.Count("k_cases_murmur32_values", 400+2*12*6)
}

// tableP: the table invariants on the implementation at volume (no Coq cases).
func tableP(res *vlib.Result, r *vlib.RNG, thorough, search bool) {
	n, nbig := 60, 2
	if thorough {
		n, nbig = 3000, 40
	}
	if search {
		n, nbig = 400, 6
	}
	for i := 0; i < nbig && res.NViolations() < 5; i++ {
		tc := genTable(r, []string{"ovf", "count"}[i%2], 1+i%2)
		recordTable(res, &tc, runTable(tc, false))
	}
	for i := 0; i < n && res.NViolations() < 5; i++ {
		tc := genTable(r, "mix", 1)
		recordTable(res, &tc, runTable(tc, false))
	}
}

func targetedRaces(res *vlib.Result, d time.Duration, deadlockToo bool) {
	trials, hits := closeRaceExperiment(d)
	res.Count("closerace_trials", trials)
	if hits > 0 {
		res.Violate(fmt.Sprintf("stress: Release + Get + Close(false): a value was finalised while a handle obtained from the open cache was outstanding (%d of %d trials)", hits, trials),
			map[string]interface{}{"mode": "closerace"})
	}
	t2, h2 := forceCloseRaceExperiment(d)
	res.Count("forcecloserace_trials", t2)
	if h2 > 0 {
		res.Violate(fmt.Sprintf("stress: Close(true) racing Handle.Release: a value was finalised twice (%d of %d trials)", h2, t2),
			map[string]interface{}{"mode": "forcecloserace"})
	}
	t4, h4 := doubleReleaseRaceExperiment(d)
	res.Count("doublerelease_trials", t4)
	if h4 > 0 {
		res.Violate(fmt.Sprintf("stress: two goroutines releasing the same handle while a second handle is outstanding: the value was finalised early, lost, or not finalised exactly once (%d of %d trials)", h4, t4),
			map[string]interface{}{"mode": "doublerelease"})
	}
	// third race: Close against an operation whose cacher step releases a handle (was known finding
	// cache-close-rlock-reentry: 3 deadlocks in 46-131 trials; repaired by "fix: cache: Close must not deadlock
	// with an operation whose cacher step releases a handle"; it must not recur)
	dd := 3 * time.Second
	if deadlockToo {
		dd = 30 * time.Second
	}
	t3, h3 := closeDeadlockExperiment(dd)
	res.Count("closedeadlock_trials", t3)
	if h3 > 0 {
		res.Violate(fmt.Sprintf("stress: Close concurrent with Get on a full LRU (Promote evicts, Handle.Release re-enters the cache lock): Close and the Get blocked for more than 2 s (%d of %d trials)", h3, t3),
			map[string]interface{}{"mode": "closedeadlock"})
	}
}

func record(res *vlib.Result, mode string, sc *SeqCase, st *StressCfg, o seqOutcome) {
	for k, v := range o.stats {
		res.Count(k, v)
	}
	sig := ""
	if sc != nil {
		sig = fmt.Sprintf("%v/%d/%d/%v", sc.Cacher, sc.Cap, len(sc.Ops), sc.Ops[len(sc.Ops)/2])
	}
	res.Eval(sig, o.nontriv)
	if len(o.fails) > 0 {
		min := *sc
		if len(sc.Ops) <= 400 {
			min = shrinkSeq(*sc)
		}
		o2 := runSeq(min, 1, false)
		desc := o.fails[0]
		if len(o2.fails) > 0 {
			desc = o2.fails[0]
		}
		res.Violate("sequential: "+desc, map[string]interface{}{"mode": "seq", "seq": min, "all": o2.fails})
	} else {
		res.Sample(map[string]interface{}{"cacher": sc.Cacher, "cap": sc.Cap, "ops": len(sc.Ops)})
	}
}

// shrinkSeq: delta-debugging on the operation list (handle indexes are renumbered by the runner's
// own numbering, so removing a Get shifts them; the predicate is simply "still fails").
func shrinkSeq(sc SeqCase) SeqCase {
	failing := func(c SeqCase) bool { return len(runSeq(c, 1, false).fails) > 0 }
	cur := sc
	chunk := len(cur.Ops) / 2
	if chunk < 1 {
		chunk = 1
	}
	for rounds := 0; rounds < 64; rounds++ {
		progress := false
		for at := 0; at+chunk <= len(cur.Ops); {
			cand := SeqCase{Cacher: cur.Cacher, Cap: cur.Cap}
			cand.Ops = append(append([]Op{}, cur.Ops[:at]...), cur.Ops[at+chunk:]...)
			if len(cand.Ops) > 0 && failing(cand) {
				cur = cand
				progress = true
			} else {
				at += chunk
			}
		}
		if chunk > 1 {
			chunk /= 2
		} else if !progress {
			break
		}
	}
	return cur
}

func replay(a vlib.Args, res *vlib.Result) {
	b, err := os.ReadFile(a.Replay)
	if err != nil {
		fmt.Fprintln(os.Stderr, "replay:", err)
		os.Exit(2)
	}
	var rf replayFile
	if err := json.Unmarshal(b, &rf); err != nil {
		fmt.Fprintln(os.Stderr, "replay:", err)
		os.Exit(2)
	}
	switch {
	case rf.Case.Seq != nil:
		o := runSeq(*rf.Case.Seq, 1, true)
		record(res, "seq", rf.Case.Seq, nil, o)
		res.WriteCases("From GL Require Import Conc.Cache Corr.C17Run.", "c17case", "mismatches", []string{o.kcase}, 1)
	case rf.Case.Table != nil:
		for i := 0; i < 3 && res.NViolations() == 0; i++ {
			o := runTable(*rf.Case.Table, i == 0)
			recordTable(res, rf.Case.Table, o)
			if i == 0 && o.kcase != "" {
				res.WriteCases("From GL Require Import Conc.Cache Conc.CacheTable Corr.C17Run.", "c17case", "mismatches", []string{o.kcase}, 1)
			}
		}
	case rf.Case.Stress != nil:
		// a schedule cannot be replayed exactly: re-run the same configuration a number of times
		for i := 0; i < 30 && res.NViolations() == 0; i++ {
			cfg := *rf.Case.Stress
			cfg.Seed += uint64(i)
			recordStress(res, cfg, runStressWatched(cfg))
		}
	case rf.Case.Mode == "closerace" || rf.Case.Mode == "forcecloserace" || rf.Case.Mode == "closedeadlock":
		targetedRaces(res, 30*time.Second, false)
	default:
		fmt.Fprintln(os.Stderr, "replay: file names no C17 case (a proof/correspondence tie file?)")
	}
}
