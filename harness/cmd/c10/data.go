package main

// (P) oracles on the DATA of the write path: what the hooks 140..143 (leveldb/verif_events.go) and the
// storage op log say about every group, judged against the calls' specifications.

import (
	"fmt"
	"strings"
	"sync/atomic"

	"github.com/syndtr/goleveldb/leveldb"
	"github.com/syndtr/goleveldb/leveldb/storage"
	"verifharness/lib/vstor"
)

// The two literals of the merge limit in writeLocked (db_write.go: "if batch.internalLen > 128<<10
// { mergeLimit = (1 << 20) - batch.internalLen } else { mergeLimit = 128 << 10 }").  Hard-coded here;
// the Coq side regenerates them from the source (Gen/Consts.v), so a change of the source shows there.
const (
	mergeLimitSmall = 128 << 10
	mergeLimitBig   = 1 << 20
)

type putCall struct{ first, seq, n uint64 }

// gdata: per group, what the data hooks reported.
type gdata struct {
	flushed   bool
	mdbFree   int64
	limit0    int64 // mergeLimit when the merge loop was entered (0: no merging at all)
	remaining int64 // limit0 minus the sizes merged so far
	mergedSum int64
	// events 141/142 (entry of writeJournal)
	n141, n142 int
	jSeq       uint64
	jSync      bool
	jNb        int
	jCnt       uint64
	jBytes     uint64
	ops141     int // storage op count at event 141
	opsJok     int // storage op count at VerifEvJournalOk
	puts       []putCall
	pubSeq     uint64
}

func (sc *scenario) effSync(c callSpec) bool { return c.Sync && !sc.NoSync }

// kind of a call as the writeMerge message carries it: 0 batch, 1 put, 2 delete
func msgKind(c callSpec) uint64 {
	switch c.Kind {
	case 0:
		return 1
	case 1:
		return 2
	}
	return 0
}

func coqKind(k uint64) string {
	switch k {
	case 1:
		return "KPut"
	case 2:
		return "KDelete"
	}
	return "KBatch"
}

// expectedBatches: the batches slice writeLocked builds, as writer ids per record.  A merged Write is
// appended as its own batch; a merged Put/Delete is appended to ourBatch = the leader's own batch when
// the leader came through putRec, else a pooled batch created (and appended to batches) by the FIRST
// merged Put/Delete.
func (rr *runResult) expectedBatches(g *group) ([][]uint64, bool) {
	lc := rr.calls[g.leader]
	if lc == nil {
		return nil, false
	}
	rep := func(id uint64, n int) []uint64 {
		r := make([]uint64, n)
		for i := range r {
			r[i] = id
		}
		return r
	}
	batches := [][]uint64{rep(g.leader, lc.spec.NRec)}
	our := -1
	if lc.spec.Kind != 2 {
		our = 0
	}
	for _, m := range g.merged {
		mc := rr.calls[m]
		if mc == nil {
			return nil, false
		}
		if mc.spec.Kind == 2 {
			batches = append(batches, rep(m, mc.spec.NRec))
			continue
		}
		if our < 0 {
			batches = append(batches, nil)
			our = len(batches) - 1
		}
		batches[our] = append(batches[our], m)
	}
	return batches, true
}

func flat(bs [][]uint64) []uint64 {
	var r []uint64
	for _, b := range bs {
		r = append(r, b...)
	}
	return r
}

type badf func(f string, a ...interface{})

func (rr *runResult) dataFlushOk(g *group, e ev, bad badf) {
	lc := rr.calls[g.leader]
	if lc == nil {
		return
	}
	own := int64(internalLen(lc.spec))
	g.flushed, g.mdbFree = true, int64(e.b)
	lim := int64(0)
	if !lc.spec.NoMerge && !rr.sc.NoMerge {
		if own > mergeLimitSmall {
			lim = mergeLimitBig - own
		} else {
			lim = mergeLimitSmall
		}
		if c := g.mdbFree - own; lim > c {
			lim = c
		}
		if lim < 0 {
			lim = 0
		}
	}
	g.limit0, g.remaining = lim, lim
}

func (rr *runResult) dataMergeTrue(g *group, i int, e ev, bad badf) {
	mc := rr.calls[e.b]
	if mc == nil || !g.flushed {
		return
	}
	sz := int64(internalLen(mc.spec))
	if sz > g.remaining {
		bad("event %d: leader %d merged writer %d of size %d, but only %d of its merge limit %d is left (own size %d, mdbFree %d)",
			i, g.leader, e.b, sz, g.remaining, g.limit0, internalLen(rr.calls[g.leader].spec), g.mdbFree)
	}
	g.remaining -= sz
	g.mergedSum += sz
}

func (rr *runResult) dataMergeOverflow(g *group, i int, e ev, bad badf) {
	mc := rr.calls[e.b]
	if mc == nil || !g.flushed {
		return
	}
	sz := int64(internalLen(mc.spec))
	if sz <= g.remaining {
		bad("event %d: leader %d refused writer %d of size %d (overflow) although %d of its merge limit %d is left (own size %d, mdbFree %d)",
			i, g.leader, e.b, sz, g.remaining, g.limit0, internalLen(rr.calls[g.leader].spec), g.mdbFree)
	}
}

// event 140: the message the leader received is the request the caller made
func (rr *runResult) dataMergeInfo(i int, e ev, bad badf) {
	mc := rr.calls[e.a]
	if mc == nil {
		bad("event %d: merge message of writer %d, which is not a call of this run", i, e.a)
		return
	}
	kind, sy, sz := e.b>>62, e.b>>61&1 == 1, e.b&(1<<61-1)
	c := mc.spec
	if kind != msgKind(c) || sz != uint64(internalLen(c)) || sy != rr.sc.effSync(c) {
		bad("event %d: the merge message of call %d carries kind=%d size=%d sync=%v, the call is kind=%d size=%d sync=%v (0 batch, 1 put, 2 delete)",
			i, e.a, kind, sz, sy, msgKind(c), internalLen(c), rr.sc.effSync(c))
	}
}

// the journal record of a group holds the records in the order of writeLocked's batches
func (rr *runResult) dataRecordOrder(g *group, r jrec, bad badf) {
	bs, ok := rr.expectedBatches(g)
	if !ok {
		return
	}
	if want := flat(bs); !sameIDs(want, r.ids) {
		bad("journal record seq %d of the group of %d (merged %v): the records belong to writers %v in file order, writeLocked's batches give %v",
			r.seq, g.leader, g.merged, r.ids, want)
	}
}

func (rr *runResult) checkData(groups []*group, bad badf) {
	if rr.hang != "" {
		return
	}
	sc := rr.sc
	retOps := map[uint64]int{}
	for _, e := range rr.events {
		if e.kind == evRet {
			retOps[e.a] = e.ops
		}
	}
	groupOf := map[uint64]*group{}
	for _, g := range groups {
		lc := rr.calls[g.leader]
		if lc == nil {
			continue
		}
		if lc.err != nil && strings.HasPrefix(lc.err.Error(), "panic:") {
			continue
		}
		bs, ok := rr.expectedBatches(g)
		if !ok {
			continue
		}
		groupOf[g.leader] = g
		for _, m := range g.merged {
			groupOf[m] = g
		}
		// what the group is made of
		or := sc.effSync(lc.spec)
		bytes := uint64(internalLen(lc.spec))
		cnt := uint64(0)
		syncPut, syncOther := false, or
		for _, m := range g.merged {
			c := rr.calls[m].spec
			or = or || sc.effSync(c)
			bytes += uint64(internalLen(c))
			if c.Kind != 2 && sc.effSync(c) {
				syncPut = true
			}
			if c.Kind == 2 && sc.effSync(c) {
				syncOther = true
			}
		}
		for _, b := range bs {
			cnt += uint64(len(b))
		}
		// distribution
		if syncPut && !syncOther {
			rr.stats["groups_synced_merged_put_under_unsynced_rest"]++
		}
		if !sameIDs(flat(bs), idsInMergeOrder(rr, g)) {
			rr.stats["groups_record_order_differs_from_merge_order"]++
		}
		if g.limit0 > 0 && 4*g.mergedSum > 3*g.limit0 {
			rr.stats["groups_merged_sum_over_3q_of_limit"]++
		}
		if g.limit0 > 0 && g.mergedSum == g.limit0 {
			rr.stats["groups_merged_sum_equals_limit"]++
		}
		if g.overflow != 0 {
			rr.stats["overflows"]++
			if oc := rr.calls[g.overflow]; oc != nil && int64(internalLen(oc.spec)) == g.remaining+1 {
				rr.stats["overflows_by_one_byte"]++
			}
		}
		if len(g.merged) > 0 && g.limit0 < mergeLimitSmall && g.limit0 > 0 {
			rr.stats["groups_limit_capped_by_mdbfree"]++
		}
		// 5. merge limit (the per-event tests are made while the events are read)
		if g.mergedSum > g.limit0 {
			bad("group of %d: merged %d bytes (%v), its merge limit is %d (own size %d, mdbFree %d)", g.leader, g.mergedSum, g.merged, g.limit0, internalLen(lc.spec), g.mdbFree)
		}
		// entry of writeJournal: exactly once per group that reported a journal result
		wrote := g.jok || g.jfail
		if wrote && (g.n141 != 1 || g.n142 != 1) {
			bad("group of %d: a journal result was reported, but writeJournal was entered %d/%d times (events 141/142)", g.leader, g.n141, g.n142)
			continue
		}
		if !wrote {
			if g.n141 != 0 || len(g.puts) != 0 {
				bad("group of %d: writeJournal entered %d times and %d putMem calls, but no journal result was reported", g.leader, g.n141, len(g.puts))
			}
			continue
		}
		// 2. sync argument = OR of the effective Sync flags of the leader and of every merged member
		if g.jSync != or {
			bad("group of %d (merged %v): writeJournal was called with sync=%v, the OR of the members' Sync flags is %v", g.leader, g.merged, g.jSync, or)
		}
		// 3. the arguments describe the expected batches
		if g.jNb != len(bs) || g.jCnt != cnt || g.jBytes != bytes {
			bad("group of %d (merged %v): writeJournal got %d batches with %d records and %d bytes, expected %d batches, %d records, %d bytes",
				g.leader, g.merged, g.jNb, g.jCnt, g.jBytes, len(bs), cnt, bytes)
		}
		if g.jok && g.jSeq != g.seq {
			bad("group of %d: writeJournal got seq %d, the leader reported %d", g.leader, g.jSeq, g.seq)
		}
		// 4. sequence numbers of the putMem loop and the published db.seq
		if g.jok {
			var want []putCall
			q := g.seq
			for _, b := range bs {
				first := uint64(0)
				if len(b) > 0 {
					first = b[0]
				}
				want = append(want, putCall{first, q, uint64(len(b))})
				q += uint64(len(b))
			}
			same := len(want) == len(g.puts)
			for k := 0; same && k < len(want); k++ {
				same = want[k] == g.puts[k]
			}
			if !same {
				bad("group of %d (seq %d, merged %v): putMem calls (first writer, seq, records) %v, expected %v", g.leader, g.seq, g.merged, g.puts, want)
			}
			if g.pub == 1 && g.pubSeq != g.seq+cnt-1 {
				bad("group of %d: db.seq = %d after addSeq, expected seq %d + %d records - 1", g.leader, g.pubSeq, g.seq, cnt)
			}
		} else if len(g.puts) != 0 {
			bad("group of %d: %d putMem calls although writeJournal failed", g.leader, len(g.puts))
		}
	}
	// 1. sync coverage: a call that asked for Sync and returned nil has its record on synced storage
	for id, cs := range rr.calls {
		c := cs.spec
		if c.TxnPath || cs.err != nil || atomic.LoadInt32(&cs.returned) != 1 || !sc.effSync(c) {
			continue
		}
		g := groupOf[id]
		ret, haveRet := retOps[id]
		if g == nil || !g.jok || g.n141 != 1 || !haveRet {
			continue // reported by the other oracles
		}
		maxW := -1
		var fd storage.FileDesc
		for _, o := range rr.ops {
			if o.Kind == vstor.OpWrite && !o.Fail && o.Fd.Type == storage.TypeJournal && o.Idx >= g.ops141 && o.Idx < g.opsJok {
				maxW, fd = o.Idx, o.Fd
			}
		}
		if maxW < 0 {
			bad("call %d asked for Sync and returned nil but its group (leader %d) wrote nothing to a journal file (storage ops %d..%d)", id, g.leader, g.ops141, g.opsJok)
			continue
		}
		covered := false
		for _, o := range rr.ops {
			if o.Kind == vstor.OpSync && !o.Fail && o.Fd == fd && o.Idx > maxW && o.Idx < ret {
				covered = true
				break
			}
		}
		if !covered {
			bad("call %d asked for Sync and returned nil but no journal Sync covers its record (group of %d, merged %v; last write op #%d on %s, call returned at op count %d)",
				id, g.leader, g.merged, maxW, fd, ret)
		}
	}
}

func idsInMergeOrder(rr *runResult, g *group) []uint64 {
	var r []uint64
	for _, id := range append([]uint64{g.leader}, g.merged...) {
		if c := rr.calls[id]; c != nil {
			for j := 0; j < c.spec.NRec; j++ {
				r = append(r, id)
			}
		}
	}
	return r
}

// ---- (K): rendering of a trace with its data as a Coq case (Corr/C10DataRun.v) ----

func (rr *runResult) coqCase() (string, int) {
	n := len(rr.calls)
	sc := rr.sc
	txn := map[uint64]bool{}
	for id, cs := range rr.calls {
		if cs.spec.TxnPath {
			txn[id] = true
		}
	}
	var reqs []string
	for id := uint64(1); id <= uint64(n); id++ {
		cs := rr.calls[id]
		if cs == nil {
			reqs = append(reqs, "RQ KBatch 0 false")
			continue
		}
		reqs = append(reqs, fmt.Sprintf("RQ %s %d %s", coqKind(msgKind(cs.spec)), cs.spec.NRec, coqB(sc.effSync(cs.spec))))
	}
	var evs []string
	w := func(id uint64) string { return fmt.Sprint(id - 1) }
	okid := func(id uint64) bool { return id >= 1 && id <= uint64(n) && !txn[id] }
	const failCase = "DE (ESelLock 4999)" // an event of an unknown writer: make the case fail
	lastRecv := map[uint64]uint64{}       // incoming writer -> leader of the most recent VerifEvMergeRecv
	var pend141 *ev
	for k := range rr.events {
		e := rr.events[k]
		var s string
		switch e.kind {
		case leveldb.VerifEvMergeInfo:
			if txn[e.a] {
				continue
			}
			l, ok := lastRecv[e.a]
			if !okid(e.a) || !ok || !okid(l) {
				s = failCase
				break
			}
			s = fmt.Sprintf("DMergeInfo %s %s %s %d %s", w(l), w(e.a), coqKind(e.b>>62), e.b&(1<<61-1), coqB(e.b>>61&1 == 1))
		case leveldb.VerifEvJournalArgs:
			if pend141 != nil {
				s = failCase // two entries of writeJournal without the size event in between
				break
			}
			pend141 = &rr.events[k]
			continue
		case leveldb.VerifEvJournalSize:
			if txn[e.a] {
				pend141 = nil
				continue
			}
			if pend141 == nil || !okid(e.a) {
				s = failCase
				break
			}
			a := pend141
			pend141 = nil
			s = fmt.Sprintf("DJournalArgs %s %d %d %d %d %s", w(e.a), a.b>>40&(1<<22-1), a.b&(1<<40-1), e.b, a.a, coqB(a.b>>62&1 == 1))
		case leveldb.VerifEvPutMem:
			if txn[e.a] {
				continue
			}
			if !okid(e.a) {
				s = failCase
				break
			}
			s = fmt.Sprintf("DPutMem %s %d %d", w(e.a), e.b&(1<<40-1), e.b>>40)
		case 509: // db.setSeq(tr.seq) of a committing transaction (db_transaction.go)
			s = fmt.Sprintf("DTxnSeq %d", e.a)
		default:
			if e.kind == leveldb.VerifEvMergeRecv {
				lastRecv[e.b] = e.a
			}
			b := rr.coqBaseEvent(e, n, txn)
			if b == "" {
				continue
			}
			if strings.Contains(b, " ") {
				s = "DE (" + b + ")"
			} else {
				s = "DE " + b
			}
		}
		evs = append(evs, s)
	}
	if pend141 != nil {
		evs = append(evs, failCase)
	}
	jfail := false
	for _, e := range rr.events {
		if e.kind == leveldb.VerifEvJournalFail {
			jfail = true
		}
	}
	var files []string
	for _, r := range rr.jrecords {
		if r.bad != "" {
			files = append(files, fmt.Sprintf("FR %d [SG 4999 1]", r.seq)) // unparsable record: fail the case
			continue
		}
		var segs []string
		for i := 0; i < len(r.ids); {
			j := i
			for j < len(r.ids) && r.ids[j] == r.ids[i] {
				j++
			}
			if okid(r.ids[i]) {
				segs = append(segs, fmt.Sprintf("SG %s %d", w(r.ids[i]), j-i))
			} else {
				segs = append(segs, fmt.Sprintf("SG 4999 %d", j-i))
			}
			i = j
		}
		files = append(files, fmt.Sprintf("FR %d [%s]", r.seq, strings.Join(segs, "; ")))
	}
	complete := !jfail && rr.injected == 0
	return fmt.Sprintf("CDTrace %d 0\n  [%s]\n  [%s]\n  [%s] %s", n, strings.Join(reqs, "; "), strings.Join(evs, "; "), strings.Join(files, "; "), coqB(complete)), len(evs)
}

func coqB(b bool) string {
	if b {
		return "true"
	}
	return "false"
}
