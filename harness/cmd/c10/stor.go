package main

import (
	"errors"
	"sync"

	"github.com/syndtr/goleveldb/leveldb/storage"
)

// jstor wraps a storage.Storage: keeps a private copy of every byte written to every journal file
// (journal files are removed by the DB after their memdb is flushed) and can make journal
// writes / syncs / creations fail according to a plan.
type jstor struct {
	storage.Storage
	mu       sync.Mutex
	journals map[int64][]byte // file number -> bytes accepted by Write
	order    []int64          // creation order
	// fault plan (counts are over the whole run)
	nWrite, nSync, nCreate             int
	failWriteFrom, failWriteN          int // journal Write calls [from, from+n) fail
	failSyncFrom, failSyncN            int
	failCreateFrom, failCreateN        int
	injWrite, injSync, injCreate       int // how many faults were actually delivered
}

var errInjected = errors.New("c10: injected storage fault")

func newJStor(inner storage.Storage) *jstor {
	return &jstor{Storage: inner, journals: map[int64][]byte{}, failWriteFrom: -1, failSyncFrom: -1, failCreateFrom: -1}
}

func (s *jstor) Create(fd storage.FileDesc) (storage.Writer, error) {
	if fd.Type == storage.TypeJournal {
		s.mu.Lock()
		k := s.nCreate
		s.nCreate++
		fail := s.failCreateFrom >= 0 && k >= s.failCreateFrom && k < s.failCreateFrom+s.failCreateN
		if fail {
			s.injCreate++
		}
		s.mu.Unlock()
		if fail {
			return nil, errInjected
		}
	}
	w, err := s.Storage.Create(fd)
	if err != nil || fd.Type != storage.TypeJournal {
		return w, err
	}
	s.mu.Lock()
	if _, ok := s.journals[fd.Num]; !ok {
		s.order = append(s.order, fd.Num)
	}
	s.journals[fd.Num] = nil
	s.mu.Unlock()
	return &jwriter{Writer: w, s: s, num: fd.Num}, nil
}

type jwriter struct {
	storage.Writer
	s   *jstor
	num int64
}

func (w *jwriter) Write(p []byte) (int, error) {
	s := w.s
	s.mu.Lock()
	k := s.nWrite
	s.nWrite++
	fail := s.failWriteFrom >= 0 && k >= s.failWriteFrom && k < s.failWriteFrom+s.failWriteN
	if fail {
		s.injWrite++
	}
	s.mu.Unlock()
	if fail {
		return 0, errInjected
	}
	n, err := w.Writer.Write(p)
	s.mu.Lock()
	s.journals[w.num] = append(s.journals[w.num], p[:n]...)
	s.mu.Unlock()
	return n, err
}

func (w *jwriter) Sync() error {
	s := w.s
	s.mu.Lock()
	k := s.nSync
	s.nSync++
	fail := s.failSyncFrom >= 0 && k >= s.failSyncFrom && k < s.failSyncFrom+s.failSyncN
	if fail {
		s.injSync++
	}
	s.mu.Unlock()
	if fail {
		return errInjected
	}
	return w.Writer.Sync()
}

// journalFiles returns the copies in creation order.
func (s *jstor) journalFiles() [][]byte {
	s.mu.Lock()
	defer s.mu.Unlock()
	var r [][]byte
	for _, n := range s.order {
		r = append(r, s.journals[n])
	}
	return r
}
