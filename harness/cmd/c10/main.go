// c10: writer serialisation and merge protocol.
//
// Stress runs of the real DB on a checker-owned storage (vstor op log, no data kept) with the
// write-path hooks (leveldb/verif_events.go) recording an event trace under one global lock.
// (P) is evaluated here on the implementation: every call returned exactly once (watchdog), at
// most one lock owner / group in flight, every member of a group got the leader's error value,
// journal records = groups, successful writers' entries exactly once in the journal and in the DB,
// errored writers' all-or-nothing; and on the data (data.go): a synced call that returned nil is
// covered by a storage Sync of its journal file, writeJournal's sync argument is the OR of the
// group's flags, the record is the concatenation of the batches in the order writeLocked builds
// them, the putMem calls number the batches consecutively, the merge limit is respected.
// (K): every trace is written as a Coq case and must be accepted by the data-carrying transition
// system of Conc/WriteMergeData.v over Conc/WriteMerge.v (Corr/C10DataRun.v over Corr/C10Run.v),
// together with the parsed journal records in file order.
package main

import (
	"bytes"
	"encoding/binary"
	"encoding/json"
	"fmt"
	"io"
	"os"
	"runtime"
	"sort"
	"strings"
	"sync"
	"sync/atomic"
	"time"

	"github.com/syndtr/goleveldb/leveldb"
	"github.com/syndtr/goleveldb/leveldb/journal"
	"github.com/syndtr/goleveldb/leveldb/opt"
	"github.com/syndtr/goleveldb/leveldb/util"
	"verifharness/lib/vlib"
	"verifharness/lib/vstor"
)

// harness-side event kinds (the hook kinds are 100..199)
const (
	evCall      = 1 // a=id b=merge<<62|put<<61|internalLen   pre
	evRet       = 2 // a=id b=error class             post
	evCloseCall = 3 // pre
	evCloseRet  = 4 // post
)

type ev struct {
	kind int
	a, b uint64
	ops  int // storage op count (vstor) when the event was recorded
}

// ---- global recorder (VerifSetHooks is process wide; runs are sequential) ----

type recorder struct {
	mu     sync.Mutex
	events []ev
	ymu    sync.Mutex
	yrng   *vlib.RNG
	ymode  int
	vs     *vstor.Stor // storage of the current run
}

var rec atomic.Value // *recorder

func record(kind int, a, b uint64) {
	r, _ := rec.Load().(*recorder)
	if r == nil {
		return
	}
	r.mu.Lock()
	n := 0
	if r.vs != nil {
		n = r.vs.OpCount()
	}
	r.events = append(r.events, ev{kind, a, b, n})
	r.mu.Unlock()
}

func yield(point int) {
	r, _ := rec.Load().(*recorder)
	if r == nil || r.ymode == 0 {
		return
	}
	r.ymu.Lock()
	x := r.yrng.Intn(100)
	d := r.yrng.Intn(200)
	r.ymu.Unlock()
	switch r.ymode {
	case 1:
		if x < 50 {
			runtime.Gosched()
		}
	case 2:
		if x < 60 {
			time.Sleep(time.Duration(d) * time.Microsecond)
		}
	case 3: // hold the lock for a while so that others queue on the merge channel
		if point == leveldb.VerifYpLocked || point == leveldb.VerifYpMergeRecv {
			time.Sleep(time.Duration(200+3*d) * time.Microsecond)
		} else if x < 30 {
			runtime.Gosched()
		}
	case 4:
		if point == leveldb.VerifYpUnlock || point == leveldb.VerifYpJournal {
			time.Sleep(time.Duration(100+2*d) * time.Microsecond)
		} else if point == leveldb.VerifYpLocked && x < 70 {
			time.Sleep(time.Duration(d) * time.Microsecond)
		}
	}
}

// ---- scenario ----

type callSpec struct {
	ID      uint64 `json:"id"`
	Kind    int    `json:"kind"` // 0 Put 1 Delete 2 Write
	NRec    int    `json:"nrec"`
	Size    int    `json:"size"` // internalLen
	NoMerge bool   `json:"nomerge"`
	Sync    bool   `json:"sync"`
	TxnPath bool   `json:"txnpath"`
}

type scenario struct {
	Seed        uint64       `json:"seed"`
	Run         int          `json:"run"`
	Tier        string       `json:"tier"`
	WriteBuffer int          `json:"write_buffer"`
	NoMerge     bool         `json:"no_write_merge"`
	NoSync      bool         `json:"no_sync"`
	NoLargeTxn  bool         `json:"disable_large_batch_transaction"`
	Writers     [][]callSpec `json:"writers"`
	NCompact    int          `json:"compact_range_calls"`
	NTxn        int          `json:"transactions"`
	SetRO       int          `json:"set_read_only_after_calls"` // -1: never
	CloseRace   int          `json:"close_after_calls"`         // -1: close at the end
	FaultWrite  [2]int       `json:"fault_journal_write"`       // from,n (from<0: none)
	FaultSync   [2]int       `json:"fault_journal_sync"`
	FaultCreate [2]int       `json:"fault_journal_create"`
	YieldMode   int          `json:"yield_mode"`
	Class       string       `json:"class"`
}

func (sc *scenario) ncalls() int {
	n := 0
	for _, w := range sc.Writers {
		n += len(w)
	}
	return n
}

func genSize(r *vlib.RNG, class int, wb int) int {
	switch class {
	case 0: // small buffer: sizes around the free space of a wb-sized memdb
		switch r.Pick(4, 3, 2, 1) {
		case 0:
			return r.Range(19, 60)
		case 1:
			return r.Range(60, wb/4)
		case 2:
			return r.Range(wb/4, wb/2+wb/4)
		default:
			return r.Range(wb-64, wb)
		}
	case 1: // large buffer: straddle the 128 KiB rule
		switch r.Pick(3, 2, 3, 3, 2, 1) {
		case 0:
			return r.Range(19, 200)
		case 1:
			return r.Range(1<<10, 40<<10)
		case 2:
			return r.Range(60<<10, 70<<10)
		case 3:
			return (128 << 10) + r.Range(-3, 3)
		case 4:
			return r.Range(129<<10, 300<<10)
		default:
			return r.Range(900<<10, (1<<20)+64)
		}
	default: // medium
		switch r.Pick(3, 3, 2) {
		case 0:
			return r.Range(19, 100)
		case 1:
			return r.Range(100, 4<<10)
		default:
			return r.Range(4<<10, 32<<10)
		}
	}
}

// sizes for the "limit" class: sums of a few of them land on / next to 128 KiB (the merge limit) and
// on the free space of a 256/512 KiB memdb
func limitSize(r *vlib.RNG) int {
	switch r.Pick(4, 3, 2, 2, 1) {
	case 0:
		return r.Range(20<<10, 70<<10)
	case 1: // divisors of 128 KiB: a group fills the limit exactly
		return (128 << 10) / []int{2, 3, 4, 4, 5, 8}[r.Intn(6)]
	case 2: // one byte more / less
		return (128<<10)/[]int{2, 4}[r.Intn(2)] + []int{-1, 1}[r.Intn(2)]
	case 3:
		return r.Range(30<<10, 34<<10)
	default:
		return r.Range(19, 300)
	}
}

func genScenario(seed uint64, run int, tier string) *scenario {
	r := vlib.NewRNG(seed*1000003 + uint64(run)*7919 + 17)
	sc := &scenario{Seed: seed, Run: run, Tier: tier, SetRO: -1, CloseRace: -1,
		FaultWrite: [2]int{-1, 0}, FaultSync: [2]int{-1, 0}, FaultCreate: [2]int{-1, 0}}
	// rotate through the classes so that every quick run covers all of them
	classes := []string{"small", "big", "mixed", "compact", "txn", "close", "readonly", "fault", "nomerge", "puts", "closeover", "close", "putsfault", "big", "syncmix", "limit"}
	sc.Class = classes[run%len(classes)]
	sizeClass := 0
	switch sc.Class {
	case "big":
		sizeClass = 1
		sc.WriteBuffer = 4 << 20
	case "small", "close", "fault", "puts", "putsfault", "closeover":
		sc.WriteBuffer = []int{2 << 10, 4 << 10, 8 << 10, 16 << 10}[r.Intn(4)]
	case "syncmix":
		// mixed Sync flags and Put/Delete/Write mixes inside merged groups, small records
		sizeClass = 2
		sc.WriteBuffer = 64 << 10
	case "limit":
		// groups that fill the merge limit: 128 KiB under a large buffer, the memdb's free space under a smaller one
		sizeClass = 3
		sc.WriteBuffer = []int{4 << 20, 4 << 20, 512 << 10, 256 << 10}[r.Intn(4)]
	default:
		if r.Chance(1, 3) {
			sizeClass = 1
			sc.WriteBuffer = 4 << 20
		} else if r.Chance(1, 2) {
			sizeClass = 2
			sc.WriteBuffer = 64 << 10
		} else {
			sc.WriteBuffer = []int{4 << 10, 8 << 10}[r.Intn(2)]
		}
	}
	sc.NoSync = r.Chance(1, 2)
	if sc.Class == "syncmix" {
		sc.NoSync = false
	} else if sc.Class == "limit" {
		sc.NoSync = r.Chance(1, 4)
	}
	sc.NoLargeTxn = (sc.Class == "mixed" || sc.Class == "small" || sc.Class == "fault") && r.Chance(1, 2)
	sc.NoMerge = sc.Class == "nomerge" && r.Chance(1, 2)
	total := r.Range(8, 26)
	if sizeClass == 1 {
		total = r.Range(6, 16)
	}
	ng := []int{2, 3, 4, 8, 16, 32}[r.Intn(6)]
	if sc.Class == "syncmix" || sc.Class == "limit" {
		// many goroutines, so that writers queue on the merge channel while the leader holds the lock
		total = r.Range(12, 26)
		ng = []int{8, 16, 32}[r.Intn(3)]
	}
	if ng > total {
		ng = total
	}
	sc.Writers = make([][]callSpec, ng)
	id := uint64(1)
	for k := 0; k < total; k++ {
		g := k % ng
		c := callSpec{ID: id}
		id++
		c.Size = genSize(r, sizeClass, sc.WriteBuffer)
		switch r.Pick(3, 1, 4) {
		case 0:
			c.Kind, c.NRec = 0, 1
		case 1:
			c.Kind, c.NRec, c.Size = 1, 1, 18
		default:
			c.Kind = 2
			c.NRec = r.Range(1, 5)
		}
		if sc.Class == "puts" || sc.Class == "putsfault" {
			// Put-only: merged Puts are appended to the leader's own batch, which then reaches mdbFree
			c.Kind, c.NRec = 0, 1
			c.Size = r.Range(sc.WriteBuffer/10, sc.WriteBuffer/3)
			if r.Chance(2, 3) { // divisors of the buffer size: groups fill the memdb exactly, which forces the rotate step
				c.Size = sc.WriteBuffer / []int{2, 4, 8, 16}[r.Intn(4)]
			}
		}
		if sc.Class == "closeover" {
			// overflow-prone sizes: most groups end with a hand-over, Close arrives in the middle
			c.Size = r.Range(sc.WriteBuffer/4, sc.WriteBuffer/2)
		}
		if c.Size < 18*c.NRec+c.NRec {
			c.Size = 19 * c.NRec
		}
		if c.Kind == 1 {
			c.Size = 18
		}
		if sc.NoLargeTxn && c.Kind == 2 && r.Chance(1, 6) {
			c.Size = sc.WriteBuffer + r.Range(0, 3000) // larger than the buffer, but journalled: memdb grows, then rotates
		}
		if sc.Class == "nomerge" || sc.Class == "mixed" {
			c.NoMerge = r.Chance(1, 3)
		}
		c.Sync = r.Chance(1, 4)
		switch sc.Class {
		case "syncmix":
			// a synced Put/Delete merged under an unsynced leader (and unsynced merged batches) must be common
			c.Size = r.Range(19, 200)
			if c.Kind == 1 {
				c.Size = 18
			} else if c.Size < 19*c.NRec {
				c.Size = 19 * c.NRec
			}
			if c.Kind == 2 {
				c.Sync = r.Chance(1, 5)
			} else {
				c.Sync = r.Chance(1, 2)
			}
		case "limit":
			if c.Kind == 1 && r.Chance(2, 3) {
				c.Kind = 0 // few Deletes: they are 18 bytes whatever the class
			}
			if c.Kind != 1 {
				c.Size = limitSize(r)
				if c.Size < 19*c.NRec {
					c.Size = 19 * c.NRec
				}
			}
			c.Sync = r.Chance(1, 3)
		}
		sc.Writers[g] = append(sc.Writers[g], c)
	}
	switch sc.Class {
	case "compact":
		sc.NCompact = r.Range(2, 4)
	case "txn":
		sc.NTxn = r.Range(1, 3)
		// and some large batches that take Write's transaction path
		for g := range sc.Writers {
			for k := range sc.Writers[g] {
				c := &sc.Writers[g][k]
				if c.Kind == 2 && r.Chance(1, 5) {
					c.Size = sc.WriteBuffer + r.Range(1, 2000)
					if sc.WriteBuffer > 1<<20 {
						c.Size = sc.WriteBuffer + 1
					}
				}
			}
		}
	case "mixed":
		sc.NCompact = r.Intn(2)
		sc.NTxn = r.Intn(2)
	case "close", "closeover":
		sc.CloseRace = r.Range(1, total-1)
	case "readonly":
		sc.SetRO = r.Range(1, total-1)
	case "putsfault":
		sc.FaultCreate = [2]int{r.Range(0, 3), r.Range(1, 3)}
	case "fault":
		switch r.Intn(3) {
		case 0:
			sc.FaultWrite = [2]int{r.Range(1, 2*total), r.Range(1, 3)}
		case 1:
			sc.FaultCreate = [2]int{r.Range(1, 4), r.Range(1, 2)}
		default:
			sc.FaultSync = [2]int{r.Range(0, 3), r.Range(1, 2)}
			sc.NoSync = false
		}
	}
	for g := range sc.Writers {
		for k := range sc.Writers[g] {
			c := &sc.Writers[g][k]
			c.TxnPath = c.Kind == 2 && c.Size > sc.WriteBuffer && !sc.NoLargeTxn
		}
	}
	sc.YieldMode = r.Pick(1, 2, 3, 5, 3)
	if sc.Class == "closeover" {
		sc.YieldMode = 3 + r.Intn(2)
	}
	if sc.Class == "syncmix" || sc.Class == "limit" {
		sc.YieldMode = 3
	}
	return sc
}

// ---- batch construction: key = 8-byte id (big endian) + 2-byte record index ----

func recKey(id uint64, j int) []byte {
	k := make([]byte, 10)
	binary.BigEndian.PutUint64(k, id)
	binary.BigEndian.PutUint16(k[8:], uint16(j))
	return k
}

func recVal(id uint64, j, n int) []byte {
	v := make([]byte, n)
	x := byte(id*31 + uint64(j)*7 + 1)
	for i := range v {
		v[i] = x + byte(i)
	}
	return v
}

// value lengths of the records of a call: internalLen = sum(10 + vlen + 8)
func valLens(c callSpec) []int {
	if c.Kind == 1 {
		return []int{0}
	}
	rem := c.Size - 18*c.NRec
	if rem < 0 {
		rem = 0
	}
	ls := make([]int, c.NRec)
	for j := range ls {
		ls[j] = rem / c.NRec
	}
	ls[0] += rem - (rem/c.NRec)*c.NRec
	return ls
}

func internalLen(c callSpec) int {
	n := 0
	for _, l := range valLens(c) {
		n += 18 + l
	}
	return n
}

// ---- one run ----

type callState struct {
	spec     callSpec
	returned int32
	err      error
}

type runResult struct {
	sc        *scenario
	events    []ev
	calls     map[uint64]*callState
	hang      string
	closeErr  error
	contents  map[string][]byte
	haveCont  bool
	jrecords  []jrec
	injected  int
	problems  []string
	stats     map[string]int
	reopened  bool
	closedMid bool
	ops       []vstor.Op // storage op log (no data)
}

type jrec struct {
	seq   uint64
	count uint32
	ids   []uint64 // writer id of every entry, in order
	bad   string
}

func runScenario(sc *scenario) *runResult {
	res := &runResult{sc: sc, calls: map[uint64]*callState{}, stats: map[string]int{}}
	inner := vstor.New(true)
	inner.NoData = true
	js := newJStor(inner)
	js.failWriteFrom, js.failWriteN = sc.FaultWrite[0], sc.FaultWrite[1]
	js.failSyncFrom, js.failSyncN = sc.FaultSync[0], sc.FaultSync[1]
	js.failCreateFrom, js.failCreateN = sc.FaultCreate[0], sc.FaultCreate[1]
	if sc.FaultCreate[0] >= 0 {
		js.failCreateFrom++ // never fail the journal created by Open
	}
	o := &opt.Options{WriteBuffer: sc.WriteBuffer, NoWriteMerge: sc.NoMerge, NoSync: sc.NoSync, DisableLargeBatchTransaction: sc.NoLargeTxn}
	db, err := leveldb.Open(js, o)
	if err != nil {
		res.problems = append(res.problems, "open: "+err.Error())
		return res
	}
	rc := &recorder{yrng: vlib.NewRNG(sc.Seed*31 + uint64(sc.Run)), ymode: sc.YieldMode, vs: inner}
	rec.Store(rc)
	defer rec.Store((*recorder)(nil))

	var started int32 // calls issued so far (for SetRO / Close triggers)
	var wg sync.WaitGroup
	var closeOnce sync.Once
	var closed int32
	doClose := func() {
		closeOnce.Do(func() {
			record(evCloseCall, 0, 0)
			res.closeErr = db.Close()
			record(evCloseRet, 0, 0)
			atomic.StoreInt32(&closed, 1)
		})
	}
	var trigMu sync.Mutex
	roDone, closeStarted := false, false
	trigger := func(n int32) {
		if sc.SetRO >= 0 && int(n) >= sc.SetRO {
			trigMu.Lock()
			do := !roDone
			roDone = true
			trigMu.Unlock()
			if do {
				wg.Add(1)
				go func() {
					defer wg.Done()
					_ = db.SetReadOnly()
				}()
			}
		}
		if sc.CloseRace >= 0 && int(n) >= sc.CloseRace {
			trigMu.Lock()
			do := !closeStarted
			closeStarted = true
			trigMu.Unlock()
			if do {
				res.closedMid = true
				wg.Add(1)
				go func() {
					defer wg.Done()
					doClose()
				}()
			}
		}
	}

	for _, w := range sc.Writers {
		for _, c := range w {
			res.calls[c.ID] = &callState{spec: c}
		}
	}
	start := make(chan struct{})
	for _, w := range sc.Writers {
		w := w
		wg.Add(1)
		go func() {
			defer wg.Done()
			<-start
			for _, c := range w {
				cs := res.calls[c.ID]
				wo := &opt.WriteOptions{NoWriteMerge: c.NoMerge, Sync: c.Sync}
				merge := !c.NoMerge && !sc.NoMerge
				lens := valLens(c)
				var b *leveldb.Batch
				if c.Kind == 2 {
					b = new(leveldb.Batch)
					for j, l := range lens {
						b.Put(recKey(c.ID, j), recVal(c.ID, j, l))
					}
				}
				n := atomic.AddInt32(&started, 1)
				trigger(n)
				mbit := uint64(0)
				if merge {
					mbit = 1 << 62
				}
				if c.Kind != 2 {
					mbit |= 1 << 61
				}
				record(evCall, c.ID, mbit|uint64(internalLen(c)))
				var err error
				func() {
					defer func() {
						if p := recover(); p != nil {
							err = fmt.Errorf("panic: %v", p)
						}
					}()
					switch c.Kind {
					case 0:
						err = db.Put(recKey(c.ID, 0), recVal(c.ID, 0, lens[0]), wo)
					case 1:
						err = db.Delete(recKey(c.ID, 0), wo)
					default:
						err = db.Write(b, wo)
					}
				}()
				cs.err = err
				record(evRet, c.ID, leveldb.VerifErrClass(err))
				atomic.AddInt32(&cs.returned, 1)
			}
		}()
	}
	for k := 0; k < sc.NCompact; k++ {
		k := k
		wg.Add(1)
		go func() {
			defer wg.Done()
			<-start
			time.Sleep(time.Duration(50*(k+1)) * time.Microsecond)
			rg := util.Range{}
			if k%2 == 1 {
				rg = util.Range{Start: []byte{0xff}} // overlaps no key: the branch that does not rotate the memdb
			}
			_ = db.CompactRange(rg)
		}()
	}
	for k := 0; k < sc.NTxn; k++ {
		k := k
		wg.Add(1)
		go func() {
			defer wg.Done()
			<-start
			time.Sleep(time.Duration(80*(k+1)) * time.Microsecond)
			tr, err := db.OpenTransaction()
			if err != nil {
				return
			}
			// transaction keys use ids above every writer id; they are not part of any group
			id := uint64(1<<32) + uint64(k)
			_ = tr.Put(recKey(id, 0), recVal(id, 0, 30), nil)
			runtime.Gosched()
			if k%2 == 0 {
				if err := tr.Commit(); err != nil {
					tr.Discard()
				}
			} else {
				tr.Discard()
			}
		}()
	}
	close(start)
	done := make(chan struct{})
	go func() { wg.Wait(); close(done) }()
	select {
	case <-done:
	case <-time.After(20 * time.Second):
		var pend []string
		for id, cs := range res.calls {
			if atomic.LoadInt32(&cs.returned) == 0 {
				pend = append(pend, fmt.Sprint(id))
			}
		}
		sort.Strings(pend)
		res.hang = "calls not returned after 20 s (ids " + strings.Join(pend, ",") + ") or Close/CompactRange/transaction stuck"
		rc.mu.Lock()
		res.events = append([]ev{}, rc.events...)
		rc.mu.Unlock()
		return res
	}
	// contents of the live DB (before Close), unless it was closed in the race
	if atomic.LoadInt32(&closed) == 0 {
		res.contents, res.haveCont = readAll(db), true
		cdone := make(chan struct{})
		go func() { doClose(); close(cdone) }()
		select {
		case <-cdone:
		case <-time.After(20 * time.Second):
			res.hang = "Close did not return after 20 s"
		}
	} else if sc.FaultWrite[0] < 0 && sc.FaultSync[0] < 0 && sc.FaultCreate[0] < 0 && sc.NTxn == 0 && !hasTxnPath(sc) {
		// closed in the race: reopen the same storage and read what was recovered
		if db2, err := leveldb.Open(js, o); err == nil {
			res.contents, res.haveCont, res.reopened = readAll(db2), true, true
			db2.Close()
		} else {
			res.problems = append(res.problems, "reopen after Close failed: "+err.Error())
		}
	}
	rc.mu.Lock()
	res.events = append([]ev{}, rc.events...)
	rc.mu.Unlock()
	for _, f := range js.journalFiles() {
		res.jrecords = append(res.jrecords, parseJournal(f)...)
	}
	res.injected = js.injWrite + js.injSync + js.injCreate
	res.ops = inner.Ops()
	return res
}

func hasTxnPath(sc *scenario) bool {
	for _, w := range sc.Writers {
		for _, c := range w {
			if c.TxnPath {
				return true
			}
		}
	}
	return false
}

func readAll(db *leveldb.DB) map[string][]byte {
	m := map[string][]byte{}
	it := db.NewIterator(nil, nil)
	for it.Next() {
		m[string(it.Key())] = append([]byte{}, it.Value()...)
	}
	it.Release()
	return m
}

type dropper struct{}

func (dropper) Drop(err error) {}

func parseJournal(data []byte) []jrec {
	var out []jrec
	jr := journal.NewReader(bytes.NewReader(data), dropper{}, false, true)
	for {
		r, err := jr.Next()
		if err != nil {
			break
		}
		b, err := io.ReadAll(r)
		if err != nil {
			continue
		}
		if len(b) < 12 {
			out = append(out, jrec{bad: "record shorter than the batch header"})
			continue
		}
		jr := jrec{seq: binary.LittleEndian.Uint64(b), count: binary.LittleEndian.Uint32(b[8:])}
		p := b[12:]
		for len(p) > 0 {
			kt := p[0]
			p = p[1:]
			kl, n := binary.Uvarint(p)
			if n <= 0 || uint64(len(p)-n) < kl {
				jr.bad = "bad key length"
				break
			}
			key := p[n : n+int(kl)]
			p = p[n+int(kl):]
			if kt == 1 {
				vl, n := binary.Uvarint(p)
				if n <= 0 || uint64(len(p)-n) < vl {
					jr.bad = "bad value length"
					break
				}
				p = p[n+int(vl):]
			} else if kt != 0 {
				jr.bad = "bad key type"
				break
			}
			if len(key) != 10 {
				jr.bad = "foreign key"
				break
			}
			jr.ids = append(jr.ids, binary.BigEndian.Uint64(key))
		}
		if jr.bad == "" && int(jr.count) != len(jr.ids) {
			jr.bad = fmt.Sprintf("header count %d but %d entries", jr.count, len(jr.ids))
		}
		out = append(out, jr)
	}
	return out
}

// ---- (P): oracles on one run ----

type group struct {
	leader   uint64
	merged   []uint64
	overflow uint64
	seq      uint64
	jok      bool
	jfail    bool
	pub      int
	gdata    // what the data hooks reported about the group (data.go)
}

func idset(ids []uint64) []uint64 {
	m := map[uint64]bool{}
	var r []uint64
	for _, x := range ids {
		if !m[x] {
			m[x] = true
			r = append(r, x)
		}
	}
	sort.Slice(r, func(i, j int) bool { return r[i] < r[j] })
	return r
}

func sameIDs(a, b []uint64) bool {
	if len(a) != len(b) {
		return false
	}
	for i := range a {
		if a[i] != b[i] {
			return false
		}
	}
	return true
}

func (rr *runResult) check() (groups []*group) {
	bad := func(f string, a ...interface{}) { rr.problems = append(rr.problems, fmt.Sprintf(f, a...)) }
	if rr.hang != "" {
		bad("hang: %s", rr.hang)
		rr.jrecords, rr.haveCont = nil, false
	}
	// every call returned exactly once
	for id, cs := range rr.calls {
		if n := atomic.LoadInt32(&cs.returned); n != 1 && rr.hang == "" {
			bad("call %d returned %d times", id, n)
		}
		if cs.err != nil && strings.HasPrefix(cs.err.Error(), "panic:") {
			bad("call %d: %v", id, cs.err)
		}
	}
	// lock ownership and groups from the events
	owner := "" // "", "w<id>", "handing", "cr", "txn", "ro", "close"
	cur := map[uint64]*group{}
	var unlocking *group
	acks := 0
	ackWant := 0
	closeRet := false
	for i, e := range rr.events {
		take := func(who string) {
			if owner == "ro" {
				// SetReadOnly never releases; compactionError does so when closeC closes
				if !closeCalled(rr.events[:i]) {
					bad("event %d: %s takes the write lock while SetReadOnly holds it and the DB is not closing", i, who)
				}
			} else if owner != "" {
				bad("event %d: %s takes the write lock while %s owns it", i, who, owner)
			}
			owner = who
		}
		switch e.kind {
		case leveldb.VerifEvSelLock:
			take(fmt.Sprintf("w%d", e.a))
			if closeRet {
				bad("event %d: writer %d acquired the lock after Close returned", i, e.a)
			}
			g := &group{leader: e.a}
			cur[e.a] = g
			groups = append(groups, g)
		case leveldb.VerifEvSelHanded:
			if owner != "handing" {
				bad("event %d: writer %d says the lock was handed to it, but the owner is %q", i, e.a, owner)
			}
			owner = fmt.Sprintf("w%d", e.a)
			g := &group{leader: e.a}
			cur[e.a] = g
			groups = append(groups, g)
		case leveldb.VerifEvMergeTrue, leveldb.VerifEvMergeOverflow, leveldb.VerifEvJournalOk, leveldb.VerifEvJournalFail,
			leveldb.VerifEvPublish, leveldb.VerifEvFlushOk, leveldb.VerifEvFlushFail, leveldb.VerifEvApplied:
			g := cur[e.a]
			if g == nil || owner != fmt.Sprintf("w%d", e.a) {
				bad("event %d (kind %d): writer %d acts as leader but the lock owner is %q", i, e.kind, e.a, owner)
				continue
			}
			switch e.kind {
			case leveldb.VerifEvFlushOk:
				rr.dataFlushOk(g, e, bad)
			case leveldb.VerifEvMergeTrue:
				rr.dataMergeTrue(g, i, e, bad)
				g.merged = append(g.merged, e.b)
			case leveldb.VerifEvMergeOverflow:
				if g.overflow != 0 {
					bad("event %d: second overflow in the group of %d", i, e.a)
				}
				rr.dataMergeOverflow(g, i, e, bad)
				g.overflow = e.b
			case leveldb.VerifEvJournalOk:
				g.jok, g.seq = true, e.b
				g.opsJok = e.ops
			case leveldb.VerifEvJournalFail:
				g.jfail = true
			case leveldb.VerifEvPublish:
				g.pub++
				g.pubSeq = e.b
			}
			if e.kind == leveldb.VerifEvFlushFail || e.kind == leveldb.VerifEvJournalFail {
				unlocking = g
			}
		case leveldb.VerifEvUnlock:
			var g *group
			for _, x := range cur {
				if owner == fmt.Sprintf("w%d", x.leader) {
					g = x
				}
			}
			if g == nil {
				bad("event %d: unlockWrite but no writer owns the lock (owner %q)", i, owner)
				continue
			}
			unlocking = g
			acks, ackWant = 0, len(g.merged)
			if int(e.a) != len(g.merged) {
				bad("event %d: unlockWrite(merged=%d) but %d writers were told true", i, e.a, len(g.merged))
			}
			if (e.b>>4 != 0) != (g.overflow != 0) {
				bad("event %d: unlockWrite(overflow=%v) but overflow writer is %d", i, e.b>>4 != 0, g.overflow)
			}
		case leveldb.VerifEvAckSent:
			acks++
		case leveldb.VerifEvMergeInfo:
			rr.dataMergeInfo(i, e, bad)
		case leveldb.VerifEvJournalArgs, leveldb.VerifEvJournalSize, leveldb.VerifEvPutMem:
			// reported by the lock owner (141 carries no writer id)
			var g *group
			for _, x := range cur {
				if owner == fmt.Sprintf("w%d", x.leader) {
					g = x
				}
			}
			if g == nil {
				bad("event %d (kind %d): writeJournal/putMem but no writer owns the lock (owner %q)", i, e.kind, owner)
				continue
			}
			switch e.kind {
			case leveldb.VerifEvJournalArgs:
				g.n141++
				g.jSeq, g.jSync, g.jNb, g.jCnt, g.ops141 = e.a, e.b>>62&1 == 1, int(e.b>>40&(1<<22-1)), e.b&(1<<40-1), e.ops
			case leveldb.VerifEvJournalSize:
				g.n142++
				g.jBytes = e.b
				if e.a != g.leader {
					bad("event %d: writeJournal's first batch starts with writer %d, the lock owner is %d", i, e.a, g.leader)
				}
			case leveldb.VerifEvPutMem:
				g.puts = append(g.puts, putCall{first: e.a, seq: e.b & (1<<40 - 1), n: e.b >> 40})
			}
		case leveldb.VerifEvHandover, leveldb.VerifEvRelease:
			if unlocking == nil {
				bad("event %d: release/hand-over outside unlockWrite", i)
				continue
			}
			if acks != ackWant {
				bad("event %d: %d acknowledgements sent for %d merged writers (leader %d)", i, acks, ackWant, unlocking.leader)
			}
			delete(cur, unlocking.leader)
			if e.kind == leveldb.VerifEvHandover {
				owner = "handing"
			} else {
				owner = ""
			}
			unlocking = nil
		case leveldb.VerifEvCRLock:
			take("cr")
		case leveldb.VerifEvTxnLock:
			take("txn")
		case leveldb.VerifEvROLock:
			take("ro")
		case leveldb.VerifEvCRUnlock, leveldb.VerifEvTxnUnlock:
			owner = ""
		case evCloseRet:
			closeRet = true
			if owner != "" && owner != "ro" {
				bad("event %d: Close returned while %s owns the write lock", i, owner)
			}
			owner = "close"
		}
	}
	// results: every member of a group gets the leader's error value
	for _, g := range groups {
		lc := rr.calls[g.leader]
		if lc == nil {
			bad("leader %d is not a call of this run", g.leader)
			continue
		}
		for _, m := range g.merged {
			mc := rr.calls[m]
			if mc == nil {
				bad("merged writer %d is not a call of this run", m)
				continue
			}
			if mc.err != lc.err {
				bad("group of %d: merged writer %d returned %v, the leader returned %v", g.leader, m, mc.err, lc.err)
			}
		}
		if g.jok && g.pub != 1 && lc.err == nil {
			bad("group of %d: %d publications of the sequence number", g.leader, g.pub)
		}
		if !g.jok && g.pub != 0 {
			bad("group of %d published without a journal record", g.leader)
		}
		if (lc.err == nil) != (g.jok && g.pub == 1) && rr.hang == "" {
			// a leader may fail after publishing (rotate): then jok && err != nil is fine
			if lc.err == nil {
				bad("leader %d returned nil but its group was not journalled and published", g.leader)
			}
		}
	}
	// journal composition: writer ids are unique, so a record's id set identifies its group
	inJournal := map[uint64]int{}
	found := map[*group]int{}
	for _, r := range rr.jrecords {
		if r.bad != "" {
			bad("journal record seq %d: %s", r.seq, r.bad)
			continue
		}
		ids := idset(r.ids)
		for _, id := range r.ids {
			inJournal[id]++
		}
		var g *group
		for _, x := range groups {
			if (x.jok || x.jfail) && sameIDs(idset(append([]uint64{x.leader}, x.merged...)), ids) {
				g = x
			}
		}
		if g == nil {
			bad("journal record seq %d holds writers %v: no group of the trace has this composition", r.seq, ids)
			continue
		}
		found[g]++
		if rr.hang == "" {
			rr.dataRecordOrder(g, r, bad)
		}
		if g.jok && g.seq != r.seq {
			bad("journal record of the group of %d has seq %d, the leader used %d", g.leader, r.seq, g.seq)
		}
	}
	for _, g := range groups {
		if rr.hang != "" {
			break
		}
		if g.jok && found[g] != 1 {
			bad("group of %d (seq %d, merged %v) has %d journal records", g.leader, g.seq, g.merged, found[g])
		}
		if g.jfail && found[g] > 1 {
			bad("failed group of %d has %d journal records", g.leader, found[g])
		}
	}
	if rr.hang != "" {
		return groups
	}
	// per call: entries in the journal and in the DB
	for id, cs := range rr.calls {
		c := cs.spec
		if c.TxnPath {
			continue // written through a transaction, straight into tables
		}
		n := inJournal[id]
		if cs.err == nil && n != c.NRec && atomic.LoadInt32(&cs.returned) == 1 {
			bad("call %d succeeded but %d of its %d entries are in the journal", id, n, c.NRec)
		}
		if cs.err != nil && n != 0 && n != c.NRec {
			bad("call %d failed (%v) and %d of its %d entries are in the journal", id, cs.err, n, c.NRec)
		}
	}
	rr.checkData(groups, bad)
	if rr.haveCont {
		known := map[string]bool{}
		for id, cs := range rr.calls {
			c := cs.spec
			lens := valLens(c)
			present := 0
			for j := 0; j < c.NRec; j++ {
				k := string(recKey(id, j))
				known[k] = true
				v, ok := rr.contents[k]
				if ok {
					present++
					if c.Kind != 1 && !bytes.Equal(v, recVal(id, j, lens[j])) {
						bad("call %d entry %d: wrong value in the DB", id, j)
					}
				}
			}
			if atomic.LoadInt32(&cs.returned) != 1 {
				continue
			}
			switch {
			case c.Kind == 1:
				if present != 0 {
					bad("call %d (Delete): key present in the DB", id)
				}
			case cs.err == nil && present != c.NRec:
				bad("call %d succeeded but %d of its %d entries are in the DB (reopened=%v)", id, present, c.NRec, rr.reopened)
			case cs.err != nil && present != 0 && present != c.NRec:
				bad("call %d failed (%v) and %d of its %d entries are in the DB", id, cs.err, present, c.NRec)
			}
		}
		for k := range rr.contents {
			if !known[k] && !(len(k) == 10 && binary.BigEndian.Uint64([]byte(k)) >= 1<<32) {
				bad("unknown key %x in the DB", k)
			}
		}
	}
	return groups
}

func closeCalled(es []ev) bool {
	for _, e := range es {
		if e.kind == evCloseCall {
			return true
		}
	}
	return false
}

// ---- (K): rendering of a trace as a Coq case ----

func coqRes(c uint64) string {
	switch c {
	case leveldb.VerifErrNil:
		return "ROk"
	case leveldb.VerifErrClosed:
		return "RClosed"
	case leveldb.VerifErrPerr:
		return "RPerr"
	}
	return "ROther"
}

// coqBaseEvent renders a base event (Corr/C10Run.v's [event]); "" = not part of the trace.
func (rr *runResult) coqBaseEvent(e ev, n int, txn map[uint64]bool) string {
	w := func(id uint64) string { return fmt.Sprint(id - 1) }
	okid := func(id uint64) bool { return id >= 1 && id <= uint64(n) && !txn[id] }
	var s string
	switch e.kind {
	case evCall:
		if !okid(e.a) {
			return ""
		}
		s = fmt.Sprintf("ECall %s %s %s %d", w(e.a), vlib.CoqBool(e.b>>62&1 == 1), vlib.CoqBool(e.b>>61&1 == 1), e.b&(1<<61-1))
	case evRet:
		if !okid(e.a) {
			return ""
		}
		s = fmt.Sprintf("ERet %s %s", w(e.a), coqRes(e.b))
	case evCloseCall:
		s = "ECloseCall"
	case evCloseRet:
		s = "ECloseRet"
	case leveldb.VerifEvSelLock, leveldb.VerifEvSelHanded, leveldb.VerifEvSelMerged, leveldb.VerifEvSelPerr, leveldb.VerifEvSelClosed,
		leveldb.VerifEvApplied, leveldb.VerifEvRotateOk:
		if txn[e.a] {
			return ""
		}
		if !okid(e.a) {
			s = "ESelLock 4999" // an event of an unknown writer: make the case fail
			return s
		}
		name := map[int]string{leveldb.VerifEvSelLock: "ESelLock", leveldb.VerifEvSelHanded: "ESelHanded", leveldb.VerifEvSelMerged: "ESelMerged",
			leveldb.VerifEvSelPerr: "ESelPerr", leveldb.VerifEvSelClosed: "ESelClosed", leveldb.VerifEvApplied: "EApplied", leveldb.VerifEvRotateOk: "ERotateOk"}[e.kind]
		s = fmt.Sprintf("%s %s", name, w(e.a))
	case leveldb.VerifEvFlushOk:
		s = fmt.Sprintf("EFlushOk %s %d", w(e.a), e.b)
	case leveldb.VerifEvFlushFail:
		s = fmt.Sprintf("EFlushFail %s %s", w(e.a), coqRes(e.b))
	case leveldb.VerifEvMergeRecv:
		s = fmt.Sprintf("EMergeRecv %s %s", w(e.a), w(e.b))
	case leveldb.VerifEvMergeTrue:
		s = fmt.Sprintf("EMergeTrue %s %s", w(e.a), w(e.b))
	case leveldb.VerifEvMergeOverflow:
		s = fmt.Sprintf("EMergeOverflow %s %s", w(e.a), w(e.b))
	case leveldb.VerifEvJournalOk:
		s = fmt.Sprintf("EJournalOk %s %d", w(e.a), e.b)
	case leveldb.VerifEvJournalFail:
		s = fmt.Sprintf("EJournalFail %s %s", w(e.a), coqRes(e.b))
	case leveldb.VerifEvPublish:
		s = fmt.Sprintf("EPublish %s %d", w(e.a), e.b)
	case leveldb.VerifEvRotateFail:
		s = fmt.Sprintf("ERotateFail %s %s", w(e.a), coqRes(e.b))
	case leveldb.VerifEvUnlock:
		s = fmt.Sprintf("EUnlock %d %s %s", e.a, vlib.CoqBool(e.b>>4 != 0), coqRes(e.b&15))
	case leveldb.VerifEvAckSend:
		s = fmt.Sprintf("EAckSend %d %s", e.a, coqRes(e.b))
	case leveldb.VerifEvAckSent:
		s = fmt.Sprintf("EAckSent %d", e.a)
	case leveldb.VerifEvHandover:
		s = "EHandover"
	case leveldb.VerifEvHandoverDone:
		s = "EHandoverDone"
	case leveldb.VerifEvRelease:
		s = "ERelease"
	case leveldb.VerifEvCRLock:
		s = "ECRLock"
	case leveldb.VerifEvCRUnlock:
		s = "ECRUnlock"
	case leveldb.VerifEvROLock:
		s = "EROLock"
	case leveldb.VerifEvROSent:
		s = "EROSent"
	case leveldb.VerifEvTxnLock:
		s = "ETxnLock"
	case leveldb.VerifEvTxnUnlock:
		s = "ETxnUnlock"
	}
	return s
}

// ---- driver ----

func replayRecord(sc *scenario, rr *runResult, problems []string) map[string]interface{} {
	var tr []string
	for _, e := range rr.events {
		tr = append(tr, fmt.Sprintf("%d:%d:%d", e.kind, e.a, e.b))
	}
	if len(tr) > 600 {
		tr = tr[len(tr)-600:]
	}
	return map[string]interface{}{"scenario": sc, "problems": problems, "trace_kind:a:b": strings.Join(tr, " "),
		"replay_cmd": "build/c10 --replay <this file> --out <dir>   (re-runs the scenario up to 200 times; schedules vary)"}
}

func main() {
	a := vlib.ParseArgs()
	res := vlib.NewResult("C10", a.Out, "stress runs (2-32 writer goroutines, Put/Delete/Write, merge on/off, sizes around the memdb free space / 128 KiB / 1 MiB, CompactRange, transactions, SetReadOnly, Close racing, journal faults, mixed Sync flags inside merged groups, groups filling the merge limit, seeded yield delays); a run is non-trivial when its trace contains a merged group AND a lock hand-over; distinct = distinct (class, group-shape multiset)")
	defer res.Write()
	leveldb.VerifSetHooks(yield, record)

	nruns, kcap := 480, 320
	budget := 45 * time.Second
	if a.Thorough() {
		nruns, kcap, budget = 40000, 1100, 15*time.Minute // a data case is ~4.3 KB of text: 69 per file stay under 300 KB
	}
	if a.Extra == "search" {
		nruns, kcap, budget = 3000, 0, 8*time.Minute
	}
	var scs []*scenario
	if a.Replay != "" {
		b, err := os.ReadFile(a.Replay)
		if err != nil {
			fmt.Fprintln(os.Stderr, "replay:", err)
			os.Exit(2)
		}
		var rf struct {
			Case struct {
				Scenario scenario `json:"scenario"`
			} `json:"case"`
		}
		if err := json.Unmarshal(b, &rf); err != nil {
			fmt.Fprintln(os.Stderr, "replay:", err)
			os.Exit(2)
		}
		for i := 0; i < 200; i++ {
			sc := rf.Case.Scenario
			scs = append(scs, &sc)
		}
		kcap = 8
	} else {
		for i := 0; i < nruns; i++ {
			scs = append(scs, genScenario(a.Seed, i, a.Tier))
		}
	}
	t0 := time.Now()
	var cases []string
	maxEv := 0
	kviol := 0
	for i, sc := range scs {
		if time.Since(t0) > budget {
			res.Count("runs_skipped_time_budget", len(scs)-i)
			break
		}
		rr := runScenario(sc)
		groups := rr.check()
		// distribution
		res.Count("runs", 1)
		res.Count("class_"+sc.Class, 1)
		nm, nh, nf := 0, 0, 0
		var shape []string
		for _, g := range groups {
			if len(g.merged) > 0 {
				nm++
			}
			if g.overflow != 0 {
				nh++
			}
			if g.jfail {
				nf++
			}
			shape = append(shape, fmt.Sprintf("%d/%v", len(g.merged), g.overflow != 0))
		}
		sort.Strings(shape)
		res.Count("groups", len(groups))
		res.Count("groups_with_merged", nm)
		res.Count("handovers", nh)
		res.Count("groups_journal_failed", nf)
		res.Count("injected_faults", rr.injected)
		for _, e := range rr.events {
			switch e.kind {
			case leveldb.VerifEvSelPerr:
				res.Count("ret_persistent_error", 1)
			case leveldb.VerifEvSelClosed:
				res.Count("ret_closed", 1)
			case leveldb.VerifEvFlushFail:
				res.Count("flush_failed", 1)
			case leveldb.VerifEvRotateOk:
				res.Count("rotations", 1)
			case leveldb.VerifEvRotateFail:
				res.Count("rotate_failed", 1)
			case leveldb.VerifEvTxnLock:
				res.Count("txn_locks", 1)
			case leveldb.VerifEvCRLock:
				res.Count("compactrange_locks", 1)
			}
		}
		if rr.reopened {
			res.Count("reopened_after_racing_close", 1)
		}
		for k, v := range rr.stats {
			res.Count(k, v)
		}
		res.Eval(sc.Class+"|"+strings.Join(shape, ","), nm > 0 && nh > 0)
		if i < 3 {
			res.Sample(map[string]interface{}{"class": sc.Class, "calls": sc.ncalls(), "goroutines": len(sc.Writers), "write_buffer": sc.WriteBuffer,
				"events": len(rr.events), "groups": len(groups), "merged_groups": nm, "handovers": nh})
		}
		if len(rr.problems) > 0 {
			res.Violate(fmt.Sprintf("run %d (%s): %s", sc.Run, sc.Class, strings.Join(rr.problems, " | ")), replayRecord(sc, rr, rr.problems))
			if rr.hang != "" {
				break // goroutines of the hung DB are still alive and would pollute later traces
			}
			if a.Replay != "" {
				break
			}
			// a few of the violating runs also go to (K): the model must refuse what the oracles refuse
			if kviol >= 8 {
				continue
			}
			kviol++
			res.Count("k_cases_of_violating_runs", 1)
		}
		if len(cases) < kcap {
			c, n := rr.coqCase()
			if n <= 700 {
				cases = append(cases, c)
				if n > maxEv {
					maxEv = n
				}
				res.Count("k_events", n)
			} else {
				res.Count("k_trace_too_long_skipped", 1)
			}
		}
	}
	res.Extra["max_events_in_a_case"] = maxEv
	res.Extra["wall_runs_s"] = time.Since(t0).Seconds()
	res.WriteCases("From GL Require Import Conc.WriteMerge Conc.WriteMergeData Corr.C10Run Corr.C10DataRun.", "c10dcase", "dmismatches", cases, 16)
}
