// ubuf.go: the glue packages under the table writer / reader — util.Buffer, util.BufferPool, util.BytesPrefix,
// util.BasicReleaser (model: coq/theories/Base/UBuffer.v, theorems: Props/C13U.v).
// (P) drives the REAL types with generated call sequences against oracles written here (a plain byte queue for the
// buffer, the aliasing rules for the slices it returns, the prefix definition for BytesPrefix, class bounds and
// single ownership for the pool); (K) renders the same observations as cases for the Coq model (Corr/C13Run.v:
// KUBuf, KUPrefix, KUPool, KUPoolNum, KURel), which must predict every one of them exactly.
package main

import (
	"bytes"
	"encoding/json"
	"errors"
	"fmt"
	"io"
	"runtime"
	"strings"
	"unsafe"

	"github.com/syndtr/goleveldb/leveldb/util"
	"verifharness/lib/vlib"
)

// ---- operations ----

type ubRd struct {
	D   string `json:"d"` // hex
	E   int    `json:"e"`
	Neg bool   `json:"neg,omitempty"`
}

type ubOp struct {
	Kind  string `json:"kind"`
	N     int    `json:"n,omitempty"`     // Truncate / Alloc / Grow / Next argument, Read length, WriteTo count
	P     string `json:"p,omitempty"`     // hex: Write data, VWrite data
	C     int    `json:"c,omitempty"`     // WriteByte / ReadBytes delimiter
	E     int    `json:"e,omitempty"`     // WriteTo error code
	Sc    []ubRd `json:"sc,omitempty"`    // ReadFrom script
	Zeros bool   `json:"zeros,omitempty"` // ReadFrom: (0, nil) for ever after the script
	Step  int    `json:"step,omitempty"`  // VWrite / VRead: the call whose returned slice is used
	Pos   int    `json:"pos,omitempty"`
}

type ubCase struct {
	Type string `json:"type"` // "util_buffer"
	Init *struct {
		Arr string `json:"arr"` // hex contents of the backing array (its length is the capacity)
		Len int    `json:"len"`
	} `json:"init,omitempty"`
	Ops      []ubOp `json:"ops"`
	Expected string `json:"expected,omitempty"`
	Observed string `json:"observed,omitempty"`
	AtOp     int    `json:"at_op,omitempty"`
}

type ubObs struct {
	Kind    string // unit num data view nerr byte panic diverge
	N, E    int
	D       []byte
	Lo      int // -1: not observed
	C       int
	Code    int
	PanicV  string
	Off     int
	Len     int
	Cap     int
	Nil     bool
	Changed bool
}

var errCustom = []error{errors.New("verif: reader/writer error 3"), errors.New("verif: reader/writer error 4"), errors.New("verif: reader/writer error 5")}

func errOf(c int) error {
	switch {
	case c == 0:
		return nil
	case c == 1:
		return io.EOF
	case c == 2:
		return io.ErrShortWrite
	case c-3 < len(errCustom):
		return errCustom[c-3]
	}
	return errCustom[0]
}

func errCode(e error) int {
	switch e {
	case nil:
		return 0
	case io.EOF:
		return 1
	case io.ErrShortWrite:
		return 2
	}
	for i, x := range errCustom {
		if e == x {
			return 3 + i
		}
	}
	return 98
}

type divergeSentinel struct{}

type scriptReader struct {
	sc    []ubRd
	i     int
	zeros bool
	spins int
}

func (r *scriptReader) Read(p []byte) (int, error) {
	if r.i < len(r.sc) {
		el := r.sc[r.i]
		r.i++
		if el.Neg {
			return -1, nil
		}
		d := unhx(el.D)
		copy(p, d)
		return len(d), errOf(el.E) // a count above len(p) is the lying reader
	}
	if r.zeros {
		r.spins++
		if r.spins > 3000 {
			panic(divergeSentinel{})
		}
		return 0, nil
	}
	return 0, io.EOF
}

type scriptWriter struct {
	m      int
	e      int
	handed []byte
	called bool
}

func (w *scriptWriter) Write(p []byte) (int, error) {
	w.called = true
	w.handed = append([]byte{}, p...)
	return w.m, errOf(w.e)
}

func panicCode(v interface{}) (int, string) {
	if _, ok := v.(divergeSentinel); ok {
		return -1, "diverge"
	}
	if e, ok := v.(error); ok && e == bytes.ErrTooLarge {
		return 4, e.Error()
	}
	s := fmt.Sprint(v)
	switch {
	case s == "leveldb/util.Buffer: truncation out of range":
		return 1, s
	case s == "leveldb/util.Buffer.Alloc: negative count":
		return 2, s
	case s == "leveldb/util.Buffer.Grow: negative count":
		return 3, s
	case s == "leveldb/util.Buffer.ReadFrom: reader returned negative count from Read":
		return 5, s
	case s == "leveldb/util.Buffer.WriteTo: invalid Write count":
		return 6, s
	}
	if _, ok := v.(runtime.Error); ok && strings.Contains(s, "slice bounds out of range") {
		return 7, s
	}
	return 99, s
}

// ubRun is one real buffer being driven.
type ubRun struct {
	b        *util.Buffer
	held     map[int][]byte // call index -> the slice it returned
	arrays   [][]byte       // every backing array seen, kept alive
	prevBase uintptr
	prevCap  int
	prevNil  bool
}

func newUbRun(c *ubCase) *ubRun {
	r := &ubRun{held: map[int][]byte{}}
	if c.Init == nil {
		r.b = &util.Buffer{}
	} else {
		arr := unhx(c.Init.Arr)
		r.b = util.NewBuffer(arr[:c.Init.Len])
	}
	_, _, cp, nl, base := r.b.VerifState()
	r.prevBase, r.prevCap, r.prevNil = base, cp, nl
	r.arrays = append(r.arrays, r.b.VerifArray())
	return r
}

func viewLo(v []byte, base uintptr) int {
	if len(v) == 0 {
		return -1
	}
	return int(uintptr(unsafe.Pointer(&v[0])) - base)
}

// step executes one call on the real buffer and records everything observable.
func (r *ubRun) step(idx int, o ubOp) (obs ubObs) {
	obs.Lo = -1
	b := r.b
	func() {
		defer func() {
			if v := recover(); v != nil {
				code, s := panicCode(v)
				if code == -1 {
					obs.Kind = "diverge"
				} else {
					obs.Kind, obs.Code, obs.PanicV = "panic", code, s
				}
			}
		}()
		switch o.Kind {
		case "bytes":
			v := b.Bytes()
			r.held[idx] = v
			obs.Kind, obs.N, obs.D = "view", len(v), append([]byte{}, v...)
		case "string":
			obs.Kind, obs.D = "data", []byte(b.String())
		case "len":
			obs.Kind, obs.N = "num", b.Len()
		case "truncate":
			b.Truncate(o.N)
			obs.Kind = "unit"
		case "reset":
			b.Reset()
			obs.Kind = "unit"
		case "alloc":
			v := b.Alloc(o.N)
			r.held[idx] = v
			obs.Kind, obs.N, obs.D = "view", len(v), append([]byte{}, v...)
		case "grow":
			b.Grow(o.N)
			obs.Kind = "unit"
		case "write":
			n, err := b.Write(unhx(o.P))
			obs.Kind, obs.N, obs.E = "nerr", n, errCode(err)
		case "writebyte":
			if err := b.WriteByte(byte(o.C)); err != nil {
				obs.Kind, obs.Code, obs.PanicV = "panic", 99, "WriteByte returned "+err.Error()
			} else {
				obs.Kind = "unit"
			}
		case "readfrom":
			n, err := b.ReadFrom(&scriptReader{sc: o.Sc, zeros: o.Zeros})
			obs.Kind, obs.N, obs.E = "nerr", int(n), errCode(err)
		case "writeto":
			w := &scriptWriter{m: o.N, e: o.E}
			n, err := b.WriteTo(w)
			obs.Kind, obs.N, obs.E, obs.D = "nerr", int(n), errCode(err), w.handed
		case "read":
			p := make([]byte, o.N)
			n, err := b.Read(p)
			obs.Kind, obs.N, obs.E = "nerr", n, errCode(err)
			if n >= 0 && n <= len(p) {
				obs.D = p[:n]
			}
		case "next":
			v := b.Next(o.N)
			r.held[idx] = v
			obs.Kind, obs.N, obs.D = "view", len(v), append([]byte{}, v...)
		case "readbyte":
			c, err := b.ReadByte()
			obs.Kind, obs.C, obs.E = "byte", int(c), errCode(err)
		case "readbytes":
			line, err := b.ReadBytes(byte(o.C))
			obs.Kind, obs.N, obs.E, obs.D = "nerr", len(line), errCode(err), line
		case "vwrite":
			v := r.held[o.Step]
			n := copy(v[o.Pos:], unhx(o.P))
			obs.Kind, obs.N = "num", n
		case "vread":
			obs.Kind, obs.D = "data", append([]byte{}, r.held[o.Step]...)
		default:
			panic("unknown op " + o.Kind)
		}
	}()
	off, ln, cp, nl, base := b.VerifState()
	obs.Off, obs.Len, obs.Cap, obs.Nil = off, ln, cp, nl
	obs.Changed = !r.prevNil && (base != r.prevBase || cp != r.prevCap)
	if base != r.prevBase || cp != r.prevCap || nl != r.prevNil {
		r.arrays = append(r.arrays, b.VerifArray())
	}
	if obs.Kind == "view" {
		// where the returned slice starts in the array that is current AFTER the call
		obs.Lo = viewLo(r.held[idx], base)
	}
	r.prevBase, r.prevCap, r.prevNil = base, cp, nl
	return obs
}

// ---- (P): the byte-queue oracle and the aliasing rules, written independently of the Coq model ----

const hugeN = 1 << 50 // requests at or above this must end in bytes.ErrTooLarge, smaller generated ones never

func isReadOnlyOp(k string) bool {
	switch k {
	case "alloc", "grow", "write", "writebyte", "readfrom", "vwrite":
		return false
	}
	return true
}

func isAppendOp(k string) bool {
	switch k {
	case "bytes", "string", "len", "alloc", "grow", "write", "writebyte":
		return true
	}
	return false
}

type heldView struct {
	v    []byte
	copy []byte
	base uintptr // base of the array it lies in
	lo   int
}

// runBufferCase drives one case; returns the observations, the final backing array and a violation ("" = none).
func runBufferCase(c *ubCase, count func(string, int)) (obs []ubObs, arr []byte, viol string, at int) {
	cur := 0
	var r *ubRun
	defer func() {
		// Len / Bytes of a buffer whose invariant (off <= len <= cap) is broken panic
		if v := recover(); v != nil {
			viol, at = fmt.Sprintf("after call %d (%s) the buffer is unusable: Len/Bytes panic: %v", cur, c.Ops[cur].Kind, v), cur
			arr = r.b.VerifArray()
		}
	}()
	r = newUbRun(c)
	var q []byte
	appendOnly := c.Init == nil
	if c.Init != nil {
		q = append([]byte{}, unhx(c.Init.Arr)[:c.Init.Len]...)
	}
	var views []*heldView
	fail := func(i int, f string, a ...interface{}) ([]ubObs, []byte, string, int) {
		return obs, r.b.VerifArray(), fmt.Sprintf("call %d (%s): ", i, c.Ops[i].Kind) + fmt.Sprintf(f, a...), i
	}
	for i, o := range c.Ops {
		cur = i
		off0, len0, cap0, _, base0 := r.b.VerifState()
		x := r.step(i, o)
		obs = append(obs, x)
		count("ubuf_op_"+o.Kind, 1)
		if x.Kind == "panic" && x.Code == 99 {
			return fail(i, "unexpected panic: %s", x.PanicV)
		}
		// the queue
		stop := false
		expectPanic := func(code int, why string) string {
			if x.Kind != "panic" || x.Code != code {
				return fmt.Sprintf("expected panic class %d (%s), observed %s %d %q", code, why, x.Kind, x.Code, x.PanicV)
			}
			stop = true
			count(fmt.Sprintf("ubuf_panic_class_%d", code), 1)
			return ""
		}
		noPanic := func() string {
			if x.Kind == "panic" || x.Kind == "diverge" {
				return fmt.Sprintf("unexpected %s class %d: %s", x.Kind, x.Code, x.PanicV)
			}
			return ""
		}
		var msg string
		switch o.Kind {
		case "bytes", "string":
			if msg = noPanic(); msg == "" && !bytes.Equal(x.D, q) {
				msg = fmt.Sprintf("contents %x, the queue holds %x", x.D, q)
			}
		case "len":
			if msg = noPanic(); msg == "" && x.N != len(q) {
				msg = fmt.Sprintf("Len() = %d, the queue holds %d bytes", x.N, len(q))
			}
		case "truncate":
			if o.N != 0 && (o.N < 0 || o.N > len(q)) {
				msg = expectPanic(1, "truncation out of range")
			} else if msg = noPanic(); msg == "" {
				q = q[:o.N]
			}
		case "reset":
			if msg = noPanic(); msg == "" {
				q = q[:0]
			}
		case "alloc":
			if o.N < 0 {
				msg = expectPanic(2, "negative Alloc")
			} else if o.N >= hugeN {
				msg = expectPanic(4, "too large")
			} else if msg = noPanic(); msg == "" {
				if x.N != o.N {
					msg = fmt.Sprintf("Alloc(%d) returned %d bytes", o.N, x.N)
				} else if appendOnly && len(bytes.Trim(x.D, "\x00")) != 0 {
					msg = fmt.Sprintf("Alloc on a buffer that was only appended to returned non-zero bytes %x", x.D)
				}
				q = append(q, x.D...)
			}
		case "grow":
			if o.N < 0 {
				msg = expectPanic(3, "negative Grow")
			} else if o.N >= hugeN {
				msg = expectPanic(4, "too large")
			} else {
				msg = noPanic()
			}
		case "write":
			p := unhx(o.P)
			if msg = noPanic(); msg == "" {
				if x.N != len(p) || x.E != 0 {
					msg = fmt.Sprintf("Write of %d bytes returned (%d, error code %d)", len(p), x.N, x.E)
				}
				q = append(q, p...)
			}
		case "writebyte":
			if msg = noPanic(); msg == "" {
				q = append(q, byte(o.C))
			}
		case "readfrom":
			var data []byte
			wantErr, ended, neg, big := 0, false, false, false
			for _, el := range o.Sc {
				if el.Neg {
					neg = true
					break
				}
				d := unhx(el.D)
				if len(d) > 512 {
					big = true
				}
				data = append(data, d...)
				if el.E == 1 {
					ended = true
					break
				}
				if el.E != 0 {
					wantErr, ended = el.E, true
					break
				}
			}
			switch {
			case x.Kind == "panic" && x.Code == 7:
				if !big {
					msg = "slice-bounds panic although every answer of the reader fits MinRead"
				}
				stop = true
				count("ubuf_panic_class_7", 1)
			case neg:
				msg = expectPanic(5, "negative count from the reader")
			case !ended && o.Zeros:
				if x.Kind != "diverge" {
					msg = fmt.Sprintf("a reader answering (0, nil) for ever: expected the call to spin, observed %s", x.Kind)
				}
				stop = true
				count("ubuf_readfrom_spins", 1)
			default:
				if msg = noPanic(); msg == "" {
					if x.N != len(data) || x.E != wantErr {
						msg = fmt.Sprintf("ReadFrom returned (%d, error code %d), expected (%d, %d): all data up to the reader's first io.EOF or error, io.EOF reported as nil", x.N, x.E, len(data), wantErr)
					}
					q = append(q, data...)
				}
			}
		case "writeto":
			if len(q) == 0 {
				if msg = noPanic(); msg == "" && (x.N != 0 || x.E != 0 || len(x.D) != 0) {
					msg = fmt.Sprintf("WriteTo on an empty buffer returned (%d, %d) and called the writer with %d bytes", x.N, x.E, len(x.D))
				}
			} else if o.N > len(q) {
				msg = expectPanic(6, "writer claims more than it was given")
			} else if msg = noPanic(); msg == "" {
				want := o.E
				if want == 0 && o.N != len(q) {
					want = 2
				}
				if !bytes.Equal(x.D, q) || x.N != o.N || x.E != want {
					msg = fmt.Sprintf("WriteTo handed %x and returned (%d, %d); expected the queue %x and (%d, %d)", x.D, x.N, x.E, q, o.N, want)
				}
				q = q[o.N:]
			}
		case "read":
			if msg = noPanic(); msg == "" {
				if len(q) == 0 {
					want := 1
					if o.N == 0 {
						want = 0
					}
					if x.N != 0 || x.E != want {
						msg = fmt.Sprintf("Read(%d bytes) on an empty buffer returned (%d, %d), expected (0, %d)", o.N, x.N, x.E, want)
					}
				} else {
					n := o.N
					if n > len(q) {
						n = len(q)
					}
					if x.N != n || x.E != 0 || !bytes.Equal(x.D, q[:n]) {
						msg = fmt.Sprintf("Read(%d bytes) returned (%d, %d) %x, the queue starts %x", o.N, x.N, x.E, x.D, q[:n])
					}
					q = q[n:]
				}
			}
		case "next":
			n := o.N
			if n > len(q) {
				n = len(q)
			}
			if n < 0 {
				msg = expectPanic(7, "negative Next")
			} else if msg = noPanic(); msg == "" {
				if !bytes.Equal(x.D, q[:n]) {
					msg = fmt.Sprintf("Next(%d) returned %x, the queue starts %x", o.N, x.D, q[:n])
				}
				q = q[n:]
			}
		case "readbyte":
			if msg = noPanic(); msg == "" {
				if len(q) == 0 {
					if x.E != 1 {
						msg = fmt.Sprintf("ReadByte on an empty buffer: error code %d", x.E)
					}
				} else {
					if x.E != 0 || x.C != int(q[0]) {
						msg = fmt.Sprintf("ReadByte returned (%d, %d), the queue starts %d", x.C, x.E, q[0])
					}
					q = q[1:]
				}
			}
		case "readbytes":
			if msg = noPanic(); msg == "" {
				j := bytes.IndexByte(q, byte(o.C))
				want, we := q, 1
				if j >= 0 {
					want, we = q[:j+1], 0
				}
				if !bytes.Equal(x.D, want) || x.E != we {
					msg = fmt.Sprintf("ReadBytes(%d) returned %x error code %d, expected %x %d", o.C, x.D, x.E, want, we)
				}
				q = q[len(want):]
			}
		case "vwrite":
			if msg = noPanic(); msg == "" {
				q = append([]byte{}, r.b.Bytes()...) // a caller's own store: the queue follows the buffer
			}
		case "vread":
			msg = noPanic()
		}
		if msg != "" {
			return fail(i, "%s", msg)
		}
		if !isAppendOp(o.Kind) {
			appendOnly = false
		}
		if stop {
			count("ubuf_sequences_ended_by_panic_or_spin", 1)
			break
		}
		// Len / contents after every call
		if r.b.Len() != len(q) || !bytes.Equal(r.b.Bytes(), q) {
			return fail(i, "after the call the buffer holds %x (Len %d), the queue %x", r.b.Bytes(), r.b.Len(), q)
		}
		// the aliasing rules
		fits := false
		switch o.Kind {
		case "alloc":
			fits = o.N >= 0 && o.N <= cap0-len0
		case "write":
			fits = len(unhx(o.P)) <= cap0-len0
		case "writebyte":
			fits = 1 <= cap0-len0
		}
		for _, hv := range views {
			must := ""
			switch {
			case o.Kind == "vwrite":
			case isReadOnlyOp(o.Kind):
				must = "a call that is not a growing call"
			case hv.base != base0:
				must = "a growing call, the slice lies in an abandoned array"
			case fits && hv.lo+len(hv.v) <= len0:
				must = "a growing call that fits the capacity, the slice lies below len(b.buf)"
			}
			if must != "" && !bytes.Equal(hv.v, hv.copy) {
				return fail(i, "a slice returned earlier changed from %x to %x across %s", hv.copy, hv.v, must)
			}
			if must != "" {
				count("ubuf_view_stability_checks", 1)
			}
			hv.copy = append(hv.copy[:0], hv.v...)
		}
		if x.Kind == "view" && len(r.held[i]) > 0 {
			_, _, _, _, base := r.b.VerifState()
			views = append(views, &heldView{v: r.held[i], copy: append([]byte{}, r.held[i]...), base: base, lo: x.Lo})
		}
		if x.Changed {
			count("ubuf_reallocations", 1)
		} else if !isReadOnlyOp(o.Kind) && o.Kind != "vwrite" && !fits && off0 > 0 && x.Off == 0 && x.Len > 0 && x.Kind != "panic" {
			count("ubuf_slides_or_empty_resets", 1)
			if len0-off0 > 0 {
				count("ubuf_slides_with_contents", 1)
			}
		}
	}
	return obs, r.b.VerifArray(), "", -1
}

// ---- generator ----

func hexOf(b []byte) string { return hx(b) }

func genBufferCase(r *vlib.RNG) *ubCase {
	c := &ubCase{Type: "util_buffer"}
	if r.Chance(2, 5) {
		cp := []int{0, 1, 3, 8, 16, 40, 64, 65, 200, 600}[r.Intn(10)]
		arr := r.Bytes(cp, nil)
		ln := 0
		switch r.Intn(3) {
		case 0:
			ln = cp
		case 1:
			ln = r.Intn(cp + 1)
		}
		c.Init = &struct {
			Arr string `json:"arr"`
			Len int    `json:"len"`
		}{hexOf(arr), ln}
	}
	// the generator aims at the boundaries of the buffer it is driving (reslice / slide / reallocate decision)
	run := newUbRun(c)
	alphabet := []byte("abc\n")
	nops := r.Range(6, 36)
	var viewSteps []int
	for i := 0; i < nops; i++ {
		offNow, lenNow, capNow, _, _ := run.b.VerifState()
		m := lenNow - offNow
		pos := func(n int) int {
			if n < 0 {
				return 0
			}
			return n
		}
		sizeNear := func() int {
			switch r.Pick(30, 10, 10, 12, 10, 8, 10, 10) {
			case 0:
				return r.Intn(12)
			case 1:
				return pos(capNow - lenNow)
			case 2:
				return pos(capNow - lenNow + 1)
			case 3:
				return pos(capNow/2 - m)
			case 4:
				return pos(capNow/2 - m + 1)
			case 5:
				return 0
			case 6:
				return r.Range(40, 130)
			}
			return 1
		}
		consume := func() int { // how much to read: often most, but not all, of the contents
			return pos([]int{0, 1, 2, m, m + 1, m / 2, 5, m - 1, m - 2, m * 3 / 4, m * 7 / 8}[r.Pick(2, 4, 3, 4, 2, 4, 2, 5, 4, 4, 4)])
		}
		var o ubOp
		switch r.Pick(14, 5, 8, 4, 4, 8, 6, 4, 4, 3, 3, 5, 3, 3, 3, 4, 3) {
		case 0:
			o = ubOp{Kind: "write", P: hexOf(r.Bytes(sizeNear(), alphabet))}
		case 1:
			o = ubOp{Kind: "writebyte", C: int(alphabet[r.Intn(len(alphabet))])}
		case 2:
			n := sizeNear()
			switch r.Pick(60, 1, 1) {
			case 1:
				n = -1 - r.Intn(3)
			case 2:
				n = []int{1 << 50, 1<<63 - 1, 1<<63 - 70, 1 << 62}[r.Intn(4)]
			}
			o = ubOp{Kind: "alloc", N: n}
		case 3:
			n := sizeNear()
			switch r.Pick(40, 1, 1) {
			case 1:
				n = -1 - r.Intn(3)
			case 2:
				n = []int{1 << 50, 1<<63 - 1, 1<<63 - 70, 1 << 62}[r.Intn(4)]
			}
			o = ubOp{Kind: "grow", N: n}
		case 4:
			o = ubOp{Kind: "bytes"}
		case 5:
			o = ubOp{Kind: "read", N: consume()}
		case 6:
			n := consume()
			if r.Chance(1, 60) {
				n = -1
			}
			o = ubOp{Kind: "next", N: n}
		case 7:
			o = ubOp{Kind: "readbyte"}
		case 8:
			o = ubOp{Kind: "readbytes", C: int(alphabet[r.Intn(len(alphabet))])}
		case 9:
			n := []int{0, m, m / 2, 1, m + 1, -1}[r.Pick(4, 4, 10, 4, 1, 1)]
			if n == 1 && m == 0 {
				n = 0
			}
			o = ubOp{Kind: "truncate", N: n}
		case 10:
			o = ubOp{Kind: "reset"}
		case 11:
			k := r.Intn(5)
			for j := 0; j < k; j++ {
				n := []int{0, 1, 7, 100, 511, 512, 513, 700}[r.Pick(6, 5, 6, 4, 2, 3, 1, 1)]
				el := ubRd{D: hexOf(r.Bytes(n, alphabet)), E: []int{0, 1, 3, 4}[r.Pick(12, 3, 1, 1)]}
				if r.Chance(1, 80) {
					el = ubRd{Neg: true}
				}
				o.Sc = append(o.Sc, el)
			}
			o.Kind, o.Zeros = "readfrom", r.Chance(1, 30)
		case 12:
			n := []int{m, m, m / 2, 0, m + 1}[r.Pick(8, 4, 4, 2, 1)]
			o = ubOp{Kind: "writeto", N: pos(n), E: []int{0, 0, 0, 3, 5}[r.Intn(5)]}
		case 13:
			o = ubOp{Kind: "string"}
		case 14:
			o = ubOp{Kind: "len"}
		case 15:
			o = ubOp{Kind: "len"}
			if len(viewSteps) > 0 {
				st := viewSteps[r.Intn(len(viewSteps))]
				if p := r.Intn(3); p <= len(run.held[st]) {
					o = ubOp{Kind: "vwrite", Step: st, Pos: p, P: hexOf(r.Bytes(r.Range(1, 4), []byte("XYZ")))}
				}
			}
		default:
			o = ubOp{Kind: "string"}
			if len(viewSteps) > 0 {
				o = ubOp{Kind: "vread", Step: viewSteps[r.Intn(len(viewSteps))]}
			}
		}
		x := run.step(i, o)
		c.Ops = append(c.Ops, o)
		if x.Kind == "view" {
			viewSteps = append(viewSteps, i)
		}
		if x.Kind == "panic" || x.Kind == "diverge" {
			break
		}
	}
	return c
}

// ---- (K) rendering ----

func coqZ(n int) string { return fmt.Sprintf("(%d)%%Z", n) }

func coqUOp(o ubOp) string {
	switch o.Kind {
	case "bytes":
		return "UBytes"
	case "string":
		return "UString"
	case "len":
		return "ULen"
	case "truncate":
		return "UTruncate " + coqZ(o.N)
	case "reset":
		return "UReset"
	case "alloc":
		return "UAlloc " + coqZ(o.N)
	case "grow":
		return "UGrow " + coqZ(o.N)
	case "write":
		return "UWrite " + vlib.CoqHex(unhx(o.P))
	case "writebyte":
		return fmt.Sprintf("UWriteByte %d", o.C)
	case "readfrom":
		var parts []string
		for _, el := range o.Sc {
			if el.Neg {
				parts = append(parts, "KRdNeg")
			} else {
				parts = append(parts, fmt.Sprintf("KRd %s %d", vlib.CoqHex(unhx(el.D)), el.E))
			}
		}
		return fmt.Sprintf("UReadFrom [%s] %s", strings.Join(parts, "; "), vlib.CoqBool(o.Zeros))
	case "writeto":
		return fmt.Sprintf("UWriteTo %d %d", o.N, o.E)
	case "read":
		return fmt.Sprintf("URead %d", o.N)
	case "next":
		return "UNext " + coqZ(o.N)
	case "readbyte":
		return "UReadByte"
	case "readbytes":
		return fmt.Sprintf("UReadBytes %d", o.C)
	case "vwrite":
		return fmt.Sprintf("UVWrite %d%%nat %d %s", o.Step, o.Pos, vlib.CoqHex(unhx(o.P)))
	case "vread":
		return fmt.Sprintf("UVRead %d%%nat", o.Step)
	}
	panic("coqUOp " + o.Kind)
}

func coqUObs(x ubObs) string {
	var r string
	switch x.Kind {
	case "unit":
		r = "XUnit"
	case "num":
		r = fmt.Sprintf("XNum %d", x.N)
	case "data":
		r = "XData " + vlib.CoqHex(x.D)
	case "view":
		lo := "None"
		if x.Lo >= 0 {
			lo = fmt.Sprintf("(Some %d)", x.Lo)
		}
		r = fmt.Sprintf("XView %s %d %s", lo, x.N, vlib.CoqHex(x.D))
	case "nerr":
		r = fmt.Sprintf("XNErr %d %d %s", x.N, x.E, vlib.CoqHex(x.D))
	case "byte":
		r = fmt.Sprintf("XByte %d %d", x.C, x.E)
	case "panic":
		r = fmt.Sprintf("XPanic %d", x.Code)
	case "diverge":
		r = "XDiverge"
	}
	return fmt.Sprintf("%s, (%d, %d, %d, %s, %s)", r, x.Off, x.Len, x.Cap, vlib.CoqBool(x.Nil), vlib.CoqBool(x.Changed))
}

// the harness hands the reader's / Read's data to the model as the observation; for "nerr" results of Write and
// ReadFrom no data is reported (model: empty)
func coqBufferCase(c *ubCase, obs []ubObs, arr []byte) string {
	init := "None"
	if c.Init != nil {
		init = fmt.Sprintf("(Some (%s, %d))", vlib.CoqHex(unhx(c.Init.Arr)), c.Init.Len)
	}
	var steps []string
	for i, x := range obs {
		steps = append(steps, "("+coqUOp(c.Ops[i])+", "+coqUObs(x)+")")
	}
	return fmt.Sprintf("KUBuf %s [%s] %s", init, strings.Join(steps, ";\n   "), vlib.CoqHex(arr))
}

// ---- BytesPrefix ----

type prefixCase struct {
	Type     string   `json:"type"` // "util_prefix"
	P        string   `json:"prefix"`
	Probes   []string `json:"probes"`
	Expected string   `json:"expected,omitempty"`
	Observed string   `json:"observed,omitempty"`
}

func genPrefixCase(r *vlib.RNG) *prefixCase {
	var p []byte
	switch r.Pick(2, 3, 8, 6, 3) {
	case 0:
	case 1:
		p = bytes.Repeat([]byte{0xff}, r.Range(1, 4))
	case 2:
		p = r.Bytes(r.Range(1, 5), []byte{0, 1, 'a', 0xfe, 0xff})
	case 3:
		p = append(r.Bytes(r.Range(1, 3), []byte{0, 'a', 0xfe, 0xff}), bytes.Repeat([]byte{0xff}, r.Range(1, 3))...)
	default:
		p = r.Bytes(r.Range(1, 6), nil)
	}
	if p == nil && r.Bool() {
		p = []byte{}
	}
	c := &prefixCase{Type: "util_prefix", P: hexOf(p)}
	add := func(k []byte) { c.Probes = append(c.Probes, hexOf(k)) }
	add(p)
	add(append(append([]byte{}, p...), 0))
	add(append(append([]byte{}, p...), 0xff, 0xff))
	add(nil)
	for i := 0; i < len(p); i++ {
		// every position bumped up / down, with and without the tail
		for _, d := range []int{-1, 1} {
			k := append([]byte{}, p...)
			if v := int(k[i]) + d; v >= 0 && v <= 255 {
				k[i] = byte(v)
				add(k)
				add(k[:i+1])
				add(append(append([]byte{}, k[:i+1]...), 0xff))
			}
		}
		add(p[:i])
		add(append(append([]byte{}, p[:i]...), 0xff))
	}
	for j := 0; j < 6; j++ {
		add(r.Bytes(r.Intn(len(p)+3), []byte{0, 1, 'a', 0xfe, 0xff}))
	}
	return c
}

func inRangeGo(rg *util.Range, k []byte) bool {
	return bytes.Compare(rg.Start, k) <= 0 && (rg.Limit == nil || bytes.Compare(k, rg.Limit) < 0)
}

func runPrefixCase(c *prefixCase, count func(string, int)) (kcase string, viol string) {
	defer func() {
		if v := recover(); v != nil {
			viol = fmt.Sprintf("BytesPrefix(%s) panics: %v", c.P, v)
		}
	}()
	p := unhx(c.P)
	if c.P == "" && len(c.Probes)%2 == 0 {
		p = nil
	}
	rg := util.BytesPrefix(append([]byte(nil), p...))
	if !bytes.Equal(rg.Start, p) {
		return "", fmt.Sprintf("BytesPrefix(%x).Start = %x", p, rg.Start)
	}
	if rg.Limit == nil {
		count("prefix_open_limit", 1)
	}
	var probes []string
	for _, h := range c.Probes {
		k := unhx(h)
		in := inRangeGo(rg, k)
		if in != bytes.HasPrefix(k, p) && viol == "" {
			viol = fmt.Sprintf("BytesPrefix(%x) = [%x, %x): key %x in range = %v, has the prefix = %v", p, rg.Start, rg.Limit, k, in, bytes.HasPrefix(k, p))
		}
		probes = append(probes, fmt.Sprintf("(%s, %s)", vlib.CoqHex(k), vlib.CoqBool(in)))
		count("prefix_probes", 1)
	}
	return fmt.Sprintf("KUPrefix %s %s [%s]", vlib.CoqHex(p), vlib.CoqOptHex(rg.Limit), strings.Join(probes, "; ")), viol
}

// ---- BufferPool ----

type poolOp struct {
	Get bool `json:"get"`
	N   int  `json:"n,omitempty"`   // Get size
	Buf int  `json:"buf,omitempty"` // Put: index into the slices obtained so far
	Cut int  `json:"cut,omitempty"` // Put: reslice to this capacity first (0: as obtained)
}

type poolCase struct {
	Type     string   `json:"type"` // "util_pool"
	Baseline int      `json:"baseline"`
	Ops      []poolOp `json:"ops"`
	Expected string   `json:"expected,omitempty"`
	Observed string   `json:"observed,omitempty"`
}

func genPoolCase(r *vlib.RNG) *poolCase {
	bl := []int{1, 3, 4, 8, 37, 64, 1024, 4101}[r.Intn(8)]
	c := &poolCase{Type: "util_pool", Baseline: bl}
	bounds := []int{bl / 4, bl / 2, bl, bl * 2, bl * 4}
	size := func() int {
		if r.Chance(1, 4) {
			return r.Intn(bl*5 + 2)
		}
		n := bounds[r.Intn(5)] + r.Range(-1, 1)
		if n < 0 {
			n = 0
		}
		return n
	}
	got := 0
	for i, k := 0, r.Range(4, 24); i < k; i++ {
		if got == 0 || r.Chance(3, 5) {
			c.Ops = append(c.Ops, poolOp{Get: true, N: size()})
			got++
		} else {
			o := poolOp{Buf: r.Intn(got)}
			if r.Chance(1, 4) {
				o.Cut = size()
			}
			c.Ops = append(c.Ops, o)
		}
	}
	return c
}

type pooled struct {
	id  int
	cap int
}

func specClass(baseline [5]int, n int) int {
	for i, x := range baseline {
		if n <= x {
			return i
		}
	}
	return 5
}

// runPoolCase: every slice is Put at most once while the harness does not hold it again, so two Gets must never
// return the same array; classes and capacities follow the documented bounds.
func runPoolCase(c *poolCase, count func(string, int)) (kcases []string, viol string) {
	defer func() {
		if v := recover(); v != nil {
			viol = fmt.Sprintf("the pool panics: %v", v)
		}
	}()
	p := util.NewBufferPool(c.Baseline)
	bl := p.VerifBaseline()
	want := [5]int{c.Baseline / 4, c.Baseline / 2, c.Baseline, c.Baseline * 2, c.Baseline * 4}
	if bl != want {
		return nil, fmt.Sprintf("NewBufferPool(%d): class bounds %v, expected %v", c.Baseline, bl, want)
	}
	// poolNum probes
	var probes []string
	for _, b := range want {
		for d := -1; d <= 1; d++ {
			if n := b + d; n >= 0 {
				cl := p.VerifPoolNum(n)
				if cl != specClass(want, n) && viol == "" {
					viol = fmt.Sprintf("baseline %d: poolNum(%d) = %d, the smallest class whose bound holds %d is %d", c.Baseline, n, cl, n, specClass(want, n))
				}
				probes = append(probes, fmt.Sprintf("(%d, %d%%nat)", n, cl))
				count("pool_num_probes", 1)
			}
		}
	}
	kcases = append(kcases, fmt.Sprintf("KUPoolNum %d [%s]", c.Baseline, strings.Join(probes, "; ")))
	if viol != "" {
		return kcases, viol
	}
	ids := map[uintptr]int{} // array address -> identity
	var keep [][]byte        // every array stays alive: addresses are never reused
	var bufs [][]byte        // slices obtained by Get, in order
	owned := map[int]bool{}  // identities the harness holds (not in the pool)
	classes := make([][]pooled, 6)
	var steps []string
	nextID := 0
	idOf := func(b []byte) (int, bool) {
		if cap(b) == 0 {
			return -1, false
		}
		a := uintptr(unsafe.Pointer(&b[:1][0]))
		id, ok := ids[a]
		return id, ok
	}
	for i, o := range c.Ops {
		if o.Get {
			b := p.Get(o.N)
			keep = append(keep, b)
			bufs = append(bufs, b)
			cl := specClass(want, o.N)
			if len(b) != o.N || cap(b) < o.N {
				return nil, fmt.Sprintf("op %d: Get(%d) returned len %d cap %d", i, o.N, len(b), cap(b))
			}
			id, known := idOf(b)
			pick, reused := "None", false
			if known {
				if owned[id] {
					return nil, fmt.Sprintf("op %d: Get(%d) returned an array the caller still owns (identity %d): two owners of one buffer", i, o.N, id)
				}
				at := -1
				for j, e := range classes[cl] {
					if e.id == id {
						at = j
						break
					}
				}
				if at < 0 {
					return nil, fmt.Sprintf("op %d: Get(%d) (class %d) returned a pooled array of capacity %d that was filed under another class", i, o.N, cl, cap(b))
				}
				pick, reused = fmt.Sprintf("(Some %d%%nat)", at), true
				classes[cl] = append(classes[cl][:at:at], classes[cl][at+1:]...)
				count("pool_get_reused", 1)
			} else {
				wantCap := o.N
				if cl < 5 {
					wantCap = want[cl]
				}
				if cap(b) != wantCap {
					return nil, fmt.Sprintf("op %d: Get(%d) made a new slice of capacity %d, expected %d (class %d)", i, o.N, cap(b), wantCap, cl)
				}
				id = nextID
				nextID++
				if cap(b) > 0 {
					ids[uintptr(unsafe.Pointer(&b[:1][0]))] = id
				}
				count("pool_get_fresh", 1)
			}
			owned[id] = true
			steps = append(steps, fmt.Sprintf("PGet %d %s %d%%nat %d%%nat %d %d %s", o.N, pick, id, id, len(b), cap(b), vlib.CoqBool(reused)))
		} else {
			b := bufs[o.Buf]
			id, known := idOf(b)
			if !known || !owned[id] {
				continue // never a second Put of a slice the harness no longer owns
			}
			if o.Cut > 0 && o.Cut < cap(b) {
				b = b[:o.Cut:o.Cut]
			}
			p.Put(b)
			owned[id] = false
			cl := specClass(want, cap(b))
			classes[cl] = append([]pooled{{id, cap(b)}}, classes[cl]...)
			steps = append(steps, fmt.Sprintf("PPut %d%%nat %d", id, cap(b)))
			count("pool_put", 1)
		}
	}
	kcases = append(kcases, fmt.Sprintf("KUPool %d [%s]", c.Baseline, strings.Join(steps, "; ")))
	runtime.KeepAlive(keep)
	return kcases, ""
}

// ---- BasicReleaser ----

type relCounter struct{ n int }

func (r *relCounter) Release() { r.n++ }

func runReleaserCase(r *vlib.RNG) (kcase string, viol string) {
	var br util.BasicReleaser
	var steps []string
	attached := (*relCounter)(nil)
	released := false
	for i, k := 0, r.Range(3, 10); i < k; i++ {
		switch r.Pick(4, 4, 2) {
		case 0:
			before := 0
			if attached != nil {
				before = attached.n
			}
			br.Release()
			ran := attached != nil && attached.n == before+1
			if attached != nil && attached.n > before+1 {
				return "", "Release called the attached releaser more than once"
			}
			if ran != (!released && attached != nil) {
				return "", fmt.Sprintf("Release: releaser ran = %v, released before = %v, attached = %v", ran, released, attached != nil)
			}
			if !released {
				attached = nil
			}
			released = true
			steps = append(steps, fmt.Sprintf("(RLRelease, RLUnit %s)", vlib.CoqBool(ran)))
		case 1:
			nonnil := r.Chance(3, 4)
			var rl util.Releaser
			var nc *relCounter
			if nonnil {
				nc = &relCounter{}
				rl = nc
			}
			want := "RLUnit false"
			if released {
				want = "RLPanicReleased"
			} else if attached != nil && nonnil {
				want = "RLPanicHas"
			}
			res := "RLUnit false"
			func() {
				defer func() {
					if v := recover(); v != nil {
						switch v {
						case util.ErrReleased:
							res = "RLPanicReleased"
						case util.ErrHasReleaser:
							res = "RLPanicHas"
						default:
							res = "RLOther"
						}
					}
				}()
				br.SetReleaser(rl)
				attached = nc
			}()
			if res != want {
				return "", fmt.Sprintf("SetReleaser(non-nil=%v) on released=%v: %s, expected %s", nonnil, released, res, want)
			}
			steps = append(steps, fmt.Sprintf("(RLSet %s, %s)", vlib.CoqBool(nonnil), res))
		default:
			if br.Released() != released {
				return "", fmt.Sprintf("Released() = %v, expected %v", br.Released(), released)
			}
			steps = append(steps, fmt.Sprintf("(RLReleased, RLBool %s)", vlib.CoqBool(released)))
		}
	}
	return "KURel [" + strings.Join(steps, "; ") + "]", ""
}

// ---- driver ----

type utilBudget struct {
	pBuf, pPrefix, pPool, pRel int // (P) only
	kBuf, kPrefix, kPool, kRel int // also rendered as (K) cases
	kBufMaxText                int
}

var utilQuick = utilBudget{pBuf: 30000, pPrefix: 4000, pPool: 3000, pRel: 500, kBuf: 64, kPrefix: 24, kPool: 16, kRel: 8, kBufMaxText: 9000}
var utilThorough = utilBudget{pBuf: 1500000, pPrefix: 100000, pPool: 100000, pRel: 5000, kBuf: 400, kPrefix: 120, kPool: 80, kRel: 24, kBufMaxText: 9000}

// runUtil runs the (P) part and returns the (K) cases.
func runUtil(a vlib.Args, res *vlib.Result, r *vlib.RNG) []string {
	b := utilQuick
	if a.Thorough() {
		b = utilThorough
	}
	count := func(k string, n int) { res.Count(k, n) }
	var kcases []string
	rb, rp, rq, rr := r.Fork(), r.Fork(), r.Fork(), r.Fork()
	nk := 0
	for i := 0; i < b.pBuf && res.NViolations() < 5; i++ {
		c := genBufferCase(rb.Fork())
		obs, arr, viol, at := runBufferCase(c, count)
		key, _ := json.Marshal(c.Ops)
		res.Eval("ubuf:"+string(key), len(c.Ops) >= 4)
		if viol != "" {
			c.Expected = "util.Buffer behaves as a byte queue; returned slices keep their bytes as Props/C13U.v states"
			c.Observed, c.AtOp = viol, at
			res.Violate("util.Buffer: "+viol, c)
			// the model is asked about the calls made so far all the same
			if len(obs) > 0 && len(obs) <= len(c.Ops) {
				if s := coqBufferCase(c, obs, arr); len(s) <= b.kBufMaxText {
					kcases = append(kcases, s)
				}
			}
			continue
		}
		if nk < b.kBuf {
			if s := coqBufferCase(c, obs, arr); len(s) <= b.kBufMaxText {
				kcases = append(kcases, s)
				nk++
				res.Count("k_ubuf_cases", 1)
				res.Count("k_ubuf_calls", len(obs))
			}
		}
	}
	res.Count("ubuf_sequences", b.pBuf)
	for i := 0; i < b.pPrefix && res.NViolations() < 8; i++ {
		c := genPrefixCase(rp.Fork())
		k, viol := runPrefixCase(c, count)
		res.Eval("prefix:"+c.P, len(c.P) > 0)
		if viol != "" {
			c.Expected, c.Observed = "a key lies in BytesPrefix(p) exactly when it has the prefix p", viol
			res.Violate("BytesPrefix: "+viol, c)
			if k != "" {
				kcases = append(kcases, k)
			}
			continue
		}
		if i < b.kPrefix {
			kcases = append(kcases, k)
			res.Count("k_prefix_cases", 1)
		}
	}
	for i := 0; i < b.pPool && res.NViolations() < 10; i++ {
		c := genPoolCase(rq.Fork())
		ks, viol := runPoolCase(c, count)
		key, _ := json.Marshal(c)
		res.Eval("pool:"+string(key), true)
		if viol != "" {
			c.Expected, c.Observed = "Get(n): len n, cap >= n, class bounds as documented; a slice Put once has one owner", viol
			res.Violate("util.BufferPool: "+viol, c)
			kcases = append(kcases, ks...)
			continue
		}
		if i < b.kPool {
			kcases = append(kcases, ks...)
			res.Count("k_pool_cases", len(ks))
		}
	}
	for i := 0; i < b.pRel && res.NViolations() < 12; i++ {
		k, viol := runReleaserCase(rr.Fork())
		if viol != "" {
			res.Violate("util.BasicReleaser: "+viol, map[string]interface{}{"type": "util_releaser", "observed": viol})
			continue
		}
		if i < b.kRel {
			kcases = append(kcases, k)
			res.Count("k_releaser_cases", 1)
		}
	}
	return kcases
}

// replayUtil re-runs a stored util_* case; returns false when the file is not one.
func replayUtil(raw []byte, res *vlib.Result) bool {
	var head struct {
		Case struct {
			Type string `json:"type"`
		} `json:"case"`
	}
	if json.Unmarshal(raw, &head) != nil || !strings.HasPrefix(head.Case.Type, "util_") {
		return false
	}
	count := func(string, int) {}
	switch head.Case.Type {
	case "util_buffer":
		var f struct {
			Case ubCase `json:"case"`
		}
		json.Unmarshal(raw, &f)
		c := f.Case
		if _, _, viol, at := runBufferCase(&c, count); viol != "" {
			c.Observed, c.AtOp = viol, at
			res.Violate("util.Buffer: "+viol, &c)
		}
	case "util_prefix":
		var f struct {
			Case prefixCase `json:"case"`
		}
		json.Unmarshal(raw, &f)
		c := f.Case
		if _, viol := runPrefixCase(&c, count); viol != "" {
			c.Observed = viol
			res.Violate("BytesPrefix: "+viol, &c)
		}
	case "util_pool":
		var f struct {
			Case poolCase `json:"case"`
		}
		json.Unmarshal(raw, &f)
		c := f.Case
		if _, viol := runPoolCase(&c, count); viol != "" {
			c.Observed = viol
			res.Violate("util.BufferPool: "+viol, &c)
		}
	}
	res.Eval("replay", true)
	return true
}
