// oracle.go: the reference cursor over a sorted list, movement-sequence generators and the
// side-by-side driver of a real iterator against the cursor.
package main

import (
	"bytes"
	"fmt"

	"github.com/syndtr/goleveldb/leveldb/comparer"
	"github.com/syndtr/goleveldb/leveldb/iterator"
	"verifharness/lib/vlib"
)

const (
	OpFirst = iota
	OpLast
	OpSeek
	OpNext
	OpPrev
	numOpKinds
)

var OpNames = [numOpKinds]string{"first", "last", "seek", "next", "prev"}

// Op is one iterator movement.
type Op struct {
	Kind int
	Key  []byte // OpSeek only
}

func (o Op) String() string {
	if o.Kind == OpSeek {
		return fmt.Sprintf("seek(%x)", o.Key)
	}
	return OpNames[o.Kind]
}

// LowerBound returns the first index whose key is >= k under cmp (len(view) if none).
func LowerBound(view []KV, cmp comparer.Comparer, k []byte) int {
	lo, hi := 0, len(view)
	for lo < hi {
		m := (lo + hi) / 2
		if cmp.Compare(view[m].K, k) < 0 {
			lo = m + 1
		} else {
			hi = m
		}
	}
	return lo
}

// Cursor is the reference iterator: Pos is -1 (before the first), 0..len-1, or len (after the last).
type Cursor struct {
	View []KV
	Cmp  comparer.Comparer
	Pos  int
}

func NewCursor(view []KV, cmp comparer.Comparer) *Cursor {
	return &Cursor{View: view, Cmp: cmp, Pos: -1}
}

func (c *Cursor) Valid() bool { return c.Pos >= 0 && c.Pos < len(c.View) }

// Do applies the movement and returns whether the cursor then rests on an entry.
func (c *Cursor) Do(op Op) bool {
	n := len(c.View)
	switch op.Kind {
	case OpFirst:
		c.Pos = 0 // == n (after the last) when empty
	case OpLast:
		c.Pos = n - 1 // == -1 (before the first) when empty
	case OpSeek:
		c.Pos = LowerBound(c.View, c.Cmp, op.Key)
	case OpNext:
		if c.Pos < n {
			c.Pos++
		}
	case OpPrev:
		if c.Pos >= 0 {
			c.Pos--
		}
	}
	return c.Valid()
}

// ---- generators ----

func cloneBytes(b []byte) []byte { return append([]byte{}, b...) }

// nearKey returns a key at or next to kvs[t].K: the key itself, a between-keys neighbour, a prefix...
func nearKey(r *vlib.RNG, kvs []KV, t int) []byte {
	k := kvs[t].K
	switch r.Pick(8, 3, 2, 2, 2, 1, 1, 1) {
	case 0:
		return cloneBytes(k)
	case 1:
		return append(cloneBytes(k), 0x00)
	case 2:
		if len(k) > 0 {
			p := cloneBytes(k)
			p[len(p)-1]--
			return p
		}
	case 3:
		if len(k) > 0 {
			p := cloneBytes(k)
			p[len(p)-1]++
			return p
		}
	case 4:
		if len(k) > 0 {
			return cloneBytes(k[:len(k)-1])
		}
	case 5:
		return append(cloneBytes(k), 0xff)
	case 6:
		return append(cloneBytes(k), 0x55)
	case 7:
		if t > 0 {
			return append(cloneBytes(kvs[t-1].K), 0x00)
		}
	}
	return cloneBytes(k)
}

func randomProbe(r *vlib.RNG, kvs []KV) []byte {
	if len(kvs) > 0 && r.Chance(2, 3) {
		return nearKey(r, kvs, r.Intn(len(kvs)))
	}
	return genRandomKey(r)
}

// hotIndexes lists entry indexes at block starts and restart points (and the index 0 / last).
func hotIndexes(n int, blockStarts []int, restartInterval int) (hot []int) {
	if n == 0 {
		return nil
	}
	if restartInterval < 1 {
		restartInterval = 1
	}
	hot = append(hot, 0, n-1)
	for bi, s := range blockStarts {
		e := n
		if bi+1 < len(blockStarts) {
			e = blockStarts[bi+1]
		}
		hot = append(hot, s, s, s) // block boundaries weigh more
		for i := s + restartInterval; i < e; i += restartInterval {
			hot = append(hot, i)
		}
	}
	return hot
}

var reversalPatterns = [][]int{
	{OpNext, OpPrev, OpNext},
	{OpPrev, OpNext, OpPrev},
	{OpPrev, OpPrev, OpNext, OpNext},
	{OpNext, OpNext, OpPrev, OpPrev, OpPrev},
	{OpPrev, OpNext, OpNext, OpPrev},
	{OpNext, OpPrev, OpPrev, OpNext, OpNext},
	{OpPrev, OpPrev, OpPrev, OpNext, OpPrev, OpNext},
}

// GenOps draws a movement sequence of length n biased to direction reversals at block boundaries and
// restart points, stepping off both ends and back, seeks at/between/outside keys, and long runs.
func GenOps(r *vlib.RNG, kvs []KV, blockStarts []int, restartInterval int, n int) []Op {
	ops := make([]Op, 0, n+48)
	N := len(kvs)
	hot := hotIndexes(N, blockStarts, restartInterval)
	_, _, beyond, _ := ExtremeKeys(0, kvs) // any long key will do as "probably after the last"
	kind := func(ks ...int) {
		for _, k := range ks {
			ops = append(ops, Op{Kind: k})
		}
	}
	seek := func(k []byte) { ops = append(ops, Op{Kind: OpSeek, Key: k}) }
	for len(ops) < n {
		switch r.Pick(32, 14, 18, 10, 14, 6) {
		case 0: // reversal around a block boundary / restart point
			if N == 0 {
				kind(OpFirst, OpPrev, OpNext)
				break
			}
			t := hot[r.Intn(len(hot))] + r.Pick(1, 3, 1) - 1
			if t < 0 {
				t = 0
			}
			if t >= N {
				t = N - 1
			}
			switch {
			case t < 5 && r.Chance(1, 4): // arrive going forward from the start
				kind(OpFirst)
				for i := 0; i < t; i++ {
					kind(OpNext)
				}
			case N-1-t < 5 && r.Chance(1, 4): // arrive going backward from the end
				kind(OpLast)
				for i := 0; i < N-1-t; i++ {
					kind(OpPrev)
				}
			default:
				seek(nearKey(r, kvs, t))
			}
			if r.Chance(3, 4) {
				kind(reversalPatterns[r.Intn(len(reversalPatterns))]...)
			} else {
				for i, m := 0, r.Range(3, 7); i < m; i++ {
					kind(OpNext + r.Intn(2))
				}
			}
		case 1: // off an end and back
			switch r.Intn(6) {
			case 0:
				kind(OpLast, OpNext, OpNext, OpPrev)
			case 1:
				kind(OpFirst, OpPrev, OpPrev, OpNext)
			case 2:
				seek(cloneBytes(beyond))
				kind(OpPrev, OpNext, OpNext, OpPrev)
			case 3:
				seek([]byte{})
				kind(OpPrev, OpPrev, OpNext)
			case 4:
				kind(OpLast, OpNext, OpPrev, OpPrev, OpNext, OpNext, OpNext, OpPrev)
			default:
				kind(OpFirst, OpPrev, OpNext, OpNext, OpPrev, OpPrev, OpPrev, OpNext)
			}
		case 2: // seeks
			for i, m := 0, r.Range(1, 3); i < m; i++ {
				switch r.Pick(6, 1, 1, 2) {
				case 0:
					seek(randomProbe(r, kvs))
				case 1:
					seek([]byte{})
				case 2:
					seek(cloneBytes(beyond))
				default:
					seek(genRandomKey(r))
				}
				if r.Bool() {
					kind(OpNext + r.Intn(2))
				}
			}
		case 3: // long run in one direction
			m := r.Range(5, 40)
			k := OpNext + r.Intn(2)
			if r.Chance(1, 3) {
				if k == OpNext {
					kind(OpFirst)
				} else {
					kind(OpLast)
				}
			}
			for i := 0; i < m; i++ {
				kind(k)
			}
		case 4: // random steps
			for i, m := 0, r.Range(2, 8); i < m; i++ {
				kind(OpNext + r.Intn(2))
			}
		default:
			kind(r.Intn(2)) // First or Last
		}
	}
	return ops[:n]
}

// ScanOps returns the movement list of a full scan (forward: First, Next...; backward: Last, Prev...)
// over a view of n entries, running two steps past the end.
func ScanOps(n int, forward bool) []Op {
	ops := make([]Op, 0, n+3)
	if forward {
		ops = append(ops, Op{Kind: OpFirst})
	} else {
		ops = append(ops, Op{Kind: OpLast})
	}
	for i := 0; i < n+2; i++ {
		if forward {
			ops = append(ops, Op{Kind: OpNext})
		} else {
			ops = append(ops, Op{Kind: OpPrev})
		}
	}
	return ops
}

// GenProbeKeys returns lookup keys: every existing key, between-keys neighbours, before the first,
// after the last, the empty key and random keys (distinct, in generation order).
func GenProbeKeys(r *vlib.RNG, kvs []KV) [][]byte {
	seen := map[string]bool{}
	var out [][]byte
	add := func(k []byte) {
		if !seen[string(k)] {
			seen[string(k)] = true
			out = append(out, k)
		}
	}
	nbrEvery := 1
	if len(kvs) > 120 {
		nbrEvery = len(kvs) / 60
	}
	for i, kv := range kvs {
		k := kv.K
		add(cloneBytes(k))
		if i%nbrEvery != 0 && !r.Chance(1, 8) {
			continue
		}
		add(append(cloneBytes(k), 0x00))
		if len(k) > 0 {
			p := cloneBytes(k)
			p[len(p)-1]--
			add(p)
			q := cloneBytes(k)
			q[len(q)-1]++
			add(q)
			if r.Bool() {
				add(cloneBytes(k[:len(k)-1]))
			}
		}
		switch r.Intn(4) {
		case 0:
			add(append(cloneBytes(k), 0xff))
		case 1:
			add(append(cloneBytes(k), 0x55))
		case 2:
			add(append(cloneBytes(k), 0xaa))
		}
	}
	add([]byte{})
	for id := 0; id <= CmpReverse; id++ {
		lo, _, hi, _ := ExtremeKeys(id, kvs)
		add(lo)
		add(hi)
	}
	for i := 0; i < 6; i++ {
		add(genRandomKey(r))
	}
	return out
}

// ---- driver ----

func sameBytes(a, b []byte) bool { return bytes.Equal(a, b) } // nil and empty are equal

func short(b []byte) string {
	if len(b) > 40 {
		return fmt.Sprintf("%x..(%d bytes)", b[:40], len(b))
	}
	return fmt.Sprintf("%x", b)
}

// stepAgree applies op to both and compares; "" when they agree.
func stepAgree(it iterator.Iterator, c *Cursor, op Op) string {
	var ok bool
	switch op.Kind {
	case OpFirst:
		ok = it.First()
	case OpLast:
		ok = it.Last()
	case OpSeek:
		ok = it.Seek(op.Key)
	case OpNext:
		ok = it.Next()
	case OpPrev:
		ok = it.Prev()
	}
	want := c.Do(op)
	if ok != want {
		if want {
			return fmt.Sprintf("%v returned false, expected true at key %s", op, short(c.View[c.Pos].K))
		}
		return fmt.Sprintf("%v returned true (key %s), expected false", op, short(it.Key()))
	}
	if it.Valid() != ok {
		return fmt.Sprintf("%v returned %v but Valid()=%v", op, ok, it.Valid())
	}
	if ok {
		k, v := it.Key(), it.Value()
		e := c.View[c.Pos]
		if !sameBytes(k, e.K) {
			return fmt.Sprintf("%v: key %s, expected %s (entry %d of the view)", op, short(k), short(e.K), c.Pos)
		}
		if !sameBytes(v, e.V) {
			return fmt.Sprintf("%v: at key %s value %s, expected %s", op, short(k), short(v), short(e.V))
		}
	} else if len(it.Key()) != 0 || len(it.Value()) != 0 {
		return fmt.Sprintf("%v returned false but Key()=%s Value()=%s", op, short(it.Key()), short(it.Value()))
	}
	return ""
}

// RunOps drives the real iterator and the reference cursor over view side by side.  It returns "" when
// every movement agrees and the iterator reports no error at the end; otherwise a description and the
// index of the offending movement (len(ops) for the final error check).
func RunOps(it iterator.Iterator, cmp comparer.Comparer, view []KV, ops []Op) (mismatchDesc string, opIndex int) {
	c := NewCursor(view, cmp)
	for i, op := range ops {
		if d := stepAgree(it, c, op); d != "" {
			if err := it.Error(); err != nil {
				d += fmt.Sprintf(" [iterator error: %v]", err)
			}
			return fmt.Sprintf("movement #%d %s", i, d), i
		}
	}
	if err := it.Error(); err != nil {
		return fmt.Sprintf("iterator reports error on an undamaged table: %v", err), len(ops)
	}
	return "", -1
}
