// damage.go: every single-byte alteration inside the checksummed region of small tables.
package main

import (
	"encoding/binary"
	"fmt"
	"time"

	lerrors "github.com/syndtr/goleveldb/leveldb/errors"
	"github.com/syndtr/goleveldb/leveldb/iterator"
	"github.com/syndtr/goleveldb/leveldb/opt"
	"verifharness/lib/vlib"
)

const footerLen = 48

// damageInput is one altered byte plus the reads performed on the altered file.
type damageInput struct {
	Off      int
	NewByte  byte
	Absent   [][]byte // keys not stored, for Get
	FindKeys [][]byte
	Ops      []Op // short walk
}

// regions of the file, from the footer and the undamaged reader
type fileLayout struct {
	blockOff    []int64 // start offset of every data block
	dataEnd     int64
	metaOff     int64
	indexOff    int64
	footerStart int64
	handlesEnd  int64 // first byte after the two block handles in the footer
	ok          bool
}

func (tc *tcase) fileLayout() fileLayout {
	var fl fileLayout
	n := len(tc.Data)
	if n < footerLen || tc.dataEnd < 0 || len(tc.starts) == 0 {
		return fl
	}
	f := tc.Data[n-footerLen:]
	mo, a := binary.Uvarint(f)
	ml, b := binary.Uvarint(f[a:])
	io, c := binary.Uvarint(f[a+b:])
	il, d := binary.Uvarint(f[a+b+c:])
	if a <= 0 || b <= 0 || c <= 0 || d <= 0 {
		return fl
	}
	fl.metaOff, fl.indexOff, fl.footerStart, fl.dataEnd = int64(mo), int64(io), int64(n-footerLen), tc.dataEnd
	if int64(mo+ml+5) != fl.indexOff || int64(io+il+5) != fl.footerStart || fl.dataEnd > fl.metaOff {
		return fl
	}
	for _, s := range tc.starts {
		fl.blockOff = append(fl.blockOff, tc.offs[s])
	}
	fl.handlesEnd = fl.footerStart + int64(a+b+c+d)
	fl.ok = true
	return fl
}

// region names the block a byte offset belongs to; blk is the data block number for "data".
func (fl fileLayout) region(off int) (name string, blk int) {
	o := int64(off)
	switch {
	case o >= fl.footerStart+footerLen-8:
		return "footer_magic", -1
	case o >= fl.handlesEnd:
		return "footer_padding", -1
	case o >= fl.footerStart:
		return "footer_handles", -1
	case o >= fl.indexOff:
		return "index", -1
	case o >= fl.metaOff:
		return "meta", -1
	case o >= fl.dataEnd:
		return "filter", -1
	}
	blk = 0
	for j, b := range fl.blockOff {
		if b <= o {
			blk = j
		}
	}
	return "data", blk
}

func (tc *tcase) indexOf(k []byte) int {
	i := LowerBound(tc.KVs, tc.cmp, k)
	if i < len(tc.KVs) && tc.cmp.Compare(tc.KVs[i].K, k) == 0 {
		return i
	}
	return -1
}

func corruptedOrNil(err error) bool { return err == nil || lerrors.IsCorrupted(err) }

// scanMembers runs a full scan in one direction on a possibly damaged table: the pairs yielded must be a
// strictly monotone subsequence of the stored pairs; without a final error it must be all of them.
func scanMembers(tc *tcase, it iterator.Iterator, forward bool) string {
	n := len(tc.KVs)
	dirName := "backward"
	if forward {
		dirName = "forward"
	}
	prev, count := -1, 0
	if !forward {
		prev = n
	}
	var ok bool
	if forward {
		ok = it.First()
	} else {
		ok = it.Last()
	}
	for ok {
		count++
		if count > n {
			return fmt.Sprintf("%s scan yields more than the %d stored pairs", dirName, n)
		}
		k, v := it.Key(), it.Value()
		i := tc.indexOf(k)
		if i < 0 {
			return fmt.Sprintf("%s scan yields key %s which was never stored", dirName, short(k))
		}
		if !sameBytes(v, tc.KVs[i].V) {
			return fmt.Sprintf("%s scan yields key %s with value %s, stored value is %s", dirName, short(k), short(v), short(tc.KVs[i].V))
		}
		if (forward && i <= prev) || (!forward && i >= prev) {
			return fmt.Sprintf("%s scan out of order: entry %d after entry %d", dirName, i, prev)
		}
		prev = i
		if forward {
			ok = it.Next()
		} else {
			ok = it.Prev()
		}
	}
	err := it.Error()
	if err == nil && count != n {
		return fmt.Sprintf("%s scan ended without error after %d of %d pairs", dirName, count, n)
	}
	if !corruptedOrNil(err) {
		return fmt.Sprintf("%s scan: error %v is not a corruption error", dirName, err)
	}
	return ""
}

func walkMembers(tc *tcase, it iterator.Iterator, ops []Op) string {
	for j, op := range ops {
		var ok bool
		switch op.Kind {
		case OpFirst:
			ok = it.First()
		case OpLast:
			ok = it.Last()
		case OpSeek:
			ok = it.Seek(op.Key)
		case OpNext:
			ok = it.Next()
		case OpPrev:
			ok = it.Prev()
		}
		if !ok {
			continue
		}
		k, v := it.Key(), it.Value()
		i := tc.indexOf(k)
		if i < 0 {
			return fmt.Sprintf("movement #%d %v rests on key %s which was never stored", j, op, short(k))
		}
		if !sameBytes(v, tc.KVs[i].V) {
			return fmt.Sprintf("movement #%d %v: key %s with value %s, stored value is %s", j, op, short(k), short(v), short(tc.KVs[i].V))
		}
		if op.Kind == OpSeek && tc.cmp.Compare(k, op.Key) < 0 {
			return fmt.Sprintf("movement #%d %v rests on the smaller key %s", j, op, short(k))
		}
	}
	if err := it.Error(); !corruptedOrNil(err) {
		return fmt.Sprintf("walk: error %v is not a corruption error", err)
	}
	return ""
}

// damageStrict: reader with checksums verified and the strict reader flag.
func damageStrict(tc *tcase, data []byte, in *damageInput, out *caseOut) string {
	o, err := OpenTable(tc.Cfg, data, strictMain)
	if err != nil {
		if lerrors.IsCorrupted(err) {
			out.count("damage_open_refused", 1)
			return ""
		}
		return fmt.Sprintf("NewReader: error %v is not a corruption error", err)
	}
	defer o.Close()
	n := len(tc.KVs)
	nCorr := 0
	for i, kv := range tc.KVs {
		v, err := o.R.Get(kv.K, nil)
		switch {
		case err == nil:
			if !sameBytes(v, kv.V) {
				return fmt.Sprintf("Get(%s) = %s, stored value is %s", short(kv.K), short(v), short(kv.V))
			}
		case lerrors.IsCorrupted(err):
			nCorr++
		case isNotFound(err):
			return fmt.Sprintf("Get(%s) (entry %d): stored key reported not found, no corruption reported", short(kv.K), i)
		default:
			return fmt.Sprintf("Get(%s): error %v is neither a value nor a corruption error", short(kv.K), err)
		}
	}
	out.count("damage_get_corruption_reported", nCorr)
	out.count("damage_get_value_intact", n-nCorr)
	for _, k := range in.Absent {
		if tc.indexOf(k) >= 0 {
			continue
		}
		v, err := o.R.Get(k, nil)
		if err == nil {
			return fmt.Sprintf("Get(%s) of a key never stored returned value %s", short(k), short(v))
		}
		if !isNotFound(err) && !lerrors.IsCorrupted(err) {
			return fmt.Sprintf("Get(%s): error %v is neither ErrNotFound nor a corruption error", short(k), err)
		}
	}
	for _, k := range in.FindKeys {
		i := LowerBound(tc.KVs, tc.cmp, k)
		present := i < n && tc.cmp.Compare(tc.KVs[i].K, k) == 0
		for _, filtered := range []bool{false, true} {
			rk, rv, err := o.R.Find(k, filtered, nil)
			switch {
			case err == nil:
				if i >= n || !sameBytes(rk, tc.KVs[i].K) || !sameBytes(rv, tc.KVs[i].V) {
					return fmt.Sprintf("Find(%s,filtered=%v) = (%s,%s), not the first stored pair >= key", short(k), filtered, short(rk), short(rv))
				}
			case lerrors.IsCorrupted(err):
			case isNotFound(err):
				if i < n && (!filtered || present) {
					return fmt.Sprintf("Find(%s,filtered=%v): not found although entry %d is >= key, no corruption reported", short(k), filtered, i)
				}
			default:
				return fmt.Sprintf("Find(%s): error %v is neither ErrNotFound nor a corruption error", short(k), err)
			}
		}
		off, err := o.R.OffsetOf(k)
		if err == nil {
			if off < 0 || off > int64(len(data)) {
				return fmt.Sprintf("OffsetOf(%s) = %d outside the file", short(k), off)
			}
		} else if !lerrors.IsCorrupted(err) {
			return fmt.Sprintf("OffsetOf(%s): error %v is not a corruption error", short(k), err)
		}
	}
	it := o.R.NewIterator(nil, nil)
	d := scanMembers(tc, it, true)
	if it.Error() != nil {
		out.count("damage_strict_scan_stopped_with_corruption", 1)
	}
	it.Release()
	if d != "" {
		return "strict reader: " + d
	}
	it = o.R.NewIterator(nil, nil)
	d = scanMembers(tc, it, false)
	it.Release()
	if d != "" {
		return "strict reader: " + d
	}
	it = o.R.NewIterator(nil, nil)
	d = walkMembers(tc, it, in.Ops)
	it.Release()
	if d != "" {
		return "strict reader: " + d
	}
	return ""
}

// damageNonStrict: checksums verified, strict reader flag off: a damaged data block is skipped.
func damageNonStrict(tc *tcase, data []byte, in *damageInput, fl fileLayout, out *caseOut) string {
	o, err := OpenTable(tc.Cfg, data, opt.StrictBlockChecksum)
	if err != nil {
		if lerrors.IsCorrupted(err) {
			return ""
		}
		return fmt.Sprintf("NewReader: error %v is not a corruption error", err)
	}
	defer o.Close()
	region, blk := fl.region(in.Off)
	out.count("damage_region_"+region, 1)
	n := len(tc.KVs)
	switch region {
	case "data", "filter":
		view := tc.KVs
		what := "all pairs (filter damage does not affect iteration)"
		if region == "data" {
			s := tc.starts[blk]
			e := n
			if blk+1 < len(tc.starts) {
				e = tc.starts[blk+1]
			}
			view = append(append([]KV{}, tc.KVs[:s]...), tc.KVs[e:]...)
			what = fmt.Sprintf("all pairs except entries %d..%d of damaged data block %d", s, e-1, blk)
		}
		for w, ops := range [][]Op{ScanOps(len(view), true), ScanOps(len(view), false), in.Ops} {
			it := o.R.NewIterator(nil, nil)
			d, _ := RunOps(it, tc.cmp, view, ops)
			it.Release()
			if d != "" {
				return fmt.Sprintf("non-strict reader, %s (expected %s): %s", [...]string{"forward scan", "backward scan", "walk"}[w], what, d)
			}
		}
		out.count("damage_nonstrict_exact_walks", 3)
	default:
		it := o.R.NewIterator(nil, nil)
		d := scanMembers(tc, it, true)
		it.Release()
		if d == "" {
			it = o.R.NewIterator(nil, nil)
			d = scanMembers(tc, it, false)
			it.Release()
		}
		if d != "" {
			return "non-strict reader: " + d
		}
	}
	return ""
}

func checkDamage(tc *tcase, in *damageInput, out *caseOut) {
	cc := &curCheck{Typ: "damage", TC: tc, Strict: strictMain, Dmg: in,
		Expected: "every returned pair is a stored pair; a stored key reads as its value or a corruption error; scans are ordered sub-sequences, complete unless an error is reported; no panic"}
	out.setCur(cc)
	fl := tc.fileLayout()
	if !fl.ok || in.Off < 0 || in.Off >= len(tc.Data) {
		out.count("damage_skipped_layout_unknown", 1)
		return
	}
	data := append([]byte{}, tc.Data...)
	old := data[in.Off]
	if old == in.NewByte {
		return
	}
	data[in.Off] = in.NewByte
	out.count("damaged_files", 1)
	out.evals++
	if int64(in.Off) >= fl.footerStart {
		checkFooterDamage(tc, data, in, fl, cc, out)
		return
	}
	d := func() (d string) {
		defer func() {
			if p := recover(); p != nil {
				d = fmt.Sprintf("panic on damaged table: %v%s", p, implFrame())
			}
		}()
		if d := damageStrict(tc, data, in, out); d != "" {
			return d
		}
		return damageNonStrict(tc, data, in, fl, out)
	}()
	if d != "" {
		region, blk := fl.region(in.Off)
		out.violate(fmt.Sprintf("byte %d (%s block %d) changed %#02x -> %#02x: %s", in.Off, region, blk, old, in.NewByte, d), cc)
	}
}

// checkFooterDamage: the footer is not a checksummed block, so the property itself says nothing about it.
// Two things are still looked at: (a) a table whose magic number is wrong is refused by every read (what the
// reader documents: "bad magic number"); (b) altered handles / padding are run through the same reads, and
// anything odd is only recorded as a note (statistic), never reported.
func checkFooterDamage(tc *tcase, data []byte, in *damageInput, fl fileLayout, cc *curCheck, out *caseOut) {
	region, _ := fl.region(in.Off)
	out.count("damage_region_"+region, 1)
	if region != "footer_magic" {
		d := func() (d string) {
			defer func() {
				if p := recover(); p != nil {
					d = fmt.Sprintf("panic: %v%s", p, implFrame())
				}
			}()
			return damageStrict(tc, data, in, out)
		}()
		if d != "" {
			out.count("suspicious_"+region+"_damage_anomaly", 1)
			out.note(fmt.Sprintf("footer byte %d (%s) %#02x -> %#02x on a %d-byte table: %s", in.Off-int(fl.footerStart), region, tc.Data[in.Off], in.NewByte, len(data), d))
		}
		return
	}
	d := func() (d string) {
		defer func() {
			if p := recover(); p != nil {
				d = fmt.Sprintf("panic on a table with a damaged magic number: %v%s", p, implFrame())
			}
		}()
		o, err := OpenTable(tc.Cfg, data, strictMain)
		if err != nil {
			if lerrors.IsCorrupted(err) {
				return ""
			}
			return fmt.Sprintf("NewReader: error %v is not a corruption error", err)
		}
		defer o.Close()
		for _, kv := range tc.KVs {
			if v, err := o.R.Get(kv.K, nil); !lerrors.IsCorrupted(err) {
				return fmt.Sprintf("table with a wrong magic number is read: Get(%s) = (%s,%v), expected a corruption error", short(kv.K), short(v), err)
			}
		}
		if _, err := o.R.OffsetOf([]byte{}); !lerrors.IsCorrupted(err) {
			return fmt.Sprintf("table with a wrong magic number is read: OffsetOf error %v, expected a corruption error", err)
		}
		it := o.R.NewIterator(nil, nil)
		defer it.Release()
		if it.First() || it.Last() || !lerrors.IsCorrupted(it.Error()) {
			return fmt.Sprintf("table with a wrong magic number is read: iterator valid=%v error=%v, expected a corruption error", it.Valid(), it.Error())
		}
		return ""
	}()
	if d != "" {
		out.violate(fmt.Sprintf("footer byte %d changed %#02x -> %#02x: %s", in.Off-int(fl.footerStart), tc.Data[in.Off], in.NewByte, d), cc)
	}
}

// ---- generation and scheduling ----

var alterations = []struct {
	name string
	f    func(byte) byte
}{
	{"xor01", func(b byte) byte { return b ^ 0x01 }},
	{"xor80", func(b byte) byte { return b ^ 0x80 }},
	{"xorff", func(b byte) byte { return b ^ 0xff }},
	{"plus1", func(b byte) byte { return b + 1 }},
	{"zero", func(b byte) byte { return 0 }},
}

// genDamageTable draws a small table with >= 3 data blocks, rotating compression/filter/cache/pool.
func genDamageTable(r *vlib.RNG, t int, maxSize int, out *caseOut) *tcase {
	for try := 0; try < 400 && len(out.viols) == 0; try++ {
		cfg := TableCfg{Cmp: r.Intn(vlib.NumComparers)}
		cfg.BlockSize = []int{1, 24, 48, 64, 100}[r.Intn(5)]
		cfg.RestartInterval = []int{1, 2, 3, 16}[r.Intn(4)]
		flags := t % 4
		if t >= 4 {
			flags = -1
		}
		pick := func(forced bool) bool {
			if flags >= 0 {
				return forced
			}
			return r.Bool()
		}
		cfg.Snappy = pick(flags == 1 || flags == 2)
		if pick(flags == 0 || flags == 2) {
			cfg.FilterBits = r.Range(4, 12)
			cfg.FilterBaseLg = []int{0, 5, 8}[r.Intn(3)]
		}
		if pick(flags == 2 || flags == 3) {
			cfg.Cache = true
			cfg.CacheCap = []int{0, 4096}[r.Intn(2)]
		}
		cfg.BPool = pick(flags == 2)
		shape := []int{ShapeDense, ShapeRandom, ShapePrefixChain, ShapeLongPrefix, ShapeEmptyValues}[r.Pick(4, 4, 2, 1, 1)]
		kvs := GenKVs(r, cfg.Cmp, shape)
		if m := r.Range(6, 24); len(kvs) > m {
			s := r.Intn(len(kvs) - m + 1)
			kvs = kvs[s : s+m]
		}
		for i := range kvs {
			if len(kvs[i].V) > 12 {
				kvs[i].V = kvs[i].V[:r.Range(0, 12)]
			}
		}
		tc := newCase(cfg, shape, kvs)
		ok := false
		runCase(func(out *caseOut) {
			cc := &curCheck{Typ: "build", TC: tc, Expected: "the writer accepts a strictly increasing sequence and reports consistent lengths"}
			out.setCur(cc)
			data, err := BuildTable(cfg, kvs)
			if err != nil {
				out.violate("writing the table: "+err.Error(), cc)
				return
			}
			if len(data) > maxSize {
				return
			}
			tc.Data = data
			cc = &curCheck{Typ: "open", TC: tc, Strict: strictMain, Expected: "the reader opens a table the writer produced"}
			out.setCur(cc)
			o, err := OpenTable(cfg, data, strictMain)
			if err != nil {
				out.violate("opening the table: "+err.Error(), cc)
				return
			}
			tc.layout(o)
			o.Close()
			ok = len(tc.starts) >= 3 && tc.fileLayout().ok
		}, out)
		if ok {
			return tc
		}
	}
	return nil
}

type damageTask struct {
	tc       *tcase
	lo, hi   int
	absent   [][]byte
	findKeys [][]byte
	ops      []Op
	nAlt     int
}

func (t *damageTask) run(out *caseOut) {
	for off := t.lo; off < t.hi; off++ {
		for a := 0; a < t.nAlt; a++ {
			nb := alterations[a].f(t.tc.Data[off])
			if nb == t.tc.Data[off] {
				continue
			}
			checkDamage(t.tc, &damageInput{Off: off, NewByte: nb, Absent: t.absent, FindKeys: t.findKeys, Ops: t.ops}, out)
			out.count("damage_alteration_"+alterations[a].name, 1)
		}
	}
}

// planDamage generates the tables and splits their byte ranges into tasks (all randomness drawn here).
func planDamage(r *vlib.RNG, nTables, maxSize, nAlt int, res *vlib.Result) []*damageTask {
	var tasks []*damageTask
	for t := 0; t < nTables; t++ {
		tr := r.Fork()
		out := newOut()
		inflight[nWorkers].Store(&flight{out: out, start: time.Now()})
		tc := genDamageTable(tr, t, maxSize, out)
		inflight[nWorkers].Store(&flight{})
		merge(res, out)
		if tc == nil {
			res.Count("damage_table_generation_gave_up", 1)
			continue
		}
		res.Count("damage_tables", 1)
		res.Count(fmt.Sprintf("damage_tables_snappy_%v_filter_%v_cache_%v_bpool_%v", tc.Cfg.Snappy, tc.Cfg.FilterBits > 0, tc.Cfg.Cache, tc.Cfg.BPool), 1)
		var absent, findKeys [][]byte
		for _, p := range GenProbeKeys(tr, tc.KVs) {
			if tc.indexOf(p) < 0 && len(absent) < 6 && tr.Chance(1, 3) {
				absent = append(absent, p)
			}
		}
		for i := 0; i < 8; i++ {
			findKeys = append(findKeys, randomProbe(tr, tc.KVs))
		}
		ops := GenOps(tr, tc.KVs, tc.starts, tc.Cfg.RestartInterval, 30)
		end := len(tc.Data) // the footer too (see checkFooterDamage)
		const chunk = 32
		for lo := 0; lo < end; lo += chunk {
			hi := lo + chunk
			if hi > end {
				hi = end
			}
			tasks = append(tasks, &damageTask{tc: tc, lo: lo, hi: hi, absent: absent, findKeys: findKeys, ops: ops, nAlt: nAlt})
		}
	}
	return tasks
}
