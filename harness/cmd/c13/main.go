// c13: sorted-table writer/reader round trip.  (P) runs the implementation alone against the list of
// pairs it was given: lookups, first-key->= lookups, approximate offsets, iterators (whole table and
// range-restricted) under generated movement sequences against a reference cursor, single blocks
// driven directly, and every single-byte alteration of small tables.  (K) cases are emitted by kcases.go.
package main

import (
	"fmt"
	"os"
	"runtime"
	"runtime/debug"
	"strings"
	"sync"
	"sync/atomic"
	"time"

	"github.com/syndtr/goleveldb/leveldb/opt"
	"verifharness/lib/vlib"
)

const nWorkers = 16

type budget struct {
	tables     int
	walks      int
	opsPerWalk int
	ranges     int
	blocks     int
	dmgTables  int
	dmgMaxSize int
	dmgAlts    int
	hang       time.Duration
}

var quickBudget = budget{tables: 4000, walks: 6, opsPerWalk: 60, ranges: 3, blocks: 4000, dmgTables: 8, dmgMaxSize: 1500, dmgAlts: 2, hang: 30 * time.Second}
var thoroughBudget = budget{tables: 200000, walks: 6, opsPerWalk: 60, ranges: 3, blocks: 120000, dmgTables: 200, dmgMaxSize: 2500, dmgAlts: 5, hang: 60 * time.Second}

// ---- parallel runner: inputs forked sequentially, outputs merged in case order ----

type flight struct {
	out   *caseOut
	start time.Time
}

var inflight [nWorkers + 1]atomic.Value // *flight per worker (+1: the main goroutine while it prepares damage tables)

func implFrame() string {
	pcs := make([]uintptr, 48)
	n := runtime.Callers(3, pcs)
	frames := runtime.CallersFrames(pcs[:n])
	for {
		f, more := frames.Next()
		if strings.Contains(f.Function, "goleveldb") {
			fn := f.Function[strings.LastIndex(f.Function, "/")+1:]
			file := f.File[strings.LastIndex(f.File, "/")+1:]
			return fmt.Sprintf(" at %s (%s:%d)", fn, file, f.Line)
		}
		if !more {
			return ""
		}
	}
}

func runCase(f func(out *caseOut), out *caseOut) {
	defer func() {
		if p := recover(); p != nil {
			out.violate(fmt.Sprintf("panic: %v%s", p, implFrame()), out.current())
		}
	}()
	f(out)
}

// runJobs runs n jobs; mk is called sequentially (it draws the job's randomness), the jobs run on the
// worker pool, and their outputs are merged into res in job order.
func runJobs(res *vlib.Result, n int, mk func(i int) func(out *caseOut)) {
	const batch = 4096
	for base := 0; base < n; base += batch {
		m := n - base
		if m > batch {
			m = batch
		}
		fns := make([]func(out *caseOut), m)
		outs := make([]*caseOut, m)
		for i := 0; i < m; i++ {
			fns[i] = mk(base + i)
			outs[i] = newOut()
		}
		var next int64 = -1
		var wg sync.WaitGroup
		for w := 0; w < nWorkers; w++ {
			wg.Add(1)
			go func(w int) {
				defer wg.Done()
				for {
					i := int(atomic.AddInt64(&next, 1))
					if i >= m {
						return
					}
					inflight[w].Store(&flight{out: outs[i], start: time.Now()})
					runCase(fns[i], outs[i])
					inflight[w].Store(&flight{})
				}
			}(w)
		}
		wg.Wait()
		for i := 0; i < m; i++ {
			merge(res, outs[i])
		}
	}
}

// watchdog turns a call that does not return into a violation attributed to the check in flight.
func watchdog(res *vlib.Result, limit time.Duration) {
	for {
		time.Sleep(500 * time.Millisecond)
		for w := range inflight {
			f, _ := inflight[w].Load().(*flight)
			if f == nil || f.out == nil || time.Since(f.start) < limit {
				continue
			}
			cc := f.out.current()
			desc := fmt.Sprintf("no return within %v (hang)", limit)
			res.Violate(desc, cc.replay(desc))
			res.Write()
			os.Exit(0)
		}
	}
}

// ---- one generated table ----

func genBound(r *vlib.RNG, tc *tcase, hot []int) (bool, []byte) {
	n := len(tc.KVs)
	pickIdx := func() int {
		if len(hot) > 0 && r.Bool() {
			t := hot[r.Intn(len(hot))] + r.Range(-1, 1)
			if t < 0 {
				t = 0
			}
			if t >= n {
				t = n - 1
			}
			return t
		}
		return r.Intn(n)
	}
	switch r.Pick(20, 35, 25, 5, 5, 10) {
	case 0:
		return false, nil
	case 1:
		if n > 0 {
			return true, cloneBytes(tc.KVs[pickIdx()].K)
		}
	case 2:
		if n > 0 {
			return true, nearKey(r, tc.KVs, pickIdx())
		}
	case 3:
		lo, _, _, _ := ExtremeKeys(tc.Cfg.Cmp, tc.KVs)
		return true, lo
	case 4:
		_, _, hi, _ := ExtremeKeys(tc.Cfg.Cmp, tc.KVs)
		return true, hi
	}
	return true, genRandomKey(r)
}

func genRange(r *vlib.RNG, tc *tcase, hot []int) *RangeSpec {
	rs := &RangeSpec{}
	rs.HasStart, rs.Start = genBound(r, tc, hot)
	rs.HasLimit, rs.Limit = genBound(r, tc, hot)
	n := len(tc.KVs)
	switch r.Pick(70, 10, 20) {
	case 1:
		if rs.HasStart {
			rs.HasLimit, rs.Limit = true, cloneBytes(rs.Start)
		}
	case 2: // Limit a few entries after Start: both inside one block or in neighbouring blocks
		if rs.HasStart && n > 0 {
			s := LowerBound(tc.KVs, tc.cmp, rs.Start)
			t := s + r.Range(0, 6)
			if t < n {
				rs.HasLimit, rs.Limit = true, nearKey(r, tc.KVs, t)
			}
		}
	}
	if !rs.HasStart && !rs.HasLimit {
		rs.NilSlice = r.Bool()
	}
	return rs
}

func blocksBucket(n int) string {
	switch {
	case n <= 1:
		return "tables_blocks_1"
	case n == 2:
		return "tables_blocks_2"
	case n <= 5:
		return "tables_blocks_3to5"
	}
	return "tables_blocks_6plus"
}

func onOff(b bool) string {
	if b {
		return "on"
	}
	return "off"
}

func tableCase(r *vlib.RNG, b budget, out *caseOut) {
	cfg := GenCfg(r)
	shape := GenShape(r)
	if r.Chance(1, 12) {
		cfg.Cmp = CmpReverse // (P) only: a key may be a strict prefix of its predecessor
	}
	kvs := GenKVsBS(r, cfg.Cmp, shape, cfg.BlockSize)
	tc := newCase(cfg, shape, kvs)
	if (cfg.Cache || cfg.BPool) && r.Chance(1, 3) {
		// a second table on the same cache and pool, with blocks at the same offsets
		tc.Decoy = GenKVsBS(r, cfg.Cmp, []int{ShapeRandom, ShapeDense, ShapeBigEntries}[r.Intn(3)], cfg.BlockSize)
		out.count("tables_with_decoy_on_shared_cache_or_pool", 1)
	}
	cc := &curCheck{Typ: "build", TC: tc, Expected: "the writer accepts a strictly increasing sequence and reports consistent lengths"}
	out.setCur(cc)
	data, err := BuildTable(cfg, kvs)
	if err != nil {
		out.violate("writing the table: "+err.Error(), cc)
		return
	}
	tc.Data = data
	stricts := []opt.Strict{strictMain}
	switch r.Pick(11, 4, 1) {
	case 1:
		stricts = append(stricts, opt.NoStrict)
	case 2:
		stricts = append(stricts, 0) // the default flags
	}
	type walk struct {
		rs  *RangeSpec
		ops []Op
	}
	var probes [][]byte
	var walks []walk
	var retain [][]byte
	for si, strict := range stricts {
		cc = &curCheck{Typ: "open", TC: tc, Strict: strict, Expected: "the reader opens a table the writer produced"}
		out.setCur(cc)
		o, err := tc.open(strict)
		if err != nil {
			out.violate("opening the table: "+err.Error(), cc)
			return
		}
		if si == 0 {
			tc.layout(o)
			// all inputs are drawn once, here
			probes = GenProbeKeys(r, kvs)
			hot := hotIndexes(len(kvs), tc.starts, cfg.RestartInterval)
			for w := 0; w < b.walks; w++ {
				walks = append(walks, walk{nil, GenOps(r, kvs, tc.starts, cfg.RestartInterval, b.opsPerWalk)})
			}
			walks = append(walks, walk{nil, ScanOps(len(kvs), true)}, walk{nil, ScanOps(len(kvs), false)})
			for g := 0; g < b.ranges; g++ {
				rs := genRange(r, tc, hot)
				view, _, _ := tc.view(rs)
				walks = append(walks, walk{rs, ScanOps(len(view), true)}, walk{rs, ScanOps(len(view), false)},
					walk{rs, GenOps(r, kvs, tc.starts, cfg.RestartInterval, b.opsPerWalk*2/3)})
			}
			for i := 0; i < 4 && len(kvs) > 0; i++ {
				retain = append(retain, randomProbe(r, kvs))
			}
			// the writer's order check: after a prefix ending at a random entry or at the last entry of a data block,
			// the same key again or an earlier one
			if n := len(kvs); n > 0 {
				e := r.Intn(n)
				if len(tc.starts) > 1 && r.Bool() {
					e = tc.starts[1+r.Intn(len(tc.starts)-1)] - 1
				}
				bad := kvs[e].K
				if r.Chance(1, 3) {
					bad = kvs[r.Intn(e+1)].K
				}
				checkOrder(newCase(cfg, shape, kvs[:e+1]), cloneBytes(bad), out)
				if tc.isStart[e+1] {
					out.count("writer_out_of_order_at_block_end", 1)
				}
			}
			// distribution
			nb := tc.nBlocks()
			out.count(blocksBucket(nb), 1)
			out.count("shape_"+ShapeNames[shape], 1)
			out.count(fmt.Sprintf("comparer_%d", cfg.Cmp), 1)
			out.count("snappy_"+onOff(cfg.Snappy), 1)
			out.count("filter_"+onOff(cfg.FilterBits > 0), 1)
			out.count(fmt.Sprintf("filter_base_lg_%d", cfg.FilterBaseLg), 1)
			out.count("cache_"+onOff(cfg.Cache), 1)
			if cfg.Cache {
				out.count(fmt.Sprintf("cache_cap_%d", cfg.CacheCap), 1)
			}
			out.count("bpool_"+onOff(cfg.BPool), 1)
			out.count(fmt.Sprintf("restart_interval_%d", cfg.RestartInterval), 1)
			out.count(fmt.Sprintf("block_size_%d", cfg.BlockSize), 1)
			out.count("entries_total", len(kvs))
			out.count("data_blocks_total", nb)
			if tc.nontrivial() {
				out.count("tables_nontrivial", 1)
			}
			for _, w := range walks {
				view, base, inverted := tc.view(w.rs)
				walkStats(tc, view, base, w.ops, out)
				out.count("walks", 1)
				if w.rs != nil {
					out.count("walks_range_restricted", 1)
					if len(view) == 0 {
						out.count("range_empty_view", 1)
					}
					if inverted {
						out.count("range_start_after_limit", 1)
					}
					if w.rs.HasStart && base > 0 && base < len(kvs) && !tc.isStart[base] {
						out.count("range_start_mid_block", 1)
					}
					if e := base + len(view); w.rs.HasLimit && e > 0 && e < len(kvs) && !tc.isStart[e] {
						out.count("range_limit_mid_block", 1)
					}
				}
			}
			out.evalKey, out.nontrivial = tc.hash(), tc.nontrivial()
			out.sample = map[string]interface{}{"cfg": cfg, "shape": ShapeNames[shape], "entries": len(kvs), "data_blocks": nb, "file_bytes": len(data)}
		} else {
			out.count(fmt.Sprintf("tables_reopened_strict_%#x", uint(strict)), 1)
		}
		func() {
			defer o.Close()
			for _, p := range probes {
				checkProbe(tc, o, strict, p, out)
			}
			checkOffsets(tc, o, strict, probes, out)
			if si == 0 {
				checkPolicy(tc, o, strict, probes, out)
			}
			checkDecoy(tc, o, strict, out)
			for _, w := range walks {
				checkWalk(tc, o, strict, w.rs, w.ops, out)
			}
			checkRetain(tc, o, strict, retain, out)
			checkDecoy(tc, o, strict, out)
		}()
		if len(out.viols) > 0 {
			return
		}
	}
}

// ---- one generated block, driven through the verif hooks ----

func blockCase(r *vlib.RNG, b budget, out *caseOut) {
	cfg := TableCfg{Cmp: r.Intn(CmpReverse + 1), RestartInterval: r.Range(1, 8)}
	shape := []int{ShapeEmpty, ShapeSingle, ShapeLongPrefix, ShapeEmptyValues, ShapeRandom, ShapeTiny, ShapeDense, ShapePrefixChain}[r.Pick(1, 1, 5, 2, 5, 2, 6, 5)]
	kvs := GenKVs(r, cfg.Cmp, shape)
	if m := r.Range(1, 40); len(kvs) > m {
		s := r.Intn(len(kvs) - m + 1)
		kvs = kvs[s : s+m]
	}
	tc := newCase(cfg, shape, kvs)
	n := len(kvs)
	tc.starts = []int{0}
	if n == 0 {
		tc.starts = nil
	}
	tc.isStart = make([]bool, n+1)
	tc.isRestart = make([]bool, n+1)
	tc.isStart[0], tc.isStart[n], tc.isRestart[n] = true, true, true
	for i := 0; i < n; i += cfg.RestartInterval {
		tc.isRestart[i] = true
	}
	hot := hotIndexes(n, tc.starts, cfg.RestartInterval)
	out.count("block_cases", 1)
	out.count(fmt.Sprintf("block_restart_interval_%d", cfg.RestartInterval), 1)
	out.count(fmt.Sprintf("block_comparer_%d", cfg.Cmp), 1)
	out.evals++
	run := func(rs *RangeSpec, incl bool) {
		view := blockView(kvs, tc.cmp, rs, incl)
		for _, ops := range [][]Op{GenOps(r, kvs, tc.starts, cfg.RestartInterval, 50), ScanOps(len(view), true), ScanOps(len(view), false)} {
			checkBlock(tc, rs, incl, ops, out)
			out.count("block_walks", 1)
			if rs != nil {
				out.count("block_walks_sliced", 1)
			}
		}
	}
	run(nil, false)
	run(genRange(r, tc, hot), false)
	run(genRange(r, tc, hot), true)
}

func main() {
	a := vlib.ParseArgs()
	res := vlib.NewResult("C13", a.Out, "tables written by the table writer and read back by the table reader: key sets of 9 shapes (empty, single, long shared prefixes, prefix chains, empty values, entries larger than a block, random binary, tiny, dense over 2-3 letters) x 4 comparers (+ reverse-bytewise for the oracle only) x block size {1..4096} x restart interval {1,2,3,4,5,16} x compression x bloom filter/base x block cache x buffer pool; each checked by all probes, 8+ whole-table walks and 3 range-restricted iterators against a reference cursor; plus single blocks driven directly and all single-byte alterations of small tables. A table is non-trivial when it has >= 3 data blocks and a block with more entries than the restart interval; distinct = distinct hash of (configuration, pairs)")
	defer res.Write()
	debug.SetGCPercent(400)
	if a.Replay != "" {
		go watchdog(res, quickBudget.hang)
		runReplay(a, res)
		return
	}
	b := quickBudget
	if a.Thorough() {
		b = thoroughBudget
	}
	seed := a.Seed
	if a.Extra == "search" {
		seed = seed*0x9e3779b1 + 0x5ea4c4
	}
	go watchdog(res, b.hang)
	r := vlib.NewRNG(seed)
	rTables, rBlocks, rDamage, rK := r.Fork(), r.Fork(), r.Fork(), r.Fork()
	rU := r.Fork()

	if a.Extra == "golden-gen" {
		w, _ := BuildTable(goldenCfg, goldenKVs())
		fmt.Printf("%x\n", w)
		return
	}
	t0 := time.Now()
	runJobs(res, 1, func(i int) func(out *caseOut) { return checkGolden })
	runJobs(res, b.tables, func(i int) func(out *caseOut) {
		cr := rTables.Fork()
		return func(out *caseOut) { tableCase(cr, b, out) }
	})
	t1 := time.Now()
	runJobs(res, b.blocks, func(i int) func(out *caseOut) {
		cr := rBlocks.Fork()
		return func(out *caseOut) { blockCase(cr, b, out) }
	})
	t2 := time.Now()
	tasks := planDamage(rDamage, b.dmgTables, b.dmgMaxSize, b.dmgAlts, res)
	runJobs(res, len(tasks), func(i int) func(out *caseOut) {
		return func(out *caseOut) { tasks[i].run(out) }
	})
	t3 := time.Now()
	fmt.Printf("c13: tables %.1fs, blocks %.1fs, damage %.1fs (%d tasks), violations %d\n", t1.Sub(t0).Seconds(), t2.Sub(t1).Seconds(), t3.Sub(t2).Seconds(), len(tasks), res.NViolations())
	tu := time.Now()
	ucases := runUtil(a, res, rU)
	fmt.Printf("c13: util.Buffer / BufferPool / BytesPrefix %.1fs, violations %d\n", time.Since(tu).Seconds(), res.NViolations())
	emitK(a, res, rK, ucases)
}
