// policy.go: (P) for C13_policy_change_invisible — the same table file read under other reader filter
// policies (none; the writer's policy only among the alternatives; a policy of another name, i.e. the filter block
// is ignored) must answer every lookup and every scan exactly as the reader configured with the writer's policy.
// The one observable that may differ is OffsetOf for a key beyond the last one (NewReader sets dataEnd to the filter
// block's offset only when it recognises the filter): counted, not a violation.
package main

import (
	"bytes"
	"fmt"

	"github.com/syndtr/goleveldb/leveldb/filter"
	"github.com/syndtr/goleveldb/leveldb/opt"
	"github.com/syndtr/goleveldb/leveldb/storage"
	"github.com/syndtr/goleveldb/leveldb/table"
)

type renamedFilter struct{ filter.Filter }

func (renamedFilter) Name() string { return "verif.c13.OtherPolicy" }

func policyVariants(cfg TableCfg, strict opt.Strict) (names []string, os []*opt.Options) {
	base := func() *opt.Options { o := cfg.Options(strict); o.Filter = nil; return o }
	wr := filter.NewBloomFilter(cfg.FilterBits)
	o1 := base()
	o2 := base()
	o2.Filter = renamedFilter{filter.NewBloomFilter(5)}
	o2.AltFilters = []filter.Filter{wr}
	o3 := base()
	o3.Filter = renamedFilter{filter.NewBloomFilter(5)}
	o4 := base()
	o4.Filter = filter.NewBloomFilter(1 + (cfg.FilterBits+7)%20) // same name, other bits per key: reads the writer's filters
	return []string{"no filter", "other policy + writer's policy among the alternatives", "other policy only", "same policy, other bits per key"},
		[]*opt.Options{o1, o2, o3, o4}
}

// findObs: Find(key, filtered); a filtered Find may say not-found instead of returning the next greater key, so
// it is reduced to the exact match (what the DB layer uses it for)
func findObs(tc *tcase, r *table.Reader, key []byte, filtered bool) string {
	k, v, err := r.Find(key, filtered, nil)
	if err == nil && filtered && tc.cmp.Compare(k, key) != 0 {
		err = table.ErrNotFound
	}
	if err != nil {
		return "err:" + err.Error()
	}
	return fmt.Sprintf("%x=%x", k, v)
}

func getObs(r *table.Reader, key []byte) string {
	v, err := r.Get(key, nil)
	if err != nil {
		return "err:" + err.Error()
	}
	return fmt.Sprintf("%x", v)
}

func scanObs(r *table.Reader) string {
	var sb bytes.Buffer
	it := r.NewIterator(nil, nil)
	defer it.Release()
	for it.Next() {
		fmt.Fprintf(&sb, "%x=%x;", it.Key(), it.Value())
	}
	if err := it.Error(); err != nil {
		sb.WriteString("err:" + err.Error())
	}
	return sb.String()
}

func checkPolicy(tc *tcase, o *Opened, strict opt.Strict, probes [][]byte, out *caseOut) {
	if tc.Cfg.FilterBits == 0 {
		return
	}
	cc := &curCheck{Typ: "policy", TC: tc, Strict: strict, Probes: probes,
		Expected: "Get / Find (filtered or not) / a full scan answer the same whatever filter policy the reader is configured with"}
	out.setCur(cc)
	names, opts := policyVariants(tc.Cfg, strict)
	wantScan := scanObs(o.R)
	for vi, op := range opts {
		if (vi+len(tc.Data))%2 != 0 && len(tc.Data) > 2000 {
			continue // big tables: two of the four reader variants
		}
		r, err := table.NewReader(bytes.NewReader(tc.Data), int64(len(tc.Data)), storage.FileDesc{Type: storage.TypeTable, Num: int64(10 + vi)}, nil, nil, op)
		if err != nil {
			out.violate(fmt.Sprintf("reader with %s: NewReader failed: %v", names[vi], err), cc)
			return
		}
		func() {
			defer r.Release()
			for _, p := range probes {
				for _, filtered := range []bool{true, false} {
					want, got := findObs(tc, o.R, p, filtered), findObs(tc, r, p, filtered)
					if want != got {
						out.violate(fmt.Sprintf("reader with %s: Find(%s, filtered=%v) = %s, with the writer's policy %s", names[vi], short(p), filtered, got, want), cc)
						return
					}
				}
				if want, got := getObs(o.R, p), getObs(r, p); want != got {
					out.violate(fmt.Sprintf("reader with %s: Get(%s) = %s, with the writer's policy %s", names[vi], short(p), got, want), cc)
					return
				}
				o1, e1 := o.R.OffsetOf(p)
				o2, e2 := r.OffsetOf(p)
				if (e1 == nil) != (e2 == nil) {
					out.violate(fmt.Sprintf("reader with %s: OffsetOf(%s) error %v, with the writer's policy %v", names[vi], short(p), e2, e1), cc)
					return
				}
				if o1 != o2 {
					beyond := len(tc.KVs) == 0 || tc.cmp.Compare(p, tc.KVs[len(tc.KVs)-1].K) > 0
					if !beyond {
						out.violate(fmt.Sprintf("reader with %s: OffsetOf(%s) = %d, with the writer's policy %d, for a key not beyond the last one", names[vi], short(p), o2, o1), cc)
						return
					}
					out.count("policy_offsetof_beyond_last_key_depends_on_reader_policy", 1)
				}
			}
			if got := scanObs(r); got != wantScan {
				out.violate(fmt.Sprintf("reader with %s: a full scan differs from the scan with the writer's policy", names[vi]), cc)
			}
		}()
		if len(out.viols) > 0 {
			return
		}
		out.count("policy_reader_variants_compared", 1)
	}
}
