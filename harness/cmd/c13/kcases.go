// kcases.go: the (K) part — cases for the Coq model (Corr/C13Run.v).  Every case carries bytes
// produced by the implementation (block bytes from the blockWriter hook, table files from
// table.Writer with NoCompression or SnappyCompression) and the results the implementation returned for calls on them;
// the model must produce the same block bytes / parse the same file and return the same results.
package main

import (
	"fmt"
	"os"
	"path/filepath"
	"strings"

	"github.com/golang/snappy"
	"github.com/syndtr/goleveldb/leveldb/errors"
	"github.com/syndtr/goleveldb/leveldb/iterator"
	"github.com/syndtr/goleveldb/leveldb/opt"
	"github.com/syndtr/goleveldb/leveldb/table"
	"github.com/syndtr/goleveldb/leveldb/util"
	"verifharness/lib/vlib"
)

type kBudget struct {
	blocks     int // block-level cases
	tables     int // table files
	damaged    int // of which carry one altered byte
	maxFile    int // bytes
	probes     int
	walks      int
	opsPerWalk int
	shards     int
}

var kQuick = kBudget{blocks: 96, tables: 48, damaged: 12, maxFile: 3000, probes: 24, walks: 4, opsPerWalk: 36, shards: 16}
var kThorough = kBudget{blocks: 960, tables: 480, damaged: 120, maxFile: 4500, probes: 40, walks: 6, opsPerWalk: 48, shards: 64}

func coqHPairs(kvs []KV) string {
	var sb strings.Builder
	sb.WriteString("[")
	for i, kv := range kvs {
		if i > 0 {
			sb.WriteString("; ")
		}
		sb.WriteString("(" + vlib.CoqHex(kv.K) + ", " + vlib.CoqHex(kv.V) + ")")
	}
	sb.WriteString("]")
	return sb.String()
}

func coqOps(ops []Op) string {
	var parts []string
	for _, o := range ops {
		switch o.Kind {
		case OpFirst:
			parts = append(parts, "KFirst")
		case OpLast:
			parts = append(parts, "KLast")
		case OpSeek:
			parts = append(parts, "KSeek "+vlib.CoqHex(o.Key))
		case OpNext:
			parts = append(parts, "KNext")
		default:
			parts = append(parts, "KPrev")
		}
	}
	return "[" + strings.Join(parts, "; ") + "]"
}

func coqSlice(rs *RangeSpec) string {
	if rs == nil || (rs.NilSlice && !rs.HasStart && !rs.HasLimit) {
		return "None"
	}
	s, l := "None", "None"
	if rs.HasStart {
		s = "(Some " + vlib.CoqHex(rs.Start) + ")"
	}
	if rs.HasLimit {
		l = "(Some " + vlib.CoqHex(rs.Limit) + ")"
	}
	return "(Some (" + s + ", " + l + "))"
}

// driveObs runs the movements on a real iterator and renders the observations.
func driveObs(it iterator.Iterator, ops []Op) (obs string, errNil bool) {
	var parts []string
	for _, o := range ops {
		var ok bool
		switch o.Kind {
		case OpFirst:
			ok = it.First()
		case OpLast:
			ok = it.Last()
		case OpSeek:
			ok = it.Seek(o.Key)
		case OpNext:
			ok = it.Next()
		default:
			ok = it.Prev()
		}
		if ok {
			parts = append(parts, "Some ("+vlib.CoqHex(it.Key())+", "+vlib.CoqHex(it.Value())+")")
		} else {
			parts = append(parts, "None")
		}
	}
	return "[" + strings.Join(parts, "; ") + "]", it.Error() == nil
}

func kRange(r *vlib.RNG, kvs []KV) *RangeSpec {
	rs := &RangeSpec{}
	pick := func() []byte {
		if len(kvs) == 0 || r.Chance(1, 6) {
			return genRandomKey(r)
		}
		return nearKey(r, kvs, r.Intn(len(kvs)))
	}
	switch r.Pick(2, 3, 3, 6) {
	case 0:
		rs.NilSlice = r.Bool()
	case 1:
		rs.HasStart, rs.Start = true, pick()
	case 2:
		rs.HasLimit, rs.Limit = true, pick()
	default:
		rs.HasStart, rs.Start = true, pick()
		rs.HasLimit, rs.Limit = true, pick()
		if len(kvs) > 3 && r.Chance(2, 3) { // mostly a proper range
			i := r.Intn(len(kvs) - 1)
			j := i + 1 + r.Intn(len(kvs)-i-1)
			rs.Start, rs.Limit = nearKey(r, kvs, i), nearKey(r, kvs, j)
		}
	}
	return rs
}

// ---- block level ----

func kBlockCases(r *vlib.RNG, n int, res *vlib.Result) []string {
	var cases []string
	for i := 0; i < n; i++ {
		// the implementation may panic on a block it wrote itself (injected bug): report it like kTableCase does and
		// go on, so that result.json with the (P) violations and their replay files is still written
		cases = append(cases, kBlockCase(r, i, res)...)
	}
	return cases
}

func kBlockCase(r *vlib.RNG, i int, res *vlib.Result) (cases []string) {
	var cc *curCheck // replayable as a "block" check
	defer func() {
		if p := recover(); p != nil {
			desc := fmt.Sprintf("panic while producing a (K) block case: %v%s", p, implFrame())
			res.Violate(desc, cc.replay(desc))
			cases = nil
		}
	}()
	{
		cid := r.Intn(vlib.NumComparers)
		ri := r.Range(1, 8)
		shape := []int{ShapeEmpty, ShapeSingle, ShapeLongPrefix, ShapeEmptyValues, ShapeRandom, ShapeTiny, ShapeDense, ShapePrefixChain}[r.Pick(1, 1, 3, 2, 3, 2, 3, 2)]
		kvs := GenKVs(r, cid, shape)
		if len(kvs) > 24 {
			off := r.Intn(len(kvs) - 24)
			kvs = kvs[off : off+r.Range(8, 24)]
		}
		keys, vals := make([][]byte, len(kvs)), make([][]byte, len(kvs))
		for j, kv := range kvs {
			keys[j], vals[j] = kv.K, kv.V
		}
		tc := newCase(TableCfg{Cmp: cid, RestartInterval: ri}, shape, kvs)
		cc = &curCheck{Typ: "block", TC: tc, Expected: "block writer and block iterator do not panic on a sorted list of pairs"}
		data, err := table.VerifBlockBuild(ri, keys, vals)
		if err != nil {
			res.Violate("VerifBlockBuild failed: "+err.Error(), map[string]interface{}{"ri": ri})
			return nil
		}
		blen := table.VerifBlockBytesLen(ri, keys, vals)
		res.Count("k_block_cases", 1)
		cases = append(cases, fmt.Sprintf("KBuild %d %s %s %d", ri, coqHPairs(kvs), vlib.CoqHex(data), blen))
		if i%4 == 0 {
			cases = append(cases, fmt.Sprintf("KDecode %s %s", vlib.CoqHex(data), coqHPairs(kvs)))
		}
		nw := 2
		for w := 0; w < nw; w++ {
			var rs *RangeSpec
			incl := false
			if w > 0 {
				rs = kRange(r, kvs)
				incl = r.Bool()
			}
			ops := GenOps(r, kvs, []int{0}, ri, 30)
			cc = &curCheck{Typ: "block", TC: tc, RS: rs, InclLimit: incl, Ops: ops, Expected: cc.Expected}
			it, err := table.VerifBlockIter(vlib.ComparerByID(cid), data, rs.slice(), incl)
			if err != nil {
				continue
			}
			obs, errNil := driveObs(it, ops)
			it.Release()
			cases = append(cases, fmt.Sprintf("KBlockWalk %d %s %s %s %s %s %s", cid, vlib.CoqHex(data), coqSlice(rs),
				vlib.CoqBool(incl), coqOps(ops), obs, vlib.CoqBool(errNil)))
			res.Count("k_block_walks", 1)
		}
	}
	return cases
}

// ---- table level ----

func fobs(k, v []byte, err error) string {
	switch {
	case err == nil:
		return "(OFound " + vlib.CoqHex(k) + " " + vlib.CoqHex(v) + ")"
	case err == table.ErrNotFound:
		return "ONotFound"
	case errors.IsCorrupted(err):
		return "OCorrupt"
	}
	return "OOther"
}

func kTableCase(r *vlib.RNG, b kBudget, damaged bool, res *vlib.Result) (cs []string) {
	defer func() {
		if p := recover(); p != nil {
			res.Violate(fmt.Sprintf("panic while producing a (K) table case: %v", p), map[string]interface{}{"damaged": damaged})
			cs = nil
		}
	}()
	var cfg TableCfg
	var kvs []KV
	var file []byte
	for try := 0; ; try++ {
		cfg = GenCfg(r)
		// a third of the tables is written with SnappyCompression: the model reads them with its model of
		// golang/snappy's decoder (Codec/Snappy.v)
		cfg.Snappy = r.Chance(1, 3)
		if cfg.BlockSize > 1024 {
			cfg.BlockSize = 1024
		}
		shape := GenShape(r)
		if damaged && shape == ShapeEmpty {
			shape = ShapeDense
		}
		kvs = GenKVsBS(r, cfg.Cmp, shape, cfg.BlockSize)
		if len(kvs) > 40 {
			off := r.Intn(len(kvs) - 40)
			kvs = kvs[off : off+r.Range(10, 40)]
		}
		f, err := BuildTable(cfg, kvs)
		if err != nil {
			res.Violate("BuildTable failed: "+err.Error(), map[string]interface{}{"cfg": cfg})
			return nil
		}
		if len(f) <= b.maxFile || try > 20 {
			file = f
			if len(f) > b.maxFile {
				return nil
			}
			break
		}
	}
	verify := damaged || r.Chance(1, 4)
	strictO := opt.NoStrict
	if verify {
		strictO = opt.StrictBlockChecksum
	}
	// layout (block starts) from the undamaged file
	clean, err := OpenTable(cfg, file, strictO)
	if err != nil {
		res.Violate("OpenTable failed: "+err.Error(), map[string]interface{}{"cfg": cfg})
		return nil
	}
	starts := BlockStarts(clean, kvs)
	clean.Close()
	data := file
	if damaged {
		data = append([]byte{}, file...)
		// mostly inside the data blocks, sometimes anywhere before the footer
		end := len(file) - 48
		pos := r.Intn(end)
		if r.Chance(3, 4) && len(kvs) > 0 {
			o, _ := OpenTable(cfg, file, strictO)
			de, _ := o.R.OffsetOf(append(append([]byte{}, kvs[len(kvs)-1].K...), 0xff, 0xff))
			o.Close()
			if de > 0 && int(de) <= end {
				pos = r.Intn(int(de))
			}
		}
		data[pos] ^= []byte{0x01, 0x80, 0xff, 0x10}[r.Intn(4)]
		res.Count("k_tables_damaged", 1)
	}
	o, err := OpenTable(cfg, data, strictO)
	if err != nil {
		return nil
	}
	defer o.Close()
	fname := "None"
	if f := cfg.Options(0).Filter; f != nil {
		fname = "(Some " + vlib.CoqHex([]byte(f.Name())) + ")"
	}
	var qs []string
	if !damaged {
		qs = append(qs, "QAll "+coqHPairs(kvs))
		qs = append(qs, fmt.Sprintf("QCheck %d %s", cfg.RestartInterval, coqHPairs(kvs)))
		res.Count("k_tables_format_membership_checked", 1)
	}
	probes := GenProbeKeys(r, kvs)
	for i := len(probes) - 1; i > 0; i-- {
		j := r.Intn(i + 1)
		probes[i], probes[j] = probes[j], probes[i]
	}
	if len(probes) > b.probes {
		probes = probes[:b.probes]
	}
	for _, k := range probes {
		rk, rv, err := o.R.Find(k, false, nil)
		qs = append(qs, fmt.Sprintf("QFind %s %s", vlib.CoqHex(k), fobs(rk, rv, err)))
		v, err := o.R.Get(k, nil)
		qs = append(qs, fmt.Sprintf("QGet %s %s", vlib.CoqHex(k), fobs(k, v, err)))
		// (on a damaged table the bloom answer decides whether the damaged block is read at all: not comparable)
		if cfg.FilterBits > 0 && !damaged {
			rk, rv, err = o.R.Find(k, true, nil)
			if err == nil && vlib.ComparerByID(cfg.Cmp).Compare(rk, k) != 0 {
				err = table.ErrNotFound
			}
			qs = append(qs, fmt.Sprintf("QGetF %s %s", vlib.CoqHex(k), fobs(rk, rv, err)))
		}
		off, err := o.R.OffsetOf(k)
		if err == nil {
			qs = append(qs, fmt.Sprintf("QOffset %s (Some %d)", vlib.CoqHex(k), off))
		} else if errors.IsCorrupted(err) {
			qs = append(qs, fmt.Sprintf("QOffset %s None", vlib.CoqHex(k)))
		}
	}
	for w := 0; w < b.walks; w++ {
		var rs *RangeSpec
		if w >= 1 && !(damaged && w == 1) {
			rs = kRange(r, kvs)
		}
		strict := r.Bool()
		ro := &opt.ReadOptions{}
		if strict {
			ro.Strict = opt.StrictReader
		}
		var ops []Op
		if damaged && w <= 1 {
			ops = ScanOps(len(kvs)+2, w == 0)
		} else {
			ops = GenOps(r, kvs, starts, cfg.RestartInterval, b.opsPerWalk)
		}
		var sl *util.Range = rs.slice()
		it := o.R.NewIterator(sl, ro)
		obs, errNil := driveObs(it, ops)
		it.Release()
		qs = append(qs, fmt.Sprintf("QWalk %s %s %s %s %s", coqSlice(rs), vlib.CoqBool(strict), coqOps(ops), obs, vlib.CoqBool(errNil)))
		res.Count("k_table_walks", 1)
	}
	res.Count("k_tables", 1)
	if verify {
		res.Count("k_tables_checksums_verified_by_model", 1)
	}
	res.Count(fmt.Sprintf("k_table_blocks_%s", blocksBucket(len(starts))), 1)
	cs = append(cs, fmt.Sprintf("KTable %d %s %s %s\n  [%s]", cfg.Cmp, fname, vlib.CoqBool(verify), vlib.CoqHex(data), strings.Join(qs, ";\n   ")))
	if cfg.Snappy {
		res.Count("k_tables_snappy", 1)
	}
	if !damaged && cfg.FilterBits == 0 && !cfg.Snappy {
		cs = append(cs, fmt.Sprintf("KWrite %d %d %d %s %s", cfg.Cmp, cfg.BlockSize, cfg.RestartInterval, coqHPairs(kvs), vlib.CoqHex(file)))
		res.Count("k_writer_cases", 1)
	}
	return cs
}

// kDirectedEmpty: the table written for NO pairs under range iterators with an empty, non-nil Start
// key (and the other bound shapes).  Props/C13.v states what the model does there
// (C13_range_iter_empty_table_reports_corruption: a Seek reports "entries offset not aligned" on an
// undamaged table, no pair is ever returned: C13_table_iter_range_refines_cursor); these cases make the
// implementation's observations and Error() part of the correspondence on every run.
func kDirectedEmpty(res *vlib.Result) (cs []string) {
	defer func() {
		if p := recover(); p != nil {
			res.Violate(fmt.Sprintf("panic while producing the directed empty-table (K) cases: %v", p), map[string]interface{}{"directed": "empty"})
			cs = nil
		}
	}()
	for cid := 0; cid < vlib.NumComparers; cid++ {
		cfg := TableCfg{Cmp: cid, BlockSize: 4096, RestartInterval: 16}
		file, err := BuildTable(cfg, nil)
		if err != nil {
			res.Violate("BuildTable (no pairs) failed: "+err.Error(), map[string]interface{}{"cfg": cfg})
			return nil
		}
		o, err := OpenTable(cfg, file, opt.StrictBlockChecksum)
		if err != nil {
			res.Violate("OpenTable (no pairs) failed: "+err.Error(), map[string]interface{}{"cfg": cfg})
			return nil
		}
		e, a := []byte{}, []byte("a")
		sk := func(k []byte) Op { return Op{Kind: OpSeek, Key: k} }
		all := []Op{{Kind: OpFirst}, {Kind: OpNext}, sk(e), {Kind: OpLast}, {Kind: OpPrev}, sk(a), {Kind: OpNext}}
		type walk struct {
			rs  *RangeSpec
			ops []Op
		}
		walks := []walk{
			{&RangeSpec{HasStart: true, Start: e}, []Op{sk(e)}},
			{&RangeSpec{HasStart: true, Start: e}, all},
			{&RangeSpec{HasStart: true, Start: e}, []Op{{Kind: OpLast}, sk(e), {Kind: OpFirst}}},
			{&RangeSpec{HasStart: true, Start: e, HasLimit: true, Limit: a}, []Op{sk(e)}},
			{&RangeSpec{HasStart: true, Start: e, HasLimit: true, Limit: e}, []Op{sk(e), {Kind: OpFirst}}},
			{&RangeSpec{HasStart: true, Start: a}, all},
			{&RangeSpec{HasLimit: true, Limit: e}, all},
			{&RangeSpec{HasLimit: true, Limit: a}, all},
			{nil, all},
		}
		var qs []string
		qs = append(qs, "QAll []", fmt.Sprintf("QCheck %d []", cfg.RestartInterval))
		for _, w := range walks {
			for _, strict := range []bool{true, false} {
				ro := &opt.ReadOptions{}
				if strict {
					ro.Strict = opt.StrictReader
				}
				it := o.R.NewIterator(w.rs.slice(), ro)
				obs, errNil := driveObs(it, w.ops)
				it.Release()
				qs = append(qs, fmt.Sprintf("QWalk %s %s %s %s %s", coqSlice(w.rs), vlib.CoqBool(strict), coqOps(w.ops), obs, vlib.CoqBool(errNil)))
				res.Count("k_directed_empty_table_walks", 1)
				if !errNil {
					res.Count("k_directed_empty_table_walks_reporting_corruption", 1)
				}
			}
		}
		o.Close()
		cs = append(cs, fmt.Sprintf("KTable %d None true %s\n  [%s]", cid, vlib.CoqHex(file), strings.Join(qs, ";\n   ")))
	}
	return cs
}

// kSnappyCases: the codec contract of the writer theorems (decompress (compress x) = Some x) on instances: what
// snappy.Encode produced for block contents must decode, in the model, to the input; altered compressed blocks must
// decode to whatever snappy.Decode returned, or fail when it failed.
func kSnappyCases(r *vlib.RNG, n int, res *vlib.Result) (cs []string) {
	defer func() {
		if p := recover(); p != nil {
			res.Violate(fmt.Sprintf("panic while producing a (K) snappy case: %v", p), map[string]interface{}{"directed": "snappy"})
			cs = nil
		}
	}()
	for i := 0; i < n; i++ {
		var raw []byte
		switch r.Pick(5, 2, 2, 1) {
		case 0: // a data block as the writer compresses it
			cid := r.Intn(vlib.NumComparers)
			kvs := GenKVs(r, cid, []int{ShapeLongPrefix, ShapeRandom, ShapeDense, ShapePrefixChain, ShapeEmptyValues, ShapeEmpty}[r.Intn(6)])
			if len(kvs) > 30 {
				kvs = kvs[:r.Range(4, 30)]
			}
			keys, vals := make([][]byte, len(kvs)), make([][]byte, len(kvs))
			for j, kv := range kvs {
				keys[j], vals[j] = kv.K, kv.V
			}
			b, err := table.VerifBlockBuild(r.Range(1, 16), keys, vals)
			if err != nil {
				continue
			}
			raw = b
		case 1: // long runs and repetitions: copies with overlap, 2-byte offsets
			unit := r.Bytes(r.Range(1, 9), nil)
			for len(raw) < r.Range(70, 1500) {
				raw = append(raw, unit...)
				if r.Chance(1, 8) {
					raw = append(raw, r.Bytes(r.Range(1, 5), nil)...)
				}
			}
		case 2: // incompressible: long literals (length in 1 or 2 extra bytes)
			raw = r.Bytes([]int{0, 1, 59, 60, 61, 255, 256, 257, 700}[r.Intn(9)], nil)
		default:
			raw = r.Bytes(r.Range(0, 300), []byte("ab"))
		}
		comp := snappy.Encode(nil, raw)
		cs = append(cs, fmt.Sprintf("KSnappy %s %s", vlib.CoqHex(comp), vlib.CoqHex(raw)))
		res.Count("k_snappy_roundtrip", 1)
		if i%3 == 0 && len(comp) > 0 {
			bad := append([]byte{}, comp...)
			bad[r.Intn(len(bad))] ^= []byte{0x01, 0x02, 0x40, 0x80, 0xff}[r.Intn(5)]
			if r.Chance(1, 4) {
				bad = bad[:r.Intn(len(bad))]
			}
			if d, err := snappy.Decode(nil, bad); err != nil {
				cs = append(cs, "KSnappyErr "+vlib.CoqHex(bad))
				res.Count("k_snappy_altered_rejected", 1)
			} else if len(d) <= 4000 {
				cs = append(cs, fmt.Sprintf("KSnappy %s %s", vlib.CoqHex(bad), vlib.CoqHex(d)))
				res.Count("k_snappy_altered_accepted", 1)
			}
		}
	}
	return cs
}

// writeKFiles shards the cases; every file prints M (indexes that disagree: hard) and then W (model
// writer output differs from the implementation's file: a soft statistic the driver ignores).
func writeKFiles(res *vlib.Result, out string, cases []string, shards int) {
	if len(cases) == 0 {
		return
	}
	// balance: deal the cases round-robin (table cases are much heavier than block cases)
	if shards > len(cases) {
		shards = len(cases)
	}
	buckets := make([][]string, shards)
	for i, c := range cases {
		buckets[i%shards] = append(buckets[i%shards], c)
	}
	lo := 0
	for i, b := range buckets {
		name := fmt.Sprintf("cases_%s_%d.v", res.Property, i)
		var sb strings.Builder
		sb.WriteString("From GL Require Import Corr.C13Run.\n")
		sb.WriteString("From Coq Require Import List NArith ZArith String.\nImport ListNotations.\nOpen Scope string_scope.\nOpen Scope N_scope.\n")
		sb.WriteString("Definition cases : list c13case :=\n " + vlib.CoqList(b) + ".\n")
		sb.WriteString("Definition M := Eval vm_compute in mismatches cases.\nPrint M.\n")
		sb.WriteString("Definition W := Eval vm_compute in soft_mismatches cases.\nPrint W.\n")
		os.WriteFile(filepath.Join(out, name), []byte(sb.String()), 0o644)
		res.KCaseFiles = append(res.KCaseFiles, fmt.Sprintf("%s:%d", name, lo))
		lo += len(b)
	}
	res.KCases += len(cases)
}

func emitK(a vlib.Args, res *vlib.Result, r *vlib.RNG, ucases []string) {
	if a.Replay != "" {
		return
	}
	b := kQuick
	if a.Thorough() {
		b = kThorough
	}
	rb, rt := r.Fork(), r.Fork()
	var tcs, bcs []string
	for i := 0; i < b.tables; i++ {
		tcs = append(tcs, kTableCase(rt.Fork(), b, i < b.damaged, res)...)
	}
	bcs = kBlockCases(rb, b.blocks, res)
	tcs = append(tcs, kDirectedEmpty(res)...)
	bcs = append(bcs, kSnappyCases(r.Fork(), b.blocks/2, res)...)
	bcs = append(bcs, ucases...) // util.Buffer / BufferPool / BytesPrefix / BasicReleaser (ubuf.go)
	// interleave so that round-robin sharding spreads the heavy table cases
	var cases []string
	for len(tcs) > 0 || len(bcs) > 0 {
		if len(tcs) > 0 {
			cases = append(cases, tcs[0])
			tcs = tcs[1:]
		}
		for k := 0; k < 4 && len(bcs) > 0; k++ {
			cases = append(cases, bcs[0])
			bcs = bcs[1:]
		}
	}
	writeKFiles(res, a.Out, cases, b.shards)
}
