// replay.go: replay files carry the whole case (no RNG needed): configuration, pairs, the probe /
// movement list / range / damaged byte, and what was expected and observed.
package main

import (
	"encoding/hex"
	"encoding/json"
	"fmt"
	"os"
	"time"

	"github.com/syndtr/goleveldb/leveldb/opt"
	"verifharness/lib/vlib"
)

type opJ struct {
	Op  string  `json:"op"`
	Key *string `json:"key,omitempty"`
}

type rangeJ struct {
	NilSlice bool    `json:"nil_slice"`
	Start    *string `json:"start"` // null = no bound
	Limit    *string `json:"limit"`
}

type damageJ struct {
	Off      int      `json:"offset"`
	NewByte  int      `json:"new_byte"`
	OldByte  int      `json:"old_byte"`
	Xor      int      `json:"xor"`
	Region   string   `json:"region,omitempty"`
	Absent   []string `json:"absent_keys"`
	FindKeys []string `json:"find_keys"`
}

// Replay is the "case" object of a replay file.
type Replay struct {
	Type      string      `json:"type"` // build | order | open | probe | offsets | policy | walk | retain | block | damage
	Cfg       TableCfg    `json:"cfg"`
	Shape     string      `json:"shape,omitempty"`
	Strict    uint        `json:"strict"`
	KVs       [][2]string `json:"kvs"`             // hex key, hex value, in table order
	Decoy     [][2]string `json:"decoy,omitempty"` // pairs of the second table on the shared cache / pool
	Probe     *string     `json:"probe,omitempty"`
	Probes    []string    `json:"probes,omitempty"`
	Range     *rangeJ     `json:"range,omitempty"`
	Ops       []opJ       `json:"ops,omitempty"`
	Keys      []string    `json:"keys,omitempty"`
	InclLimit bool        `json:"incl_limit,omitempty"`
	Damage    *damageJ    `json:"damage,omitempty"`
	Expected  string      `json:"expected"`
	Observed  string      `json:"observed"`
}

func hx(b []byte) string { return hex.EncodeToString(b) }
func hxs(bs [][]byte) []string {
	out := make([]string, len(bs))
	for i, b := range bs {
		out[i] = hx(b)
	}
	return out
}
func unhx(s string) []byte {
	b, err := hex.DecodeString(s)
	if err != nil {
		fmt.Fprintln(os.Stderr, "bad hex in replay file:", err)
		os.Exit(2)
	}
	if b == nil {
		b = []byte{}
	}
	return b
}
func unhxs(ss []string) [][]byte {
	out := make([][]byte, len(ss))
	for i, s := range ss {
		out[i] = unhx(s)
	}
	return out
}

func opsToJ(ops []Op) []opJ {
	out := make([]opJ, len(ops))
	for i, op := range ops {
		out[i].Op = OpNames[op.Kind]
		if op.Kind == OpSeek {
			s := hx(op.Key)
			out[i].Key = &s
		}
	}
	return out
}

func opsFromJ(js []opJ) []Op {
	out := make([]Op, len(js))
	for i, j := range js {
		k := -1
		for id, n := range OpNames {
			if n == j.Op {
				k = id
			}
		}
		if k < 0 {
			fmt.Fprintln(os.Stderr, "bad op in replay file:", j.Op)
			os.Exit(2)
		}
		out[i].Kind = k
		if j.Key != nil {
			out[i].Key = unhx(*j.Key)
		}
	}
	return out
}

func (cc *curCheck) replay(observed string) *Replay {
	if cc == nil {
		return &Replay{Type: "unknown", Observed: observed}
	}
	tc := cc.TC
	rp := &Replay{Type: cc.Typ, Cfg: tc.Cfg, Strict: uint(cc.Strict), Expected: cc.Expected, Observed: observed, InclLimit: cc.InclLimit}
	if tc.Shape >= 0 && tc.Shape < NumShapes {
		rp.Shape = ShapeNames[tc.Shape]
	}
	rp.KVs = make([][2]string, len(tc.KVs))
	for i, kv := range tc.KVs {
		rp.KVs[i] = [2]string{hx(kv.K), hx(kv.V)}
	}
	for _, kv := range tc.Decoy {
		rp.Decoy = append(rp.Decoy, [2]string{hx(kv.K), hx(kv.V)})
	}
	if cc.Probe != nil {
		s := hx(cc.Probe)
		rp.Probe = &s
	}
	rp.Probes = hxs(cc.Probes)
	rp.Keys = hxs(cc.Keys)
	if cc.RS != nil {
		rj := &rangeJ{NilSlice: cc.RS.NilSlice}
		if cc.RS.HasStart {
			s := hx(cc.RS.Start)
			rj.Start = &s
		}
		if cc.RS.HasLimit {
			s := hx(cc.RS.Limit)
			rj.Limit = &s
		}
		rp.Range = rj
	}
	rp.Ops = opsToJ(cc.Ops)
	if d := cc.Dmg; d != nil {
		dj := &damageJ{Off: d.Off, NewByte: int(d.NewByte), Absent: hxs(d.Absent), FindKeys: hxs(d.FindKeys)}
		if d.Off >= 0 && d.Off < len(tc.Data) {
			dj.OldByte = int(tc.Data[d.Off])
			dj.Xor = dj.OldByte ^ dj.NewByte
			if fl := tc.fileLayout(); fl.ok {
				name, blk := fl.region(d.Off)
				dj.Region = fmt.Sprintf("%s %d", name, blk)
			}
		}
		rp.Damage = dj
		rp.Ops = opsToJ(d.Ops)
	}
	return rp
}

// runReplay re-runs the single stored check; it reports a violation again if it still fails.
func runReplay(a vlib.Args, res *vlib.Result) {
	raw, err := os.ReadFile(a.Replay)
	if err != nil {
		fmt.Fprintln(os.Stderr, "replay:", err)
		os.Exit(2)
	}
	if replayUtil(raw, res) {
		return
	}
	var file struct {
		Property string `json:"property"`
		Desc     string `json:"desc"`
		Case     Replay `json:"case"`
	}
	if err := json.Unmarshal(raw, &file); err != nil {
		fmt.Fprintln(os.Stderr, "replay:", err)
		os.Exit(2)
	}
	rp := file.Case
	kvs := make([]KV, len(rp.KVs))
	for i, p := range rp.KVs {
		kvs[i] = KV{unhx(p[0]), unhx(p[1])}
	}
	shape := -1
	for i, n := range ShapeNames {
		if n == rp.Shape {
			shape = i
		}
	}
	tc := newCase(rp.Cfg, shape, kvs)
	for _, p := range rp.Decoy {
		tc.Decoy = append(tc.Decoy, KV{unhx(p[0]), unhx(p[1])})
	}
	strict := opt.Strict(rp.Strict)
	var rs *RangeSpec
	if rp.Range != nil {
		rs = &RangeSpec{NilSlice: rp.Range.NilSlice}
		if rp.Range.Start != nil {
			rs.HasStart, rs.Start = true, unhx(*rp.Range.Start)
		}
		if rp.Range.Limit != nil {
			rs.HasLimit, rs.Limit = true, unhx(*rp.Range.Limit)
		}
	}
	ops := opsFromJ(rp.Ops)
	out := newOut()
	inflight[nWorkers].Store(&flight{out: out, start: time.Now()})
	func() {
		defer func() {
			if p := recover(); p != nil {
				out.violate(fmt.Sprintf("panic: %v%s", p, implFrame()), out.current())
			}
		}()
		if rp.Type == "block" {
			checkBlock(tc, rs, rp.InclLimit, ops, out)
			return
		}
		if rp.Type == "golden" {
			checkGolden(out)
			return
		}
		if rp.Type == "order" {
			if rp.Probe != nil {
				checkOrder(tc, unhx(*rp.Probe), out)
			}
			return
		}
		cc := &curCheck{Typ: "build", TC: tc, Expected: "the writer accepts a strictly increasing sequence and reports consistent lengths"}
		out.setCur(cc)
		data, err := BuildTable(tc.Cfg, tc.KVs)
		if err != nil {
			out.violate("writing the table: "+err.Error(), cc)
			return
		}
		tc.Data = data
		if rp.Type == "build" {
			return
		}
		openStrict := strict
		if rp.Type == "damage" {
			openStrict = strictMain
		}
		cc = &curCheck{Typ: "open", TC: tc, Strict: openStrict, Expected: "the reader opens a table the writer produced"}
		out.setCur(cc)
		o, err := tc.open(openStrict)
		if err != nil {
			out.violate("opening the table: "+err.Error(), cc)
			return
		}
		defer o.Close()
		tc.layout(o)
		switch rp.Type {
		case "open":
		case "probe":
			if rp.Probe != nil {
				checkProbe(tc, o, strict, unhx(*rp.Probe), out)
			}
		case "offsets":
			checkOffsets(tc, o, strict, unhxs(rp.Probes), out)
		case "policy":
			checkPolicy(tc, o, strict, unhxs(rp.Probes), out)
		case "walk":
			checkWalk(tc, o, strict, rs, ops, out)
		case "decoy":
			checkDecoy(tc, o, strict, out)
		case "retain":
			checkRetain(tc, o, strict, unhxs(rp.Keys), out)
		case "damage":
			if rp.Damage != nil {
				checkDamage(tc, &damageInput{Off: rp.Damage.Off, NewByte: byte(rp.Damage.NewByte), Absent: unhxs(rp.Damage.Absent),
					FindKeys: unhxs(rp.Damage.FindKeys), Ops: ops}, out)
			}
		default:
			fmt.Fprintln(os.Stderr, "replay: unknown case type", rp.Type)
		}
	}()
	inflight[nWorkers].Store(&flight{})
	out.evals++
	merge(res, out)
	fmt.Printf("replay %s: type=%s violations=%d\n", a.Replay, rp.Type, len(out.viols))
	for _, v := range out.viols {
		fmt.Println("  " + v.desc)
	}
}
