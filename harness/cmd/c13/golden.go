// golden.go: one table file written by the unchanged writer (snappy blocks, bloom filter), kept as hex.
// The reader must read back exactly its pairs.  This pins what writer, reader and the generated model
// constants share and what a round trip therefore cannot see: the magic number, the block type bytes, the
// block handle encoding, the bytes covered by the checksum.  The writer's output for the same input is
// compared with the stored file as a statistic only (layout tuning is not a violation).
package main

import (
	"bytes"
	"encoding/hex"
	"fmt"
)

var goldenCfg = TableCfg{Cmp: 0, BlockSize: 64, RestartInterval: 3, Snappy: true, FilterBits: 10}

func goldenKVs() []KV {
	var kvs []KV
	for i := 0; i < 24; i++ {
		k := []byte(fmt.Sprintf("key%02d", i))
		if i%5 == 0 {
			k = append(k, bytes.Repeat([]byte{'x'}, i)...)
		}
		kvs = append(kvs, KV{k, bytes.Repeat([]byte{byte('a' + i%7)}, (i*7)%23)})
	}
	return kvs
}

func checkGolden(out *caseOut) {
	kvs := goldenKVs()
	tc := newCase(goldenCfg, ShapeRandom, kvs)
	cc := &curCheck{Typ: "golden", TC: tc, Strict: strictMain,
		Expected: "the stored table file (written by the unchanged writer) opens and reads back exactly its pairs"}
	out.setCur(cc)
	out.evals++
	data, err := hex.DecodeString(goldenHex)
	if err != nil || len(data) == 0 {
		out.violate("stored table file: bad hex", cc)
		return
	}
	tc.Data = data
	o, err := OpenTable(goldenCfg, data, strictMain)
	if err != nil {
		out.violate("stored table file: NewReader: "+err.Error(), cc)
		return
	}
	defer o.Close()
	for pass := 0; pass < 2; pass++ {
		it := o.R.NewIterator(nil, nil)
		d, _ := RunOps(it, tc.cmp, kvs, ScanOps(len(kvs), pass == 0))
		it.Release()
		if d != "" {
			out.violate("stored table file: "+d, cc)
			return
		}
	}
	for _, kv := range kvs {
		if v, err := o.R.Get(kv.K, nil); err != nil || !sameBytes(v, kv.V) {
			out.violate(fmt.Sprintf("stored table file: Get(%s) = (%s,%v), stored %s", short(kv.K), short(v), err, short(kv.V)), cc)
			return
		}
		if rk, _, err := o.R.Find(kv.K, true, nil); err != nil || !sameBytes(rk, kv.K) {
			out.violate(fmt.Sprintf("stored table file: Find(%s, filtered) = (%s,%v)", short(kv.K), short(rk), err), cc)
			return
		}
	}
	out.count("golden_file_read_back", 1)
	if w, err := BuildTable(goldenCfg, kvs); err == nil && !bytes.Equal(w, data) {
		out.count("golden_file_writer_output_differs", 1)
		out.note(fmt.Sprintf("the writer's output for the stored table's input differs from the stored file (%d vs %d bytes): layout changed", len(w), len(data)))
	}
}
