// checks.go: the (P) checks on an undamaged table and on a single block, each a pure function of
// explicit inputs (so that a stored replay can re-run exactly one of them).
package main

import (
	"bytes"
	"crypto/sha1"
	"encoding/hex"
	"fmt"
	"sort"
	"sync/atomic"

	"github.com/syndtr/goleveldb/leveldb/comparer"
	lerrors "github.com/syndtr/goleveldb/leveldb/errors"
	"github.com/syndtr/goleveldb/leveldb/opt"
	"github.com/syndtr/goleveldb/leveldb/table"
	"github.com/syndtr/goleveldb/leveldb/util"
	"verifharness/lib/vlib"
)

const strictMain = opt.StrictBlockChecksum | opt.StrictReader

// RangeSpec is an iterator slice: absent bounds are nil in util.Range, present ones non-nil (possibly empty).
type RangeSpec struct {
	NilSlice bool // pass a nil *util.Range (only meaningful with no bounds)
	HasStart bool
	Start    []byte
	HasLimit bool
	Limit    []byte
}

func (rs *RangeSpec) slice() *util.Range {
	if rs == nil || (rs.NilSlice && !rs.HasStart && !rs.HasLimit) {
		return nil
	}
	u := &util.Range{}
	if rs.HasStart {
		u.Start = make([]byte, len(rs.Start))
		copy(u.Start, rs.Start)
	}
	if rs.HasLimit {
		u.Limit = make([]byte, len(rs.Limit))
		copy(u.Limit, rs.Limit)
	}
	return u
}

func (rs *RangeSpec) String() string {
	if rs == nil {
		return "nil"
	}
	s, l := "nil", "nil"
	if rs.HasStart {
		s = "0x" + short(rs.Start)
	}
	if rs.HasLimit {
		l = "0x" + short(rs.Limit)
	}
	return "[" + s + "," + l + ")"
}

// tcase is one table (or, for block-level cases, one block: only Cfg.Cmp, Cfg.RestartInterval and KVs are used).
type tcase struct {
	Cfg   TableCfg
	Shape int
	KVs   []KV
	Data  []byte
	Decoy []KV // pairs of a second table opened on the same cache and buffer pool (nil = none)

	decoyData []byte
	cmp       comparer.Comparer
	starts    []int   // entry indexes starting a data block
	offs      []int64 // data block offset of every entry
	dataEnd   int64   // OffsetOf(a key after everything), -1 if unknown
	isStart   []bool  // len N+1; [N] = true (virtual end)
	isRestart []bool  // len N+1
}

func newCase(cfg TableCfg, shape int, kvs []KV) *tcase {
	return &tcase{Cfg: cfg, Shape: shape, KVs: kvs, cmp: CmpByID(cfg.Cmp), dataEnd: -1}
}

// open opens the table (together with its decoy, if any).
func (tc *tcase) open(strict opt.Strict) (*Opened, error) {
	if tc.Decoy != nil && tc.decoyData == nil {
		d, err := BuildTable(tc.Cfg, tc.Decoy)
		if err != nil {
			return nil, fmt.Errorf("decoy table: %v", err)
		}
		tc.decoyData = d
	}
	return OpenTableWithDecoy(tc.Cfg, tc.Data, strict, tc.decoyData)
}

// layout discovers block starts and restart points through OffsetOf on an undamaged reader.
func (tc *tcase) layout(o *Opened) {
	n := len(tc.KVs)
	tc.starts = BlockStarts(o, tc.KVs)
	tc.offs = make([]int64, n)
	tc.isStart = make([]bool, n+1)
	tc.isRestart = make([]bool, n+1)
	tc.isStart[n], tc.isRestart[n] = true, true
	ri := tc.Cfg.RestartInterval
	if ri < 1 {
		ri = 16
	}
	for bi, s := range tc.starts {
		e := n
		if bi+1 < len(tc.starts) {
			e = tc.starts[bi+1]
		}
		tc.isStart[s] = true
		off, _ := o.R.OffsetOf(tc.KVs[s].K)
		for i := s; i < e; i++ {
			tc.offs[i] = off
			if (i-s)%ri == 0 {
				tc.isRestart[i] = true
			}
		}
	}
	if _, _, hi, ok := ExtremeKeys(tc.Cfg.Cmp, tc.KVs); ok {
		if off, err := o.R.OffsetOf(hi); err == nil {
			tc.dataEnd = off
		}
	}
}

func (tc *tcase) nBlocks() int {
	if len(tc.starts) == 0 {
		return 1
	}
	return len(tc.starts)
}

// nontrivial: >= 3 data blocks and some block with >= 2 restart points.
func (tc *tcase) nontrivial() bool {
	if len(tc.starts) < 3 {
		return false
	}
	for bi, s := range tc.starts {
		e := len(tc.KVs)
		if bi+1 < len(tc.starts) {
			e = tc.starts[bi+1]
		}
		if e-s > tc.Cfg.RestartInterval {
			return true
		}
	}
	return false
}

func (tc *tcase) hash() string {
	h := sha1.New()
	fmt.Fprintf(h, "%+v|%d|", tc.Cfg, len(tc.KVs))
	for _, kv := range tc.KVs {
		fmt.Fprintf(h, "%d:%d:", len(kv.K), len(kv.V))
		h.Write(kv.K)
		h.Write(kv.V)
	}
	return hex.EncodeToString(h.Sum(nil)[:10])
}

// view returns the sub-list selected by rs, its offset in KVs and whether Start > Limit.
func (tc *tcase) view(rs *RangeSpec) (view []KV, base int, inverted bool) {
	s, e := 0, len(tc.KVs)
	if rs != nil {
		if rs.HasStart {
			s = LowerBound(tc.KVs, tc.cmp, rs.Start)
		}
		if rs.HasLimit {
			e = LowerBound(tc.KVs, tc.cmp, rs.Limit)
		}
		if e < s {
			e = s
		}
		inverted = rs.HasStart && rs.HasLimit && tc.cmp.Compare(rs.Start, rs.Limit) > 0
	}
	return tc.KVs[s:e], s, inverted
}

// ---- per-case output, merged by the main goroutine in case order ----

type curCheck struct {
	Typ       string // build | order | open | probe | offsets | walk | retain | block | damage
	TC        *tcase
	Strict    opt.Strict
	Probe     []byte
	Probes    [][]byte
	RS        *RangeSpec
	Ops       []Op
	Keys      [][]byte
	InclLimit bool
	Dmg       *damageInput
	Expected  string
}

type viol struct {
	desc string
	cc   *curCheck
}

type caseOut struct {
	counts     map[string]int
	viols      []viol
	evalKey    string
	nontrivial bool
	evals      int
	sample     interface{}
	notes      []string
	cur        atomic.Value // *curCheck in flight: what a panic or a hang is attributed to
}

func newOut() *caseOut { return &caseOut{counts: map[string]int{}} }

func (o *caseOut) count(k string, n int) { o.counts[k] += n }
func (o *caseOut) setCur(cc *curCheck)   { o.cur.Store(cc) }
func (o *caseOut) current() *curCheck {
	if cc, ok := o.cur.Load().(*curCheck); ok {
		return cc
	}
	return nil
}
func (o *caseOut) note(s string) {
	if len(o.notes) < 2 {
		o.notes = append(o.notes, s)
	}
}
func (o *caseOut) violate(desc string, cc *curCheck) {
	if len(o.viols) < 3 {
		o.viols = append(o.viols, viol{desc, cc})
	}
}

func merge(res *vlib.Result, o *caseOut) {
	for _, k := range vlib.SortedKeys(o.counts) {
		res.Count(k, o.counts[k])
	}
	if o.evalKey != "" {
		res.Eval(o.evalKey, o.nontrivial)
	}
	for i := 0; i < o.evals; i++ {
		res.Eval("", false)
	}
	if o.sample != nil {
		res.Sample(o.sample)
	}
	for _, n := range o.notes {
		notes, _ := res.Extra["notes"].([]string)
		if len(notes) < 12 {
			res.Extra["notes"] = append(notes, n)
		}
	}
	for _, v := range o.viols {
		res.Violate(v.desc, v.cc.replay(v.desc))
	}
}

// ---- check 0: the writer refuses a key that is not greater than the previous one ----

// checkOrder appends tc.KVs (a prefix of a generated table) and then bad, a key <= the last key appended.
func checkOrder(tc *tcase, bad []byte, out *caseOut) {
	cc := &curCheck{Typ: "order", TC: tc, Probe: bad,
		Expected: "Append of a key that is not greater than the previous key returns an error and adds no entry"}
	out.setCur(cc)
	var buf bytes.Buffer
	w := table.NewWriter(&buf, tc.Cfg.Options(0), nil, 0)
	for i, kv := range tc.KVs {
		if err := w.Append(kv.K, kv.V); err != nil {
			out.violate(fmt.Sprintf("Append #%d (key %s): %v", i, short(kv.K), err), cc)
			return
		}
	}
	n := len(tc.KVs)
	if n == 0 {
		return
	}
	if err := w.Append(bad, []byte("v")); err == nil {
		out.violate(fmt.Sprintf("Append(%s) directly after Append(%s) is accepted: keys not in increasing order", short(bad), short(tc.KVs[n-1].K)), cc)
		return
	}
	if w.EntriesLen() != n {
		out.violate(fmt.Sprintf("EntriesLen()=%d after %d accepted and one refused Append", w.EntriesLen(), n), cc)
		return
	}
	out.count("writer_out_of_order_refusals_checked", 1)
}

// ---- check 1+2: exact lookups and first-key->= lookups ----

func isNotFound(err error) bool { return err == table.ErrNotFound && err == lerrors.ErrNotFound }

func roFor(key []byte) *opt.ReadOptions {
	if len(key)%3 == 0 {
		return &opt.ReadOptions{DontFillCache: true}
	}
	return nil
}

func probeAgree(tc *tcase, o *Opened, key []byte, out *caseOut) string {
	kvs, cmp, n := tc.KVs, tc.cmp, len(tc.KVs)
	i := LowerBound(kvs, cmp, key)
	present := i < n && cmp.Compare(kvs[i].K, key) == 0
	ro := roFor(key)
	if present {
		out.count("probes_present", 1)
	} else {
		out.count("probes_absent", 1)
	}
	// Get
	v, err := o.R.Get(key, ro)
	if present {
		if err != nil {
			return fmt.Sprintf("Get(%s) of a stored key: error %v", short(key), err)
		}
		if !sameBytes(v, kvs[i].V) {
			return fmt.Sprintf("Get(%s) = %s, stored value is %s", short(key), short(v), short(kvs[i].V))
		}
	} else {
		if err == nil {
			return fmt.Sprintf("Get(%s) of an absent key returned value %s", short(key), short(v))
		}
		if !isNotFound(err) {
			return fmt.Sprintf("Get(%s) of an absent key: error %v, expected ErrNotFound", short(key), err)
		}
		if len(v) != 0 {
			return fmt.Sprintf("Get(%s) = ErrNotFound together with value %s", short(key), short(v))
		}
	}
	// Find / FindKey, unfiltered: the first pair >= key
	rk, rv, err := o.R.Find(key, false, ro)
	if i < n {
		if err != nil {
			return fmt.Sprintf("Find(%s): error %v, expected pair %s", short(key), err, short(kvs[i].K))
		}
		if !sameBytes(rk, kvs[i].K) || !sameBytes(rv, kvs[i].V) {
			return fmt.Sprintf("Find(%s) = (%s,%s), expected first pair >= key (%s,%s)", short(key), short(rk), short(rv), short(kvs[i].K), short(kvs[i].V))
		}
	} else if !isNotFound(err) {
		return fmt.Sprintf("Find(%s) past the last key = (%s,%s,%v), expected ErrNotFound", short(key), short(rk), short(rv), err)
	}
	rk, err = o.R.FindKey(key, false, ro)
	if i < n {
		if err != nil || !sameBytes(rk, kvs[i].K) {
			return fmt.Sprintf("FindKey(%s) = (%s,%v), expected %s", short(key), short(rk), err, short(kvs[i].K))
		}
	} else if !isNotFound(err) {
		return fmt.Sprintf("FindKey(%s) past the last key = (%s,%v), expected ErrNotFound", short(key), short(rk), err)
	}
	// filtered: a stored key must be found; an absent key gives ErrNotFound or the first pair >= key
	rk, rv, err = o.R.Find(key, true, ro)
	switch {
	case err == nil && i < n && sameBytes(rk, kvs[i].K) && sameBytes(rv, kvs[i].V):
		if !present && tc.Cfg.FilterBits > 0 {
			out.count("filter_passed_absent_key", 1)
		}
	case isNotFound(err) && !present:
		if i < n && tc.Cfg.FilterBits > 0 {
			out.count("filter_rejected_absent_key", 1)
		}
	default:
		return fmt.Sprintf("Find(%s, filtered) = (%s,%s,%v); key stored=%v, first pair >= key is entry %d of %d", short(key), short(rk), short(rv), err, present, i, n)
	}
	rk, err = o.R.FindKey(key, true, ro)
	switch {
	case err == nil && i < n && sameBytes(rk, kvs[i].K):
	case isNotFound(err) && !present:
	default:
		return fmt.Sprintf("FindKey(%s, filtered) = (%s,%v); key stored=%v", short(key), short(rk), err, present)
	}
	// statistics: did the lookup have to fall through to the following block?
	if !present && n > 0 && tc.offs != nil {
		if off, err := o.R.OffsetOf(key); err == nil {
			if i < n && i > 0 && tc.isStart[i] && off != tc.offs[i] {
				out.count("probe_fallthrough_to_next_block", 1)
			}
			if i == n && off == tc.offs[n-1] {
				out.count("probe_after_last_key_inside_last_index_range", 1)
			}
		}
	}
	return ""
}

func checkProbe(tc *tcase, o *Opened, strict opt.Strict, key []byte, out *caseOut) {
	cc := &curCheck{Typ: "probe", TC: tc, Strict: strict, Probe: key,
		Expected: "Get = stored value or ErrNotFound; Find/FindKey = first pair >= key or ErrNotFound; filtered Find never hides a stored key"}
	out.setCur(cc)
	if d := probeAgree(tc, o, key, out); d != "" {
		out.violate(d, cc)
	}
}

// ---- check 3: approximate offsets ----

func sortKeys(cmp comparer.Comparer, keys [][]byte) [][]byte {
	s := append([][]byte{}, keys...)
	sort.SliceStable(s, func(i, j int) bool { return cmp.Compare(s[i], s[j]) < 0 })
	return s
}

func checkOffsets(tc *tcase, o *Opened, strict opt.Strict, probes [][]byte, out *caseOut) {
	cc := &curCheck{Typ: "offsets", TC: tc, Strict: strict, Probes: probes,
		Expected: "0 <= OffsetOf(k) <= file length, non-decreasing in k, 0 at the first key"}
	out.setCur(cc)
	sorted := sortKeys(tc.cmp, probes)
	var prev int64 = -1
	var prevKey []byte
	for _, p := range sorted {
		off, err := o.R.OffsetOf(p)
		if err != nil {
			out.violate(fmt.Sprintf("OffsetOf(%s): error %v", short(p), err), cc)
			return
		}
		if off < 0 || off > int64(len(tc.Data)) {
			out.violate(fmt.Sprintf("OffsetOf(%s) = %d outside [0,%d]", short(p), off, len(tc.Data)), cc)
			return
		}
		if off < prev {
			out.violate(fmt.Sprintf("OffsetOf decreases: OffsetOf(%s)=%d but OffsetOf(%s)=%d for a greater key", short(prevKey), prev, short(p), off), cc)
			return
		}
		prev, prevKey = off, p
	}
	out.count("offsetof_calls", len(sorted))
	if len(tc.KVs) > 0 {
		if off, err := o.R.OffsetOf(tc.KVs[0].K); err != nil || off != 0 {
			out.violate(fmt.Sprintf("OffsetOf(first key %s) = (%d,%v), expected 0", short(tc.KVs[0].K), off, err), cc)
			return
		}
		// a key's offset is never beyond the data region's end reported for a key after everything
		if tc.dataEnd >= 0 {
			if off, err := o.R.OffsetOf(tc.KVs[len(tc.KVs)-1].K); err != nil || off >= tc.dataEnd {
				out.violate(fmt.Sprintf("OffsetOf(last key) = (%d,%v), not below the end of data %d", off, err, tc.dataEnd), cc)
			}
		}
	}
}

// ---- check 4: iterators against the cursor ----

// walkStats counts what a movement list reaches on view (view = KVs[base:base+len]).
func walkStats(tc *tcase, view []KV, base int, ops []Op, out *caseOut) {
	c := NewCursor(view, tc.cmp)
	n := len(view)
	for j, op := range ops {
		out.counts["ops_"+OpNames[op.Kind]]++
		if j > 0 {
			pk := ops[j-1].Kind
			if c.Valid() && ((pk == OpNext && op.Kind == OpPrev) || (pk == OpPrev && op.Kind == OpNext)) && tc.isStart != nil {
				g := base + c.Pos
				if tc.isStart[g] || tc.isStart[g+1] {
					out.counts["reversal_at_block_boundary"]++
				}
				if tc.isRestart[g] || tc.isRestart[g+1] {
					out.counts["reversal_at_restart"]++
				}
				if (c.Pos == 0 || c.Pos == n-1) && (base > 0 || base+n < len(tc.KVs)) {
					out.counts["reversal_at_range_edge"]++
				}
			}
			if n > 0 && ((c.Pos == n && op.Kind == OpPrev) || (c.Pos == -1 && op.Kind == OpNext)) {
				out.counts["stepped_off_end_and_back"]++
			}
		}
		if op.Kind == OpSeek && tc.isStart != nil {
			i := LowerBound(view, tc.cmp, op.Key)
			if i < n && i > 0 && tc.isStart[base+i] && tc.cmp.Compare(view[i].K, op.Key) != 0 {
				out.counts["seek_between_blocks"]++
			}
		}
		c.Do(op)
	}
}

func checkWalk(tc *tcase, o *Opened, strict opt.Strict, rs *RangeSpec, ops []Op, out *caseOut) {
	cc := &curCheck{Typ: "walk", TC: tc, Strict: strict, RS: rs, Ops: ops,
		Expected: "every movement agrees with the reference cursor over the pairs with Start <= key < Limit; no iterator error"}
	out.setCur(cc)
	view, _, inverted := tc.view(rs)
	var ro *opt.ReadOptions
	if len(ops)%2 == 1 {
		ro = &opt.ReadOptions{DontFillCache: true}
	}
	it := o.R.NewIterator(rs.slice(), ro)
	d, idx := RunOps(it, tc.cmp, view, ops)
	err := it.Error()
	it.Release()
	if d == "" {
		return
	}
	if inverted && idx == len(ops) && err != nil && !lerrors.IsCorrupted(err) {
		out.count("range_inverted_reports_error", 1)
		return
	}
	if len(tc.KVs) == 0 && rs != nil && rs.HasStart && err != nil {
		// known oddity, not reported: the (only, empty) data block of an empty table, once sliced with a Start bound,
		// has riStart == restartsLen; a later Seek reads the restart count as an entry offset (1 > 0 = end of entries)
		// and flags "entries offset not aligned".  No pair is returned.
		out.count("suspicious_empty_table_sliced_iterator_error", 1)
		return
	}
	out.violate(fmt.Sprintf("iterator over %v: %s", rs, d), cc)
}

// ---- check 5: returned values survive later reads ----

func checkRetain(tc *tcase, o *Opened, strict opt.Strict, keys [][]byte, out *caseOut) {
	cc := &curCheck{Typ: "retain", TC: tc, Strict: strict, Keys: keys,
		Expected: "a value returned by Get/Find is unchanged after later reads"}
	out.setCur(cc)
	type kept struct {
		what string
		got  []byte
		want []byte
	}
	var held []kept
	for _, k := range keys {
		i := LowerBound(tc.KVs, tc.cmp, k)
		if i >= len(tc.KVs) {
			continue
		}
		if tc.cmp.Compare(tc.KVs[i].K, k) == 0 {
			if v, err := o.R.Get(k, nil); err == nil {
				held = append(held, kept{fmt.Sprintf("Get(%s)", short(k)), v, tc.KVs[i].V})
			}
		}
		if rk, rv, err := o.R.Find(k, false, nil); err == nil {
			held = append(held, kept{fmt.Sprintf("value of Find(%s)", short(k)), rv, tc.KVs[i].V})
			held = append(held, kept{fmt.Sprintf("key of Find(%s)", short(k)), rk, tc.KVs[i].K})
		}
		if rk, err := o.R.FindKey(k, false, nil); err == nil {
			held = append(held, kept{fmt.Sprintf("FindKey(%s)", short(k)), rk, tc.KVs[i].K})
		}
	}
	// later reads touching other blocks
	it := o.R.NewIterator(nil, nil)
	for j := 0; j < 64 && it.Next(); j++ {
	}
	it.Release()
	it = o.R.NewIterator(nil, nil)
	for j, ok := 0, it.Last(); ok && j < 32; j, ok = j+1, it.Prev() {
	}
	it.Release()
	for j := len(keys) - 1; j >= 0; j-- {
		o.R.Get(keys[j], nil)
		o.R.OffsetOf(keys[j])
	}
	for _, h := range held {
		if !sameBytes(h.got, h.want) {
			out.violate(fmt.Sprintf("%s reads %s after later reads, stored is %s", h.what, short(h.got), short(h.want)), cc)
			return
		}
	}
	out.count("retained_values_checked", len(held))
}

// ---- shared cache / pool: the other table is unaffected by reads of this one, and the reverse ----

func checkDecoy(tc *tcase, o *Opened, strict opt.Strict, out *caseOut) {
	if o.Decoy == nil {
		return
	}
	cc := &curCheck{Typ: "decoy", TC: tc, Strict: strict,
		Expected: "two tables sharing one block cache (different namespaces) and one buffer pool each read back exactly their own pairs"}
	out.setCur(cc)
	for pass := 0; pass < 2; pass++ {
		it := o.R.NewIterator(nil, nil)
		d, _ := RunOps(it, tc.cmp, tc.KVs, ScanOps(len(tc.KVs), pass == 0))
		it.Release()
		if d != "" {
			out.violate("table sharing cache/pool with another table: "+d, cc)
			return
		}
		it = o.Decoy.NewIterator(nil, nil)
		d, _ = RunOps(it, tc.cmp, tc.Decoy, ScanOps(len(tc.Decoy), pass == 0))
		it.Release()
		if d != "" {
			out.violate("second table on the shared cache/pool: "+d, cc)
			return
		}
		for i := range tc.Decoy {
			kv := tc.Decoy[(i*7+pass)%len(tc.Decoy)]
			if v, err := o.Decoy.Get(kv.K, nil); err != nil || !sameBytes(v, kv.V) {
				out.violate(fmt.Sprintf("second table on the shared cache/pool: Get(%s) = (%s,%v), stored %s", short(kv.K), short(v), err, short(kv.V)), cc)
				return
			}
			if i < len(tc.KVs) {
				kv = tc.KVs[(i*5+pass)%len(tc.KVs)]
				if v, err := o.R.Get(kv.K, nil); err != nil || !sameBytes(v, kv.V) {
					out.violate(fmt.Sprintf("table sharing cache/pool with another table: Get(%s) = (%s,%v), stored %s", short(kv.K), short(v), err, short(kv.V)), cc)
					return
				}
			}
		}
	}
	out.count("decoy_checks", 1)
}

// ---- check 6: one block driven directly ----

// blockView is the sub-list a block iterator sliced by rs must present.  With inclLimit (the index
// block rule) the entry at the first key >= Limit is included as well.
func blockView(kvs []KV, cmp comparer.Comparer, rs *RangeSpec, inclLimit bool) []KV {
	n := len(kvs)
	s, e := 0, n
	if rs != nil && rs.HasStart {
		s = LowerBound(kvs, cmp, rs.Start)
	}
	if rs != nil && rs.HasLimit {
		j := LowerBound(kvs, cmp, rs.Limit)
		if j < s {
			j = s
		}
		if j < n {
			if !inclLimit {
				e = j
			} else if j+1 < n {
				e = j + 1
			}
		}
	}
	return kvs[s:e]
}

func checkBlock(tc *tcase, rs *RangeSpec, inclLimit bool, ops []Op, out *caseOut) {
	cc := &curCheck{Typ: "block", TC: tc, RS: rs, InclLimit: inclLimit, Ops: ops,
		Expected: "block iterator agrees with the reference cursor over the block's entries (restricted to the slice)"}
	out.setCur(cc)
	keys := make([][]byte, len(tc.KVs))
	vals := make([][]byte, len(tc.KVs))
	for i, kv := range tc.KVs {
		keys[i], vals[i] = kv.K, kv.V
	}
	data, err := table.VerifBlockBuild(tc.Cfg.RestartInterval, keys, vals)
	if err != nil {
		out.violate(fmt.Sprintf("block build: %v", err), cc)
		return
	}
	it, err := table.VerifBlockIter(tc.cmp, data, rs.slice(), inclLimit)
	if err != nil {
		out.violate(fmt.Sprintf("block open: %v", err), cc)
		return
	}
	view := blockView(tc.KVs, tc.cmp, rs, inclLimit)
	d, _ := RunOps(it, tc.cmp, view, ops)
	ierr := it.Error()
	it.Release()
	if d == "" {
		return
	}
	if len(tc.KVs) == 0 && rs != nil && rs.HasStart && ierr != nil {
		out.count("suspicious_empty_block_sliced_iterator_error", 1)
		return
	}
	out.violate(fmt.Sprintf("block iterator (restart interval %d, slice %v, inclLimit=%v): %s", tc.Cfg.RestartInterval, rs, inclLimit, d), cc)
}
