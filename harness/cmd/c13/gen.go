// c13: sorted-table writer/reader.  gen.go: case types and generators shared by the (P) oracle
// (main.go, checks.go, damage.go) and the (K) case emitter (kcases.go).
package main

import (
	"bytes"
	"fmt"
	"sort"

	"github.com/syndtr/goleveldb/leveldb/cache"
	"github.com/syndtr/goleveldb/leveldb/comparer"
	"github.com/syndtr/goleveldb/leveldb/filter"
	"github.com/syndtr/goleveldb/leveldb/opt"
	"github.com/syndtr/goleveldb/leveldb/storage"
	"github.com/syndtr/goleveldb/leveldb/table"
	"github.com/syndtr/goleveldb/leveldb/util"
	"verifharness/lib/vlib"
)

// KV is one table entry.
type KV struct{ K, V []byte }

// TableCfg is everything that parametrises writing and opening one table.
type TableCfg struct {
	Cmp             int // vlib.ComparerByID id 0..3 (4 = local reverse-bytewise comparer, (P) only, never produced by GenCfg)
	BlockSize       int
	RestartInterval int
	Snappy          bool
	FilterBits      int // 0 = no filter, else filter.NewBloomFilter(bits)
	FilterBaseLg    int // 0 = default
	Cache           bool
	CacheCap        int
	BPool           bool
}

// CmpReverse is a comparer id understood only by this command: bytewise order reversed, never shortens.
// Under it a key may be a strict prefix of its predecessor ("aaa" < "aa" < "a").
const CmpReverse = 4

type reverseCmp struct{}

func (reverseCmp) Name() string                      { return "verif.c13.Reverse" }
func (reverseCmp) Compare(a, b []byte) int           { return bytes.Compare(b, a) }
func (reverseCmp) Separator(dst, a, b []byte) []byte { return nil }
func (reverseCmp) Successor(dst, b []byte) []byte    { return nil }

// CmpByID extends vlib.ComparerByID with CmpReverse.
func CmpByID(id int) comparer.Comparer {
	if id == CmpReverse {
		return reverseCmp{}
	}
	return vlib.ComparerByID(id)
}

func (c TableCfg) Options(strict opt.Strict) *opt.Options {
	o := &opt.Options{
		Comparer:             CmpByID(c.Cmp),
		BlockSize:            c.BlockSize,
		BlockRestartInterval: c.RestartInterval,
		Compression:          opt.NoCompression,
		FilterBaseLg:         c.FilterBaseLg,
		Strict:               strict,
	}
	if c.Snappy {
		o.Compression = opt.SnappyCompression
	}
	if c.FilterBits > 0 {
		o.Filter = filter.NewBloomFilter(c.FilterBits)
	}
	return o
}

// Shapes of key/value sets.
const (
	ShapeEmpty = iota
	ShapeSingle
	ShapeLongPrefix
	ShapeEmptyValues
	ShapeBigEntries
	ShapeRandom
	ShapeTiny
	ShapeDense
	ShapePrefixChain
	NumShapes
)

var ShapeNames = [NumShapes]string{"empty", "single", "long_prefix", "empty_values", "big_entries", "random", "tiny", "dense", "prefix_chain"}

// GenShape picks a shape with the weights used by the table runs.
func GenShape(r *vlib.RNG) int {
	return r.Pick(1, 2, 5, 3, 3, 7, 2, 7, 3)
}

var bigBlockSizes = []int{16, 64, 100, 256, 512, 1024}

func genCount(r *vlib.RNG) int {
	switch r.Pick(15, 35, 35, 10, 5) {
	case 0:
		return r.Range(1, 8)
	case 1:
		return r.Range(9, 30)
	case 2:
		return r.Range(31, 60)
	case 3:
		return r.Range(61, 150)
	default:
		return r.Range(151, 400)
	}
}

func genValue(r *vlib.RNG) []byte {
	switch r.Pick(10, 70, 15, 5) {
	case 0:
		return []byte{}
	case 1:
		return r.Bytes(r.Range(1, 24), nil)
	case 2:
		return r.Bytes(r.Range(1, 40), []byte("xyz"))
	default:
		return r.Bytes(r.Range(60, 300), []byte("0123456789abcdef"))
	}
}

var edgeAlphabet = []byte{0x00, 0x01, 0x54, 0x55, 0x56, 0xaa, 0xfe, 0xff, 'a', 'b'}

func genRandomKey(r *vlib.RNG) []byte {
	switch r.Pick(1, 5, 5, 3, 2) {
	case 0:
		return []byte{}
	case 1:
		return r.Bytes(r.Range(1, 12), nil)
	case 2:
		return r.Bytes(r.Range(1, 8), edgeAlphabet)
	case 3:
		return r.Bytes(r.Range(1, 5), []byte{0x00, 0xff})
	default:
		return r.Bytes(r.Range(1, 10), []byte("abcdefgh"))
	}
}

// genKeys returns a set of distinct keys (unsorted).
func genKeys(r *vlib.RNG, shape int, n int) [][]byte {
	seen := map[string]bool{}
	var keys [][]byte
	add := func(k []byte) {
		if !seen[string(k)] {
			seen[string(k)] = true
			keys = append(keys, k)
		}
	}
	switch shape {
	case ShapeLongPrefix:
		// one to three long prefixes that themselves share a sub-prefix; short suffixes, including the bare prefix.
		base := r.Bytes(r.Range(20, 60), []byte("pqrs\x00\xff"))
		nPre := r.Range(1, 3)
		pres := [][]byte{base}
		for i := 1; i < nPre; i++ {
			p := append([]byte{}, base[:r.Range(len(base)/2, len(base))]...)
			p = append(p, r.Bytes(r.Range(1, 6), []byte("tuv"))...)
			pres = append(pres, p)
		}
		alpha := [][]byte{[]byte("ab"), []byte("abc"), {0x00, 0x01, 0xff}, nil}[r.Intn(4)]
		for tries := 0; len(keys) < n && tries < 20*n+20; tries++ {
			p := pres[r.Intn(len(pres))]
			k := append(append([]byte{}, p...), r.Bytes(r.Range(0, 4), alpha)...)
			add(k)
		}
	case ShapePrefixChain:
		// every key extends an earlier key: "a","aa","aaa", with occasional branches.
		c := []byte("a\x00\xffz")[r.Intn(4)]
		cur := []byte{}
		if r.Bool() {
			add([]byte{})
		}
		for tries := 0; len(keys) < n && tries < 20*n+20; tries++ {
			switch r.Pick(6, 2, 1) {
			case 0:
				cur = append(append([]byte{}, cur...), c)
			case 1:
				cur = append(append([]byte{}, cur...), r.Bytes(r.Range(1, 2), []byte{c, c + 1, 'm'})...)
			default:
				if len(keys) > 0 {
					cur = append([]byte{}, keys[r.Intn(len(keys))]...)
				}
				cur = append(cur, r.Bytes(1, []byte{c, c + 1, 'm'})...)
			}
			if len(cur) > 120 {
				cur = append([]byte{}, cur[:r.Range(0, 3)]...)
			}
			add(cur)
		}
	case ShapeDense:
		// most strings over a 2-3 letter alphabet up to a small length: neighbours leave no room for a
		// shorter separator, and between-keys probes (k+"\x00") exist.
		alpha := [][]byte{[]byte("ab"), []byte("abc"), {0x00, 0x01}, {0xfe, 0xff}, {0x00, 0x7f, 0xff}, {0x54, 0x55, 0x56}}[r.Intn(6)]
		maxLen := 4
		if len(alpha) == 2 {
			maxLen = r.Range(4, 6)
		} else {
			maxLen = r.Range(3, 4)
		}
		keep := r.Range(4, 9) // out of 10
		var all [][]byte
		var rec func(p []byte)
		rec = func(p []byte) {
			if len(p) > 0 || r.Chance(1, 3) {
				all = append(all, append([]byte{}, p...))
			}
			if len(p) == maxLen {
				return
			}
			for _, ch := range alpha {
				rec(append(append([]byte{}, p...), ch))
			}
		}
		rec(nil)
		for _, k := range all {
			if r.Chance(keep, 10) {
				add(k)
			}
		}
		// cap at n by dropping a random subset, keeping density locally (drop a contiguous tail of the shuffled set would
		// lose density; instead keep a contiguous window of the enumeration order).
		if len(keys) > n {
			s := r.Intn(len(keys) - n + 1)
			keys = keys[s : s+n]
		}
	case ShapeTiny:
		for tries := 0; len(keys) < n && tries < 100; tries++ {
			add(r.Bytes(r.Range(0, 3), []byte("ab\x00\xff")))
		}
	case ShapeBigEntries:
		for tries := 0; len(keys) < n && tries < 20*n+20; tries++ {
			if r.Chance(1, 10) {
				add(r.Bytes(r.Range(100, 300), []byte("kK"))) // key alone larger than small blocks
			} else {
				add(r.Bytes(r.Range(1, 8), []byte("abcdefgh")))
			}
		}
	default: // ShapeRandom, ShapeEmptyValues, ShapeSingle
		for tries := 0; len(keys) < n && tries < 20*n+20; tries++ {
			add(genRandomKey(r))
		}
	}
	return keys
}

// GenKVs returns a strictly increasing (under the comparer) list of pairs of the given shape.
func GenKVs(r *vlib.RNG, cmpID int, shape int) []KV { return GenKVsBS(r, cmpID, shape, 0) }

// GenKVsBS is GenKVs with the block size the big entries are measured against (0 = pick one).
func GenKVsBS(r *vlib.RNG, cmpID int, shape int, blockSize int) []KV {
	cmp := CmpByID(cmpID)
	if blockSize <= 0 {
		blockSize = bigBlockSizes[r.Intn(len(bigBlockSizes))]
	}
	var keys [][]byte
	n := genCount(r)
	switch shape {
	case ShapeEmpty:
		return []KV{}
	case ShapeSingle:
		if r.Chance(1, 3) {
			keys = [][]byte{{}}
		} else {
			keys = genKeys(r, ShapeRandom, 1)
		}
	case ShapeTiny:
		keys = genKeys(r, shape, r.Range(2, 5))
	case ShapeBigEntries:
		if n > 40 {
			n = r.Range(3, 40)
		}
		keys = genKeys(r, shape, n)
	default:
		keys = genKeys(r, shape, n)
	}
	sort.Slice(keys, func(i, j int) bool { return cmp.Compare(keys[i], keys[j]) < 0 })
	kvs := make([]KV, len(keys))
	allEmpty := shape == ShapeEmptyValues && r.Bool()
	nBig := 0
	for i, k := range keys {
		var v []byte
		switch shape {
		case ShapeEmptyValues:
			if allEmpty || r.Bool() {
				v = []byte{}
			} else {
				v = genValue(r)
			}
		case ShapeBigEntries:
			if nBig < 12 && r.Chance(1, 3) {
				bs := blockSize
				if bs > 2048 {
					bs = 2048
				}
				v = r.Bytes(r.Range(bs, 3*bs), []byte("VW0123"))
				nBig++
			} else {
				v = genValue(r)
			}
		case ShapeSingle:
			switch r.Intn(3) {
			case 0:
				v = []byte{}
			case 1:
				v = genValue(r)
			default:
				v = r.Bytes(r.Range(blockSize, 2*blockSize), nil)
			}
		default:
			v = genValue(r)
		}
		kvs[i] = KV{k, v}
	}
	return kvs
}

var (
	cfgBlockSizes       = []int{1, 16, 64, 100, 256, 512, 1024, 4096}
	cfgRestartIntervals = []int{1, 2, 3, 4, 5, 16}
	cfgFilterBaseLgs    = []int{0, 1, 3, 5, 8, 11}
	cfgCacheCaps        = []int{0, 100, 4096, 1 << 20}
)

// GenCfg draws a table configuration, biased to small blocks.
func GenCfg(r *vlib.RNG) TableCfg {
	c := TableCfg{Cmp: r.Intn(vlib.NumComparers)}
	c.BlockSize = cfgBlockSizes[r.Pick(2, 3, 5, 5, 5, 3, 2, 1)]
	c.RestartInterval = cfgRestartIntervals[r.Pick(3, 4, 4, 3, 2, 3)]
	c.Snappy = r.Bool()
	if r.Bool() {
		c.FilterBits = r.Range(1, 20)
	}
	c.FilterBaseLg = cfgFilterBaseLgs[r.Intn(len(cfgFilterBaseLgs))]
	if r.Bool() {
		c.Cache = true
		c.CacheCap = cfgCacheCaps[r.Intn(len(cfgCacheCaps))]
	}
	c.BPool = r.Bool()
	return c
}

// BuildTable writes the pairs with the table writer and returns the file bytes.
func BuildTable(cfg TableCfg, kvs []KV) ([]byte, error) {
	var buf bytes.Buffer
	w := table.NewWriter(&buf, cfg.Options(0), nil, 0)
	// "It is safe to modify the contents of the arguments after Append returns": the pairs are handed over in two
	// buffers that are overwritten after every call and reused for the next pair.
	var kbuf, vbuf []byte
	for i, kv := range kvs {
		kbuf = append(kbuf[:0], kv.K...)
		vbuf = append(vbuf[:0], kv.V...)
		err := w.Append(kbuf, vbuf)
		for j := range kbuf {
			kbuf[j] ^= 0xa5
		}
		for j := range vbuf {
			vbuf[j] ^= 0x5a
		}
		if err != nil {
			return nil, fmt.Errorf("Append #%d (key %x): %v", i, kv.K, err)
		}
		if w.EntriesLen() != i+1 {
			return nil, fmt.Errorf("EntriesLen()=%d after %d appends", w.EntriesLen(), i+1)
		}
	}
	if err := w.Close(); err != nil {
		return nil, fmt.Errorf("Close: %v", err)
	}
	if w.EntriesLen() != len(kvs) {
		return nil, fmt.Errorf("EntriesLen()=%d, appended %d", w.EntriesLen(), len(kvs))
	}
	if w.BytesLen() != buf.Len() {
		return nil, fmt.Errorf("BytesLen()=%d, written %d bytes", w.BytesLen(), buf.Len())
	}
	return buf.Bytes(), nil
}

// Opened is a table reader plus what must be torn down with it.
type Opened struct {
	R     *table.Reader
	Close func()
	Decoy *table.Reader // a second table sharing R's block cache (other namespace) and buffer pool, or nil
}

// OpenTable opens the file bytes with the table reader under cfg (cache / buffer pool) and the strict flags.
func OpenTable(cfg TableCfg, data []byte, strict opt.Strict) (*Opened, error) {
	return OpenTableWithDecoy(cfg, data, strict, nil)
}

// OpenTableWithDecoy is OpenTable; when decoyData is not nil a second table is opened first on the same block
// cache (namespace 2) and buffer pool and read through once, so that the shared cache and pool hold blocks of
// another table at the same offsets.
func OpenTableWithDecoy(cfg TableCfg, data []byte, strict opt.Strict, decoyData []byte) (*Opened, error) {
	var cg, dg *cache.NamespaceGetter
	var c *cache.Cache
	if cfg.Cache {
		c = cache.NewCache(cache.NewLRU(cfg.CacheCap))
		cg = &cache.NamespaceGetter{Cache: c, NS: 1}
		dg = &cache.NamespaceGetter{Cache: c, NS: 2}
	}
	var bp *util.BufferPool
	if cfg.BPool {
		bp = util.NewBufferPool(cfg.BlockSize + 5)
	}
	var decoy *table.Reader
	closeAll := func(r *table.Reader) {
		if r != nil {
			r.Release()
		}
		if decoy != nil {
			decoy.Release()
		}
		if c != nil {
			c.Close(false)
		}
	}
	if decoyData != nil {
		d, err := table.NewReader(bytes.NewReader(decoyData), int64(len(decoyData)), storage.FileDesc{Type: storage.TypeTable, Num: 2}, dg, bp, cfg.Options(strict))
		if err != nil {
			closeAll(nil)
			return nil, fmt.Errorf("decoy table: %v", err)
		}
		decoy = d
		it := d.NewIterator(nil, nil)
		for it.Next() {
		}
		it.Release()
	}
	r, err := table.NewReader(bytes.NewReader(data), int64(len(data)), storage.FileDesc{Type: storage.TypeTable, Num: 1}, cg, bp, cfg.Options(strict))
	if err != nil {
		closeAll(nil)
		return nil, err
	}
	return &Opened{R: r, Decoy: decoy, Close: func() { closeAll(r) }}, nil
}

// BlockStarts returns the entry indexes at which a new data block starts, discovered through OffsetOf.
func BlockStarts(o *Opened, kvs []KV) []int {
	var starts []int
	var prev int64 = -1
	for i, kv := range kvs {
		off, err := o.R.OffsetOf(kv.K)
		if err != nil {
			continue
		}
		if i == 0 || off != prev {
			starts = append(starts, i)
		}
		prev = off
	}
	return starts
}

// ExtremeKeys returns a key ordered before every key of kvs and one after every key (and after any
// separator/successor the writer can derive from them), when such keys exist for the comparer.
func ExtremeKeys(cmpID int, kvs []KV) (before []byte, hasBefore bool, beyond []byte, hasBeyond bool) {
	cmp := CmpByID(cmpID)
	L := 0
	for _, kv := range kvs {
		if len(kv.K) > L {
			L = len(kv.K)
		}
	}
	var lo, hi []byte
	switch cmpID {
	case 0:
		lo, hi = []byte{}, bytes.Repeat([]byte{0xff}, L+1)
	case 1:
		lo, hi = []byte{}, bytes.Repeat([]byte{0x00}, L+1)
	case 2:
		lo, hi = []byte{}, bytes.Repeat([]byte{0xaa}, L+1)
	case 3:
		lo, hi = []byte{}, bytes.Repeat([]byte{0x00}, L+1)
	default:
		lo, hi = bytes.Repeat([]byte{0xff}, L+1), []byte{}
	}
	hasBefore = len(kvs) == 0 || cmp.Compare(lo, kvs[0].K) < 0
	hasBeyond = len(kvs) == 0 || cmp.Compare(hi, kvs[len(kvs)-1].K) > 0
	return lo, hasBefore, hi, hasBeyond
}
