// c06: the live table set is always a well-formed LSM tree — every installed version is re-read and checked
// in Go (P) and a sample is checked by the Coq boolean wf_versionb (K); every observed table compaction must have
// closed inputs (P); observed compactions, committed records and direct probes of getOverlaps/pickMemdbLevel are
// recomputed inside Coq by the picker/installer model Lsm/Pick.v (K: KPick, KFinish, KOverlaps, KMemLevel).
package main

import (
	"fmt"
	"strings"
	"sync"
	"sync/atomic"
	"time"

	"verifharness/lib/dbh"
	"verifharness/lib/vlib"
)

const (
	property = "C06"
	rule     = "random DB programs (writes, flushes, automatic/seek/manual compactions on sub-ranges, trivial moves, transaction commits, reopen) x option lattice x 5 comparers (4 injective; every fifth program under the non-injective ASCII-case-insensitive comparer: several spellings per user key, oracle keyed by equivalence class, bloom filter off); after EVERY installed version (commit hook) every live table is re-read and the C06 conditions are checked: file exists with recorded size, strictly ordered, recorded smallest/largest = first/last, level 0 newest first, deeper levels ordered and disjoint, shallower newer than deeper per user key; for EVERY table compaction the inputs must be closed on the version it was picked on (every next-level table overlapping the user-key hull of the source inputs is an input; at level 0 every level-0 table overlapping it too); non-trivial = a version with >=3 populated levels was installed; plus twin scenarios (writes, reopen, range compactions; run fault-free and with transient table faults armed before each range compaction; table contents per level, cuts and a full scan must agree; the builder of a whole-level compaction driven with and without faults must write the same tables) - a twin is non-trivial when an injected fault fired and the final version has >=2 levels; plus the LOOPS: directed scenarios (tiny CompactionTableSize / CompactionSourceLimitFactor / CompactionTotalSize, values far above the table size, 4 comparers) of write rounds each followed by CompactRange and/or a wait for quiescence under a watchdog - CompactRange must return within 20 s, afterwards every table overlapping the range must sit in ONE level >= 1 (judged on the version the retry loop ended with), background compaction must go idle (needCompaction false) within 20 s, a full scan must equal the map after each - a loop scenario is non-trivial when it ran a range compaction and reached a quiescent point; the same two oracles run after every CompactRange of the generated programs; plus deep-tree retry scenarios (3+ levels, deletion markers over values in several deeper tables; every populated level driven failure-free and under faults placed by the failure-free run's own operation counts; restore() cursors compared with the model after every failed attempt)"
	header   = "From GL Require Import Corr.C06Run."
	checkWf  = true
)

func nonTrivial(s map[string]int) bool { return s["max_levels"] >= 3 }

func tweakCfg(r *vlib.RNG, c *dbh.Cfg) {
	if r.Chance(1, 2) {
		c.TotalSize = 4096
		c.TableSize = 1024
	}
}

// plainHooks: what replays and the shrinker run with (oracles only, no case collection).
func plainHooks() dbh.Hooks { return dbh.LoopHooks(dbh.PickHooks(nil, nil, false, 1), nil, false) }

// runTwinPair runs one scenario fault-free and with faults and compares; it returns a failure text or "".
func runTwinPair(ts dbh.TwinSpec, col *dbh.PickCol, collect bool, res *vlib.Result) string {
	clean := dbh.RunTwin(ts, false, col, collect)
	faulty := dbh.RunTwin(ts, true, col, collect)
	res.Eval(fmt.Sprintf("twin-%d", ts.TwinSeed), faulty.FaultHits > 0 && len(clean.Levels) >= 2)
	res.Count("twin_scenarios", 1)
	res.Count("twin_fault_hits", faulty.FaultHits)
	if faulty.FaultHits > 0 {
		res.Count("twin_scenarios_with_fault_hits", 1)
	}
	res.Count(fmt.Sprintf("twin_final_levels_%d", len(clean.Levels)), 1)
	for _, k := range []string{"builder_drives", "builder_drive_failed_attempts", "builder_drive_resumes_from_snapshot", "table_compactions"} {
		res.Count("twin_"+k, faulty.Stats[k])
	}
	if col != nil {
		for _, c := range faulty.Cases {
			col.Add(c)
		}
	}
	return dbh.CompareTwins(clean, faulty)
}

func main() {
	w := dbh.DefaultWeights()
	w.Compact, w.Txn, w.Reopen, w.Get, w.Has = 8, 4, 4, 25, 10
	a := vlib.ParseArgs()
	res := vlib.NewResult(property, a.Out, rule)
	defer res.Write()
	if a.Replay != "" {
		if ts, ok := dbh.LoadTwinSpec(a.Replay); ok {
			for i := 0; i < 2; i++ {
				res.Eval(fmt.Sprintf("twin-replay%d", i), true)
				if d := runTwinPair(*ts, nil, false, res); d != "" {
					fmt.Println("replay fails:", d)
					res.Violate(d, ts)
					return
				}
			}
			fmt.Println("replay passes")
			return
		}
		if ds, ok := dbh.LoadDeepSpec(a.Replay); ok {
			for i := 0; i < 2; i++ {
				res.Eval(fmt.Sprintf("deep-replay%d", i), true)
				if dr := dbh.RunDeep(*ds, false); dr.Failure != "" {
					fmt.Println("replay fails:", dr.Failure)
					res.Violate(dr.Failure, ds)
					return
				}
			}
			fmt.Println("replay passes")
			return
		}
		if ls, ok := dbh.LoadLoopSpec(a.Replay); ok {
			for i := 0; i < 2; i++ {
				res.Eval(fmt.Sprintf("loop-replay%d", i), true)
				lr := dbh.RunLoop(*ls, nil, false)
				if lr.Failure != "" {
					fmt.Println("replay fails:", lr.Failure)
					res.ViolateKnown(lr.Failure, ls, lr.Known)
					return
				}
			}
			fmt.Println("replay passes")
			return
		}
		p, err := dbh.LoadProgram(a.Replay)
		if err != nil {
			fmt.Println("cannot load replay:", err)
			return
		}
		for i := 0; i < 3; i++ {
			rr, _ := dbh.RunPick(p, plainHooks(), checkWf, nil)
			res.Eval(fmt.Sprintf("replay%d", i), true)
			if d := dbh.Describe(rr); d != "" {
				fmt.Println("replay fails:", d)
				res.Violate(d, p)
				return
			}
		}
		fmt.Println("replay passes")
		return
	}
	nprog, nops := 480, 300
	caps := dbh.PickCaps{Pick: 600, Finish: 600, Overlaps: 400, MemLevel: 200, Wf: 240, Build: 160, Retry: 144}
	shards, kPerRun := 16, 4
	ntwins := 96
	ndeep := 40
	if a.Thorough() {
		ndeep = 400
	}
	if a.Thorough() {
		nprog, nops = 2000, 1200
		caps = dbh.PickCaps{Pick: 2400, Finish: 2400, Overlaps: 1600, MemLevel: 800, Wf: 1200, Build: 640, Retry: 576}
		shards = 64
		ntwins = 600
	}
	if strings.Contains(a.Extra, "search") && !a.Thorough() {
		nprog *= 4
		ntwins *= 4
		ndeep *= 4
	}
	col := dbh.NewPickCol(caps)
	nloops := 40
	loopCaps := map[string]int{"range": 96, "score": 120, "auto": 120}
	if a.Thorough() {
		nloops = 600
		loopCaps = map[string]int{"range": 400, "score": 500, "auto": 500}
	}
	if strings.Contains(a.Extra, "search") && !a.Thorough() {
		nloops *= 4
	}
	lcol := dbh.NewLoopCol(loopCaps)
	// the loops that drive table compactions, first: directed scenarios with tiny limits under a watchdog.  The known
	// shape (flat level limits) runs alone: a DB that never goes idle keeps the process-wide busy counter up.
	loopHangs := runLoops(a.Seed, nloops, lcol, res)
	if loopHangs >= 2 {
		// CompactRange or the background loop does not terminate: the generated programs (which call both without a
		// per-call watchdog) would only repeat that at 120 s apiece
		res.Count("programs_skipped_after_loop_hangs", 1)
		lcases, lcounts := lcol.Select()
		for k, v := range lcounts {
			res.Count(k, v)
		}
		res.WriteCases(header, "c06case", "mismatches06", lcases, 4)
		return
	}
	root := vlib.NewRNG(a.Seed)
	type job struct {
		i int
		r *vlib.RNG
	}
	jobs := make(chan job)
	var wg sync.WaitGroup
	var nShrunk int32 // failing runs taken up for shrinking and reporting (at most 6)
	for wk := 0; wk < 16; wk++ {
		wg.Add(1)
		go func() {
			defer wg.Done()
			for j := range jobs {
				r := j.r
				cfg := dbh.RandomCfg(r)
				tweakCfg(r, &cfg)
				pool := dbh.GenPool(r, r.Range(8, 60), r.Chance(1, 8))
				if dbh.ClassJob(j.i) {
					// non-injective comparer (dbh/cmpx.go): several spellings per user key, oracle keyed by class
					dbh.UseClassCmp(&cfg)
					pool = dbh.SpellPool(r, pool)
					res.Count("programs_casefold_comparer", 1)
				}
				p := dbh.GenProgram(r, cfg, pool, r.Range(nops/3, nops), w)
				p.Seed = a.Seed
				collectWf := j.i%2 == 0
				kr := r.Fork()
				rr, rn := dbh.RunPick(p, dbh.LoopHooks(dbh.PickHooks(col, kr, true, 16), lcol, true), checkWf, func(rn *dbh.Runner) {
					rn.CollectK = collectWf
					rn.KCap = kPerRun
				})
				if collectWf {
					for _, kc := range rn.KCases {
						if strings.HasPrefix(kc, "KWf ") {
							col.Add(dbh.KCand{Kind: "wf", Tags: []string{"k_wf"}, Text: "KL (" + kc + ")"})
						}
					}
				}
				for k, v := range rr.Stats {
					if k == "max_levels" || k == "max_live_snapshots" {
						res.Count("runs_with_"+k+fmt.Sprintf("_%d", v), 1)
					} else {
						res.Count(k, v)
					}
				}
				res.Eval(fmt.Sprintf("%d", j.i), nonTrivial(rr.Stats))
				if j.i < 2 {
					n := 4
					if len(p.Ops) < n {
						n = len(p.Ops)
					}
					res.Sample(map[string]interface{}{"cfg": cfg.String(), "ops": len(p.Ops), "first_ops": p.Ops[:n], "stats": rr.Stats})
				}
				d := dbh.Describe(rr)
				if d != "" {
					res.Count("runs_failed", 1)
				}
				if d != "" && atomic.AddInt32(&nShrunk, 1) <= 6 {
					q, d2 := dbh.ShrinkPick(p, plainHooks, checkWf, 20*time.Second)
					if d2 != "" {
						res.Violate(d2, q)
					} else {
						res.Violate(d+" ["+cfg.String()+"] (not shrunk)", p)
					}
				}
			}
		}()
	}
	for i := 0; i < nprog; i++ {
		jobs <- job{i, root.Fork()}
	}
	close(jobs)
	wg.Wait()
	// twins: the same scenario with and without transient table faults during its range compactions, and the builder
	// driven attempt by attempt under faults
	troot := vlib.NewRNG(a.Seed ^ 0x7717)
	tjobs := make(chan dbh.TwinSpec)
	var twg sync.WaitGroup
	var nTwinFail int32
	for wk := 0; wk < 8; wk++ {
		twg.Add(1)
		go func() {
			defer twg.Done()
			for ts := range tjobs {
				d := runTwinPair(ts, col, true, res)
				if d != "" {
					res.Count("twin_scenarios_failed", 1)
					if atomic.AddInt32(&nTwinFail, 1) <= 4 {
						res.Violate(d+fmt.Sprintf(" [twin scenario seed %d]", ts.TwinSeed), ts)
					}
				}
			}
		}()
	}
	for i := 0; i < ntwins && atomic.LoadInt32(&nTwinFail) < 4; i++ {
		// a change that makes compactions retry for ever costs a watchdog period per scenario: four failures are enough
		tjobs <- dbh.TwinSpec{TwinSeed: troot.Uint64() >> 1}
	}
	close(tjobs)
	twg.Wait()
	runDeeps(a.Seed, ndeep, col, res)
	cases, counts := col.Select(shards)
	for k, v := range counts {
		res.Count(k, v)
	}
	lcases, lcounts := lcol.Select()
	for k, v := range lcounts {
		res.Count(k, v)
	}
	cases = dbh.Interleave(cases, lcases, shards)
	res.WriteCases(header, "c06case", "mismatches06", cases, shards)
}

// runDeeps runs the directed deep-tree scenarios (retried compactions over deletion markers whose values live two or more
// levels down): builder drives (K + P) and one real range compaction under one transient fault (P).  A scenario is
// non-trivial when a failed driven attempt left base-level cursors beyond its snapshot's and the real compaction's fault fired.
func runDeeps(seed uint64, n int, col *dbh.PickCol, res *vlib.Result) {
	// consecutive seeds give vlib.NewRNG consecutive splitmix states (the same stream shifted by one): spread them first
	droot := vlib.NewRNG((seed + 0xdee9) * 0x2545f4914f6cdd1d)
	jobs := make(chan dbh.DeepSpec)
	var wg sync.WaitGroup
	var nFail int32
	for wk := 0; wk < 12; wk++ {
		wg.Add(1)
		go func() {
			defer wg.Done()
			for ds := range jobs {
				dr := dbh.RunDeep(ds, true)
				res.Eval(fmt.Sprintf("deep-%d", ds.DeepSeed), (ds.NoDrive || dr.Stats["deep_drives_with_cursors_rewound"] > 0) && dr.Stats["deep_compaction_fault_hits"] > 0)
				res.Count("deep_scenarios", 1)
				for k, v := range dr.Stats {
					res.Count(k, v)
				}
				for _, c := range dr.Cases {
					col.Add(c)
				}
				if dr.Failure != "" {
					res.Count("deep_scenarios_failed", 1)
					if atomic.AddInt32(&nFail, 1) <= 4 {
						res.Violate(dr.Failure+fmt.Sprintf(" [deep-tree scenario seed %d snapshot=%v drives=%v]", ds.DeepSeed, ds.Snapshot, !ds.NoDrive), ds)
					}
				}
			}
		}()
	}
	for i := 0; i < n && atomic.LoadInt32(&nFail) < 4; i++ {
		// one in five without the builder drives: only the real retried compaction and the DB-level oracle
		jobs <- dbh.DeepSpec{DeepSeed: droot.Uint64() >> 1, Snapshot: i%4 == 3, NoDrive: i%5 == 4}
	}
	close(jobs)
	wg.Wait()
}

// runLoops runs the directed loop scenarios; it returns the number of watchdog failures (calls that did not return,
// background compaction that did not go idle) that are not instances of a known finding.
func runLoops(seed uint64, n int, lcol *dbh.LoopCol, res *vlib.Result) int {
	lroot := vlib.NewRNG(seed ^ 0x100b5)
	report := func(ls dbh.LoopSpec, lr dbh.LoopResult) {
		for k, v := range lr.Stats {
			if strings.HasPrefix(k, "loop_") || k == "auto_picks_observed" || k == "table_compactions" || k == "trivial_moves" {
				res.Count("loops_"+strings.TrimPrefix(k, "loop_"), v)
			}
		}
		res.Count("loop_scenarios", 1)
		if lr.Failure != "" {
			res.Count("loop_scenarios_failed", 1)
			res.ViolateKnown(lr.Failure+fmt.Sprintf(" [loop scenario seed %d flat=%v]", ls.LoopSeed, ls.Flat), ls, lr.Known)
		}
	}
	// the known shape, alone
	flat := dbh.LoopSpec{LoopSeed: lroot.Uint64() >> 1, Flat: true}
	lr := dbh.RunLoop(flat, lcol, true)
	res.Eval("loop-flat", lr.Known != "")
	if lr.Known == "" && lr.Failure == "" {
		res.Count("loop_flat_limits_went_idle", 1)
	}
	report(flat, lr)
	var mu sync.Mutex
	hangs := 0
	jobs := make(chan dbh.LoopSpec)
	var wg sync.WaitGroup
	for wk := 0; wk < 8; wk++ {
		wg.Add(1)
		go func() {
			defer wg.Done()
			for ls := range jobs {
				lr := dbh.RunLoop(ls, lcol, true)
				mu.Lock()
				res.Eval(fmt.Sprintf("loop-%d", ls.LoopSeed), lr.Stats["loop_range_compactions"] > 0 && lr.Stats["loop_quiescent_points"] > 0)
				report(ls, lr)
				if lr.Hang && lr.Known == "" {
					hangs++
				}
				mu.Unlock()
			}
		}()
	}
	for i := 0; i < n; i++ {
		mu.Lock()
		h := hangs
		mu.Unlock()
		if h >= 3 {
			break
		}
		jobs <- dbh.LoopSpec{LoopSeed: lroot.Uint64() >> 1}
	}
	close(jobs)
	wg.Wait()
	return hangs
}
