// c06: the live table set is always a well-formed LSM tree — every installed version is re-read and checked
// in Go (P) and a sample is checked by the Coq boolean wf_versionb (K).
package main

import (
	"verifharness/lib/dbh"
	"verifharness/lib/vlib"
)

func main() {
	w := dbh.DefaultWeights()
	w.Compact, w.Txn, w.Reopen, w.Get, w.Has = 8, 4, 4, 25, 10
	dbh.Main(dbh.MainCfg{
		Property:   "C06",
		Rule:       "random DB programs (writes, flushes, automatic/seek/manual compactions on sub-ranges, trivial moves, transaction commits, reopen) x option lattice x 4 comparers; after EVERY installed version (commit hook) every live table is re-read and the C06 conditions are checked: file exists with recorded size, strictly ordered, recorded smallest/largest = first/last, level 0 newest first, deeper levels ordered and disjoint, shallower newer than deeper per user key; non-trivial = a version with >=3 populated levels was installed",
		Header:     "From GL Require Import Corr.C06Run.",
		QuickProgs: 560, QuickOps: 300, ThorProgs: 2000, ThorOps: 1200,
		Weights: w, CheckEvery: 16, CheckWf: true,
		KPrefixes: []string{"KWf"}, KCapQuick: 240, KCapThor: 1200, KPerRun: 4,
		NonTrivial: func(s map[string]int) bool { return s["max_levels"] >= 3 },
		TweakCfg: func(r *vlib.RNG, c *dbh.Cfg) {
			if r.Chance(1, 2) {
				c.TotalSize = 4096
				c.TableSize = 1024
			}
		},
	})
}
