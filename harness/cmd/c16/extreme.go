package main

import (
	"fmt"
	"math/bits"
	"runtime/debug"

	"github.com/syndtr/goleveldb/leveldb/filter"
	"github.com/syndtr/goleveldb/leveldb/util"
	"verifharness/lib/vlib"
)

// The argument values that the code before the repairs ("fix: filter: ..." commits) could not take: products
// keys * bitsPerKey at and above the uint32 wrap, and filters of 2^29 bytes and more for Contains.  The calls are REAL
// calls of the public API (filters of up to 512 MiB come out of Generate; the Contains buffers are zero pages the
// kernel never materialises except where probed).  They run one at a time.
//
// (K): the filters are too long to travel as bytes, so CBloomLen compares the LENGTH and the stored k of the generated
// filter with bloom_nbytes / bloom_k, and CHasBig gives Contains' filter as (length, nonzero bytes) and compares the
// answer with bloom_contains_fn (proved equal to bloom_contains on lists: C16_bloom_contains_fn_eq).
// (P): Generate returns, the length is min(keys*bitsPerKey, 2^32-8) bits rounded up to bytes (128-bit arithmetic here),
// every added key is found by Contains on the real filter; Contains finds exactly what a 64-bit reader of the format finds.

const maxInt = int(^uint(0) >> 1)
const minInt = -maxInt - 1

type xgenCase struct {
	Kind string `json:"kind"`
	Seed uint64 `json:"seed"`
	Bpk  int    `json:"bpk"`
	N    int    `json:"nkeys"`
}

// documented size of the filter for bpk >= 0: max(min(n*bpk, 2^32-8), 64) bits, rounded up to bytes, plus the k byte
func wantLen(bpk, n int) int {
	if bpk < 0 {
		bpk = 0
	}
	hi, lo := bits.Mul64(uint64(n), uint64(bpk))
	if hi != 0 || lo > 1<<32-8 {
		lo = 1<<32 - 8
	}
	if lo < 64 {
		lo = 64
	}
	return int((lo+7)/8) + 1
}

func checkXGen(c *ctx, xc xgenCase) []string {
	r := vlib.NewRNG(xc.Seed)
	keys := genKeySet(r, xc.N)
	others := genOthers(r, keys, 8)
	var cases []string
	ok := false
	guard(c, fmt.Sprintf("bloom Generate at bits-per-key %d with %d keys", xc.Bpk, len(keys)), xc, limitLong, func() {
		f := filter.NewBloomFilter(xc.Bpk)
		g := f.NewGenerator()
		for _, k := range keys {
			g.Add(k)
		}
		var b util.Buffer
		g.Generate(&b)
		flt := b.Bytes()
		if w := wantLen(xc.Bpk, len(keys)); len(flt) != w {
			c.res.Violate(fmt.Sprintf("bloom Generate at bits-per-key %d with %d keys wrote %d bytes; keys*bitsPerKey limited to 2^32-8 bits asks for %d", xc.Bpk, len(keys), len(flt), w), xc)
		}
		for _, k := range keys {
			if !f.Contains(flt, k) {
				c.res.Violate(fmt.Sprintf("false negative: key %x was added (bits-per-key %d, %d keys, filter %d bytes)", k, xc.Bpk, len(keys), len(flt)), xc)
				break
			}
			if len(flt) < 1<<29 && !refContains(flt, k) {
				c.res.Violate(fmt.Sprintf("false negative for another reader of the format: key %x (bits-per-key %d, %d keys, filter %d bytes)", k, xc.Bpk, len(keys), len(flt)), xc)
				break
			}
		}
		if xc.Bpk < 0 { // NewBloomFilter: 'A negative bitsPerKey reads as 0'
			f0 := filter.NewBloomFilter(0)
			if z, pan := generate(f0, f0.NewGenerator(), keys); pan || string(z) != string(flt) {
				c.res.Violate(fmt.Sprintf("bits-per-key %d does not read as 0: %d keys give filter %x, bits-per-key 0 gives %x", xc.Bpk, len(keys), flt, z), xc)
			}
		}
		fp := 0
		for _, k := range others {
			if f.Contains(flt, k) {
				fp++
			}
		}
		c.res.Count("xgen_false_positives_seen", fp)
		if len(flt) > 0 {
			cases = append(cases, fmt.Sprintf("CBloomLen (%d)%%Z %d %d %d", xc.Bpk, len(keys), len(flt), flt[len(flt)-1]))
		}
		c.res.Count(fmt.Sprintf("xgen_filter_MiB_%d", len(flt)>>20), 1)
		ok = true
	})
	if !ok {
		// the model never panics: a case that cannot agree
		cases = append(cases, fmt.Sprintf("CBloomLen (%d)%%Z %d 0 0", xc.Bpk, len(keys)))
	}
	c.res.Eval(fmt.Sprintf("xgen/%d/%d", xc.Bpk, xc.N), true)
	debug.FreeOSMemory()
	return cases
}

type xhasCase struct {
	Kind string `json:"kind"`
	Seed uint64 `json:"seed"`
	Len  int    `json:"len"`
	K    int    `json:"k"`
}

var xhasBuf []byte // zero outside the calls of checkXHas

// positions a reader of the format probes, computing in 64 bits (the C++ original: size_t bits; h % bits)
func refPositions(key []byte, nBytes int, k int) []uint64 {
	nBits := uint64(nBytes) * 8
	h := refBloomHash(key)
	delta := h>>17 | h<<15
	var out []uint64
	for j := 0; j < k; j++ {
		out = append(out, uint64(h)%nBits)
		h += delta
	}
	return out
}

func checkXHas(c *ctx, xc xhasCase) []string {
	if len(xhasBuf) < xc.Len {
		xhasBuf = nil
		debug.FreeOSMemory()
		xhasBuf = make([]byte, xc.Len)
	}
	flt := xhasBuf[:xc.Len]
	r := vlib.NewRNG(xc.Seed)
	members := genKeySet(r, 3)
	others := genOthers(r, members, 3)
	touched := map[int]bool{xc.Len - 1: true}
	flt[xc.Len-1] = byte(xc.K)
	kk := xc.K
	if kk > 30 {
		kk = 0
	}
	for _, m := range members {
		for _, p := range refPositions(m, xc.Len-1, kk) {
			flt[p/8] |= 1 << (p % 8)
			touched[int(p/8)] = true
		}
	}
	defer func() {
		for i := range touched {
			flt[i] = 0
		}
	}()
	var sparse []string
	for i := range touched {
		sparse = append(sparse, fmt.Sprintf("(%d, %d)", i, flt[i]))
	}
	sortStrings(sparse)
	f := filter.NewBloomFilter(10)
	var cases []string
	probe := func(key []byte, member bool) {
		ans, ok := false, false
		guard(c, fmt.Sprintf("bloom Contains on a filter of %d bytes (k=%d)", xc.Len, xc.K), xc, limitShort, func() {
			ans = f.Contains(flt, key)
			ok = true
		})
		obs := "None"
		if ok {
			obs = "(Some " + vlib.CoqBool(ans) + ")"
			want := true
			for _, p := range refPositions(key, xc.Len-1, kk) {
				if flt[p/8]&(1<<(p%8)) == 0 {
					want = false
				}
			}
			if ans != want {
				c.res.Violate(fmt.Sprintf("bloom Contains on a filter of %d bytes (k=%d) answers %v for key %x; the probed bits say %v (member: %v)", xc.Len, xc.K, ans, key, want, member), xc)
			}
		}
		cases = append(cases, fmt.Sprintf("CHasBig %d [%s] %s %s", xc.Len, joinSemi(sparse), vlib.CoqHex(key), obs))
	}
	for _, m := range members {
		probe(m, true)
	}
	for _, o := range others {
		probe(o, false)
	}
	c.res.Count(fmt.Sprintf("xhas_len_2p29%+d", xc.Len-1<<29), 1)
	c.res.Eval(fmt.Sprintf("xhas/%d/%d", xc.Len, xc.K), true)
	return cases
}

func sortStrings(s []string) {
	for i := 1; i < len(s); i++ {
		for j := i; j > 0 && (len(s[j]) < len(s[j-1]) || len(s[j]) == len(s[j-1]) && s[j] < s[j-1]); j-- {
			s[j], s[j-1] = s[j-1], s[j]
		}
	}
}

func runExtreme(c *ctx, r *vlib.RNG) []string {
	var cases []string
	type bn struct{ bpk, n int }
	// small results (the filter has the minimum length or a few KiB): every value the old lattice left out
	small := []bn{{minInt, 0}, {minInt, 1}, {minInt, 9}, {-(1 << 62), 3}, {-1000, 5}, {-100, 2}, {-1, 1}, {-1, 7}, {-1, 64}, {-1, 300}, {0, 0}, {0, 1}, {0, 65}, {0, 500},
		{1 << 31, 0}, {1 << 32, 0}, {1 << 62, 0}, {maxInt, 0}}
	// the product reaches the ceiling (512 MiB filters) or sits just below it
	big := []bn{{1 << 32, 1}, {1<<32 - 7, 1}, {maxInt, 1}, {1 << 31, 2}}
	if c.a.Thorough() || c.a.Extra == "search" {
		big = append(big, []bn{{1 << 31, 1}, {1<<32 - 8, 1}, {1<<32 - 1, 1}, {1 << 62, 1}, {1 << 62, 4}, {maxInt, 3}, {1<<33 + 7, 1}, {429496730, 10}, {613566757, 7}, {1 << 30, 5}, {1 << 61, 8}}...)
	} else {
		big = append(big, []bn{{1 << 62, 4}, {429496730, 10}}[r.Intn(2)])
	}
	for _, x := range append(small, big...) {
		cases = append(cases, checkXGen(c, xgenCase{"xgen", r.Uint64(), x.bpk, x.n})...)
	}
	lens := []int{1<<29 + 1, 1<<29 + 2, 1 << 29}
	if c.a.Thorough() || c.a.Extra == "search" {
		lens = append(lens, 1<<29-1, 1<<29+9, 1<<30+5)
	}
	for _, l := range lens {
		for _, k := range []int{1, 6, 30, 31}[:2+r.Intn(3)] {
			cases = append(cases, checkXHas(c, xhasCase{"xhas", r.Uint64(), l, k})...)
		}
	}
	xhasBuf = nil
	debug.FreeOSMemory()
	return cases
}
