package main

import "verifharness/lib/vlib"

func runGolden(c *ctx, r *vlib.RNG) []string { return nil }
