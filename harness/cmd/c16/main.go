// c16: filters never hide a stored key.
//
//	(P) on the implementation: no false negative for every added key (bloom generator/Contains, all
//	    bits-per-key 1..64, key sets 0..10^4), filters/tables written by a reference implementation of
//	    the format or by the pinned tree stay readable (and vice versa), every stored key of a table
//	    spanning many filter partitions is found with the filter on, and DB programs replayed under
//	    different filter settings give identical Get/Has/iteration results.
//	(K) emits util.Hash values, generator output bytes, Contains answers (members and non-members),
//	    filter blocks of tables written by table.Writer and the reader's filter decisions as Coq
//	    cases for Codec/Bloom.v + Codec/FilterBlock.v.
package main

import (
	"encoding/hex"
	"encoding/json"
	"fmt"
	"os"
	"sync"
	"time"

	"verifharness/lib/vlib"
)

type ctx struct {
	a     vlib.Args
	res   *vlib.Result
	mu    sync.Mutex
	cases []string // (K) cases, in deterministic order (sections append under mu in a fixed order)
}

func (c *ctx) addCases(cs []string) {
	c.mu.Lock()
	c.cases = append(c.cases, cs...)
	c.mu.Unlock()
}

func hx(b []byte) string { return hex.EncodeToString(b) }

func hxs(ks [][]byte) []string {
	out := make([]string, len(ks))
	for i, k := range ks {
		out[i] = hx(k)
	}
	return out
}

// guard runs f, turning a panic or a hang of the implementation into a violation.
func guard(c *ctx, what string, rep interface{}, limit time.Duration, f func()) {
	done := make(chan struct{})
	go func() {
		defer close(done)
		defer func() {
			if p := recover(); p != nil {
				c.res.Violate(fmt.Sprintf("%s: panic: %v", what, p), rep)
			}
		}()
		f()
	}()
	select {
	case <-done:
	case <-time.After(limit):
		c.res.Violate(fmt.Sprintf("%s: no answer within %v", what, limit), rep)
	}
}

func main() {
	a := vlib.ParseArgs()
	res := vlib.NewResult("C16", a.Out, "hash inputs (lengths 0..40 over every residue mod 4, bytes >= 0x80); key sets (sizes 0..10^4, arbitrary bytes/lengths incl. empty, near-duplicates) x bits-per-key 1..64 exhaustively (+ 0, negative, >255, int-overflowing); tables written by table.Writer (raw and internal-key/iFilter, FilterBaseLg 1..12/default/large, block sizes 16..4096); DB programs replayed under 8 filter settings; non-trivial = a table spanning >= 3 filter partitions with >= 1 empty partition, a key set with >= 2 keys, a DB program whose tables were consulted through a filter, a non-empty hash input, a filter of >= 2 bytes; distinct by (section, parameters, seed)")
	defer res.Write()
	c := &ctx{a: a, res: res}

	if a.Extra == "gengolden" {
		genGolden()
		return
	}
	if a.Replay != "" {
		replay(c, a.Replay)
		return
	}

	// Sections run concurrently; each derives its own RNG stream from the seed and returns its (K)
	// cases, which are concatenated in a fixed order.
	type section struct {
		name string
		run  func(c *ctx, r *vlib.RNG) []string
	}
	secs := []section{
		{"hash", runHash}, {"bloom", runBloom}, {"has", runHas}, {"table", runTables}, {"golden", runGolden}, {"db", runDB}, {"extreme", runExtreme},
	}
	root := vlib.NewRNG(a.Seed)
	outs := make([][]string, len(secs))
	var wg sync.WaitGroup
	for i, s := range secs {
		r := root.Fork()
		wg.Add(1)
		go func(i int, s section, r *vlib.RNG) {
			defer wg.Done()
			t0 := time.Now()
			defer func() {
				if p := recover(); p != nil {
					res.Violate(fmt.Sprintf("section %s: panic: %v", s.name, p), map[string]interface{}{"kind": "section", "section": s.name, "seed": a.Seed})
				}
				res.Count("section_ms_"+s.name, int(time.Since(t0).Milliseconds()))
			}()
			outs[i] = s.run(c, r)
		}(i, s, r)
	}
	wg.Wait()
	var cases []string
	for _, o := range outs {
		cases = append(cases, o...)
	}
	// shuffle (deterministically) so that the 16 shards get similar work
	shards := 16
	sh := vlib.NewRNG(a.Seed ^ 0xc16)
	mixed := append([]string{}, cases...)
	for i := len(mixed) - 1; i > 0; i-- {
		j := sh.Intn(i + 1)
		mixed[i], mixed[j] = mixed[j], mixed[i]
	}
	res.WriteCases("From GL Require Import Corr.C16Run.\nFrom Coq Require Import ZArith.", "c16case", "mismatches", mixed, shards)
}

// replay re-runs the stored case; a violation is reported again if it still fails.
func replay(c *ctx, path string) {
	b, err := os.ReadFile(path)
	if err != nil {
		fmt.Fprintln(os.Stderr, "replay:", err)
		os.Exit(2)
	}
	var doc struct {
		Case json.RawMessage `json:"case"`
	}
	var kind struct {
		Kind string `json:"kind"`
	}
	if json.Unmarshal(b, &doc) != nil || json.Unmarshal(doc.Case, &kind) != nil {
		fmt.Fprintln(os.Stderr, "replay: not a C16 replay file")
		os.Exit(2)
	}
	switch kind.Kind {
	case "hash":
		var hc hashCase
		json.Unmarshal(doc.Case, &hc)
		checkHash(c, hc)
	case "bloom":
		var bc bloomCase
		json.Unmarshal(doc.Case, &bc)
		checkBloom(c, bc, false)
	case "table":
		var tc tblCase
		json.Unmarshal(doc.Case, &tc)
		checkTable(c, tc, false)
	case "golden":
		runGolden(c, vlib.NewRNG(1))
	case "db":
		var dc dbCase
		json.Unmarshal(doc.Case, &dc)
		checkDB(c, dc)
	case "xgen":
		var xc xgenCase
		json.Unmarshal(doc.Case, &xc)
		checkXGen(c, xc)
	case "xhas":
		var xc xhasCase
		json.Unmarshal(doc.Case, &xc)
		checkXHas(c, xc)
	case "has":
		var hc struct{ Filter, Key string }
		json.Unmarshal(doc.Case, &hc)
		flt, key := unhexOr(hc.Filter), unhexOr(hc.Key)
		rep := map[string]interface{}{"kind": "has", "filter": hc.Filter, "key": hc.Key}
		checkHas(c, flt, key, rep)
	default:
		fmt.Fprintln(os.Stderr, "replay: unknown case kind", kind.Kind)
		os.Exit(2)
	}
	c.res.Count("replayed_"+kind.Kind, 1)
}
