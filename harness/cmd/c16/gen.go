package main

import (
	"bytes"
	"encoding/binary"
	"sort"

	"verifharness/lib/vlib"
)

// genKey: arbitrary bytes and lengths, biased to the boundaries of Hash (every length residue
// mod 4, bytes >= 0x80) and to near-duplicates (prefix / extension / one-bit variants of pool keys).
func genKey(r *vlib.RNG, pool [][]byte) []byte {
	switch r.Pick(1, 3, 3, 3, 2, 3, 1, 2) {
	case 0:
		return []byte{}
	case 1: // short, all residues mod 4
		return r.Bytes(r.Range(1, 9), nil)
	case 2: // high bytes
		return r.Bytes(r.Range(1, 12), []byte{0x80, 0x81, 0xc3, 0xe2, 0xfe, 0xff, 0x7f})
	case 3: // variant of a pool key
		if len(pool) > 0 {
			p := append([]byte{}, pool[r.Intn(len(pool))]...)
			switch r.Intn(4) {
			case 0:
				return p[:r.Intn(len(p)+1)]
			case 1:
				return append(p, r.Bytes(r.Range(1, 3), nil)...)
			case 2:
				if len(p) > 0 {
					p[r.Intn(len(p))] ^= 1 << uint(r.Intn(8))
				}
				return p
			default:
				if len(p) > 0 {
					p[len(p)-1]++
				}
				return p
			}
		}
		fallthrough
	case 4: // text-like
		return r.Bytes(r.Range(1, 24), []byte("abcdefghijklmnopqrstuvwxyz0123456789_/"))
	case 5:
		return r.Bytes(r.Range(0, 40), nil)
	case 6:
		return r.Bytes(r.Range(41, 300), nil)
	default: // zero / 0xff runs
		return bytes.Repeat([]byte{byte(0xff * r.Intn(2))}, r.Range(1, 17))
	}
}

// genKeySet: n distinct keys (n may come out smaller when the generator keeps colliding).
func genKeySet(r *vlib.RNG, n int) [][]byte {
	seen := map[string]bool{}
	var ks [][]byte
	var pool [][]byte
	sequential := r.Chance(1, 6)
	for tries := 0; len(ks) < n && tries < 4*n+16; tries++ {
		var k []byte
		if sequential {
			k = make([]byte, 4)
			binary.LittleEndian.PutUint32(k, uint32(len(ks)))
			if r.Chance(1, 2) {
				k = append([]byte("key"), k...)
			}
		} else {
			k = genKey(r, pool)
		}
		if seen[string(k)] {
			if sequential {
				sequential = false
			}
			continue
		}
		seen[string(k)] = true
		ks = append(ks, k)
		if len(pool) < 32 {
			pool = append(pool, k)
		} else if r.Chance(1, 8) {
			pool[r.Intn(len(pool))] = k
		}
	}
	return ks
}

// near-miss probes for a key set: keys not in the set but close to members
func genOthers(r *vlib.RNG, ks [][]byte, n int) [][]byte {
	seen := map[string]bool{}
	for _, k := range ks {
		seen[string(k)] = true
	}
	var out [][]byte
	for tries := 0; len(out) < n && tries < 8*n+8; tries++ {
		k := genKey(r, ks)
		if seen[string(k)] {
			continue
		}
		seen[string(k)] = true
		out = append(out, k)
	}
	return out
}

func sortBytes(ks [][]byte) {
	sort.Slice(ks, func(i, j int) bool { return bytes.Compare(ks[i], ks[j]) < 0 })
}

func hexList(ks [][]byte) []string {
	out := make([]string, len(ks))
	for i, k := range ks {
		out[i] = vlib.CoqHex(k)
	}
	return out
}
