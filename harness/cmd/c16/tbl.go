package main

import (
	"bytes"
	"encoding/binary"
	"fmt"

	"github.com/syndtr/goleveldb/leveldb"
	"github.com/syndtr/goleveldb/leveldb/comparer"
	"github.com/syndtr/goleveldb/leveldb/filter"
	"github.com/syndtr/goleveldb/leveldb/opt"
	"github.com/syndtr/goleveldb/leveldb/storage"
	"github.com/syndtr/goleveldb/leveldb/table"
	"verifharness/lib/vlib"
)

// icmp is the DB's internal-key comparer, reached through the verif exports, as a comparer.Comparer.
type icmp struct{ u comparer.Comparer }

func (c icmp) Name() string                      { return "leveldb.InternalKeyComparator" }
func (c icmp) Compare(a, b []byte) int           { return leveldb.VerifICompare(c.u, a, b) }
func (c icmp) Separator(dst, a, b []byte) []byte { return leveldb.VerifISeparator(c.u, a, b) }
func (c icmp) Successor(dst, b []byte) []byte    { return leveldb.VerifISuccessor(c.u, b) }

// tblCase: parameters from which one table is regenerated deterministically.
type tblCase struct {
	Kind      string `json:"kind"`
	Seed      uint64 `json:"seed"`
	Ifl       bool   `json:"ifilter"`
	Bpk       int    `json:"bpk"`
	Lg        int    `json:"filter_base_lg"`
	BlockSize int    `json:"block_size"`
	Restart   int    `json:"restart_interval"`
	NKeys     int    `json:"nkeys"`
	ValMax    int    `json:"val_max"`
}

type fop struct {
	add bool
	key []byte
	off uint64
}

type blockInfo struct {
	start uint64
	first int // index of first key
	n     int
}

type builtTable struct {
	file   []byte
	keys   [][]byte
	vals   [][]byte
	ops    []fop
	blocks []blockInfo
	fblock []byte // filter block found by the harness's own parser
	fbOff  uint64
	cmp    comparer.Comparer
	flt    filter.Filter
	opts   *opt.Options
}

func (tc tblCase) options() (*opt.Options, comparer.Comparer, filter.Filter) {
	var f filter.Filter = filter.NewBloomFilter(tc.Bpk)
	var c comparer.Comparer = comparer.DefaultComparer
	if tc.Ifl {
		f = leveldb.VerifIFilter(f)
		c = icmp{comparer.DefaultComparer}
	}
	o := &opt.Options{Filter: f, FilterBaseLg: tc.Lg, BlockSize: tc.BlockSize, BlockRestartInterval: tc.Restart,
		Compression: opt.NoCompression, Comparer: c}
	return o, c, f
}

// genTableKeys: sorted distinct keys under the table's comparer.
func genTableKeys(r *vlib.RNG, tc tblCase) (keys, vals [][]byte) {
	if !tc.Ifl {
		keys = genKeySet(r, tc.NKeys)
		sortBytes(keys)
	} else {
		n := tc.NKeys
		uks := genKeySet(r, (n+1)/2+1)
		sortBytes(uks)
		seq := uint64(r.Range(1, 1000))
	outer:
		for _, u := range uks {
			versions := 1
			if r.Chance(1, 3) {
				versions = r.Range(2, 4)
			}
			s := seq + uint64(versions)*3
			for v := 0; v < versions; v++ {
				if len(keys) >= n {
					break outer
				}
				ik, ok := leveldb.VerifMakeIKey(u, s, uint(r.Intn(2)))
				if !ok {
					continue
				}
				keys = append(keys, ik)
				s -= uint64(r.Range(1, 3))
			}
		}
	}
	vals = make([][]byte, len(keys))
	for i := range keys {
		vals[i] = r.Bytes(r.Intn(tc.ValMax+1), nil)
	}
	return
}

// buildTable writes the table with the real table.Writer, recording what the writer did to its
// filter writer (observed through BytesLen), and locates the filter block with the harness's parser.
func buildTable(tc tblCase) (bt *builtTable, err error) {
	defer func() {
		if p := recover(); p != nil {
			err = fmt.Errorf("panic: %v", p)
		}
	}()
	r := vlib.NewRNG(tc.Seed)
	o, c, f := tc.options()
	bt = &builtTable{cmp: c, flt: f, opts: o}
	bt.keys, bt.vals = genTableKeys(r, tc)
	var buf bytes.Buffer
	w := table.NewWriter(&buf, o, nil, 0)
	prev := uint64(0)
	cur := blockInfo{start: 0, first: 0}
	for i, k := range bt.keys {
		if e := w.Append(k, bt.vals[i]); e != nil {
			return nil, fmt.Errorf("append: %v", e)
		}
		bt.ops = append(bt.ops, fop{add: true, key: k})
		cur.n++
		if now := uint64(w.BytesLen()); now != prev {
			bt.ops = append(bt.ops, fop{off: now})
			bt.blocks = append(bt.blocks, cur)
			cur = blockInfo{start: now, first: i + 1}
			prev = now
		}
	}
	if e := w.Close(); e != nil {
		return nil, fmt.Errorf("close: %v", e)
	}
	bt.file = buf.Bytes()
	fb, off, e := findFilterBlock(bt.file, "filter."+f.Name())
	if e != nil {
		return nil, e
	}
	bt.fblock, bt.fbOff = fb, off
	if cur.n > 0 || len(bt.keys) == 0 {
		// Close finished the last (or the only, empty) data block: flush(offset after it),
		// which is where the filter block starts
		bt.ops = append(bt.ops, fop{off: off})
		bt.blocks = append(bt.blocks, cur)
	}
	return bt, nil
}

// ---- independent parser: footer -> metaindex -> "filter.<name>" handle -> block bytes ----

func uvarints(b []byte, n int) ([]uint64, int, bool) {
	out := make([]uint64, 0, n)
	p := 0
	for i := 0; i < n; i++ {
		v, m := binary.Uvarint(b[p:])
		if m <= 0 {
			return nil, 0, false
		}
		out = append(out, v)
		p += m
	}
	return out, p, true
}

func findFilterBlock(file []byte, name string) ([]byte, uint64, error) {
	if len(file) < 48 {
		return nil, 0, fmt.Errorf("table shorter than a footer")
	}
	foot := file[len(file)-48:]
	if string(foot[40:]) != "\x57\xfb\x80\x8b\x24\x75\x47\xdb" {
		return nil, 0, fmt.Errorf("bad magic")
	}
	hs, _, ok := uvarints(foot, 4)
	if !ok || hs[0]+hs[1]+5 > uint64(len(file)) {
		return nil, 0, fmt.Errorf("bad footer handles")
	}
	meta := file[hs[0] : hs[0]+hs[1]]
	if file[hs[0]+hs[1]] != 0 {
		return nil, 0, fmt.Errorf("metaindex block is compressed")
	}
	if len(meta) < 4 {
		return nil, 0, fmt.Errorf("metaindex too short")
	}
	nrest := int(binary.LittleEndian.Uint32(meta[len(meta)-4:]))
	end := len(meta) - 4*(nrest+1)
	if end < 0 {
		return nil, 0, fmt.Errorf("metaindex restarts out of range")
	}
	var key []byte
	for p := 0; p < end; {
		h, n, ok := uvarints(meta[p:end], 3)
		if !ok {
			return nil, 0, fmt.Errorf("metaindex entry header")
		}
		p += n
		if int(h[0]) > len(key) || p+int(h[1])+int(h[2]) > end {
			return nil, 0, fmt.Errorf("metaindex entry out of range")
		}
		key = append(append([]byte{}, key[:h[0]]...), meta[p:p+int(h[1])]...)
		p += int(h[1])
		val := meta[p : p+int(h[2])]
		p += int(h[2])
		if string(key) == name {
			bh, _, ok := uvarints(val, 2)
			if !ok || bh[0]+bh[1]+5 > uint64(len(file)) {
				return nil, 0, fmt.Errorf("bad filter block handle")
			}
			return append([]byte{}, file[bh[0]:bh[0]+bh[1]]...), bh[0], nil
		}
	}
	return nil, 0, fmt.Errorf("no %q entry in the metaindex block", name)
}

// countPartitions: number of filter slots and how many of them are empty, from the block itself.
func countPartitions(fb []byte) (slots, empty int) {
	if len(fb) < 5 {
		return 0, 0
	}
	m := len(fb) - 5
	oo := int(binary.LittleEndian.Uint32(fb[m:]))
	if oo > m {
		return 0, 0
	}
	slots = (m - oo) / 4
	for i := 0; i < slots; i++ {
		a := binary.LittleEndian.Uint32(fb[oo+4*i:])
		b := binary.LittleEndian.Uint32(fb[oo+4*i+4:])
		if a == b {
			empty++
		}
	}
	return
}

func openReader(file []byte, o *opt.Options) (*table.Reader, error) {
	return table.NewReader(bytes.NewReader(file), int64(len(file)), storage.FileDesc{Type: storage.TypeTable, Num: 1}, nil, nil, o)
}

func opsToCoq(ops []fop) string {
	items := make([]string, len(ops))
	for i, o := range ops {
		if o.add {
			items[i] = "KA " + vlib.CoqHex(o.key)
		} else {
			items[i] = fmt.Sprintf("KF %d", o.off)
		}
	}
	return "[" + joinSemi(items) + "]"
}

func joinSemi(items []string) string {
	var sb bytes.Buffer
	for i, s := range items {
		if i > 0 {
			sb.WriteString("; ")
		}
		sb.WriteString(s)
	}
	return sb.String()
}
