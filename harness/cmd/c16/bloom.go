package main

import (
	"fmt"
	"sync"

	"github.com/syndtr/goleveldb/leveldb/filter"
	"github.com/syndtr/goleveldb/leveldb/util"
	"verifharness/lib/vlib"
)

// ---------------------------------------------------------------- util.Hash

type hashCase struct {
	Kind string `json:"kind"`
	Data string `json:"data"`
	Seed uint32 `json:"hash_seed"`
}

// vectors of the format (LevelDB's hash_test / goleveldb's util/hash_test.go)
var hashVectors = []struct {
	data []byte
	seed uint32
	hash uint32
}{
	{nil, 0xbc9f1d34, 0xbc9f1d34},
	{[]byte{0x62}, 0xbc9f1d34, 0xef1345c4},
	{[]byte{0xc3, 0x97}, 0xbc9f1d34, 0x5b663814},
	{[]byte{0xe2, 0x99, 0xa5}, 0xbc9f1d34, 0x323c078f},
	{[]byte{0xe1, 0x80, 0xb9, 0x32}, 0xbc9f1d34, 0xed21633a},
}

func checkHash(c *ctx, hc hashCase) uint32 {
	data := unhexOr(hc.Data)
	var h uint32
	guard(c, "util.Hash", hc, limitShort, func() { h = util.Hash(data, hc.Seed) })
	if ref := refHash(data, hc.Seed); h != ref {
		c.res.Violate(fmt.Sprintf("util.Hash(%x, %#x) = %#x differs from the format's hash %#x: filters written by other versions are probed at other bits", data, hc.Seed, h, ref), hc)
	}
	return h
}

func runHash(c *ctx, r *vlib.RNG) []string {
	b := c.budget()
	n, kcap := b.hashN, b.hashK
	var cases []string
	for _, v := range hashVectors {
		hc := hashCase{"hash", hx(v.data), v.seed}
		if h := checkHash(c, hc); h != v.hash {
			c.res.Violate(fmt.Sprintf("util.Hash(%x, %#x) = %#x, the published vector says %#x", v.data, v.seed, h, v.hash), hc)
		}
	}
	seeds := []uint32{0xbc9f1d34, 0, 0xffffffff, 1}
	for i := 0; i < n; i++ {
		var data []byte
		ln := i % 41 // every length 0..40, hence every residue mod 4
		switch r.Pick(3, 3, 1, 1) {
		case 0:
			data = r.Bytes(ln, nil)
		case 1:
			data = r.Bytes(ln, []byte{0x80, 0xff, 0xfe, 0x7f, 0x00, 0x81, 0xc0})
		case 2:
			data = r.Bytes(r.Range(41, 200), nil)
		default:
			data = genKey(r, nil)
		}
		seed := seeds[r.Intn(len(seeds))]
		if r.Chance(1, 4) {
			seed = uint32(r.Uint64())
		}
		hc := hashCase{"hash", hx(data), seed}
		h := checkHash(c, hc)
		high := false
		for _, b := range data {
			if b >= 0x80 {
				high = true
			}
		}
		c.res.Count(fmt.Sprintf("hash_len_mod4_%d", len(data)%4), 1)
		if high {
			c.res.Count("hash_with_high_bytes", 1)
		}
		c.res.Eval("hash/"+hc.Data+fmt.Sprint(seed), len(data) > 0)
		if len(cases) < kcap {
			cases = append(cases, fmt.Sprintf("CHash %s %d %d", vlib.CoqHex(data), seed, h))
		}
	}
	return cases
}

// ---------------------------------------------------------------- bloom generator / Contains

type bloomCase struct {
	Kind string `json:"kind"`
	Seed uint64 `json:"seed"`
	Bpk  int    `json:"bpk"`
	N    int    `json:"nkeys"`
	// explicit keys (hex) override the seed-derived set when present (written into replays)
	Keys []string `json:"keys,omitempty"`
}

func generate(f filter.Filter, g filter.FilterGenerator, keys [][]byte) (out []byte, panicked bool) {
	defer func() {
		if recover() != nil {
			out, panicked = nil, true
		}
	}()
	for _, k := range keys {
		g.Add(k)
	}
	var b util.Buffer
	g.Generate(&b)
	return append([]byte{}, b.Bytes()...), false
}

func checkBloom(c *ctx, bc bloomCase, wantK bool) []string {
	r := vlib.NewRNG(bc.Seed)
	var keys [][]byte
	if bc.Keys != nil {
		for _, h := range bc.Keys {
			keys = append(keys, unhexOr(h))
		}
	} else {
		keys = genKeySet(r, bc.N)
	}
	second := genKeySet(r, r.Range(1, 6))
	others := genOthers(r, keys, 24)
	rep := bloomCase{"bloom", bc.Seed, bc.Bpk, bc.N, hxs(keys)}
	if len(keys) > 400 {
		rep.Keys = nil // regenerated from the seed
	}
	f := filter.NewBloomFilter(bc.Bpk)
	g := f.NewGenerator()
	flt, pan := generate(f, g, keys)
	var cases []string
	if pan {
		// since the repairs of bloom.go no int bits-per-key makes the generator panic (C16_bloom_generate_total)
		c.res.Violate(fmt.Sprintf("bloom generator panicked: bits-per-key %d, %d keys", bc.Bpk, len(keys)), rep)
		if wantK {
			cases = append(cases, fmt.Sprintf("CBloom (%d)%%Z [%s] None []", bc.Bpk, joinSemi(hexList(keys))))
		}
		return cases
	}
	// (P) no false negative, with the implementation's own reader and with the format's reader
	bad := 0
	guard(c, "bloom Contains", rep, limitLong, func() {
		for _, k := range keys {
			if !f.Contains(flt, k) {
				if bad == 0 {
					c.res.Violate(fmt.Sprintf("false negative: key %x was added (bits-per-key %d, %d keys, filter %d bytes) but Contains answers false", k, bc.Bpk, len(keys), len(flt)), rep)
				}
				bad++
			}
			if bc.Bpk >= 1 && !refContains(flt, k) {
				if bad == 0 {
					c.res.Violate(fmt.Sprintf("false negative for another reader of the format: key %x was added (bits-per-key %d, %d keys) but the filter bytes do not cover it", k, bc.Bpk, len(keys)), rep)
				}
				bad++
			}
		}
		if bc.Bpk >= 1 && bc.Bpk <= 1000 {
			old := refGenerate(bc.Bpk, keys)
			for _, k := range keys {
				if !f.Contains(old, k) {
					if bad == 0 {
						c.res.Violate(fmt.Sprintf("false negative reading a filter written by another writer of the format: key %x (bits-per-key %d, %d keys)", k, bc.Bpk, len(keys)), rep)
					}
					bad++
				}
			}
		}
	})
	// the generator is reusable after Generate: the second filter covers the second set
	// (a negative bits-per-key reads as 0 since the repair: the minimum length)
	reuse := bc.Bpk <= 1000
	var flt2 []byte
	pan2 := false
	if reuse {
		flt2, pan2 = generate(f, g, second)
	}
	if !reuse {
	} else if pan2 {
		c.res.Violate("bloom generator panicked on reuse after Generate", rep)
	} else {
		for _, k := range second {
			if !f.Contains(flt2, k) {
				c.res.Violate(fmt.Sprintf("false negative after generator reuse: key %x", k), rep)
				break
			}
		}
	}
	fp := 0
	for _, k := range others {
		if f.Contains(flt, k) {
			fp++
		}
	}
	c.res.Count("bloom_sets", 1)
	c.res.Count("bloom_keys_checked", len(keys))
	c.res.Count("bloom_false_positives_seen", fp)
	c.res.Count(sizeBucket(len(keys)), 1)
	c.res.Eval(fmt.Sprintf("bloom/%d/%d/%d", bc.Bpk, len(keys), bc.Seed), len(keys) >= 2)
	c.res.Sample(map[string]interface{}{"kind": "bloom", "bpk": bc.Bpk, "nkeys": len(keys), "filter_bytes": len(flt)})
	if wantK {
		// members (all when few, else a stride sample) and non-members with the implementation's answers
		var probes []string
		step := 1
		if len(keys) > 30 {
			step = len(keys) / 30
		}
		for i := 0; i < len(keys); i += step {
			probes = append(probes, fmt.Sprintf("(%s, %s)", vlib.CoqHex(keys[i]), vlib.CoqBool(f.Contains(flt, keys[i]))))
		}
		for _, k := range others {
			probes = append(probes, fmt.Sprintf("(%s, %s)", vlib.CoqHex(k), vlib.CoqBool(f.Contains(flt, k))))
		}
		cases = append(cases, fmt.Sprintf("CBloom (%d)%%Z [%s] (Some %s) [%s]", bc.Bpk, joinSemi(hexList(keys)), vlib.CoqHex(flt), joinSemi(probes)))
		if reuse && !pan2 {
			cases = append(cases, fmt.Sprintf("CBloom (%d)%%Z [%s] (Some %s) []", bc.Bpk, joinSemi(hexList(second)), vlib.CoqHex(flt2)))
		}
	}
	return cases
}

func sizeBucket(n int) string {
	switch {
	case n == 0:
		return "bloom_set_size_0"
	case n == 1:
		return "bloom_set_size_1"
	case n <= 10:
		return "bloom_set_size_2_10"
	case n <= 100:
		return "bloom_set_size_11_100"
	case n <= 1000:
		return "bloom_set_size_101_1000"
	default:
		return "bloom_set_size_1001_10000"
	}
}

type bloomJob struct {
	bc    bloomCase
	wantK bool
}

func runBloom(c *ctx, r *vlib.RNG) []string {
	var jobs []bloomJob
	add := func(bpk, n int, k bool) {
		jobs = append(jobs, bloomJob{bloomCase{Kind: "bloom", Seed: r.Uint64(), Bpk: bpk, N: n}, k})
	}
	bud := c.budget()
	reps, big := bud.bloomReps, bud.bloomBig
	for bpk := 1; bpk <= 64; bpk++ { // exhaustive over bits-per-key
		for rep := 0; rep < reps; rep++ {
			k := rep < bud.bloomKReps
			add(bpk, 0, k && bpk%16 == 1)
			add(bpk, 1, k)
			add(bpk, 2, false)
			add(bpk, r.Range(3, 9), k)
			add(bpk, r.Range(10, 60), k)
			add(bpk, r.Range(61, 160), k && bpk%4 == 0)
			add(bpk, r.Range(161, 1000), false)
			add(bpk, r.Range(1001, big), false)
		}
		if c.a.Thorough() {
			add(bpk, 10000, false)
		}
	}
	// outside the documented range: 0, negative, k wrapping through uint8, int overflow in f*69
	for _, bpk := range []int{0, -1, -5, -100, -1000, 65, 100, 145, 371, 372, 400, 1000, 1 << 32, 1<<32 + 10, 1 << 62, -(1 << 62), 1<<63 - 1, -(1 << 63)} {
		wk := bud.bloomKReps > 0
		add(bpk, 0, wk)
		if bpk > 0 && bpk <= 1000 {
			add(bpk, r.Range(1, 40), wk)
			add(bpk, r.Range(41, 300), false)
		}
		if bpk <= 0 { // negative reads as 0: 64-bit filters, compared byte for byte
			add(bpk, r.Range(1, 40), wk)
			add(bpk, r.Range(41, 300), false)
		}
		// bpk >= 2^32 with keys: 512 MiB filters since the repair (the ceiling): section "extreme"
	}
	for n := 1; n <= 7; n++ { // before the repair the bit count wrapped below 8: divide by zero in Generate
		add(-1, n, bud.bloomKReps > 0)
	}
	add(-5, 1, bud.bloomKReps > 0)
	add(-7, 1, bud.bloomKReps > 0)
	out := make([][]string, len(jobs))
	var wg sync.WaitGroup
	sem := make(chan struct{}, 8)
	for i := range jobs {
		wg.Add(1)
		sem <- struct{}{}
		go func(i int) {
			defer wg.Done()
			defer func() { <-sem }()
			out[i] = checkBloom(c, jobs[i].bc, jobs[i].wantK)
		}(i)
	}
	wg.Wait()
	var cases []string
	for _, o := range out {
		cases = append(cases, o...)
	}
	return cases
}

// ---------------------------------------------------------------- Contains on arbitrary filter bytes

func checkHas(c *ctx, flt, key []byte, rep interface{}) bool {
	var ans bool
	f := filter.NewBloomFilter(10)
	guard(c, "bloom Contains on arbitrary filter bytes", rep, limitShort, func() { ans = f.Contains(flt, key) })
	// (P) a filter whose stored k is in the reserved range must be treated as a match
	if len(flt) >= 2 && flt[len(flt)-1] > 30 && !ans {
		c.res.Violate(fmt.Sprintf("filter with reserved k=%d answered false", flt[len(flt)-1]), rep)
	}
	return ans
}

func runHas(c *ctx, r *vlib.RNG) []string {
	n := c.budget().hasN
	var cases []string
	for i := 0; i < n; i++ {
		var flt []byte
		switch r.Pick(1, 1, 1, 3, 3) {
		case 0:
			flt = []byte{}
		case 1:
			flt = r.Bytes(1, nil)
		case 2:
			flt = r.Bytes(2, nil)
		case 3:
			flt = r.Bytes(r.Range(3, 12), nil)
		default:
			flt = r.Bytes(r.Range(9, 70), []byte{0xff, 0xff, 0xfe, 0x7f, 0xf7, 0x00})
		}
		if len(flt) > 0 {
			flt[len(flt)-1] = []byte{0, 1, 2, 6, 29, 30, 31, 32, 128, 255}[r.Intn(10)]
		}
		key := genKey(r, nil)
		rep := map[string]interface{}{"kind": "has", "filter": hx(flt), "key": hx(key)}
		ans := checkHas(c, flt, key, rep)
		c.res.Count(fmt.Sprintf("has_answer_%v", ans), 1)
		c.res.Eval("has/"+hx(flt)+"/"+hx(key), len(flt) >= 2)
		if len(cases) < 400 && c.a.Extra != "search" {
			cases = append(cases, fmt.Sprintf("CHas %s %s %s", vlib.CoqHex(flt), vlib.CoqHex(key), vlib.CoqBool(ans)))
		}
	}
	return cases
}
