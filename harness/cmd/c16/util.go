package main

import (
	"encoding/hex"
	"time"
)

const (
	limitShort = 20 * time.Second
	limitLong  = 120 * time.Second
)

func unhexOr(s string) []byte {
	b, err := hex.DecodeString(s)
	if err != nil {
		return nil
	}
	return b
}
