package main

import (
	"encoding/hex"
	"time"
)

const (
	limitShort = 20 * time.Second
	limitLong  = 120 * time.Second
)

func unhexOr(s string) []byte {
	b, err := hex.DecodeString(s)
	if err != nil {
		return nil
	}
	return b
}

// budget: how much each section does per tier.  "search" is what ./check runs (as --tier thorough
// --extra search, 600 s limit) after a proof obligation or the correspondence broke.
type budget struct {
	hashN, hashK        int
	bloomReps, bloomBig int
	bloomKReps          int // how many of the repetitions per bits-per-key also emit (K) cases
	hasN                int
	tblN, tblK          int
	dbN                 int
}

func (c *ctx) budget() budget {
	switch {
	case c.a.Extra == "search":
		return budget{hashN: 60000, hashK: 0, bloomReps: 8, bloomBig: 10000, bloomKReps: 0, hasN: 4000, tblN: 5000, tblK: 0, dbN: 160}
	case c.a.Thorough():
		return budget{hashN: 400000, hashK: 4000, bloomReps: 300, bloomBig: 10000, bloomKReps: 4, hasN: 20000, tblN: 40000, tblK: 160, dbN: 2500}
	default:
		return budget{hashN: 100000, hashK: 900, bloomReps: 10, bloomBig: 4000, bloomKReps: 1, hasN: 2000, tblN: 2000, tblK: 44, dbN: 60}
	}
}
