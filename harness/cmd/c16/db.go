package main

import (
	"bytes"
	"fmt"
	"hash/fnv"
	"os"
	"sync"
	"sync/atomic"

	"github.com/syndtr/goleveldb/leveldb"
	"github.com/syndtr/goleveldb/leveldb/filter"
	"github.com/syndtr/goleveldb/leveldb/opt"
	"github.com/syndtr/goleveldb/leveldb/storage"
	"github.com/syndtr/goleveldb/leveldb/util"
	"verifharness/lib/vlib"
)

// dbCase: one random program; it is regenerated from the seed and run under every filter setting.
type dbCase struct {
	Kind           string `json:"kind"`
	Seed           uint64 `json:"seed"`
	NOps           int    `json:"nops"`
	KeySpace       int    `json:"key_space"`
	WriteBuffer    int    `json:"write_buffer"`
	BlockSize      int    `json:"block_size"`
	Lg             int    `json:"filter_base_lg"`
	TableSize      int    `json:"table_size"`
	NoCache        bool   `json:"no_block_cache"`
	NoLargeBatchTx bool   `json:"disable_large_batch_transaction"`
}

// counting wraps a policy and counts how often it is consulted and how often it rejects.
type counting struct {
	filter.Filter
	calls, rejects *int64
}

func (f counting) Contains(flt, key []byte) bool {
	atomic.AddInt64(f.calls, 1)
	a := f.Filter.Contains(flt, key)
	if !a {
		atomic.AddInt64(f.rejects, 1)
	}
	return a
}

// hashSet is a filter policy that is not a bloom filter: the sorted-free list of 32-bit FNV hashes
// of the keys; exact up to hash collisions.
type hashSet struct{}

type hashSetGen struct{ hs []uint32 }

func fnv32(k []byte) uint32 { h := fnv.New32a(); h.Write(k); return h.Sum32() }

func (hashSet) Name() string                         { return "verif.HashSet" }
func (hashSet) NewGenerator() filter.FilterGenerator { return &hashSetGen{} }
func (hashSet) Contains(flt, key []byte) bool {
	h := fnv32(key)
	for i := 0; i+4 <= len(flt); i += 4 {
		if uint32(flt[i])|uint32(flt[i+1])<<8|uint32(flt[i+2])<<16|uint32(flt[i+3])<<24 == h {
			return true
		}
	}
	return false
}
func (g *hashSetGen) Add(key []byte) { g.hs = append(g.hs, fnv32(key)) }
func (g *hashSetGen) Generate(b filter.Buffer) {
	for _, h := range g.hs {
		b.Write([]byte{byte(h), byte(h >> 8), byte(h >> 16), byte(h >> 24)})
	}
	g.hs = g.hs[:0]
}

const nSettings = 8

var settingNames = [nSettings]string{"no filter", "bloom 1", "bloom 10", "bloom 64",
	"written with bloom 10, reopened with it only in AltFilters, then with none",
	"written under a policy of another name, reopened with bloom 12 (+ the old one in AltFilters), alternating",
	"a non-bloom policy (hash set)",
	"alternating between the hash-set policy and bloom 10 without AltFilters (tables of the other policy must be read unfiltered)"}

// filterSetting: the Filter / AltFilters of setting cfg in the phase-th incarnation of the DB.
func filterSetting(cfg, phase int, cnt counting) (filter.Filter, []filter.Filter) {
	w := func(f filter.Filter) filter.Filter { return counting{f, cnt.calls, cnt.rejects} }
	switch cfg {
	case 0:
		return nil, nil
	case 1:
		return w(filter.NewBloomFilter(1)), nil
	case 2:
		return w(filter.NewBloomFilter(10)), nil
	case 3:
		return w(filter.NewBloomFilter(64)), nil
	case 4:
		switch {
		case phase == 0:
			return w(filter.NewBloomFilter(10)), nil
		case phase%2 == 1:
			return nil, []filter.Filter{w(filter.NewBloomFilter(10))}
		default:
			return nil, nil
		}
	case 5:
		if phase%2 == 0 {
			return w(otherName{filter.NewBloomFilter(5)}), []filter.Filter{w(filter.NewBloomFilter(3))}
		}
		return w(filter.NewBloomFilter(12)), []filter.Filter{w(otherName{filter.NewBloomFilter(9)})}
	case 6:
		return w(hashSet{}), nil
	default:
		if phase%2 == 0 {
			return w(hashSet{}), nil
		}
		return w(filter.NewBloomFilter(10)), nil
	}
}

type dbOp struct {
	kind   int // 0 put 1 delete 2 get 3 has 4 scan 5 seek+walk 6 range scan 7 compact 8 reopen 9 batch 10 snapshot get
	k, k2  []byte
	v      []byte
	n      int
	batchK [][]byte
	batchV [][]byte // nil entry = delete
}

func (o dbOp) String() string {
	names := []string{"Put", "Delete", "Get", "Has", "Scan", "SeekWalk", "RangeScan", "CompactRange", "Reopen", "WriteBatch", "SnapshotGet"}
	return fmt.Sprintf("%s(%x,%x,n=%d)", names[o.kind], o.k, o.k2, o.n)
}

func genProgram(dc dbCase) []dbOp {
	r := vlib.NewRNG(dc.Seed)
	keys := genKeySet(r, dc.KeySpace)
	pick := func() []byte {
		if r.Chance(1, 12) {
			return genKey(r, keys) // possibly outside the key space
		}
		return keys[r.Intn(len(keys))]
	}
	val := func() []byte {
		switch r.Intn(4) {
		case 0:
			return []byte{}
		case 1:
			return r.Bytes(r.Range(1, 8), nil)
		case 2:
			return r.Bytes(r.Range(9, 100), nil)
		default:
			return r.Bytes(r.Range(100, 400), nil)
		}
	}
	ops := make([]dbOp, 0, dc.NOps)
	for i := 0; i < dc.NOps; i++ {
		switch r.Pick(36, 9, 22, 8, 1, 5, 3, 2, 2, 5, 3) {
		case 0:
			ops = append(ops, dbOp{kind: 0, k: pick(), v: val()})
		case 1:
			ops = append(ops, dbOp{kind: 1, k: pick()})
		case 2:
			ops = append(ops, dbOp{kind: 2, k: pick()})
		case 3:
			ops = append(ops, dbOp{kind: 3, k: pick()})
		case 4:
			ops = append(ops, dbOp{kind: 4})
		case 5:
			ops = append(ops, dbOp{kind: 5, k: pick(), n: r.Range(0, 12)})
		case 6:
			a, b := pick(), pick()
			if bytes.Compare(a, b) > 0 {
				a, b = b, a
			}
			ops = append(ops, dbOp{kind: 6, k: a, k2: b})
		case 7:
			if r.Chance(1, 2) {
				ops = append(ops, dbOp{kind: 7})
			} else {
				a, b := pick(), pick()
				if bytes.Compare(a, b) > 0 {
					a, b = b, a
				}
				ops = append(ops, dbOp{kind: 7, k: a, k2: b, n: 1})
			}
		case 8:
			ops = append(ops, dbOp{kind: 8})
		case 9:
			o := dbOp{kind: 9}
			for j, m := 0, r.Range(1, 30); j < m; j++ {
				o.batchK = append(o.batchK, pick())
				if r.Chance(1, 5) {
					o.batchV = append(o.batchV, nil)
				} else {
					o.batchV = append(o.batchV, val())
				}
			}
			ops = append(ops, o)
		default:
			ops = append(ops, dbOp{kind: 10, k: pick(), n: r.Range(1, 20)})
		}
	}
	return ops
}

// runProgram executes the program under one filter setting and returns one observation per operation.
func runProgram(dc dbCase, ops []dbOp, cfg int, cnt counting) (obs []string, err error) {
	defer func() {
		if p := recover(); p != nil {
			err = fmt.Errorf("panic: %v", p)
		}
	}()
	stor := storage.NewMemStorage()
	phase := 0
	// Users commonly keep ONE *opt.Options and pass it to every Open: when the filter setting of this phase names the
	// same policies as the last one, half of the programs reuse the very same struct (and so the same AltFilters slice) —
	// whatever Open does with the options must not accumulate across opens
	optCache := map[string]*opt.Options{}
	curSig := ""
	mkopt := func() *opt.Options {
		// the filter setting is a function of (cfg, class of the phase): same class, same policies
		cls := 0
		switch cfg {
		case 4:
			if phase == 0 {
				cls = 0
			} else if phase%2 == 1 {
				cls = 1
			} else {
				cls = 2
			}
		case 5, 7:
			cls = phase % 2
		}
		curSig = fmt.Sprintf("%d/%d", cfg, cls)
		if o := optCache[curSig]; o != nil && dc.Seed%2 == 0 {
			return o
		}
		f, alt := filterSetting(cfg, phase, cnt)
		o := &opt.Options{Filter: f, AltFilters: alt, WriteBuffer: dc.WriteBuffer, BlockSize: dc.BlockSize, FilterBaseLg: dc.Lg,
			CompactionTableSize: dc.TableSize, Compression: opt.NoCompression, NoSync: true, DisableSeeksCompaction: false,
			DisableLargeBatchTransaction: dc.NoLargeBatchTx,
			OpenFilesCacheCapacity:       8}
		if dc.NoCache {
			o.DisableBlockCache = true
		}
		optCache[curSig] = o
		return o
	}
	db, e := leveldb.Open(stor, mkopt())
	if e != nil {
		return nil, e
	}
	defer func() { db.Close() }()
	type snapAt struct {
		s  *leveldb.Snapshot
		at int
	}
	var snaps []snapAt
	dropSnaps := func() {
		for _, s := range snaps {
			s.s.Release()
		}
		snaps = nil
	}
	defer dropSnaps()
	scan := func(rg *util.Range, seek []byte, limit int) string {
		it := db.NewIterator(rg, nil)
		defer it.Release()
		var sb bytes.Buffer
		ok := false
		if seek != nil {
			ok = it.Seek(seek)
		} else {
			ok = it.First()
		}
		for n := 0; ok && (limit < 0 || n <= limit); n++ {
			fmt.Fprintf(&sb, "%x=%x;", it.Key(), it.Value())
			ok = it.Next()
		}
		if e := it.Error(); e != nil {
			fmt.Fprintf(&sb, "ERR %v", e)
		}
		return sb.String()
	}
	for i, o := range ops {
		var out string
		switch o.kind {
		case 0:
			out = fmt.Sprint(db.Put(o.k, o.v, nil))
		case 1:
			out = fmt.Sprint(db.Delete(o.k, nil))
		case 2:
			v, e := db.Get(o.k, nil)
			out = fmt.Sprintf("%x %v", v, e)
		case 3:
			h, e := db.Has(o.k, nil)
			out = fmt.Sprintf("%v %v", h, e)
		case 4:
			out = scan(nil, nil, -1)
		case 5:
			out = scan(nil, o.k, o.n)
		case 6:
			out = scan(&util.Range{Start: o.k, Limit: o.k2}, nil, -1)
		case 7:
			if o.n == 0 {
				out = fmt.Sprint(db.CompactRange(util.Range{}))
			} else {
				out = fmt.Sprint(db.CompactRange(util.Range{Start: o.k, Limit: o.k2}))
			}
		case 8:
			dropSnaps()
			if e := db.Close(); e != nil {
				return obs, fmt.Errorf("op %d close: %v", i, e)
			}
			phase++
			db, e = leveldb.Open(stor, mkopt())
			if e != nil {
				return obs, fmt.Errorf("op %d reopen: %v", i, e)
			}
			out = "reopened"
		case 9:
			b := new(leveldb.Batch)
			for j, k := range o.batchK {
				if o.batchV[j] == nil {
					b.Delete(k)
				} else {
					b.Put(k, o.batchV[j])
				}
			}
			out = fmt.Sprint(db.Write(b, nil))
		default:
			// take a snapshot now and read through an older one
			s, e := db.GetSnapshot()
			if e != nil {
				out = fmt.Sprint(e)
				break
			}
			snaps = append(snaps, snapAt{s, i})
			old := snaps[(i*31+o.n)%len(snaps)]
			v, e := old.s.Get(o.k, nil)
			h, e2 := old.s.Has(o.k, nil)
			out = fmt.Sprintf("snap@%d %x %v %v %v", old.at, v, e, h, e2)
			if len(snaps) > 6 {
				snaps[0].s.Release()
				snaps = snaps[1:]
			}
		}
		obs = append(obs, out)
	}
	return obs, nil
}

func checkDB(c *ctx, dc dbCase) {
	ops := genProgram(dc)
	var all [nSettings][]string
	var errs [nSettings]error
	var calls, rejects [nSettings]int64
	var wg sync.WaitGroup
	for cfg := 0; cfg < nSettings; cfg++ {
		wg.Add(1)
		go func(cfg int) {
			defer wg.Done()
			guard(c, "DB program under filter setting: "+settingNames[cfg], dc, limitLong, func() {
				all[cfg], errs[cfg] = runProgram(dc, ops, cfg, counting{nil, &calls[cfg], &rejects[cfg]})
			})
		}(cfg)
	}
	wg.Wait()
	consulted := int64(0)
	for cfg := 0; cfg < nSettings; cfg++ {
		if errs[cfg] != nil {
			c.res.Violate(fmt.Sprintf("DB program failed under filter setting %q: %v", settingNames[cfg], errs[cfg]), dc)
			return
		}
		consulted += atomic.LoadInt64(&calls[cfg])
		c.res.Count(fmt.Sprintf("db_filter_consulted_setting_%d", cfg), int(atomic.LoadInt64(&calls[cfg])))
		c.res.Count(fmt.Sprintf("db_filter_rejected_setting_%d", cfg), int(atomic.LoadInt64(&rejects[cfg])))
	}
	for cfg := 1; cfg < nSettings; cfg++ {
		if len(all[cfg]) != len(all[0]) {
			c.res.Violate(fmt.Sprintf("DB program stopped early under filter setting %q", settingNames[cfg]), dc)
			return
		}
		for i := range all[0] {
			if all[cfg][i] != all[0][i] {
				a, b := all[0][i], all[cfg][i]
				if len(a) > 300 {
					a = a[:300] + "..."
				}
				if len(b) > 300 {
					b = b[:300] + "..."
				}
				if os.Getenv("C16_DBDEBUG") != "" {
					for x := 0; x < nSettings; x++ {
						fmt.Fprintf(os.Stderr, "setting %d: %s\n", x, all[x][i])
					}
					lo := i - 40
					if lo < 0 {
						lo = 0
					}
					for j := lo; j <= i; j++ {
						fmt.Fprintf(os.Stderr, "op %d %s -> %.80s\n", j, ops[j], all[0][j])
					}
				}
				c.res.Violate(fmt.Sprintf("operation %d %s answers differently under filter setting %q: %q, without filter: %q", i, ops[i], settingNames[cfg], b, a), dc)
				return
			}
		}
	}
	c.res.Count("db_programs", 1)
	c.res.Count("db_ops", len(ops)*nSettings)
	c.res.Eval(fmt.Sprintf("db/%d", dc.Seed), consulted > 0)
	c.res.Sample(map[string]interface{}{"kind": "db", "ops": len(ops), "filter_consultations": consulted})
}

func runDB(c *ctx, r *vlib.RNG) []string {
	n := c.budget().dbN
	var jobs []dbCase
	for i := 0; i < n; i++ {
		dc := dbCase{Kind: "db", Seed: r.Uint64(), NOps: r.Range(300, 1500), KeySpace: []int{8, 40, 200, 1000}[r.Intn(4)],
			WriteBuffer: []int{1 << 10, 4 << 10, 16 << 10}[r.Intn(3)], BlockSize: []int{64, 256, 1024, 4096}[r.Intn(4)],
			Lg: []int{0, 3, 5, 8, 11}[r.Intn(5)], TableSize: []int{2 << 10, 8 << 10, 64 << 10}[r.Intn(3)], NoCache: r.Chance(1, 3),
			// batches larger than the write buffer take the transaction path in half of the programs (its lost-write
			// defect, which once made the same program answer differently from run to run, is repaired: fix 2a22e13)
			NoLargeBatchTx: r.Chance(1, 2)}
		jobs = append(jobs, dc)
	}
	var wg sync.WaitGroup
	sem := make(chan struct{}, 3)
	for _, dc := range jobs {
		wg.Add(1)
		sem <- struct{}{}
		go func(dc dbCase) {
			defer wg.Done()
			defer func() { <-sem }()
			checkDB(c, dc)
		}(dc)
	}
	wg.Wait()
	return nil
}
