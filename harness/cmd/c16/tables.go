package main

import (
	"bytes"
	"fmt"
	"sync"

	"github.com/syndtr/goleveldb/leveldb"
	"github.com/syndtr/goleveldb/leveldb/filter"
	"github.com/syndtr/goleveldb/leveldb/opt"
	"github.com/syndtr/goleveldb/leveldb/table"
	"verifharness/lib/vlib"
)

// otherName is a policy with another name: tables written with it are read without a filter by
// readers that do not list it, and vice versa.
type otherName struct{ filter.Filter }

func (otherName) Name() string { return "verif.OtherBloom" }

func absentKeys(r *vlib.RNG, bt *builtTable, tc tblCase, n int) [][]byte {
	if !tc.Ifl {
		return genOthers(r, bt.keys, n)
	}
	var uks [][]byte
	for _, k := range bt.keys {
		uks = append(uks, k[:len(k)-8])
	}
	var out [][]byte
	for _, u := range genOthers(r, uks, n) {
		if ik, ok := leveldb.VerifMakeIKey(u, uint64(r.Intn(2000)), 1); ok {
			out = append(out, ik)
		}
	}
	// stored user keys at other sequence numbers: the filter must let them through
	for i := 0; i < n/3 && len(uks) > 0; i++ {
		out = append(out, leveldb.VerifProbeIKey(uks[r.Intn(len(uks))], uint64(r.Intn(3000))))
	}
	return out
}

func checkTable(c *ctx, tc tblCase, wantK bool) []string {
	var cases []string
	var bt *builtTable
	var err error
	guard(c, "table.Writer", tc, limitLong, func() { bt, err = buildTable(tc) })
	if err != nil || bt == nil {
		if tc.Lg >= 64 {
			// before the repair 18bde3e the writer could not be created for FilterBaseLg >= 64 (division by 1<<64 == 0);
			// the option getter now bounds the value, so a failure here is a violation again
			c.res.Violate("table.Writer cannot be created with FilterBaseLg >= 64 (the option getter must bound it by 63)", tc)
			return cases
		}
		if err != nil {
			c.res.Violate("writing a table failed: "+err.Error(), tc)
		}
		return cases
	}
	r := vlib.NewRNG(tc.Seed ^ 0x5bd1e995)
	guard(c, "table.Reader", tc, limitLong, func() {
		rd, e := openReader(bt.file, bt.opts)
		if e != nil {
			c.res.Violate("opening the table failed: "+e.Error(), tc)
			return
		}
		defer rd.Release()
		data, _, baseLg, num, ok := table.VerifFilterBlock(rd)
		if !ok {
			c.res.Violate("the reader does not use the filter block of a table written with the same policy", tc)
			return
		}
		if !bytes.Equal(data, bt.fblock) {
			c.res.Violate("the reader's filter block differs from the block the metaindex entry points to", tc)
		}
		slots, empty := countPartitions(bt.fblock)
		if slots != num {
			c.res.Violate(fmt.Sprintf("reader counts %d filters, the block holds %d", num, slots), tc)
		}
		effLg := tc.Lg
		if effLg <= 0 {
			effLg = 11
		}
		if effLg > 63 {
			// opt.GetFilterBaseLg bounds the value by 63 since the repair 18bde3e (1<<64 is 0 and the table
			// writer divided by it); the case Lg = 64 stays in the generator: the writer must now work with 63
			effLg = 63
			c.res.Count("table_written_with_clamped_baselg", 1)
		}
		if int(baseLg) != effLg {
			c.res.Violate(fmt.Sprintf("reader sees base lg %d, the table was written with %d", baseLg, effLg), tc)
		}
		// (P) every stored key is found with the filter on
		bad := false
		for bi, b := range bt.blocks {
			for i := b.first; i < b.first+b.n; i++ {
				k := bt.keys[i]
				if ans, _ := table.VerifFilterContains(rd, b.start, k); !ans && !bad {
					bad = true
					c.res.Violate(fmt.Sprintf("false negative: key %x is stored in data block %d (offset %d, filter slot %d of %d) but the filter block answers absent", k, bi, b.start, b.start>>uint(effLg), slots), tc)
				}
				rk, rv, e := rd.Find(k, true, nil)
				if (e != nil || !bytes.Equal(rk, k) || !bytes.Equal(rv, bt.vals[i])) && !bad {
					bad = true
					c.res.Violate(fmt.Sprintf("stored key %x (data block %d, offset %d) not found by Reader.Find with the filter on: err=%v key=%x", k, bi, b.start, e, rk), tc)
				}
				if fk, e := rd.FindKey(k, true, nil); (e != nil || !bytes.Equal(fk, k)) && !bad {
					bad = true
					c.res.Violate(fmt.Sprintf("stored key %x not found by Reader.FindKey with the filter on: err=%v", k, e), tc)
				}
				if v, e := rd.Get(k, nil); (e != nil || !bytes.Equal(v, bt.vals[i])) && !bad {
					bad = true
					c.res.Violate(fmt.Sprintf("stored key %x not returned by Reader.Get: err=%v", k, e), tc)
				}
			}
		}
		// keys that are not stored: the filter may only turn an answer into "not found"
		abs := absentKeys(r, bt, tc, 40)
		rejected := 0
		for _, k := range abs {
			rk0, rv0, e0 := rd.Find(k, false, nil)
			rk1, rv1, e1 := rd.Find(k, true, nil)
			if e1 == table.ErrNotFound && e0 == nil {
				rejected++
				if bt.cmp.Compare(rk0, k) == 0 && !bad {
					bad = true
					c.res.Violate(fmt.Sprintf("key %x is found without the filter and not found with it", k), tc)
				}
				continue
			}
			if (e0 != e1 || !bytes.Equal(rk0, rk1) || !bytes.Equal(rv0, rv1)) && !bad {
				bad = true
				c.res.Violate(fmt.Sprintf("Find(%x) differs with the filter on: %x/%v vs %x/%v", k, rk1, e1, rk0, e0), tc)
			}
		}
		c.res.Count("table_absent_probes", len(abs))
		c.res.Count("table_absent_rejected_by_filter", rejected)
		// readers configured with other policies: none, the policy only as an alternative, another
		// bits-per-key, a policy of another name
		alts := []*opt.Options{
			{Comparer: bt.cmp},
			{Comparer: bt.cmp, AltFilters: []filter.Filter{bt.flt}},
			{Comparer: bt.cmp, Filter: wrapIf(tc.Ifl, filter.NewBloomFilter(1+r.Intn(64)))},
			{Comparer: bt.cmp, Filter: wrapIf(tc.Ifl, otherName{filter.NewBloomFilter(7)}), AltFilters: []filter.Filter{wrapIf(tc.Ifl, otherName{filter.NewBloomFilter(3)}), bt.flt}},
			{Comparer: bt.cmp, Filter: wrapIf(tc.Ifl, otherName{filter.NewBloomFilter(7)})},
		}
		for ai, ao := range alts {
			rd2, e := openReader(bt.file, ao)
			if e != nil {
				c.res.Violate(fmt.Sprintf("opening the table with reader setting %d failed: %v", ai, e), tc)
				continue
			}
			_, used := table.VerifFilterContains(rd2, 0, nil2(tc.Ifl))
			if used {
				c.res.Count(fmt.Sprintf("table_alt_reader_%d_uses_filter", ai), 1)
			}
			for i, k := range bt.keys {
				rk, rv, e := rd2.Find(k, true, nil)
				if (e != nil || !bytes.Equal(rk, k) || !bytes.Equal(rv, bt.vals[i])) && !bad {
					bad = true
					c.res.Violate(fmt.Sprintf("stored key %x not found when the table is read under filter setting %d: err=%v", k, ai, e), tc)
				}
			}
			for _, k := range abs {
				rk0, _, e0 := rd.Find(k, false, nil)
				rk1, _, e1 := rd2.Find(k, true, nil)
				if e1 == nil && (e0 != nil || !bytes.Equal(rk0, rk1)) && !bad {
					bad = true
					c.res.Violate(fmt.Sprintf("Find(%x) under filter setting %d returns %x, without filter %x/%v", k, ai, rk1, rk0, e0), tc)
				}
			}
			rd2.Release()
		}
		nontrivial := slots >= 3 && empty >= 1
		c.res.Count("tables", 1)
		c.res.Count("table_keys_checked", len(bt.keys))
		c.res.Count("table_filter_slots", slots)
		c.res.Count("table_empty_filter_slots", empty)
		if nontrivial {
			c.res.Count("tables_3plus_partitions_with_empty", 1)
		}
		if tc.Ifl {
			c.res.Count("tables_internal_keys_ifilter", 1)
		}
		c.res.Eval(fmt.Sprintf("table/%d/%v/%d/%d/%d/%d", tc.Seed, tc.Ifl, tc.Bpk, tc.Lg, tc.BlockSize, tc.NKeys), nontrivial)
		c.res.Sample(map[string]interface{}{"kind": "table", "ifilter": tc.Ifl, "bpk": tc.Bpk, "base_lg": effLg, "block_size": tc.BlockSize, "keys": len(bt.keys), "data_blocks": len(bt.blocks), "filter_slots": slots, "empty_slots": empty, "file_bytes": len(bt.file)})
		if wantK {
			// the reader's own filter decisions on chosen (offset, key) pairs
			var qs []string
			q := func(off uint64, k []byte) {
				ans, _ := table.VerifFilterContains(rd, off, k)
				qs = append(qs, fmt.Sprintf("(%d, %s, %s)", off, vlib.CoqHex(k), vlib.CoqBool(ans)))
			}
			probeKeys := append(append([][]byte{}, abs...), bt.keys...)
			if len(probeKeys) == 0 {
				probeKeys = [][]byte{nil2(tc.Ifl)}
			}
			for i := 0; i < len(bt.blocks) && i < 10; i++ {
				b := bt.blocks[(i*7)%len(bt.blocks)]
				if b.n > 0 {
					q(b.start, bt.keys[b.first+r.Intn(b.n)])
				}
				q(b.start, probeKeys[r.Intn(len(probeKeys))])
			}
			for i := 0; i < 14; i++ {
				var off uint64
				switch r.Intn(5) {
				case 0:
					off = uint64(r.Intn(2*len(bt.file) + 1))
				case 1:
					off = bt.fbOff + uint64(r.Intn(3))
				case 2:
					off = uint64(r.Intn(len(bt.file)+1)) | 1<<40
				default:
					off = uint64(r.Intn(int(bt.fbOff) + 1))
				}
				q(off, probeKeys[r.Intn(len(probeKeys))])
			}
			cases = append(cases, fmt.Sprintf("CFB %s (%d)%%Z %d %s (Some %s) [%s]", vlib.CoqBool(tc.Ifl), tc.Bpk, effLg, opsToCoq(bt.ops), vlib.CoqHex(bt.fblock), joinSemi(qs)))
		}
	})
	return cases
}

func wrapIf(ifl bool, f filter.Filter) filter.Filter {
	if ifl {
		return leveldb.VerifIFilter(f)
	}
	return f
}

// a key acceptable to the policy (iFilter panics on keys shorter than a trailer)
func nil2(ifl bool) []byte {
	if ifl {
		return make([]byte, 8)
	}
	return []byte{}
}

func genTblCase(r *vlib.RNG, small bool, thorough bool) tblCase {
	tc := tblCase{Kind: "table", Seed: r.Uint64(), Ifl: r.Chance(1, 2)}
	tc.Bpk = r.Range(1, 64)
	if r.Chance(1, 4) {
		tc.Bpk = 10
	}
	lgs := []int{0, 1, 2, 3, 4, 5, 6, 7, 8, 9, 10, 11, 12, 16, 31, 32, 63}
	tc.Lg = lgs[r.Intn(len(lgs))]
	tc.BlockSize = []int{1, 16, 32, 64, 128, 256, 512, 1024, 4096}[r.Intn(9)]
	tc.Restart = []int{1, 2, 16}[r.Intn(3)]
	tc.ValMax = []int{0, 8, 40, 300, 1500}[r.Intn(5)]
	tc.NKeys = r.Range(0, 400)
	if r.Chance(1, 10) {
		tc.NKeys = r.Intn(4)
	}
	if thorough && r.Chance(1, 8) {
		tc.NKeys = r.Range(400, 6000)
	}
	if tc.Ifl && tc.NKeys == 0 {
		tc.NKeys = 1 // the internal-key comparer panics on the nil key of an empty table; a DB never writes one
	}
	if small { // sized for evaluation inside Coq
		tc.NKeys = r.Range(0, 60)
		if r.Chance(1, 6) {
			tc.NKeys = r.Intn(3)
		}
		tc.Lg = []int{0, 2, 3, 4, 5, 6, 7, 8, 11, 12, 32, 63}[r.Intn(12)]
		tc.ValMax = []int{0, 8, 40, 120}[r.Intn(4)]
		tc.BlockSize = []int{1, 32, 64, 128, 256, 1024}[r.Intn(6)]
		if tc.Ifl && tc.NKeys == 0 {
			tc.NKeys = 1
		}
	}
	return tc
}

func runTables(c *ctx, r *vlib.RNG) []string {
	n, nk := c.budget().tblN, c.budget().tblK
	type job struct {
		tc tblCase
		k  bool
	}
	var jobs []job
	for i := 0; i < nk; i++ {
		jobs = append(jobs, job{genTblCase(r, true, false), true})
	}
	// FilterBaseLg >= 64: the writer cannot be created
	jobs = append(jobs, job{tblCase{Kind: "table", Seed: r.Uint64(), Bpk: 10, Lg: 64, BlockSize: 64, Restart: 16, NKeys: 3, ValMax: 4}, nk > 0})
	for i := 0; i < n; i++ {
		jobs = append(jobs, job{genTblCase(r, false, c.a.Thorough()), false})
	}
	out := make([][]string, len(jobs))
	var wg sync.WaitGroup
	sem := make(chan struct{}, 8)
	for i := range jobs {
		wg.Add(1)
		sem <- struct{}{}
		go func(i int) {
			defer wg.Done()
			defer func() { <-sem }()
			out[i] = checkTable(c, jobs[i].tc, jobs[i].k)
		}(i)
	}
	wg.Wait()
	var cases []string
	for _, o := range out {
		cases = append(cases, o...)
	}
	return cases
}
