package main

// Reference reimplementation of the LevelDB bloom filter format (hash, generator, membership test),
// written from the format description, independent of the code under test.  It stands for "another
// version of the library": filters written by one side must be readable by the other without
// false negatives.

func refHash(data []byte, seed uint32) uint32 {
	const m = 0xc6a4a793
	h := seed ^ uint32(uint64(len(data))*m)
	i := 0
	for ; i+4 <= len(data); i += 4 {
		w := uint32(data[i]) | uint32(data[i+1])<<8 | uint32(data[i+2])<<16 | uint32(data[i+3])<<24
		h += w
		h *= m
		h ^= h >> 16
	}
	rest := data[i:]
	if len(rest) == 3 {
		h += uint32(rest[2]) << 16
	}
	if len(rest) >= 2 {
		h += uint32(rest[1]) << 8
	}
	if len(rest) >= 1 {
		h += uint32(rest[0])
		h *= m
		h ^= h >> 24
	}
	return h
}

func refBloomHash(key []byte) uint32 { return refHash(key, 0xbc9f1d34) }

// refGenerate: bitsPerKey in [1, 1000], len(keys)*bitsPerKey < 2^31.
func refGenerate(bitsPerKey int, keys [][]byte) []byte {
	k := bitsPerKey * 69 / 100
	k &= 0xff
	if k < 1 {
		k = 1
	}
	if k > 30 {
		k = 30
	}
	bits := len(keys) * bitsPerKey
	if bits < 64 {
		bits = 64
	}
	nbytes := (bits + 7) / 8
	bits = nbytes * 8
	out := make([]byte, nbytes+1)
	out[nbytes] = byte(k)
	for _, key := range keys {
		h := refBloomHash(key)
		d := h>>17 | h<<15
		for j := 0; j < k; j++ {
			p := h % uint32(bits)
			out[p/8] |= 1 << (p % 8)
			h += d
		}
	}
	return out
}

func refContains(filter, key []byte) bool {
	if len(filter) < 2 {
		return false
	}
	bits := uint32(len(filter)-1) * 8
	k := int(filter[len(filter)-1])
	if k > 30 {
		return true
	}
	h := refBloomHash(key)
	d := h>>17 | h<<15
	for j := 0; j < k; j++ {
		p := h % bits
		if filter[p/8]&(1<<(p%8)) == 0 {
			return false
		}
		h += d
	}
	return true
}
