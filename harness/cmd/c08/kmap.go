// (K) for c08: what was observed in one fault scenario — the storage's operation log (which operation failed,
// on which file, how many bytes a failing write stored), the records written to the manifest (decoded), the
// commits the session reported, and the result every call returned — is translated into operations of the
// fault model Store/Faults.v, in operation-log order.  Whenever an observation cannot be attributed with
// certainty the scenario is left out (counted as k_unmapped_<reason>), never guessed.
package main

import (
	"encoding/binary"
	"fmt"
	"sort"
	"strings"

	"github.com/syndtr/goleveldb/leveldb/storage"
	"verifharness/lib/dbh"
	"verifharness/lib/vstor"
)

type editEv struct {
	idx     int // operation count when the commit hook ran (the commit has succeeded)
	flush   bool
	txn     bool
	nAdded  int
	nDelete int
}

type kev struct {
	idx, ord int
	op       string
}

// manifest record kinds (decoded from the bytes a Write stored in a manifest file)
const (
	recUnknown = iota
	recFlush   // journal number and sequence number: a memdb flush (or recovery's commit)
	recTxn     // sequence number only, tables added
	recCompact // neither; tables deleted (or moved)
	recEmpty   // nothing but the next file number: the commit a discard uses to start a fresh manifest
	recSnapshot
)

func uvar(b []byte) (uint64, []byte, bool) {
	v, n := binary.Uvarint(b)
	if n <= 0 {
		return 0, nil, false
	}
	return v, b[n:], true
}

func svar(b []byte) ([]byte, bool) {
	_, n := binary.Varint(b)
	if n <= 0 {
		return nil, false
	}
	return b[n:], true
}

func skipBytes(b []byte) ([]byte, bool) {
	l, r, ok := uvar(b)
	if !ok || uint64(len(r)) < l {
		return nil, false
	}
	return r[l:], true
}

// decodeManifestWrite classifies the session record held by the bytes of one Write to a manifest (one journal chunk
// of type "full"; anything else is unknown).
func decodeManifestWrite(data []byte) int {
	if len(data) < 7 || data[6] != 1 {
		return recUnknown
	}
	l := int(binary.LittleEndian.Uint16(data[4:6]))
	if 7+l != len(data) {
		return recUnknown
	}
	b := data[7:]
	var hasCmp, hasJ, hasSeq bool
	var nAdd, nDel int
	for len(b) > 0 {
		tag, r, ok := uvar(b)
		if !ok {
			return recUnknown
		}
		b = r
		switch tag {
		case 1:
			hasCmp = true
			if b, ok = skipBytes(b); !ok {
				return recUnknown
			}
		case 2, 3, 9:
			if tag == 2 {
				hasJ = true
			}
			if b, ok = svar(b); !ok {
				return recUnknown
			}
		case 4:
			hasSeq = true
			if _, b, ok = uvar(b); !ok {
				return recUnknown
			}
		case 5:
			if _, b, ok = uvar(b); !ok {
				return recUnknown
			}
			if b, ok = skipBytes(b); !ok {
				return recUnknown
			}
		case 6:
			nDel++
			if _, b, ok = uvar(b); !ok {
				return recUnknown
			}
			if b, ok = svar(b); !ok {
				return recUnknown
			}
		case 7:
			nAdd++
			if _, b, ok = uvar(b); !ok {
				return recUnknown
			}
			if b, ok = svar(b); !ok {
				return recUnknown
			}
			if b, ok = svar(b); !ok {
				return recUnknown
			}
			if b, ok = skipBytes(b); !ok {
				return recUnknown
			}
			if b, ok = skipBytes(b); !ok {
				return recUnknown
			}
		default:
			return recUnknown
		}
	}
	switch {
	case hasCmp:
		return recSnapshot
	case hasJ && hasSeq:
		return recFlush
	case hasSeq && !hasJ && nAdd > 0:
		return recTxn
	case !hasJ && !hasSeq && (nDel > 0 || nAdd > 0):
		return recCompact
	case !hasJ && !hasSeq && nDel == 0 && nAdd == 0:
		return recEmpty
	}
	return recUnknown
}

// classifyPrefix: the kind of a session record of which only a prefix of the bytes is known (a failing write stored
// part of it). Fields are encoded in the order comparer, journal number, next file number, sequence number, ...
func classifyPrefix(data []byte) int {
	if len(data) < 8 {
		return recUnknown
	}
	b := data[7:]
	tag, r, ok := uvar(b)
	if !ok {
		return recUnknown
	}
	switch tag {
	case 1:
		return recSnapshot
	case 2:
		return recFlush
	case 3:
		if r, ok = svar(r); !ok || len(r) == 0 {
			return recUnknown
		}
		t2, _, ok := uvar(r)
		if !ok {
			return recUnknown
		}
		switch t2 {
		case 4:
			return recTxn
		case 5, 6, 7:
			return recCompact
		}
	}
	return recUnknown
}

// attempt is one try to commit a session record, reconstructed from the manifest operations.
type attempt struct {
	start, end int  // operation indexes (end: the operation that decided it)
	fresh      bool // a new manifest file was created (newManifest) rather than appended to (flushManifest)
	kind       int  // rec* of the appended record (recUnknown for fresh attempts and torn writes)
	failed     bool
	reached    bool // the whole record is in the file although the attempt failed (append attempts)
	unsure     bool // a failing write stored all the bytes it was given: whether the record is whole is open
	rmFailed   bool // fresh manifest installed, removal of the old one failed (commit returned an error)
}

// scanManifest reconstructs the commit attempts from the manifest operations at index >= from.
func scanManifest(ops []vstor.Op, from int, partialOf func(i int) int) (atts []*attempt, bad string) {
	var cur *attempt
	var curFd storage.FileDesc // file of the attempt in progress
	var live storage.FileDesc  // the current manifest
	haveLive := false
	for i := 0; i < len(ops); i++ {
		o := ops[i]
		if o.Kind == vstor.OpSetMeta && !o.Fail {
			live, haveLive = o.Fd, true
		}
		if i < from {
			continue
		}
		if o.Fd.Type != storage.TypeManifest {
			continue
		}
		switch o.Kind {
		case vstor.OpCreate:
			if cur != nil {
				return nil, "manifest_create_inside_attempt"
			}
			a := &attempt{start: i, end: i, fresh: true, kind: recUnknown}
			atts = append(atts, a)
			if o.Fail {
				a.failed = true
			} else {
				cur, curFd = a, o.Fd
			}
		case vstor.OpWrite:
			if cur != nil && cur.fresh && o.Fd == curFd {
				cur.end = i
				if o.Fail {
					cur.failed = true
					cur = nil
				}
				continue
			}
			if cur != nil {
				if o.Fd == curFd && !cur.fresh {
					// a second write of the same record (it crosses a block boundary): give up on precision
					return nil, "manifest_record_in_several_writes"
				}
				return nil, "manifest_write_to_other_file"
			}
			if !haveLive || o.Fd != live {
				if o.N == 0 {
					continue // the empty write of Close on an abandoned manifest
				}
				return nil, "manifest_write_not_current"
			}
			if o.N == 0 && !o.Fail {
				continue // journal.Writer.Close's empty write at DB close
			}
			a := &attempt{start: i, end: i, kind: recUnknown}
			atts = append(atts, a)
			if o.Fail {
				a.failed = true
				a.kind = classifyPrefix(o.Data)
				if partialOf(i) >= 1000 {
					a.unsure = true
				}
			} else {
				a.kind = decodeManifestWrite(o.Data)
				cur, curFd = a, o.Fd
			}
		case vstor.OpSync:
			if cur == nil || o.Fd != curFd {
				return nil, "manifest_sync_outside_attempt"
			}
			cur.end = i
			if o.Fail {
				cur.failed = true
				cur.reached = !cur.fresh
				cur = nil
			} else if !cur.fresh {
				cur = nil // appended and synced: committed
			}
		case vstor.OpRemove:
			// cleanup of a failed fresh manifest, or removal of the old manifest after a switch
			if o.Fail && len(atts) > 0 {
				last := atts[len(atts)-1]
				if last.fresh && !last.failed && cur == nil {
					last.rmFailed = true
				}
			}
		}
		if o.Kind == vstor.OpSetMeta && cur != nil && cur.fresh && o.Fd == curFd {
			cur.end = i
			if o.Fail {
				cur.failed = true
			}
			cur = nil
		}
	}
	if cur != nil {
		return nil, "manifest_attempt_unfinished"
	}
	return atts, ""
}

// kCase renders the scenario for Corr/C08Run.v, or returns "" and the reason why it cannot.
func kCase(sc *Scenario, ops []vstor.Op, bs []*bstat, edits []editEv, reopens []int, openIdx int, kept map[int]bool, faults []*vstor.Fault) (string, string) {
	var evs []kev
	ord := 0
	add := func(idx int, op string) { evs = append(evs, kev{idx, ord, op}); ord++ }
	// which fault made operation i fail: its partial-write setting (per mille), -1 if unknown
	partialOf := func(i int) int {
		p := -1
		for _, f := range sc.Faults {
			if vstor.OpKind(f.Kind) == ops[i].Kind && (f.Type == 0 || storage.FileType(f.Type)&ops[i].Fd.Type != 0) {
				if p >= 0 && p != f.Partial {
					return 1000 // two candidate faults with different settings: treat as "unsure"
				}
				p = f.Partial
			}
		}
		return p
	}
	// ---- journals: rotations and removals; which journal file is the live one at each operation ----
	liveJ := make([]storage.FileDesc, len(ops)+1)
	var curJ storage.FileDesc
	for i, o := range ops {
		liveJ[i] = curJ
		if o.Fd.Type != storage.TypeJournal {
			continue
		}
		switch o.Kind {
		case vstor.OpCreate:
			if o.Fail {
				continue
			}
			curJ = o.Fd
			if i >= openIdx {
				add(i, "(FOk PRotate, KS)")
			}
		case vstor.OpRemove:
			// dropFrozenMem forgets the frozen buffer and its journal whether or not the Remove succeeds (a file that
			// stays is residue below the manifest's journal number)
			if i >= openIdx {
				add(i, "(FOk PDropFrozen, KS)")
			}
		}
	}
	liveJ[len(ops)] = curJ
	for _, ri := range reopens {
		add(ri-1, "(FOk PReopen, KS)")
	}
	// ---- manifest: commit attempts ----
	atts, bad := scanManifest(ops, openIdx, partialOf)
	if bad != "" {
		return "", bad
	}
	used := map[*attempt]bool{}
	usedEdit := map[int]bool{}
	// ---- the batches of the workload, in issue order ----
	for _, s := range bs {
		if !s.issued {
			continue
		}
		n := len(s.b.Recs)
		lo, hi := s.b.StartIdx, s.b.AckIdx
		if hi > len(ops) {
			hi = len(ops)
		}
		res := "ROk"
		if !s.ok {
			res = "RErr"
		}
		viaTxn := s.b.Txn || (internalLen(s.b.Recs) > sc.W.Cfg.WriteBuffer && !sc.W.Cfg.NoLargeBatchTxn)
		if !viaTxn {
			wIdx, failW, failS, lateCreateFail := -1, -1, -1, -1
			synced := false
			for i := lo; i < hi; i++ {
				o := ops[i]
				if o.Fd.Type != storage.TypeJournal {
					continue
				}
				switch o.Kind {
				case vstor.OpWrite:
					if o.Fd != liveJ[i] {
						continue // newMem finishing the old journal (an empty write)
					}
					if o.Fail {
						failW = i
					} else if o.N > 0 {
						wIdx = i
					}
				case vstor.OpSync:
					if o.Fd == liveJ[i] && wIdx >= 0 {
						if o.Fail {
							failS = i
						} else {
							synced = true
						}
					}
				case vstor.OpCreate:
					if o.Fail && wIdx >= 0 {
						lateCreateFail = i
					}
				}
			}
			switch {
			case s.ok:
				if wIdx < 0 || failW >= 0 || failS >= 0 {
					// a write reported successful whose journal record failed: let the model say so
					if failS >= 0 {
						add(failS, fmt.Sprintf("(FJSync %d, KBR true ROk)", n))
						continue
					}
					if failW >= 0 {
						add(failW, fmt.Sprintf("(FJWrite %d false, KBR true ROk)", n))
						continue
					}
					return "", "ok_write_without_journal_record"
				}
				add(wIdx, fmt.Sprintf("(FOk (PWrite %d %v), KBR false ROk)", n, synced))
			case failW >= 0:
				whole := partialOf(failW) >= 1000
				add(failW, fmt.Sprintf("(FJWrite %d %v, KBR %v RErr)", n, whole, whole))
			case failS >= 0:
				add(failS, fmt.Sprintf("(FJSync %d, KBR true RErr)", n))
			case wIdx < 0:
				add(lo, "(FWriteEarly, KBR false RErr)")
			default:
				// journaled (and synced if asked) and applied; what failed is the rotation that follows (the journal Create,
				// or the wait for a flush that is failing)
				_ = lateCreateFail
				add(wIdx, fmt.Sprintf("(FWriteLate %d %v, KBR false RErr)", n, synced))
			}
			continue
		}
		// ---- transaction path (explicit, or DB.Write of a batch above the write buffer) ----
		txnEdit, emptyEdit := -1, -1
		for k, e := range edits {
			if e.idx > lo && e.idx <= s.b.AckIdx {
				if e.txn && txnEdit < 0 {
					txnEdit = k
				}
				if !e.txn && !e.flush && e.nAdded == 0 && e.nDelete == 0 {
					emptyEdit = k
				}
			}
		}
		// lastHook: the last commit of another job that the session reported inside the window; pendingFlush: the
		// journal was rotated inside the window (by OpenTransaction) and no flush has committed since
		lastHook, rotIdx := lo, -1
		for i := lo; i < hi; i++ {
			if ops[i].Fd.Type == storage.TypeJournal && ops[i].Kind == vstor.OpCreate && !ops[i].Fail {
				rotIdx = i
			}
		}
		pendingFlush := rotIdx >= 0
		for _, e := range edits {
			if e.idx > lo && e.idx <= s.b.AckIdx && !e.txn && !(e.nAdded == 0 && e.nDelete == 0 && !e.flush) {
				if e.idx > lastHook {
					lastHook = e.idx
				}
				if e.flush && e.idx > rotIdx {
					pendingFlush = false
				}
			}
		}
		// the attempts of this commit: the first append of a transaction record inside the window and every
		// attempt after it up to the end of the call (Commit holds the commit lock across its retries; the discard
		// follows at once)
		var mine []*attempt
		first := -1
		for k, a := range atts {
			if a.start >= lo && a.start < hi && !a.fresh && (a.kind == recTxn || (a.failed && a.kind == recUnknown && a.start >= lastHook && !s.ok)) {
				first = k
				break
			}
		}
		if first < 0 {
			// no append attempt: either everything went through a fresh manifest, or nothing reached the manifest
			freshInWin := 0
			for _, a := range atts {
				if a.start >= lo && a.start < hi && a.fresh {
					freshInWin++
				}
			}
			switch {
			case s.ok && txnEdit >= 0:
				usedEdit[txnEdit] = true
				add(edits[txnEdit].idx-1, fmt.Sprintf("(FOk (PTxnCommit %d), KBR false ROk)", n))
			case s.ok:
				return "", "ok_txn_without_commit"
			case freshInWin == 0:
				add(lo, "(FWriteEarly, KBR false RErr)")
			case pendingFlush:
				// OpenTransaction rotated the journal and the flush it waits for did not commit: the call failed before
				// the transaction existed; the failing attempts are the flush's (rendered below)
				add(lo, "(FWriteEarly, KBR false RErr)")
			default:
				// every attempt went through newManifest (the manifest had reached its size limit, or manifestFailed was
				// set). A background commit that fails keeps the commit lock until it succeeds, so the attempts after the
				// last commit the session reported are this transaction's
				var fr []*attempt
				for _, a := range atts {
					if a.start >= lastHook && a.start >= lo && a.start < hi && a.fresh {
						fr = append(fr, a)
					}
				}
				if len(fr) == 0 {
					return "", "txn_failed_fresh_first"
				}
				pos := fr[0].start
				add(pos, fmt.Sprintf("(FTxnBegin %d, KB false)", n))
				discarded := false
				for _, a := range fr {
					used[a] = true
					switch {
					case a.rmFailed:
						return "", "txn_fresh_remove_failed"
					case a.failed:
						add(pos, "(FTxnCommitFail false, KS)")
					case emptyEdit >= 0 && edits[emptyEdit].idx > a.end && !discarded:
						discarded = true
						usedEdit[emptyEdit] = true
						add(pos, "(FTxnDiscard true, KS)")
					default:
						return "", "txn_fresh_attempt_unexplained"
					}
				}
				if !discarded {
					add(pos, "(FTxnDiscard false, KS)")
				}
			}
			continue
		}
		if atts[first].failed && atts[first].kind == recUnknown && pendingFlush {
			// the torn append is the pending flush's: the call failed in OpenTransaction
			add(lo, "(FWriteEarly, KBR false RErr)")
			continue
		}
		pos := atts[first].start
		if !atts[first].failed {
			// committed at the first attempt: the plain case
			if !s.ok || txnEdit < 0 {
				return "", "txn_first_attempt_ok_but_call_failed"
			}
			used[atts[first]] = true
			usedEdit[txnEdit] = true
			add(edits[txnEdit].idx-1, fmt.Sprintf("(FOk (PTxnCommit %d), KBR false ROk)", n))
			continue
		}
		add(pos, fmt.Sprintf("(FTxnBegin %d, KB false)", n))
		committed, discarded := false, false
		for k := first; k < len(atts) && atts[k].start < hi && !committed && !discarded; k++ {
			a := atts[k]
			mine = append(mine, a)
			used[a] = true
			if a.unsure {
				return "", "txn_attempt_unsure"
			}
			switch {
			case a.failed:
				add(pos, fmt.Sprintf("(FTxnCommitFail %v, KS)", a.reached))
			case a.rmFailed:
				return "", "txn_fresh_remove_failed"
			case s.ok:
				if txnEdit < 0 || edits[txnEdit].idx <= a.end {
					return "", "ok_txn_commit_not_seen"
				}
				committed = true
				usedEdit[txnEdit] = true
				add(pos, "(FTxnCommit, KR ROk)")
			default:
				// the call failed: a successful attempt can only be the fresh manifest the discard starts
				if emptyEdit < 0 || edits[emptyEdit].idx <= a.end {
					return "", "txn_attempt_unexplained"
				}
				discarded = true
				usedEdit[emptyEdit] = true
				add(pos, "(FTxnDiscard true, KS)")
			}
		}
		switch {
		case s.ok && !committed:
			return "", "ok_txn_commit_not_seen"
		case !s.ok && !discarded:
			// every attempt failed, the discard's fresh manifest included (or it had none to write): tables kept or removed
			add(pos, "(FTxnDiscard false, KS)")
		}
		_ = res
	}
	// ---- background commits: failed attempts from the manifest log, successful ones from the hook ----
	for _, a := range atts {
		if used[a] {
			continue
		}
		if a.rmFailed {
			return "", "fresh_remove_failed"
		}
		if !a.failed {
			continue // reported by the hook
		}
		if a.fresh {
			add(a.end, "(FFreshFail, KS)")
			continue
		}
		if a.unsure {
			return "", "append_unsure"
		}
		switch a.kind {
		case recFlush:
			add(a.end, fmt.Sprintf("(FManFail PFlushEdit %v, KS)", a.reached))
		case recCompact:
			add(a.end, fmt.Sprintf("(FManFail PCompactEdit %v, KS)", a.reached))
		case recUnknown:
			// torn write: which edit it was does not matter, nothing reached the file
			add(a.end, "(FManFail PCompactEdit false, KS)")
		case recEmpty:
			add(a.end, "(FManFail PCompactEdit false, KS)")
		default:
			return "", "background_attempt_kind"
		}
	}
	for k, e := range edits {
		if e.idx < openIdx || usedEdit[k] {
			continue
		}
		switch {
		case e.flush:
			add(e.idx-1, "(FOk PFlushEdit, KS)")
			add(e.idx-1, "(FOk PManSync, KS)")
		case e.txn:
			return "", "txn_edit_outside_batch"
		default:
			add(e.idx-1, "(FOk PCompactEdit, KS)")
			add(e.idx-1, "(FOk PManSync, KS)")
		}
	}
	sort.SliceStable(evs, func(i, j int) bool {
		if evs[i].idx != evs[j].idx {
			return evs[i].idx < evs[j].idx
		}
		return evs[i].ord < evs[j].ord
	})
	var steps, obs []string
	for _, e := range evs {
		steps = append(steps, e.op)
	}
	idx := 0
	for _, s := range bs {
		if !s.issued {
			continue
		}
		if kept[s.b.ID] {
			obs = append(obs, fmt.Sprint(idx))
		}
		idx++
	}
	if idx == 0 {
		return "", "no_batches"
	}
	return fmt.Sprintf("KFault [%s] [%s]", strings.Join(steps, "; "), strings.Join(obs, "; ")), ""
}

// internalLen is Batch.internalLen of the batch built from recs (what DB.Write compares with the write buffer).
func internalLen(recs []dbh.Rec) int {
	n := 0
	for _, r := range recs {
		n += len(r.K) + len(r.V) + 8
	}
	return n
}
