// c08: storage errors never cause wrong answers or loss of acknowledged writes.
// Fault positions (k-th operation of each kind on each file type, once or persistently, singly or in pairs) are
// injected into marker-carrying workloads on the checker's storage; reads are checked against a three-valued
// batch oracle (acknowledged / errored / not issued) while running, after healing, and after close + reopen;
// after healing the DB must accept a synced write again, and a crash image taken then (unsynced tails lost) must
// open and hold every write acknowledged with sync. (K): every scenario is translated into the fault model
// Store/Faults.v (kmap.go) and the model's prediction is compared inside Coq with what the reopened DB holds.
package main

import (
	"bytes"
	"encoding/json"
	"fmt"
	"os"
	"sort"
	"strings"
	"sync"
	"time"

	"github.com/syndtr/goleveldb/leveldb"
	"github.com/syndtr/goleveldb/leveldb/errors"
	"github.com/syndtr/goleveldb/leveldb/opt"
	"github.com/syndtr/goleveldb/leveldb/storage"
	"github.com/syndtr/goleveldb/leveldb/util"
	"verifharness/lib/dbh"
	"verifharness/lib/vlib"
	"verifharness/lib/vstor"
	"verifharness/lib/wl"
)

// FaultSpec is one injected failure.
type FaultSpec struct {
	Kind       int  `json:"kind"` // vstor.OpKind
	Type       int  `json:"type"` // storage.FileType
	K          int  `json:"k"`
	Persistent bool `json:"persistent"`
	Partial    int  `json:"partial_permille"`
}

func (f FaultSpec) String() string {
	return fmt.Sprintf("%s/%s/k=%d/persistent=%v/partial=%d", vstor.OpKind(f.Kind), storage.FileType(f.Type), f.K, f.Persistent, f.Partial)
}

// Scenario is a replayable case.
type Scenario struct {
	W        *wl.Workload `json:"workload"`
	Faults   []FaultSpec  `json:"faults"`
	ArmStep  int          `json:"arm_step"`  // faults are armed before this step
	HealStep int          `json:"heal_step"` // and removed before this step
	// ReadProbe: at the end (no block cache) fail table reads and look every key up
	ReadProbe bool `json:"read_probe"`
	Idx       int  `json:"idx"`
}

type bstat struct {
	b      *wl.Batch
	issued bool
	ok     bool
	widx   int  // op index of the complete journal write of this batch, -1 if none
	jsync  bool // its journal sync succeeded
}

type outcome struct {
	msg      string // violation text, "" if none
	hung     string // a call did not return (C09's business; scenario skipped)
	known    string // id of the recorded (unrepaired) defect this failure is an instance of
	faultHit int
	stats    map[string]int
	kcase    string
	kwhy     string // why the scenario has no (K) case
}

// the commit hook is process-wide: it dispatches on the storage of the committing session
var (
	hookOnce sync.Once
	hookOuts sync.Map // storage.Storage -> *hookRec
)

type hookRec struct {
	stor  *vstor.Stor
	mu    sync.Mutex
	edits []editEv
}

func installHook() {
	hookOnce.Do(func() {
		leveldb.VerifSetCommitHook(func(e leveldb.VerifEdit) {
			x, ok := hookOuts.Load(e.Stor)
			if !ok {
				return
			}
			h := x.(*hookRec)
			ev := editEv{idx: h.stor.OpCount(), flush: e.HasJournal, txn: !e.HasJournal && e.HasSeq, nAdded: len(e.Added), nDelete: len(e.Deleted)}
			h.mu.Lock()
			h.edits = append(h.edits, ev)
			h.mu.Unlock()
		})
	})
}

func call(d time.Duration, f func() error) (err error, timedOut bool) {
	ch := make(chan error, 1)
	go func() {
		defer func() {
			if x := recover(); x != nil {
				ch <- fmt.Errorf("PANIC: %v", x)
			}
		}()
		ch <- f()
	}()
	select {
	case err = <-ch:
		return err, false
	case <-time.After(d):
		return nil, true
	}
}

// closeBounded closes a DB on a path where a violation (or the end of a scenario) is already decided: the
// result of Close does not matter there and a Close that blocks must not keep the harness from reporting.
func closeBounded(db *leveldb.DB) {
	call(3*time.Second, func() error { return db.Close() })
	leveldb.VerifForgetDB(db)
}

// checkContents reads every marker and key and compares with the in-order application of the batches whose
// marker is present; all acknowledged batches must be present. readErrOK: read errors are tolerated (faults active).
func checkContents(db *leveldb.DB, bs []*bstat, phase string, readErrOK bool) string {
	return checkContentsNeed(db, bs, phase, readErrOK, false, func(s *bstat) bool { return s.ok })
}

// checkContentsNeed: need(s) says whether batch s must be present; strict: no error at all is acceptable (nothing
// damaged the bytes of this storage: a "corrupted" answer means something durable was not durable).
func checkContentsNeed(db *leveldb.DB, bs []*bstat, phase string, readErrOK, strict bool, need func(*bstat) bool) string {
	got := map[string][]byte{}
	it := db.NewIterator(nil, nil)
	for it.Next() {
		got[string(it.Key())] = append([]byte{}, it.Value()...)
	}
	err := it.Error()
	it.Release()
	if err != nil {
		if !strict && (readErrOK || errors.IsCorrupted(err)) {
			return "" // an error instead of data is allowed; wrong data is not
		}
		return fmt.Sprintf("%s: iteration fails: %v", phase, err)
	}
	exp := map[string][]byte{}
	for _, s := range bs {
		if !s.issued {
			if _, in := got[string(wl.Marker(s.b.ID))]; in {
				return fmt.Sprintf("%s: batch %d was never issued yet its marker is present", phase, s.b.ID)
			}
			continue
		}
		_, in := got[string(wl.Marker(s.b.ID))]
		if need(s) && !in {
			return fmt.Sprintf("%s: write %d was reported successful but is absent", phase, s.b.ID)
		}
		if in {
			for _, rec := range s.b.Recs {
				if rec.Del {
					delete(exp, string(rec.K))
				} else {
					exp[string(rec.K)] = rec.V
				}
			}
		}
	}
	for k, v := range got {
		ev, ok := exp[k]
		if !ok {
			return fmt.Sprintf("%s: key %x is served but no applied batch leaves it behind (an errored batch is partly applied, or data is wrong)", phase, k)
		}
		if !bytes.Equal(ev, v) {
			return fmt.Sprintf("%s: key %x has a wrong value (%d bytes, expected %d bytes)", phase, k, len(v), len(ev))
		}
	}
	for k := range exp {
		if _, ok := got[k]; !ok {
			return fmt.Sprintf("%s: key %x of an applied batch is missing (a batch is partly applied or an acknowledged write is hidden)", phase, k)
		}
	}
	return pointReads(db, exp, phase, readErrOK && !strict, 40, strict)
}

// pointReads: every Get must return the expected value or a genuine error — "not found" for a key that is
// there is a wrong answer, not an error.
func pointReads(db *leveldb.DB, exp map[string][]byte, phase string, readErrOK bool, max int, strict bool) string {
	n := 0
	for k, v := range exp {
		if n++; n > max {
			break
		}
		g, err := db.Get([]byte(k), nil)
		if err == leveldb.ErrNotFound {
			return fmt.Sprintf("%s: Get(%x) says not found for a key whose batch is applied (a failed read must surface as an error, not as absence)", phase, k)
		}
		if err != nil {
			if !strict && (readErrOK || errors.IsCorrupted(err)) {
				continue
			}
			return fmt.Sprintf("%s: Get(%x) fails: %v", phase, k, err)
		}
		if !bytes.Equal(g, v) {
			return fmt.Sprintf("%s: Get(%x) returns a wrong value (%d bytes, expected %d)", phase, k, len(g), len(v))
		}
		if h, err := db.Has([]byte(k), nil); err == nil && !h {
			return fmt.Sprintf("%s: Has(%x) is false for a key whose batch is applied", phase, k)
		}
	}
	return ""
}

// readFaultProbe: with the data settled in tables and no block cache, fail the k-th table read for a few k and
// look every key up: each lookup must give the right value or an error.
func readFaultProbe(db *leveldb.DB, stor *vstor.Stor, bs []*bstat, r *vlib.RNG) string {
	exp := map[string][]byte{}
	it := db.NewIterator(nil, nil)
	for it.Next() {
		exp[string(it.Key())] = append([]byte{}, it.Value()...)
	}
	err := it.Error()
	it.Release()
	if err != nil || len(exp) == 0 {
		return ""
	}
	for t := 0; t < 6; t++ {
		stor.AddFault(&vstor.Fault{Kind: vstor.OpRead, Type: storage.TypeTable, K: r.Intn(8), Persistent: r.Chance(1, 3)})
		m := pointReads(db, exp, "under a table read fault", true, 1000, false)
		stor.Heal()
		if m != "" {
			return m
		}
	}
	return ""
}

// crashOracle: a crash right now (every unsynced tail lost) must leave an image that opens, serves no error, and
// holds everything that was acknowledged with sync (and every committed transaction), whatever failed before;
// batches stay atomic.
func crashOracle(stor *vstor.Stor, o *opt.Options, bs []*bstat, phase string) (msg, hung string) {
	img := stor.Clone(false)
	for _, fd := range img.ListAll() {
		data, synced, _ := img.FileBytes(fd)
		img.SetFileBytes(fd, data[:synced])
	}
	var dbc *leveldb.DB
	err, to := call(60*time.Second, func() error { var e error; dbc, e = leveldb.Open(img, o); return e })
	if to {
		return "", "Open of the crash image did not return"
	}
	if err != nil {
		return phase + ": Open of the image fails: " + err.Error(), ""
	}
	m := checkContentsNeed(dbc, bs, phase, false, true, func(s *bstat) bool { return s.ok && (s.b.Sync || s.b.Txn) })
	closeBounded(dbc)
	return m, ""
}

func runScenario(sc *Scenario) (out outcome) {
	out.stats = map[string]int{}
	stor := vstor.New(true)
	// a closed DB stays reachable for about a second (mpoolDrain): do not let it pin the op log and file bytes
	defer stor.Discard()
	installHook()
	hk := &hookRec{stor: stor}
	hookOuts.Store(stor, hk)
	defer hookOuts.Delete(stor)
	o := sc.W.Cfg.Options()
	db, err := leveldb.Open(stor, o)
	if err != nil {
		out.msg = "initial Open: " + err.Error()
		return
	}
	openIdx := stor.OpCount()
	var reopens []int
	// whatever happens, stop injecting faults when the scenario ends: background retry loops spin while
	// a persistent fault is active
	defer stor.Heal()
	defer func() {
		if out.hung != "" && db != nil {
			d := db
			go d.Close()
		}
	}()
	var faults []*vstor.Fault
	arm := func() {
		for _, f := range sc.Faults {
			vf := &vstor.Fault{Kind: vstor.OpKind(f.Kind), Type: storage.FileType(f.Type), K: f.K, Persistent: f.Persistent, PartialPermille: f.Partial}
			faults = append(faults, vf)
			stor.AddFault(vf)
		}
	}
	var bs []*bstat
	id := 0
	for _, st := range sc.W.Steps {
		if st.Kind == "write" || st.Kind == "txn" {
			b := &wl.Batch{ID: id, Sync: st.Sync, Txn: st.Kind == "txn"}
			id++
			b.Recs = append([]dbh.Rec{{K: wl.Marker(b.ID), V: []byte{1}}}, st.Recs...)
			bs = append(bs, &bstat{b: b, widx: -1})
		}
	}
	const T = 8 * time.Second
	bi := 0
	healed := false
	for si, st := range sc.W.Steps {
		if si == sc.ArmStep {
			arm()
		}
		if si == sc.HealStep {
			stor.Heal()
			healed = true
			// after healing, everything that was reported successful must be readable and consistent
			if m := checkContents(db, bs, "after healing", false); m != "" {
				out.msg = m
				closeBounded(db)
				return
			}
			if m, hung := crashOracle(stor, o, bs, "after a crash (unsynced tails lost) right after the faults were removed"); hung != "" {
				out.hung = hung
				return
			} else if m != "" {
				out.msg = m
				closeBounded(db)
				return
			}
		}
		switch st.Kind {
		case "write":
			s := bs[bi]
			bi++
			s.issued = true
			s.b.StartIdx = stor.OpCount()
			err, to := call(T, func() error { return db.Write(wl.MkBatch(s.b.Recs), &opt.WriteOptions{Sync: st.Sync}) })
			if to {
				out.hung = fmt.Sprintf("Write of batch %d did not return within %v", s.b.ID, T)
				return
			}
			s.b.AckIdx = stor.OpCount()
			s.ok = err == nil
			if err != nil {
				out.stats["errored_writes"]++
				if strings.HasPrefix(err.Error(), "PANIC") {
					out.msg = "Write panics under an injected fault: " + err.Error()
					return
				}
			}
		case "txn":
			s := bs[bi]
			bi++
			s.issued = true
			s.b.StartIdx = stor.OpCount()
			err, to := call(T, func() error {
				tr, err := db.OpenTransaction()
				if err != nil {
					return err
				}
				if err := tr.Write(wl.MkBatch(s.b.Recs), nil); err != nil {
					tr.Discard()
					return err
				}
				if err := tr.Commit(); err != nil {
					tr.Discard()
					return err
				}
				return nil
			})
			if to {
				out.hung = fmt.Sprintf("transaction %d did not return within %v", s.b.ID, T)
				return
			}
			s.b.AckIdx = stor.OpCount()
			s.ok = err == nil
			if err != nil {
				out.stats["errored_txns"]++
			}
		case "compact":
			_, to := call(T, func() error { return db.CompactRange(util.Range{}) })
			if to {
				out.hung = "CompactRange did not return"
				return
			}
		case "idle":
			leveldb.VerifWaitIdle(db, 2*time.Second)
		case "reopen":
			if !healed && si >= sc.ArmStep {
				continue // reopen under active faults is exercised by the final reopen after healing
			}
			_, to := call(T, func() error { return db.Close() })
			if to {
				out.hung = "Close did not return"
				return
			}
			leveldb.VerifForgetDB(db)
			reopens = append(reopens, stor.OpCount())
			db, err = leveldb.Open(stor, o)
			if err != nil {
				out.msg = "reopen (no fault active) fails: " + err.Error()
				return
			}
		}
		// while faults are active: whatever is served must be right (errors are fine)
		if si >= sc.ArmStep && !healed && si%5 == 0 {
			if m := checkContents(db, bs, "while faults are active", true); m != "" {
				out.msg = m
				closeBounded(db)
				return
			}
		}
	}
	stor.Heal()
	for _, f := range faults {
		out.faultHit += f.Hits
	}
	// after the faults are removed the DB must be usable again: a synced write must succeed — at once, or, while a
	// background job is still backing off after its last failed retry (at most 8 s), after a few attempts. Each
	// attempt is one more batch of the workload.
	usable, attempts := false, 0
	var lastErr error
	for deadline := time.Now().Add(12 * time.Second); ; {
		s := &bstat{b: &wl.Batch{ID: len(bs), Sync: true}, widx: -1, issued: true}
		s.b.Recs = []dbh.Rec{{K: wl.Marker(s.b.ID), V: []byte{1}}, {K: []byte("\x01probe"), V: []byte(fmt.Sprint(attempts))}}
		bs = append(bs, s)
		s.b.StartIdx = stor.OpCount()
		err, to := call(T, func() error { return db.Write(wl.MkBatch(s.b.Recs), &opt.WriteOptions{Sync: true}) })
		if to {
			out.hung = "a write after the faults were removed did not return"
			return
		}
		s.b.AckIdx = stor.OpCount()
		s.ok = err == nil
		attempts++
		if err == nil {
			usable = true
			break
		}
		lastErr = err
		if time.Now().After(deadline) {
			break
		}
		time.Sleep(300 * time.Millisecond)
	}
	if attempts > 1 {
		out.stats["scenarios_usable_only_after_retries"]++
	}
	if !usable {
		out.msg = fmt.Sprintf("the DB stays unusable after the faults were removed: %d synced writes over 12 s all failed, the last with: %v", attempts, lastErr)
		closeBounded(db)
		return
	}
	if m := checkContents(db, bs, "at the end (faults removed)", false); m != "" {
		out.msg = m
		closeBounded(db)
		return
	}
	if m, hung := crashOracle(stor, o, bs, "after a crash (unsynced tails lost) that follows the faults"); hung != "" {
		out.hung = hung
		return
	} else if m != "" {
		out.msg = m
		closeBounded(db)
		return
	}
	out.stats["crash_images_after_faults"]++
	if sc.ReadProbe {
		if m := readFaultProbe(db, stor, bs, vlib.NewRNG(sc.W.Seed)); m != "" {
			out.msg = m
			closeBounded(db)
			return
		}
	}
	_, to := call(T, func() error { return db.Close() })
	if to {
		out.hung = "final Close did not return"
		return
	}
	leveldb.VerifForgetDB(db)
	opsBeforeReopen := stor.Ops()
	var db2 *leveldb.DB
	err, to = call(60*time.Second, func() error { var e error; db2, e = leveldb.Open(stor, o); return e })
	if to {
		out.hung = "reopen did not return"
		return
	}
	if err != nil {
		out.msg = "reopen after the faults were removed fails: " + err.Error()
		return
	}
	defer closeBounded(db2)
	if m := checkContents(db2, bs, "after close and reopen", false); m != "" {
		out.msg = m
		return
	}
	// (K) the fault model follows what was observed and must predict what the reopened DB holds
	kept := map[int]bool{}
	for _, s := range bs {
		if s.issued {
			if _, err := db2.Get(wl.Marker(s.b.ID), nil); err == nil {
				kept[s.b.ID] = true
			}
		}
	}
	hk.mu.Lock()
	var edits []editEv
	for _, e := range hk.edits {
		if e.idx <= len(opsBeforeReopen) { // the commits of the final Open are not part of the history
			edits = append(edits, e)
		}
	}
	hk.mu.Unlock()
	out.kcase, out.kwhy = kCase(sc, opsBeforeReopen, bs, edits, reopens, openIdx, kept, faults)
	return
}

func main() {
	a := vlib.ParseArgs()
	res := vlib.NewResult("C08", a.Out, "marker-carrying workloads (writes, batches, oversized batches, transactions, CompactRange, reopen; tiny buffers) x fault positions: the k-th {write, sync, create, open, read, remove, closew} on {journal, manifest, table} files, once or persistently, partial writes, singly (quick) or in pairs (thorough), armed at a random step and healed at a later one; checked while faults are active (errors allowed, wrong data not), after healing, and after close + reopen against the three-valued batch oracle read off the unique markers; after healing a synced write must succeed (retried for 12 s) and a crash image (unsynced tails lost) taken after healing and at the end must open, serve no error and hold every sync-acknowledged write; one scenario in sixteen is directed at a failing transaction commit; every scenario is also translated into the Coq fault model (K); non-trivial = a fault actually fired on a journal/manifest/table write, sync, create or remove (not a read); plus a directed family (dbh.RunDeep, after the marker scenarios): three or more levels built with tiny table/level sizes, waves of acknowledged Deletes whose markers sit above values stored two or more levels further down, ONE transient table write/sync/create fault armed for a DB.CompactRange over everything (the builder is retried from its last snapshot), healing, settling: every deleted key must be not-found, every other key must hold its last acknowledged value, a full scan must equal the oracle, again after a final fault-free range compaction - non-trivial when the fault fired")
	skipWrite := false
	defer func() {
		if !skipWrite {
			res.Write()
		}
	}()
	if a.Replay != "" {
		b, err := os.ReadFile(a.Replay)
		if err != nil {
			fmt.Println("cannot read replay:", err)
			return
		}
		if ds, ok := dbh.LoadDeepSpec(a.Replay); ok {
			for i := 0; i < 3; i++ {
				res.Eval(fmt.Sprintf("deep-replay%d", i), true)
				if dr := dbh.RunDeep(*ds, false); dr.Failure != "" {
					fmt.Println("replay fails:", dr.Failure)
					res.Violate(dr.Failure, ds)
					return
				}
			}
			fmt.Println("replay passes")
			return
		}
		var wr struct {
			Case Scenario `json:"case"`
		}
		if err := json.Unmarshal(b, &wr); err != nil || wr.Case.W == nil {
			fmt.Println("cannot parse replay:", err)
			return
		}
		res.Eval("replay", true)
		res.Eval("replay2", true)
		for i := 0; i < 5; i++ {
			out := runScenario(&wr.Case)
			if out.msg != "" {
				fmt.Println("replay fails:", out.msg)
				res.Violate(out.msg, wr.Case)
				return
			}
		}
		fmt.Println("replay passes")
		return
	}
	if vlib.SuperviseIfParent(a.Out) {
		skipWrite = true
		return
	}
	guard := vlib.NewGuard(a.Out)
	nscen := 800
	if a.Thorough() {
		nscen = 15000
	}
	if strings.Contains(a.Extra, "search") {
		nscen = 4000
	}
	root := vlib.NewRNG(a.Seed)
	kinds := []vstor.OpKind{vstor.OpWrite, vstor.OpSync, vstor.OpCreate, vstor.OpOpen, vstor.OpRead, vstor.OpRemove, vstor.OpCloseW}
	types := []storage.FileType{storage.TypeJournal, storage.TypeManifest, storage.TypeTable}
	jobs := make(chan *Scenario, 64)
	var wg sync.WaitGroup
	var kmu sync.Mutex
	type kc struct {
		idx  int
		text string
		hit  bool
	}
	var kcases []kc
	knownSeen := map[string]bool{}
	for w := 0; w < 16; w++ {
		wg.Add(1)
		go func() {
			defer wg.Done()
			for sc := range jobs {
				if cr, ok := guard.Crashed(sc.Idx); ok {
					if _, only := guard.Only(); !only {
						res.Eval(fmt.Sprintf("crashed/%d", sc.Idx), true)
						res.Violate(cr.Desc+" ["+sc.W.Cfg.String()+"]", sc)
					}
					continue
				}
				guard.Start(sc.Idx)
				out := runScenario(sc)
				if _, only := guard.Only(); only {
					// run it a few more times: a crash is what the supervisor looks for
					for t := 0; t < 2; t++ {
						runScenario(sc)
					}
				}
				guard.Finish(sc.Idx)
				var fs []string
				for _, f := range sc.Faults {
					fs = append(fs, f.String())
				}
				sort.Strings(fs)
				nontriv := false
				for _, f := range sc.Faults {
					if out.faultHit > 0 && vstor.OpKind(f.Kind) != vstor.OpRead && vstor.OpKind(f.Kind) != vstor.OpOpen {
						nontriv = true
					}
				}
				res.Eval(fmt.Sprintf("%d/%s/%d", sc.W.Seed, strings.Join(fs, "+"), sc.ArmStep), nontriv)
				for _, f := range sc.Faults {
					res.Count(fmt.Sprintf("fault_%s_%s", vstor.OpKind(f.Kind), storage.FileType(f.Type)), 1)
				}
				if out.faultHit > 0 {
					res.Count("scenarios_with_fault_hit", 1)
				}
				for k, v := range out.stats {
					res.Count(k, v)
				}
				if out.hung != "" {
					res.Count("scenarios_skipped_hang(C09)", 1)
					continue
				}
				if out.msg == "" {
					if len(out.kcase) > 40000 {
						out.kcase, out.kwhy = "", "case_too_long"
					}
					if out.kcase != "" {
						kmu.Lock()
						kcases = append(kcases, kc{sc.Idx, out.kcase, out.faultHit > 0})
						kmu.Unlock()
						res.Count("k_mapped", 1)
						if out.faultHit > 0 {
							res.Count("k_mapped_with_fault_hit", 1)
						}
					} else {
						res.Count("k_unmapped_"+out.kwhy, 1)
					}
				}
				if out.msg != "" && out.known != "" {
					res.Count("known_finding_"+out.known, 1)
					kmu.Lock()
					first := !knownSeen[out.known]
					knownSeen[out.known] = true
					kmu.Unlock()
					if first {
						res.ViolateKnown(fmt.Sprintf("%s [faults %s armed at step %d healed at step %d; %s]", out.msg, strings.Join(fs, " + "), sc.ArmStep, sc.HealStep, sc.W.Cfg.String()), sc, out.known)
					}
					continue
				}
				if out.msg != "" && res.NViolations() < 6 {
					res.Violate(fmt.Sprintf("%s [faults %s armed at step %d healed at step %d; %s]", out.msg, strings.Join(fs, " + "), sc.ArmStep, sc.HealStep, sc.W.Cfg.String()), sc)
				}
			}
		}()
	}
	for i := 0; i < nscen; i++ {
		r := root.Fork()
		w := wl.GenWorkload(r, r.Range(20, 60))
		w.Seed = a.Seed*100000 + uint64(i)
		if r.Chance(1, 2) {
			w.Cfg.MaxManifest = 0
		}
		sc := &Scenario{W: w, Idx: i}
		if r.Chance(1, 3) {
			sc.ReadProbe = true
			w.Cfg.BlockCache = -1
			w.Cfg.WriteBuffer = 1024
			w.Cfg.BlockSize = 64
		}
		nf := 1
		if a.Thorough() && r.Chance(1, 3) {
			nf = 2
		}
		// a third of the scenarios target the journal with small histories (the write path proper)
		journalOnly := r.Chance(1, 3)
		if journalOnly {
			w.Cfg.WriteBuffer = 65536
			var steps []wl.Step
			for _, st := range w.Steps {
				if st.Kind == "write" && len(st.Recs) < 6 {
					steps = append(steps, st)
				}
			}
			if len(steps) > 12 {
				steps = steps[:12]
			}
			w.Steps = steps
		}
		for j := 0; j < nf; j++ {
			f := FaultSpec{Kind: int(kinds[r.Intn(len(kinds))]), Type: int(types[r.Intn(len(types))]), K: r.Intn(6), Persistent: r.Chance(1, 4)}
			if journalOnly {
				f.Type = int(storage.TypeJournal)
				f.Kind = int([]vstor.OpKind{vstor.OpSync, vstor.OpSync, vstor.OpWrite}[r.Intn(3)])
				f.Persistent = false
				f.K = r.Intn(4)
			}
			if vstor.OpKind(f.Kind) == vstor.OpWrite && r.Chance(1, 2) {
				f.Partial = r.Range(0, 1000)
			}
			if vstor.OpKind(f.Kind) == vstor.OpWrite && storage.FileType(f.Type) == storage.TypeTable {
				f.K = r.Intn(40)
			}
			sc.Faults = append(sc.Faults, f)
		}
		n := len(w.Steps)
		if n == 0 {
			continue
		}
		sc.ArmStep = r.Intn(n)
		sc.HealStep = sc.ArmStep + 1 + r.Intn(n-sc.ArmStep)
		// directed family: a persistent fault on exactly one (kind, manifest) pair while a transaction commits and the
		// manifest rotates on every commit (MaxManifestFileSize 1): commit-time errors after the point of no return
		// (e.g. removing the old manifest) must not make the transaction's discard destroy what the manifest names
		if i%16 == 7 && !journalOnly {
			var txns []int
			for si, st := range w.Steps {
				if st.Kind == "txn" {
					txns = append(txns, si)
				}
			}
			if len(txns) > 0 {
				w.Cfg.MaxManifest = 1
				k := []vstor.OpKind{vstor.OpRemove, vstor.OpCloseW, vstor.OpCreate, vstor.OpSync, vstor.OpWrite}[(i/16)%5]
				sc.Faults = []FaultSpec{{Kind: int(k), Type: int(storage.TypeManifest), K: 0, Persistent: true}}
				sc.ArmStep = txns[r.Intn(len(txns))]
				sc.HealStep = sc.ArmStep + 1
				res.Count("directed_manifest_fault_at_txn", 1)
			}
		}
		// one scenario in sixteen is directed at a failing commit: a few writes, then a transaction (or a batch above
		// the write buffer) whose manifest write or sync fails — persistently (every retry and the discard's own fresh
		// manifest fail too) or once —, the fault removed right after it, then a few acknowledged writes and the end
		if i%16 == 5 && !journalOnly {
			var small, victims []wl.Step
			for _, st := range w.Steps {
				switch {
				case st.Kind == "txn", st.Kind == "write" && len(st.Recs) > w.Cfg.WriteBuffer/300 && !w.Cfg.NoLargeBatchTxn:
					victims = append(victims, st)
				case st.Kind == "write" && len(st.Recs) < 6:
					st.Sync = true
					small = append(small, st)
				}
			}
			if len(victims) > 0 && len(small) >= 4 {
				pre, post := r.Intn(3), 1+r.Intn(3)
				var steps []wl.Step
				steps = append(steps, small[:pre]...)
				steps = append(steps, wl.Step{Kind: "idle"})
				steps = append(steps, victims[r.Intn(len(victims))])
				steps = append(steps, small[pre:pre+post]...)
				w.Steps = steps
				sc.ReadProbe = false
				f := FaultSpec{Kind: int([]vstor.OpKind{vstor.OpSync, vstor.OpSync, vstor.OpWrite}[r.Intn(3)]), Type: int(storage.TypeManifest), K: 0, Persistent: r.Chance(2, 3)}
				if vstor.OpKind(f.Kind) == vstor.OpWrite {
					f.Partial = []int{0, 1000, r.Range(0, 1000)}[r.Intn(3)]
				}
				sc.Faults = []FaultSpec{f}
				sc.ArmStep = pre + 1
				sc.HealStep = pre + 2
				res.Count("directed_failing_commit", 1)
			}
		}
		if i < 2 {
			res.Sample(map[string]interface{}{"faults": sc.Faults, "arm_step": sc.ArmStep, "heal_step": sc.HealStep, "steps": len(w.Steps), "cfg": w.Cfg.String()})
		}
		if guard.Skip(i) {
			continue
		}
		jobs <- sc
	}
	close(jobs)
	wg.Wait()
	ndeep := 64
	if a.Thorough() {
		ndeep = 1200
	} else if strings.Contains(a.Extra, "search") {
		ndeep = 400
	}
	runDeepFamily(a.Seed, ndeep, res)
	// deterministic order; scenarios in which a fault fired first; bounded text per file
	sort.Slice(kcases, func(i, j int) bool {
		if kcases[i].hit != kcases[j].hit {
			return kcases[i].hit
		}
		return kcases[i].idx < kcases[j].idx
	})
	var texts []string
	total := 0
	for _, k := range kcases {
		if total+len(k.text) > 16*250000 {
			break
		}
		total += len(k.text)
		texts = append(texts, k.text)
	}
	res.WriteCases("From GL Require Import Store.Crash Store.Faults Corr.C08Run.", "c08case", "mismatches", texts, 16)
}
