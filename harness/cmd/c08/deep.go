package main

import (
	"fmt"
	"sync"
	"sync/atomic"

	"verifharness/lib/dbh"
	"verifharness/lib/vlib"
)

// runDeepFamily: the directed family "an acknowledged Delete survives a retried table compaction".  The marker workloads
// above rarely build more than two levels, and a deletion marker is only at stake when the value it hides lives two or
// more levels below the compaction that carries it.  dbh.RunDeep builds three or more levels (tiny table and level
// sizes, natural size-triggered compactions and CompactRange of sub-ranges), issues waves of acknowledged Deletes (the
// last wave stays in level 0), arms ONE transient table write/sync/create fault, runs DB.CompactRange over everything
// (compactionTransact retries the builder), heals, lets the DB settle and compares: every deleted key must be not-found,
// every other key must hold its last acknowledged value, a full scan must equal the oracle, also after a final
// fault-free range compaction; one scenario in four also holds a snapshot taken after the deletions.  It runs after the
// marker scenarios (dbh installs its own process-wide commit hook).
func runDeepFamily(seed uint64, n int, res *vlib.Result) {
	// consecutive seeds give vlib.NewRNG consecutive splitmix states (the same stream shifted by one): spread them first
	root := vlib.NewRNG((seed + 0xc08d) * 0x2545f4914f6cdd1d)
	jobs := make(chan dbh.DeepSpec)
	var wg sync.WaitGroup
	var nFail int32
	for w := 0; w < 16; w++ {
		wg.Add(1)
		go func() {
			defer wg.Done()
			for ds := range jobs {
				dr := dbh.RunDeep(ds, false)
				res.Eval(fmt.Sprintf("deep-%d", ds.DeepSeed), dr.Stats["deep_compaction_fault_hits"] > 0)
				res.Count("deep_scenarios", 1)
				for k, v := range dr.Stats {
					res.Count(k, v)
				}
				if dr.Failure != "" {
					res.Count("deep_scenarios_failed", 1)
					if atomic.AddInt32(&nFail, 1) <= 4 {
						res.Violate(dr.Failure+fmt.Sprintf(" [deep-tree scenario seed %d snapshot=%v]", ds.DeepSeed, ds.Snapshot), ds)
					}
				}
			}
		}()
	}
	for i := 0; i < n && atomic.LoadInt32(&nFail) < 4; i++ {
		jobs <- dbh.DeepSpec{DeepSeed: root.Uint64() >> 1, Snapshot: i%4 == 3, NoDrive: true}
	}
	close(jobs)
	wg.Wait()
}
