package main

// (K) correspondence for leveldb.Recover on REAL file bytes (Store/RepairBytes.v recover_bytes, Corr/C19BytesRun.v).
// A small DB is built by Open/write/Close rounds (every reopen flushes the previous journal into a new level-0
// table; NoCompression; with and without bloom filter; all comparers), the manifest is removed or replaced by
// garbage, one damage variant is applied to one table file (a byte altered in a data block / in the index block /
// in the footer, a truncation, an empty file, a garbage file with a table name, and the data-block alteration
// under StrictRecovery), and the real Recover runs on a storage that keeps the log lines.  The case carries every
// file as bytes and what Recover did: per table the verdict and the counters of its log line, the sequence number
// recoverTable recorded, db.seq, the level-0 order, a sample of Gets, the files afterwards with length and CRC-32C.

import (
	"encoding/binary"
	"fmt"
	"hash/crc32"
	"regexp"
	"sort"
	"strconv"
	"strings"
	"sync"

	"github.com/syndtr/goleveldb/leveldb"
	"github.com/syndtr/goleveldb/leveldb/errors"
	"github.com/syndtr/goleveldb/leveldb/filter"
	"github.com/syndtr/goleveldb/leveldb/opt"
	"github.com/syndtr/goleveldb/leveldb/storage"

	"verifharness/lib/vlib"
	"verifharness/lib/vstor"
)

var kbCastagnoli = crc32.MakeTable(crc32.Castagnoli)

type logStor struct {
	*vstor.Stor
	mu    sync.Mutex
	lines []string
}

func (l *logStor) Log(s string) {
	l.mu.Lock()
	l.lines = append(l.lines, s)
	l.mu.Unlock()
}

type kbOpts struct {
	cid       int
	blockSize int
	ri        int
	bloom     bool
	bpk       int
	strict    bool
	wbuf      int
}

func (k kbOpts) options() *opt.Options {
	st := opt.StrictBlockChecksum | opt.StrictJournalChecksum
	if k.strict {
		st |= opt.StrictRecovery
	}
	o := &opt.Options{
		WriteBuffer: k.wbuf, Compression: opt.NoCompression, BlockSize: k.blockSize, BlockRestartInterval: k.ri,
		Comparer: vlib.ComparerByID(k.cid), Strict: st,
		CompactionL0Trigger: 1000, WriteL0SlowdownTrigger: 2000, WriteL0PauseTrigger: 3000,
		CompactionTotalSize: 1 << 30, DisableSeeksCompaction: true, DisableBlockCache: true,
		DisableCompactionBackoff: true,
	}
	if k.bloom {
		o.Filter = filter.NewBloomFilter(k.bpk)
	}
	return o
}

type kbStat struct {
	num                                    int64
	verdict                                int // 0 kept, 1 rebuilt, 2 dropped
	good, ckeys, cblocks, seq, size uint64
}

var (
	reRecovered = regexp.MustCompile(`^table@recovery (recovered|dropped) @(\d+) Gk·(\d+) Ck·(\d+) Cb·(\d+) S·(\d+) Q·(\d+)$`)
	reUnrec     = regexp.MustCompile(`^table@recovery unrecoverable @(\d+) Ck·(\d+) Cb·(\d+) S·(\d+)$`)
	reRebuild   = regexp.MustCompile(`^table@recovery rebuilding @(\d+)$`)
	reTotal     = regexp.MustCompile(`^table@recovery recovered F·(\d+) N·(\d+) Gk·(\d+) Ck·(\d+) Q·(\d+)$`)
)

func u(s string) uint64 { x, _ := strconv.ParseUint(s, 10, 64); return x }

func parseRecoverLog(lines []string) (stats []kbStat, seqTables uint64) {
	rebuilding := map[int64]bool{}
	for _, l := range lines {
		if m := reRebuild.FindStringSubmatch(l); m != nil {
			rebuilding[int64(u(m[1]))] = true
		} else if m := reRecovered.FindStringSubmatch(l); m != nil {
			s := kbStat{num: int64(u(m[2])), good: u(m[3]), ckeys: u(m[4]), cblocks: u(m[5]), size: u(m[6]), seq: u(m[7])}
			if m[1] == "dropped" {
				s.verdict = 2
			} else if rebuilding[s.num] {
				s.verdict = 1
			}
			stats = append(stats, s)
		} else if m := reUnrec.FindStringSubmatch(l); m != nil {
			stats = append(stats, kbStat{num: int64(u(m[1])), verdict: 2, ckeys: u(m[2]), cblocks: u(m[3]), size: u(m[4])})
		} else if m := reTotal.FindStringSubmatch(l); m != nil {
			seqTables = u(m[5])
		}
	}
	return
}

// footer handles of a table file: (metaindex offset, length), (index offset, length)
func footerHandles(d []byte) (mo, ml, io, il uint64, ok bool) {
	if len(d) < 48 {
		return
	}
	f := d[len(d)-48:]
	var n, t int
	if mo, n = binary.Uvarint(f); n <= 0 {
		return
	}
	t = n
	if ml, n = binary.Uvarint(f[t:]); n <= 0 {
		return
	}
	t += n
	if io, n = binary.Uvarint(f[t:]); n <= 0 {
		return
	}
	t += n
	if il, n = binary.Uvarint(f[t:]); n <= 0 {
		return
	}
	return mo, ml, io, il, true
}

func kbKey(r *vlib.RNG, cid, i int) []byte {
	k := []byte(fmt.Sprintf("key%03d", i))
	if cid == vlib.CmpCaseFold && r.Bool() {
		k = []byte(strings.ToUpper(string(k)))
	}
	if i%7 == 3 {
		k = append(k, byte(0xff), byte(i))
	}
	return k
}

// genBytesCase builds one case; "" = nothing usable came out (never expected).
func genBytesCase(r *vlib.RNG, idx int) (text string, note string) {
	variant := idx % 8
	k := kbOpts{cid: []int{0, 1, 2, 3, 4, 0, 2, 1}[(idx/8+idx)%8], blockSize: []int{96, 160, 256, 400}[r.Intn(4)],
		ri: []int{1, 2, 4, 16}[r.Intn(4)], bloom: (idx/2)%2 == 1, bpk: 10, strict: variant == 7, wbuf: 1 << 20}
	if k.cid == vlib.CmpCaseFold {
		k.bloom = false // known finding: non-injective comparer + bloom filter
	}
	base := vstor.New(false)
	rounds := r.Range(2, 4)
	npool := r.Range(12, 40)
	val := func() []byte { return r.Bytes(r.Range(0, 24), []byte("abcdefghijklmnopqrstuvwxyz0123456789")) }
	for rd := 0; rd <= rounds; rd++ {
		db, err := leveldb.Open(base, k.options())
		if err != nil {
			return "", "build: open: " + err.Error()
		}
		last := rd == rounds
		if last && k.bloom {
			db.Close() // the journal stays empty: openDB's flush would need the filter generator in its second form
			break
		}
		n := r.Range(6, 30)
		if last {
			n = r.Range(0, 6)
		}
		for i := 0; i < n; i++ {
			key := kbKey(r, k.cid, r.Intn(npool))
			if r.Chance(1, 5) {
				err = db.Delete(key, nil)
			} else if r.Chance(1, 6) {
				b := new(leveldb.Batch)
				b.Put(key, val())
				b.Put(kbKey(r, k.cid, r.Intn(npool)), val())
				b.Delete(kbKey(r, k.cid, r.Intn(npool)))
				err = db.Write(b, nil)
			} else {
				err = db.Put(key, val(), nil)
			}
			if err != nil {
				db.Close()
				return "", "build: write: " + err.Error()
			}
		}
		db.Close()
	}
	img := base.Clone(false)
	// the manifest is lost or garbage
	for _, fd := range img.ListAll() {
		if fd.Type == storage.TypeManifest {
			if r.Bool() {
				img.DeleteFile(fd)
			} else {
				img.SetFileBytes(fd, r.Bytes(r.Range(1, 60), []byte{0, 1, 7, 0x80, 0xff, 'x'}))
			}
		}
	}
	if r.Bool() {
		img.ClearMeta()
	}
	var tables []storage.FileDesc
	maxNum := int64(0)
	for _, fd := range img.ListAll() {
		if fd.Type == storage.TypeTable {
			tables = append(tables, fd)
		}
		if fd.Num > maxNum {
			maxNum = fd.Num
		}
	}
	if len(tables) == 0 {
		return "", "build: no table"
	}
	victim := tables[r.Intn(len(tables))]
	data, _, _ := img.FileBytes(victim)
	data = append([]byte(nil), data...)
	_, _, io, il, ok := footerHandles(data)
	flip := func(pos int) {
		if pos >= 0 && pos < len(data) {
			data[pos] ^= byte(1 << uint(r.Intn(8)))
		}
	}
	switch variant {
	case 1, 7: // a byte of a data block
		if ok && io > 0 {
			// the data blocks end where the filter/metaindex block starts; stay below the first of them
			lim := int(io)
			if mo, _, _, _, ok2 := footerHandles(data); ok2 && int(mo) < lim {
				lim = int(mo)
			}
			if k.bloom {
				// the filter block lies between the data blocks and the metaindex block: aim at the first half
				lim = lim / 2
			}
			if lim < 1 {
				lim = 1
			}
			flip(r.Intn(lim))
		}
		img.SetFileBytes(victim, data)
	case 2: // a byte of the index block
		if ok {
			flip(int(io) + r.Intn(int(il)+5))
		}
		img.SetFileBytes(victim, data)
	case 3: // a byte of the footer
		flip(len(data) - 48 + r.Intn(48))
		img.SetFileBytes(victim, data)
	case 4: // truncated
		img.SetFileBytes(victim, data[:r.Intn(len(data))])
	case 5: // empty
		img.SetFileBytes(victim, nil)
	case 6: // garbage with a table name
		num := maxNum + int64(r.Range(1, 3))
		if r.Bool() && victim.Num > 1 {
			num = victim.Num // over an existing table
		}
		img.SetFileBytes(storage.FileDesc{Type: storage.TypeTable, Num: num}, r.Bytes(r.Range(1, 120), []byte{0, 1, 0x57, 0xfb, 0x80, 0x8b, 0x24, 0x75, 0x47, 0xdb, 'a'}))
	}
	// the image as the model sees it
	var fls []string
	total := 0
	for _, fd := range img.ListAll() {
		d, _, _ := img.FileBytes(fd)
		total += len(d)
		fls = append(fls, fmt.Sprintf("KBF %d %d %s", int(fd.Type), fd.Num, vlib.CoqHex(d)))
	}
	if total > 30000 {
		return "", "image too large"
	}
	// the real Recover
	ls := &logStor{Stor: img.Clone(false)}
	var db *leveldb.DB
	var err error
	func() {
		defer func() {
			if x := recover(); x != nil {
				err = fmt.Errorf("panic: %v", x)
			}
		}()
		db, err = leveldb.Recover(ls, k.options())
	}()
	cname := vlib.ComparerByID(k.cid).Name()
	fname := "None"
	if k.bloom {
		fname = "(Some " + vlib.CoqHex([]byte(filter.NewBloomFilter(k.bpk).Name())) + ")"
	}
	head := fmt.Sprintf("KRecoverB (KRB %d %s %s %d %d %s %d 11 %d %d\n  [%s]\n  ", k.cid, vlib.CoqHex([]byte(cname)),
		vlib.CoqBool(k.strict), k.blockSize, k.ri, fname, k.bpk, k.wbuf, int64(64<<20), strings.Join(fls, ";\n   "))
	if err != nil {
		cl := 9
		if errors.IsCorrupted(err) {
			cl = 1
		}
		return head + fmt.Sprintf("(KBFail %d))", cl), fmt.Sprintf("v%d fail %d", variant, cl)
	}
	stats, seqTables := parseRecoverLog(ls.lines)
	seqEnd := leveldb.VerifSeq(db)
	var l0 []int64
	for _, t := range leveldb.VerifDumpVersion(db) {
		if t.Level == 0 {
			l0 = append(l0, t.Num)
		}
	}
	var qs []string
	for i := 0; i < 14; i++ {
		key := kbKey(r, k.cid, r.Intn(npool+2))
		v, gerr := db.Get(key, nil)
		if gerr == nil {
			qs = append(qs, fmt.Sprintf("(%s, Some %s)", vlib.CoqHex(key), vlib.CoqHex(v)))
		} else if gerr == leveldb.ErrNotFound {
			qs = append(qs, fmt.Sprintf("(%s, None)", vlib.CoqHex(key)))
		}
	}
	db.Close()
	var after []string
	fds := ls.ListAll()
	sort.Slice(fds, func(i, j int) bool {
		if fds[i].Type != fds[j].Type {
			return fds[i].Type < fds[j].Type
		}
		return fds[i].Num < fds[j].Num
	})
	for _, fd := range fds {
		d, _, _ := ls.FileBytes(fd)
		after = append(after, fmt.Sprintf("(%d, %d, %d, %d)", int(fd.Type), fd.Num, len(d), crc32.Checksum(d, kbCastagnoli)))
	}
	var ss []string
	nk, nr, nd := 0, 0, 0
	for _, s := range stats {
		ss = append(ss, fmt.Sprintf("KBS %d %d %d %d %d %d %d", s.num, s.verdict, s.good, s.ckeys, s.cblocks, s.seq, s.size))
		switch s.verdict {
		case 0:
			nk++
		case 1:
			nr++
		default:
			nd++
		}
	}
	text = head + fmt.Sprintf("(KBOk [%s] %d %d %s [%s]\n   [%s]))", strings.Join(ss, "; "), seqTables, seqEnd, coqNums(l0),
		strings.Join(qs, "; "), strings.Join(after, "; "))
	return text, fmt.Sprintf("v%d kept%d rebuilt%d dropped%d", variant, nk, nr, nd)
}

// kBytesCases generates n cases in parallel, deterministically from root.
func kBytesCases(root *vlib.RNG, res *vlib.Result, n int) []string {
	rs := make([]*vlib.RNG, n)
	for i := range rs {
		rs[i] = root.Fork()
	}
	out := make([]string, n)
	notes := make([]string, n)
	var wg sync.WaitGroup
	sem := make(chan struct{}, 8)
	for i := 0; i < n; i++ {
		wg.Add(1)
		go func(i int) {
			defer wg.Done()
			sem <- struct{}{}
			defer func() { <-sem }()
			out[i], notes[i] = genBytesCase(rs[i], i)
		}(i)
	}
	wg.Wait()
	var cases []string
	for i, t := range out {
		if t == "" {
			res.Count("kbytes.skipped:"+notes[i], 1)
			continue
		}
		if len(t) > 70000 {
			res.Count("kbytes.too-long", 1)
			continue
		}
		res.Count("kbytes."+notes[i], 1)
		cases = append(cases, t)
	}
	return cases
}
