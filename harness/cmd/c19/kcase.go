package main

// Rendering of one correspondence case for Corr/C19Run.v:
//   KRecover cid strict files journal next queries seq_tables seq_end l0_tables l0_final
// files = the table files (shuffled order) as lists of blocks, each block flagged damaged or not; the model
// scans them as recoverTable does, registers the survivors at level 0, replays the journal batches and
// answers the queries at seq_end.

import (
	"fmt"
	"strings"

	"verifharness/lib/dbh"
	"verifharness/lib/vlib"
)

func coqHex(b []byte) string { return vlib.CoqHex(b) }

func coqEntry(e Entry) string {
	return fmt.Sprintf("KE %s %d %d %s", coqHex(e.Ukey), e.Seq, e.Kind, coqHex(dbh.Digest(e.Value)))
}

func coqEntries(es []Entry) string {
	items := make([]string, len(es))
	for i, e := range es {
		items[i] = coqEntry(e)
	}
	return "[" + strings.Join(items, "; ") + "]"
}

func coqNums(ns []int64) string {
	items := make([]string, len(ns))
	for i, n := range ns {
		items[i] = fmt.Sprintf("%d", n)
	}
	return "[" + strings.Join(items, "; ") + "]"
}

func renderK(cid int, strict bool, tables []*TableInfo, batches []JBatch, next int64, qs []string, seqTables, seqEnd uint64, l0a, l0b []int64) string {
	var fs []string
	// hand the files over in descending order: the model must sort them as recoverTable does
	for i := len(tables) - 1; i >= 0; i-- {
		t := tables[i]
		var bs []string
		for bi, b := range t.Blocks {
			bs = append(bs, fmt.Sprintf("KB %s %s", vlib.CoqBool(t.Damaged[bi]), coqEntries(b.Entries)))
		}
		fs = append(fs, fmt.Sprintf("KF %d [%s]", t.Num, strings.Join(bs, "; ")))
	}
	var js []string
	for _, b := range batches {
		js = append(js, fmt.Sprintf("KJ %d %s", b.Seq, coqEntries(b.Entries)))
	}
	return fmt.Sprintf("KRecover %d %s [%s] [%s] %d [%s] %d %d %s %s", cid, vlib.CoqBool(strict), strings.Join(fs, ";\n   "), strings.Join(js, "; "), next,
		strings.Join(qs, "; "), seqTables, seqEnd, coqNums(l0a), coqNums(l0b))
}
