package main

// Locating the data blocks of a table file and the entries each one holds, using only goleveldb's public
// table reader: the entries come from a full iteration, the block an entry lives in from Reader.OffsetOf
// (index seek -> offset of the data block handle).  Journal files are decoded with the public journal
// reader and Batch.Load/Replay.

import (
	"bytes"
	"encoding/binary"
	"fmt"
	"io"

	"github.com/syndtr/goleveldb/leveldb"
	"github.com/syndtr/goleveldb/leveldb/comparer"
	"github.com/syndtr/goleveldb/leveldb/journal"
	"github.com/syndtr/goleveldb/leveldb/opt"
	"github.com/syndtr/goleveldb/leveldb/storage"
	"github.com/syndtr/goleveldb/leveldb/table"
)

// ikeyCmp is the internal-key order over a user comparer (the harness's own copy: user key ascending,
// then packed (seq,kind) descending).  It never shortens.
type ikeyCmp struct{ u comparer.Comparer }

func (c ikeyCmp) Name() string { return c.u.Name() }
func (c ikeyCmp) Compare(a, b []byte) int {
	if len(a) < 8 || len(b) < 8 {
		return bytes.Compare(a, b)
	}
	if x := c.u.Compare(a[:len(a)-8], b[:len(b)-8]); x != 0 {
		return x
	}
	na, nb := binary.LittleEndian.Uint64(a[len(a)-8:]), binary.LittleEndian.Uint64(b[len(b)-8:])
	switch {
	case na > nb:
		return -1
	case na < nb:
		return 1
	}
	return 0
}
func (c ikeyCmp) Separator(dst, a, b []byte) []byte { return nil }
func (c ikeyCmp) Successor(dst, b []byte) []byte    { return nil }

// Entry is one stored entry.
type Entry struct {
	Ukey  []byte
	Seq   uint64
	Kind  uint // 0 = deletion, 1 = value
	Value []byte
}

// Block is one data block of a table file: byte range [Off, End) (End = -1: unknown, last block) and entries.
type Block struct {
	Off, End int64
	Entries  []Entry
}

// ParseTable lists the data blocks of an undamaged table file with their entries.
func ParseTable(data []byte, num int64, u comparer.Comparer) (blocks []Block, err error) {
	defer func() {
		if x := recover(); x != nil {
			err = fmt.Errorf("table %d: parser panic %v", num, x)
		}
	}()
	fd := storage.FileDesc{Type: storage.TypeTable, Num: num}
	o := &opt.Options{Comparer: ikeyCmp{u}, Strict: opt.DefaultStrict}
	r, err := table.NewReader(bytes.NewReader(data), int64(len(data)), fd, nil, nil, o)
	if err != nil {
		return nil, err
	}
	defer r.Release()
	it := r.NewIterator(nil, nil)
	defer it.Release()
	cur := int64(-1)
	for it.Next() {
		k := append([]byte(nil), it.Key()...)
		uk, seq, kind, perr := leveldb.VerifParseIKey(k)
		if perr != nil {
			return nil, fmt.Errorf("table %d: bad internal key %x", num, k)
		}
		off, oerr := r.OffsetOf(k)
		if oerr != nil {
			return nil, oerr
		}
		if off != cur {
			if off < cur {
				return nil, fmt.Errorf("table %d: block offsets not increasing (%d after %d)", num, off, cur)
			}
			if len(blocks) > 0 {
				blocks[len(blocks)-1].End = off
			}
			blocks = append(blocks, Block{Off: off, End: -1})
			cur = off
		}
		b := &blocks[len(blocks)-1]
		b.Entries = append(b.Entries, Entry{Ukey: append([]byte(nil), uk...), Seq: seq, Kind: kind, Value: append([]byte(nil), it.Value()...)})
	}
	if err := it.Error(); err != nil {
		return nil, err
	}
	return blocks, nil
}

// JBatch is one journal record: a write batch with its first sequence number.
type JBatch struct {
	Seq     uint64
	Entries []Entry
}

type replayer struct {
	seq uint64
	out []Entry
}

func (r *replayer) Put(k, v []byte) {
	r.out = append(r.out, Entry{Ukey: append([]byte(nil), k...), Seq: r.seq, Kind: 1, Value: append([]byte(nil), v...)})
	r.seq++
}
func (r *replayer) Delete(k []byte) {
	r.out = append(r.out, Entry{Ukey: append([]byte(nil), k...), Seq: r.seq, Kind: 0})
	r.seq++
}

// ParseJournal decodes every batch of an (undamaged) journal file.
func ParseJournal(data []byte) ([]JBatch, error) {
	jr := journal.NewReader(bytes.NewReader(data), nil, true, true)
	var out []JBatch
	for {
		r, err := jr.Next()
		if err == io.EOF {
			return out, nil
		}
		if err != nil {
			return out, err
		}
		rec, err := io.ReadAll(r)
		if err != nil {
			return out, err
		}
		if len(rec) < 12 {
			return out, fmt.Errorf("journal record of %d bytes", len(rec))
		}
		seq := binary.LittleEndian.Uint64(rec)
		n := int(binary.LittleEndian.Uint32(rec[8:]))
		b := new(leveldb.Batch)
		if err := b.Load(rec[12:]); err != nil {
			return out, err
		}
		rp := &replayer{seq: seq}
		if err := b.Replay(rp); err != nil {
			return out, err
		}
		if len(rp.out) != n {
			return out, fmt.Errorf("journal batch announces %d records, holds %d", n, len(rp.out))
		}
		out = append(out, JBatch{Seq: seq, Entries: rp.out})
	}
}
