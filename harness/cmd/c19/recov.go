package main

// One C19 case: run a DB program, shut down cleanly and settled, damage the manifest / CURRENT pointer (and
// optionally data blocks of tables) on a copy of the storage, call leveldb.Recover, and compare the recovered
// contents with the map oracle (undamaged) or with the entry-level rule of the property (damaged); then run a
// short ordinary program on the recovered DB.

import (
	"bytes"
	"fmt"
	"runtime/debug"
	"sort"
	"sync"
	"time"

	"github.com/syndtr/goleveldb/leveldb"
	"github.com/syndtr/goleveldb/leveldb/comparer"
	"github.com/syndtr/goleveldb/leveldb/opt"
	"github.com/syndtr/goleveldb/leveldb/storage"
	"verifharness/lib/dbh"
	"verifharness/lib/vstor"
)

// MDamage says what happens to the manifest file and to the CURRENT pointer.
type MDamage struct {
	Manifest string `json:"manifest"` // keep | delete | truncate | garbage | flip | empty
	Current  string `json:"current"`  // keep | clear | dangling
	A        uint64 `json:"a"`        // selector of the truncation offset / garbage seed
}

// BDamage flips one byte of one data block: table T (mod #tables, ascending by number), block B (mod #blocks),
// byte O (mod block span), xor mask X.
type BDamage struct {
	T uint32 `json:"t"`
	B uint32 `json:"b"`
	O uint32 `json:"o"`
	X byte   `json:"x"`
}

// Case is a replayable C19 case.
type Case struct {
	Prog *dbh.Program `json:"prog"`
	Tail []dbh.Op     `json:"tail"` // last writes, left in the journal
	MD   MDamage      `json:"md"`
	BD   []BDamage    `json:"bd"`
	Post []dbh.Op     `json:"post"` // ordinary program run on the recovered DB
	// Interrupt > 0: the Interrupt-th rename of a rebuilt table fails once (a first Recover is interrupted in
	// the middle of its table rebuilds and returns an error); Recover is then called again.
	Interrupt int `json:"interrupt,omitempty"`
	// StrictRecovery: Recover is called with opt.StrictRecovery (a table with any corruption is dropped as a
	// whole, as documented); only the exact-contents rule and "nothing invented" apply to such tables.
	StrictRecovery bool `json:"strict_recovery,omitempty"`
}

// Outcome of one case.
type Outcome struct {
	Fail    string         // non-empty: property violation
	Skipped string         // non-empty: the case could not be brought to the point of Recover
	Stats   map[string]int // distribution counters
	KCase   string         // rendered correspondence case ("" = none)
	NonTriv bool
}

// ---- process-wide commit hook, dispatched on the storage ----

type recorder struct {
	mu      sync.Mutex
	cmp     comparer.Comparer
	stor    *vstor.Stor
	checkWf bool
	cache   map[int64][]leveldb.VerifEntry
	edits   []leveldb.VerifEdit // Read is not valid after the hook call
	wf      []string
	tcomp   int
	maxLvl  int
}

var recorders sync.Map // storage.Storage -> *recorder

func dispatchEdit(e leveldb.VerifEdit) {
	x, ok := recorders.Load(e.Stor)
	if !ok {
		return
	}
	r := x.(*recorder)
	r.mu.Lock()
	defer r.mu.Unlock()
	if len(e.Deleted) > 0 && len(e.Added) > 0 && !(len(e.Deleted) == 1 && len(e.Added) == 1 && e.Deleted[0].Num == e.Added[0].Num) {
		r.tcomp++
	}
	for _, t := range e.Version {
		if t.Level+1 > r.maxLvl {
			r.maxLvl = t.Level + 1
		}
	}
	if r.checkWf {
		if msgs := dbh.CheckVersionWf(r.cmp, e, r.cache, r.stor); len(msgs) > 0 && len(r.wf) < 8 {
			r.wf = append(r.wf, msgs...)
		}
		e.Read = nil
		r.edits = append(r.edits, e)
	}
}

func register(st *vstor.Stor, cmp comparer.Comparer, checkWf bool) *recorder {
	r := &recorder{cmp: cmp, stor: st, checkWf: checkWf, cache: map[int64][]leveldb.VerifEntry{}}
	recorders.Store(storage.Storage(st), r)
	return r
}

func unregister(st *vstor.Stor) { recorders.Delete(storage.Storage(st)) }

// installHook makes dbh fire its once-only hook installation first, then takes the process-wide hook over.
func installHook() {
	p := &dbh.Program{Cfg: dbh.DefaultishCfg()}
	rn, _ := dbh.NewRunner(p, false)
	if err := rn.Open(); err == nil {
		rn.Close()
	}
	rn.Forget()
	leveldb.VerifSetCommitHook(dispatchEdit)
}

// ---- helpers ----

func toEntries(es []leveldb.VerifEntry) []Entry {
	out := make([]Entry, len(es))
	for i, e := range es {
		out[i] = Entry{Ukey: e.Ukey, Seq: e.Seq, Kind: e.Kind, Value: e.Value}
	}
	return out
}

func sameEntries(a, b []Entry) bool {
	if len(a) != len(b) {
		return false
	}
	for i := range a {
		if !bytes.Equal(a[i].Ukey, b[i].Ukey) || a[i].Seq != b[i].Seq || a[i].Kind != b[i].Kind || !bytes.Equal(a[i].Value, b[i].Value) {
			return false
		}
	}
	return true
}

// TableInfo is one table file before damage.
type TableInfo struct {
	Num     int64
	Level   int
	Blocks  []Block
	Damaged []bool
}

func short(b []byte) string {
	if len(b) > 20 {
		return fmt.Sprintf("%x..(%d bytes)", b[:20], len(b))
	}
	return fmt.Sprintf("%x", b)
}

// newestOf returns the entry with the largest sequence number (nil if none).
func newestOf(es []*Entry) *Entry {
	var best *Entry
	for _, e := range es {
		if best == nil || e.Seq > best.Seq {
			best = e
		}
	}
	return best
}

type located struct {
	e       *Entry
	damaged bool
}

// RunCase executes the case under a watchdog.
func RunCase(c *Case, wantK bool) Outcome {
	ch := make(chan Outcome, 1)
	go func() {
		var o Outcome
		o.Stats = map[string]int{}
		defer func() {
			if x := recover(); x != nil {
				s := fmt.Sprintf("%v\n%s", x, debug.Stack())
				if len(s) > 1800 {
					s = s[:1800]
				}
				o.Fail = "panic: " + s
			}
			ch <- o
		}()
		runCase(c, wantK, &o)
	}()
	select {
	case o := <-ch:
		return o
	case <-time.After(240 * time.Second):
		return Outcome{Fail: "case did not finish within the watchdog time (240 s)", Stats: map[string]int{"hung": 1}}
	}
}

func runCase(c *Case, wantK bool, o *Outcome) {
	cfg := c.Prog.Cfg
	rn, _ := dbh.NewRunner(c.Prog, false)
	cmp := rn.Cmp
	rec1 := register(rn.Stor, cmp, false)
	defer unregister(rn.Stor)
	defer rn.Forget()
	if err := rn.Open(); err != nil {
		o.Skipped = fmt.Sprintf("phase 1: Open error %v", err)
		return
	}
	for i := range c.Prog.Ops {
		if f := rn.Step(i, &c.Prog.Ops[i]); f != nil {
			rn.Close()
			o.Skipped = "phase 1 (before any damage): " + f.Error()
			o.Stats["skipped_phase1_failure"]++
			return
		}
	}
	// ---- clean, settled shutdown: reopen once (the open sweeps obsolete files), let the background work
	// finish, leave the last writes in the journal, close; repeat if a late compaction left obsolete tables.
	var (
		ver      []leveldb.VerifTable
		dumps    map[int64][]Entry
		live     []leveldb.VerifEntry
		seqClose uint64
		settled  bool

		tableAboveJournal bool
		hasFrozen         bool
	)
	for attempt := 0; attempt < 3 && !settled; attempt++ {
		if err := rn.Close(); err != nil {
			o.Skipped = fmt.Sprintf("phase 1: Close error %v", err)
			return
		}
		// first reopen: replays and flushes the journal, which may start compactions whose inputs are removed
		// asynchronously; second reopen: sweeps what was left, nothing to flush, nothing to compact
		for cycle := 0; cycle < 2; cycle++ {
			if err := rn.Open(); err != nil {
				o.Skipped = fmt.Sprintf("phase 1: reopen error %v", err)
				return
			}
			if !leveldb.VerifWaitIdle(rn.DB, 30*time.Second) {
				o.Stats["waitidle_timeout"]++
			}
			if cycle == 0 {
				if err := rn.Close(); err != nil {
					o.Skipped = fmt.Sprintf("phase 1: Close error %v", err)
					return
				}
			}
		}
		for i := range c.Tail {
			if f := rn.Step(len(c.Prog.Ops)+i, &c.Tail[i]); f != nil {
				rn.Close()
				o.Skipped = "phase 1 (tail writes): " + f.Error()
				o.Stats["skipped_phase1_failure"]++
				return
			}
		}
		if !leveldb.VerifWaitIdle(rn.DB, 30*time.Second) {
			rn.Close()
			o.Skipped = "phase 1: the DB did not become idle within 30 s"
			o.Stats["skipped_waitidle_timeout"]++
			return
		}
		ver = leveldb.VerifDumpVersion(rn.DB)
		dumps = map[int64][]Entry{}
		for _, t := range ver {
			es, err := leveldb.VerifTableEntries(rn.DB, t)
			if err != nil {
				rn.Close()
				o.Skipped = fmt.Sprintf("phase 1: cannot read table %d: %v", t.Num, err)
				return
			}
			dumps[t.Num] = toEntries(es)
		}
		live, _, hasFrozen = leveldb.VerifMemEntries(rn.DB)
		seqClose = leveldb.VerifSeq(rn.DB)
		if err := rn.Close(); err != nil {
			o.Skipped = fmt.Sprintf("phase 1: Close error %v", err)
			return
		}
		settled = !hasFrozen
		liveNums := map[int64]bool{}
		for _, t := range ver {
			liveNums[t.Num] = true
		}
		nt := 0
		for _, fd := range rn.Stor.ListAll() {
			if fd.Type == storage.TypeTable {
				nt++
				if !liveNums[fd.Num] {
					settled = false
				}
			}
		}
		if nt != len(ver) {
			settled = false
		}
		if !settled {
			o.Stats["settle_retries"]++
		}
		maxT, minJ := int64(-1), int64(1)<<62
		for _, fd := range rn.Stor.ListAll() {
			if fd.Type == storage.TypeTable && fd.Num > maxT {
				maxT = fd.Num
			}
			if fd.Type == storage.TypeJournal && fd.Num < minJ {
				minJ = fd.Num
			}
		}
		tableAboveJournal = maxT > minJ
	}
	base := rn.Stor
	if hasFrozen {
		o.Skipped = "phase 1: a frozen write buffer was still pending at shutdown"
		o.Stats["skipped_frozen_at_shutdown"]++
		return
	}
	if !settled {
		// the checker sweeps what the DB left: only live tables may be present ("settled")
		o.Stats["swept_by_checker"]++
		liveNums := map[int64]bool{}
		for _, t := range ver {
			liveNums[t.Num] = true
		}
		for _, fd := range base.ListAll() {
			if fd.Type == storage.TypeTable && !liveNums[fd.Num] {
				base.DeleteFile(fd)
			}
		}
	}
	rec1.mu.Lock()
	o.Stats["phase1_table_compactions"] += rec1.tcomp
	rec1.mu.Unlock()

	// ---- what is stored: tables (per block) and journals
	var tables []*TableInfo
	sort.Slice(ver, func(i, j int) bool { return ver[i].Num < ver[j].Num })
	nlevels := map[int]bool{}
	nEntries, nTomb := 0, 0
	for _, t := range ver {
		nlevels[t.Level] = true
		data, _, ok := base.FileBytes(storage.FileDesc{Type: storage.TypeTable, Num: t.Num})
		if !ok {
			o.Fail = fmt.Sprintf("live table %d has no file after a clean shutdown", t.Num)
			return
		}
		blocks, err := ParseTable(data, t.Num, cmp)
		if err != nil {
			o.Fail = fmt.Sprintf("harness cannot parse undamaged table %d: %v", t.Num, err)
			return
		}
		var flat []Entry
		for _, b := range blocks {
			flat = append(flat, b.Entries...)
		}
		if !sameEntries(flat, dumps[t.Num]) {
			o.Fail = fmt.Sprintf("table %d: entries read by the harness's block parser differ from the DB's own dump (%d vs %d entries)", t.Num, len(flat), len(dumps[t.Num]))
			return
		}
		for _, e := range flat {
			nEntries++
			if e.Kind == 0 {
				nTomb++
			}
		}
		tables = append(tables, &TableInfo{Num: t.Num, Level: t.Level, Blocks: blocks, Damaged: make([]bool, len(blocks))})
	}
	var batches []JBatch
	var jfds []storage.FileDesc
	for _, fd := range base.ListAll() {
		if fd.Type == storage.TypeJournal {
			jfds = append(jfds, fd)
		}
	}
	sort.Slice(jfds, func(i, j int) bool { return jfds[i].Num < jfds[j].Num })
	for _, fd := range jfds {
		data, _, _ := base.FileBytes(fd)
		bs, err := ParseJournal(data)
		if err != nil {
			o.Fail = fmt.Sprintf("harness cannot parse journal %d after a clean shutdown: %v", fd.Num, err)
			return
		}
		batches = append(batches, bs...)
	}
	nJournal := 0
	for _, b := range batches {
		nJournal += len(b.Entries)
	}
	if nJournal != len(live) {
		o.Fail = fmt.Sprintf("journal files hold %d entries, the write buffer held %d at shutdown", nJournal, len(live))
		return
	}
	if len(jfds) != 1 {
		o.Stats["journal_files_not_1"]++
	}

	// ---- block damage on a copy
	st := base.Clone(false)
	flipped := map[[2]int64]bool{}
	if len(tables) > 0 {
		for _, d := range c.BD {
			ti := tables[int(d.T)%len(tables)]
			if len(ti.Blocks) == 0 {
				continue
			}
			bi := int(d.B) % len(ti.Blocks)
			b := ti.Blocks[bi]
			span := int64(9)
			if b.End > b.Off {
				span = b.End - b.Off
			}
			pos := b.Off + int64(d.O)%span
			if flipped[[2]int64{ti.Num, pos}] {
				continue
			}
			flipped[[2]int64{ti.Num, pos}] = true
			fd := storage.FileDesc{Type: storage.TypeTable, Num: ti.Num}
			data, _, _ := st.FileBytes(fd)
			x := d.X
			if x == 0 {
				x = 0x01
			}
			if pos >= int64(len(data)) {
				continue
			}
			data[pos] ^= x
			st.SetFileBytes(fd, data)
			ti.Damaged[bi] = true
		}
	}
	nDamagedBlocks, nDamagedTables, nDeadTables := 0, 0, 0
	for _, ti := range tables {
		n := 0
		for _, d := range ti.Damaged {
			if d {
				n++
			}
		}
		nDamagedBlocks += n
		if n > 0 {
			nDamagedTables++
		}
		if n == len(ti.Blocks) && n > 0 {
			nDeadTables++
		}
	}
	damaged := nDamagedBlocks > 0

	// ---- manifest / CURRENT damage
	var mfds []storage.FileDesc
	for _, fd := range st.ListAll() {
		if fd.Type == storage.TypeManifest {
			mfds = append(mfds, fd)
		}
	}
	gr := newXorShift(c.MD.A)
	for _, fd := range mfds {
		data, _, _ := st.FileBytes(fd)
		switch c.MD.Manifest {
		case "delete":
			st.DeleteFile(fd)
		case "truncate":
			st.SetFileBytes(fd, data[:int(c.MD.A%uint64(len(data)+1))])
		case "empty":
			st.SetFileBytes(fd, nil)
		case "garbage":
			g := make([]byte, len(data)+int(gr()%64))
			for i := range g {
				g[i] = byte(gr())
			}
			st.SetFileBytes(fd, g)
		case "flip":
			if len(data) > 0 {
				for i := 0; i < 1+int(gr()%4); i++ {
					data[int(gr()%uint64(len(data)))] ^= byte(1 + gr()%255)
				}
				st.SetFileBytes(fd, data)
			}
		}
	}
	switch c.MD.Current {
	case "clear":
		st.ClearMeta()
	case "dangling":
		st.SetMeta(storage.FileDesc{Type: storage.TypeManifest, Num: 900000 + int64(c.MD.A%1000)})
	}
	o.Stats["manifest_"+c.MD.Manifest]++
	o.Stats["current_"+c.MD.Current]++

	// ---- the entry-level picture
	perKey := map[string][]located{}
	var order []string
	add := func(e *Entry, dmg bool) {
		k := string(e.Ukey)
		if _, ok := perKey[k]; !ok {
			order = append(order, k)
		}
		perKey[k] = append(perKey[k], located{e, dmg})
	}
	var maxSurvivingTableSeq, maxStoredSeq uint64
	for _, ti := range tables {
		for bi := range ti.Blocks {
			for ei := range ti.Blocks[bi].Entries {
				e := &ti.Blocks[bi].Entries[ei]
				lost := ti.Damaged[bi] || (c.StrictRecovery && anyDamaged(ti))
				add(e, lost)
				if !lost && e.Seq > maxSurvivingTableSeq {
					maxSurvivingTableSeq = e.Seq
				}
			}
		}
	}
	for bi := range batches {
		for ei := range batches[bi].Entries {
			add(&batches[bi].Entries[ei], false)
		}
	}
	for _, k := range c.Prog.Pool {
		if _, ok := perKey[string(k)]; !ok {
			perKey[string(k)] = nil
			order = append(order, string(k))
		}
	}
	// contents before damage must be the oracle's (sanity of harness and of C01)
	expected := dbh.Oracle{}
	for _, k := range order {
		var all, surv []*Entry
		for _, l := range perKey[k] {
			all = append(all, l.e)
			if !l.damaged {
				surv = append(surv, l.e)
				if l.e.Seq > maxStoredSeq {
					maxStoredSeq = l.e.Seq
				}
			}
		}
		n := newestOf(all)
		want, has := rn.Model[k]
		if (n != nil && n.Kind == 1) != has || (has && !bytes.Equal(n.Value, want)) {
			o.Fail = fmt.Sprintf("before any damage: newest stored entry of key %x disagrees with the map oracle (stored %v, oracle has=%v)", k, n != nil && n.Kind == 1, has)
			return
		}
		if s := newestOf(surv); s != nil && s.Kind == 1 {
			expected[k] = s.Value
		}
	}
	if seqClose < maxStoredSeq {
		o.Fail = fmt.Sprintf("before any damage: DB sequence number %d below a stored entry's %d", seqClose, maxStoredSeq)
		return
	}

	// ---- Recover
	rec2 := register(st, cmp, true)
	defer unregister(st)
	opts := cfg.Options()
	if c.StrictRecovery {
		opts.Strict = opt.DefaultStrict | opt.StrictRecovery
		o.Stats["strict_recovery_cases"]++
	}
	what := "manifest " + c.MD.Manifest + ", CURRENT " + c.MD.Current + fmt.Sprintf(", %d damaged blocks in %d tables", nDamagedBlocks, nDamagedTables)
	if c.StrictRecovery {
		what += ", StrictRecovery"
	}
	if c.Interrupt > 0 && nDamagedTables-nDeadTables > 0 && !c.StrictRecovery {
		ft := &vstor.Fault{Kind: vstor.OpRename, Type: storage.TypeTemp, K: (c.Interrupt - 1) % (nDamagedTables - nDeadTables)}
		st.AddFault(ft)
		db0, err0 := leveldb.Recover(st, opts)
		st.Heal()
		if ft.Hits > 0 {
			o.Stats["interrupted_recovers"]++
			what += ", after a first Recover interrupted at a table rename"
			if err0 == nil {
				db0.Close()
				o.Fail = fmt.Sprintf("Recover (%s) reported success although renaming a rebuilt table failed", what)
				return
			}
		} else if err0 == nil {
			// the fault did not fire (fewer rebuilds than expected): this was an ordinary Recover
			db0.Close()
			o.Stats["interrupt_not_reached"]++
		} else {
			o.Fail = fmt.Sprintf("Recover failed (%s): %v", what, err0)
			return
		}
	}
	db, err := leveldb.Recover(st, opts)
	if err != nil {
		o.Fail = fmt.Sprintf("Recover failed (%s): %v", what, err)
		return
	}
	// exact contents are checked through a dbh runner attached to the recovered DB
	postProg := &dbh.Program{Seed: c.Prog.Seed, Cfg: cfg, Pool: c.Prog.Pool, Ops: c.Post}
	rn2, _ := dbh.NewRunner(postProg, false)
	rn2.Stor = st
	rn2.DB = db
	rn2.Hooks = dbh.Hooks{CheckEvery: 4}
	if len(c.Prog.Pool) > 100 {
		rn2.Hooks.CheckEvery = 12
	}
	defer rn2.Forget()
	defer rn2.Close()
	seqAfter := leveldb.VerifSeq(db)
	if seqAfter < maxStoredSeq {
		o.Fail = fmt.Sprintf("after Recover (%s) the sequence number is %d, below a stored entry's %d", what, seqAfter, maxStoredSeq)
		return
	}
	// mandatory rules of the property, key by key
	type obs struct {
		k   []byte
		v   []byte
		has bool
	}
	var observed []obs
	for _, k := range order {
		v, gerr := db.Get([]byte(k), nil)
		if gerr != nil && gerr != leveldb.ErrNotFound {
			o.Fail = fmt.Sprintf("after Recover (%s): Get(%x) error %v", what, k, gerr)
			return
		}
		found := gerr == nil
		observed = append(observed, obs{[]byte(k), v, found})
		var all []*Entry
		dmgOf := map[*Entry]bool{}
		for _, l := range perKey[k] {
			all = append(all, l.e)
			dmgOf[l.e] = l.damaged
		}
		n := newestOf(all)
		if n != nil && !dmgOf[n] {
			if n.Kind == 1 && (!found || !bytes.Equal(v, n.Value)) {
				o.Fail = fmt.Sprintf("after Recover (%s): key %x: newest entry (seq %d, value %s) sits in an undamaged block but Get returned found=%v %s", what, k, n.Seq, short(n.Value), found, short(v))
				return
			}
			if n.Kind == 0 && found {
				o.Fail = fmt.Sprintf("after Recover (%s): key %x: newest entry is a deletion (seq %d) in an undamaged block but Get returned %s", what, k, n.Seq, short(v))
				return
			}
		}
		if found {
			ok := false
			for _, e := range all {
				if e.Kind == 1 && bytes.Equal(e.Value, v) {
					ok = true
				}
			}
			if !ok {
				o.Fail = fmt.Sprintf("after Recover (%s): Get(%x) returned %s which was never written for this key", what, k, short(v))
				return
			}
		}
	}
	// exact contents: Get/Has of every pool key + absent keys + full iteration both ways
	rn2.Model = expected.Clone()
	if f := rn2.CheckAll(true); f != nil {
		kind := "contents differ from the map oracle"
		if damaged {
			kind = "contents differ from the newest surviving entries"
		}
		o.Fail = fmt.Sprintf("after Recover (%s): %s: %s", what, kind, f.What)
		return
	}
	// ---- the recovered DB is an ordinary DB
	for i := range c.Post {
		if f := rn2.Step(i, &c.Post[i]); f != nil {
			o.Fail = fmt.Sprintf("recovered DB (%s) misbehaves in the follow-up program: %s", what, f.Error())
			return
		}
	}
	if err := rn2.Close(); err != nil {
		o.Fail = fmt.Sprintf("recovered DB (%s): Close error %v", what, err)
		return
	}
	if err := rn2.Open(); err != nil {
		o.Fail = fmt.Sprintf("recovered DB (%s): ordinary Open after Close fails: %v", what, err)
		return
	}
	if f := rn2.CheckAll(true); f != nil {
		o.Fail = fmt.Sprintf("recovered DB (%s) after ordinary reopen: %s", what, f.What)
		return
	}
	if err := rn2.Close(); err != nil {
		o.Fail = fmt.Sprintf("recovered DB (%s): Close error %v", what, err)
		return
	}
	rec2.mu.Lock()
	wf := append([]string(nil), rec2.wf...)
	edits := append([]leveldb.VerifEdit(nil), rec2.edits...)
	rec2.mu.Unlock()
	if len(wf) > 0 {
		o.Fail = fmt.Sprintf("recovered DB (%s): version not well-formed: %s", what, wf[0])
		return
	}
	if len(edits) < 2 {
		o.Fail = fmt.Sprintf("recovered DB (%s): expected the recovery commit and the journal commit, saw %d commits", what, len(edits))
		return
	}
	for _, t := range edits[0].Version {
		if t.Level != 0 {
			o.Fail = fmt.Sprintf("Recover (%s) registered table %d at level %d", what, t.Num, t.Level)
			return
		}
	}
	for _, fd := range st.ListAll() {
		if fd.Type == storage.TypeTemp {
			o.Fail = fmt.Sprintf("recovered DB (%s): temporary file %s is still on the storage after Recover, the follow-up program and an ordinary reopen", what, fd)
			return
		}
	}

	// ---- statistics
	o.Stats["cases_run"]++
	o.Stats[fmt.Sprintf("levels_populated_%d", len(nlevels))]++
	if nTomb > 0 {
		o.Stats["with_tombstones_in_tables"]++
	}
	if nJournal > 0 {
		o.Stats["with_journal_data"]++
	}
	if tableAboveJournal {
		o.Stats["with_table_numbered_above_journal"]++
	}
	if damaged {
		o.Stats["damaged_cases"]++
		o.Stats["damaged_blocks"] += nDamagedBlocks
		if c.StrictRecovery {
			o.Stats["tables_dropped_strict"] += nDamagedTables
		} else {
			o.Stats["tables_rebuilt"] += nDamagedTables - nDeadTables
			o.Stats["tables_unrecoverable"] += nDeadTables
		}
		lost := 0
		for _, k := range order {
			for _, l := range perKey[k] {
				if l.damaged {
					lost++
				}
			}
		}
		o.Stats["entries_in_damaged_blocks"] += lost
		diff := 0
		for k, v := range rn.Model {
			if w, ok := expected[k]; !ok || !bytes.Equal(v, w) {
				diff++
			}
		}
		for k := range expected {
			if _, ok := rn.Model[k]; !ok {
				diff++
			}
		}
		if diff > 0 {
			o.Stats["damaged_cases_with_visible_loss"]++
		}
	} else {
		o.Stats["undamaged_cases"]++
	}
	o.Stats["entries_total"] += nEntries + nJournal
	o.Stats[fmt.Sprintf("cmp_%d", cfg.CmpID)]++
	if cfg.Snappy {
		o.Stats["snappy"]++
	} else {
		o.Stats["nocompression"]++
	}
	if cfg.FilterBits > 0 {
		o.Stats["with_filter"]++
	}
	o.NonTriv = len(nlevels) >= 2 && nTomb > 0 && (nJournal > 0 || damaged)

	// ---- correspondence case
	if wantK && nEntries+nJournal <= 300 && nEntries+nJournal > 0 {
		var l0a, l0b []int64
		for _, t := range edits[0].Version {
			l0a = append(l0a, t.Num)
		}
		okK := true
		for _, t := range edits[1].Version {
			if t.Level != 0 {
				okK = false
			}
			l0b = append(l0b, t.Num)
		}
		var next int64
		switch {
		case nJournal == 0 && len(edits[1].Added) == 0:
		case nJournal > 0 && len(edits[1].Added) == 1:
			next = edits[1].Added[0].Num
		default:
			okK = false
		}
		if okK && edits[0].HasSeq {
			var qs []string
			for i, ob := range observed {
				if i >= 24 {
					break
				}
				if ob.has {
					qs = append(qs, fmt.Sprintf("(%s, Some %s)", coqHex(ob.k), coqHex(dbh.Digest(ob.v))))
				} else {
					qs = append(qs, fmt.Sprintf("(%s, None)", coqHex(ob.k)))
				}
			}
			o.KCase = renderK(cfg.CmpID, c.StrictRecovery, tables, batches, next, qs, edits[0].SeqNum, seqAfter, l0a, l0b)
			o.Stats["k_cases"]++
			if damaged {
				o.Stats["k_cases_damaged"]++
			}
		}
	}
}

func anyDamaged(ti *TableInfo) bool {
	for _, d := range ti.Damaged {
		if d {
			return true
		}
	}
	return false
}

func newXorShift(seed uint64) func() uint64 {
	x := seed*2685821657736338717 + 88172645463325252
	if x == 0 {
		x = 1
	}
	return func() uint64 { x ^= x << 13; x ^= x >> 7; x ^= x << 17; return x }
}
