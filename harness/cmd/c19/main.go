// c19: Recover rebuilds the DB from its table and journal files.
//
// (P) random DB programs (several levels, tombstones, overwritten keys, snapshots keeping old versions in
// tables, transactions) -> clean settled shutdown with the last writes left in the journal -> on a copy of the
// storage the MANIFEST is deleted / truncated / overwritten with garbage / bit-flipped and/or the CURRENT
// pointer cleared / left dangling, optionally bytes inside chosen data blocks of chosen tables are flipped ->
// leveldb.Recover -> full contents (Get/Has of every pool key, absent keys, iteration both ways) against the
// Go map (undamaged: exactly equal) or against the entry-level rule of the property (damaged: every key whose
// newest stored entry sits in an undamaged block reads as that entry, nothing is returned that was never
// written; in addition the contents must equal the newest surviving entries) -> a short ordinary program
// (writes, snapshots, compactions, reopen, transactions) on the recovered DB with the map oracle and the
// version well-formedness check of every commit -> ordinary Close/Open/contents.
// (K) the same table files (per block, with the damaged blocks marked) and journal batches are handed to the
// Coq model Store/Repair.v; its level-0 layout after the table scan and after the journal replay, its sequence
// numbers and its answers to the sampled Gets must equal what the implementation showed.
package main

import (
	"encoding/json"
	"fmt"
	"os"
	"path/filepath"
	"sort"
	"strings"
	"sync"
	"time"

	"verifharness/lib/dbh"
	"verifharness/lib/vlib"
)

const rule = "random DB programs x option lattice (both compression settings, filters, 4 comparers) -> VerifWaitIdle -> clean settled Close " +
	"(last writes left in the journal) -> on a copy: MANIFEST deleted/truncated/emptied/garbage/bit-flipped/kept x CURRENT kept/cleared/dangling " +
	"x 0..12 byte flips inside chosen data blocks -> leveldb.Recover -> Get/Has of every pool key + absent keys + full iteration both ways vs the Go map " +
	"(undamaged: exact) / vs the newest surviving entries and the property's entry-level rule (damaged) -> 20-60 op ordinary program with map oracle, " +
	"version well-formedness of every commit, ordinary reopen; non-trivial = >=2 levels populated before the damage, tombstones stored in tables, and " +
	"(journal data present or blocks damaged)"

func genTail(r *vlib.RNG, cfg dbh.Cfg, pool [][]byte) []dbh.Op {
	var small [][]byte
	for _, k := range pool {
		if len(k) <= 24 {
			small = append(small, k)
		}
	}
	if len(small) == 0 {
		return nil
	}
	var ops []dbh.Op
	n := []int{0, 0, 1, 2, 3, 5, 8}[r.Intn(7)]
	if r.Chance(1, 4) {
		// a value that fills the write buffer: the next write rotates the buffer, so the shutdown state has a
		// table numbered above the live journal
		big := make([]byte, cfg.WriteBuffer)
		for i := range big {
			big[i] = byte('A' + (i*11+n)%26)
		}
		ops = append(ops, dbh.Op{Kind: dbh.OpPut, K: small[r.Intn(len(small))], V: big})
		if n == 0 {
			n = 2
		}
	}
	for i := 0; i < n; i++ {
		k := small[r.Intn(len(small))]
		val := func() []byte { return []byte(fmt.Sprintf("tail-%d-%d", i, r.Intn(1000))) }
		switch r.Pick(5, 3, 2) {
		case 0:
			ops = append(ops, dbh.Op{Kind: dbh.OpPut, K: k, V: val(), Sync: r.Bool()})
		case 1:
			ops = append(ops, dbh.Op{Kind: dbh.OpDelete, K: k, Sync: r.Bool()})
		case 2:
			var recs []dbh.Rec
			for j, m := 0, r.Range(1, 4); j < m; j++ {
				kk := small[r.Intn(len(small))]
				if r.Chance(1, 3) {
					recs = append(recs, dbh.Rec{Del: true, K: kk})
				} else {
					recs = append(recs, dbh.Rec{K: kk, V: val()})
				}
			}
			ops = append(ops, dbh.Op{Kind: dbh.OpBatch, Recs: recs, Sync: r.Bool()})
		}
	}
	return ops
}

func genCase(r *vlib.RNG, nops int, forceDamage int) *Case {
	cfg := dbh.RandomCfg(r)
	if cfg.WriteBuffer > 8192 {
		cfg.WriteBuffer = 4096
	}
	small := r.Chance(1, 3)
	pool := dbh.GenPool(r, r.Range(6, 40), r.Chance(1, 10))
	w := dbh.DefaultWeights()
	w.Delete, w.Compact, w.Reopen, w.Snap, w.Txn = 22, 5, 1, 4, 2
	n := r.Range(nops/3, nops)
	if small {
		n = r.Range(30, 110)
		cfg.WriteBuffer = 1024
		cfg.TableSize = 1024
		w.BigBatch = 0
	} else if r.Chance(2, 3) {
		// several levels: small level budgets
		cfg.TotalSize = 4096
		cfg.TableSize = 1024
		if cfg.WriteBuffer > 2048 {
			cfg.WriteBuffer = 2048
		}
	}
	deep := !small && r.Chance(1, 6)
	if deep {
		// many distinct keys so that the live data overflows level 1 and level 2
		n = r.Range(nops/2, nops)
		pool = dbh.GenPool(r, r.Range(100, 220), false)
		w.Put, w.Batch, w.Get, w.Has = 60, 14, 5, 2
	}
	c := &Case{Prog: dbh.GenProgram(r, cfg, pool, n, w)}
	if deep {
		// keep several levels populated: no whole-range compaction in the later part of the program
		for i := len(c.Prog.Ops) / 4; i < len(c.Prog.Ops); i++ {
			op := &c.Prog.Ops[i]
			if op.Kind == dbh.OpCompact && !op.HasK && !op.HasK2 {
				op.HasK2, op.K2 = true, pool[r.Intn(len(pool))]
			}
		}
	}
	c.Tail = genTail(r, cfg, pool)
	c.MD.Manifest = []string{"delete", "delete", "truncate", "truncate", "garbage", "garbage", "flip", "empty", "keep"}[r.Intn(9)]
	c.MD.Current = []string{"keep", "clear", "clear", "dangling"}[r.Intn(4)]
	if c.MD.Manifest == "keep" && c.MD.Current == "keep" && r.Chance(2, 3) {
		c.MD.Current = "clear"
	}
	c.MD.A = r.Uint64()
	dmg := r.Chance(1, 2)
	if forceDamage == 1 {
		dmg = true
	} else if forceDamage == 0 {
		dmg = false
	}
	if dmg {
		nf := []int{1, 1, 2, 3, 4, 12}[r.Intn(6)]
		for i := 0; i < nf; i++ {
			c.BD = append(c.BD, BDamage{T: uint32(r.Uint64()), B: uint32(r.Uint64()), O: uint32(r.Uint64()), X: byte(r.Uint64())})
		}
	}
	if len(c.BD) >= 2 && r.Chance(1, 3) {
		c.Interrupt = r.Range(1, 3)
	} else if len(c.BD) >= 1 && r.Chance(1, 6) {
		c.StrictRecovery = true
	}
	pw := dbh.DefaultWeights()
	pw.Reopen, pw.Compact = 4, 5
	c.Post = dbh.GenProgram(r, cfg, pool, r.Range(20, 60), pw).Ops
	return c
}

func loadCase(path string) (*Case, error) {
	b, err := os.ReadFile(path)
	if err != nil {
		return nil, err
	}
	var w struct {
		Case json.RawMessage `json:"case"`
	}
	if err := json.Unmarshal(b, &w); err != nil {
		return nil, err
	}
	raw := w.Case
	if raw == nil {
		raw = b
	}
	c := &Case{}
	if err := json.Unmarshal(raw, c); err != nil {
		return nil, err
	}
	if c.Prog == nil {
		return nil, fmt.Errorf("%s: no program", path)
	}
	return c, nil
}

// fails runs the case up to tries times (background timing varies) and returns the first failure text.
func fails(c *Case, tries int) string {
	for i := 0; i < tries; i++ {
		if o := RunCase(c, false); o.Fail != "" {
			return o.Fail
		}
	}
	return ""
}

// shrink minimises a failing case within the budget: program ops by delta debugging, then the other parts.
func shrink(c *Case, budget time.Duration) (*Case, string) {
	deadline := time.Now().Add(budget)
	cur := *c
	try := func(cand *Case) bool {
		if time.Now().After(deadline) {
			return false
		}
		return fails(cand, 2) != ""
	}
	if cand := cur; len(cand.Post) > 0 {
		cand.Post = nil
		if try(&cand) {
			cur = cand
		}
	}
	if cand := cur; len(cand.Tail) > 0 {
		cand.Tail = nil
		if try(&cand) {
			cur = cand
		}
	}
	for i := 0; i < len(cur.BD) && len(cur.BD) > 1; {
		cand := cur
		cand.BD = append(append([]BDamage(nil), cur.BD[:i]...), cur.BD[i+1:]...)
		if try(&cand) {
			cur = cand
		} else {
			i++
		}
	}
	left := time.Until(deadline)
	if left > time.Second {
		p := dbh.Shrink(cur.Prog, func(p *dbh.Program) bool {
			cand := cur
			cand.Prog = p
			return fails(&cand, 2) != ""
		}, left)
		cur.Prog = p
	}
	d := fails(&cur, 3)
	if d == "" {
		return c, ""
	}
	return &cur, d
}

func main() {
	a := vlib.ParseArgs()
	res := vlib.NewResult("C19", a.Out, rule)
	defer res.Write()
	installHook()

	if a.Replay != "" {
		c, err := loadCase(a.Replay)
		if err != nil {
			fmt.Println("cannot load replay:", err)
			return
		}
		for i := 0; i < 3; i++ {
			o := RunCase(c, false)
			res.Eval(fmt.Sprintf("replay%d", i), true)
			if o.Fail != "" {
				fmt.Println("replay fails:", o.Fail)
				res.Violate(o.Fail, c)
				return
			}
			if o.Skipped != "" {
				fmt.Println("replay skipped:", o.Skipped)
			}
		}
		fmt.Println("replay passes")
		return
	}

	ncases, nops, kcap := 256, 600, 48
	if a.Thorough() {
		ncases, nops, kcap = 6000, 1200, 400
	}
	search := strings.Contains(a.Extra, "search")
	if search && !a.Thorough() {
		ncases *= 4
	}
	type job struct {
		i    int
		c    *Case
		name string
	}
	var jobsList []job
	// corpus first
	for _, part := range strings.Split(a.Extra, ",") {
		if strings.HasPrefix(part, "corpus=") {
			files, _ := filepath.Glob(filepath.Join(strings.TrimPrefix(part, "corpus="), "*.json"))
			sort.Strings(files)
			for _, f := range files {
				if c, err := loadCase(f); err == nil {
					jobsList = append(jobsList, job{len(jobsList), c, "corpus:" + filepath.Base(f)})
				} else {
					fmt.Println("corpus file unreadable:", f, err)
				}
			}
		}
	}
	ncorpus := len(jobsList)
	// vlib.NewRNG(seed+1) is vlib.NewRNG(seed) advanced by one step: fork once so that different seeds give
	// unrelated case streams
	root := vlib.NewRNG(a.Seed).Fork()
	for i := 0; i < ncases; i++ {
		r := root.Fork()
		fd := -1
		if i%4 == 1 {
			fd = 1
		} else if i%4 == 3 {
			fd = 0
		}
		jobsList = append(jobsList, job{len(jobsList), genCase(r, nops, fd), fmt.Sprintf("gen%d", i)})
	}
	jobs := make(chan job)
	var kmu sync.Mutex
	type kc struct {
		i int
		s string
	}
	var kcases []kc
	var wg sync.WaitGroup
	var shrinkMu sync.Mutex
	for w := 0; w < 16; w++ {
		wg.Add(1)
		go func() {
			defer wg.Done()
			for j := range jobs {
				o := RunCase(j.c, true)
				for k, v := range o.Stats {
					res.Count(k, v)
				}
				if o.Skipped != "" {
					res.Count("skipped", 1)
					if j.i < ncorpus {
						fmt.Println(j.name, "skipped:", o.Skipped)
					}
				}
				res.Eval(j.name, o.NonTriv)
				if j.i >= ncorpus && j.i < ncorpus+2 {
					n := 3
					if len(j.c.Prog.Ops) < n {
						n = len(j.c.Prog.Ops)
					}
					res.Sample(map[string]interface{}{"cfg": j.c.Prog.Cfg.String(), "ops": len(j.c.Prog.Ops), "tail_ops": len(j.c.Tail),
						"manifest": j.c.MD, "block_flips": len(j.c.BD), "post_ops": len(j.c.Post), "stats": o.Stats})
				}
				if o.KCase != "" && len(o.KCase) <= 60000 {
					kmu.Lock()
					kcases = append(kcases, kc{j.i, o.KCase})
					kmu.Unlock()
				}
				if o.Fail != "" && res.NViolations() < 4 {
					shrinkMu.Lock()
					if res.NViolations() < 4 {
						q, d := shrink(j.c, 40*time.Second)
						if d != "" {
							res.Violate(fmt.Sprintf("%s [%s; %d ops after shrinking; %s]", d, j.name, len(q.Prog.Ops), q.Prog.Cfg.String()), q)
						} else {
							res.Violate(fmt.Sprintf("%s [%s; %s] (not shrunk)", o.Fail, j.name, j.c.Prog.Cfg.String()), j.c)
						}
					}
					shrinkMu.Unlock()
				}
			}
		}()
	}
	for _, j := range jobsList {
		jobs <- j
	}
	close(jobs)
	wg.Wait()
	sort.Slice(kcases, func(i, j int) bool { return kcases[i].i < kcases[j].i })
	var ks []string
	tot := 0
	for _, k := range kcases {
		if len(ks) >= kcap || tot+len(k.s) > 2400000 {
			break
		}
		ks = append(ks, k.s)
		tot += len(k.s)
	}
	// (K) on real file bytes (Store/RepairBytes.v recover_bytes): spread evenly over the shards
	nb := 16
	if a.Thorough() {
		nb = 64
	}
	bcases := kBytesCases(vlib.NewRNG(a.Seed^0x19b7).Fork(), res, nb)
	if len(bcases) > 0 {
		var mixed []string
		step := (len(ks) + len(bcases)) / len(bcases)
		bi := 0
		for i := 0; i < len(ks)+len(bcases); i++ {
			if bi < len(bcases) && (i%step == 0 || i-bi >= len(ks)) {
				mixed = append(mixed, bcases[bi])
				bi++
			} else {
				mixed = append(mixed, ks[i-bi])
			}
		}
		ks = mixed
	}
	if len(ks) > 0 {
		res.WriteCases("From GL Require Import Corr.C19Run Corr.C19BytesRun.", "c19case", "mismatches", ks, 16)
	}
}
