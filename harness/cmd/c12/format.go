// Reference encoder/decoder of the LevelDB log format, written from the format description
// (32 KiB blocks; 7-byte header = masked CRC-32C (4, LE) | length (2, LE) | type (1);
// types full=1 first=2 middle=3 last=4; a block tail shorter than a header is zero filled;
// the checksum covers the type byte and the payload).  It is independent of the journal
// package: it is the harness's oracle for "the bytes are in the format" and the source of
// chunk extents (which record occupies which block).
package main

import (
	"encoding/binary"
	"fmt"
	"hash/crc32"
)

const (
	refBlock  = 32768
	refHeader = 7
	refFull   = 1
	refFirst  = 2
	refMiddle = 3
	refLast   = 4
)

var castagnoli = crc32.MakeTable(crc32.Castagnoli)

func refMaskedCRC(typ byte, payload []byte) uint32 {
	c := crc32.Update(0, castagnoli, []byte{typ})
	c = crc32.Update(c, castagnoli, payload)
	return (c>>15 | c<<17) + 0xa282ead8
}

func refChunk(typ byte, payload []byte) []byte {
	h := make([]byte, refHeader, refHeader+len(payload))
	binary.LittleEndian.PutUint32(h[0:4], refMaskedCRC(typ, payload))
	binary.LittleEndian.PutUint16(h[4:6], uint16(len(payload)))
	h[6] = typ
	return append(h, payload...)
}

// refEncode lays the records out as the format prescribes.
func refEncode(recs [][]byte) []byte {
	var out []byte
	off := 0
	for _, r := range recs {
		left := r
		begin := true
		for {
			leftover := refBlock - off
			if leftover < refHeader {
				out = append(out, make([]byte, leftover)...)
				off = 0
			}
			avail := refBlock - off - refHeader
			frag := len(left)
			if frag > avail {
				frag = avail
			}
			end := frag == len(left)
			var t byte
			switch {
			case begin && end:
				t = refFull
			case begin:
				t = refFirst
			case end:
				t = refLast
			default:
				t = refMiddle
			}
			out = append(out, refChunk(t, left[:frag])...)
			off += refHeader + frag
			left = left[frag:]
			begin = false
			if len(left) == 0 {
				break
			}
		}
	}
	return out
}

// extent of one chunk inside the stream
type chunkExt struct {
	Off, Len int // offset of the header, payload length
	Typ      byte
	Rec      int // index of the record it belongs to
}

type refLayout struct {
	Recs   [][]byte
	Chunks []chunkExt
	Start  []int // per record: offset of its first chunk header
	End    []int // per record: offset just after its last chunk
	Padded int   // number of zero-padded block ends
	Multi  int   // number of multi-chunk records
}

// refDecode parses a complete, undamaged stream strictly; any deviation from the format is an error.
func refDecode(b []byte) (*refLayout, error) {
	l := &refLayout{}
	pos := 0
	var cur []byte
	in := false
	for pos < len(b) {
		blockEnd := (pos/refBlock + 1) * refBlock
		if blockEnd-pos < refHeader {
			// padding: must be zero, and may only be cut short by the end of the stream
			for k := pos; k < blockEnd && k < len(b); k++ {
				if b[k] != 0 {
					return nil, fmt.Errorf("non-zero padding byte at offset %d", k)
				}
			}
			if blockEnd > len(b) {
				return nil, fmt.Errorf("stream ends inside block padding at %d", len(b))
			}
			l.Padded++
			pos = blockEnd
			continue
		}
		if pos+refHeader > len(b) {
			return nil, fmt.Errorf("truncated header at offset %d", pos)
		}
		sum := binary.LittleEndian.Uint32(b[pos : pos+4])
		n := int(binary.LittleEndian.Uint16(b[pos+4 : pos+6]))
		t := b[pos+6]
		if t < refFull || t > refLast {
			return nil, fmt.Errorf("invalid chunk type %d at offset %d", t, pos)
		}
		if pos+refHeader+n > blockEnd || pos+refHeader+n > len(b) {
			return nil, fmt.Errorf("chunk at offset %d (payload %d) crosses the block/stream end", pos, n)
		}
		payload := b[pos+refHeader : pos+refHeader+n]
		if refMaskedCRC(t, payload) != sum {
			return nil, fmt.Errorf("checksum mismatch at offset %d", pos)
		}
		switch t {
		case refFull, refFirst:
			if in {
				return nil, fmt.Errorf("chunk type %d at offset %d inside a record", t, pos)
			}
			l.Start = append(l.Start, pos)
			cur = nil
		default:
			if !in {
				return nil, fmt.Errorf("chunk type %d at offset %d outside a record", t, pos)
			}
		}
		if (t == refFirst || t == refMiddle) && pos+refHeader+n != blockEnd {
			return nil, fmt.Errorf("first/middle chunk at offset %d does not end at the block end", pos)
		}
		l.Chunks = append(l.Chunks, chunkExt{pos, n, t, len(l.Start) - 1})
		cur = append(cur, payload...)
		pos += refHeader + n
		if t == refFull || t == refLast {
			if t == refLast {
				l.Multi++
			}
			l.Recs = append(l.Recs, append([]byte{}, cur...))
			l.End = append(l.End, pos)
			in = false
		} else {
			in = true
		}
	}
	if in {
		return nil, fmt.Errorf("stream ends inside a record")
	}
	return l, nil
}

// blocksOf returns the set of block numbers in which record k has at least one chunk byte.
func (l *refLayout) blocksOf(k int) map[int]bool {
	m := map[int]bool{}
	for _, c := range l.Chunks {
		if c.Rec == k {
			for blk := c.Off / refBlock; blk <= (c.Off+refHeader+c.Len-1)/refBlock; blk++ {
				m[blk] = true
			}
		}
	}
	return m
}

// noForgery is the Go counterpart of JournalSpec.no_forgery: in every block of the damaged
// stream, the chunks a sequential parse (zero header / type / length / checksum tests) accepts
// are a run of the original chunks of that block from the block start, byte-identical.
func noForgery(orig []byte, l *refLayout, dmg []byte) bool {
	// original chunks per block
	per := map[int][]chunkExt{}
	for _, c := range l.Chunks {
		per[c.Off/refBlock] = append(per[c.Off/refBlock], c)
	}
	for b := 0; b*refBlock < len(dmg); b++ {
		lo, hi := b*refBlock, (b+1)*refBlock
		if hi > len(dmg) {
			hi = len(dmg)
		}
		blk := dmg[lo:hi]
		oc := per[b]
		j, k := 0, 0
		for j+refHeader <= len(blk) {
			sum := binary.LittleEndian.Uint32(blk[j : j+4])
			n := int(binary.LittleEndian.Uint16(blk[j+4 : j+6]))
			t := blk[j+6]
			if sum == 0 && n == 0 && t == 0 {
				break
			}
			if t < refFull || t > refLast || j+refHeader+n > len(blk) {
				break
			}
			if refMaskedCRC(t, blk[j+refHeader:j+refHeader+n]) != sum {
				break
			}
			// accepted: must be the k-th original chunk of this block
			if k >= len(oc) || oc[k].Off != lo+j || oc[k].Len != n || oc[k].Typ != t {
				return false
			}
			for x := 0; x < n; x++ {
				if blk[j+refHeader+x] != orig[lo+j+refHeader+x] {
					return false
				}
			}
			k++
			j += refHeader + n
		}
	}
	return true
}
