// c12: journal framing round-trips and contains damage.
// (P) on the implementation alone: round trip in all four reader modes for every generated
// stream / flush pattern / split-write pattern; format conformance both ways against the
// reference encoder/decoder of format.go; truncation at every offset near a chunk or block
// boundary and at sampled offsets elsewhere (prefix rule, exact count); positional damage
// (flipped bytes, zeroed / garbage ranges, rewritten length fields, zero / garbage tails):
// every yielded record is an original one, in order, and only records with a chunk in a damaged
// block are missing; strict mode yields a prefix and stops with an error; never a panic or hang;
// whatever agrees with the written stream up to the first altered byte yields first, in all four
// modes, the records written wholly before it (C12_prefix_complete / _damage_strict_complete);
// cut + zero / garbage tail up to the written length (the crash images of C04): sub-sequence
// after the records inside the cut; zero tail: at most one record beyond them in every mode.
// (K) cases for Corr/C12Run.v: streams written by journal.Writer must be accepted by the model
// reader as exactly the records; journal.Reader's observation list (records, skips, error and
// every Dropper.Drop with reason and size) must equal the model's on intact, truncated and
// damaged streams, including duplicated/swapped blocks; util.NewCRC(..).Value() vs the model CRC.
package main

import (
	"bytes"
	"encoding/json"
	"fmt"
	"hash/fnv"
	"os"
	"path/filepath"
	"runtime"
	"sort"
	"strings"
	"sync"
	"sync/atomic"
	"time"

	"github.com/syndtr/goleveldb/leveldb/util"
	"verifharness/lib/vlib"
)

// caseSpec is the replayable unit
type caseSpec struct {
	Kind   string     `json:"kind"` // intact | cut | damage
	Stream streamSpec `json:"stream"`
	Cut    int        `json:"cut"`
	Damage []dmgSpec  `json:"damage"`
	Piece  int        `json:"piece"` // reader input delivered in pieces of this size (0 = all at once)
}

type violation struct {
	desc string
	c    caseSpec
}

type kcase struct {
	text string
	cost int // model block reads
}

// (K) cases travel as Coq text and coqc parses string literals slowly (~60 us per character):
// cases larger than this are not emitted
const kCaseTextCap = 6000

type workOut struct {
	viol     []violation
	kc       []kcase
	counts   map[string]int
	evals    int
	keys     map[uint64]struct{} // distinct non-trivial (cut/damage) keys of this stream
	specKey  uint64
	sample   interface{}
	hasMulti bool
}

func recsOf(o []outc) [][]byte {
	var r [][]byte
	for _, x := range o {
		if x.Kind == oRec {
			r = append(r, x.Data)
		}
	}
	return r
}

func sameRecs(a, b [][]byte) bool {
	if len(a) != len(b) {
		return false
	}
	for i := range a {
		if !bytes.Equal(a[i], b[i]) {
			return false
		}
	}
	return true
}

func describe(o []outc) string {
	var sb strings.Builder
	for i, x := range o {
		if i > 0 {
			sb.WriteString(" ")
		}
		if i >= 24 {
			sb.WriteString("...")
			break
		}
		switch x.Kind {
		case oRec:
			h := fnv.New32a()
			h.Write(x.Data)
			sb.WriteString(fmt.Sprintf("Rec(len=%d,h=%08x)", len(x.Data), h.Sum32()))
		case oSkip:
			sb.WriteString("Skipped")
		case oErr:
			sb.WriteString("Err")
		case oDrop:
			sb.WriteString(fmt.Sprintf("Drop(r=%d,n=%d)", x.Reason, x.Size))
		}
	}
	return sb.String()
}

// ---- (K) rendering

// coqSegs renders a byte string for Corr/C12Run.v: runs of one byte (R), repetitions of a
// 16-byte pattern (P, the decoy payloads), hex literals (X) for the rest
func coqSegs(b []byte) string {
	var parts []string
	i := 0
	lit := 0 // start of pending literal
	flush := func(end int) {
		for lit < end {
			e := end
			if e-lit > 2048 {
				e = lit + 2048
			}
			parts = append(parts, "X "+vlib.CoqHex(b[lit:e]))
			lit = e
		}
	}
	for i < len(b) {
		j := i
		for j < len(b) && b[j] == b[i] {
			j++
		}
		if j-i >= 24 {
			flush(i)
			parts = append(parts, fmt.Sprintf("R %d %d", b[i], j-i))
			lit = j
			i = j
			continue
		}
		// period-16 repetition?
		k := i
		for k+ghostSize < len(b) && b[k] == b[k+ghostSize] {
			k++
		}
		if reps := (k - i) / ghostSize; reps >= 3 {
			flush(i)
			parts = append(parts, fmt.Sprintf("P %s %d", vlib.CoqHex(b[i:i+ghostSize]), reps+1))
			i += (reps + 1) * ghostSize
			lit = i
			continue
		}
		i = j
	}
	flush(len(b))
	return "[" + strings.Join(parts, "; ") + "]"
}

func coqObs(o []outc) string {
	var parts []string
	for _, x := range o {
		switch x.Kind {
		case oRec:
			parts = append(parts, "ORec "+coqSegs(x.Data))
		case oSkip:
			parts = append(parts, "OSkipped")
		case oErr:
			parts = append(parts, "OErr")
		case oDrop:
			parts = append(parts, fmt.Sprintf("ODrop %d %d", x.Reason, x.Size))
		}
	}
	return "[" + strings.Join(parts, "; ") + "]"
}

func blocksCost(n, bs int) int { return n/bs + 1 }

// ---- (P) oracles

// matchTolerant: yielded must embed into rs in order, covering every index with must[k]
func matchTolerant(yielded, rs [][]byte, must []bool) string {
	ny, nr := len(yielded), len(rs)
	// f[a][k]: yielded[:a] matched within rs[:k], all must-indexes < k matched
	f := make([][]bool, ny+1)
	for a := range f {
		f[a] = make([]bool, nr+1)
	}
	f[0][0] = true
	for k := 0; k < nr; k++ {
		for a := 0; a <= ny; a++ {
			if !f[a][k] {
				continue
			}
			if !must[k] {
				f[a][k+1] = true
			}
			if a < ny && bytes.Equal(yielded[a], rs[k]) {
				f[a+1][k+1] = true
			}
		}
	}
	if f[ny][nr] {
		return ""
	}
	// explain: is every yielded record an original one at all?
	for a, y := range yielded {
		found := false
		for _, r := range rs {
			if bytes.Equal(y, r) {
				found = true
				break
			}
		}
		if !found {
			return fmt.Sprintf("yielded record #%d (len %d) was never written", a, len(y))
		}
	}
	// in order at all?
	none := make([]bool, nr)
	if matchTolerant(yielded, rs, none) != "" {
		return "yielded records are original ones but not in the order written"
	}
	return "a record with no chunk in any damaged block is missing"
}

type streamCtx struct {
	spec streamSpec
	rs   [][]byte
	S    []byte
	lay  *refLayout
	bs   int
}

func (c *streamCtx) checkIntact(piece int) string {
	for _, m := range [][2]bool{{true, true}, {false, true}, {true, false}, {false, false}} {
		o, pm := readImpl(c.S, m[0], m[1], piece)
		if pm != "" {
			return fmt.Sprintf("round trip: reader (strict=%v checksum=%v) panicked/hung on an intact stream: %s", m[0], m[1], pm)
		}
		if len(o) != len(c.rs) || !sameRecs(recsOf(o), c.rs) {
			return fmt.Sprintf("round trip: reader (strict=%v checksum=%v) on the intact stream of %d records gave: %s", m[0], m[1], len(c.rs), describe(o))
		}
	}
	return ""
}

func (c *streamCtx) checkCut(n, piece int) (string, bool) {
	m := 0
	for _, e := range c.lay.End {
		if e <= n {
			m++
		}
	}
	data := c.S[:n]
	for _, strict := range []bool{false, true} {
		o, pm := readImpl(data, strict, true, piece)
		if pm != "" {
			return fmt.Sprintf("truncation at %d: reader (strict=%v) panicked/hung: %s", n, strict, pm), true
		}
		got := recsOf(o)
		if !sameRecs(got, c.rs[:m]) {
			return fmt.Sprintf("truncation at %d of %d: reader (strict=%v) must yield exactly the %d records that end before the cut, gave: %s", n, len(c.S), strict, m, describe(o)), true
		}
		// nothing after the records except one Skipped (tolerant) / one Err (strict), ignoring drops
		tail := 0
		seen := 0
		for _, x := range o {
			switch x.Kind {
			case oRec:
				seen++
				if tail > 0 {
					return fmt.Sprintf("truncation at %d: record after a skip/error: %s", n, describe(o)), true
				}
			case oSkip:
				tail++
				if strict {
					return fmt.Sprintf("truncation at %d: strict reader skipped instead of stopping: %s", n, describe(o)), true
				}
			case oErr:
				tail++
				if !strict {
					return fmt.Sprintf("truncation at %d: tolerant reader stopped with an error: %s", n, describe(o)), true
				}
			}
		}
		if tail > 1 {
			return fmt.Sprintf("truncation at %d: more than one skip/error: %s", n, describe(o)), true
		}
	}
	return "", m < len(c.rs)
}

func (c *streamCtx) checkDamage(ds []dmgSpec, piece int, count func(string)) string {
	dmg, ranges := applyDamage(c.S, ds, c.bs)
	changed := len(dmg) != len(c.S)
	D := map[int]bool{}
	minD := 1 << 30
	for _, rg := range ranges {
		for k := rg[0]; k < rg[1]; k++ {
			if k >= len(c.S) || dmg[k] != c.S[k] {
				changed = true
				b := k / refBlock
				D[b] = true
				if b < minD {
					minD = b
				}
			}
		}
	}
	if !changed {
		count("damage_noop")
		return ""
	}
	// C12_prefix_complete: whatever agrees with the written stream on its first n bytes yields, in
	// every mode and with no hypothesis on the rest, first of all the records written wholly
	// inside those n bytes (n = offset of the first altered byte)
	firstDiff := 0
	for firstDiff < len(dmg) && firstDiff < len(c.S) && dmg[firstDiff] == c.S[firstDiff] {
		firstDiff++
	}
	inside := 0
	for _, e := range c.lay.End {
		if e <= firstDiff {
			inside++
		}
	}
	modes := [][2]bool{{false, true}, {true, true}, {false, false}, {true, false}}
	var obs [4][]outc
	for i, m := range modes {
		o, pm := readImpl(dmg, m[0], m[1], piece)
		if pm != "" {
			return fmt.Sprintf("damage: reader (strict=%v checksum=%v) panicked/hung: %s", m[0], m[1], pm)
		}
		obs[i] = o
		got := recsOf(o)
		if len(got) < inside || !sameRecs(got[:inside], c.rs[:inside]) {
			return fmt.Sprintf("damage (first altered byte %d): reader (strict=%v checksum=%v) must yield first the %d records written wholly before it, gave: %s", firstDiff, m[0], m[1], inside, describe(o))
		}
	}
	count("prefix_complete_checked")
	if len(ds) == 1 && ds[0].Kind == "cutzero" && ds[0].Off <= len(c.S) {
		// C12_zero_tail: no hypothesis, every mode: the records wholly inside the cut, then at most
		// one further record (from the chunk the cut falls in)
		m := 0
		for _, e := range c.lay.End {
			if e <= ds[0].Off {
				m++
			}
		}
		for i, md := range modes {
			if got := recsOf(obs[i]); len(got) > m+1 {
				return fmt.Sprintf("cut at %d + zero tail: reader (strict=%v checksum=%v) yielded %d records, at most %d+1 possible (zeros never parse as chunks): %s", ds[0].Off, md[0], md[1], len(got), m, describe(obs[i]))
			}
		}
		count("zero_tail_checked")
		if len(recsOf(obs[2])) == m+1 {
			count("zero_tail_extra_record_without_checksum")
		}
		if len(recsOf(obs[0])) == m+1 {
			count("zero_tail_extra_record_with_checksum")
		}
	}
	if inside > 0 && inside < len(c.rs) {
		count("prefix_complete_nontrivial")
	}
	// the hypothesis of the damage theorems (no checksum collision), evaluated with the real CRC
	if noForgery(c.S, c.lay, dmg) {
		count("no_forgery_held")
	} else {
		count("no_forgery_failed_case_skipped")
		return ""
	}
	must := make([]bool, len(c.rs))
	lead := 0 // records lying entirely in blocks before the first damaged one
	leading := true
	nmust := 0
	for k := range c.rs {
		must[k] = true
		allBefore := true
		for b := range c.lay.blocksOf(k) {
			if D[b] {
				must[k] = false
			}
			if b >= minD {
				allBefore = false
			}
		}
		if k < inside {
			// C12_damage_contained_prefix / C12_tail_contained: wholly before the first altered byte
			must[k] = true
			allBefore = true
		}
		if must[k] {
			nmust++
		}
		if leading && allBefore {
			lead++
		} else {
			leading = false
		}
	}
	// tolerant, checksums on
	o := obs[0]
	got := recsOf(o)
	if msg := matchTolerant(got, c.rs, must); msg != "" {
		return fmt.Sprintf("damage (blocks %v): tolerant reader: %s; observed: %s", keys(D), msg, describe(o))
	}
	if len(got) < len(c.rs) {
		count("damage_lost_records")
	}
	if len(got) == nmust && nmust < len(c.rs) {
		count("damage_lost_exactly_touched")
	}
	// strict, checksums on
	o = obs[1]
	got = recsOf(o)
	hasErr := false
	for i, x := range o {
		if x.Kind == oErr {
			hasErr = true
			if i != len(o)-1 {
				return "damage: strict reader continued after its error: " + describe(o)
			}
		}
	}
	if len(got) > len(c.rs) || !sameRecs(got, c.rs[:len(got)]) {
		return fmt.Sprintf("damage (blocks %v): strict reader must yield a prefix of the written records, gave: %s", keys(D), describe(o))
	}
	if len(got) < lead {
		return fmt.Sprintf("damage (blocks %v, first altered byte %d): strict reader yielded %d records, but %d lie entirely before the damage: %s", keys(D), firstDiff, len(got), lead, describe(o))
	}
	if !hasErr && len(got) != len(c.rs) {
		return fmt.Sprintf("damage (blocks %v): strict reader lost records without reporting an error: %s", keys(D), describe(o))
	}
	if hasErr {
		count("damage_strict_error")
	}
	for _, d := range ds {
		if d.Kind == "cutzero" || d.Kind == "cutgarbage" {
			count("cut_tail_no_forgery_held")
			if len(recsOf(obs[0])) > inside {
				count("cut_tail_record_beyond_cut_yielded")
			}
			break
		}
	}
	return ""
}

func keys(m map[int]bool) []int {
	var k []int
	for x := range m {
		k = append(k, x)
	}
	sort.Ints(k)
	return k
}

func hashKey(parts ...interface{}) uint64 {
	h := fnv.New64a()
	fmt.Fprint(h, parts...)
	return h.Sum64()
}

// prepare writes the stream through the implementation and checks format conformance
func prepare(spec streamSpec, bs int) (*streamCtx, string) {
	c := &streamCtx{spec: spec, rs: spec.records(), bs: bs}
	S, _, pm := writeImpl(c.rs, spec.Flush, spec.Split)
	if pm != "" {
		return nil, "writer failed or panicked: " + pm
	}
	c.S = S
	lay, err := refDecode(S)
	if err != nil {
		return nil, "the bytes produced by journal.Writer are not in the log format: " + err.Error()
	}
	if !sameRecs(lay.Recs, c.rs) {
		return nil, fmt.Sprintf("the bytes produced by journal.Writer decode (reference decoder) to %d records that differ from the %d written", len(lay.Recs), len(c.rs))
	}
	c.lay = lay
	// the reference encoding of the same records must be readable by the implementation
	ref := refEncode(c.rs)
	o, pm := readImpl(ref, true, true, 0)
	if pm != "" {
		return nil, "reader panicked on a reference-encoded stream: " + pm
	}
	if len(o) != len(c.rs) || !sameRecs(recsOf(o), c.rs) {
		return nil, "journal.Reader (strict, checksums on) does not read back a reference-encoded stream of the log format: " + describe(o)
	}
	return c, ""
}

type budget struct {
	cutExtra, cutAllBelow, damages int
	kCuts, kDamages                int
}

func runStream(idx int, r *vlib.RNG, bs int, maxBlocks int, bud budget, wantK bool, progress *int64) workOut {
	out := workOut{counts: map[string]int{}, keys: map[uint64]struct{}{}}
	count := func(k string) { out.counts[k]++ }
	spec := genStream(r, bs, maxBlocks, count)
	out.specKey = hashKey(spec)
	viol := func(desc string, c caseSpec) {
		if len(out.viol) < 3 {
			out.viol = append(out.viol, violation{desc, c})
		}
	}
	c, msg := prepare(spec, bs)
	out.evals++
	if msg != "" {
		viol(msg, caseSpec{Kind: "intact", Stream: spec})
		return out
	}
	nontrivial := c.lay.Multi > 0 || c.lay.Padded > 0
	out.hasMulti = c.lay.Multi > 0
	if c.lay.Multi > 0 {
		count("streams_with_multichunk_record")
	}
	if c.lay.Padded > 0 {
		count("streams_with_padded_block_end")
	}
	for _, ch := range c.lay.Chunks {
		if ch.Typ == refFirst && ch.Len == 0 {
			count("empty_first_chunk")
		}
		if ch.Typ == refFull && ch.Len == 0 && (ch.Off+refHeader)%bs == 0 {
			count("empty_full_chunk_at_block_end")
		}
		e := ch.Off + refHeader + ch.Len
		if res := (bs - e%bs) % bs; res <= 8 && (ch.Typ == refFull || ch.Typ == refLast) {
			count(fmt.Sprintf("record_end_residue_%d", res))
		}
	}
	if bytes.Equal(refEncode(c.rs), c.S) {
		count("writer_bytes_equal_reference_encoding")
	} else {
		count("writer_bytes_differ_from_reference_encoding")
	}
	count(fmt.Sprintf("stream_blocks_%d", blocksCost(len(c.S), bs)))
	piece := 0
	if r.Chance(1, 4) {
		piece = []int{1, 7, 100, bs - 1, bs + 1}[r.Intn(5)]
		if piece == 1 && len(c.S) > 4*bs {
			piece = 13
		}
	}
	// round trip
	if msg := c.checkIntact(piece); msg != "" {
		viol(msg, caseSpec{Kind: "intact", Stream: spec, Piece: piece})
	}
	out.evals += 4
	if nontrivial {
		out.keys[hashKey("intact")] = struct{}{}
	}
	atomic.AddInt64(progress, 1)
	// truncation
	cuts := cutOffsets(r, len(c.S), c.lay, bs, bud.cutExtra, bud.cutAllBelow)
	for _, n := range cuts {
		msg, nt := c.checkCut(n, 0)
		out.evals += 2
		if msg != "" {
			viol(msg, caseSpec{Kind: "cut", Stream: spec, Cut: n})
			break
		}
		if nt && nontrivial {
			out.keys[hashKey("cut", n)] = struct{}{}
		}
	}
	count("cut_offsets_checked")
	out.counts["cut_offsets_checked"] += len(cuts) - 1
	atomic.AddInt64(progress, 1)
	// damage
	var dmgs [][]dmgSpec
	for i := 0; i < bud.damages; i++ {
		ds := genDamage(r, c.S, c.lay, bs, false)
		dmgs = append(dmgs, ds)
		for _, d := range ds {
			count("damage_" + d.Kind)
		}
		msg := c.checkDamage(ds, piece, count)
		out.evals += 4
		if msg != "" {
			viol(msg, caseSpec{Kind: "damage", Stream: spec, Damage: ds, Piece: piece})
			break
		}
		if nontrivial {
			out.keys[hashKey("damage", ds)] = struct{}{}
		}
	}
	atomic.AddInt64(progress, 1)
	// (K) cases
	if wantK {
		cost := blocksCost(len(c.S), bs)
		var recSegs []string
		for _, rec := range c.rs {
			recSegs = append(recSegs, coqSegs(rec))
		}
		addK := func(text string, cost int, what string) {
			if len(text) > kCaseTextCap {
				count("k_case_too_large_" + what)
				return
			}
			count("k_" + what)
			out.kc = append(out.kc, kcase{text, cost})
		}
		addK(fmt.Sprintf("CWrite %s [%s]", coqSegs(c.S), strings.Join(recSegs, "; ")), 2*cost, "write")
		if idx%3 == 0 {
			// the model writer against the reference encoding (not against the implementation's bytes)
			var fl []string
			for _, f := range spec.Flush {
				fl = append(fl, vlib.CoqBool(f))
			}
			ref := refEncode(c.rs)
			addK(fmt.Sprintf("CEnc [%s] [%s] %s", strings.Join(fl, "; "), strings.Join(recSegs, "; "), coqSegs(ref)), 3*blocksCost(len(ref), bs), "model_writer")
		}
		modes := [][2]bool{{false, true}, {true, true}, {false, false}, {true, false}}
		for i := 0; i < bud.kCuts && len(cuts) > 0; i++ {
			n := cuts[r.Intn(len(cuts))]
			m := modes[r.Intn(2)]
			o, pm := readImpl(c.S[:n], m[0], m[1], 0)
			if pm == "" {
				addK(fmt.Sprintf("CRead %s %s %s %s", vlib.CoqBool(m[0]), vlib.CoqBool(m[1]), coqSegs(c.S[:n]), coqObs(o)), blocksCost(n, bs), "cut")
			}
		}
		for i := 0; i < bud.kDamages; i++ {
			var ds []dmgSpec
			if i < len(dmgs) && i%4 == 0 {
				ds = dmgs[i]
			} else {
				ds = genDamage(r, c.S, c.lay, bs, true)
			}
			dmg, _ := applyDamage(c.S, ds, bs)
			m := modes[r.Pick(4, 4, 1, 1)]
			o, pm := readImpl(dmg, m[0], m[1], 0)
			if pm == "" {
				addK(fmt.Sprintf("CRead %s %s %s %s", vlib.CoqBool(m[0]), vlib.CoqBool(m[1]), coqSegs(dmg), coqObs(o)), blocksCost(len(dmg), bs), "damage")
				if len(dmg) == len(c.S) && (i == 0 || ds[0].Kind == "cutzero" || ds[0].Kind == "cutgarbage") {
					// the hypothesis of the damage / tail theorems, evaluated on both sides
					addK(fmt.Sprintf("CForgery [%s] %s %s", strings.Join(recSegs, "; "), coqSegs(dmg), vlib.CoqBool(noForgery(c.S, c.lay, dmg))), 2*blocksCost(len(dmg), bs), "no_forgery")
				}
				for _, x := range o {
					if x.Kind == oDrop {
						count(fmt.Sprintf("k_drop_reason_%d", x.Reason))
					}
				}
			}
		}
	}
	out.sample = map[string]interface{}{"records": len(c.rs), "stream_bytes": len(c.S), "multi_chunk_records": c.lay.Multi,
		"padded_block_ends": c.lay.Padded, "cuts": len(cuts), "damages": len(dmgs), "flush": spec.Flush, "first_lengths": firstLens(spec, 6)}
	return out
}

func firstLens(s streamSpec, n int) []int {
	var l []int
	for i, r := range s.Recs {
		if i >= n {
			break
		}
		l = append(l, r.Len)
	}
	return l
}

// replayCase re-runs the stored case; returns a violation description or ""
func replayCase(c caseSpec, bs int) string {
	ctx, msg := prepare(c.Stream, bs)
	if msg != "" {
		return msg
	}
	if msg := ctx.checkIntact(c.Piece); msg != "" {
		return msg
	}
	switch c.Kind {
	case "cut":
		if c.Cut >= 0 && c.Cut <= len(ctx.S) {
			msg, _ := ctx.checkCut(c.Cut, c.Piece)
			return msg
		}
	case "damage":
		return ctx.checkDamage(c.Damage, c.Piece, func(string) {})
	}
	return ""
}

func loadReplay(path string) (caseSpec, error) {
	var f struct {
		Case caseSpec `json:"case"`
	}
	b, err := os.ReadFile(path)
	if err != nil {
		return f.Case, err
	}
	err = json.Unmarshal(b, &f)
	return f.Case, err
}

func main() {
	a := vlib.ParseArgs()
	res := vlib.NewResult("C12", a.Out, "one evaluation = one run of journal.Reader over one (stream, cut offset or damage, mode); streams: record lengths from {0, 1, bs-7-k, bs, 2bs+-k, lengths that leave 0..8 bytes at the end of the current or a later block, random small/medium/large} x flush patterns {none, all, random} x split writes; non-trivial = the stream has a multi-chunk record or a zero-padded block end (and, for cuts, the cut removes at least one record); distinct = distinct (stream, cut/damage) descriptions")
	defer res.Write()
	bs := probeBlockSize()
	res.Extra["probed_block_size"] = bs

	// ---- replay / corpus
	var replays []string
	if a.Replay != "" {
		replays = append(replays, a.Replay)
	}
	if strings.HasPrefix(a.Extra, "corpus=") {
		fs, _ := filepath.Glob(filepath.Join(strings.TrimPrefix(a.Extra, "corpus="), "*.json"))
		sort.Strings(fs)
		replays = append(replays, fs...)
	}
	for _, f := range replays {
		c, err := loadReplay(f)
		if err != nil {
			fmt.Fprintln(os.Stderr, "cannot load replay", f, err)
			continue
		}
		res.Evaluations++
		if msg := replayCase(c, bs); msg != "" {
			res.Violate("replay "+filepath.Base(f)+": "+msg, c)
		}
	}
	if a.Replay != "" {
		return
	}

	// ---- budgets
	nStreams, nBig, maxBlocks, kStreams, kBig := 200, 16, 3, 56, 4
	bud := budget{cutExtra: 100, cutAllBelow: 2000, damages: 36, kCuts: 2, kDamages: 4}
	kBudget := 1250 // model block reads (about 0.1 s of coqc each)
	if a.Thorough() {
		nStreams, nBig, kStreams, kBig = 3000, 200, 400, 24
		bud = budget{cutExtra: 800, cutAllBelow: 40000, damages: 250, kCuts: 4, kDamages: 8}
		kBudget = 15000
	}
	if a.Extra == "search" {
		// step S of the driver: implementation-only search, no (K) cases, bounded time
		nStreams, nBig, kStreams, kBig = 1000, 60, 0, 0
		bud = budget{cutExtra: 400, cutAllBelow: 20000, damages: 200}
	}
	root := vlib.NewRNG(a.Seed)
	type job struct {
		r         *vlib.RNG
		maxBlocks int
		wantK     bool
	}
	var jobs []job
	for i := 0; i < nStreams; i++ {
		jobs = append(jobs, job{root.Fork(), maxBlocks, i < kStreams})
	}
	for i := 0; i < nBig; i++ {
		jobs = append(jobs, job{root.Fork(), 9, i < kBig})
	}
	crcRNG := root.Fork()
	outs := make([]workOut, len(jobs))
	var progress int64
	var next int64 = -1
	var wg sync.WaitGroup
	nw := runtime.NumCPU()
	if nw > 16 {
		nw = 16
	}
	// watchdog: a worker stuck on one stream means the implementation hangs
	current := make([]int64, nw)
	stamps := make([]int64, nw)
	done := make(chan struct{})
	go func() {
		for {
			select {
			case <-done:
				return
			case <-time.After(2 * time.Second):
			}
			now := time.Now().Unix()
			for w := 0; w < nw; w++ {
				st, cur := atomic.LoadInt64(&stamps[w]), atomic.LoadInt64(&current[w])
				limit := int64(120)
				if a.Thorough() {
					limit = 900
				}
				if st > 0 && now-st > limit {
					res.Violate(fmt.Sprintf("the implementation did not finish stream #%d within %d s (hang)", cur, limit), map[string]interface{}{"seed": a.Seed, "tier": a.Tier, "stream_index": cur})
					res.Write()
					os.Exit(0)
				}
			}
		}
	}()
	for w := 0; w < nw; w++ {
		wg.Add(1)
		go func(w int) {
			defer wg.Done()
			for {
				i := int(atomic.AddInt64(&next, 1))
				if i >= len(jobs) {
					atomic.StoreInt64(&stamps[w], 0)
					return
				}
				atomic.StoreInt64(&current[w], int64(i))
				atomic.StoreInt64(&stamps[w], time.Now().Unix())
				outs[i] = runStream(i, jobs[i].r, bs, jobs[i].maxBlocks, bud, jobs[i].wantK, &progress)
			}
		}(w)
	}
	wg.Wait()
	close(done)

	// ---- merge in index order (deterministic)
	seen := map[uint64]struct{}{} // distinct streams
	distinct := 0
	var kcs []kcase
	kUsed := 0
	for i := range outs {
		o := &outs[i]
		for _, v := range o.viol {
			res.Violate(v.desc, v.c)
		}
		for k, n := range o.counts {
			res.Count(k, n)
		}
		res.Evaluations += o.evals
		if _, dup := seen[o.specKey]; !dup {
			seen[o.specKey] = struct{}{}
			distinct += len(o.keys)
		}
		if o.sample != nil {
			res.Sample(o.sample)
		}
		for _, kc := range o.kc {
			if kUsed+kc.cost <= kBudget {
				kcs = append(kcs, kc)
				kUsed += kc.cost
			} else {
				res.Count("k_cases_dropped_for_budget", 1)
			}
		}
	}
	res.DistinctNontrivial = distinct

	// ---- CRC cases: util.NewCRC(b).Value() against the model's CRC-32C + mask
	nCrc := 60
	for i := 0; i < nCrc; i++ {
		var b []byte
		switch {
		case i == 0:
			b = []byte{}
		case i == 1:
			b = []byte("123456789")
		case i < 50:
			b = crcRNG.Bytes(crcRNG.Range(1, 300), nil)
		default:
			b = bytes.Repeat([]byte{byte(crcRNG.Intn(256))}, crcRNG.Range(1000, 40000))
		}
		v := util.NewCRC(b).Value()
		typ := byte(0)
		if len(b) > 0 {
			typ = b[0]
			if refMaskedCRC(typ, b[1:]) != v {
				res.Violate("util.NewCRC(b).Value() differs from masked CRC-32C (hash/crc32, Castagnoli; rotate right 15, add 0xa282ead8)", map[string]interface{}{"kind": "crc", "bytes_len": len(b)})
			}
		}
		kcs = append(kcs, kcase{fmt.Sprintf("CCrc %s %d", coqSegs(b), v), 1 + len(b)/bs})
	}
	res.Extra["k_model_block_reads"] = kUsed

	// ---- balance the shards: deal the cases by decreasing cost
	shards := 16
	sort.SliceStable(kcs, func(i, j int) bool { return kcs[i].cost > kcs[j].cost })
	bins := make([][]string, shards)
	for i, kc := range kcs {
		// boustrophedon dealing
		rnd, pos := i/shards, i%shards
		if rnd%2 == 1 {
			pos = shards - 1 - pos
		}
		bins[pos] = append(bins[pos], kc.text)
	}
	var ordered []string
	for _, b := range bins {
		ordered = append(ordered, b...)
	}
	res.WriteCases("From GL Require Import Corr.C12Run.", "c12case", "mismatches", ordered, shards)
}
