// Generators: record lengths biased to block-boundary residues, record contents (runs, random,
// decoys = payloads that contain well-formed chunks), flush patterns, split writes, truncation
// offsets, damage.
package main

import (
	"sort"

	"verifharness/lib/vlib"
)

// ---- records

type recSpec struct {
	Len  int    `json:"len"`
	Kind int    `json:"kind"` // 0 run of B, 1 random(Seed), 2 decoy(Seed)
	B    byte   `json:"b"`
	Seed uint64 `json:"seed"`
}

// ghost chunks inside decoy payloads: each is a well-formed "full" chunk of ghostLen payload bytes
const ghostLen = 9
const ghostSize = refHeader + ghostLen

// all ghosts of one record are identical, so that the payload is a repeated 16-byte pattern
func ghostPayload(seed uint64) []byte {
	p := make([]byte, ghostLen)
	p[0] = 'G'
	for i := 1; i < ghostLen; i++ {
		p[i] = byte(seed>>uint(8*(i-1))) ^ 0x5a
	}
	return p
}

func (r recSpec) bytes() []byte {
	b := make([]byte, r.Len)
	switch r.Kind {
	case 0:
		for i := range b {
			b[i] = r.B
		}
	case 1:
		g := vlib.NewRNG(r.Seed)
		for i := 0; i < len(b); i += 8 {
			x := g.Uint64()
			for j := 0; j < 8 && i+j < len(b); j++ {
				b[i+j] = byte(x >> uint(8*j))
			}
		}
	case 2:
		// ghost chunks back to back; the tail that does not hold a whole ghost stays zero
		for k := 0; (k+1)*ghostSize <= len(b); k++ {
			copy(b[k*ghostSize:], refChunk(refFull, ghostPayload(r.Seed)))
		}
	}
	return b
}

type streamSpec struct {
	Recs  []recSpec `json:"recs"`
	Flush []bool    `json:"flush"`
	Split []int     `json:"split"`
}

func (s *streamSpec) records() [][]byte {
	out := make([][]byte, len(s.Recs))
	for i, r := range s.Recs {
		out[i] = r.bytes()
	}
	return out
}

// position bookkeeping of the generator: mirrors where the next header goes
type layoutPos struct{ off, bs int }

// avail: payload bytes the first chunk of the next record can take
func (p layoutPos) avail() int {
	j := p.off % p.bs
	if p.off > 0 && j == 0 {
		j = p.bs
	}
	if j+refHeader > p.bs {
		return p.bs - refHeader
	}
	return p.bs - j - refHeader
}

func (p *layoutPos) add(n int) {
	a := p.avail()
	j := p.off % p.bs
	if p.off > 0 && j == 0 {
		j = p.bs
	}
	if j+refHeader > p.bs {
		p.off += p.bs - j // padding (or nothing when the block is exactly full)
	}
	if n <= a {
		p.off += refHeader + n
		return
	}
	p.off += refHeader + a
	n -= a
	for n > 0 {
		c := n
		if c > p.bs-refHeader {
			c = p.bs - refHeader
		}
		p.off += refHeader + c
		n -= c
	}
}

// genLen picks the next record length; class names are counted in the distribution
func genLen(r *vlib.RNG, pos layoutPos, maxLen int) (int, string) {
	bs := pos.bs
	for {
		n, cls := 0, ""
		switch r.Pick(2, 2, 5, 1, 2, 8, 4, 5, 3, 2) {
		case 0:
			n, cls = 0, "len_0"
		case 1:
			n, cls = 1, "len_1"
		case 2:
			n, cls = bs-refHeader-r.Range(0, 8), "len_bs-7-k"
		case 3:
			n, cls = bs, "len_bs"
		case 4:
			n, cls = 2*bs+r.Range(-8, 8), "len_2bs+-k"
		case 5: // leave exactly res bytes at the end of the current block
			res := r.Range(0, 8)
			n, cls = pos.avail()-res, "fit_residue_this_block"
		case 6: // the same, one or two blocks further on
			res := r.Range(0, 8)
			n, cls = pos.avail()+r.Range(1, 2)*(bs-refHeader)-res, "fit_residue_later_block"
		case 7:
			n, cls = r.Range(2, 64), "len_small"
		case 8:
			n, cls = r.Range(65, 4000), "len_medium"
		default:
			n, cls = r.Range(4001, 3*bs), "len_large"
		}
		if n >= 0 && n <= maxLen {
			return n, cls
		}
	}
}

func genContent(r *vlib.RNG, n int) recSpec {
	rs := recSpec{Len: n}
	switch {
	case n >= 2*ghostSize && r.Chance(1, 4):
		rs.Kind, rs.Seed = 2, r.Uint64()
	case n <= 96 && r.Chance(2, 3):
		rs.Kind, rs.Seed = 1, r.Uint64()
	default:
		rs.Kind = 0
		rs.B = []byte{0, 0, 1, 2, 3, 4, 5, 0xff, 'a', 'z'}[r.Intn(10)]
		if r.Chance(1, 2) {
			rs.B = byte(r.Intn(256))
		}
	}
	return rs
}

// genStream: nrec records, total layout size capped at maxBlocks blocks
func genStream(r *vlib.RNG, bs, maxBlocks int, count func(string)) streamSpec {
	var s streamSpec
	pos := layoutPos{0, bs}
	nrec := r.Range(1, 12)
	if r.Chance(1, 5) {
		nrec = r.Range(12, 40)
	}
	budget := maxBlocks * bs
	for k := 0; k < nrec; k++ {
		left := budget - pos.off - 64
		if left < 0 {
			break
		}
		n, cls := genLen(r, pos, left)
		count(cls)
		s.Recs = append(s.Recs, genContent(r, n))
		pos.add(n)
	}
	switch r.Intn(4) {
	case 0: // no flush
	case 1:
		for range s.Recs {
			s.Flush = append(s.Flush, true)
		}
	default:
		for range s.Recs {
			s.Flush = append(s.Flush, r.Chance(1, 2))
		}
	}
	if r.Chance(1, 3) {
		for _, rc := range s.Recs {
			sp := 0
			switch r.Intn(4) {
			case 0:
				sp = r.Range(1, 9)
			case 1:
				sp = r.Range(10, 5000)
			case 2:
				if rc.Len > 1 {
					sp = r.Range(1, rc.Len)
				}
			}
			if sp > 0 && rc.Len/sp > 4000 {
				sp = rc.Len/4000 + 1
			}
			s.Split = append(s.Split, sp)
		}
	}
	return s
}

// ---- damage

type dmgSpec struct {
	Kind string `json:"kind"` // flip zero garbage setlen settype zerotail garbagetail cutzero cutgarbage dupblock swapblocks
	Off  int    `json:"off"`
	Len  int    `json:"len"`
	Val  int    `json:"val"`
	Seed uint64 `json:"seed"`
}

// positional damage keeps every surviving byte at its offset: the (P) rules apply to it
func (d dmgSpec) positional() bool {
	switch d.Kind {
	case "dupblock", "swapblocks":
		return false
	}
	return true
}

func garbage(seed uint64, n int) []byte {
	g := vlib.NewRNG(seed)
	b := make([]byte, n)
	for i := range b {
		b[i] = byte(g.Uint64())
	}
	return b
}

// applyDamage returns the damaged copy and the range [lo,hi) of offsets whose bytes may differ
// from the original (for tails: the appended range).
func applyDamage(orig []byte, ds []dmgSpec, bs int) (out []byte, ranges [][2]int) {
	out = append([]byte{}, orig...)
	for _, d := range ds {
		switch d.Kind {
		case "flip":
			if d.Off < len(out) && d.Val&0xff != 0 {
				out[d.Off] ^= byte(d.Val)
				ranges = append(ranges, [2]int{d.Off, d.Off + 1})
			}
		case "zero":
			hi := d.Off + d.Len
			if hi > len(out) {
				hi = len(out)
			}
			for k := d.Off; k < hi; k++ {
				out[k] = 0
			}
			if hi > d.Off {
				ranges = append(ranges, [2]int{d.Off, hi})
			}
		case "garbage":
			hi := d.Off + d.Len
			if hi > len(out) {
				hi = len(out)
			}
			if hi > d.Off {
				copy(out[d.Off:hi], garbage(d.Seed, hi-d.Off))
				ranges = append(ranges, [2]int{d.Off, hi})
			}
		case "settype":
			if d.Off+7 <= len(out) && out[d.Off+6] != byte(d.Val) {
				out[d.Off+6] = byte(d.Val)
				ranges = append(ranges, [2]int{d.Off + 6, d.Off + 7})
			}
		case "setlen":
			if d.Off+6 <= len(out) {
				out[d.Off+4] = byte(d.Val)
				out[d.Off+5] = byte(d.Val >> 8)
				ranges = append(ranges, [2]int{d.Off + 4, d.Off + 6})
			}
		case "zerotail":
			out = append(out, make([]byte, d.Len)...)
			ranges = append(ranges, [2]int{len(out) - d.Len, len(out)})
		case "garbagetail":
			out = append(out, garbage(d.Seed, d.Len)...)
			ranges = append(ranges, [2]int{len(out) - d.Len, len(out)})
		case "cutzero", "cutgarbage":
			// what a crash leaves of an unsynced tail on some file systems (vstor TailCutZero /
			// TailCutJunk): the stream cut at Off, then zeros / garbage up to the written length
			// (Val = 1: garbage of period 16, which travels compactly in (K) cases)
			if d.Off < len(out) {
				n := len(out) - d.Off
				switch {
				case d.Kind == "cutzero":
					for k := d.Off; k < len(out); k++ {
						out[k] = 0
					}
				case d.Val == 1:
					pat := garbage(d.Seed, ghostSize)
					for k := 0; k < n; k++ {
						out[d.Off+k] = pat[k%ghostSize]
					}
				default:
					copy(out[d.Off:], garbage(d.Seed, n))
				}
				ranges = append(ranges, [2]int{d.Off, len(out)})
			}
		case "dupblock": // block Val is overwritten with a copy of block Off (block numbers)
			src, dst := d.Off*bs, d.Val*bs
			if src < len(out) && dst < len(out) {
				e := src + bs
				if e > len(out) {
					e = len(out)
				}
				blk := append([]byte{}, out[src:e]...)
				if dst+len(blk) > len(out) {
					out = append(out[:dst], blk...)
				} else {
					copy(out[dst:], blk)
				}
				ranges = append(ranges, [2]int{dst, dst + len(blk)})
			}
		case "swapblocks":
			a, b := d.Off*bs, d.Val*bs
			if a+bs <= len(out) && b+bs <= len(out) {
				for k := 0; k < bs; k++ {
					out[a+k], out[b+k] = out[b+k], out[a+k]
				}
				ranges = append(ranges, [2]int{a, a + bs}, [2]int{b, b + bs})
			}
		}
	}
	return out, ranges
}

// genDamage: one damage description (1..3 primitive damages) for a stream with layout l
func genDamage(r *vlib.RNG, stream []byte, l *refLayout, bs int, allowNonPositional bool) []dmgSpec {
	n := len(stream)
	if n == 0 {
		return []dmgSpec{{Kind: "garbagetail", Len: r.Range(1, 40), Seed: r.Uint64()}}
	}
	pickOff := func() int {
		// bias towards headers, chunk ends and block boundaries
		switch r.Intn(6) {
		case 0, 1:
			if len(l.Chunks) > 0 {
				c := l.Chunks[r.Intn(len(l.Chunks))]
				return c.Off + r.Intn(refHeader) // inside a header
			}
		case 2:
			if len(l.Chunks) > 0 {
				c := l.Chunks[r.Intn(len(l.Chunks))]
				if c.Len > 0 {
					switch r.Intn(3) {
					case 0:
						return c.Off + refHeader // first payload byte
					case 1:
						return c.Off + refHeader + c.Len - 1 // last payload byte
					}
					return c.Off + refHeader + r.Intn(c.Len)
				}
			}
		case 3:
			b := r.Intn(n/bs+1) * bs
			o := b + r.Range(-9, 9)
			if o >= 0 && o < n {
				return o
			}
		}
		return r.Intn(n)
	}
	var ds []dmgSpec
	one := func() dmgSpec {
		w := []int{6, 3, 3, 4, 1, 1, 0, 0, 2, 3}
		if allowNonPositional && n > bs {
			w[6], w[7] = 3, 2
		}
		switch r.Pick(w...) {
		case 0:
			v := 1 << uint(r.Intn(8))
			if r.Chance(1, 3) {
				v = r.Range(1, 255)
			}
			return dmgSpec{Kind: "flip", Off: pickOff(), Val: v}
		case 1:
			return dmgSpec{Kind: "zero", Off: pickOff(), Len: []int{1, 7, 8, 64, bs, r.Range(1, 3*bs)}[r.Intn(6)]}
		case 2:
			ln := []int{1, 4, 7, 64, bs, r.Range(1, 2*bs)}[r.Intn(6)]
			if allowNonPositional && ln > 64 {
				ln = r.Range(8, 64) // (K) cases travel as text: keep incompressible bytes few
			}
			return dmgSpec{Kind: "garbage", Off: pickOff(), Len: ln, Seed: r.Uint64()}
		case 3:
			// overwrite a chunk's length field: +-1, land on a ghost chunk of a decoy payload,
			// reach exactly / one past the block end, zero, maximum
			if len(l.Chunks) == 0 {
				return dmgSpec{Kind: "flip", Off: pickOff(), Val: 1}
			}
			c := l.Chunks[r.Intn(len(l.Chunks))]
			toEnd := (c.Off/bs+1)*bs - c.Off - refHeader
			v := c.Len
			switch r.Intn(8) {
			case 0:
				v = c.Len + 1
			case 1:
				v = c.Len - 1
			case 2, 3:
				if c.Len >= ghostSize {
					v = r.Intn(c.Len/ghostSize) * ghostSize
				} else {
					v = c.Len + ghostSize
				}
			case 4:
				v = toEnd + r.Range(0, 1)
			case 5:
				v = 0
			case 6:
				v = 0xffff
			default:
				v = r.Intn(0x10000)
			}
			if v < 0 {
				v = 1
			}
			if v == c.Len {
				v = c.Len + 2
			}
			return dmgSpec{Kind: "setlen", Off: c.Off, Val: v & 0xffff}
		case 4:
			return dmgSpec{Kind: "zerotail", Len: []int{1, 6, 7, 8, 100, bs}[r.Intn(6)]}
		case 5:
			ln := []int{1, 6, 7, 8, 100, bs}[r.Intn(6)]
			if allowNonPositional && ln > 100 {
				ln = 100
			}
			return dmgSpec{Kind: "garbagetail", Len: ln, Seed: r.Uint64()}
		case 9:
			// cut + zero / garbage tail up to the written length; cut points as for truncation:
			// headers, payload ends, and 1..8 bytes on either side of a block boundary
			off := pickOff()
			if n > bs && r.Chance(1, 3) {
				off = (1+r.Intn(n/bs))*bs + r.Range(-8, 8)
				if off >= n {
					off = n - 1
				}
			}
			if r.Chance(1, 2) {
				return dmgSpec{Kind: "cutzero", Off: off}
			}
			v := 0
			if allowNonPositional {
				v = 1
			}
			return dmgSpec{Kind: "cutgarbage", Off: off, Val: v, Seed: r.Uint64()}
		case 8:
			// overwrite a chunk's type byte: the values around the valid range, or another valid type
			if len(l.Chunks) == 0 {
				return dmgSpec{Kind: "flip", Off: pickOff(), Val: 1}
			}
			c := l.Chunks[r.Intn(len(l.Chunks))]
			return dmgSpec{Kind: "settype", Off: c.Off, Val: []int{0, 5, 5, 6, 255, 1, 2, 3, 4}[r.Intn(9)]}
		case 6:
			nb := (n + bs - 1) / bs
			return dmgSpec{Kind: "dupblock", Off: r.Intn(nb), Val: r.Intn(nb)}
		default:
			nb := n / bs
			if nb < 2 {
				return dmgSpec{Kind: "dupblock", Off: 0, Val: 1}
			}
			return dmgSpec{Kind: "swapblocks", Off: r.Intn(nb), Val: r.Intn(nb)}
		}
	}
	k := 1
	if r.Chance(1, 4) {
		k = r.Range(2, 3)
	}
	for i := 0; i < k; i++ {
		ds = append(ds, one())
	}
	return ds
}

// cutOffsets: every offset within +-16 of every chunk boundary and block boundary (and of the
// stream end), plus `extra` uniformly sampled offsets; all of them when the stream is short.
func cutOffsets(r *vlib.RNG, n int, l *refLayout, bs, extra int, allBelow int) []int {
	if n <= allBelow {
		out := make([]int, 0, n+1)
		for k := 0; k <= n; k++ {
			out = append(out, k)
		}
		return out
	}
	seen := map[int]bool{}
	add := func(c, w int) {
		for k := c - w; k <= c+w; k++ {
			if k >= 0 && k <= n {
				seen[k] = true
			}
		}
	}
	add(0, 16)
	add(n, 16)
	// every chunk boundary when there are few, a random selection of them otherwise
	chunks := l.Chunks
	if len(chunks) > 12 {
		chunks = nil
		for i := 0; i < 12; i++ {
			chunks = append(chunks, l.Chunks[r.Intn(len(l.Chunks))])
		}
	}
	for _, c := range chunks {
		add(c.Off, 9)
		add(c.Off+refHeader, 2)
		add(c.Off+refHeader+c.Len, 9)
	}
	for b := bs; b <= n+16; b += bs {
		add(b, 16)
	}
	for i := 0; i < extra; i++ {
		seen[r.Intn(n+1)] = true
	}
	out := make([]int, 0, len(seen))
	for k := range seen {
		out = append(out, k)
	}
	sort.Ints(out)
	return out
}
