// Driving the implementation: journal.Writer from a stream description, journal.Reader the way
// recoverJournal (leveldb/db.go) drives it.
package main

import (
	"bytes"
	"fmt"
	"io"
	"strings"

	"github.com/syndtr/goleveldb/leveldb/journal"
	"github.com/syndtr/goleveldb/leveldb/util"
)

// outcome kinds
const (
	oRec  = 'R'
	oSkip = 'S'
	oErr  = 'E'
	oDrop = 'D'
)

type outc struct {
	Kind   byte
	Data   []byte
	Reason int
	Size   int
}

func reasonCode(s string) int {
	switch {
	case s == "zero header":
		return 0
	case strings.HasPrefix(s, "invalid chunk type"):
		return 1
	case s == "chunk length overflows block":
		return 2
	case s == "checksum mismatch":
		return 3
	case s == "orphan chunk":
		return 4
	case s == "missing chunk part":
		return 5
	}
	return 99
}

type dropLog struct {
	outs *[]outc
	max  int
}

func (d dropLog) Drop(err error) {
	if len(*d.outs) > d.max {
		// every drop consumes input: more drops than input bytes means the reader is looping
		panic("reader does not terminate (more Drop calls than input bytes)")
	}
	if e, ok := err.(*journal.ErrCorrupted); ok {
		*d.outs = append(*d.outs, outc{Kind: oDrop, Reason: reasonCode(e.Reason), Size: e.Size})
	} else {
		*d.outs = append(*d.outs, outc{Kind: oDrop, Reason: 98, Size: -1})
	}
}

// pieceReader delivers at most n bytes per Read (io.ReadFull has to loop)
type pieceReader struct {
	b []byte
	n int
}

func (p *pieceReader) Read(q []byte) (int, error) {
	if len(p.b) == 0 {
		return 0, io.EOF
	}
	k := p.n
	if k > len(q) {
		k = len(q)
	}
	if k > len(p.b) {
		k = len(p.b)
	}
	copy(q, p.b[:k])
	p.b = p.b[k:]
	return k, nil
}

// readImpl runs journal.Reader over data exactly like the replay loop of recoverJournal:
// Next; ReadFrom into a util.Buffer; io.ErrUnexpectedEOF => skipped record; any other error stops.
// maxIter bounds the loop (a reader that never reaches EOF is reported as a hang).
func readImpl(data []byte, strict, checksum bool, piece int) (outs []outc, panicMsg string) {
	defer func() {
		if e := recover(); e != nil {
			panicMsg = fmt.Sprint(e)
		}
	}()
	var src io.Reader = bytes.NewReader(data)
	if piece > 0 {
		src = &pieceReader{data, piece}
	}
	jr := journal.NewReader(src, dropLog{&outs, 2*len(data) + 64}, strict, checksum)
	buf := &util.Buffer{}
	maxIter := len(data) + 16
	for it := 0; ; it++ {
		if it > maxIter {
			return outs, "reader does not terminate (more iterations than input bytes)"
		}
		r, err := jr.Next()
		if err != nil {
			if err == io.EOF {
				break
			}
			outs = append(outs, outc{Kind: oErr})
			break
		}
		buf.Reset()
		if _, err := buf.ReadFrom(r); err != nil {
			if err == io.ErrUnexpectedEOF {
				outs = append(outs, outc{Kind: oSkip})
				continue
			}
			outs = append(outs, outc{Kind: oErr})
			break
		}
		outs = append(outs, outc{Kind: oRec, Data: append([]byte{}, buf.Bytes()...)})
	}
	return outs, ""
}

// flushBuf is an io.Writer that also implements Flush (journal.Writer calls it)
type flushBuf struct {
	bytes.Buffer
	flushes int
}

func (f *flushBuf) Flush() error { f.flushes++; return nil }

// writeImpl writes the records through journal.Writer: per record Next, Write (in pieces of at
// most split[k] bytes when split[k] > 0), Flush when flush[k]; finally Close.
func writeImpl(recs [][]byte, flush []bool, split []int) (out []byte, ends []int64, panicMsg string) {
	defer func() {
		if e := recover(); e != nil {
			panicMsg = fmt.Sprint(e)
		}
	}()
	fb := &flushBuf{}
	w := journal.NewWriter(fb)
	for k, r := range recs {
		jw, err := w.Next()
		if err != nil {
			return nil, nil, "Writer.Next: " + err.Error()
		}
		sp := 0
		if k < len(split) {
			sp = split[k]
		}
		if sp <= 0 {
			if _, err := jw.Write(r); err != nil {
				return nil, nil, "Write: " + err.Error()
			}
		} else {
			for p := r; len(p) > 0; {
				n := sp
				if n > len(p) {
					n = len(p)
				}
				if _, err := jw.Write(p[:n]); err != nil {
					return nil, nil, "Write: " + err.Error()
				}
				p = p[n:]
			}
		}
		ends = append(ends, w.Size())
		if k < len(flush) && flush[k] {
			if err := w.Flush(); err != nil {
				return nil, nil, "Flush: " + err.Error()
			}
		}
	}
	if err := w.Close(); err != nil {
		return nil, nil, "Close: " + err.Error()
	}
	return fb.Bytes(), ends, ""
}

// probeBlockSize reads the implementation's block size off the first chunk of a long record.
func probeBlockSize() int {
	out, _, msg := writeImpl([][]byte{make([]byte, 200000)}, nil, nil)
	if msg != "" || len(out) < 7 {
		return refBlock
	}
	n := int(out[4]) | int(out[5])<<8
	return n + 7
}
