package main

import (
	"bytes"
	"fmt"
	"sort"
	"strings"
	"time"

	"github.com/syndtr/goleveldb/leveldb"
	"github.com/syndtr/goleveldb/leveldb/comparer"
	"github.com/syndtr/goleveldb/leveldb/opt"
	"github.com/syndtr/goleveldb/leveldb/storage"
	"verifharness/lib/dbh"
	"verifharness/lib/vlib"
	"verifharness/lib/vstor"
)

// hangLimit: an API call that does not return within this time is reported as a hang.
const hangLimit = 10 * time.Second

// within runs f on its own goroutine and reports whether it returned in time. A call that hangs keeps
// its goroutine (and whatever it holds) forever; the caller abandons that DB.
func within(d time.Duration, f func()) (returned bool, panicked string) {
	done := make(chan string, 1)
	go func() {
		defer func() {
			if x := recover(); x != nil {
				done <- fmt.Sprintf("panic: %v", x)
				return
			}
			done <- ""
		}()
		f()
	}()
	select {
	case p := <-done:
		return true, p
	case <-time.After(d):
		return false, ""
	}
}

// call runs an API call under the hang watchdog; what names it in the failure text.
func call(what string, f func() error) (err error, fail string) {
	ok, p := within(hangLimit, func() { err = f() })
	if !ok {
		return nil, fmt.Sprintf("HANG: %s did not return within %v", what, hangLimit)
	}
	if p != "" {
		return nil, what + ": " + p
	}
	return err, ""
}

func short(b []byte) string {
	if len(b) > 16 {
		return fmt.Sprintf("%x..(%d bytes)", b[:16], len(b))
	}
	return fmt.Sprintf("%x", b)
}

// tableNums lists the numbers of the table files present in the storage (checker's own view).
func tableNums(st *vstor.Stor) []int64 {
	var out []int64
	for _, fd := range st.ListAll() {
		if fd.Type == storage.TypeTable {
			out = append(out, fd.Num)
		}
	}
	return out
}

func hasTable(st *vstor.Stor, num int64) bool {
	for _, n := range tableNums(st) {
		if n == num {
			return true
		}
	}
	return false
}

// residue polls (<= 10 s) until every table file in the storage belongs to the live version or to the
// still-open transaction (keep); it returns the orphan file numbers that never went away.
func residue(db *leveldb.DB, st *vstor.Stor, keep []int64) []int64 {
	deadline := time.Now().Add(10 * time.Second)
	var extra []int64
	for {
		leveldb.VerifWaitIdle(db, 5*time.Second)
		live := map[int64]bool{}
		for _, t := range leveldb.VerifDumpVersion(db) {
			live[t.Num] = true
		}
		for _, n := range keep {
			live[n] = true
		}
		extra = extra[:0]
		for _, n := range tableNums(st) {
			if !live[n] {
				extra = append(extra, n)
			}
		}
		if len(extra) == 0 {
			// the version may have changed between the dump and the listing: confirm once more
			return nil
		}
		if time.Now().After(deadline) {
			return append([]int64(nil), extra...)
		}
		time.Sleep(2 * time.Millisecond)
	}
}

// goneWithin polls until none of the given table files exists any more.
func goneWithin(st *vstor.Stor, nums []int64, d time.Duration) []int64 {
	deadline := time.Now().Add(d)
	for {
		var left []int64
		for _, n := range nums {
			if hasTable(st, n) {
				left = append(left, n)
			}
		}
		if len(left) == 0 || time.Now().After(deadline) {
			return left
		}
		time.Sleep(time.Millisecond)
	}
}

// readAll reads every key of keys through get into a map (absent keys are omitted).
func readAll(keys [][]byte, get func([]byte) ([]byte, error)) (dbh.Oracle, error) {
	m := dbh.Oracle{}
	for _, k := range keys {
		v, err := get(k)
		if err == leveldb.ErrNotFound {
			continue
		}
		if err != nil {
			return nil, fmt.Errorf("Get(%x): %v", k, err)
		}
		m[string(k)] = v
	}
	return m, nil
}

// scanAll reads the whole DB through an iterator.
func scanAll(db *leveldb.DB) (dbh.Oracle, error) {
	it := db.NewIterator(nil, nil)
	defer it.Release()
	m := dbh.Oracle{}
	for it.Next() {
		m[string(it.Key())] = append([]byte{}, it.Value()...)
	}
	return m, it.Error()
}

func sameMap(a, b dbh.Oracle) bool {
	if len(a) != len(b) {
		return false
	}
	for k, v := range a {
		w, ok := b[k]
		if !ok || !bytes.Equal(v, w) {
			return false
		}
	}
	return true
}

// diffMap describes the first difference between what was read and what was expected.
func diffMap(got, want dbh.Oracle) string {
	var ks []string
	seen := map[string]bool{}
	for k := range got {
		ks, seen[k] = append(ks, k), true
	}
	for k := range want {
		if !seen[k] {
			ks = append(ks, k)
		}
	}
	sort.Strings(ks)
	n := 0
	var first string
	for _, k := range ks {
		g, okg := got[k]
		w, okw := want[k]
		if okg != okw || !bytes.Equal(g, w) {
			if n == 0 {
				gs, ws := "absent", "absent"
				if okg {
					gs = short(g)
				}
				if okw {
					ws = short(w)
				}
				first = fmt.Sprintf("key %x: read %s, expected %s", k, gs, ws)
			}
			n++
		}
	}
	if n == 0 {
		return ""
	}
	return fmt.Sprintf("%d keys differ, first %s", n, first)
}

// checkView compares Get of every key and a full scan with the expected map.
func checkView(db *leveldb.DB, keys [][]byte, want dbh.Oracle, what string) string {
	got, err := readAll(keys, func(k []byte) ([]byte, error) { return db.Get(k, nil) })
	if err != nil {
		return what + ": " + err.Error()
	}
	restricted := dbh.Oracle{}
	inKeys := map[string]bool{}
	for _, k := range keys {
		inKeys[string(k)] = true
		if v, ok := want[string(k)]; ok {
			restricted[string(k)] = v
		}
	}
	if d := diffMap(got, restricted); d != "" {
		return what + " (Get): " + d
	}
	sc, err := scanAll(db)
	if err != nil {
		return what + " scan: " + err.Error()
	}
	if d := diffMap(sc, want); d != "" {
		return what + " (scan): " + d
	}
	return ""
}

// applyRecs applies records to a map view.
func applyRecs(m dbh.Oracle, recs []dbh.Rec) {
	for _, rec := range recs {
		if rec.Del {
			delete(m, string(rec.K))
		} else {
			m[string(rec.K)] = append([]byte{}, rec.V...)
		}
	}
}

func mkBatch(recs []dbh.Rec) *leveldb.Batch {
	b := new(leveldb.Batch)
	for _, rec := range recs {
		if rec.Del {
			b.Delete(rec.K)
		} else {
			b.Put(rec.K, rec.V)
		}
	}
	return b
}

// internalLen is Batch.internalLen: what DB.Write compares with the write buffer size.
func internalLen(recs []dbh.Rec) int {
	n := 0
	for _, rec := range recs {
		n += len(rec.K) + len(rec.V) + 8
	}
	return n
}

// ---- Coq rendering ----

func coqEntry(e leveldb.VerifEntry) string {
	return fmt.Sprintf("KE %s %d %d %s", vlib.CoqHex(e.Ukey), e.Seq, e.Kind, vlib.CoqHex(dbh.Digest(e.Value)))
}

func coqEntries(es []leveldb.VerifEntry) string {
	items := make([]string, len(es))
	for i, e := range es {
		items[i] = coqEntry(e)
	}
	return "[" + strings.Join(items, "; ") + "]"
}

func coqTable(num int64, es []leveldb.VerifEntry) string {
	return fmt.Sprintf("KT %d %s", num, coqEntries(es))
}

func coqObs(v []byte, err error) (string, bool) {
	if err == nil {
		return "(Some " + vlib.CoqHex(dbh.Digest(v)) + ")", true
	}
	if err == leveldb.ErrNotFound {
		return "None", true
	}
	return "", false
}

func coqRecs(recs []dbh.Rec) string {
	items := make([]string, len(recs))
	for i, rec := range recs {
		kd, v := 1, dbh.Digest(rec.V)
		if rec.Del {
			kd, v = 0, nil
		}
		items[i] = fmt.Sprintf("(%d, %s, %s)", kd, vlib.CoqHex(rec.K), vlib.CoqHex(v))
	}
	return "[" + strings.Join(items, "; ") + "]"
}

func optionsOf(c dbh.Cfg) (*opt.Options, comparer.Comparer) {
	o := c.Options()
	return o, o.Comparer
}

// newSince returns the table files present now that were not in pre: what an Open created (tables written
// by journal recovery, and whatever a compaction started meanwhile). goleveldb never removes a table created
// by journal recovery once a compaction drops it from the version (it stays until the next Open; reported to
// the obsolete-files property, not a transaction residue), so the residue checks leave those aside.
func newSince(st *vstor.Stor, pre []int64) []int64 {
	was := map[int64]bool{}
	for _, n := range pre {
		was[n] = true
	}
	var out []int64
	for _, n := range tableNums(st) {
		if !was[n] {
			out = append(out, n)
		}
	}
	return out
}

// eventually retries an operation that may legitimately report a transient background error for a short
// while after the storage healed (the failed flush is retried in the background); a hang is never accepted.
func eventually(what string, f func() error) (err error, fail string) {
	deadline := time.Now().Add(5 * time.Second)
	for {
		err, fail = call(what, f)
		if fail != "" || err == nil || time.Now().After(deadline) {
			return
		}
		time.Sleep(5 * time.Millisecond)
	}
}
