package main

import (
	"bytes"
	"fmt"
	"hash/fnv"
	"sort"
	"strings"
	"time"

	"github.com/syndtr/goleveldb/leveldb"
	"github.com/syndtr/goleveldb/leveldb/comparer"
	"github.com/syndtr/goleveldb/leveldb/opt"
	"github.com/syndtr/goleveldb/leveldb/storage"
	"verifharness/lib/dbh"
	"verifharness/lib/vlib"
	"verifharness/lib/vstor"
)

// hangLimit: an API call that does not return within this time is reported as a hang.
const hangLimit = 10 * time.Second

// within runs f on its own goroutine and reports whether it returned in time. A call that hangs keeps
// its goroutine (and whatever it holds) forever; the caller abandons that DB.
func within(d time.Duration, f func()) (returned bool, panicked string) {
	done := make(chan string, 1)
	go func() {
		defer func() {
			if x := recover(); x != nil {
				done <- fmt.Sprintf("panic: %v", x)
				return
			}
			done <- ""
		}()
		f()
	}()
	select {
	case p := <-done:
		return true, p
	case <-time.After(d):
		return false, ""
	}
}

// call runs an API call under the hang watchdog; what names it in the failure text.
func call(what string, f func() error) (err error, fail string) {
	ok, p := within(hangLimit, func() { err = f() })
	if !ok {
		return nil, fmt.Sprintf("HANG: %s did not return within %v", what, hangLimit)
	}
	if p != "" {
		return nil, what + ": " + p
	}
	return err, ""
}

func short(b []byte) string {
	if len(b) > 16 {
		return fmt.Sprintf("%x..(%d bytes)", b[:16], len(b))
	}
	return fmt.Sprintf("%x", b)
}

// fileSet identifies table files by number AND content (file numbers are reused: a removed table's number
// may be handed to the next table written).
type fileSet map[int64]uint64

func fileHash(st *vstor.Stor, num int64) (uint64, bool) {
	data, _, ok := st.FileBytes(storage.FileDesc{Type: storage.TypeTable, Num: num})
	if !ok {
		return 0, false
	}
	h := fnv.New64a()
	h.Write(data)
	return h.Sum64(), true
}

// tableFiles lists the table files present in the storage (checker's own view).
func tableFiles(st *vstor.Stor) fileSet {
	out := fileSet{}
	for _, fd := range st.ListAll() {
		if fd.Type == storage.TypeTable {
			if h, ok := fileHash(st, fd.Num); ok {
				out[fd.Num] = h
			}
		}
	}
	return out
}

// filesOf identifies the given table numbers as they are now.
func filesOf(st *vstor.Stor, nums []int64) fileSet {
	out := fileSet{}
	for _, n := range nums {
		if h, ok := fileHash(st, n); ok {
			out[n] = h
		}
	}
	return out
}

func (fs fileSet) has(num int64, h uint64) bool {
	x, ok := fs[num]
	return ok && x == h
}

// residue polls (<= 10 s) until every table file in the storage belongs to the live version or to keep (the
// still-open transaction's tables, tables created by the last Open); it returns the orphan file numbers that
// never went away.
func residue(db *leveldb.DB, st *vstor.Stor, keep fileSet) []int64 {
	deadline := time.Now().Add(10 * time.Second)
	for {
		leveldb.VerifWaitIdleDB(db, 5*time.Second)
		live := map[int64]bool{}
		for _, t := range leveldb.VerifDumpVersion(db) {
			live[t.Num] = true
		}
		var extra []int64
		for n, h := range tableFiles(st) {
			if !live[n] && !keep.has(n, h) {
				extra = append(extra, n)
			}
		}
		if len(extra) > 0 {
			// the version may have moved between the dump and the listing
			for _, t := range leveldb.VerifDumpVersion(db) {
				live[t.Num] = true
			}
			k := 0
			for _, n := range extra {
				if !live[n] {
					extra[k] = n
					k++
				}
			}
			extra = extra[:k]
		}
		if len(extra) == 0 {
			return nil
		}
		if time.Now().After(deadline) {
			sort.Slice(extra, func(i, j int) bool { return extra[i] < extra[j] })
			return extra
		}
		time.Sleep(2 * time.Millisecond)
	}
}

// goneWithin polls until none of the given files (same number, same content) exists any more.
func goneWithin(st *vstor.Stor, fs fileSet, d time.Duration) []int64 {
	deadline := time.Now().Add(d)
	for {
		var left []int64
		for n, h := range fs {
			if x, ok := fileHash(st, n); ok && x == h {
				left = append(left, n)
			}
		}
		if len(left) == 0 || time.Now().After(deadline) {
			sort.Slice(left, func(i, j int) bool { return left[i] < left[j] })
			return left
		}
		time.Sleep(time.Millisecond)
	}
}

// readAll reads every key of keys through get into a map (absent keys are omitted).
func readAll(keys [][]byte, get func([]byte) ([]byte, error)) (dbh.Oracle, error) {
	m := dbh.Oracle{}
	for _, k := range keys {
		v, err := get(k)
		if err == leveldb.ErrNotFound {
			continue
		}
		if err != nil {
			return nil, fmt.Errorf("Get(%x): %v", k, err)
		}
		m[string(k)] = v
	}
	return m, nil
}

// scanAll reads the whole DB through an iterator.
func scanAll(db *leveldb.DB) (dbh.Oracle, error) {
	it := db.NewIterator(nil, nil)
	defer it.Release()
	m := dbh.Oracle{}
	for it.Next() {
		m[string(it.Key())] = append([]byte{}, it.Value()...)
	}
	return m, it.Error()
}

func sameMap(a, b dbh.Oracle) bool {
	if len(a) != len(b) {
		return false
	}
	for k, v := range a {
		w, ok := b[k]
		if !ok || !bytes.Equal(v, w) {
			return false
		}
	}
	return true
}

// diffMap describes the first difference between what was read and what was expected.
func diffMap(got, want dbh.Oracle) string {
	var ks []string
	seen := map[string]bool{}
	for k := range got {
		ks, seen[k] = append(ks, k), true
	}
	for k := range want {
		if !seen[k] {
			ks = append(ks, k)
		}
	}
	sort.Strings(ks)
	n := 0
	var first string
	for _, k := range ks {
		g, okg := got[k]
		w, okw := want[k]
		if okg != okw || !bytes.Equal(g, w) {
			if n == 0 {
				gs, ws := "absent", "absent"
				if okg {
					gs = short(g)
				}
				if okw {
					ws = short(w)
				}
				first = fmt.Sprintf("key %x: read %s, expected %s", k, gs, ws)
			}
			n++
		}
	}
	if n == 0 {
		return ""
	}
	return fmt.Sprintf("%d keys differ, first %s", n, first)
}

// checkView compares Get of every key and a full scan with the expected map.
func checkView(db *leveldb.DB, keys [][]byte, want dbh.Oracle, what string) string {
	got, err := readAll(keys, func(k []byte) ([]byte, error) { return db.Get(k, nil) })
	if err != nil {
		return what + ": " + err.Error()
	}
	restricted := dbh.Oracle{}
	inKeys := map[string]bool{}
	for _, k := range keys {
		inKeys[string(k)] = true
		if v, ok := want[string(k)]; ok {
			restricted[string(k)] = v
		}
	}
	if d := diffMap(got, restricted); d != "" {
		return what + " (Get): " + d
	}
	sc, err := scanAll(db)
	if err != nil {
		return what + " scan: " + err.Error()
	}
	if d := diffMap(sc, want); d != "" {
		return what + " (scan): " + d
	}
	return ""
}

// applyRecs applies records to a map view.
func applyRecs(m dbh.Oracle, recs []dbh.Rec) {
	for _, rec := range recs {
		if rec.Del {
			delete(m, string(rec.K))
		} else {
			m[string(rec.K)] = append([]byte{}, rec.V...)
		}
	}
}

func mkBatch(recs []dbh.Rec) *leveldb.Batch {
	b := new(leveldb.Batch)
	for _, rec := range recs {
		if rec.Del {
			b.Delete(rec.K)
		} else {
			b.Put(rec.K, rec.V)
		}
	}
	return b
}

// internalLen is Batch.internalLen: what DB.Write compares with the write buffer size.
func internalLen(recs []dbh.Rec) int {
	n := 0
	for _, rec := range recs {
		n += len(rec.K) + len(rec.V) + 8
	}
	return n
}

// ---- Coq rendering ----

func coqEntry(e leveldb.VerifEntry) string {
	return fmt.Sprintf("KE %s %d %d %s", vlib.CoqHex(e.Ukey), e.Seq, e.Kind, vlib.CoqHex(dbh.Digest(e.Value)))
}

func coqEntries(es []leveldb.VerifEntry) string {
	items := make([]string, len(es))
	for i, e := range es {
		items[i] = coqEntry(e)
	}
	return "[" + strings.Join(items, "; ") + "]"
}

func coqTable(num int64, es []leveldb.VerifEntry) string {
	return fmt.Sprintf("KT %d %s", num, coqEntries(es))
}

func coqObs(v []byte, err error) (string, bool) {
	if err == nil {
		return "(Some " + vlib.CoqHex(dbh.Digest(v)) + ")", true
	}
	if err == leveldb.ErrNotFound {
		return "None", true
	}
	return "", false
}

func coqRecs(recs []dbh.Rec) string {
	items := make([]string, len(recs))
	for i, rec := range recs {
		kd, v := 1, dbh.Digest(rec.V)
		if rec.Del {
			kd, v = 0, nil
		}
		items[i] = fmt.Sprintf("(%d, %s, %s)", kd, vlib.CoqHex(rec.K), vlib.CoqHex(v))
	}
	return "[" + strings.Join(items, "; ") + "]"
}

func optionsOf(c dbh.Cfg) (*opt.Options, comparer.Comparer) {
	o := c.Options()
	return o, o.Comparer
}

// createdSince returns the table files created by storage operations from index fromOp on (the storage must
// keep its op log): what an Open created — tables written by journal recovery, outputs of compactions started
// since. goleveldb never removes a table created by journal recovery once a compaction drops it from the
// version (it stays until the next Open; reported to the obsolete-files property, not a transaction residue),
// so the residue checks leave the files created since the last Open aside, identified as they are at the
// moment of the call.
func createdSince(st *vstor.Stor, fromOp int) fileSet {
	out := fileSet{}
	ops := st.Ops()
	if fromOp > len(ops) {
		fromOp = len(ops)
	}
	for _, o := range ops[fromOp:] {
		if o.Kind == vstor.OpCreate && o.Fd.Type == storage.TypeTable && !o.Fail {
			if h, ok := fileHash(st, o.Fd.Num); ok {
				out[o.Fd.Num] = h
			}
		}
	}
	return out
}

// eventually retries an operation that may legitimately report a transient background error for a short
// while after the storage healed (the failed flush is retried in the background); a hang is never accepted.
func eventually(what string, f func() error) (err error, fail string) {
	deadline := time.Now().Add(12 * time.Second)
	for {
		err, fail = call(what, f)
		if fail != "" || err == nil || time.Now().After(deadline) {
			return
		}
		time.Sleep(5 * time.Millisecond)
	}
}
