package main

import (
	"bytes"
	"fmt"

	"verifharness/lib/dbh"
	"verifharness/lib/vlib"
)

// extra op kind of this command: DB.Close while a transaction is open (it must discard it), then reopen.
const OpCloseOpen dbh.OpKind = "c11_close_with_open_txn"

// c11Cfg draws an option point biased to small write buffers (so that transaction bodies span many
// private tables) and to both settings of DisableLargeBatchTransaction.
func c11Cfg(r *vlib.RNG) dbh.Cfg {
	c := dbh.RandomCfg(r)
	c.WriteBuffer = []int{1024, 1024, 2048, 4096, 4096, 8192}[r.Intn(6)]
	c.NoLargeBatchTxn = r.Chance(1, 3)
	if r.Chance(1, 2) {
		c.BlockCache = []int{0, 4096, 4096, -1}[r.Intn(4)]
	}
	return c
}

// value sizes: empty, short, around the block size, a fraction of the write buffer (exact fills), around
// and above the write buffer.
func c11Value(r *vlib.RNG, c dbh.Cfg, key []byte, tag uint64, big bool) []byte {
	var n int
	w := []int{2, 10, 3, 3, 1, 0, 0}
	if big {
		w = []int{1, 4, 2, 5, 3, 2, 2}
	}
	switch r.Pick(w...) {
	case 0:
		n = 0
	case 1:
		n = r.Range(1, 24)
	case 2:
		n = c.BlockSize + r.Range(-9, 9)
	case 3:
		n = c.WriteBuffer/[]int{2, 3, 4, 8}[r.Intn(4)] + r.Range(-12, 12)
	case 4: // entry size divides the write buffer exactly
		n = c.WriteBuffer/[]int{2, 4, 8}[r.Intn(3)] - len(key) - 8
	case 5: // just around the write buffer
		n = c.WriteBuffer + r.Range(-40, 40) - len(key) - 8
	case 6: // well above
		n = c.WriteBuffer + r.Range(100, 3000)
	}
	if n < 0 {
		n = 0
	}
	v := make([]byte, n)
	s := fmt.Sprintf("%d:", tag)
	for i := range v {
		if i < len(s) {
			v[i] = s[i]
		} else {
			v[i] = byte('a' + (i*7+int(tag))%23)
		}
	}
	return v
}

type gen struct {
	r    *vlib.RNG
	cfg  dbh.Cfg
	pool [][]byte
	tag  uint64
	ops  []dbh.Op
	// number of live snapshots (mirrors the runner)
	nsnap int
}

func (g *gen) key() []byte { return g.pool[g.r.Intn(len(g.pool))] }

func (g *gen) add(op dbh.Op) { g.ops = append(g.ops, op) }

func (g *gen) recs(n int, big bool) []dbh.Rec {
	var recs []dbh.Rec
	for i := 0; i < n; i++ {
		k := g.key()
		g.tag++
		if g.r.Chance(1, 4) {
			recs = append(recs, dbh.Rec{Del: true, K: k})
		} else {
			recs = append(recs, dbh.Rec{K: k, V: c11Value(g.r, g.cfg, k, g.tag, big)})
		}
	}
	return recs
}

// oversized builds a batch whose internal length exceeds the write buffer.
func (g *gen) oversized() []dbh.Rec {
	var recs []dbh.Rec
	total := 0
	limit := g.cfg.WriteBuffer + g.r.Range(1, 2*g.cfg.WriteBuffer)
	if g.r.Chance(1, 4) {
		limit = g.cfg.WriteBuffer + 1 // barely above
	}
	for total <= limit && len(recs) < 600 {
		k := g.key()
		g.tag++
		if g.r.Chance(1, 6) {
			recs = append(recs, dbh.Rec{Del: true, K: k})
			total += len(k) + 8
			continue
		}
		v := c11Value(g.r, g.cfg, k, g.tag, true)
		if len(v) < 40 {
			v = append(v, bytes.Repeat([]byte{'p'}, 100)...)
		}
		recs = append(recs, dbh.Rec{K: k, V: v})
		total += len(k) + len(v) + 8
	}
	return recs
}

// outsideRead emits a read from outside the transaction (or just a read when none is open).
func (g *gen) outsideRead() {
	switch g.r.Pick(6, 2, 2, 2, 2, 1) {
	case 0:
		g.add(dbh.Op{Kind: dbh.OpGet, K: g.key()})
	case 1:
		g.add(dbh.Op{Kind: dbh.OpHas, K: g.key()})
	case 2:
		g.add(dbh.Op{Kind: dbh.OpScan})
	case 3:
		if g.nsnap < 6 {
			g.add(dbh.Op{Kind: dbh.OpSnap})
			g.nsnap++
		}
	case 4:
		if g.nsnap > 0 {
			g.add(dbh.Op{Kind: dbh.OpSnapRead, I: g.r.Intn(64)})
		}
	case 5:
		if g.nsnap > 0 {
			g.add(dbh.Op{Kind: dbh.OpSnapRelease, I: g.r.Intn(64)})
			g.nsnap--
		}
	}
}

func (g *gen) baseWrite() {
	switch g.r.Pick(8, 3, 3, 2) {
	case 0:
		k := g.key()
		g.tag++
		g.add(dbh.Op{Kind: dbh.OpPut, K: k, V: c11Value(g.r, g.cfg, k, g.tag, false), Sync: g.r.Chance(1, 3)})
	case 1:
		g.add(dbh.Op{Kind: dbh.OpDelete, K: g.key(), Sync: g.r.Chance(1, 3)})
	case 2:
		g.add(dbh.Op{Kind: dbh.OpBatch, Recs: g.recs(g.r.Range(1, 8), false), Sync: g.r.Chance(1, 3)})
	case 3: // oversized batch: routed through a transaction unless DisableLargeBatchTransaction
		g.add(dbh.Op{Kind: dbh.OpBatch, Recs: g.oversized(), Sync: g.r.Chance(1, 3)})
	}
}

// transaction emits one transaction: open, body, end.
func (g *gen) transaction() {
	g.add(dbh.Op{Kind: dbh.OpTxnOpen})
	// body size classes: empty, one write, small, large (many internal flushes)
	var n int
	switch g.r.Pick(1, 2, 5, 4) {
	case 0:
		n = 0
	case 1:
		n = 1
	case 2:
		n = g.r.Range(2, 12)
	case 3:
		n = g.r.Range(20, 70)
	}
	big := g.r.Chance(1, 2)
	for i := 0; i < n; i++ {
		switch g.r.Pick(6, 2, 2, 3, 1) {
		case 0:
			k := g.key()
			g.tag++
			g.add(dbh.Op{Kind: dbh.OpTxnPut, K: k, V: c11Value(g.r, g.cfg, k, g.tag, big)})
		case 1:
			g.add(dbh.Op{Kind: dbh.OpTxnDel, K: g.key()})
		case 2:
			if g.r.Chance(1, 5) {
				g.add(dbh.Op{Kind: dbh.OpTxnBatch, Recs: g.oversized()})
			} else {
				g.add(dbh.Op{Kind: dbh.OpTxnBatch, Recs: g.recs(g.r.Range(1, 10), big)})
			}
		case 3:
			g.add(dbh.Op{Kind: dbh.OpTxnGet, K: g.key()})
		case 4:
			g.add(dbh.Op{Kind: dbh.OpTxnScan})
		}
		if g.r.Chance(1, 3) {
			g.outsideRead()
		}
	}
	if n > 0 && g.r.Chance(1, 2) {
		g.add(dbh.Op{Kind: dbh.OpTxnScan})
	}
	switch g.r.Pick(6, 3, 2) {
	case 0:
		g.add(dbh.Op{Kind: dbh.OpTxnCommit})
	case 1:
		g.add(dbh.Op{Kind: dbh.OpTxnDiscard})
	case 2:
		g.add(dbh.Op{Kind: OpCloseOpen})
		g.nsnap = 0
	}
}

// genProgram: base writes, reads, snapshots, compactions and reopen around a sequence of transactions.
func genProgram(r *vlib.RNG, cfg dbh.Cfg, pool [][]byte, nops int) *dbh.Program {
	g := &gen{r: r, cfg: cfg, pool: pool}
	for len(g.ops) < nops {
		switch g.r.Pick(10, 6, 5, 1, 1, 1, 1) {
		case 0:
			g.baseWrite()
		case 1:
			g.outsideRead()
		case 2:
			g.transaction()
		case 3:
			if g.r.Bool() {
				g.add(dbh.Op{Kind: dbh.OpCompact})
			} else {
				a, b := g.key(), g.key()
				g.add(dbh.Op{Kind: dbh.OpCompact, K: a, HasK: true, K2: b, HasK2: true})
			}
		case 4:
			g.add(dbh.Op{Kind: dbh.OpReopen})
			g.nsnap = 0
		case 5:
			g.add(dbh.Op{Kind: dbh.OpWaitIdle})
		case 6:
			g.add(dbh.Op{Kind: dbh.OpCheckAll})
		}
	}
	g.add(dbh.Op{Kind: dbh.OpCheckAll})
	p := &dbh.Program{Cfg: cfg, Ops: g.ops}
	for _, k := range pool {
		p.Pool = append(p.Pool, k)
	}
	return p
}
