// c11: transactions are isolated, atomic and leave no residue when discarded.
//
// (P) on the implementation: programs with transaction bodies of any size (overlay/base map oracles per op,
// residue after Discard and after Close with an open transaction), writers queued behind an open
// transaction, crash images at every storage operation around Commit, commit failures (manifest / table
// faults) with retry / discard / close and follow-up operations under a hang watchdog, failing
// OpenTransaction, and readers inside the commit window.
// (K) states dumped inside open transactions are read by the Coq model of Transaction.Get / DB.get, and the
// op traces are replayed by the Coq transaction machine (Lsm/Txn.v), inside Coq.
package main

import (
	"encoding/json"
	"fmt"
	"os"
	"path/filepath"
	"sort"
	"strings"
	"sync"
	"time"

	"verifharness/lib/dbh"
	"verifharness/lib/vlib"
)

const rule = "cases = (a) random DB programs biased to transactions (bodies from 0 to ~70 ops with values up to several write buffers, reads through the transaction and from outside incl. snapshots taken while it is open, commit / discard / Close-with-open-transaction, oversized batches with and without DisableLargeBatchTransaction) x option lattice x 4 comparers, checked per op against overlay and base maps plus storage residue; (b) writer-waits scenarios; (c) crash scenarios: every storage-op index around Commit x tail policies, reopened and compared with base / base+all; (d) commit-failure scenarios (manifest sync/write, table sync/write faults; retry, discard or close; follow-ups under a 10 s hang watchdog); (e) failing OpenTransaction; (f) commit-window scenarios with readers placed inside manifest writes and at the yield point between version install and sequence publication; (g) byte-level transaction scenarios in six variants (plain; an iterator held across a private flush; a table fault inside Transaction.Write followed by Commit or by Discard; a failing Commit followed by a retry or by Discard with working / failing storage), driven call by call with the private state observed after every call, judged directly (overlay inside, base outside, prefix applied by a failed Write, snapshot between a failed and a successful Commit unchanged) and rendered as KTxnBytes cases for the Coq byte-level machine. Non-trivial = program with a transaction that flushed >=2 private tables and was read from both sides; scenario that reached its distinguishing situation (writer observed blocked then completed; both base and base+all crash images seen; a commit actually failed; a snapshot pinned inside the window; byte-level scenario with >= 2 private flushes, an injected fault that was hit, or a Commit that actually failed)"

type job struct {
	kind string
	i    int
	seed uint64
}

// caseOut is what one evaluated case reports.
type caseOut struct {
	fail       string
	known      string
	stats      map[string]int
	nontrivial bool
	kcases     []string
	bcase      string // a byte-level transaction case (KTxnBytes), evaluated by Corr/C11BytesRun.v
}

func runCase(c Case, kr *vlib.RNG) caseOut {
	var o scenOut
	switch c.Kind {
	case "prog":
		po := runProgram(c.Prog, kr)
		return caseOut{fail: po.fail, stats: po.stats, nontrivial: po.nontrivial, kcases: po.kcases}
	case "wait":
		o = scenWait(c.Seed, c.Thorough)
	case "crash":
		o = scenCrash(c.Seed, c.Thorough)
	case "fault":
		o = scenFault(c.Seed, c.Thorough)
	case "openfail":
		o = scenOpenFail(c.Seed, c.Thorough)
	case "window":
		o = scenWindow(c.Seed, c.Thorough)
	case "bytes":
		var bc string
		o, bc = scenBytes(c.Seed, c.Thorough)
		if o.fail == "" {
			o.known = ""
		}
		return caseOut{fail: o.fail, known: o.known, stats: o.stats, nontrivial: o.nontrivial, bcase: bc}
	default:
		return caseOut{fail: "unknown case kind " + c.Kind}
	}
	if o.fail == "" {
		o.known = ""
	}
	return caseOut{fail: o.fail, known: o.known, stats: o.stats, nontrivial: o.nontrivial}
}

func progOf(seed uint64, nops int) *dbh.Program {
	r := vlib.NewRNG(seed)
	cfg := c11Cfg(r)
	pool := dbh.GenPool(r, r.Range(8, 50), r.Chance(1, 10))
	p := genProgram(r, cfg, pool, r.Range(nops/3, nops))
	p.Seed = seed
	return p
}

func loadCase(path string) (Case, error) {
	var c Case
	b, err := os.ReadFile(path)
	if err != nil {
		return c, err
	}
	var wr struct {
		Case json.RawMessage `json:"case"`
	}
	if err := json.Unmarshal(b, &wr); err == nil && wr.Case != nil {
		b = wr.Case
	}
	err = json.Unmarshal(b, &c)
	return c, err
}

func main() {
	a := vlib.ParseArgs()
	res := vlib.NewResult("C11", a.Out, rule)
	defer res.Write()

	if a.Replay != "" {
		c, err := loadCase(a.Replay)
		if err != nil {
			fmt.Println("cannot load replay:", err)
			return
		}
		for i := 0; i < 3; i++ {
			o := runCase(c, nil)
			res.Eval(fmt.Sprintf("replay%d", i), true)
			if o.fail != "" {
				fmt.Println("replay fails:", o.fail)
				res.Violate(o.fail, c)
				if o.known != "" {
					res.Violations[len(res.Violations)-1].Known = o.known
				}
				return
			}
		}
		fmt.Println("replay passes")
		return
	}

	thorough := a.Thorough()
	n := map[string]int{"window": 24, "prog": 144, "wait": 16, "crash": 28, "fault": 36, "openfail": 8, "bytes": 48}
	nops, kTxnCap, kTraceCap, kBytesCap := 170, 64, 32, 48
	if thorough {
		n = map[string]int{"window": 400, "prog": 6000, "wait": 160, "crash": 700, "fault": 360, "openfail": 80, "bytes": 600}
		nops, kTxnCap, kTraceCap, kBytesCap = 400, 900, 450, 400
	}
	if strings.Contains(a.Extra, "search") && !thorough {
		for k := range n {
			n[k] *= 4
		}
	}
	if only := os.Getenv("C11_ONLY"); only != "" { // debugging aid: one case kind only
		for k := range n {
			if k != only {
				n[k] = 0
			}
		}
	}
	root := vlib.NewRNG(a.Seed)
	var kmu sync.Mutex
	var kTxn, kTrace, kBytes []string

	var vmu sync.Mutex
	nKnown := 0
	knownSeen := map[string]bool{}
	record := func(j job, c Case, o caseOut) {
		fail, stats, nontrivial, kcases := o.fail, o.stats, o.nontrivial, o.kcases
		for k, v := range stats {
			if strings.HasPrefix(k, "max_") {
				res.Count(fmt.Sprintf("runs_with_%s_%d", k, v), 1)
			} else {
				res.Count(k, v)
			}
		}
		res.Count("cases_"+j.kind, 1)
		if nontrivial {
			res.Count("nontrivial_"+j.kind, 1)
		}
		res.Eval(fmt.Sprintf("%s-%d", j.kind, j.i), nontrivial)
		kmu.Lock()
		if o.bcase != "" && len(kBytes) < kBytesCap {
			kBytes = append(kBytes, o.bcase)
		}
		for _, kc := range kcases {
			if len(kc) > 60000 {
				continue
			}
			if strings.HasPrefix(kc, "KTrace") {
				if len(kTrace) < kTraceCap {
					kTrace = append(kTrace, kc)
				}
			} else if len(kTxn) < kTxnCap {
				kTxn = append(kTxn, kc)
			}
		}
		kmu.Unlock()
		if j.i < 1 {
			s := map[string]interface{}{"kind": j.kind, "seed": j.seed, "stats": stats}
			if c.Prog != nil {
				m := 5
				if len(c.Prog.Ops) < m {
					m = len(c.Prog.Ops)
				}
				s["cfg"], s["ops"], s["first_ops"] = c.Prog.Cfg.String(), len(c.Prog.Ops), c.Prog.Ops[:m]
			}
			res.Sample(s)
		}
		if fail == "" {
			return
		}
		vmu.Lock()
		defer vmu.Unlock()
		if o.known != "" {
			// an instance of a recorded, unrepaired defect: reported once, as a known finding
			res.Count("known_finding_"+o.known, 1)
			if !knownSeen[o.known] {
				knownSeen[o.known] = true
				res.Violate(c.Kind+": "+fail, c)
				res.Violations[len(res.Violations)-1].Known = o.known
				nKnown++
			}
			return
		}
		if res.NViolations() >= 4+nKnown {
			return
		}
		if c.Kind == "prog" {
			fails := func(q *dbh.Program) bool {
				for t := 0; t < 2; t++ {
					if runProgram(q, nil).fail != "" {
						return true
					}
				}
				return false
			}
			if !strings.Contains(fail, "HANG") {
				q := dbh.Shrink(c.Prog, fails, 8*time.Second)
				if o := runProgram(q, nil); o.fail != "" {
					c.Prog, fail = q, fmt.Sprintf("%s [%d ops after shrinking]", o.fail, len(q.Ops))
				}
			}
			fail += " [" + c.Prog.Cfg.String() + "]"
		}
		res.Violate(c.Kind+": "+fail, c)
	}

	mk := func(j job) Case {
		c := Case{Kind: j.kind, Seed: j.seed, Thorough: thorough}
		if j.kind == "prog" {
			c.Prog = progOf(j.seed, nops)
		}
		return c
	}

	// corpus of earlier failing cases first
	if i := strings.Index(a.Extra, "corpus="); i >= 0 {
		dir := strings.Fields(a.Extra[i+7:])[0]
		files, _ := filepath.Glob(filepath.Join(dir, "*.json"))
		sort.Strings(files)
		for fi, f := range files {
			if c, err := loadCase(f); err == nil {
				record(job{kind: c.Kind, i: 100000 + fi, seed: c.Seed}, c, runCase(c, nil))
			}
		}
	}

	// phase 1: the commit-window scenarios use the process-wide yield hook: one DB at a time
	for i := 0; i < n["window"]; i++ {
		j := job{"window", i, root.Uint64()}
		c := mk(j)
		record(j, c, runCase(c, nil))
	}

	// phase 2: everything else in parallel; slow scenario kinds first
	var jobs []job
	for _, kind := range []string{"fault", "bytes", "crash", "openfail", "wait", "prog"} {
		off := root.Intn(36)
		for i := 0; i < n[kind]; i++ {
			sd := root.Uint64()
			if kind == "fault" {
				// consecutive residues modulo 36 walk through all (fault kind, via, afterwards) combinations
				sd = sd - sd%36 + uint64((off+i)%36)
			}
			if kind == "bytes" {
				// the variants in turn; the slow ones (a failing Commit sleeps 3 s) first
				sd = sd - sd%uint64(nBytesVariants) + uint64((nBytesVariants-1)-i%nBytesVariants)
			}
			jobs = append(jobs, job{kind, i, sd})
		}
	}
	ch := make(chan job)
	var wg sync.WaitGroup
	for wkr := 0; wkr < 16; wkr++ {
		wg.Add(1)
		go func() {
			defer wg.Done()
			for j := range ch {
				c := mk(j)
				var kr *vlib.RNG
				if j.kind == "prog" && j.i%2 == 0 {
					kr = vlib.NewRNG(j.seed ^ 0x5bd1e995)
				}
				t0 := time.Now()
				o := runCase(c, kr)
				if os.Getenv("C11_DEBUG") != "" {
					fmt.Printf("job %s-%d seed %d took %v fail=%q\n", j.kind, j.i, j.seed, time.Since(t0), o.fail)
				}
				record(j, c, o)
			}
		}()
	}
	for _, j := range jobs {
		ch <- j
	}
	close(ch)
	wg.Wait()

	kmu.Lock()
	all := append(append([]string{}, kTxn...), kTrace...)
	kmu.Unlock()
	res.Count("k_cases_txnget", len(kTxn))
	res.Count("k_cases_trace", len(kTrace))
	// interleave so that the shards have similar cost
	sort.SliceStable(all, func(i, j int) bool { return len(all[i]) > len(all[j]) })
	shards := 16
	mixed := make([]string, 0, len(all))
	for s := 0; s < shards; s++ {
		for i := s; i < len(all); i += shards {
			mixed = append(mixed, all[i])
		}
	}
	res.WriteCases("From GL Require Import Corr.C11Run.", "c11case", "mismatches", mixed, shards)
	res.Count("k_cases_txnbytes", len(kBytes))
	writeByteCases(res, a.Out, kBytes)
}
