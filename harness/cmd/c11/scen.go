package main

import (
	"bytes"
	"fmt"
	"os"
	"sync"
	"sync/atomic"
	"time"

	"github.com/syndtr/goleveldb/leveldb"
	"github.com/syndtr/goleveldb/leveldb/opt"
	"github.com/syndtr/goleveldb/leveldb/storage"
	"github.com/syndtr/goleveldb/leveldb/util"
	"verifharness/lib/dbh"
	"verifharness/lib/vlib"
	"verifharness/lib/vstor"
)

type scenOut struct {
	known      string // id of the recorded (unrepaired) defect this failure is an instance of
	fail       string
	stats      map[string]int
	nontrivial bool
}

func (o *scenOut) count(k string) { o.stats[k]++ }

// ---------------------------------------------------------------------------------------------------
// "other writers wait while it is open and proceed afterwards"

func scenWait(seed uint64, thorough bool) (out scenOut) {
	out.stats = map[string]int{}
	r := vlib.NewRNG(seed)
	w := newWorld(r, false, nil)
	if err := w.open(); err != nil {
		out.fail = "Open: " + err.Error()
		return
	}
	closed := false
	defer func() {
		if !closed {
			within(hangLimit, func() { w.db.Close() })
		}
	}()
	if err := w.baseWrites(r.Range(1, 12), false); err != nil {
		out.fail = "base write: " + err.Error()
		return
	}
	tr, err := w.db.OpenTransaction()
	if err != nil {
		out.fail = "OpenTransaction: " + err.Error()
		return
	}
	recs := w.body()
	kX := w.g.key()
	vT := []byte("value-written-by-the-transaction")
	recs = append(recs, dbh.Rec{K: kX, V: vT})
	if err := w.writeBody(tr, recs); err != nil {
		out.fail = "transaction write: " + err.Error()
		return
	}
	vOut := []byte("value-written-by-the-blocked-writer")
	kind := r.Pick(4, 2, 2, 2, 3)
	kindName := []string{"put", "delete", "batch", "oversized_batch", "open_transaction"}[kind]
	out.count("blocked_" + kindName)
	var tr2 *leveldb.Transaction
	var werr error
	var big []dbh.Rec
	if kind == 3 {
		big = w.g.oversized()
	}
	done := make(chan struct{})
	go func() {
		defer close(done)
		switch kind {
		case 0:
			werr = w.db.Put(kX, vOut, nil)
		case 1:
			werr = w.db.Delete(kX, nil)
		case 2:
			werr = w.db.Write(mkBatch([]dbh.Rec{{K: kX, V: vOut}}), nil)
		case 3:
			werr = w.db.Write(mkBatch(big), &opt.WriteOptions{Sync: true})
		case 4:
			tr2, werr = w.db.OpenTransaction()
		}
	}()
	// still blocked after 300 ms, and nothing of either side visible
	select {
	case <-done:
		out.fail = fmt.Sprintf("a %s issued from another goroutine returned (err=%v) while the transaction was open", kindName, werr)
		return
	case <-time.After(300 * time.Millisecond):
	}
	if d := checkView(w.db, w.keys(recs), w.base, "outside view while a writer is queued behind the open transaction"); d != "" {
		out.fail = d
		return
	}
	commit := r.Chance(2, 3)
	want := w.base.Clone()
	if commit {
		out.count("ended_by_commit")
		if err := tr.Commit(); err != nil {
			out.fail = "Commit: " + err.Error()
			return
		}
		applyRecs(want, recs)
	} else {
		out.count("ended_by_discard")
		tr.Discard()
	}
	select {
	case <-done:
	case <-time.After(hangLimit):
		out.fail = fmt.Sprintf("HANG: the %s queued behind the transaction did not proceed within %v after it ended", kindName, hangLimit)
		return
	}
	if werr != nil {
		out.fail = fmt.Sprintf("the queued %s failed: %v", kindName, werr)
		return
	}
	// the queued write is ordered after all of the transaction's writes
	switch kind {
	case 0, 2:
		want[string(kX)] = vOut
	case 1:
		delete(want, string(kX))
	case 3:
		applyRecs(want, big)
	case 4:
		v, err := tr2.Get(kX, nil)
		if commit && (err != nil || !bytes.Equal(v, vT)) {
			out.fail = fmt.Sprintf("a transaction opened after the commit reads %s err=%v for a key the committed transaction set", short(v), err)
			return
		}
		if !commit {
			bv, ok := w.base[string(kX)]
			if (ok && (err != nil || !bytes.Equal(v, bv))) || (!ok && err != leveldb.ErrNotFound) {
				out.fail = fmt.Sprintf("a transaction opened after the discard reads %s err=%v, base has %s", short(v), err, short(bv))
				return
			}
		}
		tr2.Discard()
	}
	if d := checkView(w.db, w.keys(recs), want, "after the transaction ended and the queued writer proceeded"); d != "" {
		out.fail = d
		return
	}
	out.nontrivial = true
	_, fail := call("DB.Close", func() error { return w.db.Close() })
	closed = true
	out.fail = fail
	return
}

// ---------------------------------------------------------------------------------------------------
// crash at every storage operation around Commit: contents are base or base+ALL, and base+ALL from the
// moment Commit returned

func scenCrash(seed uint64, thorough bool) (out scenOut) {
	out.stats = map[string]int{}
	r := vlib.NewRNG(seed)
	viaBatch := r.Chance(2, 5)
	w := newWorld(r, true, func(c *dbh.Cfg) {
		c.NoSync = false
		if viaBatch {
			c.NoLargeBatchTxn = false
		}
		if c.WriteBuffer > 4096 {
			c.WriteBuffer = 2048
		}
	})
	if err := w.open(); err != nil {
		out.fail = "Open: " + err.Error()
		return
	}
	if err := w.baseWrites(r.Range(0, 14), true); err != nil {
		out.fail = "base write: " + err.Error()
		return
	}
	leveldb.VerifWaitIdleDB(w.db, 10*time.Second)
	var recs []dbh.Rec
	var iOpen, iC, iR int
	if viaBatch {
		out.count("crash_via_oversized_batch")
		recs = w.g.oversized()
		iOpen = w.st.OpCount()
		iC = iOpen
		if err := w.db.Write(mkBatch(recs), &opt.WriteOptions{Sync: r.Bool()}); err != nil {
			out.fail = "oversized Write: " + err.Error()
			return
		}
		iR = w.st.OpCount()
	} else {
		out.count("crash_via_transaction")
		tr, err := w.db.OpenTransaction()
		if err != nil {
			out.fail = "OpenTransaction: " + err.Error()
			return
		}
		iOpen = w.st.OpCount()
		recs = w.body()
		if err := w.writeBody(tr, recs); err != nil {
			out.fail = "transaction write: " + err.Error()
			return
		}
		out.stats["private_tables_before_commit_"+bucket(len(leveldb.VerifTxnTableNums(tr)))]++
		iC = w.st.OpCount()
		if err := tr.Commit(); err != nil {
			out.fail = "Commit: " + err.Error()
			return
		}
		iR = w.st.OpCount()
	}
	full := w.overlay(recs)
	if sameMap(full, w.base) {
		out.count("crash_case_without_visible_change")
	}
	leveldb.VerifWaitIdleDB(w.db, 10*time.Second)
	iEnd := w.st.OpCount()
	if _, fail := call("DB.Close", func() error { return w.db.Close() }); fail != "" {
		out.fail = fail
		return
	}
	// indexes: every one in the window around the commit, a sample elsewhere
	idx := map[int]bool{}
	lo, hi := iC-2, iR+3
	if lo < iOpen {
		lo = iOpen
	}
	if hi > iEnd {
		hi = iEnd
	}
	winCap := 90
	if thorough {
		winCap = 100000
	}
	if hi-lo <= winCap {
		for i := lo; i <= hi; i++ {
			idx[i] = true
		}
	} else {
		// large window (many table blocks written by the final flush): all of the last 60 operations (manifest
		// record, sync, CURRENT) and a sample of the rest
		for i := iR - 60; i <= hi; i++ {
			idx[i] = true
		}
		for n := 0; n < winCap-60; n++ {
			idx[lo+r.Intn(iR-60-lo+1)] = true
		}
	}
	nOther := 12
	if thorough {
		nOther = 200
	}
	for n := 0; n < nOther && iC > iOpen; n++ {
		idx[iOpen+r.Intn(iC-iOpen)] = true
	}
	for n := 0; n < nOther && iEnd > iR; n++ {
		idx[iR+r.Intn(iEnd-iR+1)] = true
	}
	policies := []vstor.TailPolicy{vstor.TailLost, vstor.TailKept, vstor.TailCut}
	if thorough {
		policies = append(policies, vstor.TailCutZero, vstor.TailCutJunk)
	}
	keys := w.keys(recs)
	var mu sync.Mutex
	var wg sync.WaitGroup
	sem := make(chan struct{}, 4)
	sawBase, sawFull := 0, 0
	for i := range idx {
		for _, pol := range policies {
			i, pol := i, pol
			vanish := (i+int(pol))%3 == 0
			rs := r.Uint64() | 1
			wg.Add(1)
			sem <- struct{}{}
			go func() {
				defer wg.Done()
				defer func() { <-sem }()
				x := rs
				img := w.st.ImageAt(i, vstor.ImageOpts{Policy: pol, UnsyncedFilesVanish: vanish,
					Rand: func() uint64 { x ^= x << 13; x ^= x >> 7; x ^= x << 17; return x }})
				what := fmt.Sprintf("crash image after storage op #%d (Commit called at #%d, returned at #%d; tail policy %s, unsynced files vanish=%v)", i, iC, iR, pol, vanish)
				var db2 *leveldb.DB
				pre := img.OpCount()
				err, fail := call("Open of a "+what, func() (e error) { db2, e = leveldb.Open(img, w.opts); return })
				if fail == "" && err != nil {
					fail = fmt.Sprintf("%s: Open error %v", what, err)
				}
				if fail == "" {
					got, err := scanAll(db2)
					byGet, err2 := readAll(keys, func(k []byte) ([]byte, error) { return db2.Get(k, nil) })
					switch {
					case err != nil:
						fail = what + ": scan error " + err.Error()
					case err2 != nil:
						fail = what + ": " + err2.Error()
					default:
						isBase, isFull := sameMap(got, w.base), sameMap(got, full)
						gb, gf := true, true
						for _, k := range keys {
							v, ok := byGet[string(k)]
							bv, bok := w.base[string(k)]
							fv, fok := full[string(k)]
							gb = gb && ok == bok && bytes.Equal(v, bv)
							gf = gf && ok == fok && bytes.Equal(v, fv)
						}
						isBase, isFull = isBase && gb, isFull && gf
						mu.Lock()
						if isBase {
							sawBase++
						}
						if isFull {
							sawFull++
						}
						mu.Unlock()
						switch {
						case i >= iR && !isFull:
							fail = fmt.Sprintf("%s: Commit had returned, but the contents are not base+all transaction writes: %s", what, diffMap(got, full))
						case i <= iC && !isBase:
							fail = fmt.Sprintf("%s: Commit had not been called yet, but the contents are not the base: %s", what, diffMap(got, w.base))
						case !isBase && !isFull:
							fail = fmt.Sprintf("%s: contents are neither the base (%s) nor base+all transaction writes (%s)", what, diffMap(got, w.base), diffMap(got, full))
						}
					}
					if fail == "" {
						if extra := residue(db2, img, createdSince(img, pre)); len(extra) > 0 {
							fail = fmt.Sprintf("%s: after recovery table files %v are not in the live version", what, extra)
							if os.Getenv("C11_DEBUG") != "" {
								fmt.Println(fail)
								fmt.Println("  now", tableFiles(img), "version", leveldb.VerifDumpVersion(db2))
								fmt.Println("  iOpen", iOpen, "cfg", w.cfg.String(), "viaBatch", viaBatch)
								for _, o := range w.st.Ops()[:i] {
									if o.Kind != vstor.OpRead && o.Kind != vstor.OpWrite {
										fmt.Println("    orig ", o)
									}
								}
								for _, o := range img.Ops() {
									if o.Kind != vstor.OpRead && o.Kind != vstor.OpWrite {
										fmt.Println("    ", o)
									}
								}
							}
						}
					}
					if _, f2 := call("DB.Close", func() error { return db2.Close() }); f2 != "" && fail == "" {
						fail = what + ": " + f2
					}
				}
				// a closed DB stays reachable for about a second (mpoolDrain): do not let it pin the image's bytes
				img.Discard()
				mu.Lock()
				out.stats["crash_images"]++
				if fail != "" && out.fail == "" {
					out.fail = fail
				}
				mu.Unlock()
			}()
		}
	}
	wg.Wait()
	out.stats["crash_images_base"] += sawBase
	out.stats["crash_images_full"] += sawFull
	out.nontrivial = sawBase > 0 && sawFull > 0 && !sameMap(full, w.base)
	return
}

// ---------------------------------------------------------------------------------------------------
// commit failures: the manifest (or the transaction's last table) cannot be written while committing

const (
	fMSync  = iota // every manifest Sync fails until healed
	fMWrite        // every manifest Write fails until healed (nothing stored)
	fMWriteTorn    // every manifest Write fails after storing half of its bytes
	fMSyncOnce     // the first manifest Sync fails, later ones succeed (Commit retries by itself)
	fTSync         // the Sync of the table written by Commit's final flush fails once
	fTWrite        // a Write of that table fails once
	nFaultKinds
)

var faultNames = []string{"manifest_sync_persistent", "manifest_write_persistent", "manifest_write_torn_persistent",
	"manifest_sync_once", "table_sync_once", "table_write_once"}

func mkFault(kind int) *vstor.Fault {
	switch kind {
	case fMSync:
		return &vstor.Fault{Kind: vstor.OpSync, Type: storage.TypeManifest, Persistent: true}
	case fMWrite:
		return &vstor.Fault{Kind: vstor.OpWrite, Type: storage.TypeManifest, Persistent: true}
	case fMWriteTorn:
		return &vstor.Fault{Kind: vstor.OpWrite, Type: storage.TypeManifest, Persistent: true, PartialPermille: 500}
	case fMSyncOnce:
		return &vstor.Fault{Kind: vstor.OpSync, Type: storage.TypeManifest}
	case fTSync:
		return &vstor.Fault{Kind: vstor.OpSync, Type: storage.TypeTable}
	}
	return &vstor.Fault{Kind: vstor.OpWrite, Type: storage.TypeTable}
}

// slowCall: Commit sleeps one second after each of its three attempts.
func slowCall(what string, f func() error) (err error, fail string) {
	ok, p := within(hangLimit+5*time.Second, func() { err = f() })
	if !ok {
		return nil, fmt.Sprintf("HANG: %s did not return within %v", what, hangLimit+5*time.Second)
	}
	if p != "" {
		return nil, what + ": " + p
	}
	return err, ""
}

func scenFault(seed uint64, thorough bool) (out scenOut) {
	out.stats = map[string]int{}
	r := vlib.NewRNG(seed)
	// the low bits of the seed enumerate the combinations (the driver hands out consecutive values there),
	// everything else is drawn from the seed
	combo := int(seed % uint64(nFaultKinds*2*3))
	kind := combo % nFaultKinds
	viaBatch := (combo/nFaultKinds)%2 == 1
	then := combo / (nFaultKinds * 2) // 0 retry after heal, 1 discard, 2 close
	w := newWorld(r, true, func(c *dbh.Cfg) {
		c.NoSync = false
		if viaBatch {
			c.NoLargeBatchTxn = false
		}
		c.MaxManifest = []int64{0, 0, 1, 512}[r.Intn(4)]
	})
	rotating := w.cfg.MaxManifest == 1 // every commit writes a fresh manifest: no writer state survives a failure
	// with the default back-off a background job that keeps failing retries every 1..8 s instead of spinning
	w.opts.DisableCompactionBackoff = false
	name := faultNames[kind]
	out.count("fault_" + name)
	if os.Getenv("C11_DEBUG") != "" {
		w.stor = &logStor{w.st}
		fmt.Printf("fault scenario: kind=%s viaBatch=%v then=%d cfg=%s\n", name, viaBatch, then, w.cfg.String())
		defer func() {
			ops := w.st.Ops()
			if len(ops) > 120 {
				ops = ops[len(ops)-120:]
			}
			for _, o := range ops {
				if o.Kind != vstor.OpRead {
					fmt.Println("  ", o)
				}
			}
			fmt.Println("files", w.st.ListAll())
		}()
	}
	if err := w.open(); err != nil {
		out.fail = "Open: " + err.Error()
		return
	}
	abandoned := false
	defer func() {
		// Also after a hang: Close first signals every background job to stop (a job that retries forever
		// would otherwise keep the process-wide busy counter of the idle detector up), then may itself block on
		// the leaked lock; it is not waited for long.
		if w.db != nil {
			d := hangLimit
			if abandoned {
				d = 2 * time.Second
			}
			db := w.db
			within(d, func() { db.Close() })
		}
	}()
	if err := w.baseWrites(r.Range(0, 10), false); err != nil {
		out.fail = "base write: " + err.Error()
		return
	}
	leveldb.VerifWaitIdleDB(w.db, 10*time.Second)
	want := w.base.Clone()
	var recs []dbh.Rec
	var tr *leveldb.Transaction
	var cerr error
	var ft *vstor.Fault
	uncommitted := true // the failed commit was never completed by a successful retry
	stuckK2 := false    // a background job cannot finish after the failed manifest Write (C11-K2)
	// Recorded defect C11-K2 (liveness, C09 family): a failed manifest Write leaves the manifest's journal
	// writer in a permanent error state; every later commit fails, and a background flush/compaction that hits
	// it retries forever while holding the compaction commit lock, so a retried Transaction.Commit (or anything
	// that needs a flush) can block forever. Hangs in that situation are reported as that known finding.
	maybeSticky := (kind == fMWrite || kind == fMWriteTorn) && !rotating
	bad := func(f string, a ...interface{}) {
		out.fail = fmt.Sprintf("[fault %s, via %s, manifest rotation=%v] ", name, map[bool]string{true: "oversized batch", false: "transaction"}[viaBatch], rotating) + fmt.Sprintf(f, a...)
		if bytes.Contains([]byte(out.fail), []byte("HANG")) {
			abandoned = true
			if maybeSticky && ft != nil && ft.Hits > 0 {
				out.known = "C11-K2"
			}
		}
	}
	if viaBatch {
		out.count("fault_via_oversized_batch")
		recs = w.g.oversized()
		// nothing may be pending when the fault starts: flush the write buffer (what OpenTransaction would do
		// inside Write) and let the compactions it triggers finish
		if tr0, err := w.db.OpenTransaction(); err == nil {
			tr0.Discard()
		}
		leveldb.VerifWaitIdleDB(w.db, 10*time.Second)
		ft = mkFault(kind)
		w.st.AddFault(ft)
		var fail string
		cerr, fail = slowCall("DB.Write of an oversized batch while "+name, func() error { return w.db.Write(mkBatch(recs), nil) })
		if fail != "" {
			bad("%s", fail)
			return
		}
	} else {
		out.count("fault_via_transaction")
		var err error
		tr, err = w.db.OpenTransaction()
		if err != nil {
			out.fail = "OpenTransaction: " + err.Error()
			return
		}
		recs = w.body()
		if err := w.writeBody(tr, recs); err != nil {
			out.fail = "transaction write: " + err.Error()
			return
		}
		leveldb.VerifWaitIdleDB(w.db, 10*time.Second) // the flush done by OpenTransaction may have triggered a compaction
		ft = mkFault(kind)
		w.st.AddFault(ft)
		var fail string
		cerr, fail = slowCall("Transaction.Commit while "+name, tr.Commit)
		if fail != "" {
			bad("%s", fail)
			return
		}
	}
	full := w.overlay(recs)
	keys := w.keys(recs)
	hits := ft.Hits
	persistent := ft.Persistent
	if hits == 0 {
		out.count("fault_not_reached")
	}
	if cerr == nil {
		out.count("commit_succeeded_despite_fault")
		if persistent && hits > 0 {
			bad("the commit reported success although every one of %d manifest operations failed", hits)
			return
		}
		w.st.Heal()
		want = full
		if d := checkView(w.db, keys, full, "after a commit that reported success"); d != "" {
			bad("%s", d)
			return
		}
	} else {
		out.count("commit_failed")
		out.nontrivial = true
		// the failed commit must not keep the compaction commit lock: once the DB's background work has settled
		// nobody may hold it. (If the background work cannot settle after a failed manifest Write, that is the
		// recorded defect C11-K2; the retry below is then skipped instead of being left to hang.)
		settled := false
		within(3*time.Second, func() { settled = leveldb.VerifWaitIdleDB(w.db, 2500*time.Millisecond) })
		if settled && leveldb.VerifCompCommitLocked(w.db) {
			time.Sleep(20 * time.Millisecond)
			if leveldb.VerifCompCommitLocked(w.db) && leveldb.VerifWaitIdleDB(w.db, time.Second) {
				bad("the commit returned %v but left the compaction commit lock taken (no background job is running)", cerr)
				abandoned = true
				return
			}
		}
		if !settled {
			out.count("background_job_stuck_after_failed_commit")
			if maybeSticky && hits > 0 {
				stuckK2 = true
			}
		}
		// nothing visible outside
		if d := checkView(w.db, keys, w.base, "outside view after the failed commit"); d != "" {
			bad("%s", d)
			return
		}
		if viaBatch {
			w.st.Heal()
		} else {
			// the transaction is still usable
			ov := w.overlay(recs)
			for j := 0; j < 8; j++ {
				k := keys[r.Intn(len(keys))]
				v, err := tr.Get(k, nil)
				wv, ok := ov[string(k)]
				if (ok && (err != nil || !bytes.Equal(v, wv))) || (!ok && err != leveldb.ErrNotFound) {
					bad("after the failed commit Transaction.Get(%x) = %s err=%v, overlay has %s (present=%v)", k, short(v), err, short(wv), ok)
					return
				}
			}
			w.st.Heal()
			if stuckK2 && then == 0 {
				out.count("retry_skipped_background_job_stuck")
				then = 1
			}
			switch then {
			case 0:
				out.count("then_retry_commit")
				err2, fail := slowCall("the retried Transaction.Commit after the storage healed", tr.Commit)
				if fail != "" {
					bad("%s", fail)
					return
				}
				if err2 == nil {
					out.count("retry_succeeded")
					uncommitted = false
					want = full
				} else {
					out.count("retry_failed_again")
					if kind == fMSync || kind == fTSync || kind == fTWrite || rotating {
						bad("the retried Commit failed again although the storage had healed: %v", err2)
						return
					}
					if d := checkView(w.db, keys, w.base, "outside view after the second failed commit"); d != "" {
						bad("%s", d)
						return
					}
					if _, fail := call("Discard after failed commits", func() error { tr.Discard(); return nil }); fail != "" {
						bad("%s", fail)
						return
					}
				}
			case 1:
				out.count("then_discard")
				nums := filesOf(w.st, leveldb.VerifTxnTableNums(tr))
				if _, fail := call("Discard after a failed commit", func() error { tr.Discard(); return nil }); fail != "" {
					bad("%s", fail)
					return
				}
				if left := goneWithin(w.st, nums, 10*time.Second); len(left) > 0 {
					bad("Discard after a failed commit left table files %v", left)
					return
				}
			case 2:
				out.count("then_close")
			}
		}
		if d := checkView(w.db, keys, want, "outside view after the failed commit was resolved"); d != "" {
			bad("%s", d)
			return
		}
	}
	// follow-ups: the DB must keep working (a leaked lock shows up as a hang here)
	// a failed manifest Write leaves the manifest's journal writer in a permanent error state (recorded
	// separately as a liveness defect of the C09 family): later commits keep failing, so only a Put follows
	stickyManifest := (kind == fMWrite || kind == fMWriteTorn) && !rotating && hits > 0
	if then != 2 || viaBatch || cerr == nil {
		kF := append([]byte("follow-up-"), byte('a'+r.Intn(3)))
		if err, fail := eventually("a Put following the failed commit", func() error { return w.db.Put(kF, []byte("f1"), nil) }); fail != "" || err != nil {
			bad("follow-up Put: %s%v", fail, err)
			return
		}
		want[string(kF)] = []byte("f1")
		if !stickyManifest {
			var tr2 *leveldb.Transaction
			if err, fail := eventually("an OpenTransaction following the failed commit", func() (e error) { tr2, e = w.db.OpenTransaction(); return }); fail != "" || err != nil {
				bad("follow-up OpenTransaction: %s%v", fail, err)
				return
			}
			kG := []byte("follow-up-txn")
			if err := tr2.Put(kG, []byte("g1"), nil); err != nil {
				bad("follow-up Transaction.Put: %v", err)
				return
			}
			if err, fail := slowCall("a Commit following the failed commit", tr2.Commit); fail != "" || err != nil {
				bad("follow-up Commit: %s%v", fail, err)
				return
			}
			want[string(kG)] = []byte("g1")
			if err, fail := eventually("a CompactRange following the failed commit", func() error { return w.db.CompactRange(util.Range{}) }); fail != "" || err != nil {
				bad("follow-up CompactRange: %s%v", fail, err)
				return
			}
		}
		if d := checkView(w.db, keys, want, "after the follow-up writes"); d != "" {
			bad("%s", d)
			return
		}
	}
	if err, fail := call("DB.Close after the failed commit", func() error { return w.db.Close() }); fail != "" {
		bad("%s", fail)
		return
	} else if err != nil && !stickyManifest {
		bad("Close error %v", err)
		return
	}
	w.db = nil
	// reopen: what was (not) committed stays so
	// Recorded defect C11-K1: a commit that failed in the manifest Sync has nevertheless appended its record to
	// the manifest; once the transaction is discarded (Discard, DB.Write's own discard, Close) its tables are
	// removed and the next Open finds a manifest naming missing (or reused) files.
	if kind == fMSync && hits > 0 && cerr != nil && !rotating && uncommitted {
		out.known = "C11-K1"
	}
	var db2 *leveldb.DB
	pre := w.st.OpCount()
	if err, fail := call("reopen after the failed commit", func() (e error) { db2, e = leveldb.Open(w.stor, w.opts); return }); fail != "" || err != nil {
		bad("reopen: %s%v", fail, err)
		return
	}
	w.db = db2
	if d := checkView(db2, keys, want, "after reopen"); d != "" {
		bad("%s", d)
		return
	}
	if extra := residue(db2, w.st, createdSince(w.st, pre)); len(extra) > 0 {
		bad("after reopen table files %v are not in the live version", extra)
		return
	}
	out.known = ""
	return
}

// ---------------------------------------------------------------------------------------------------
// OpenTransaction itself fails (the new journal cannot be created): the write lock must be released

func scenOpenFail(seed uint64, thorough bool) (out scenOut) {
	out.stats = map[string]int{}
	r := vlib.NewRNG(seed)
	viaBatch := r.Chance(1, 3)
	w := newWorld(r, false, func(c *dbh.Cfg) {
		if viaBatch {
			c.NoLargeBatchTxn = false
		}
	})
	if err := w.open(); err != nil {
		out.fail = "Open: " + err.Error()
		return
	}
	abandoned := false
	defer func() {
		// Also after a hang: Close first signals every background job to stop (a job that retries forever
		// would otherwise keep the process-wide busy counter of the idle detector up), then may itself block on
		// the leaked lock; it is not waited for long.
		if w.db != nil {
			d := hangLimit
			if abandoned {
				d = 2 * time.Second
			}
			db := w.db
			within(d, func() { db.Close() })
		}
	}()
	if err := w.baseWrites(r.Range(0, 6), false); err != nil {
		out.fail = "base write: " + err.Error()
		return
	}
	// the live buffer must be non-empty so that OpenTransaction rotates it
	k0 := w.g.key()
	if err := w.db.Put(k0, []byte("in-the-buffer"), nil); err != nil {
		out.fail = "base write: " + err.Error()
		return
	}
	w.base[string(k0)] = []byte("in-the-buffer")
	want := w.base.Clone()
	ft := &vstor.Fault{Kind: vstor.OpCreate, Type: storage.TypeJournal}
	w.st.AddFault(ft)
	var recs []dbh.Rec
	var oerr error
	var fail string
	if viaBatch {
		out.count("openfail_via_oversized_batch")
		recs = w.g.oversized()
		oerr, fail = call("DB.Write of an oversized batch while the journal cannot be created", func() error { return w.db.Write(mkBatch(recs), nil) })
	} else {
		out.count("openfail_via_transaction")
		var tr *leveldb.Transaction
		oerr, fail = call("OpenTransaction while the journal cannot be created", func() (e error) { tr, e = w.db.OpenTransaction(); return })
		if fail == "" && oerr == nil {
			tr.Discard()
		}
	}
	if fail != "" {
		out.fail, abandoned = fail, true
		return
	}
	w.st.Heal()
	if ft.Hits == 0 {
		out.count("fault_not_reached")
	} else if oerr == nil {
		out.fail = "the operation reported success although the new journal file could not be created"
		return
	} else {
		out.count("open_failed")
		out.nontrivial = true
	}
	if oerr == nil && viaBatch {
		applyRecs(want, recs)
	}
	keys := w.keys(recs)
	if d := checkView(w.db, keys, want, "after the failed OpenTransaction"); d != "" {
		out.fail = d
		return
	}
	if err, fail := call("a Put following the failed OpenTransaction", func() error { return w.db.Put([]byte("follow-up"), []byte("f1"), nil) }); fail != "" || err != nil {
		out.fail = fmt.Sprintf("[OpenTransaction failed with %v] follow-up Put: %s%v", oerr, fail, err)
		abandoned = fail != ""
		return
	}
	want["follow-up"] = []byte("f1")
	var tr2 *leveldb.Transaction
	if err, fail := call("an OpenTransaction following the failed one", func() (e error) { tr2, e = w.db.OpenTransaction(); return }); fail != "" || err != nil {
		out.fail = fmt.Sprintf("follow-up OpenTransaction: %s%v", fail, err)
		abandoned = fail != ""
		return
	}
	tr2.Put([]byte("follow-up-txn"), []byte("g1"), nil)
	if err, fail := call("follow-up Commit", tr2.Commit); fail != "" || err != nil {
		out.fail = fmt.Sprintf("follow-up Commit: %s%v", fail, err)
		abandoned = fail != ""
		return
	}
	want["follow-up-txn"] = []byte("g1")
	if d := checkView(w.db, keys, want, "after the follow-up writes"); d != "" {
		out.fail = d
		return
	}
	if _, fail := call("DB.Close", func() error { return w.db.Close() }); fail != "" {
		out.fail, abandoned = fail, true
		return
	}
	w.db = nil
	return
}

// ---------------------------------------------------------------------------------------------------
// concurrent readers: interleaved with the body and inside the commit window

// hookStor lets the checker run code inside manifest writes and syncs (the commit is in progress: record not
// yet durable, version not yet installed).
type hookStor struct {
	*vstor.Stor
	on atomic.Value // func(what string)
}

type hookWriter struct {
	storage.Writer
	hs *hookStor
}

func (h *hookStor) fire(what string) {
	if f, _ := h.on.Load().(func(string)); f != nil {
		f(what)
	}
}

func (hw *hookWriter) Write(p []byte) (int, error) {
	hw.hs.fire("manifest write")
	return hw.Writer.Write(p)
}

func (hw *hookWriter) Sync() error {
	hw.hs.fire("manifest sync")
	err := hw.Writer.Sync()
	hw.hs.fire("after manifest sync")
	return err
}

func (h *hookStor) Create(fd storage.FileDesc) (storage.Writer, error) {
	w, err := h.Stor.Create(fd)
	if err != nil || fd.Type != storage.TypeManifest {
		return w, err
	}
	return &hookWriter{Writer: w, hs: h}, nil
}

// scenWindow must run alone in the process: it uses the process-wide yield hook (point 6: transaction
// record committed and version installed, sequence number not yet published).
func scenWindow(seed uint64, thorough bool) (out scenOut) {
	out.stats = map[string]int{}
	r := vlib.NewRNG(seed)
	viaBatch := r.Chance(1, 3)
	w := newWorld(r, false, func(c *dbh.Cfg) {
		if viaBatch {
			c.NoLargeBatchTxn = false
		}
	})
	hs := &hookStor{Stor: w.st}
	w.stor = hs
	if err := w.open(); err != nil {
		out.fail = "Open: " + err.Error()
		return
	}
	defer func() {
		leveldb.VerifSetHooks(nil, nil)
		hs.on.Store((func(string))(nil))
		if w.db != nil {
			within(hangLimit, func() { w.db.Close() })
		}
	}()
	if err := w.baseWrites(r.Range(0, 12), false); err != nil {
		out.fail = "base write: " + err.Error()
		return
	}
	var recs []dbh.Rec
	if viaBatch {
		recs = w.g.oversized()
	} else {
		recs = w.body()
	}
	full := w.overlay(recs)
	keys := w.keys(recs)
	differs := !sameMap(full, w.base)

	var mu sync.Mutex
	var fails []string
	fail := func(f string, a ...interface{}) {
		mu.Lock()
		if len(fails) < 3 {
			fails = append(fails, fmt.Sprintf(f, a...))
		}
		mu.Unlock()
	}
	type pinned struct {
		where string
		snap  *leveldb.Snapshot
		first dbh.Oracle
	}
	var pins []pinned
	var committing int32
	// what a reader placed inside the commit may see: exactly the base; and a snapshot taken there stays so
	probe := func(where string) {
		if atomic.LoadInt32(&committing) == 0 {
			return
		}
		got, err := readAll(keys, func(k []byte) ([]byte, error) { return w.db.Get(k, nil) })
		if err != nil {
			fail("%s: %v", where, err)
			return
		}
		isB, isF := sameMap(got, restrict(w.base, keys)), sameMap(got, restrict(full, keys))
		if !isB && !isF {
			fail("a reader at %s sees a mixture: vs base %s; vs base+all %s", where, diffMap(got, restrict(w.base, keys)), diffMap(got, restrict(full, keys)))
		}
		sn, err := w.db.GetSnapshot()
		if err != nil {
			fail("%s: GetSnapshot %v", where, err)
			return
		}
		first, err := readAll(keys, func(k []byte) ([]byte, error) { return sn.Get(k, nil) })
		if err != nil {
			fail("%s: snapshot read %v", where, err)
			return
		}
		mu.Lock()
		out.stats["probes_"+where]++
		if isB {
			out.stats["probe_saw_base"]++
		} else if isF {
			out.stats["probe_saw_full"]++
		}
		pins = append(pins, pinned{where, sn, first})
		mu.Unlock()
	}
	var nProbe int32
	hs.on.Store(func(what string) {
		if atomic.AddInt32(&nProbe, 1) <= 12 {
			probe(what)
		}
	})
	if viaBatch {
		out.count("window_via_oversized_batch")
	} else {
		out.count("window_via_transaction")
	}
	leveldb.VerifSetHooks(func(point int) {
		if point == leveldb.VerifYieldTxnCmt {
			probe("version installed, sequence number not yet published")
		}
	}, nil)

	// interleaved readers on their own goroutines for the whole life of the transaction
	stop := make(chan struct{})
	var rg sync.WaitGroup
	for g := 0; g < 2; g++ {
		rg.Add(1)
		go func(g int) {
			defer rg.Done()
			sawFull := false
			for n := 0; ; n++ {
				select {
				case <-stop:
					return
				default:
				}
				sn, err := w.db.GetSnapshot()
				if err != nil {
					return
				}
				a, err1 := readAll(keys, func(k []byte) ([]byte, error) { return sn.Get(k, nil) })
				b, err2 := readAll(keys, func(k []byte) ([]byte, error) { return sn.Get(k, nil) })
				sn.Release()
				if err1 != nil || err2 != nil {
					return
				}
				isB, isF := sameMap(a, restrict(w.base, keys)), sameMap(a, restrict(full, keys))
				switch {
				case !sameMap(a, b):
					fail("concurrent reader %d: two reads through one snapshot differ: %s", g, diffMap(b, a))
				case !isB && !isF:
					fail("concurrent reader %d: a snapshot shows a mixture: vs base %s; vs base+all %s", g, diffMap(a, restrict(w.base, keys)), diffMap(a, restrict(full, keys)))
				case differs && sawFull && !isF:
					fail("concurrent reader %d: saw the committed state, then the base again", g)
				}
				if differs && isF {
					sawFull = true
				}
				mu.Lock()
				out.stats["concurrent_snapshot_reads"]++
				mu.Unlock()
			}
		}(g)
	}

	var cerr error
	if viaBatch {
		atomic.StoreInt32(&committing, 1)
		cerr = w.db.Write(mkBatch(recs), nil)
		atomic.StoreInt32(&committing, 0)
	} else {
		tr, err := w.db.OpenTransaction()
		if err != nil {
			close(stop)
			rg.Wait()
			out.fail = "OpenTransaction: " + err.Error()
			return
		}
		if err := w.writeBody(tr, recs); err != nil {
			close(stop)
			rg.Wait()
			out.fail = "transaction write: " + err.Error()
			return
		}
		atomic.StoreInt32(&committing, 1)
		cerr = tr.Commit()
		atomic.StoreInt32(&committing, 0)
	}
	time.Sleep(time.Millisecond)
	close(stop)
	rg.Wait()
	leveldb.VerifSetHooks(nil, nil)
	hs.on.Store((func(string))(nil))
	if cerr != nil {
		out.fail = "commit: " + cerr.Error()
		return
	}
	// snapshots pinned inside the window still read what they read then
	for _, p := range pins {
		again, err := readAll(keys, func(k []byte) ([]byte, error) { return p.snap.Get(k, nil) })
		if err != nil {
			fail("snapshot pinned at %s: %v", p.where, err)
		} else if !sameMap(again, p.first) {
			fail("a snapshot taken at '%s' changed once the commit completed: %s", p.where, diffMap(again, p.first))
		} else if !sameMap(p.first, restrict(w.base, keys)) && !sameMap(p.first, restrict(full, keys)) {
			fail("a snapshot taken at '%s' shows a mixture: %s", p.where, diffMap(p.first, restrict(full, keys)))
		}
		p.snap.Release()
	}
	if d := checkView(w.db, keys, full, "after the commit returned"); d != "" {
		fail("%s", d)
	}
	if len(fails) > 0 {
		out.fail = fails[0]
	}
	out.nontrivial = len(pins) > 0 && differs
	return
}

func restrict(m dbh.Oracle, keys [][]byte) dbh.Oracle {
	o := dbh.Oracle{}
	for _, k := range keys {
		if v, ok := m[string(k)]; ok {
			o[string(k)] = v
		}
	}
	return o
}

// logStor prints the DB's own log lines (debugging aid, C11_DEBUG only).
type logStor struct{ *vstor.Stor }

func (l *logStor) Log(str string) { fmt.Println("   LOG", str) }
