package main

import (
	"fmt"
	"runtime/debug"
	"strings"
	"time"

	"github.com/syndtr/goleveldb/leveldb"
	"verifharness/lib/dbh"
	"verifharness/lib/vlib"
)

// prun runs one program through dbh.Runner (overlay/base map oracles per op) and adds the C11 checks:
// residue after Discard / Close-with-open-transaction, sequence bookkeeping, and the (K) material
// (state dumps inside an open transaction, and the op trace replayed by the Coq transaction machine).
type prun struct {
	r      *dbh.Runner
	p      *dbh.Program
	kr     *vlib.RNG // nil: no (K) collection
	stats  map[string]int
	trace  []string
	kcases []string
	nDump  int
	recovered fileSet          // tables created by the last Open (left aside by the residue checks)
	snaps  []*leveldb.Snapshot // own handles mirroring the runner's live snapshots (same sequence numbers)
	// per open transaction
	txnReadsIn, txnReadsOut, txnMaxTables int
	nontrivial                           bool
}

type progOut struct {
	fail       string
	failOp     int
	stats      map[string]int
	kcases     []string
	nontrivial bool
}

const traceCap = 420

func (x *prun) ev(format string, a ...interface{}) {
	if x.kr == nil || len(x.trace) >= traceCap {
		return
	}
	x.trace = append(x.trace, fmt.Sprintf(format, a...))
}

// evReseq records the sequence number found after a reopen (recovery may skip numbers, see Corr/C11Run.v).
func (x *prun) evReseq() {
	if x.kr != nil && x.r.DB != nil {
		x.ev("EReseq %d", leveldb.VerifSeq(x.r.DB))
	}
}

// evSeq records the observed sequence numbers (db.seq and, inside a transaction, tr.seq).
func (x *prun) evSeq() {
	if x.kr == nil || x.r.DB == nil {
		return
	}
	ts := "None"
	if x.r.Txn != nil {
		ts = fmt.Sprintf("(Some %d)", leveldb.VerifTxnSeq(x.r.Txn))
	}
	x.ev("ESeq %d %s", leveldb.VerifSeq(x.r.DB), ts)
}

func (x *prun) evOut(k []byte) {
	if x.kr == nil || x.r.DB == nil {
		return
	}
	if obs, ok := coqObs(x.r.DB.Get(k, nil)); ok {
		x.ev("EOut %s %s", vlib.CoqHex(k), obs)
	}
}

func (x *prun) noteTxnTables() {
	if x.r.Txn != nil {
		if n := len(leveldb.VerifTxnTableNums(x.r.Txn)); n > x.txnMaxTables {
			x.txnMaxTables = n
		}
	}
}

func (x *prun) endTxnStats() {
	if x.txnMaxTables >= 2 && x.txnReadsIn > 0 && x.txnReadsOut > 0 {
		x.nontrivial = true
		x.stats["txn_multi_table_read_both_sides"]++
	}
	if x.txnMaxTables > x.stats["max_private_tables"] {
		x.stats["max_private_tables"] = x.txnMaxTables
	}
	x.stats[fmt.Sprintf("txns_with_private_tables_%s", bucket(x.txnMaxTables))]++
	x.txnReadsIn, x.txnReadsOut, x.txnMaxTables = 0, 0, 0
}

func bucket(n int) string {
	switch {
	case n == 0:
		return "0"
	case n == 1:
		return "1"
	case n < 5:
		return "2-4"
	case n < 17:
		return "5-16"
	}
	return "17+"
}

// dumpTxn captures the layout inside an open transaction (private buffer, DB buffers, private tables, the
// pinned version) with reads through the transaction and from outside, as one KTxnGet case.
func (x *prun) dumpTxn() {
	r := x.r
	if x.kr == nil || r.Txn == nil || x.nDump >= 3 {
		return
	}
	ts, err := leveldb.VerifTxnEntries(r.Txn)
	if err != nil || ts.Closed {
		return
	}
	live, frozen, _ := leveldb.VerifMemEntries(r.DB)
	ver := leveldb.VerifDumpVersion(r.DB)
	dbseq := leveldb.VerifSeq(r.DB)
	n := len(ts.Mem) + len(live) + len(frozen)
	for _, es := range ts.TableEntries {
		n += len(es)
	}
	nl := 0
	for _, t := range ver {
		if t.Level+1 > nl {
			nl = t.Level + 1
		}
	}
	lv := make([][]string, nl)
	for _, t := range ver {
		es, err := leveldb.VerifTableEntries(r.DB, t)
		if err != nil {
			return
		}
		n += len(es)
		if n > 320 {
			return
		}
		lv[t.Level] = append(lv[t.Level], coqTable(t.Num, es))
	}
	if n > 320 {
		return
	}
	// the version may have moved under a background compaction while we read tables: dump again and compare
	ver2 := leveldb.VerifDumpVersion(r.DB)
	if len(ver2) != len(ver) {
		return
	}
	for i := range ver {
		if ver[i].Num != ver2[i].Num || ver[i].Level != ver2[i].Level {
			return
		}
	}
	var lvs []string
	for _, l := range lv {
		lvs = append(lvs, "["+strings.Join(l, "; ")+"]")
	}
	var aux []string
	for i, t := range ts.Tables {
		aux = append(aux, coqTable(t.Num, ts.TableEntries[i]))
	}
	var tqs, oqs []string
	nk := len(x.p.Pool)
	ask := func(k []byte) {
		if obs, ok := coqObs(r.Txn.Get(k, nil)); ok {
			tqs = append(tqs, fmt.Sprintf("(%s, %s)", vlib.CoqHex(k), obs))
		}
		if obs, ok := coqObs(r.DB.Get(k, nil)); ok {
			oqs = append(oqs, fmt.Sprintf("(%s, %d, %s)", vlib.CoqHex(k), dbseq, obs))
		}
	}
	for i := 0; i < 12 && i < nk; i++ {
		ask(x.p.Pool[x.kr.Intn(nk)])
	}
	// keys the transaction wrote are the interesting ones
	for i := 0; i < 6 && i < len(ts.Mem); i++ {
		ask(ts.Mem[x.kr.Intn(len(ts.Mem))].Ukey)
	}
	for _, es := range ts.TableEntries {
		if len(es) > 0 {
			ask(es[x.kr.Intn(len(es))].Ukey)
		}
	}
	ask([]byte("\x02absent"))
	x.kcases = append(x.kcases, fmt.Sprintf("KTxnGet %d %d %d %s %s %s [%s] [%s] [%s] [%s]", x.p.Cfg.CmpID, ts.Seq, dbseq,
		coqEntries(ts.Mem), coqEntries(live), coqEntries(frozen), strings.Join(aux, "; "), strings.Join(lvs, "; "),
		strings.Join(tqs, "; "), strings.Join(oqs, "; ")))
	x.nDump++
	x.stats["k_txnget_cases"]++
	if len(ts.Tables) >= 2 {
		x.stats["k_txnget_cases_2plus_private_tables"]++
	}
	if len(live)+len(frozen) > 0 {
		x.stats["k_txnget_cases_nonempty_db_buffers"]++
	}
}

// dropSnaps releases the mirrored snapshot handles before the DB is closed (the runner releases its own).
func (x *prun) dropSnaps() {
	for range x.r.Snaps {
		x.ev("ERelease 0")
	}
	for _, sn := range x.snaps {
		sn.Release()
	}
	x.snaps = nil
}

func fl(f *dbh.Failure) string {
	if f == nil {
		return ""
	}
	return f.What
}

// closeWithOpenTxn: DB.Close while the transaction is open. Close must discard it: its table files are gone
// when Close returns, the handle is dead, and after reopen the contents are the base map.
func (x *prun) closeWithOpenTxn(i int) string {
	r := x.r
	tr := r.Txn
	var nums fileSet
	if tr != nil {
		x.noteTxnTables()
		nums = filesOf(r.Stor, leveldb.VerifTxnTableNums(tr))
		x.endTxnStats()
		x.stats["close_with_open_txn"]++
		if len(nums) > 0 {
			x.stats["close_with_open_txn_having_tables"]++
		}
	}
	x.dropSnaps()
	x.ev("EClose")
	r.Txn, r.TxnMod = nil, nil // the runner must not discard it: Close has to
	err, fail := call("DB.Close with an open transaction", func() error { return r.Close() })
	if fail != "" {
		return fail
	}
	if err != nil {
		return fmt.Sprintf("Close (open transaction) error %v", err)
	}
	if left := goneWithin(r.Stor, nums, 0); len(left) > 0 {
		return fmt.Sprintf("DB.Close with an open transaction left the transaction's table files %v in the storage", left)
	}
	if tr != nil {
		if _, err := tr.Get([]byte("x"), nil); err == nil || err == leveldb.ErrNotFound {
			return fmt.Sprintf("Transaction.Get after DB.Close returned err=%v (a dead handle must report an error)", err)
		}
		if err := tr.Put([]byte("x"), []byte("y"), nil); err == nil {
			return "Transaction.Put after DB.Close succeeded"
		}
		if err := tr.Commit(); err == nil {
			return "Transaction.Commit after DB.Close succeeded"
		}
		tr.Discard()
	}
	pre := r.Stor.OpCount()
	if err := r.Open(); err != nil {
		return fmt.Sprintf("reopen after Close with open transaction: %v", err)
	}
	x.recovered = createdSince(r.Stor, pre)
	if f := r.CheckAll(true); f != nil {
		return "after Close with an open transaction and reopen: " + f.What
	}
	if extra := residue(r.DB, r.Stor, x.recovered); len(extra) > 0 {
		return fmt.Sprintf("after Close with an open transaction and reopen: table files %v are not in the live version", extra)
	}
	x.evReseq()
	return ""
}

func (x *prun) step(i int, op *dbh.Op) string {
	r := x.r
	switch op.Kind {
	case OpCloseOpen:
		return x.closeWithOpenTxn(i)
	case dbh.OpReopen:
		if r.Txn != nil {
			x.noteTxnTables()
			x.endTxnStats()
			x.ev("ETxnDiscard")
		}
		x.dropSnaps()
		x.ev("EClose")
		// what dbh does for this op, with the storage listing taken in between
		if err, fail := call("DB.Close", func() error { return r.Close() }); fail != "" || err != nil {
			return fmt.Sprintf("Close: %s%v", fail, err)
		}
		pre := r.Stor.OpCount()
		if err := r.Open(); err != nil {
			return fmt.Sprintf("reopen error %v", err)
		}
		x.recovered = createdSince(r.Stor, pre)
		if s := fl(r.CheckAll(true)); s != "" {
			return s
		}
		if extra := residue(r.DB, r.Stor, x.recovered); len(extra) > 0 {
			return fmt.Sprintf("after reopen table files %v are not in the live version", extra)
		}
		x.stats["op_reopen"]++
		x.evReseq()
	case dbh.OpPut, dbh.OpDelete, dbh.OpBatch:
		if r.Txn != nil {
			return "" // writers wait: exercised by the dedicated scenario, never issued from the program thread
		}
		if s := fl(r.Step(i, op)); s != "" {
			return s
		}
		recs := op.Recs
		switch op.Kind {
		case dbh.OpPut:
			recs = []dbh.Rec{{K: op.K, V: op.V}}
		case dbh.OpDelete:
			recs = []dbh.Rec{{Del: true, K: op.K}}
		}
		if len(recs) > 0 {
			if internalLen(recs) > x.p.Cfg.WriteBuffer && !x.p.Cfg.NoLargeBatchTxn {
				x.stats["oversized_batch_via_txn"]++
				x.ev("EBigWrite %s", coqRecs(recs))
			} else {
				if internalLen(recs) > x.p.Cfg.WriteBuffer {
					x.stats["oversized_batch_via_journal"]++
				}
				x.ev("EWrite %s", coqRecs(recs))
			}
			x.evSeq()
		}
	case dbh.OpGet:
		if r.Txn != nil {
			x.txnReadsOut++
		}
		if s := fl(r.Step(i, op)); s != "" {
			return s
		}
		x.evOut(op.K)
	case dbh.OpHas, dbh.OpScan:
		if r.Txn != nil {
			x.txnReadsOut++
		}
		return fl(r.Step(i, op))
	case dbh.OpSnap:
		n := len(r.Snaps)
		if s := fl(r.Step(i, op)); s != "" {
			return s
		}
		if len(r.Snaps) > n {
			x.ev("ESnap")
			if sn, err := r.DB.GetSnapshot(); err == nil {
				x.snaps = append(x.snaps, sn)
			}
			if r.Txn != nil {
				x.stats["snapshots_taken_while_txn_open"]++
			}
		}
	case dbh.OpSnapRead:
		if r.Txn != nil {
			x.txnReadsOut++
		}
		if s := fl(r.Step(i, op)); s != "" {
			return s
		}
		if len(r.Snaps) > 0 && len(x.snaps) == len(r.Snaps) && x.kr != nil {
			si := op.I % len(r.Snaps)
			for j := 0; j < 3; j++ {
				k := x.p.Pool[x.kr.Intn(len(x.p.Pool))]
				if obs, ok := coqObs(x.snaps[si].Get(k, nil)); ok {
					x.ev("ESnapGet %d %s %s", si, vlib.CoqHex(k), obs)
				}
			}
		}
	case dbh.OpSnapRelease:
		if len(r.Snaps) > 0 {
			si := op.I % len(r.Snaps)
			x.ev("ERelease %d", si)
			if len(x.snaps) == len(r.Snaps) {
				x.snaps[si].Release()
				x.snaps = append(x.snaps[:si], x.snaps[si+1:]...)
			}
		}
		return fl(r.Step(i, op))
	case dbh.OpTxnOpen:
		had := r.Txn != nil
		if s := fl(r.Step(i, op)); s != "" {
			return s
		}
		if !had && r.Txn != nil {
			x.stats["txn_opened"]++
			x.ev("ETxnOpen")
			x.evSeq()
			// the DB's buffers must be empty now (OpenTransaction flushed them): recorded, checked in (K)
			live, frozen, _ := leveldb.VerifMemEntries(r.DB)
			if len(live)+len(frozen) > 0 {
				x.stats["txn_open_with_nonempty_db_buffers"]++
			}
		}
	case dbh.OpTxnPut, dbh.OpTxnDel, dbh.OpTxnBatch:
		if r.Txn == nil {
			return ""
		}
		if s := fl(r.Step(i, op)); s != "" {
			return s
		}
		recs := op.Recs
		switch op.Kind {
		case dbh.OpTxnPut:
			recs = []dbh.Rec{{K: op.K, V: op.V}}
		case dbh.OpTxnDel:
			recs = []dbh.Rec{{Del: true, K: op.K}}
		}
		x.ev("ETxnWrite %s", coqRecs(recs))
		x.evSeq()
		x.noteTxnTables()
		if x.kr != nil && x.kr.Chance(1, 6) {
			x.dumpTxn()
		}
	case dbh.OpTxnGet:
		if r.Txn == nil {
			return ""
		}
		x.txnReadsIn++
		if s := fl(r.Step(i, op)); s != "" {
			return s
		}
		if obs, ok := coqObs(r.Txn.Get(op.K, nil)); ok {
			x.ev("ETxn %s %s", vlib.CoqHex(op.K), obs)
		}
		x.evOut(op.K)
		x.txnReadsOut++
	case dbh.OpTxnScan:
		if r.Txn == nil {
			return ""
		}
		x.txnReadsIn++
		x.txnReadsOut++ // dbh follows the transaction scan with a full outside check
		if s := fl(r.Step(i, op)); s != "" {
			return s
		}
		if x.kr != nil && x.kr.Chance(1, 3) {
			x.dumpTxn()
		}
	case dbh.OpTxnCommit:
		if r.Txn == nil {
			return ""
		}
		x.noteTxnTables()
		tr := r.Txn
		tseq := leveldb.VerifTxnSeq(tr)
		if s := fl(r.Step(i, op)); s != "" {
			return s
		}
		x.endTxnStats()
		x.ev("ETxnCommit")
		x.evSeq()
		if got := leveldb.VerifSeq(r.DB); got != tseq {
			return fmt.Sprintf("after Commit db.seq = %d, the transaction's counter was %d", got, tseq)
		}
		if _, err := tr.Get(op.K, nil); err == nil || err == leveldb.ErrNotFound {
			return "Transaction.Get on a committed transaction did not report an error"
		}
	case dbh.OpTxnDiscard:
		if r.Txn == nil {
			return ""
		}
		x.noteTxnTables()
		tr := r.Txn
		nums := filesOf(r.Stor, leveldb.VerifTxnTableNums(tr))
		seq0 := leveldb.VerifSeq(r.DB)
		if s := fl(r.Step(i, op)); s != "" {
			return s
		}
		x.endTxnStats()
		x.ev("ETxnDiscard")
		x.evSeq()
		if len(nums) > 0 {
			x.stats["discard_with_private_tables"]++
		}
		if left := goneWithin(r.Stor, nums, 10*time.Second); len(left) > 0 {
			return fmt.Sprintf("Discard left the transaction's table files %v in the storage", left)
		}
		if got := leveldb.VerifSeq(r.DB); got != seq0 {
			return fmt.Sprintf("Discard changed db.seq from %d to %d", seq0, got)
		}
		if err := tr.Commit(); err == nil {
			return "Commit after Discard succeeded"
		}
		if extra := residue(r.DB, r.Stor, x.recovered); len(extra) > 0 {
			return fmt.Sprintf("after Discard table files %v are not in the live version", extra)
		}
	case dbh.OpWaitIdle:
		x.stats["op_idle"]++
		if r.Txn == nil {
			leveldb.VerifWaitIdleDB(r.DB, 20*time.Second)
		}
	default:
		return fl(r.Step(i, op))
	}
	return ""
}

// runProgram executes the program under a watchdog; the DB is closed at the end.
func runProgram(p *dbh.Program, kr *vlib.RNG) (out progOut) {
	r, _ := dbh.NewRunner(p, true) // the op log tells which files an Open created
	x := &prun{r: r, p: p, kr: kr, stats: map[string]int{}}
	done := make(chan struct{})
	go func() {
		defer close(done)
		defer func() {
			if e := recover(); e != nil {
				s := fmt.Sprintf("panic: %v\n%s", e, debug.Stack())
				if len(s) > 1500 {
					s = s[:1500]
				}
				out.fail = s
			}
		}()
		if err := r.Open(); err != nil {
			out.fail, out.failOp = fmt.Sprintf("Open error %v", err), -1
			return
		}
		for i := range p.Ops {
			if s := x.step(i, &p.Ops[i]); s != "" {
				out.fail, out.failOp = fmt.Sprintf("op %d (%s): %s", i, p.Ops[i].Kind, s), i
				break
			}
		}
		if out.fail == "" && r.DB != nil && r.Txn == nil {
			if extra := residue(r.DB, r.Stor, x.recovered); len(extra) > 0 {
				out.fail, out.failOp = fmt.Sprintf("at the end table files %v are not in the live version", extra), len(p.Ops)
			}
		}
		if r.Txn != nil {
			x.endTxnStats()
		}
		for _, sn := range x.snaps {
			sn.Release()
		}
		x.snaps = nil
		err, fail := call("DB.Close", func() error { return r.Close() })
		if out.fail == "" {
			if fail != "" {
				out.fail, out.failOp = fail, len(p.Ops)
			} else if err != nil {
				out.fail, out.failOp = fmt.Sprintf("Close error %v", err), len(p.Ops)
			}
		}
	}()
	select {
	case <-done:
		r.Forget()
	case <-time.After(150 * time.Second):
		out.fail, out.failOp = "HANG: program did not finish within 150 s", -1
		return out
	}
	for k, v := range r.Stats {
		x.stats[k] += v
	}
	out.stats = x.stats
	out.nontrivial = x.nontrivial
	if kr != nil && out.fail == "" {
		out.kcases = x.kcases
		if len(x.trace) > 0 {
			out.kcases = append(out.kcases, fmt.Sprintf("KTrace %d [%s]", p.Cfg.CmpID, strings.Join(x.trace, ";\n  ")))
			out.stats["k_trace_cases"]++
			out.stats["k_trace_events"] += len(x.trace)
		}
	}
	return out
}
