package main

// Byte-level transaction scenarios (Coq side: Lsm/TxnBytes.v, Corr/C11BytesRun.v).
//
// One scenario = one transaction on a small DB over the checker-owned storage, driven op by op with the
// transaction's private state observed after every mutating call: tr.seq, the arrays of tr.mem, the private
// tables (their real file bytes), tr.rec as encoded; Transaction.Get, walks of Transaction.NewIterator and
// outside reads in between; then Commit or Discard with the manifest's records read back from the storage.
// Variants: plain; an iterator held across a private flush (the memdb is replaced, not reset); a table write
// fault at a private flush inside Transaction.Write (the call fails midway); a failing Commit (manifest sync /
// write fault) followed by a retry, or by Discard with a working or a failing storage.
// Everything observed becomes one KTxnBytes case which the Coq model machine must reproduce; the same run is
// judged directly ((P)): reads through the transaction = base overlaid with what was applied, outside reads =
// base, a failed Write leaves exactly a prefix applied, a snapshot taken between a failed and a successful
// Commit does not change, Commit publishes everything, Discard nothing.

import (
	"bytes"
	"fmt"
	"io"
	"os"
	"path/filepath"
	"sort"
	"strings"
	"time"

	"github.com/syndtr/goleveldb/leveldb"
	"github.com/syndtr/goleveldb/leveldb/iterator"
	"github.com/syndtr/goleveldb/leveldb/journal"
	"github.com/syndtr/goleveldb/leveldb/memdb"
	"github.com/syndtr/goleveldb/leveldb/opt"
	"github.com/syndtr/goleveldb/leveldb/storage"
	"github.com/syndtr/goleveldb/leveldb/util"
	"verifharness/lib/dbh"
	"verifharness/lib/vlib"
	"verifharness/lib/vstor"
)

const (
	bvPlain = iota
	bvIterHeld
	bvWriteFault
	bvWriteFaultDiscard
	bvCommitRetry
	bvCommitDiscard
	nBytesVariants
)

var bytesVariantNames = []string{"plain", "iter_held", "write_fault", "write_fault_discard", "commit_retry", "commit_discard"}

type bscen struct {
	r      *vlib.RNG
	w      *world
	tr     *leveldb.Transaction
	out    *scenOut
	evs    []string
	ver    []leveldb.VerifTable // the pinned version the case carries
	base   dbh.Oracle
	ovl    dbh.Oracle // base overlaid with everything applied through the transaction
	keys   [][]byte
	cap0   int
	budget int // remaining characters of case text
	dead   bool // the case cannot be rendered (version moved, oversized, unexpected error): (P) goes on, (K) is dropped
	nflush int
}

func (s *bscen) ev(format string, a ...interface{}) {
	if s.dead {
		return
	}
	t := fmt.Sprintf(format, a...)
	s.budget -= len(t)
	if s.budget < 0 {
		s.dead = true
		s.out.count("bytes_case_dropped_too_big")
		return
	}
	s.evs = append(s.evs, t)
}

func coqOptFull(v []byte, err error) (string, bool) {
	if err == nil {
		return "(Some " + vlib.CoqHex(v) + ")", true
	}
	if err == leveldb.ErrNotFound {
		return "None", true
	}
	return "", false
}

func coqKM(d *memdb.VerifDump) string {
	nd := make([]string, len(d.NodeData))
	for i, x := range d.NodeData {
		nd[i] = fmt.Sprintf("%d", x)
	}
	return fmt.Sprintf("(KM %s [%s] %d %d %d)", vlib.CoqHex(d.KvData), strings.Join(nd, ";"), d.MaxHeight, d.N, d.KvSize)
}

func coqKF(st *vstor.Stor, t leveldb.VerifTable) (string, bool) {
	data, _, ok := st.FileBytes(storage.FileDesc{Type: storage.TypeTable, Num: t.Num})
	if !ok || int64(len(data)) != t.Size {
		return "", false
	}
	return fmt.Sprintf("(KF %d %s %s %s)", t.Num, vlib.CoqHex(t.Imin), vlib.CoqHex(t.Imax), vlib.CoqHex(data)), true
}

// manifestRecords splits the manifest file the session currently writes to into its whole records.
func manifestRecords(st *vstor.Stor, num int64) ([][]byte, bool) {
	data, _, ok := st.FileBytes(storage.FileDesc{Type: storage.TypeManifest, Num: num})
	if !ok {
		return nil, false
	}
	jr := journal.NewReader(bytes.NewReader(data), nil, false, true)
	var recs [][]byte
	for {
		rd, err := jr.Next()
		if err != nil {
			break
		}
		b, err := io.ReadAll(rd)
		if err != nil {
			continue
		}
		recs = append(recs, b)
	}
	return recs, true
}

func coqHexList(bs [][]byte) string {
	items := make([]string, len(bs))
	for i, b := range bs {
		items[i] = vlib.CoqHex(b)
	}
	return "[" + strings.Join(items, "; ") + "]"
}

// heights of the nodes allocated in nodeData from index from on: [kv offset, key len, val len, height, next...]
func nodeHeights(nd []int, from int) (hs []int) {
	_, _, _, _, nHeight, nNext := memdb.VerifConsts()
	for i := from; i+nNext <= len(nd); {
		h := nd[i+nHeight]
		if h < 1 {
			break
		}
		hs = append(hs, h)
		i += nNext + h
	}
	return
}

func (s *bscen) sameVersion() bool {
	v := leveldb.VerifDumpVersion(s.w.db)
	if len(v) != len(s.ver) {
		return false
	}
	for i := range v {
		if v[i].Num != s.ver[i].Num || v[i].Level != s.ver[i].Level {
			return false
		}
	}
	return true
}

func (s *bscen) bad(format string, a ...interface{}) {
	if s.out.fail == "" {
		s.out.fail = "[bytes] " + fmt.Sprintf(format, a...)
	}
}

type txnObs struct {
	info   leveldb.VerifTxnInfo
	mem    *memdb.VerifDump
	tables []leveldb.VerifTable
}

func (s *bscen) observe() (o txnObs, ok bool) {
	o.info = leveldb.VerifTxnScalars(s.tr)
	if o.info.Closed {
		return o, false
	}
	o.mem, o.tables, ok = leveldb.VerifTxnDump(s.tr)
	return
}

// kputs renders the records of one mutating call with what the environment contributed, derived from the
// observations before and after the call.  failedAt >= 0: the record with that index hit the injected table
// fault (nothing from it on was applied).
func (s *bscen) kputs(recs []dbh.Rec, before, after txnObs, failedAt int) ([]string, bool) {
	applied := int(after.info.Seq - before.info.Seq)
	nNew := len(after.tables) - len(before.tables)
	if nNew < 0 || applied > len(recs) {
		return nil, false
	}
	// which record triggered each new flush: the one after the largest sequence number the table holds
	flushAt := map[int]leveldb.VerifTable{}
	if nNew > 0 {
		ts, err := leveldb.VerifTxnEntries(s.tr)
		if err != nil || len(ts.TableEntries) != len(after.tables) {
			return nil, false
		}
		for i := len(before.tables); i < len(after.tables); i++ {
			var mx uint64
			for _, e := range ts.TableEntries[i] {
				if e.Seq > mx {
					mx = e.Seq
				}
			}
			idx := int(mx - before.info.Seq) // record index (0-based) whose put flushed first
			if idx < 0 || idx >= len(recs) {
				return nil, false
			}
			flushAt[idx] = after.tables[i]
		}
	}
	// heights: of the records after the last flush of this call (the nodes of the earlier ones are gone with
	// the reset; any height reproduces the same pairs and the arrays are never observed in between)
	lastFlush := -1
	for idx := range flushAt {
		if idx > lastFlush {
			lastFlush = idx
		}
	}
	_, _, _, _, _, nNext := memdb.VerifConsts()
	maxH, _, _, _, _, _ := memdb.VerifConsts()
	from := len(before.mem.NodeData)
	if lastFlush >= 0 {
		from = nNext + maxH
	}
	hs := nodeHeights(after.mem.NodeData, from)
	first := 0
	if lastFlush >= 0 {
		first = lastFlush
	}
	if len(hs) != applied-first {
		return nil, false
	}
	items := make([]string, len(recs))
	for i, rec := range recs {
		h := 1
		if i >= first && i < applied {
			h = hs[i-first]
		}
		fl := "KFNone"
		if t, ok := flushAt[i]; ok {
			kf, ok := coqKF(s.w.st, t)
			if !ok {
				return nil, false
			}
			fl = fmt.Sprintf("(KFOk %s %d)", kf, after.mem.KvCap)
			s.nflush++
		}
		if i == failedAt {
			fl = "KFErr"
		}
		v := []byte(rec.V)
		if rec.Del {
			v = nil
		}
		items[i] = fmt.Sprintf("KP %s %s %s %d %d %s", vlib.CoqBool(rec.Del), vlib.CoqHex(rec.K), vlib.CoqHex(v), h, after.mem.KvCap, fl)
	}
	return items, true
}

// rec draws a record.  A value around or above the memdb's capacity (flush of everything, then a growing append)
// is drawn for single Puts only: inside one Write call the capacities in between are not observable.
func (s *bscen) rec(allowBig bool) dbh.Rec {
	k := s.keys[s.r.Intn(len(s.keys))]
	if s.r.Chance(1, 5) {
		return dbh.Rec{Del: true, K: k}
	}
	var n int
	big := 0
	if allowBig {
		big = 1
	}
	switch s.r.Pick(8, 4, big) {
	case 0:
		n = s.r.Range(0, 24)
	case 1:
		n = s.cap0/[]int{3, 4, 6}[s.r.Intn(3)] + s.r.Range(-8, 8)
	case 2:
		n = s.cap0 + s.r.Range(-30, 60) // around / above the capacity: flush of everything, then a growing append
	}
	if n < 0 {
		n = 0
	}
	v := make([]byte, n)
	for i := range v {
		v[i] = byte('a' + (i*5+len(s.evs))%26)
	}
	return dbh.Rec{K: k, V: v}
}

// mutate issues one Put / Delete / Write and records it.  fault: the table fault to be hit (nil: none).
func (s *bscen) mutate(recs []dbh.Rec, asBatch bool, expectFail bool) {
	before, ok := s.observe()
	if !ok {
		s.dead = true
		s.out.count("bytes_case_dropped_at_line_292")
		return
	}
	var err error
	if asBatch {
		err = s.tr.Write(mkBatch(recs), nil)
	} else if recs[0].Del {
		err = s.tr.Delete(recs[0].K, nil)
	} else {
		err = s.tr.Put(recs[0].K, recs[0].V, nil)
	}
	after, ok := s.observe()
	if !ok {
		s.dead = true
		s.out.count("bytes_case_dropped_at_line_305")
		return
	}
	applied := int(after.info.Seq - before.info.Seq)
	// (P) what the call left: exactly a prefix of its records; all of them iff it returned nil
	if err == nil && applied != len(recs) {
		s.bad("a transaction write of %d records returned nil but tr.seq advanced by %d", len(recs), applied)
	}
	if err != nil && !expectFail {
		s.bad("transaction write failed without an injected fault: %v", err)
		s.dead = true
		s.out.count("bytes_case_dropped_at_line_315")
		return
	}
	if err != nil && applied >= len(recs) {
		s.bad("a transaction write returned %v although tr.seq advanced by all %d records", err, applied)
	}
	if applied < 0 || applied > len(recs) {
		s.bad("tr.seq moved by %d in a write of %d records", applied, len(recs))
		s.dead = true
		s.out.count("bytes_case_dropped_at_line_323")
		return
	}
	applyRecs(s.ovl, recs[:applied])
	if err != nil {
		s.out.count("bytes_failed_write")
		s.out.count(fmt.Sprintf("bytes_failed_write_applied_prefix_%s", bucket(applied)))
	}
	failedAt := -1
	if err != nil {
		failedAt = applied
	}
	items, ok := s.kputs(recs, before, after, failedAt)
	if !ok {
		// never seen on the unchanged tree: the nodes of the private memdb and the private tables do not
		// account for the records tr.seq says were applied
		s.dead = true
		s.out.count("bytes_case_dropped_unrenderable_write")
		s.bad("after a transaction write (%d records, tr.seq advanced by %d, returned %v) the private memdb and tables do not hold what applying that prefix leaves (nodes / table contents do not match the sequence numbers)", len(recs), applied, err)
		return
	}
	okS := vlib.CoqBool(err == nil)
	if asBatch {
		s.ev("VWrite [%s] %s %d", strings.Join(items, "; "), okS, after.info.Seq)
	} else {
		s.ev("VPut (%s) %s %d", items[0], okS, after.info.Seq)
	}
	if len(after.tables) > len(before.tables) || s.r.Chance(1, 4) {
		s.ev("VMem %s %d %d", coqKM(after.mem), after.mem.KvCap, len(after.tables))
		s.ev("VRec %s", vlib.CoqHex(after.info.Rec))
	}
}

func (s *bscen) reads(n int) {
	if !s.sameVersion() {
		s.dead = true
		s.out.count("bytes_case_dropped_version_moved")
	}
	dbseq := leveldb.VerifSeq(s.w.db)
	for i := 0; i < n; i++ {
		k := s.keys[s.r.Intn(len(s.keys))]
		if s.r.Chance(1, 8) {
			k = []byte("\x02absent")
		}
		v, err := s.tr.Get(k, nil)
		if obs, ok := coqOptFull(v, err); ok {
			s.ev("VGet %s %s", vlib.CoqHex(k), obs)
			want, has := s.ovl[string(k)]
			if has != (err == nil) || (has && !bytes.Equal(want, v)) {
				s.bad("Transaction.Get(%x) = %s, %v; the base overlaid with the transaction's applied writes has %s (present %v)", k, short(v), err, short(want), has)
			}
		} else {
			s.bad("Transaction.Get(%x): %v", k, err)
		}
		if s.r.Chance(1, 2) {
			v, err := s.w.db.Get(k, nil)
			if obs, ok := coqOptFull(v, err); ok {
				s.ev("VOut %s %d %s", vlib.CoqHex(k), dbseq, obs)
				want, has := s.base[string(k)]
				if has != (err == nil) || (has && !bytes.Equal(want, v)) {
					s.bad("DB.Get(%x) while the transaction is open = %s, %v; the base has %s (present %v)", k, short(v), err, short(want), has)
				}
			}
		}
	}
}

func (s *bscen) walk() {
	var sl *util.Range
	slS := "None"
	if s.r.Chance(1, 3) {
		a, b := s.keys[s.r.Intn(len(s.keys))], s.keys[s.r.Intn(len(s.keys))]
		sl = &util.Range{}
		as, bs := "None", "None"
		if s.r.Chance(3, 4) {
			sl.Start, as = a, "(Some "+vlib.CoqHex(a)+")"
		}
		if s.r.Chance(3, 4) {
			sl.Limit, bs = b, "(Some "+vlib.CoqHex(b)+")"
		}
		slS = fmt.Sprintf("(Some (%s, %s))", as, bs)
	}
	it := s.tr.NewIterator(sl, nil)
	defer it.Release()
	var ms, obs []string
	n := s.r.Range(3, 9)
	cmp := s.w.opts.Comparer
	var got []string
	for i := 0; i < n; i++ {
		var ret bool
		switch s.r.Pick(2, 1, 2, 5, 2) {
		case 0:
			ms, ret = append(ms, "mF"), it.First()
		case 1:
			ms, ret = append(ms, "mL"), it.Last()
		case 2:
			k := s.keys[s.r.Intn(len(s.keys))]
			ms, ret = append(ms, "mS "+vlib.CoqHex(k)), it.Seek(k)
		case 3:
			ms, ret = append(ms, "mN"), it.Next()
		case 4:
			ms, ret = append(ms, "mP"), it.Prev()
		}
		if ret {
			obs = append(obs, fmt.Sprintf("oS %s %s", vlib.CoqHex(it.Key()), vlib.CoqHex(it.Value())))
			got = append(got, string(it.Key()))
			// (P) every pair the iterator shows is a pair of the overlay inside the range
			want, has := s.ovl[string(it.Key())]
			if !has || !bytes.Equal(want, it.Value()) {
				s.bad("the transaction's iterator shows %x=%s; the overlay has %s (present %v)", it.Key(), short(it.Value()), short(want), has)
			}
			if sl != nil && ((sl.Start != nil && cmp.Compare(it.Key(), sl.Start) < 0) || (sl.Limit != nil && cmp.Compare(it.Key(), sl.Limit) >= 0)) {
				s.bad("the transaction's iterator left its range at %x", it.Key())
			}
		} else {
			obs = append(obs, "oN")
		}
	}
	if err := it.Error(); err != nil {
		s.bad("the transaction's iterator reports %v", err)
		return
	}
	s.ev("VWalk %s [%s] [%s]", slS, strings.Join(ms, "; "), strings.Join(obs, "; "))
	s.out.count("bytes_walks")
	_ = got
}

// fullScan reads everything through an iterator of the transaction / of the DB.
func scanIter(it iterator.Iterator) (dbh.Oracle, error) {
	defer it.Release()
	m := dbh.Oracle{}
	for it.Next() {
		m[string(it.Key())] = append([]byte{}, it.Value()...)
	}
	return m, it.Error()
}

func decodeNextFile(rec []byte) (int64, bool) {
	v, err, _, pan := leveldb.VerifRecordDecode(rec)
	if err != nil || pan != "" || v == nil {
		return 0, false
	}
	return v.NextFileNum, true
}

func scenBytes(seed uint64, thorough bool) (out scenOut, kcase string) {
	out.stats = map[string]int{}
	r := vlib.NewRNG(seed)
	variant := int(seed % uint64(nBytesVariants))
	out.count("bytes_variant_" + bytesVariantNames[variant])
	w := newWorld(r, true, func(c *dbh.Cfg) {
		c.NoSync = false
		c.WriteBuffer = []int{600, 900, 1200, 2000}[r.Intn(4)]
		c.BlockSize = []int{64, 256, 1024}[r.Intn(3)]
		c.DisableSeeks = true
		c.IterSampling = 0
		c.L0Trigger = 4
		c.MaxManifest = []int64{0, 0, 0, 1, 700}[r.Intn(5)]
		if c.FilterBits == 1 || c.FilterBits == 64 {
			c.FilterBits = 10
		}
		c.FilterBaseLg = 0
	})
	w.opts.DisableCompactionBackoff = false
	w.opts.DisableSeeksCompaction = true
	if err := w.open(); err != nil {
		out.fail = "Open: " + err.Error()
		return
	}
	defer func() {
		if w.db != nil {
			db := w.db
			within(hangLimit, func() { db.Close() })
		}
	}()
	if err := w.baseWrites(r.Range(2, 14), false); err != nil {
		out.fail = "base write: " + err.Error()
		return
	}
	s := &bscen{r: r, w: w, out: &out, budget: 120000, cap0: w.cfg.WriteBuffer}
	if thorough {
		s.budget = 200000
	}
	s.keys = append(append([][]byte{}, w.pool...), []byte("zz-own"))
	if len(s.keys) > 14 {
		s.keys = s.keys[:14]
	}
	tr, err := w.db.OpenTransaction()
	if err != nil {
		out.fail = "OpenTransaction: " + err.Error()
		return
	}
	s.tr = tr
	trOpen := true
	defer func() {
		if trOpen {
			tr.Discard()
		}
	}()
	leveldb.VerifWaitIdleDB(w.db, 10*time.Second)
	s.base = w.base.Clone()
	s.ovl = w.base.Clone()

	// ---- the state at open
	s.ver = leveldb.VerifDumpVersion(w.db)
	live, frozen := leveldb.VerifMemDumps(w.db)
	sess := leveldb.VerifSession(w.db)
	dbseq0 := leveldb.VerifSeq(w.db)
	if live == nil || frozen != nil || live.N != 0 {
		s.dead = true
		s.out.count("bytes_case_dropped_at_line_529")
		out.count("bytes_case_dropped_db_memdb_not_empty")
	}
	nl := 0
	for _, t := range s.ver {
		if t.Level+1 > nl {
			nl = t.Level + 1
		}
	}
	lv := make([][]string, nl)
	for _, t := range s.ver {
		kf, ok := coqKF(w.st, t)
		if !ok {
			s.dead = true
			s.out.count("bytes_case_dropped_at_line_542")
			break
		}
		s.budget -= len(kf)
		lv[t.Level] = append(lv[t.Level], kf)
	}
	var lvs []string
	for _, l := range lv {
		lvs = append(lvs, "["+strings.Join(l, "; ")+"]")
	}
	man0, okm := manifestRecords(w.st, sess.ManifestNum)
	if !okm {
		s.dead = true
		s.out.count("bytes_case_dropped_at_line_554")
	}
	for _, m := range man0 {
		s.budget -= 2 * len(m)
	}
	var cps []string
	for lvl, ik := range sess.CompPtrs {
		if ik != nil {
			cps = append(cps, fmt.Sprintf("(%d, %s)", lvl, vlib.CoqHex(ik)))
		}
	}
	verify, fname, ri := leveldb.VerifReadSetup(w.db)
	fn := "None"
	if fname != "" {
		fn = "(Some " + vlib.CoqHex([]byte(fname)) + ")"
	}
	strict := leveldb.VerifIterStrict(w.db, nil)
	o0, ok := s.observe()
	if !ok {
		out.fail = "[bytes] the transaction is closed right after OpenTransaction"
		return
	}
	if o0.info.Seq != dbseq0 {
		s.bad("tr.seq = %d right after OpenTransaction, db.seq = %d", o0.info.Seq, dbseq0)
	}
	s.ev("VOpen %d", o0.mem.KvCap)
	s.ev("VMem %s %d 0", coqKM(o0.mem), o0.mem.KvCap)
	s.cap0 = o0.mem.KvCap

	rot := func() bool {
		si := leveldb.VerifSession(w.db)
		return si.ManifestSize >= si.MaxManifest
	}

	// ---- the body
	nops := r.Range(8, 26)
	var held iterator.Iterator
	var heldWant dbh.Oracle
	faultArmed := false
	var ft *vstor.Fault
	for i := 0; i < nops && out.fail == ""; i++ {
		switch r.Pick(6, 4, 3, 2) {
		case 0:
			s.mutate([]dbh.Rec{s.rec(true)}, false, false)
		case 1:
			n := r.Range(2, 7)
			recs := make([]dbh.Rec, n)
			for j := range recs {
				recs[j] = s.rec(false)
			}
			s.mutate(recs, true, false)
		case 2:
			s.reads(r.Range(1, 4))
		case 3:
			s.walk()
		}
		if variant == bvIterHeld && held == nil && i >= nops/4 {
			// an iterator created now must keep showing this instant, whatever the transaction writes next
			// (its memdb is replaced, not reset, by the next private flush)
			held = tr.NewIterator(nil, nil)
			heldWant = s.ovl.Clone()
			s.ev("VIterOpen")
			out.count("bytes_iterator_held")
		}
		if (variant == bvWriteFault || variant == bvWriteFaultDiscard) && !faultArmed && i >= nops/3 {
			// a Write big enough to need a private flush, with the table file failing
			faultArmed = true
			ft = &vstor.Fault{Kind: []vstor.OpKind{vstor.OpWrite, vstor.OpSync, vstor.OpCreate}[r.Intn(3)], Type: storage.TypeTable}
			w.st.AddFault(ft)
			n := r.Range(4, 9)
			recs := make([]dbh.Rec, n)
			for j := range recs {
				k := s.keys[r.Intn(len(s.keys))]
				v := bytes.Repeat([]byte{byte('A' + j)}, s.cap0/3+r.Range(0, 10))
				recs[j] = dbh.Rec{K: k, V: v}
			}
			s.mutate(recs, true, true)
			w.st.Heal()
			if ft.Hits == 0 {
				out.count("bytes_write_fault_not_hit")
			} else {
				out.nontrivial = true
			}
			s.reads(3)
			s.walk()
		}
	}
	if held != nil {
		got, err := scanIter(held)
		held = nil
		if err != nil {
			s.bad("the iterator held across the transaction's writes reports %v", err)
		} else if d := diffMap(got, heldWant); d != "" {
			s.bad("the iterator created inside the transaction changed while the transaction went on writing: %s", d)
		}
		s.ev("VIterRelease")
	}
	s.reads(2)
	if out.fail != "" {
		return
	}
	if !s.sameVersion() {
		s.dead = true
		s.out.count("bytes_case_dropped_at_line_656")
		out.count("bytes_case_dropped_version_moved")
	}

	// ---- the end
	before, _ := s.observe()
	// the table Commit's own flush writes shows up in level 0 of the new version / in tr.tables
	commitFlush := func(after *txnObs, newVer []leveldb.VerifTable) (string, bool) {
		if before.info.MemLen == 0 {
			return "KFNone", true
		}
		var t *leveldb.VerifTable
		if after != nil {
			if len(after.tables) == len(before.tables)+1 {
				t = &after.tables[len(after.tables)-1]
			}
		} else {
			known := map[int64]bool{}
			for _, x := range s.ver {
				known[x.Num] = true
			}
			for _, x := range before.tables {
				known[x.Num] = true
			}
			for i := range newVer {
				if newVer[i].Level == 0 && !known[newVer[i].Num] {
					t = &newVer[i]
				}
			}
		}
		if t == nil {
			return "", false
		}
		kf, ok := coqKF(w.st, *t)
		if !ok {
			return "", false
		}
		s.nflush++
		return fmt.Sprintf("(KFOk %s %d)", kf, before.mem.KvCap), true
	}
	manNow := func() ([][]byte, bool) {
		return manifestRecords(w.st, leveldb.VerifSession(w.db).ManifestNum)
	}
	commitOK := func(what string) bool {
		wasRot := rot()
		cerr, fail := slowCall(what, tr.Commit)
		if fail != "" || cerr != nil {
			s.bad("%s: %s%v", what, fail, cerr)
			return false
		}
		trOpen = false
		nv := leveldb.VerifDumpVersion(w.db)
		fl, ok1 := commitFlush(nil, nv)
		man, ok2 := manNow()
		// Commit triggers a table compaction when level 0 is full; its commit may land before the manifest is read.
		// The version must be exactly the pinned one plus the transaction's tables, before and after the read.
		want := len(s.ver) + len(before.tables)
		if before.info.MemLen != 0 {
			want++
		}
		nv2 := leveldb.VerifDumpVersion(w.db)
		stable := len(nv) == want && len(nv2) == want
		for i := 0; stable && i < len(nv); i++ {
			stable = nv[i].Num == nv2[i].Num && nv[i].Level == nv2[i].Level
		}
		if !stable {
			s.dead = true
			out.count("bytes_case_dropped_compaction_after_commit")
		}
		nf := int64(0)
		if ok2 && len(man) > 0 {
			nf, _ = decodeNextFile(man[len(man)-1])
		}
		if !ok1 || !ok2 {
			s.dead = true
			s.out.count("bytes_case_dropped_at_line_715")
		}
		s.ev("VCommit %s [KA true false %s %d] true %s %d false", fl, vlib.CoqBool(wasRot), nf, coqHexList(man), leveldb.VerifSeq(w.db))
		// (P) everything the transaction applied is visible now, nothing else changed
		if f := checkView(w.db, s.keys, s.ovl, "after Commit"); f != "" {
			s.bad("%s", f)
		}
		sc, err := scanAll(w.db)
		if err == nil {
			if d := diffMap(sc, s.ovl); d != "" {
				s.bad("after Commit (scan): %s", d)
			}
		}
		if leveldb.VerifSeq(w.db) != before.info.Seq {
			s.bad("db.seq = %d after Commit, tr.seq was %d", leveldb.VerifSeq(w.db), before.info.Seq)
		}
		return true
	}
	switch variant {
	case bvPlain, bvIterHeld, bvWriteFault:
		if len(before.tables) > 0 || before.info.MemLen > 0 {
			commitOK("Transaction.Commit")
			out.nontrivial = out.nontrivial || s.nflush >= 2
		} else {
			tr.Discard()
			trOpen = false
			s.dead = true
			s.out.count("bytes_case_dropped_at_line_741")
		}
	case bvWriteFaultDiscard:
		tr.Discard()
		trOpen = false
		man, ok := manNow()
		if !ok {
			s.dead = true
			s.out.count("bytes_case_dropped_at_line_748")
		}
		s.ev("VDiscard (KA true false false 0) %s %d", coqHexList(man), leveldb.VerifSeq(w.db))
		if f := checkView(w.db, s.keys, s.base, "after Discard"); f != "" {
			s.bad("%s", f)
		}
	case bvCommitRetry, bvCommitDiscard:
		if before.info.MemLen == 0 && len(before.tables) == 0 {
			s.mutate([]dbh.Rec{{K: s.keys[0], V: []byte("forced")}}, false, false)
			before, _ = s.observe()
		}
		kind := []int{fMSync, fMSync, fMWrite, fMWriteTorn}[r.Intn(4)]
		out.count("bytes_commit_fault_" + faultNames[kind])
		wasRot := rot()
		sess1 := leveldb.VerifSession(w.db)
		ft = mkFault(kind)
		w.st.AddFault(ft)
		cerr, fail := slowCall("Transaction.Commit while "+faultNames[kind], tr.Commit)
		if fail != "" {
			s.bad("%s", fail)
			return
		}
		if cerr == nil {
			s.bad("Transaction.Commit returned nil while every manifest %s fails", faultNames[kind])
			return
		}
		out.nontrivial = true
		after, ok := s.observe()
		if !ok {
			s.bad("the transaction is closed after a failed Commit")
			return
		}
		fl, ok1 := commitFlush(&after, nil)
		man, ok2 := manifestRecords(w.st, sess1.ManifestNum)
		if !ok1 || !ok2 {
			s.dead = true
			s.out.count("bytes_case_dropped_at_line_783")
		}
		reached := len(man) > len(man0) && !wasRot
		nf1, _ := decodeNextFile(after.info.Rec)
		// attempt 1: flushManifest (or a fresh manifest when the old one is too big); attempts 2 and 3: a fresh
		// manifest each (manifestFailed is set) — they all fail while the fault is on
		s.ev("VCommit %s [KA false %s %s %d; KA false false %s 0; KA false false %s 0] false %s %d true", fl, vlib.CoqBool(reached),
			vlib.CoqBool(wasRot), nf1, vlib.CoqBool(wasRot), vlib.CoqBool(wasRot), coqHexList(man), leveldb.VerifSeq(w.db))
		s.ev("VRec %s", vlib.CoqHex(after.info.Rec))
		// (P) a failed Commit publishes nothing: outside reads and a snapshot taken now show the base, and keep
		// showing it whatever happens to the transaction afterwards
		snap, err := w.db.GetSnapshot()
		if err != nil {
			s.bad("GetSnapshot after a failed Commit: %v", err)
			return
		}
		defer snap.Release()
		snapView := func(what string) {
			got, err := readAll(s.keys, func(k []byte) ([]byte, error) { return snap.Get(k, nil) })
			if err != nil {
				s.bad("%s: %v", what, err)
			} else if d := diffMap(got, restrict(s.base, s.keys)); d != "" {
				s.bad("%s: %s", what, d)
			}
		}
		snapView("a snapshot taken after a failed Commit does not show the base")
		s.reads(3)
		if variant == bvCommitRetry {
			w.st.Heal()
			before, _ = s.observe()
			if commitOK("Transaction.Commit retried after the storage healed") {
				snapView("the snapshot taken between the failed and the successful Commit changed (it now shows the transaction's writes)")
			}
		} else {
			healed := r.Bool()
			if healed {
				w.st.Heal()
			}
			sessB := leveldb.VerifSession(w.db)
			tr.Discard()
			trOpen = false
			w.st.Heal()
			sessA := leveldb.VerifSession(w.db)
			man, ok := manifestRecords(w.st, sessA.ManifestNum)
			if !ok {
				s.dead = true
				s.out.count("bytes_case_dropped_at_line_828")
			}
			freshOK := sessA.ManifestNum != sessB.ManifestNum
			nf := int64(0)
			if freshOK && len(man) > 0 {
				nf, _ = decodeNextFile(man[len(man)-1])
			}
			s.ev("VDiscard (KA %s false false %d) %s %d", vlib.CoqBool(freshOK), nf, coqHexList(man), leveldb.VerifSeq(w.db))
			out.count(fmt.Sprintf("bytes_discard_after_failed_commit_fresh_manifest_%v", freshOK))
			if f := checkView(w.db, s.keys, s.base, "after Discard of a transaction whose Commit failed"); f != "" {
				s.bad("%s", f)
			}
			snapView("the snapshot taken after the failed Commit changed after Discard")
			if leveldb.VerifSeq(w.db) < before.info.Seq {
				s.bad("db.seq = %d after the Discard of a transaction whose failed Commit carried tr.seq = %d: its sequence numbers are not consumed", leveldb.VerifSeq(w.db), before.info.Seq)
			}
		}
	}
	if out.fail != "" || s.dead {
		return
	}
	kcase = fmt.Sprintf("KTxnBytes %d %d %s %s %d %s (Some %s) None [%s] %d %d %d %s [%s] %s %s [%s]",
		w.cfg.CmpID, ri, vlib.CoqBool(verify), fn, w.cfg.FilterBits, vlib.CoqBool(strict),
		coqKM(live), strings.Join(lvs, "; "), dbseq0, sess.JournalNum, sess.SeqNum, vlib.CoqHex([]byte(sess.CmpName)),
		strings.Join(cps, "; "), coqHexList(man0), vlib.CoqBool(sess.ManifestFailed), strings.Join(s.evs, ";\n  "))
	out.count("bytes_k_cases")
	out.count(fmt.Sprintf("bytes_private_flushes_%s", bucket(s.nflush)))
	_ = opt.NoCompression
	return
}

// writeByteCases packs the byte-level cases into files cases_C11_b<i>.v of bounded size.
func writeByteCases(res *vlib.Result, out string, cases []string) {
	if len(cases) == 0 {
		return
	}
	const fileChars = 280000
	sort.SliceStable(cases, func(i, j int) bool { return len(cases[i]) > len(cases[j]) })
	type bin struct {
		items []string
		size  int
	}
	nfiles := 16
	if len(cases) < nfiles {
		nfiles = len(cases)
	}
	bins := make([]*bin, nfiles)
	for i := range bins {
		bins[i] = &bin{}
	}
	for _, c := range cases {
		best := bins[0]
		for _, b := range bins {
			if b.size < best.size {
				best = b
			}
		}
		if best.size+len(c) > fileChars && best.size > 0 {
			best = &bin{}
			bins = append(bins, best)
		}
		best.items = append(best.items, c)
		best.size += len(c)
	}
	n := 0
	for i, b := range bins {
		if len(b.items) == 0 {
			continue
		}
		name := fmt.Sprintf("cases_C11_b%d.v", i)
		var sb strings.Builder
		sb.WriteString("From GL Require Import Corr.C11Run.\n")
		sb.WriteString("From Coq Require Import List NArith ZArith String.\nImport ListNotations.\nOpen Scope string_scope.\nOpen Scope N_scope.\n")
		sb.WriteString(fmt.Sprintf("Definition cases : list c11bcase :=\n %s.\n", vlib.CoqList(b.items)))
		sb.WriteString("Definition M := Eval vm_compute in bmism11 cases.\nPrint M.\n")
		os.WriteFile(filepath.Join(out, name), []byte(sb.String()), 0o644)
		res.KCaseFiles = append(res.KCaseFiles, fmt.Sprintf("%s:%d", name, n))
		n += len(b.items)
	}
	res.KCases += n
}
