package main

import (
	"fmt"

	"github.com/syndtr/goleveldb/leveldb"
	"github.com/syndtr/goleveldb/leveldb/opt"
	"github.com/syndtr/goleveldb/leveldb/storage"
	"github.com/syndtr/goleveldb/leveldb/util"
	"verifharness/lib/dbh"
	"verifharness/lib/vlib"
	"verifharness/lib/vstor"
)

// Case is the replayable description of one evaluated case: programs carry their op list, scenarios are a
// deterministic function of (Kind, Seed, Thorough).
type Case struct {
	Kind     string       `json:"kind"`
	Seed     uint64       `json:"seed"`
	Thorough bool         `json:"thorough,omitempty"`
	Prog     *dbh.Program `json:"prog,omitempty"`
	Note     string       `json:"note,omitempty"`
}

// world is a DB over a checker-owned storage with the base map driven alongside.
type world struct {
	r    *vlib.RNG
	cfg  dbh.Cfg
	opts *opt.Options
	pool [][]byte
	st   *vstor.Stor
	stor storage.Storage // what the DB is opened on (st, or a wrapper around it)
	db   *leveldb.DB
	base dbh.Oracle
	tag  uint64
	g    *gen
}

func newWorld(r *vlib.RNG, keepLog bool, tweak func(*dbh.Cfg)) *world {
	w := &world{r: r, cfg: c11Cfg(r), base: dbh.Oracle{}}
	if tweak != nil {
		tweak(&w.cfg)
	}
	w.opts = w.cfg.Options()
	w.pool = dbh.GenPool(r, r.Range(8, 40), false)
	w.st = vstor.New(keepLog)
	w.stor = w.st
	w.g = &gen{r: r, cfg: w.cfg, pool: w.pool}
	return w
}

func (w *world) open() error {
	db, err := leveldb.Open(w.stor, w.opts)
	if err != nil {
		return err
	}
	w.db = db
	return nil
}

// baseWrites issues n acknowledged writes (all synced when sync is set) and drives the base map.
func (w *world) baseWrites(n int, sync bool) error {
	for i := 0; i < n; i++ {
		wo := &opt.WriteOptions{Sync: sync || w.r.Chance(1, 3)}
		switch w.r.Pick(6, 2, 2) {
		case 0:
			k := w.g.key()
			w.g.tag++
			v := c11Value(w.r, w.cfg, k, w.g.tag, false)
			if err := w.db.Put(k, v, wo); err != nil {
				return err
			}
			w.base[string(k)] = v
		case 1:
			k := w.g.key()
			if err := w.db.Delete(k, wo); err != nil {
				return err
			}
			delete(w.base, string(k))
		case 2:
			recs := w.g.recs(w.r.Range(1, 6), false)
			if err := w.db.Write(mkBatch(recs), wo); err != nil {
				return err
			}
			applyRecs(w.base, recs)
		}
	}
	if w.r.Chance(1, 3) {
		if err := w.db.CompactRange(util.Range{}); err != nil {
			return err
		}
	}
	return nil
}

// body draws the records of a transaction body: size classes from one record to many write buffers.
func (w *world) body() []dbh.Rec {
	var n int
	switch w.r.Pick(1, 3, 3) {
	case 0:
		n = 1
	case 1:
		n = w.r.Range(2, 10)
	case 2:
		n = w.r.Range(15, 60)
	}
	recs := w.g.recs(n, w.r.Bool())
	// make sure at least one record changes the visible contents
	k := w.g.key()
	w.g.tag++
	recs = append(recs, dbh.Rec{K: k, V: []byte(fmt.Sprintf("marker-%d", w.g.tag))})
	return recs
}

// writeBody applies the records to the transaction in random groupings (Put / Delete / Write).
func (w *world) writeBody(tr *leveldb.Transaction, recs []dbh.Rec) error {
	for i := 0; i < len(recs); {
		if w.r.Chance(1, 3) && i+1 < len(recs) {
			j := i + w.r.Range(2, 8)
			if j > len(recs) {
				j = len(recs)
			}
			if err := tr.Write(mkBatch(recs[i:j]), nil); err != nil {
				return err
			}
			i = j
			continue
		}
		rec := recs[i]
		var err error
		if rec.Del {
			err = tr.Delete(rec.K, nil)
		} else {
			err = tr.Put(rec.K, rec.V, nil)
		}
		if err != nil {
			return err
		}
		i++
	}
	return nil
}

func (w *world) overlay(recs []dbh.Rec) dbh.Oracle {
	m := w.base.Clone()
	applyRecs(m, recs)
	return m
}

// keys the checks read: the pool plus every key of the records plus an absent one.
func (w *world) keys(recs []dbh.Rec) [][]byte {
	ks := append([][]byte{}, w.pool...)
	ks = append(ks, []byte("\x02absent"))
	return ks
}
