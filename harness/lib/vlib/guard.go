package vlib

import (
	"bufio"
	"encoding/json"
	"fmt"
	"os"
	"os/exec"
	"path/filepath"
	"sort"
	"strconv"
	"strings"
	"sync"
	"time"
)

// Crash attribution for harnesses that run the implementation in-process: a panic in one of the implementation's
// background goroutines kills the whole harness process before any result is written. With a Guard the harness runs as a
// child of itself; the child logs "S <idx>" / "F <idx>" per case; when the child dies the parent re-runs the cases that were
// in flight one at a time (each in its own child), records the ones that kill their process again as violations (with the
// head of the panic text), and re-runs the whole set with those cases replaced by the recorded violation. The final
// result.json is always written by a child that ran to completion.

const (
	envChild = "VERIF_GUARD_CHILD"
	envOnly  = "VERIF_GUARD_ONLY"
	envCrash = "VERIF_GUARD_CRASHFILE"
)

// CrashRecord is one case that killed its process.
type CrashRecord struct {
	Idx        int    `json:"idx"`
	Desc       string `json:"desc"`
	Reproduced bool   `json:"reproduced"`
}

// Guard is the child-side handle.
type Guard struct {
	mu      sync.Mutex
	f       *os.File
	only    int
	hasOnly bool
	crashed map[int]CrashRecord
}

// SuperviseIfParent returns true when this process acted as the supervising parent (the caller must then return
// without writing a result: a child did). It returns false in a child, where the caller runs the cases.
func SuperviseIfParent(out string) bool {
	if os.Getenv(envChild) != "" {
		return false
	}
	exe, err := os.Executable()
	if err != nil {
		return false // cannot supervise: run in-process as before
	}
	progress := filepath.Join(out, "guard_progress.txt")
	crashFile := filepath.Join(out, "guard_crashes.json")
	var crashes []CrashRecord
	for attempt := 0; attempt < 5; attempt++ {
		os.Remove(progress)
		b, _ := json.Marshal(crashes)
		os.WriteFile(crashFile, b, 0o644)
		cmd := exec.Command(exe, os.Args[1:]...)
		cmd.Env = append(os.Environ(), envChild+"=1", envCrash+"="+crashFile)
		cmd.Stdout = os.Stdout
		errTail := &tailBuf{max: 1 << 16}
		cmd.Stderr = errTail
		if err := cmd.Run(); err == nil {
			return true
		}
		inflight := inFlight(progress)
		head := panicHead(errTail.String())
		found := false
		for _, idx := range inflight {
			died, txt := 0, ""
			for t := 0; t < 3 && died == 0; t++ {
				c := exec.Command(exe, os.Args[1:]...)
				c.Env = append(os.Environ(), envChild+"=1", envOnly+"="+strconv.Itoa(idx), envCrash+"="+crashFile)
				tb := &tailBuf{max: 1 << 16}
				c.Stderr = tb
				done := make(chan error, 1)
				if c.Start() != nil {
					break
				}
				go func() { done <- c.Wait() }()
				select {
				case e := <-done:
					if e != nil {
						died++
						txt = panicHead(tb.String())
					}
				case <-time.After(180 * time.Second):
					c.Process.Kill()
					<-done
				}
			}
			if died > 0 {
				found = true
				crashes = append(crashes, CrashRecord{Idx: idx, Reproduced: true,
					Desc: "the implementation killed the process while this case ran alone (panic in a goroutine of the implementation, not an error return): " + txt})
			}
		}
		if !found {
			// not reproducible one at a time: attribute to the cases in flight so that the run can complete without them
			for _, idx := range inflight {
				crashes = append(crashes, CrashRecord{Idx: idx, Reproduced: false,
					Desc: fmt.Sprintf("the implementation killed the process while cases %v were in flight (not reproduced when each was run alone): %s", inflight, head)})
			}
			if len(inflight) == 0 {
				fmt.Fprintln(os.Stderr, "guard: child died with no case in flight:\n"+errTail.String())
				os.Exit(3)
			}
		}
	}
	fmt.Fprintln(os.Stderr, "guard: child keeps dying")
	os.Exit(3)
	return true
}

// NewGuard is called by the child before running cases.
func NewGuard(out string) *Guard {
	g := &Guard{crashed: map[int]CrashRecord{}}
	if os.Getenv(envChild) == "" {
		return g
	}
	g.f, _ = os.OpenFile(filepath.Join(out, "guard_progress.txt"), os.O_CREATE|os.O_WRONLY|os.O_APPEND, 0o644)
	if s := os.Getenv(envOnly); s != "" {
		g.only, _ = strconv.Atoi(s)
		g.hasOnly = true
	}
	if b, err := os.ReadFile(os.Getenv(envCrash)); err == nil {
		var cs []CrashRecord
		if json.Unmarshal(b, &cs) == nil {
			for _, c := range cs {
				g.crashed[c.Idx] = c
			}
		}
	}
	return g
}

// Only reports whether this child runs a single case (its result is not used; only whether it dies).
func (g *Guard) Only() (int, bool) { return g.only, g.hasOnly }

// Skip says whether case idx must not be run by this child.
func (g *Guard) Skip(idx int) bool { return g.hasOnly && idx != g.only }

// Crashed returns the recorded crash of case idx, if the supervisor found one.
func (g *Guard) Crashed(idx int) (CrashRecord, bool) { c, ok := g.crashed[idx]; return c, ok }

func (g *Guard) note(tag string, idx int) {
	if g.f == nil {
		return
	}
	g.mu.Lock()
	fmt.Fprintf(g.f, "%s %d\n", tag, idx)
	g.mu.Unlock()
}

func (g *Guard) Start(idx int)  { g.note("S", idx) }
func (g *Guard) Finish(idx int) { g.note("F", idx) }

func inFlight(progress string) []int {
	f, err := os.Open(progress)
	if err != nil {
		return nil
	}
	defer f.Close()
	st := map[int]bool{}
	sc := bufio.NewScanner(f)
	for sc.Scan() {
		p := strings.Fields(sc.Text())
		if len(p) != 2 {
			continue
		}
		i, err := strconv.Atoi(p[1])
		if err != nil {
			continue
		}
		if p[0] == "S" {
			st[i] = true
		} else {
			delete(st, i)
		}
	}
	var r []int
	for i := range st {
		r = append(r, i)
	}
	sort.Ints(r)
	return r
}

type tailBuf struct {
	mu  sync.Mutex
	b   []byte
	max int
}

func (t *tailBuf) Write(p []byte) (int, error) {
	t.mu.Lock()
	defer t.mu.Unlock()
	// keep the head (the panic message and the first stack are at the start of a Go crash dump)
	if len(t.b) < t.max {
		n := t.max - len(t.b)
		if n > len(p) {
			n = len(p)
		}
		t.b = append(t.b, p[:n]...)
	}
	return len(p), nil
}

func (t *tailBuf) String() string { t.mu.Lock(); defer t.mu.Unlock(); return string(t.b) }

// panicHead extracts the panic message and the first frames of the implementation from a Go crash dump.
func panicHead(s string) string {
	i := strings.Index(s, "panic:")
	if i < 0 {
		i = strings.Index(s, "fatal error:")
	}
	if i < 0 {
		if len(s) > 400 {
			s = s[:400]
		}
		return strings.TrimSpace(s)
	}
	s = s[i:]
	var keep []string
	for _, l := range strings.Split(s, "\n") {
		l = strings.TrimSpace(l)
		if strings.HasPrefix(l, "panic:") || strings.HasPrefix(l, "fatal error:") || (strings.Contains(l, "goleveldb/leveldb") && !strings.HasPrefix(l, "/")) {
			if len(keep) == 0 || keep[len(keep)-1] != l {
				keep = append(keep, l)
			}
		}
		if len(keep) >= 9 {
			break
		}
	}
	r := strings.Join(keep, " | ")
	if len(r) > 900 {
		r = r[:900]
	}
	return r
}
