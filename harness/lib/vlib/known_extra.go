package vlib

import (
	"encoding/json"
	"fmt"
	"os"
	"path/filepath"
)

// ViolateWith records a (P) failure like ViolateKnown (known = id of an entry `known: property=Cxx id=<known> ...`
// of known_findings*.txt, "" = a plain violation); the replay file additionally carries the fields of extra
// (e.g. trimmed goroutine dumps) next to "case".
func (r *Result) ViolateWith(desc string, replay interface{}, known string, extra map[string]interface{}) {
	r.mu.Lock()
	defer r.mu.Unlock()
	if len(r.Violations) >= 20 {
		return
	}
	name := fmt.Sprintf("replay_%s_%d.json", r.Property, len(r.Violations))
	m := map[string]interface{}{"property": r.Property, "desc": desc, "case": replay}
	if known != "" {
		m["known"] = known
	}
	for k, v := range extra {
		if _, dup := m[k]; !dup {
			m[k] = v
		}
	}
	b, _ := json.MarshalIndent(m, "", " ")
	os.WriteFile(filepath.Join(r.out, name), b, 0o644)
	r.Violations = append(r.Violations, Violation{Desc: desc, Replay: name, Known: known})
}
