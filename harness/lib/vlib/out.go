package vlib

import (
	"encoding/hex"
	"encoding/json"
	"flag"
	"fmt"
	"os"
	"path/filepath"
	"sort"
	"strings"
	"sync"
)

// Args are the common command-line arguments of every harness command.
type Args struct {
	Tier   string
	Seed   uint64
	Out    string
	Replay string
	Extra  string
}

func ParseArgs() Args {
	var a Args
	flag.StringVar(&a.Tier, "tier", "quick", "quick|thorough")
	flag.Uint64Var(&a.Seed, "seed", 1, "seed")
	flag.StringVar(&a.Out, "out", "", "output directory")
	flag.StringVar(&a.Replay, "replay", "", "replay file")
	flag.StringVar(&a.Extra, "extra", "", "free-form extra argument")
	flag.Parse()
	if a.Out == "" {
		fmt.Fprintln(os.Stderr, "missing --out")
		os.Exit(2)
	}
	os.MkdirAll(a.Out, 0o755)
	return a
}

func (a Args) Thorough() bool { return a.Tier == "thorough" }

// Violation is one failure of a property oracle (P) on the implementation.
type Violation struct {
	Desc   string `json:"desc"`
	Replay string `json:"replay"` // file under Out holding the replayable case
	Known  string `json:"known,omitempty"`
}

// Result is what a harness command reports to the check driver (result.json).
type Result struct {
	mu                 sync.Mutex
	Property           string                 `json:"property"`
	Evaluations        int                    `json:"evaluations"`
	DistinctNontrivial int                    `json:"distinct_nontrivial"`
	Rule               string                 `json:"rule"`
	Samples            []interface{}          `json:"samples"`
	Distribution       map[string]int         `json:"distribution"`
	Extra              map[string]interface{} `json:"extra,omitempty"`
	Violations         []Violation            `json:"violations"`
	KCaseFiles         []string               `json:"k_case_files"`
	KCases             int                    `json:"k_cases"`
	seen               map[string]bool
	out                string
}

func NewResult(prop, out, rule string) *Result {
	return &Result{Property: prop, Rule: rule, Distribution: map[string]int{}, Extra: map[string]interface{}{},
		seen: map[string]bool{}, out: out, Violations: []Violation{}, Samples: []interface{}{}, KCaseFiles: []string{}}
}

// Count increments a distribution counter.
func (r *Result) Count(key string, n int) {
	r.mu.Lock()
	r.Distribution[key] += n
	r.mu.Unlock()
}

// Eval records one evaluated case; key identifies it for distinctness, nontrivial per the rule.
func (r *Result) Eval(key string, nontrivial bool) {
	r.mu.Lock()
	r.Evaluations++
	if nontrivial && !r.seen[key] {
		r.seen[key] = true
		r.DistinctNontrivial++
	}
	r.mu.Unlock()
}

func (r *Result) Sample(s interface{}) {
	r.mu.Lock()
	if len(r.Samples) < 5 {
		r.Samples = append(r.Samples, s)
	}
	r.mu.Unlock()
}

// Violate records a (P) failure, writing the replay file.
func (r *Result) Violate(desc string, replay interface{}) { r.ViolateKnown(desc, replay, "") }

// ViolateKnown records a (P) failure attributed to the known finding with the given id (see
// /verif/known_findings.txt); the check driver prints KNOWN-FINDING for it instead of VIOLATION when the
// id is listed there.
func (r *Result) ViolateKnown(desc string, replay interface{}, known string) {
	r.mu.Lock()
	defer r.mu.Unlock()
	if len(r.Violations) >= 20 {
		return
	}
	name := fmt.Sprintf("replay_%s_%d.json", r.Property, len(r.Violations))
	b, _ := json.MarshalIndent(map[string]interface{}{"property": r.Property, "desc": desc, "case": replay}, "", " ")
	os.WriteFile(filepath.Join(r.out, name), b, 0o644)
	r.Violations = append(r.Violations, Violation{Desc: desc, Replay: name, Known: known})
}

func (r *Result) NViolations() int {
	r.mu.Lock()
	defer r.mu.Unlock()
	return len(r.Violations)
}

func (r *Result) Write() {
	r.mu.Lock()
	defer r.mu.Unlock()
	b, _ := json.MarshalIndent(r, "", " ")
	os.WriteFile(filepath.Join(r.out, "result.json"), b, 0o644)
}

// ---- Coq case files ----

// CoqHex renders a byte string as a Coq string literal of hex digits (decoded by Base.Bytes.unhex).
func CoqHex(b []byte) string { return `"` + hex.EncodeToString(b) + `"` }

func CoqOptHex(b []byte) string {
	if b == nil {
		return "None"
	}
	return "(Some " + CoqHex(b) + ")"
}

func CoqBool(b bool) string {
	if b {
		return "true"
	}
	return "false"
}

// CoqList renders items as a Coq list literal.
func CoqList(items []string) string { return "[" + strings.Join(items, ";\n ") + "]" }

// WriteCases shards the rendered cases into files cases_<prop>_<i>.v in out; each file defines M by
// vm_compute of `mismatchFn cases` and prints it.  header is e.g. "From GL Require Import Corr.C15Run."
func (r *Result) WriteCases(header, caseType, mismatchFn string, cases []string, shards int) {
	if shards < 1 {
		shards = 1
	}
	if len(cases) < shards {
		shards = 1
	}
	per := (len(cases) + shards - 1) / shards
	for i := 0; i < shards; i++ {
		lo, hi := i*per, (i+1)*per
		if lo >= len(cases) {
			break
		}
		if hi > len(cases) {
			hi = len(cases)
		}
		name := fmt.Sprintf("cases_%s_%d.v", r.Property, i)
		var sb strings.Builder
		sb.WriteString(header + "\n")
		sb.WriteString("From Coq Require Import List NArith String.\nImport ListNotations.\nOpen Scope string_scope.\nOpen Scope N_scope.\n")
		sb.WriteString(fmt.Sprintf("Definition cases : list %s :=\n %s.\n", caseType, CoqList(cases[lo:hi])))
		sb.WriteString(fmt.Sprintf("Definition M := Eval vm_compute in %s cases.\nPrint M.\n", mismatchFn))
		os.WriteFile(filepath.Join(r.out, name), []byte(sb.String()), 0o644)
		r.KCaseFiles = append(r.KCaseFiles, fmt.Sprintf("%s:%d", name, lo))
	}
	r.KCases += len(cases)
}

// SortedKeys is a helper for deterministic iteration.
func SortedKeys(m map[string]int) []string {
	var ks []string
	for k := range m {
		ks = append(ks, k)
	}
	sort.Strings(ks)
	return ks
}
