// Package vlib: shared helpers for the verification harness commands.
package vlib

// RNG is splitmix64; every random choice of a run derives from one state.
type RNG struct{ s uint64 }

func NewRNG(seed uint64) *RNG { return &RNG{s: seed*0x9e3779b97f4a7c15 + 0x1234567} }

func (r *RNG) Uint64() uint64 {
	r.s += 0x9e3779b97f4a7c15
	z := r.s
	z = (z ^ (z >> 30)) * 0xbf58476d1ce4e5b9
	z = (z ^ (z >> 27)) * 0x94d049bb133111eb
	return z ^ (z >> 31)
}

// Intn returns a value in [0,n).
func (r *RNG) Intn(n int) int {
	if n <= 0 {
		return 0
	}
	return int(r.Uint64() % uint64(n))
}

// Range returns a value in [lo,hi].
func (r *RNG) Range(lo, hi int) int { return lo + r.Intn(hi-lo+1) }

func (r *RNG) Bool() bool { return r.Uint64()&1 == 1 }

// Chance returns true with probability num/den.
func (r *RNG) Chance(num, den int) bool { return r.Intn(den) < num }

// Fork derives an independent generator (for parallel workers / per-case streams).
func (r *RNG) Fork() *RNG { return &RNG{s: r.Uint64()} }

// Pick chooses an index according to integer weights.
func (r *RNG) Pick(weights ...int) int {
	t := 0
	for _, w := range weights {
		t += w
	}
	x := r.Intn(t)
	for i, w := range weights {
		if x < w {
			return i
		}
		x -= w
	}
	return len(weights) - 1
}

// Bytes returns n random bytes drawn from alphabet (all 256 values if alphabet is nil).
func (r *RNG) Bytes(n int, alphabet []byte) []byte {
	b := make([]byte, n)
	for i := range b {
		if alphabet == nil {
			b[i] = byte(r.Uint64())
		} else {
			b[i] = alphabet[r.Intn(len(alphabet))]
		}
	}
	return b
}
