package vlib

import (
	"bytes"

	"github.com/syndtr/goleveldb/leveldb/comparer"
)

// Custom comparers satisfying the documented contract; their Coq twins are in Codec/BytesCmp.v.

// ShortLex orders shorter keys first, then bytewise; it never shortens.
type ShortLex struct{}

func (ShortLex) Name() string { return "verif.ShortLex" }
func (ShortLex) Compare(a, b []byte) int {
	if len(a) != len(b) {
		if len(a) < len(b) {
			return -1
		}
		return 1
	}
	return bytes.Compare(a, b)
}
func (ShortLex) Separator(dst, a, b []byte) []byte { return nil }
func (ShortLex) Successor(dst, b []byte) []byte    { return nil }

// Xor orders keys bytewise after xor-ing every byte with Mask; Separator/Successor shorten.
type Xor struct{ Mask byte }

func (x Xor) m(a []byte) []byte {
	r := make([]byte, len(a))
	for i, c := range a {
		r[i] = c ^ x.Mask
	}
	return r
}
func (x Xor) Name() string            { return "verif.Xor" }
func (x Xor) Compare(a, b []byte) int { return bytes.Compare(x.m(a), x.m(b)) }
func (x Xor) Separator(dst, a, b []byte) []byte {
	r := comparer.DefaultComparer.Separator(nil, x.m(a), x.m(b))
	if r == nil {
		return nil
	}
	return append(dst, x.m(r)...)
}
func (x Xor) Successor(dst, b []byte) []byte {
	r := comparer.DefaultComparer.Successor(nil, x.m(b))
	if r == nil {
		return nil
	}
	return append(dst, x.m(r)...)
}

// CaseFold orders keys bytewise after mapping the ASCII letters 'A'..'Z' to 'a'..'z': a lawful total
// PREORDER on byte strings that is NOT injective ("Key", "KEY" and "key" compare equal: they are one user
// key).  goleveldb's own test suite uses such a comparer (numberComparer in leveldb/db_test.go) and LevelDB's
// contract only asks for a total order, although the doc comment of comparer.BasicComparer says that
// arguments are equal only if their contents are exactly equal.  Separator/Successor never shorten (nil is
// always lawful: iComparer.Separator/Successor return nil on nil and the table writer then keeps the key).
// Coq twin: Codec/CiCmp.v cicmp.
type CaseFold struct{}

func foldByte(c byte) byte {
	if c >= 'A' && c <= 'Z' {
		return c + 32
	}
	return c
}

func (CaseFold) Name() string { return "verif.CaseFold" }
func (CaseFold) Compare(a, b []byte) int {
	n := len(a)
	if len(b) < n {
		n = len(b)
	}
	for i := 0; i < n; i++ {
		x, y := foldByte(a[i]), foldByte(b[i])
		if x != y {
			if x < y {
				return -1
			}
			return 1
		}
	}
	switch {
	case len(a) < len(b):
		return -1
	case len(a) > len(b):
		return 1
	}
	return 0
}
func (CaseFold) Separator(dst, a, b []byte) []byte { return nil }
func (CaseFold) Successor(dst, b []byte) []byte    { return nil }

// Canon returns the canonical spelling of k's equivalence class (all letters lower case).
func (CaseFold) Canon(k []byte) []byte {
	r := make([]byte, len(k))
	for i, c := range k {
		r[i] = foldByte(c)
	}
	return r
}

// Canoner is implemented by the comparers under which byte-different keys may compare equal.
type Canoner interface {
	Canon(k []byte) []byte
}

// NonInjective reports whether byte-different keys may compare equal under c.
func NonInjective(c comparer.Comparer) bool { _, ok := c.(Canoner); return ok }

// CanonKey is the canonical spelling of k's class under c (k itself for the injective comparers).
func CanonKey(c comparer.Comparer, k []byte) []byte {
	if cn, ok := c.(Canoner); ok {
		return cn.Canon(k)
	}
	return k
}

// CmpCaseFold is the id of the non-injective comparer.
const CmpCaseFold = 4

// Comparers indexed by the id used in Coq case files (Corr/Cmps.v: cmp_of_id).
func ComparerByID(id int) comparer.Comparer {
	switch id {
	case 0:
		return comparer.DefaultComparer
	case 1:
		return ShortLex{}
	case 2:
		return Xor{0x55}
	case 3:
		return Xor{0xff}
	case 4:
		return CaseFold{}
	}
	panic("bad comparer id")
}

// NumComparers counts the INJECTIVE comparers (ids 0..3): the generators that draw "any comparer" (table, block,
// memdb, codec level checks whose oracles are keyed by key bytes) stay on these; id 4 (CaseFold) is selected
// explicitly by the DB-level harnesses whose oracle is keyed by equivalence class.
const NumComparers = 4
