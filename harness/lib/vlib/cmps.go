package vlib

import (
	"bytes"

	"github.com/syndtr/goleveldb/leveldb/comparer"
)

// Custom comparers satisfying the documented contract; their Coq twins are in Codec/BytesCmp.v.

// ShortLex orders shorter keys first, then bytewise; it never shortens.
type ShortLex struct{}

func (ShortLex) Name() string { return "verif.ShortLex" }
func (ShortLex) Compare(a, b []byte) int {
	if len(a) != len(b) {
		if len(a) < len(b) {
			return -1
		}
		return 1
	}
	return bytes.Compare(a, b)
}
func (ShortLex) Separator(dst, a, b []byte) []byte { return nil }
func (ShortLex) Successor(dst, b []byte) []byte    { return nil }

// Xor orders keys bytewise after xor-ing every byte with Mask; Separator/Successor shorten.
type Xor struct{ Mask byte }

func (x Xor) m(a []byte) []byte {
	r := make([]byte, len(a))
	for i, c := range a {
		r[i] = c ^ x.Mask
	}
	return r
}
func (x Xor) Name() string            { return "verif.Xor" }
func (x Xor) Compare(a, b []byte) int { return bytes.Compare(x.m(a), x.m(b)) }
func (x Xor) Separator(dst, a, b []byte) []byte {
	r := comparer.DefaultComparer.Separator(nil, x.m(a), x.m(b))
	if r == nil {
		return nil
	}
	return append(dst, x.m(r)...)
}
func (x Xor) Successor(dst, b []byte) []byte {
	r := comparer.DefaultComparer.Successor(nil, x.m(b))
	if r == nil {
		return nil
	}
	return append(dst, x.m(r)...)
}

// Comparers indexed by the id used in Coq case files (Corr/Cmps.v: cmp_of_id).
func ComparerByID(id int) comparer.Comparer {
	switch id {
	case 0:
		return comparer.DefaultComparer
	case 1:
		return ShortLex{}
	case 2:
		return Xor{0x55}
	case 3:
		return Xor{0xff}
	}
	panic("bad comparer id")
}

const NumComparers = 4
