package dbh

import (
	"bytes"
	"encoding/binary"
	"fmt"

	"github.com/syndtr/goleveldb/leveldb"
	"github.com/syndtr/goleveldb/leveldb/comparer"
	"github.com/syndtr/goleveldb/leveldb/storage"
	"verifharness/lib/vlib"
	"verifharness/lib/vstor"
)

// EncodeIKey builds the byte form of an internal key.
func EncodeIKey(u []byte, seq uint64, kind uint) []byte {
	b := append([]byte{}, u...)
	var t [8]byte
	binary.LittleEndian.PutUint64(t[:], seq<<8|uint64(kind))
	return append(b, t[:]...)
}

func ukeyOf(ik []byte) []byte { return ik[:len(ik)-8] }

// CheckVersionWf checks the well-formedness conditions of property C06 on a newly installed version:
// every table exists with its recorded size, is non-empty and strictly ordered, its recorded smallest/largest
// keys are its first/last entries; level 0 is ordered newest first; deeper levels are ordered and cover
// pairwise disjoint user-key ranges; for one user key every entry of a shallower level is newer than every
// entry of a deeper level.  cache maps table numbers to their entries (filled through e.Read).
func CheckVersionWf(cmp comparer.Comparer, e leveldb.VerifEdit, cache map[int64][]leveldb.VerifEntry, stor *vstor.Stor) []string {
	var msgs []string
	bad := func(f string, a ...interface{}) { msgs = append(msgs, fmt.Sprintf(f, a...)) }
	live := map[int64]bool{}
	for _, t := range e.Version {
		live[t.Num] = true
		if _, ok := cache[t.Num]; !ok {
			ents, err := e.Read(t)
			if err != nil {
				bad("table %d (level %d): read error %v", t.Num, t.Level, err)
			}
			cache[t.Num] = ents
		}
	}
	for n := range cache {
		if !live[n] {
			delete(cache, n)
		}
	}
	icmp := func(a, b leveldb.VerifEntry) int {
		if c := cmp.Compare(a.Ukey, b.Ukey); c != 0 {
			return c
		}
		na, nb := a.Seq<<8|uint64(a.Kind), b.Seq<<8|uint64(b.Kind)
		if na > nb {
			return -1
		} else if na < nb {
			return 1
		}
		return 0
	}
	type span struct{ min, max uint64 }
	perLevel := map[int]map[string]span{}
	var prev *leveldb.VerifTable
	for i := range e.Version {
		t := e.Version[i]
		ents := cache[t.Num]
		if stor != nil {
			data, _, ok := stor.FileBytes(storage.FileDesc{Type: storage.TypeTable, Num: t.Num})
			if !ok {
				bad("table %d (level %d) is live but its file does not exist", t.Num, t.Level)
			} else if int64(len(data)) != t.Size {
				bad("table %d: recorded size %d, file length %d", t.Num, t.Size, len(data))
			}
		}
		if len(ents) == 0 {
			bad("table %d (level %d) has no entries", t.Num, t.Level)
			continue
		}
		for j := 1; j < len(ents); j++ {
			if icmp(ents[j-1], ents[j]) >= 0 {
				bad("table %d: entries %d,%d not strictly increasing (%x/%d, %x/%d)", t.Num, j-1, j, ents[j-1].Ukey, ents[j-1].Seq, ents[j].Ukey, ents[j].Seq)
				break
			}
		}
		first, last := ents[0], ents[len(ents)-1]
		if !bytes.Equal(t.Imin, EncodeIKey(first.Ukey, first.Seq, first.Kind)) {
			bad("table %d: recorded smallest key %x is not its first entry %x", t.Num, t.Imin, EncodeIKey(first.Ukey, first.Seq, first.Kind))
		}
		if !bytes.Equal(t.Imax, EncodeIKey(last.Ukey, last.Seq, last.Kind)) {
			bad("table %d: recorded largest key %x is not its last entry %x", t.Num, t.Imax, EncodeIKey(last.Ukey, last.Seq, last.Kind))
		}
		if prev != nil && prev.Level == t.Level {
			if t.Level == 0 {
				if !(prev.Num > t.Num) {
					bad("level 0 not ordered newest first: table %d before %d", prev.Num, t.Num)
				}
			} else if len(prev.Imax) >= 8 && len(t.Imin) >= 8 {
				if cmp.Compare(ukeyOf(prev.Imax), ukeyOf(t.Imin)) >= 0 {
					bad("level %d: tables %d and %d overlap or are out of order (largest %x, next smallest %x)", t.Level, prev.Num, t.Num, ukeyOf(prev.Imax), ukeyOf(t.Imin))
				}
			}
		}
		prev = &e.Version[i]
		m := perLevel[t.Level]
		if m == nil {
			m = map[string]span{}
			perLevel[t.Level] = m
		}
		for _, en := range ents {
			ck := string(vlib.CanonKey(cmp, en.Ukey)) // one user key = one equivalence class of the comparer
			s, ok := m[ck]
			if !ok {
				s = span{en.Seq, en.Seq}
			}
			if en.Seq < s.min {
				s.min = en.Seq
			}
			if en.Seq > s.max {
				s.max = en.Seq
			}
			m[ck] = s
		}
	}
	maxLevel := 0
	for l := range perLevel {
		if l > maxLevel {
			maxLevel = l
		}
	}
	for hi := 0; hi <= maxLevel; hi++ {
		for lo := hi + 1; lo <= maxLevel; lo++ {
			for k, s := range perLevel[hi] {
				if d, ok := perLevel[lo][k]; ok && !(s.min > d.max) {
					bad("user key %x: level %d holds seq %d which is not newer than seq %d at deeper level %d", k, hi, s.min, d.max, lo)
				}
			}
		}
	}
	return msgs
}
