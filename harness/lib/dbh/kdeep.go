package dbh

import (
	"bytes"
	"encoding/json"
	"fmt"
	"os"
	"sort"
	"time"

	"github.com/syndtr/goleveldb/leveldb"
	"github.com/syndtr/goleveldb/leveldb/storage"
	"github.com/syndtr/goleveldb/leveldb/util"
	"verifharness/lib/vlib"
	"verifharness/lib/vstor"
)

// Directed "deep tree" scenarios for the retry logic of table compactions (tableCompactionBuilder.run under
// compactionTransact, compaction.save/restore with the baseLevelForKey cursors):
//   build    rounds of Puts over a sorted key pool with tiny CompactionTableSize / CompactionTotalSize, each flushed and
//            settled, until at least three levels are populated and a level >= 2 holds several tables (natural size-triggered
//            compactions, plus CompactRange of sub-ranges);
//   delete   waves of Deletes (contiguous runs over keys whose values now live two or more levels below, plus scattered
//            ones and a few overwrites), flushed into level 0 by a reopen; earlier waves are compacted down by the automatic
//            trigger, so that deletion markers also sit in level 1 over values in level 3 and deeper;
//   drive    (K + P, optional) on the quiescent DB the builder of the whole-level compaction of every populated level is run
//            failure-free and then attempt by attempt under transient table faults placed with the write/sync/create counts of
//            the failure-free run (so that failures fall anywhere in an output table, also right before its end, when the
//            cursors have moved past deeper tables since the last snapshot); both must write the same tables; the faulted
//            drive becomes a KRetry case;
//   compact  (P) ONE transient table write/sync/create fault is armed, DB.CompactRange runs over everything (the real
//            compactionTransact retries the builder), the storage is healed, the DB settles; then every key is read: a
//            deleted key must be not-found, every other key must hold its last value, a full scan must equal the oracle,
//            and a snapshot taken after the deletions must still show exactly what it showed when it was taken.

// DeepSpec identifies a scenario (everything else is derived from the seed).
type DeepSpec struct {
	DeepSeed uint64 `json:"deep_seed"`
	// Snapshot: a snapshot is taken after the deletion waves (and a few more writes follow): its view must stay frozen
	Snapshot bool `json:"snapshot,omitempty"`
	// NoDrive: skip the builder drives (properties that only use the DB-level oracle)
	NoDrive bool `json:"no_drive,omitempty"`
}

// LoadDeepSpec reads a replay file written for a deep-tree violation.
func LoadDeepSpec(path string) (*DeepSpec, bool) {
	b, err := os.ReadFile(path)
	if err != nil {
		return nil, false
	}
	var w struct {
		Case json.RawMessage `json:"case"`
	}
	if json.Unmarshal(b, &w) == nil && w.Case != nil {
		b = w.Case
	}
	var raw map[string]json.RawMessage
	if json.Unmarshal(b, &raw) != nil {
		return nil, false
	}
	if _, ok := raw["deep_seed"]; !ok {
		return nil, false
	}
	var s DeepSpec
	if json.Unmarshal(b, &s) != nil {
		return nil, false
	}
	return &s, true
}

// DeepResult is what a scenario run ends with.
type DeepResult struct {
	Failure string
	Stats   map[string]int
	Cases   []KCand // KRetry cases of the faulted drives
}

func deepCfg(r *vlib.RNG) Cfg {
	return Cfg{
		WriteBuffer:     1 << 20, // flushes happen only where the scenario asks for them
		TableSize:       pickInt(r, 384, 512, 512, 768, 1024),
		TotalSize:       pickInt(r, 1536, 2048, 2048, 3072),
		L0Trigger:       1, // every flushed table is compacted at once (raised before the last deletion wave)
		BlockSize:       pickInt(r, 64, 64, 128, 256),
		RestartInterval: pickInt(r, 1, 2, 16),
		Snappy:          r.Chance(1, 3),
		FilterBits:      pickInt(r, 0, 0, 10),
		BlockCache:      pickInt(r, -1, 0, 4096),
		NoBufferPool:    r.Chance(1, 3),
		DisableSeeks:    true, // seek compactions depend on read timing
		CmpID:           pickInt(r, 0, 0, 0, 1, 2, 3),
	}
}

func deepPool(r *vlib.RNG, n int) [][]byte {
	seen := map[string]bool{}
	var pool [][]byte
	add := func(k []byte) {
		if !seen[string(k)] {
			seen[string(k)] = true
			pool = append(pool, k)
		}
	}
	for _, k := range GenPool(r, n/5, false) {
		add(k)
	}
	step := r.Range(1, 9)
	for i := 0; len(pool) < n; i++ {
		add([]byte(fmt.Sprintf("d%05d", i*step)))
	}
	return pool
}

// RunDeep runs the scenario of spec; collect: render the faulted builder drives as KRetry cases.
func RunDeep(spec DeepSpec, collect bool) (res DeepResult) {
	res.Stats = map[string]int{}
	root := vlib.NewRNG(spec.DeepSeed)
	r := root.Fork()  // scenario
	fr := root.Fork() // faults
	cfg := deepCfg(r)
	// enough data for four levels: about 60 bytes a pair against level limits of TotalSize, 2x, 4x (or 3x, 9x)
	pool := deepPool(r, maxInt(r.Range(90, 220), cfg.TotalSize*4/60))
	p := &Program{Cfg: cfg, Seed: spec.DeepSeed}
	for _, k := range pool {
		p.Pool = append(p.Pool, HexBytes(k))
	}
	rn, _ := NewRunner(p, false)
	rn.Opts.CompactionTotalSizeMultiplier = float64(pickInt(r, 2, 2, 3))
	rn.CheckWf = false // the check re-reads tables through the storage the faults are injected into
	sort.Slice(pool, func(i, j int) bool { return rn.Cmp.Compare(pool[i], pool[j]) < 0 })
	defer rn.Forget()
	done := make(chan struct{})
	go func() {
		defer close(done)
		defer func() {
			if x := recover(); x != nil {
				res.Failure = fmt.Sprintf("panic: %v", x)
			}
		}()
		runDeepBody(spec, rn, r, fr, pool, &res, collect)
	}()
	select {
	case <-done:
	case <-time.After(90 * time.Second):
		res.Failure = "deep-tree scenario did not finish within 90 s"
		rn.Stor.Heal()
		go func() {
			defer func() { recover() }()
			if db := rn.DB; db != nil {
				db.Close()
			}
		}()
	}
	return res
}

func runDeepBody(spec DeepSpec, rn *Runner, r, fr *vlib.RNG, pool [][]byte, res *DeepResult, collect bool) {
	if err := rn.Open(); err != nil {
		res.Failure = fmt.Sprintf("Open error %v", err)
		return
	}
	defer func() { rn.Stor.Heal(); rn.Close() }()
	db := rn.DB
	model := map[string][]byte{}
	deleted := map[string]bool{} // keys whose last write is a Delete
	fail := func(f string, a ...interface{}) {
		if res.Failure == "" {
			res.Failure = fmt.Sprintf(f, a...)
		}
	}
	tag := 0
	value := func() []byte {
		tag++
		v := []byte(fmt.Sprintf("%d:", tag))
		n := r.Range(20, 70)
		for len(v) < n {
			v = append(v, byte('a'+(len(v)+tag)%26))
		}
		return v
	}
	put := func(k []byte) bool {
		v := value()
		if err := db.Put(k, v, nil); err != nil {
			fail("Put error %v", err)
			return false
		}
		model[string(k)] = v
		delete(deleted, string(k))
		return true
	}
	del := func(k []byte) bool {
		if err := db.Delete(k, nil); err != nil {
			fail("Delete error %v", err)
			return false
		}
		delete(model, string(k))
		deleted[string(k)] = true
		return true
	}
	settle := func(what string) bool {
		if !leveldb.VerifWaitIdle(db, 40*time.Second) {
			fail("DB not idle 40 s after %s", what)
			return false
		}
		return true
	}
	reopen := func() bool {
		// flushing through a reopen: recovery writes the journal into a level-0 table before the compaction goroutines start
		if err := rn.Close(); err != nil {
			fail("Close error %v", err)
			return false
		}
		if err := rn.Open(); err != nil {
			fail("reopen error %v", err)
			return false
		}
		db = rn.DB
		return settle("a reopen")
	}
	shape := func() (levels, deepTables int) {
		ver := leveldb.VerifDumpVersion(db)
		for l := 0; l < numLevels(ver); l++ {
			if n := len(levelOf(ver, l)); n > 0 {
				levels++
				if l >= 2 && n > deepTables {
					deepTables = n
				}
			}
		}
		return
	}
	// view compares what get/scan show with want; gone lists keys that must be not-found because they were deleted
	view := func(when string, want map[string][]byte, gone map[string]bool, get func([]byte) ([]byte, error), scan func() ([][2][]byte, error)) bool {
		back := 0
		first := ""
		for _, k := range pool {
			v, err := get(k)
			w, ok := want[string(k)]
			switch {
			case err == leveldb.ErrNotFound && !ok:
			case err == nil && ok && bytes.Equal(v, w):
			case err == nil && !ok && gone[string(k)]:
				back++
				if first == "" {
					first = fmt.Sprintf("Get(%x) = %q, expected not found", k, short(v))
				}
			default:
				fail("%s: Get(%x) = %q, %v; expected present=%v %q", when, k, short(v), err, ok, short(w))
				return false
			}
		}
		if back > 0 {
			fail("%s: %d of %d deleted keys are back (%s)", when, back, len(gone), first)
			return false
		}
		kvs, err := scan()
		if err != nil {
			fail("%s: scan error %v", when, err)
			return false
		}
		if len(kvs) != len(want) {
			fail("%s: a full scan yields %d pairs, the oracle holds %d", when, len(kvs), len(want))
			return false
		}
		for i, kv := range kvs {
			w, ok := want[string(kv[0])]
			if !ok || !bytes.Equal(w, kv[1]) {
				fail("%s: scan pair %d is %x=%q, the oracle holds present=%v %q", when, i, kv[0], short(kv[1]), ok, short(w))
				return false
			}
			if i > 0 && rn.Cmp.Compare(kvs[i-1][0], kv[0]) >= 0 {
				fail("%s: scan pair %d (%x) is not above its predecessor (%x)", when, i, kv[0], kvs[i-1][0])
				return false
			}
		}
		return true
	}
	scanOf := func(it interface {
		Next() bool
		Key() []byte
		Value() []byte
		Release()
		Error() error
	}) ([][2][]byte, error) {
		var kvs [][2][]byte
		for it.Next() {
			kvs = append(kvs, [2][]byte{append([]byte{}, it.Key()...), append([]byte{}, it.Value()...)})
		}
		err := it.Error()
		it.Release()
		return kvs, err
	}
	liveView := func(when string) bool {
		return view(when, model, deleted, func(k []byte) ([]byte, error) { return db.Get(k, nil) },
			func() ([][2][]byte, error) { return scanOf(db.NewIterator(nil, nil)) })
	}

	// ---- build: values spread over three or more levels
	for round := 0; round < 7; round++ {
		lo, hi := 0, len(pool)
		if round > 0 && r.Chance(1, 3) {
			lo = r.Intn(len(pool) / 2)
			hi = lo + r.Range(len(pool)/4, len(pool)/2)
		}
		for _, k := range pool[lo:hi] {
			if r.Chance(9, 10) && !put(k) {
				return
			}
		}
		if !reopen() {
			return
		}
		if r.Chance(1, 3) {
			// a range compaction of a sub-range pushes that part one level further down than its neighbours
			a := r.Intn(len(pool) - 1)
			b := a + r.Range(1, len(pool)/3)
			if b >= len(pool) {
				b = len(pool) - 1
			}
			if err := db.CompactRange(util.Range{Start: pool[a], Limit: pool[b]}); err != nil {
				fail("CompactRange (build) error %v", err)
				return
			}
			if !settle("a range compaction (build)") {
				return
			}
		}
		if lv, dt := shape(); lv >= 3 && dt >= 4 && (lv >= 4 || r.Chance(1, 2)) {
			break
		}
	}
	lv, dt := shape()
	res.Stats[fmt.Sprintf("deep_populated_levels_%d", minInt(lv, 6))]++
	if dt >= 3 {
		res.Stats["deep_level2plus_with_3_or_more_tables"]++
	}
	if !liveView("after the build rounds") {
		return
	}

	// ---- deletion waves; all but the last are compacted down by the automatic level-0 trigger, the markers of the last
	// one stay in level 0 (the trigger is raised for the reopen that flushes them)
	waves := r.Range(1, 3)
	for w := 0; w < waves; w++ {
		if w == waves-1 {
			rn.Opts.CompactionL0Trigger = 4
		}
		{
			nruns := r.Range(2, 5)
			for i := 0; i < nruns; i++ {
				a := r.Intn(len(pool))
				n := r.Range(8, 8+len(pool)/4)
				for j := a; j < a+n && j < len(pool); j++ {
					if r.Chance(1, 12) {
						continue
					}
					if !del(pool[j]) {
						return
					}
				}
			}
			for i := r.Range(0, len(pool)/8); i > 0; i-- {
				k := pool[r.Intn(len(pool))]
				if r.Chance(2, 3) {
					if !del(k) {
						return
					}
				} else if !put(k) {
					return
				}
			}
			if !reopen() {
				return
			}
		}
	}
	var snap *leveldb.Snapshot
	var snapModel map[string][]byte
	var snapGone map[string]bool
	if spec.Snapshot {
		s, err := db.GetSnapshot()
		if err != nil {
			fail("GetSnapshot error %v", err)
			return
		}
		snap = s
		defer snap.Release()
		snapModel = map[string][]byte{}
		for k, v := range model {
			snapModel[k] = v
		}
		snapGone = map[string]bool{}
		for k := range deleted {
			snapGone[k] = true
		}
		// writes the snapshot must not see (the markers below stay droppable: their sequence numbers are the snapshot's or older)
		for i := r.Range(3, 12); i > 0; i-- {
			k := pool[r.Intn(len(pool))]
			if r.Chance(1, 2) {
				if !put(k) {
					return
				}
			} else if !del(k) {
				return
			}
		}
		// they stay in the write buffer (a reopen would end the snapshot): the range compaction below flushes them first
	}
	snapView := func(when string) bool {
		if snap == nil {
			return true
		}
		return view(when+" (snapshot taken after the deletions)", snapModel, snapGone, func(k []byte) ([]byte, error) { return snap.Get(k, nil) },
			func() ([][2][]byte, error) { return scanOf(snap.NewIterator(nil, nil)) })
	}
	lv, _ = shape()
	res.Stats[fmt.Sprintf("deep_levels_before_compaction_%d", minInt(lv, 6))]++
	res.Stats["deep_deleted_keys"] += len(deleted)
	if !liveView("after the deletion waves") || !snapView("after the deletion waves") {
		return
	}

	// ---- drive the builder of every populated level, failure-free and under faults
	writes0 := 0
	if !spec.NoDrive {
		ver := leveldb.VerifDumpVersion(db)
		for level := 0; level < numLevels(ver) && res.Failure == ""; level++ {
			if len(levelOf(ver, level)) == 0 {
				continue
			}
			tableSize := pickInt(fr, 256, 384, 512, rn.Opts.GetCompactionTableSize(level+1))
			cnt := func(k vstor.OpKind) int { return rn.Stor.Counts(k, storage.TypeTable) }
			w0, s0, c0 := cnt(vstor.OpWrite), cnt(vstor.OpSync), cnt(vstor.OpCreate)
			clean := leveldb.VerifBuilderDrive(db, level, tableSize, true, 1, nil, nil)
			nw, ns, nc := cnt(vstor.OpWrite)-w0, cnt(vstor.OpSync)-s0, cnt(vstor.OpCreate)-c0
			if level == 0 {
				writes0 = nw
			}
			nFail := fr.Range(1, 4)
			faulted := leveldb.VerifBuilderDrive(db, level, tableSize, true, 12, func(i int) {
				if i >= nFail {
					return
				}
				// the k-th write/sync/create counted from the start of the attempt: a resumed attempt writes less than the
				// failure-free run, so k is drawn below the remaining amount where that is known to be positive
				f := &vstor.Fault{Type: storage.TypeTable}
				switch fr.Pick(5, 4, 1) {
				case 0:
					f.Kind, f.K = vstor.OpSync, fr.Intn(maxInt(ns, 1))
				case 1:
					f.Kind, f.K = vstor.OpWrite, fr.Intn(maxInt(nw, 1))
				default:
					f.Kind, f.K = vstor.OpCreate, fr.Intn(maxInt(nc, 1))
				}
				if i > 0 {
					f.K = f.K * (nFail - i) / (nFail + 1)
				}
				rn.Stor.AddFault(f)
			}, func() { rn.Stor.Heal() })
			res.Stats["deep_builder_drives"]++
			if clean != nil {
				nd := 0
				for _, t := range clean.Version {
					if t.Level >= level+2 {
						nd++
					}
				}
				res.Stats[fmt.Sprintf("deep_drive_L%d_tables_two_or_more_levels_down_%s", minInt(level, 3), bucket(nd))]++
			}
			if msg := CompareDrives(clean, faulted); msg != "" {
				fail("deep tree, level %d, table size %d: %s", level, tableSize, msg)
				return
			}
			if faulted == nil {
				continue
			}
			moved := false
			for _, a := range faulted.Attempts {
				if a.Err != "" {
					res.Stats["deep_drive_failed_attempts"]++
					if a.SnapIter > 0 {
						res.Stats["deep_drive_resumes_from_snapshot"]++
					}
					if !intsEq(a.TPtrs, a.SnapTPtrs) {
						moved = true
						res.Stats["deep_drive_failed_attempts_with_cursors_past_snapshot"]++
					}
				}
			}
			if moved {
				res.Stats["deep_drives_with_cursors_rewound"]++
				res.Stats[fmt.Sprintf("deep_drives_with_cursors_rewound_L%d", minInt(level, 3))]++
			}
			if collect {
				// the drives whose restore had cursors to rewind are what this family is for; of the others one in four is kept
				if c, tags, ok := RenderKRetry(rn.Prog.Cfg.CmpID, rn.Opts, faulted); ok && (moved || fr.Chance(1, 4)) {
					tags = append(tags, "k_retry_deep_tree")
					res.Cases = append(res.Cases, KCand{Kind: "retry", Top: moved, Tags: tags, Text: c})
				}
			}
		}
		if res.Failure != "" {
			return
		}
	}

	// ---- the real thing: CompactRange under ONE transient table fault, heal, settle, compare everything
	f := &vstor.Fault{Type: storage.TypeTable}
	span := 2 * writes0
	if span < 8 {
		span = r.Range(8, 60)
	}
	switch fr.Pick(5, 4, 1) {
	case 0:
		f.Kind, f.K = vstor.OpSync, fr.Intn(maxInt(span/12, 2))
	case 1:
		f.Kind, f.K = vstor.OpWrite, fr.Intn(span)
	default:
		f.Kind, f.K = vstor.OpCreate, fr.Intn(maxInt(span/12, 2))
	}
	rn.Stor.AddFault(f)
	err := db.CompactRange(util.Range{})
	idle := leveldb.VerifWaitIdle(db, 40*time.Second)
	rn.Stor.Heal()
	if !idle {
		fail("DB not idle 40 s after a range compaction under one transient table fault (%v k=%d)", f.Kind, f.K)
		return
	}
	res.Stats["deep_compactions_under_fault"]++
	if f.Hits > 0 {
		res.Stats["deep_compaction_fault_hits"]++
		res.Stats[fmt.Sprintf("deep_compaction_fault_hit_%v", f.Kind)]++
	}
	if err != nil {
		res.Stats["deep_compact_range_errors"]++
	}
	if !settle("healing") {
		return
	}
	when := fmt.Sprintf("after CompactRange under one transient table fault (%v k=%d, hits %d) and healing", f.Kind, f.K, f.Hits)
	if !snapView(when) || !liveView(when) {
		return
	}
	// and once more after everything has been pushed down without faults
	if err := db.CompactRange(util.Range{}); err != nil {
		fail("CompactRange after healing: error %v", err)
		return
	}
	if !settle("the final range compaction") {
		return
	}
	when = "after the final fault-free range compaction"
	if !snapView(when) || !liveView(when) {
		return
	}
}

func bucket(n int) string {
	switch {
	case n == 0:
		return "0"
	case n <= 2:
		return "1-2"
	case n <= 5:
		return "3-5"
	}
	return "6+"
}

func maxInt(a, b int) int {
	if a > b {
		return a
	}
	return b
}
